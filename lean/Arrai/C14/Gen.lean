/-
  C14 case generator: arr.ai programs calling //seq.* on the three representations of small
  sequences, with the model's (Impl) and the specification's expected observable.
-/
import Arrai.C14.Model

namespace Arrai.C14

def genXs (maxLen alpha : Nat) : Gen (List Nat) := do
  let n ← rand (maxLen + 1)
  genList n (rand alpha)

/-- a pattern related to `s`: a window of it (½), empty (⅛), or random -/
def genPat (s : List Nat) (alpha : Nat) : Gen (List Nat) := do
  let r ← rand 8
  if r < 4 && !s.isEmpty then
    let st ← rand s.length
    let ln ← rand 4
    pure ((s.drop st).take (ln + 1))
  else if r == 4 then pure []
  else genXs 3 alpha

def genKind : Gen Kind := do
  let r ← rand 3
  pure (match r with | 0 => .S | 1 => .B | _ => .A)

def otherKind (k : Kind) : Gen Kind := do
  let b ← chance 1 2
  pure (match k with
    | .S => if b then .B else .A
    | .B => if b then .S else .A
    | .A => if b then .S else .B)

def kindName : Kind → String | .S => "S" | .B => "B" | .A => "A"

def mkCase (id stratum cls src : String) (m s : Res) (loose : Bool) : Case :=
  { id := id, cls := cls, kind := "eval", stratum := stratum,
    model := m.obs, spec := if loose then "!panic" else s.obs, payload := [src] }

def ops : List String :=
  ["contains", "has_prefix", "has_suffix", "split", "sub", "trim_prefix", "trim_suffix",
   "repeat", "join", "concat", "joinsplit"]

/-- sparse / offset arrays are not sequences; the property only demands a value or an error -/
def genSparseCase (idx : Nat) : Gen Case := do
  let op ← pick ["contains", "has_prefix", "has_suffix", "split", "sub", "trim_prefix", "trim_suffix", "join", "repeat", "concat"]
  let xs ← genXs 5 2
  let p ← genPat xs 2
  let hole ← rand (xs.length + 1)
  let off ← pick [0, 0, 1, 3]
  let items := (List.range xs.length).map (fun i => if i == hole && 0 < i && i + 1 < xs.length then "" else toString (xs.getD i 0))
  let body := "[" ++ ", ".intercalate items ++ "]"
  let subj := if off == 0 then body else s!"({off})\\{body}"
  let ps := seqSrc .A p
  let src := match op with
    | "sub" => s!"//seq.sub({ps}, [7], {subj})"
    | "repeat" => s!"//seq.repeat(2, {subj})"
    | "join" => s!"//seq.join({ps}, [{subj}, [1]])"
    | "concat" => s!"//seq.concat([{subj}, [1]])"
    | o => s!"//seq.{o}({ps}, {subj})"
  pure { id := s!"C14-sp-{idx}", cls := "good", kind := "eval", stratum := s!"sparse/{op}",
         model := "!panic", spec := "!panic", payload := [src] }

/-- an intermediate result used twice: `let c = concat([x, y]); [concat([c, z1]), concat([c, z2]), c]`
(the two uses must not disturb each other or `c`) -/
def genReuseCase (idx : Nat) : Gen Case := do
  let k ← genKind
  let x ← genXs 4 3
  let y ← genXs 3 3
  let z1 ← genXs 2 3
  let z2 ← genXs 2 3
  let op ← pick ["concat", "repeat", "sub", "trim"]
  let c := x ++ y
  let (mid, u1, u2, r1, r2) : String × String × String × List Nat × List Nat :=
    match op with
    | "repeat" =>
      (s!"//seq.concat({seqsSrc k [x, y]})", s!"//seq.concat([c, {seqSrc k z1}])", s!"//seq.concat([//seq.repeat(2, c), {seqSrc k z2}])",
       c ++ z1, c ++ c ++ z2)
    | "sub" =>
      (s!"//seq.concat({seqsSrc k [x, y]})", s!"//seq.sub({seqSrc k [0]}, {seqSrc k z1}, c)", s!"//seq.concat([c, {seqSrc k z2}])",
       Spec.sub [0] z1 c, c ++ z2)
    | "trim" =>
      (s!"//seq.concat({seqsSrc k [x, y]})", s!"//seq.concat([//seq.trim_suffix({seqSrc k y}, c), {seqSrc k z1}])", s!"//seq.concat([c, {seqSrc k z2}])",
       Spec.trimSuffix y c ++ z1, c ++ z2)
    | _ =>
      (s!"//seq.concat({seqsSrc k [x, y]})", s!"//seq.concat([c, {seqSrc k z1}])", s!"//seq.concat([c, {seqSrc k z2}])", c ++ z1, c ++ z2)
  -- kind B cannot be repeated (KF-seq-bytes-repeat); an empty first element makes concat dispatch on the next one
  let cls := if k = .B && op == "repeat" && !c.isEmpty then "KF-seq-bytes-repeat" else "good"
  let expect := (V.mkArr [seqV k r1, seqV k r2, seqV k c]).canon
  pure { id := s!"C14-re-{idx}", cls := cls, kind := "eval", stratum := s!"reuse/{op}/{kindName k}",
         model := expect, spec := expect, payload := [s!"let c = {mid}; [{u1}, {u2}, c]"] }

/-- strings over a non-ASCII alphabet (1-, 2- and 3-byte characters): the textbook functions work on characters,
not bytes -/
def ucp (k : Nat) : Nat := [97, 233, 26085].getD k 97
def usrc (xs : List Nat) : String := "'" ++ String.ofList (xs.map (fun x => Char.ofNat (ucp x))) ++ "'"
def uV (xs : List Nat) : V := V.mkSeq "@char" 0 (xs.map (fun x => some (.num (Int.ofNat (ucp x)))))
def genUnicodeCase (idx : Nat) : Gen Case := do
  let op ← pick ["contains", "has_prefix", "has_suffix", "split", "sub", "trim_prefix", "trim_suffix", "repeat", "join", "concat"]
  let xs ← genXs 5 3
  let p ← genPat xs 3
  let nw ← genXs 2 3
  let (src, v) : String × V := match op with
    | "contains" => (s!"//seq.contains({usrc p}, {usrc xs})", V.bool (Spec.contains p xs))
    | "has_prefix" => (s!"//seq.has_prefix({usrc p}, {usrc xs})", V.bool (Spec.hasPrefix p xs))
    | "has_suffix" => (s!"//seq.has_suffix({usrc p}, {usrc xs})", V.bool (Spec.hasSuffix p xs))
    | "split" => (s!"//seq.split({usrc p}, {usrc xs})",
        if xs.isEmpty then (if p.isEmpty then V.none else V.mkArr [V.none]) else V.mkArr ((Spec.split p xs).map uV))
    | "sub" => (s!"//seq.sub({usrc p}, {usrc nw}, {usrc xs})",
        if xs.isEmpty then (if p.isEmpty then uV nw else V.none) else uV (Spec.sub p nw xs))
    | "trim_prefix" => (s!"//seq.trim_prefix({usrc p}, {usrc xs})", uV (Spec.trimPrefix p xs))
    | "trim_suffix" => (s!"//seq.trim_suffix({usrc p}, {usrc xs})", uV (Spec.trimSuffix p xs))
    | "repeat" => (s!"//seq.repeat(2, {usrc xs})", uV (Spec.repeat_ 2 xs))
    | "join" => (s!"//seq.join({usrc p}, [{usrc xs}, {usrc nw}, {usrc xs}])",
        -- an empty joiner with an empty first element is KF-seq-join-empty-first: avoid that shape here
        uV (Spec.join p [xs, nw, xs]))
    | _ => (s!"//seq.concat([{usrc xs}, {usrc nw}])", uV (xs ++ nw))
  let cls := if op == "join" && p.isEmpty && xs.isEmpty && !nw.isEmpty then "KF-seq-join-empty-first" else "good"
  pure { id := s!"C14-u-{idx}", cls := cls, kind := "eval", stratum := s!"unicode/{op}",
         model := v.canon, spec := v.canon, payload := [src] }

def genCase (idx : Nat) (big : Bool) : Gen Case := do
  if (← chance 1 16) then return (← genSparseCase idx)
  if (← chance 1 12) then return (← genUnicodeCase idx)
  if (← chance 1 10) then return (← genReuseCase idx)
  let op ← pick ops
  let alpha ← pick [2, 2, 3]
  let maxLen := if big then 9 else 6
  let k ← genKind
  let xs ← genXs maxLen alpha
  let subject : Sq := ⟨k, xs⟩
  let mismatch ← chance 1 10
  let pk ← if mismatch then otherKind k else pure k
  let p : Sq := ⟨pk, ← genPat xs alpha⟩
  -- a kind mismatch is only real when neither side is the empty set
  let loose := mismatch && !p.isE && !subject.isE
  let id := s!"C14-{idx}"
  let strat := s!"{op}/{kindName k}" ++ (if loose then "/mismatch" else "")
  match op with
  | "contains" =>
    pure (mkCase id strat "good" s!"//seq.contains({p.src}, {subject.src})"
      (Model.contains p subject) (SpecRes.contains p subject) loose)
  | "has_prefix" =>
    pure (mkCase id strat "good" s!"//seq.has_prefix({p.src}, {subject.src})"
      (Model.hasPrefix p subject) (SpecRes.hasPrefix p subject) loose)
  | "has_suffix" =>
    pure (mkCase id strat "good" s!"//seq.has_suffix({p.src}, {subject.src})"
      (Model.hasSuffix p subject) (SpecRes.hasSuffix p subject) loose)
  | "split" =>
    pure (mkCase id strat "good" s!"//seq.split({p.src}, {subject.src})"
      (Model.split p subject) (SpecRes.split p subject) loose)
  | "sub" =>
    let nw : Sq := ⟨pk, ← genXs 2 (alpha + 1)⟩
    let loose := mismatch && (!p.isE || !nw.isE) && !subject.isE
    pure (mkCase id strat "good" s!"//seq.sub({p.src}, {nw.src}, {subject.src})"
      (Model.sub p nw subject) (SpecRes.sub p nw subject) loose)
  | "trim_prefix" =>
    pure (mkCase id strat "good" s!"//seq.trim_prefix({p.src}, {subject.src})"
      (Model.trimPrefix p subject) (SpecRes.trimPrefix p subject) loose)
  | "trim_suffix" =>
    pure (mkCase id strat "good" s!"//seq.trim_suffix({p.src}, {subject.src})"
      (Model.trimSuffix p subject) (SpecRes.trimSuffix p subject) loose)
  | "repeat" =>
    let n ← rand 4
    let cls := if k = .B && !subject.isE then "KF-seq-bytes-repeat" else "good"
    pure (mkCase id strat cls s!"//seq.repeat({n}, {subject.src})"
      (Model.repeat_ n subject) (SpecRes.repeat_ n subject) false)
  | "join" =>
    let m ← rand 4
    let xss ← genList m (genXs 3 alpha)
    let d : Sq := ⟨k, p.xs⟩
    let cls := if joinGood d k xss then "good" else if k = .B then "KF-seq-bytes-join" else "KF-seq-join-empty-first"
    pure (mkCase id strat cls s!"//seq.join({d.src}, {seqsSrc k xss})"
      (Model.join d k xss) (SpecRes.join d k xss) false)
  | "concat" =>
    let m ← rand 4
    let xss ← genList m (genXs 3 alpha)
    pure (mkCase id strat "good" s!"//seq.concat({seqsSrc k xss})"
      (Model.concat k xss) (SpecRes.concat k xss) false)
  | _ =>
    -- join inverts split: //seq.join(d, //seq.split(d, s)) = s   (non-empty d)
    let d : Sq := ⟨k, if p.xs.isEmpty then [0] else p.xs⟩
    let model := match Model.split d subject with
      | .seqs k' xss => Model.join d k' xss
      | .seq _ _ => .seq .A []
      | r => r
    let cls := if k = .B then "KF-seq-bytes-join" else "good"
    pure (mkCase id ("joinsplit/" ++ kindName k) cls
      s!"//seq.join({d.src}, //seq.split({d.src}, {subject.src}))"
      model (.seq k subject.xs) false)

/-- minimised past failures and the witnesses of repaired defects; always run first -/
def corpus : List Case :=
  let a (xs : List Nat) : Sq := ⟨.A, xs⟩
  [ mkCase "C14-corpus-0" "corpus" "good" "//seq.contains([1, 1, 2], [1, 1, 1, 2])"
      (Model.contains (a [1,1,2]) (a [1,1,1,2])) (SpecRes.contains (a [1,1,2]) (a [1,1,1,2])) false,
    mkCase "C14-corpus-1" "corpus" "good" "//seq.has_suffix([9, 3], [1, 2, 3])"
      (Model.hasSuffix (a [9,3]) (a [1,2,3])) (SpecRes.hasSuffix (a [9,3]) (a [1,2,3])) false,
    mkCase "C14-corpus-2" "corpus" "good" "//seq.split([1, 1, 2], [0, 1, 1, 1, 2, 0])"
      (Model.split (a [1,1,2]) (a [0,1,1,1,2,0])) (SpecRes.split (a [1,1,2]) (a [0,1,1,1,2,0])) false,
    mkCase "C14-corpus-3" "corpus" "good" "//seq.sub([0, 0, 1], [2], [0, 0, 0, 1])"
      (Model.sub (a [0,0,1]) (a [2]) (a [0,0,0,1])) (SpecRes.sub (a [0,0,1]) (a [2]) (a [0,0,0,1])) false,
    mkCase "C14-corpus-4" "corpus" "good" "//seq.trim_suffix([2, 3], [1, 2, 3])"
      (Model.trimSuffix (a [2,3]) (a [1,2,3])) (SpecRes.trimSuffix (a [2,3]) (a [1,2,3])) false,
    { id := "C14-corpus-5", cls := "good", kind := "eval", stratum := "corpus", model := "!panic", spec := "!panic",
      payload := ["//seq.contains([2], [1, , 2])"] },
    { id := "C14-corpus-6", cls := "good", kind := "eval", stratum := "corpus", model := "!panic", spec := "!panic",
      payload := ["//seq.split([0], [1, , 0, 2])"] } ]

def gen (seed n : Nat) (thorough : Bool) : List Case := Id.run do
  let mut out := corpus
  for i in [0:n] do
    let (c, _) := (genCase i thorough).run (seedOf seed (1400000 + i))
    out := c :: out
  pure out.reverse

end Arrai.C14
