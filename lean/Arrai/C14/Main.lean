import Arrai.Core.DriverMain
import Arrai.C14.Gen

def main (args : List String) : IO UInt32 := Arrai.driverMain Arrai.C14.gen args
