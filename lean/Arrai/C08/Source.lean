/-
  C08 layer 2: `Ast` → arr.ai source text.
  `toks false` prints with the minimal parentheses implied by `Expected.precLevels` (level numbers
  and associativity classes are read from that table), `toks true` parenthesises every sub-term.
  Output is a token list; the joiners put a single space (or random trivia: blanks, newlines,
  `# …` comments) between tokens.  Core-only.
-/
import Arrai.C08.Model
import Arrai.C08.Expected

namespace Arrai.C08
open Expected

/-! ## patterns -/
mutual
def patSrc : Pat → String
  | .ident x => x
  | .lit (.num n) => toString n
  | .lit _ => "0"
  | .arr items => "[" ++ ", ".intercalate (patItems items) ++ "]"
  | .tup items => "(" ++ ", ".intercalate (patAttrs items) ++ ")"
  | .pnil => "_"
  | .pcons _ p _ => patSrc p
def patItems : Pat → List String
  | .pcons _ p r => patSrc p :: patItems r
  | _ => []
def patAttrs : Pat → List String
  | .pcons n p r => (n ++ ": " ++ patSrc p) :: patAttrs r
  | _ => []
end

/-! ## expressions -/

def binSrc : BinOp → String
  | .add => "+" | .sub => "-" | .mul => "*" | .pow => "^"
  | .eq => "=" | .ne => "!=" | .lt => "<" | .le => "<=" | .gt => ">" | .ge => ">="
  | .call => "call"

/-- (level, associativity) of a binary operator, from the documented table -/
def binLevel : BinOp → Nat × Assoc
  | .add | .sub => (lvAdd, assocOf "binop")
  | .mul => (lvMul, assocOf "binop")
  | .pow => (lvPow, assocOf "rbinop")
  | .call => (lvTail, .left)
  | _ => (lvCompare, assocOf "compare")

def arrSrc : ArrOp → String
  | .arrow => "->" | .darrow => "=>" | .seq => ">>" | .where_ => "where" | .orderby => "orderby"
  | .tupmap => ":>" | .sum => "sum" | .max => "max" | .min => "min"

/-- precedence level of the outermost construct of a term -/
def Ast.level : Ast → Nat
  | .opFn _ _ _ _ | .opDot _ _ _ => lvArrow
  | .or_ _ _ => lvOr
  | .and_ _ _ => lvAnd
  | .bin op _ _ => (binLevel op).1
  | .neg _ => lvUnary
  | .un _ _ => lvUnary
  | .call _ _ => lvTail
  | .dot _ _ => lvTail
  | _ => lvAtom

/-- constructs whose last component is a greedy `\p body` / `let …; body` (they extend as far to the
right as possible, so they are parenthesised unless nothing follows them) -/
def Ast.openEnded : Ast → Bool
  | .fn _ _ | .let_ _ _ _ => true
  | .opFn op _ _ _ => op != .arrow
  | .opDot op _ (.fn _ _) => op != .arrow
  | _ => false

def strSrc (cs : List Nat) : String := "'" ++ String.join (cs.map Lit.charSrc) ++ "'"

/-- marker between `\` and its parameter / `cond` and `{` (where the grammar has no `C*`) -/
def gap : String := "\u0001"

/-- prefix of a token that must not be preceded by a comment: the grammar has no `C*` before the `(` of a
call's argument list (`tail_op=(…)*`) nor between stacked unary operators (`unop=/{[-+!*^]}*`) -/
def noC : String := "\u0002"

def markFirst : List String → List String
  | [] => []
  | t :: r => (noC ++ t) :: r

def Ast.isNeg : Ast → Bool
  | .neg _ => true
  | .un _ _ => true
  | _ => false

def unSrc : UnOp → String
  | .pos => "+" | .not => "!" | .pset => "^"

def attrNames : Ast → List String
  | .cons n _ _ r => n :: attrNames r
  | _ => []

/-- `{|n1, n2|` read off the first row (one token: the grammar has no `C*` between the names) -/
def relHeading : Ast → String
  | .cons _ _ (.coll .tup attrs) _ => "{|" ++ ", ".intercalate (attrNames attrs) ++ "|"
  | _ => "{"

def sepBy (sep : String) : List (List String) → List String
  | [] => []
  | [x] => x
  | x :: r => x ++ [sep] ++ sepBy sep r

/-- parenthesise `inner` when the context demands it: a looser construct than level `ctx`, or an
open-ended construct that is followed by something (`tail = false`); `full` parenthesises always -/
def wrap (full : Bool) (lvl : Nat) (open_ : Bool) (ctx : Nat) (tail : Bool) (inner : Bool → List String) :
    List String :=
  if full || lvl < ctx || (open_ && !tail) then ["("] ++ inner true ++ [")"] else inner tail

/-- `T[c, ctx, tail]` = the sub-term `c` printed (by the enclosing `node full`) in context `ctx` -/
local macro "T[" c:term "," ctx:term "," tail:term "]" : term =>
  `(wrap $(Lean.mkIdent `full) (Ast.level $c) (Ast.openEnded $c) $ctx $tail
      (fun t => $(Lean.mkIdent `node) $(Lean.mkIdent `full) $c t))

mutual
/-- `node full e tail`: tokens of `e`; `tail` = nothing follows `e` before the next closing delimiter.
Sub-terms are printed through `wrap` in a context that requires at least their operator level. -/
def node (full : Bool) : Ast → Bool → List String
  | .num n, _ => [toString n]
  | .str cs, _ => [strSrc cs]
  | .bytes bs, _ => ["<<" ++ ", ".intercalate (bs.map toString) ++ ">>"]
  | .tt, _ => ["true"]
  | .ff, _ => ["false"]
  | .ident x, _ => [x]
  | .let_ p e b, _ => ["let", patSrc p, "="] ++ T[e, 0, true] ++ [";"] ++ T[b, 0, true]
  | .opFn op lhs p b, tail =>
    T[lhs, lvArrow, false] ++ [arrSrc op, "\\" ++ patSrc p] ++
      (if op == .arrow then T[b, lvArrow + 1, tail] else T[b, 0, true])
  | .opDot op lhs (.fn p b), tail =>
    T[lhs, lvArrow, false] ++ [arrSrc op, "\\" ++ patSrc p] ++
      (if op == .arrow then T[b, lvArrow + 1, tail] else T[b, 0, true])
  | .opDot op lhs f, tail => T[lhs, lvArrow, false] ++ [arrSrc op] ++ T[f, lvArrow + 1, tail]
  | .fn p b, _ => ["\\" ++ gap ++ patSrc p] ++ T[b, 0, true]
  | .call f a, _ => T[f, lvTail, false] ++ [noC ++ "("] ++ T[a, 0, true] ++ [")"]
  | .dot (.ident ".") n, _ => ["." ++ n]
  | .dot (.num k) n, _ => (if full then ["(", "(", toString k, ")", ")"] else ["(", toString k, ")"]) ++ ["." ++ n]
  | .dot e n, _ => T[e, lvTail, false] ++ ["." ++ n]
  | .neg e, tail => ["-"] ++ (if e.isNeg then markFirst T[e, lvUnary, tail] else T[e, lvUnary, tail])
  | .un op e, tail => [unSrc op] ++ (if e.isNeg then markFirst T[e, lvUnary, tail] else T[e, lvUnary, tail])
  | .bin op a b, tail =>
    match binLevel op with
    | (l, .left) => T[a, l, false] ++ [binSrc op] ++ T[b, l + 1, tail]
    | (l, .right) => T[a, l + 1, false] ++ [binSrc op] ++ T[b, l, tail]
    | (l, .chain) => T[a, l + 1, false] ++ [binSrc op] ++ T[b, l + 1, tail]
  | .and_ a b, tail => T[a, lvAnd, false] ++ ["&&"] ++ T[b, lvAnd + 1, tail]
  | .or_ a b, tail => T[a, lvOr, false] ++ ["||"] ++ T[b, lvOr + 1, tail]
  | .cond es, _ => ["cond" ++ gap ++ "{"] ++ sepBy "," (entries full .dict true es) ++ ["}"]
  | .coll .set items, _ => ["{"] ++ sepBy "," (entries full .set false items) ++ ["}"]
  | .coll .arr items, _ => ["["] ++ sepBy "," (entries full .arr false items) ++ ["]"]
  | .coll .tup items, _ => ["("] ++ sepBy "," (entries full .tup false items) ++ [")"]
  | .coll .dict items, _ => ["{"] ++ sepBy "," (entries full .dict false items) ++ ["}"]
  | .coll .rel items, _ => [relHeading items] ++ sepBy (noC ++ ",") (relRows full items) ++ ["}"]
  | .paren e, _ => ["("] ++ node full e true ++ [")"]
  | .nil, _ => []
  | .cons _ _ v _, _ => T[v, 0, true]
def entries (full : Bool) (k : Coll) (isCond : Bool) : Ast → List (List String)
  | .cons n key v rest =>
    (match k with
     | .tup => [n, ":"] ++ T[v, 0, true]
     | .rel => T[v, 0, true]
     | .dict =>
       (if isCond && key == .ident "_" then ["_"] else T[key, 0, true]) ++ [":"] ++ T[v, 0, true]
     | _ => T[v, 0, true]) :: entries full k isCond rest
  | _ => []
/-- the rows of a relation literal: the cells of each row in heading order -/
def relRows (full : Bool) : Ast → List (List String)
  | .cons _ _ (.coll .tup attrs) rest => (["("] ++ sepBy "," (entries full .set false attrs) ++ [")"]) :: relRows full rest
  | .cons _ _ v rest => (["("] ++ T[v, 0, true] ++ [")"]) :: relRows full rest
  | _ => []
end

def toks (full : Bool) (e : Ast) : List String :=
  wrap full e.level e.openEnded 0 true (fun t => node full e t)

def isAlphaTok (s : String) : Bool :=
  match s.toList with
  | c :: _ => c.isAlpha
  | [] => false

/-- the name `.` directly followed by a word would be read as attribute access (`. where` = `.where`):
it is written `(.)` there -/
def fixDots : List String → List String
  | "." :: t :: r => (if isAlphaTok t then "(.)" else ".") :: fixDots (t :: r)
  | t :: r => t :: fixDots r
  | [] => []

def dropGap (s : String) : String :=
  (if s.startsWith "cond" then s.replace gap " " else s.replace gap "").replace noC ""

/-- source with one blank between tokens -/
def render (ts : List String) : String := " ".intercalate ((fixDots ts).map dropGap)

def Ast.toSource (a : Ast) : String := render (toks false a)
def Ast.toSourceFull (a : Ast) : String := render (toks true a)

/-- the trivia arr.ai documents as inert: blanks, tabs, newlines and `# …` comments (to end of line) -/
def trivia : List String :=
  [" ", " ", "  ", "\n", "\t", " \n  ", " # c\n", "\n# a comment, with (parens] and 'quotes'\n", " #\n", "   # let x = 1;\n\t"]

/-- number of leading entries of `trivia` that are white space only -/
def blankTrivia : Nat := 6

/-- source with `pick i` (an index into `trivia`) between tokens `i` and `i+1`, and around the whole text;
only white space is put before a token marked `noC` -/
def renderTrivia (ts : List String) (pick : Nat → Nat) : String :=
  let ts := fixDots ts
  let rec go : List String → Nat → String
    | [], i => trivia.getD (pick i) " "
    | t :: r, i =>
      trivia.getD (if t.startsWith noC then pick i % blankTrivia else pick i) " " ++ dropGap t ++ go r (i + 1)
  go ts 0

/-- a comment in the first token gap where the grammar has no `C*` (between `\` and the parameter of a
function literal that does not follow `->`, between `cond` and `{`, before the `(` of a call's argument
list, between stacked unary minus signs); `none` if the program has no such gap -/
def renderGapComment (ts : List String) (which : Nat) : Option String :=
  let ts := fixDots ts
  let hasGap (t : String) : Bool := (t.splitOn gap).length > 1 || t.startsWith noC
  let n := (ts.filter hasGap).length
  if n = 0 then none else
  let rec go : List String → Nat → List String
    | [], _ => []
    | t :: r, k =>
      if hasGap t then
        (if k = 0 then
          (if t.startsWith noC then "# c\n " ++ dropGap t
           else " # c\n ".intercalate ((t.splitOn gap).map dropGap))
         else dropGap t) :: go r (k - 1 + (if k = 0 then n + 1 else 0))
      else dropGap t :: go r k
  some (" ".intercalate (go ts (which % n)))

end Arrai.C08
