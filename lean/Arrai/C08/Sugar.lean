/-
  C08: sugared literals and constructors equal their spelled-out sets of tuples
  (`[e0, e1]` = `{(@: 0, @item: e0), (@: 1, @item: e1)}`, `{k: v}` = `{(@: k, @value: v)}`,
  `'ab'` = `{(@: 0, @char: 97), (@: 1, @char: 98)}`), at the level of evaluation, for arbitrary element
  expressions.  Core-only.
-/
import Arrai.C08.Model

namespace Arrai.C08
open Impl

def elems (es : List Expr) : Expr := es.foldr (fun v r => .cons "" .nil v r) .nil
def entriesE (kvs : List (Expr × Expr)) : Expr := kvs.foldr (fun kv r => .cons "" kv.1 kv.2 r) .nil
/-- `(@: k, nm: v)` -/
def tupleOf (nm : String) (k v : Expr) : Expr := .coll .tup (.cons "@" .nil k (.cons nm .nil v .nil))
/-- `{(@: k0, nm: v0), (@: k1, nm: v1), …}` as an element spine -/
def spelled (nm : String) (kvs : List (Expr × Expr)) : Expr := elems (kvs.map fun kv => tupleOf nm kv.1 kv.2)
/-- `[(i, e0), (i+1, e1), …]` with literal indices -/
def indexed : List Expr → Int → List (Expr × Expr)
  | [], _ => []
  | e :: r, i => (.lit (.num i), e) :: indexed r (i + 1)

/-- evaluate a key and a value to data -/
def evalKV (c : Caller) (env : Env) (kv : Expr × Expr) : Res (V × V) :=
  evalE c kv.1 env >>= asData >>= fun k => evalE c kv.2 env >>= asData >>= fun v => .ok (k, v)

theorem mkTup_at (nm : String) (h : "@" < nm) (k v : V) :
    V.mkTup [(nm, v), ("@", k)] = V.mkTup [("@", k), (nm, v)] := by
  have h1 : ¬ nm < "@" := fun h' => absurd (String.lt_trans h h') (String.lt_irrefl _)
  have h2 : nm ≠ "@" := fun e => by subst e; exact absurd h (String.lt_irrefl _)
  simp [V.mkTup, V.insAttr, h, h1, h2]

theorem evalItems_entries (c : Caller) (env : Env) (kvs : List (Expr × Expr)) (hk : ∀ kv ∈ kvs, isNil kv.1 = false) :
    evalItems c (entriesE kvs) env =
      Res.mapM' (fun kv => evalKV c env kv >>= fun p => .ok ("", p.1, p.2)) kvs := by
  induction kvs with
  | nil => rfl
  | cons kv r ih =>
    have h1 := hk kv (by simp)
    have ih' := ih (fun kv' h => hk kv' (by simp [h]))
    simp only [entriesE, List.foldr] at ih' ⊢
    simp only [evalItems, h1, Res.mapM', evalKV, ih']
    cases evalE c kv.1 env with
    | ok a =>
      simp only [Res.bind_ok]
      cases asData a with
      | ok k =>
        simp only [Res.bind_ok]
        cases evalE c kv.2 env with
        | ok b =>
          simp only [Res.bind_ok]
          cases asData b <;> simp
        | _ => simp
      | _ => simp
    | _ => simp

theorem evalItems_spelled (c : Caller) (env : Env) (nm : String) (h : "@" < nm) (kvs : List (Expr × Expr)) :
    evalItems c (spelled nm kvs) env =
      Res.mapM' (fun kv => evalKV c env kv >>= fun p => .ok ("", V.none, V.mkTup [("@", p.1), (nm, p.2)])) kvs := by
  induction kvs with
  | nil => rfl
  | cons kv r ih =>
    simp only [spelled, elems, List.map, List.foldr, tupleOf, evalKV] at ih ⊢
    simp only [evalItems, isNil, if_true, Res.bind_ok, Res.mapM', ih, evalE]
    cases evalE c kv.1 env with
    | ok a =>
      simp only [Res.bind_ok]
      cases asData a with
      | ok k =>
        simp only [Res.bind_ok]
        cases evalE c kv.2 env with
        | ok b =>
          simp only [Res.bind_ok]
          cases asData b with
          | ok v => simp [mkColl, asData, mkTup_at nm h]
          | _ => simp
        | _ => simp
      | _ => simp
    | _ => simp

/-- results of `mapM'` through a map on the elements -/
theorem mapM'_map {α β γ} (f : α → Res β) (g : β → γ) (xs : List α) :
    Res.mapM' (fun x => f x >>= fun y => .ok (g y)) xs = Res.mapM' f xs >>= fun ys => .ok (ys.map g) := by
  induction xs with
  | nil => rfl
  | cons x r ih =>
    simp only [Res.mapM', ih]
    cases f x with
    | ok y => cases Res.mapM' f r <;> rfl
    | _ => rfl

/-- `{k: v, …}` = `{(@: k, @value: v), …}` whenever the dict can be built (no repeated key) -/
theorem sugar_dict_eval (c : Caller) (env : Env) (kvs : List (Expr × Expr)) (hk : ∀ kv ∈ kvs, isNil kv.1 = false)
    (r : Val) (hr : evalE c (.coll .dict (entriesE kvs)) env = .ok r) :
    evalE c (.coll .set (spelled "@value" kvs)) env = .ok r := by
  simp only [evalE, evalItems_entries c env kvs hk, evalItems_spelled c env "@value" (by decide) kvs,
    mapM'_map] at hr ⊢
  cases hm : Res.mapM' (evalKV c env) kvs with
  | ok ps =>
    rw [hm] at hr
    simp only [Res.bind_ok, mkColl, List.map_map, Function.comp_def] at hr ⊢
    by_cases hn : keysNodup (List.map (fun x => x.1) ps) = true
    · simp only [hn, if_true] at hr
      simpa [dictEntry] using hr
    · simp [hn] at hr
  | err => rw [hm] at hr; simp at hr
  | oof => rw [hm] at hr; simp at hr
  | unsup => rw [hm] at hr; simp at hr

theorem evalItems_elems (c : Caller) (env : Env) (es : List Expr) :
    evalItems c (elems es) env =
      Res.mapM' (fun e => evalE c e env >>= asData) es >>= fun vs => .ok (vs.map fun v => ("", V.none, v)) := by
  induction es with
  | nil => rfl
  | cons e r ih =>
    simp only [elems, List.foldr] at ih ⊢
    simp only [evalItems, isNil, if_true, Res.bind_ok, Res.mapM', ih]
    cases evalE c e env with
    | ok a =>
      simp only [Res.bind_ok]
      cases asData a with
      | ok v =>
        simp only [Res.bind_ok]
        cases Res.mapM' (fun e => evalE c e env >>= asData) r <;> simp
      | _ => simp
    | _ => simp

theorem mapM'_indexed (c : Caller) (env : Env) (nm : String) (es : List Expr) (i : Int) :
    Res.mapM' (fun kv => evalKV c env kv >>= fun p => .ok ("", V.none, V.mkTup [("@", p.1), (nm, p.2)])) (indexed es i) =
      Res.mapM' (fun e => evalE c e env >>= asData) es >>= fun vs =>
        .ok ((V.seqMembers nm i (vs.map some)).map fun t => ("", V.none, t)) := by
  induction es generalizing i with
  | nil => rfl
  | cons e r ih =>
    simp only [indexed, Res.mapM']
    rw [ih (i + 1)]
    simp only [evalKV, evalE, asData, Res.bind_ok]
    cases evalE c e env with
    | ok a =>
      simp only [Res.bind_ok]
      cases asData a with
      | ok v =>
        simp only [Res.bind_ok]
        cases Res.mapM' (fun e => evalE c e env >>= asData) r <;> simp [V.seqMembers]
      | _ => simp
    | _ => simp

/-- `[e0, e1, …]` = `{(@: 0, @item: e0), (@: 1, @item: e1), …}` for arbitrary element expressions -/
theorem sugar_array_eval (c : Caller) (env : Env) (es : List Expr) :
    evalE c (.coll .arr (elems es)) env = evalE c (.coll .set (spelled "@item" (indexed es 0))) env := by
  simp only [evalE, evalItems_elems, evalItems_spelled c env "@item" (by decide), mapM'_indexed]
  cases Res.mapM' (fun e => evalE c e env >>= asData) es with
  | ok vs => simp [mkColl, V.mkArr, V.mkSeq, Function.comp_def]
  | _ => simp

/-- `'…'` = `{(@: 0, @char: c0), (@: 1, @char: c1), …}` -/
theorem sugar_string_eval (c : Caller) (env : Env) (cs : List Nat) :
    evalE c (.coll .set (spelled "@char" (indexed (cs.map fun ch => .lit (.num (Int.ofNat ch))) 0))) env =
      .ok (.data (V.mkStr cs)) := by
  simp only [evalE, evalItems_spelled c env "@char" (by decide), mapM'_indexed]
  have : ∀ cs : List Nat, Res.mapM' (fun e => evalE c e env >>= asData) (cs.map fun ch => Expr.lit (.num (Int.ofNat ch))) =
      .ok (cs.map fun ch => V.num (Int.ofNat ch)) := by
    intro cs
    induction cs with
    | nil => rfl
    | cons ch r ih =>
      simp only [List.map, Res.mapM', evalE, asData, Res.bind_ok]
      rw [ih]; rfl
  rw [this]
  simp [mkColl, V.mkStr, V.mkSeq, Function.comp_def]

/-- a relation literal is the set of its rows -/
theorem rel_is_set_eval (c : Caller) (env : Env) (rows : Expr) :
    evalE c (.coll .rel rows) env = evalE c (.coll .set rows) env := by
  simp [evalE, mkColl]

/-- `(nm: v, @: k)` is `(@: k, nm: v)`: the order in which a tuple's attributes are written is irrelevant -/
theorem tuple_attr_order_eval (c : Caller) (env : Env) (nm : String) (h : "@" < nm) (k v : Expr) (r : Val)
    (hr : evalE c (tupleOf nm k v) env = .ok r) :
    evalE c (.coll .tup (.cons nm .nil v (.cons "@" .nil k .nil))) env = .ok r := by
  simp only [tupleOf, evalE, evalItems, isNil, if_true, Res.bind_ok] at hr ⊢
  cases hk : evalE c k env with
  | ok a =>
    rw [hk] at hr
    cases ha : asData a with
    | ok kv =>
      simp only [ha, Res.bind_ok] at hr
      cases hv : evalE c v env with
      | ok b =>
        rw [hv] at hr
        cases hb : asData b with
        | ok vv =>
          simp only [hb, Res.bind_ok, mkColl] at hr ⊢
          simp only [ha, Res.bind_ok]
          simpa [mkTup_at nm h] using hr
        | _ => simp [hb] at hr
      | _ => rw [hv] at hr; simp at hr
    | _ => simp [ha] at hr
  | _ => rw [hk] at hr; simp at hr

/-- the denotation of a relation literal does not depend on the order of its heading:
`{|@, nm| (k, v), …}` = `{|nm, @| (v, k), …}` -/
theorem rel_heading_order_den (nm : String) (h : "@" < nm) (rows : List (Lit × Lit)) :
    Lit.den (.rel ["@", nm] (rows.map fun r => [r.1, r.2])) = Lit.den (.rel [nm, "@"] (rows.map fun r => [r.2, r.1])) := by
  have : ∀ rows : List (Lit × Lit), Lit.denRows ["@", nm] (rows.map fun r => [r.1, r.2]) =
      Lit.denRows [nm, "@"] (rows.map fun r => [r.2, r.1]) := by
    intro rows
    induction rows with
    | nil => rfl
    | cons r rest ih =>
      simp only [List.map, Lit.denRows, Lit.denList, Lit.zipAttrs, ih]
      rw [mkTup_at nm h]
  simp only [Lit.den, this]

end Arrai.C08
