/-
  C08 layer 2, hand-written expectation: the documented precedence and associativity of arr.ai's
  operators, as the `>`-separated alternatives of rule `expr` in syntax/arrai.wbnf (loosest first).
  Each level: the class the grammar marks it with, then its operator tokens (literals verbatim,
  regular expressions by their body, ARROW/FILTER expanded).  `Arrai.Proofs.C08.precLevels_regenerated`
  checks that the table regenerated from the current grammar is this one; the printers in
  `Arrai.C08.Source` take every level number from this table.
-/
namespace Arrai.C08.Expected

def precLevels : List (List String) := [
  ["arrow", "&", ":>|=>|>>|orderby|order|rank|where|sum|max|mean|median|min", "filter", "{", ":", "}", "->", "\\\\", "->"],
  ["binop", ">>>"],
  ["unop", ":>|=>|>>"],
  ["binop", "without", "with"],
  ["binop", "||"],
  ["binop", "&&"],
  ["mergeop", "+>"],
  ["compare", "!?(?:<:|=|<=?|>=?|\\((?:<=?|>=?|<>=?)\\))"],
  ["if", "if", "else"],
  ["binop", "\\+\\+|[+|]|-%?"],
  ["binop", "&~|&|~~?|[-<][-&][->]"],
  ["binop", "//|[*/%]|\\\\"],
  ["rbinop", "^"],
  ["unop", "[-+!*^]"],
  ["postfix", "count|single"],
  ["tail_op", "?", "?", ":"],
  ["atom", "cond", "{", ":", "}", "cond", "{", ":", "}", "{:", ":", ":}", "\\\\\\\\", "\\\\", "//", "[", "]", "{", ".", "}", "(", ")", "let", "\\brec\\b", "=", ";"]
]

/-- index of the first level of class `cls` that lists token `tok` -/
def levelOf (cls tok : String) : Nat :=
  go precLevels 0
where
  go : List (List String) → Nat → Nat
    | [], i => i
    | lv :: r, i => if lv.head? == some cls && lv.tail.contains tok then i else go r (i + 1)

/-- associativity implied by the class: `binop`/`arrow` chains fold to the left, `rbinop` to the right,
`compare` is a chain with its own meaning (`a < b < c` is `a < b && b < c`), so it never nests unparenthesised -/
inductive Assoc | left | right | chain
  deriving DecidableEq, Repr

def assocOf (cls : String) : Assoc :=
  if cls == "rbinop" then .right else if cls == "compare" then .chain else .left

def lvArrow : Nat := levelOf "arrow" "->"
def lvOr : Nat := levelOf "binop" "||"
def lvAnd : Nat := levelOf "binop" "&&"
def lvCompare : Nat := levelOf "compare" "!?(?:<:|=|<=?|>=?|\\((?:<=?|>=?|<>=?)\\))"
def lvAdd : Nat := levelOf "binop" "\\+\\+|[+|]|-%?"
def lvMul : Nat := levelOf "binop" "//|[*/%]|\\\\"
def lvPow : Nat := levelOf "rbinop" "^"
def lvUnary : Nat := levelOf "unop" "[-+!*^]"
def lvTail : Nat := levelOf "tail_op" "?"
def lvAtom : Nat := levelOf "atom" "let"

end Arrai.C08.Expected
