/-
  C08 case generator: `meta` cases — two or three arr.ai programs related by a documented rewrite,
  all as source text; the harness evaluates them in one process and reports `same:<canon>` or
  `diff:<a>|<b>[|<c>]`.  The specification demands `same:<value the model predicts for the original
  program>` (so a pair that is equal but wrong is caught too).
-/
import Arrai.C08.Source
import Arrai.C08.Rewrite

namespace Arrai.C08
open Impl

/-! ## building blocks -/

def mkList (xs : List Ast) : Ast := xs.foldr (fun v r => .cons "" .nil v r) .nil
def mkAttrs (xs : List (String × Ast)) : Ast := xs.foldr (fun nv r => .cons nv.1 .nil nv.2 r) .nil
def mkEntries (xs : List (Ast × Ast)) : Ast := xs.foldr (fun kv r => .cons "" kv.1 kv.2 r) .nil
def setOf (xs : List Ast) : Ast := .coll .set (mkList xs)
def arrOf (xs : List Ast) : Ast := .coll .arr (mkList xs)
def tupOf (xs : List (String × Ast)) : Ast := .coll .tup (mkAttrs xs)
def dictOf (xs : List (Ast × Ast)) : Ast := .coll .dict (mkEntries xs)
def condOf (xs : List (Ast × Ast)) : Ast := .cond (mkEntries xs)
def patArr (ps : List Pat) : Pat := .arr (ps.foldr (fun p r => .pcons "" p r) .pnil)
def patTup (ps : List (String × Pat)) : Pat := .tup (ps.foldr (fun np r => .pcons np.1 np.2 r) .pnil)

def spineToList : Ast → List (String × Ast × Ast)
  | .cons n k v r => (n, k, v) :: spineToList r
  | _ => []

/-! ## random well-scoped, mostly well-typed programs -/

inductive Ty | num | bool | setNum | arrNum | tup | fn
  deriving DecidableEq, Inhabited

abbrev Ctx := List (String × Ty)

def Ctx.bind (Γ : Ctx) (x : String) (t : Ty) : Ctx := (x, t) :: Γ.filter (·.1 != x)
def Ctx.ofTy (Γ : Ctx) (t : Ty) : List String := (Γ.filter (·.2 == t)).map (·.1)

def numNames : List String := ["x", "y", "z", "u", "w"]
def fnNames : List String := ["f", "g", "h"]

/-- an opaque source snippet that fails when evaluated (and only then): carried as an identifier token whose
text is the parenthesised snippet; the model evaluates an unbound identifier to an error, which is what each
snippet evaluates to on the unchanged tree (the `err-snippet` corpus cases check exactly that) -/
def rawErr (src : String) : Ast := .ident ("(" ++ src ++ ")")

/-- failing expressions over literal operands that the Lean model does not cover (collections applied as
functions, the standard library, attribute access through a set) -/
def rawSnippets : List String :=
  ["[1, 2](5)", "{1: 2}(3)", "'ab'(7)", "{1, 2}(1)", "[1, 2](0)(0)", "//seq.concat(1)", "{'k': 1}('j')",
   "{(a: 1), (a: 2)}.a", "[[1]](0)(3)", "(a: 1, b: 2).c", "(a: (b: 1)).a.c", "[1].a", "[1, 2] >> .a"]

/-- terms that fail when evaluated (and only then): every kind of failing expression over literal operands -/
def errTerms : List Ast :=
  let a1 := tupOf [("a", .num 1)]
  [ .call (.num 1) (.num 2),                                     -- 1(2)
    .ident "zz",                                                 -- unbound name
    .bin .add (.num 1) (setOf []),                               -- 1 + {}
    .let_ (patArr [.ident "q"]) (.num 5) (.ident "q"),           -- let [q] = 5; q
    .call (.call (.fn (.ident "q") (.ident "q")) (.num 1)) (.num 2),   -- (\q q)(1)(2)
    dictOf [(.num 1, .num 2), (.paren (.num 1), .num 3)],        -- {1: 2, (1): 3}: duplicate key at run time
    .bin .sub a1 (.num 1),                                       -- (a: 1) - 1
    .opDot .darrow (.num 3) (.ident "."),                        -- 3 => .
    .let_ (.lit (.num 3)) (.num 4) (.num 1),                     -- let 3 = 4; 1
    .dot a1 "b", .dot a1 "b", .dot a1 "b",                       -- (a: 1).b   missing attribute of a literal tuple
    .dot (tupOf [("a", .num 1), ("b", .num 2)]) "c",
    .dot (.num 1) "a",                                           -- (1).a      attribute of a number
    .dot (setOf []) "a",                                         -- {}.a
    .dot (tupOf []) "a",                                         -- ().a
    .dot (.str [97, 98, 99]) "a",                                -- 'abc'.a
    .dot (setOf [.num 1, .num 2]) "a",                           -- {1, 2}.a
    .dot (.dot (tupOf [("a", tupOf [("b", .num 1)])]) "a") "c",  -- (a: (b: 1)).a.c
    .bin .add (.str [97]) (.num 1),                              -- 'a' + 1
    .bin .add (.num 1) (.str [97]),                              -- 1 + 'a'
    .bin .mul (.str [97]) (.num 2),                              -- 'a' * 2
    .bin .pow (.num 2) (.str [97]),                              -- 2 ^ 'a'
    .bin .sub (setOf []) (.num 1),                               -- {} - 1
    .bin .add .tt (.num 1),                                      -- true + 1
    .call a1 (.num 0),                                           -- (a: 1)(0)
    .opDot .arrow (.num 1) (.dot (.ident ".") "a"),              -- 1 -> .a
    .opDot .arrow a1 (.dot (.ident ".") "b"),                    -- (a: 1) -> .b
    .opDot .darrow (setOf [.num 1, .num 2]) (.dot (.ident ".") "a"),   -- {1, 2} => .a
    .opDot .where_ (.num 5) (.num 1),                            -- 5 where 1
    .opDot .max (setOf []) (.ident "."),                         -- {} max .
    .opDot .sum (setOf [.str [97]]) (.ident ".") ] ++            -- {'a'} sum .
  rawSnippets.map rawErr

/-- a literal-only dict whose construction fails: today's compiler raises this at compile time -/
def dupDict : Ast := dictOf [(.num 1, .num 2), (.num 1, .num 3)]

def genStr : Gen Ast := do
  let n ← rand 4
  pure (.str (← genList n (do pure (97 + (← rand 3)))))

mutual
def genNum (Γ : Ctx) : Nat → Gen Ast
  | 0 => do
    let vars := Γ.ofTy .num
    let ts := Γ.ofTy .tup
    if !ts.isEmpty && (← chance 1 3) then pure (.dot (.ident (← pick ts)) (← pick ["a", "b"]))
    else if !vars.isEmpty && (← chance 3 5) then pure (.ident (← pick vars)) else pure (.num (← rand 6))
  | d + 1 => do
    match ← rand 27 with
    | 0 | 1 => genNum Γ 0
    | 2 | 3 => do pure (.bin .add (← genNum Γ d) (← genNum Γ d))
    | 4 => do pure (.bin .sub (← genNum Γ d) (← genNum Γ d))
    | 5 => do pure (.bin .mul (← genNum Γ d) (← genNum Γ d))
    | 6 => do pure (.bin .pow (← genNum Γ d) (.num (← rand 3)))
    | 7 => do pure (.neg (← genNum Γ d))
    | 8 | 9 => do
      let n ← rand 3
      let arms ← genList n (do pure ((← genBool Γ d), (← genNum Γ d)))
      pure (condOf (arms ++ [(.ident "_", ← genNum Γ d)]))
    | 10 | 11 => do
      let x ← pick numNames
      pure (.let_ (.ident x) (← genNum Γ d) (← genNum (Γ.bind x .num) d))
    | 12 => do
      let f ← pick fnNames
      pure (.let_ (.ident f) (← genFn Γ d) (← genNum (Γ.bind f .fn) d))
    | 13 => do
      let x ← pick numNames
      let y ← pick (numNames.filter (· != x))
      pure (.let_ (patArr [.ident x, .ident y]) (arrOf [← genNum Γ d, ← genNum Γ d])
        (← genNum ((Γ.bind x .num).bind y .num) d))
    | 14 => do
      let x ← pick numNames
      let y ← pick (numNames.filter (· != x))
      pure (.let_ (patTup [("a", .ident x), ("b", .ident y)]) (← genTup Γ d)
        (← genNum ((Γ.bind x .num).bind y .num) d))
    | 15 => do
      let x ← pick numNames
      pure (.opFn .arrow (← genNum Γ d) (.ident x) (← genNum (Γ.bind x .num) d))
    | 16 | 17 => do pure (.opDot .arrow (← genNum Γ d) (← genNum (Γ.bind "." .num) d))
    | 18 | 19 => do
      let fs := Γ.ofTy .fn
      if !fs.isEmpty then pure (.call (.ident (← pick fs)) (← genNum Γ d))
      else pure (.call (← genFn Γ d) (← genNum Γ d))
    | 20 => do pure (.call (← genFn Γ d) (← genNum Γ d))
    | 21 => do
      if ← chance 1 3 then pure (.and_ (← genNum Γ d) (← pick [Ast.ff, .num 0, setOf [], .tt, .num 1]))
      else pure (.and_ (← genNum Γ d) (← genNum Γ d))
    | 22 => do
      if ← chance 1 3 then pure (.or_ (← genNum Γ d) (← pick [Ast.tt, .num 1, .str [97], .ff, .num 0]))
      else pure (.or_ (← genNum Γ d) (← genNum Γ d))
    | 23 => do
      if ← chance 1 2 then pure (.paren (← genNum Γ d)) else do
        -- reducers: `set sum f`, `set max f`, `set min f`
        let op ← pick [ArrOp.sum, .sum, .max, .min]
        if ← chance 2 3 then pure (.opDot op (← genSet Γ d) (← genNum (Γ.bind "." .num) d))
        else do
          let x ← pick numNames
          pure (.opFn op (← genSet Γ d) (.ident x) (← genNum (Γ.bind x .num) d))
    | 24 => do
      -- a closure that captures the current bindings, applied after a shadowing re-binding
      let vars := Γ.ofTy .num
      if vars.isEmpty then genNum Γ d else
      let x ← pick vars
      let f ← pick fnNames
      pure (.let_ (.ident f) (← genFn Γ d)
        (.let_ (.ident x) (← genNum Γ 0) (.call (.ident f) (← genNum (Γ.bind f .fn) d))))
    | 25 => do
      -- attribute access: a tuple-valued name, a tuple expression, `.a` under a binder of tuples
      let ts := Γ.ofTy .tup
      let attr ← pick ["a", "b"]
      match ← rand 4 with
      | 0 => do
        let t ← pick ["t", "r"]
        pure (.let_ (.ident t) (← genTup Γ d) (← genNum (Γ.bind t .tup) d))
      | 1 => do
        pure (.opDot (← pick [ArrOp.sum, .max, .min]) (setOf [← genTup Γ d, ← genTup Γ d])
          (.bin .add (.dot (.ident ".") attr) (← genNum (Γ.bind "." .tup) 0)))
      | _ => do
        if !ts.isEmpty then pure (.dot (.ident (← pick ts)) attr) else pure (.dot (← genTup Γ d) attr)
    | _ => do
      if ← chance 1 3 then pick errTerms else genNum Γ 0
def genBool (Γ : Ctx) : Nat → Gen Ast
  | 0 => do if ← chance 1 2 then pure .tt else pure .ff
  | d + 1 => do
    match ← rand 10 with
    | 0 => pure .tt
    | 1 => pure .ff
    | 2 | 3 | 4 | 5 => do
      let op ← pick [BinOp.eq, .ne, .lt, .le, .gt, .ge]
      pure (.bin op (← genNum Γ d) (← genNum Γ d))
    | 6 => do pure (.and_ (← genBool Γ d) (← genBool Γ d))
    | 7 => do pure (.or_ (← genBool Γ d) (← genBool Γ d))
    | 8 => do
      if ← chance 1 2 then pure (.bin .eq (← genSet Γ d) (← genSet Γ d))
      else do
        let op ← pick [BinOp.eq, .ne]
        pure (.bin op (← genStr) (← genStr))
    | _ => do pure (condOf [((← genBool Γ d), (← genBool Γ d)), (.ident "_", ← genBool Γ d)])
def genSet (Γ : Ctx) : Nat → Gen Ast
  | 0 => do
    let vars := Γ.ofTy .setNum
    if !vars.isEmpty && (← chance 1 2) then pure (.ident (← pick vars)) else
    let n ← rand 4
    pure (setOf (← genList n (do pure (.num (← rand 6)))))
  | d + 1 => do
    match ← rand 12 with
    | 0 | 1 => do
      let n ← rand 4
      pure (setOf (← genList n (genNum Γ d)))
    | 2 | 3 => do pure (.opDot .darrow (← genSet Γ d) (← genNum (Γ.bind "." .num) d))
    | 4 => do
      let x ← pick numNames
      pure (.opFn .darrow (← genSet Γ d) (.ident x) (← genNum (Γ.bind x .num) d))
    | 5 | 6 => do pure (.opDot .where_ (← genSet Γ d) (← genBool (Γ.bind "." .num) d))
    | 7 => do
      let x ← pick numNames
      pure (.opFn .where_ (← genSet Γ d) (.ident x) (← genBool (Γ.bind x .num) d))
    | 8 => do
      let s ← pick ["s", "t"]
      pure (.let_ (.ident s) (← genSet Γ d) (← genSet (Γ.bind s .setNum) d))
    | 9 => do pure (condOf [((← genBool Γ d), (← genSet Γ d)), (.ident "_", ← genSet Γ d)])
    | 10 => do pure (.paren (← genSet Γ d))
    | _ => genSet Γ 0
def genArr (Γ : Ctx) : Nat → Gen Ast
  | 0 => do
    let n ← rand 4
    pure (arrOf (← genList n (do pure (.num (← rand 6)))))
  | d + 1 => do
    match ← rand 8 with
    | 0 | 1 => do
      let n ← rand 4
      pure (arrOf (← genList n (genNum Γ d)))
    | 2 | 3 => do pure (.opDot .seq (← genArr Γ d) (← genNum (Γ.bind "." .num) d))
    | 4 => do
      let x ← pick numNames
      pure (.opFn .seq (← genArr Γ d) (.ident x) (← genNum (Γ.bind x .num) d))
    | 5 | 6 => do
      -- orderby with an injective key (ties are ordered by Go's unstable sort)
      let k ← rand 3
      let c ← rand 4
      let key (v : Ast) : Ast := match k with
        | 0 => v
        | 1 => .neg v
        | _ => .bin .add (.bin .mul v (.num 2)) (.num c)
      if ← chance 1 2 then pure (.opDot .orderby (← genSet Γ d) (key (.ident ".")))
      else do
        let x ← pick numNames
        pure (.opFn .orderby (← genSet Γ d) (.ident x) (key (.ident x)))
    | _ => genArr Γ 0
def genTup (Γ : Ctx) : Nat → Gen Ast
  | 0 => do pure (tupOf [("a", .num (← rand 6)), ("b", .num (← rand 6))])
  | d + 1 => do
    match ← rand 6 with
    | 0 => do pure (tupOf [("b", ← genNum Γ d), ("a", ← genNum Γ d)])
    | 1 => do pure (condOf [((← genBool Γ d), (← genTup Γ d)), (.ident "_", ← genTup Γ d)])
    | 2 => do
      if ← chance 1 2 then pure (.opDot .tupmap (← genTup Γ d) (← genNum (Γ.bind "." .num) d))
      else do
        let x ← pick numNames
        pure (.opFn .tupmap (← genTup Γ d) (.ident x) (← genNum (Γ.bind x .num) d))
    | _ => do pure (tupOf [("a", ← genNum Γ d), ("b", ← genNum Γ d)])
def genFn (Γ : Ctx) : Nat → Gen Ast
  | 0 => do
    let x ← pick numNames
    pure (.fn (.ident x) (← genNum (Γ.bind x .num) 0))
  | d + 1 => do
    let fs := Γ.ofTy .fn
    if !fs.isEmpty && (← chance 1 5) then pure (.ident (← pick fs)) else
    let x ← pick numNames
    match ← rand 6 with
    | 0 => do
      -- curried: returns a function of the right type after one application
      pure (.call (.fn (.ident "k") (.fn (.ident x) (← genNum ((Γ.bind "k" .num).bind x .num) d))) (← genNum Γ d))
    | 1 => do pure (.paren (.fn (.ident x) (← genNum (Γ.bind x .num) d)))
    | 2 => do pure (condOf [((← genBool Γ d), .fn (.ident x) (← genNum (Γ.bind x .num) d)),
                            (.ident "_", .fn (.ident x) (← genNum (Γ.bind x .num) d))])
    | _ => do pure (.fn (.ident x) (← genNum (Γ.bind x .num) d))
end

/-- a whole program: mostly numbers, also sets, arrays, tuples, booleans and functions -/
def genProg (d : Nat) : Gen Ast := do
  match ← rand 12 with
  | 0 | 1 => genSet [] d
  | 2 => genArr [] d
  | 3 => genTup [] d
  | 4 => genBool [] d
  | 5 => genFn [] d
  | 6 => do pure (arrOf [← genNum [] d, ← genSet [] d])
  | 7 => do
    match ← rand 3 with
    | 0 => do
      if ← chance 1 2 then pure (setOf [← genStr, ← genStr])
      else do pure (arrOf [.bytes (← genList ((← rand 3) + 1) (do pure (65 + (← rand 5)))), ← genStr])
    | 1 => do pure (dictOf [(.num 1, ← genNum [] d), (← genStr, ← genBool [] d)])
    | _ => do pure (tupOf [("a", ← genStr), ("b", ← genArr [] d)])
  | _ => genNum [] d

/-! ## rewriting at a position -/

def big : Nat := 1000000000

/-- try the rewrite `f` at this node: the `k`-th applicable node (pre-order) is rewritten -/
@[inline] def tryAt (f : Ast → Option Ast) (a : Ast) (k : Nat) (cont : Nat → Ast × Nat) : Ast × Nat :=
  match f a with
  | some r => if k = 0 then (r, big) else cont (k - 1)
  | none => cont k

/-- pre-order walk over the expression nodes (spine cells are not nodes; a cond key `_` is not a node) -/
def walk (f : Ast → Option Ast) : Ast → Nat → Ast × Nat
  | .let_ p e b, k => tryAt f (.let_ p e b) k fun k =>
    let (e', k) := walk f e k; let (b', k) := walk f b k; (.let_ p e' b', k)
  | .opFn op l p b, k => tryAt f (.opFn op l p b) k fun k =>
    let (l', k) := walk f l k; let (b', k) := walk f b k; (.opFn op l' p b', k)
  | .opDot op l g, k => tryAt f (.opDot op l g) k fun k =>
    let (l', k) := walk f l k; let (g', k) := walk f g k; (.opDot op l' g', k)
  | .fn p b, k => tryAt f (.fn p b) k fun k => let (b', k) := walk f b k; (.fn p b', k)
  | .call g a, k => tryAt f (.call g a) k fun k =>
    let (g', k) := walk f g k; let (a', k) := walk f a k; (.call g' a', k)
  | .neg e, k => tryAt f (.neg e) k fun k => let (e', k) := walk f e k; (.neg e', k)
  | .dot e n, k => tryAt f (.dot e n) k fun k => let (e', k) := walk f e k; (.dot e' n, k)
  | .un op e, k => tryAt f (.un op e) k fun k => let (e', k) := walk f e k; (.un op e', k)
  | .bin op a b, k => tryAt f (.bin op a b) k fun k =>
    let (a', k) := walk f a k; let (b', k) := walk f b k; (.bin op a' b', k)
  | .and_ a b, k => tryAt f (.and_ a b) k fun k =>
    let (a', k) := walk f a k; let (b', k) := walk f b k; (.and_ a' b', k)
  | .or_ a b, k => tryAt f (.or_ a b) k fun k =>
    let (a', k) := walk f a k; let (b', k) := walk f b k; (.or_ a' b', k)
  | .cond es, k => tryAt f (.cond es) k fun k => let (es', k) := walk f es k; (.cond es', k)
  | .coll c es, k => tryAt f (.coll c es) k fun k => let (es', k) := walk f es k; (.coll c es', k)
  | .paren e, k => tryAt f (.paren e) k fun k => let (e', k) := walk f e k; (.paren e', k)
  | .cons n key v r, k =>
    let (key', k) := if key == .ident "_" then (key, k) else walk f key k
    let (v', k) := walk f v k
    let (r', k) := walk f r k
    (.cons n key' v' r', k)
  | .nil, k => (.nil, k)
  | a, k => tryAt f a k fun k => (a, k)

def countApp (f : Ast → Option Ast) (a : Ast) : Nat := big / 2 - (walk f a (big / 2)).2
def rewriteAt (f : Ast → Option Ast) (a : Ast) (k : Nat) : Ast := (walk f a k).1

/-! ## the documented rewrites -/

/-- `let p = e; b`  =  `e -> \p b`  =  `(\p b)(e)` -/
def letParts : Ast → Option (Pat × Ast × Ast)
  | .let_ p e b => some (p, e, b)
  | .opFn .arrow e p b => some (p, e, b)
  | .call (.fn p b) e => some (p, e, b)
  | _ => none
def asLet (a : Ast) : Option Ast := (letParts a).map fun (p, e, b) => .let_ p e b
def asArrow (a : Ast) : Option Ast := (letParts a).map fun (p, e, b) => .opFn .arrow e p b
def asCall (a : Ast) : Option Ast := (letParts a).map fun (p, e, b) => .call (.fn p b) e

/-- a sugared literal spelled out as a set of tuples -/
def spellItems (attr : String) : List Ast → Nat → List Ast
  | [], _ => []
  | v :: r, i => tupOf [("@", .num i), (attr, v)] :: spellItems attr r (i + 1)

def isLitAst (a : Ast) : Bool := match compileG true false a with | .lit _ => true | _ => false

def indexedA : List Ast → Nat → List (Ast × Ast)
  | [], _ => []
  | v :: r, i => (.num i, v) :: indexedA r (i + 1)

/-- the parts of a sugared value: the attribute name and its (index or key, element) pairs -/
def sugarParts : Ast → Option (String × List (Ast × Ast))
  | .str cs => some ("@char", indexedA (cs.map .num) 0)
  | .bytes bs => some ("@byte", indexedA (bs.map .num) 0)
  | .coll .arr items => some ("@item", indexedA ((spineToList items).map (·.2.2)) 0)
  | .coll .dict items =>
    -- a dict with literal, pairwise distinct keys (a set of (@, @value) tuples may repeat a key, a dict may not)
    match compileG true true (.coll .dict items) with
    | .lit _ => some ("@value", (spineToList items).map fun (_, k, v) => (k, v))
    | _ => none
  | _ => none

/-- the spelled-out forms of a sugared value:
0 = set of `(@: k, nm: v)` tuples, 1 = the same with the attributes written in the other order,
2 = relation literal `{|@, nm| (k, v), …}`, 3 = relation literal with the heading in the other order `{|nm, @| (v, k), …}` -/
def spellAs (form : Nat) (a : Ast) : Option Ast :=
  match sugarParts a with
  | some (nm, kvs) =>
    let row (k v : Ast) : Ast := if form % 2 == 0 then tupOf [("@", k), (nm, v)] else tupOf [(nm, v), ("@", k)]
    let rows := kvs.map fun (k, v) => row k v
    some (if form < 2 then setOf rows else .coll .rel (mkList rows))
  | none =>
    match a with
    | .tt => some (setOf [tupOf []])
    | .ff => some (setOf [])
    | _ => none
def spell : Ast → Option Ast := spellAs 0
def spellSame (a : Ast) : Option Ast := (spell a).map fun _ => a

/-- free occurrences of the name `old` renamed to `new` (binders of `old` shadow) -/
def renameVar (old new : String) : Ast → Ast
  | .ident x => if x = old then .ident new else .ident x
  | .let_ p e b => .let_ p (renameVar old new e) (if (patVars p).contains old then b else renameVar old new b)
  | .opFn op l p b => .opFn op (renameVar old new l) p (if (patVars p).contains old then b else renameVar old new b)
  | .opDot op l (.fn p b) =>
    .opDot op (renameVar old new l) (.fn p (if (patVars p).contains old then b else renameVar old new b))
  | .opDot op l g => .opDot op (renameVar old new l) (if old = "." then g else renameVar old new g)
  | .fn p b => .fn p (if (patVars p).contains old then b else renameVar old new b)
  | .call g a => .call (renameVar old new g) (renameVar old new a)
  | .neg e => .neg (renameVar old new e)
  | .dot e n => .dot (renameVar old new e) n
  | .un op e => .un op (renameVar old new e)
  | .bin op a b => .bin op (renameVar old new a) (renameVar old new b)
  | .and_ a b => .and_ (renameVar old new a) (renameVar old new b)
  | .or_ a b => .or_ (renameVar old new a) (renameVar old new b)
  | .cond es => .cond (renameVar old new es)
  | .coll c es => .coll c (renameVar old new es)
  | .paren e => .paren (renameVar old new e)
  | .cons n k v r => .cons n (renameVar old new k) (renameVar old new v) (renameVar old new r)
  | a => a

/-- `lhs op f` = `lhs op \. f` = `lhs op \fresh f[fresh/.]` -/
def isDotForm : Ast → Bool
  | .opDot _ _ (.fn _ _) => false
  | .opDot _ _ _ => true
  | _ => false
def dotSame (a : Ast) : Option Ast := if isDotForm a then some a else none
def dotExplicit : Ast → Option Ast
  | .opDot op l g => if isDotForm (.opDot op l g) then some (.opFn op l (.ident ".") g) else none
  | _ => none
def dotFresh (fresh : String) : Ast → Option Ast
  | .opDot op l g =>
    if isDotForm (.opDot op l g) then some (.opFn op l (.ident fresh) (renameVar "." fresh g)) else none
  | _ => none

/-- `let x = v; b`  =  `b[x := v]` (`substA`, Arrai/C08/Rewrite.lean) for a closed literal `v` -/
def substLet : Ast → Option Ast
  | .let_ (.ident x) v b => if x != "_" && isLitAst v then some (substA x v b) else none
  | _ => none
def substSame (a : Ast) : Option Ast := (substLet a).map fun _ => a

/-- wrap a let-bound value so that it becomes a closed literal (makes `substLet` applicable more often) -/
def closedLits : List Ast :=
  [.num 0, .num 1, .num 2, .num 5, .tt, .ff, .str [97, 98], setOf [.num 1, .num 2], arrOf [.num 3, .num 4],
   tupOf [("a", .num 1), ("b", .num 2)], dictOf [(.num 1, .num 2)], setOf [], tupOf []]

def falsy : List Ast :=
  [.num 0, .ff, setOf [], tupOf [], .str [], arrOf [], .bin .sub (.num 1) (.num 1), .bin .lt (.num 1) (.num 0),
   .paren (.num 0), .opDot .where_ (setOf [.num 1]) (.num 0), .and_ (.num 0) (.ident "zz")]
def truthy : List Ast :=
  [.num 1, .tt, setOf [.num 0], tupOf [("a", .num 0)], .str [120], .bin .eq (.num 0) (.num 0), .neg (.num 2),
   .fn (.ident "q") (.ident "q"), .or_ (.num 3) (.ident "zz")]

def notUnderscore (a : Ast) : Bool := a != .ident "_"

/-- `lhs op \p b`  =  `lhs op (\p b)`: redundant parentheses around the function literal -/
def parenFn : Ast → Option Ast
  | .opFn op l p b => some (.opDot op l (.paren (.fn p b)))
  | _ => none
def parenFnSame (a : Ast) : Option Ast := (parenFn a).map fun _ => a

/-! ## case assembly -/

def fuel : Nat := 60

structure Variant where
  ast : Ast
  src : String

def mkMeta (id stratum : String) (vs : List Variant) (kfCls : String := "KF-fold-unselected") : Case :=
  let impls := vs.map fun v => Impl.run fuel v.ast
  let specs := vs.map fun v => Spec.run fuel v.ast
  let spec0 := specs.headD .unsup
  let defined := impls.all Res.defined && specs.all Res.defined
  let iobs := impls.map Res.obs
  let model := if iobs.all (· == iobs.headD "") then "same:" ++ iobs.headD "" else "diff:" ++ "|".intercalate iobs
  let spec := "same:" ++ spec0.obs
  let anyPoison := vs.any fun v => poisoned (Impl.compile v.ast)
  { id := id, kind := "meta", stratum := stratum,
    cls := if defined && model != spec && anyPoison then kfCls else "good",
    model := if defined then model else "?",
    spec := if defined then spec else "!panic",
    payload := vs.map (·.src) }

def plain (a : Ast) : Variant := ⟨a, a.toSource⟩

/-- number of tokens of the fully parenthesised text (the wbnf parser is super-linear in nesting depth) -/
def fullSize (a : Ast) : Nat := (toks true a).length

/-- every sub-term parenthesised; for big programs (slow to parse) only the outermost levels -/
def fullv (a : Ast) : Variant :=
  if fullSize a ≤ 160 then ⟨a, a.toSourceFull⟩ else ⟨a, render (["("] ++ toks false a ++ [")"])⟩

def withTrivia (a : Ast) (full : Bool) : Gen Variant := do
  let ts := toks full a
  let picks ← genList (ts.length + 2) (rand trivia.length)
  pure ⟨a, renderTrivia ts (fun i => picks.getD i 0)⟩

/-- redundant parentheses around `n` random sub-terms -/
def addParens (a : Ast) : Nat → Gen Ast
  | 0 => pure a
  | n + 1 => do
    let f : Ast → Option Ast := fun e => if notUnderscore e then some (.paren e) else none
    let c := countApp f a
    if c = 0 then pure a else addParens (rewriteAt f a (← rand c)) n

/-- the source of a variant: mostly minimal parentheses, sometimes fully parenthesised or with trivia -/
def rend (a : Ast) : Gen Variant := do
  match ← rand 10 with
  | 0 => pure (fullv a)
  | 1 => withTrivia a false
  | _ => pure (plain a)

/-- one rewrite kind applied at a random applicable position of `t`; `none` if not applicable -/
def applyAt (t : Ast) (fs : List (Ast → Option Ast)) : Gen (Option (List Ast)) := do
  match fs with
  | [] => pure none
  | f0 :: _ =>
    let c := countApp f0 t
    if c = 0 then pure none else
    let k ← rand c
    pure (some (fs.map fun f => rewriteAt f t k))

/-! ## nested default binders: an outer `.` is in scope where an inner `lhs op f` binds `.` again -/

/-- a body over the name `.` (a number) that really uses it -/
def genDotBody (Γ : Ctx) : Gen Ast := do
  let Γ' := Γ.bind "." .num
  match ← rand 5 with
  | 0 => pure (.ident ".")
  | 1 => pure (.neg (.ident "."))
  | 2 => do pure (.bin .add (.bin .mul (.ident ".") (.num ((← rand 3) + 1))) (← genNum Γ' 0))
  | 3 => do pure (.bin .sub (← genNum Γ' 1) (.ident "."))
  | _ => do pure (.bin .add (.ident ".") (← genNum Γ' 1))

/-- `L op f` where `L` is built from the outer `.` (of type `dotTy`) and `f` uses the inner `.` -/
def genInner (Γ : Ctx) (dotTy : Ty) : Gen (Ast × Ty) := do
  let dot := Ast.ident "."
  match dotTy with
  | .arrNum => do pure (.opDot .seq dot (← genDotBody Γ), .arrNum)
  | .tup => do pure (.opDot .tupmap dot (← genDotBody Γ), .tup)
  | _ => do
    let k ← rand 4
    let l ← pick [dot, dot, dot, .opDot .where_ dot (.bin .gt (.ident ".") (.num k)),
                  .opDot .darrow dot (.bin .add (.ident ".") (.num k))]
    match ← rand 8 with
    | 0 => do
      let op ← pick [BinOp.lt, .le, .gt, .ge, .ne]
      pure (.opDot .where_ l (.bin op (.ident ".") (← genNum (Γ.bind "." .num) 0)), .setNum)
    | 1 => do pure (.opDot .darrow l (← genDotBody Γ), .setNum)
    | 2 | 3 | 4 => do
      -- orderby with an injective key
      let c ← rand 4
      let key ← pick [Ast.ident ".", .neg (.ident "."), .bin .add (.bin .mul (.ident ".") (.num 2)) (.num c),
                      .bin .sub (.num c) (.ident ".")]
      pure (.opDot .orderby l key, .arrNum)
    | 5 => do pure (.opDot .sum l (← genDotBody Γ), .num)
    | 6 => do pure (.opDot .max l (← genDotBody Γ), .num)
    | _ => do pure (.opDot .min l (← genDotBody Γ), .num)

/-- turn every default binder into an explicit one with a fresh name, outermost first -/
def explicitAll : Ast → Nat → Ast
  | t, 0 => t
  | t, n + 1 =>
    if countApp dotSame t = 0 then t
    else explicitAll (rewriteAt (dotFresh s!"d{n}") t 0) n

def genNested : Gen Ast := do
  let dotTy ← pick [Ty.setNum, .setNum, .setNum, .arrNum, .tup]
  let value : Gen Ast := match dotTy with
    | .arrNum => do pure (arrOf (← genList ((← rand 3) + 1) (do pure (.num (← rand 6)))))
    | .tup => genTup [] 0
    | _ => do pure (setOf (← genList ((← rand 3) + 1) (do pure (.num (← rand 7)))))
  let (inner, ty) ← genInner [(".", dotTy)] dotTy
  let v1 ← value
  let v2 ← value
  let core ← match ← rand 7 with
    | 0 => pure (Ast.opDot .arrow v1 inner)
    | 1 => pure (Ast.opDot .darrow (setOf [v1, v2]) inner)
    | 2 => pure (Ast.opDot .seq (arrOf [v1, v2]) inner)
    | 3 => pure (Ast.opDot .where_ (setOf [v1, v2]) (if ty == .num then .bin .gt inner (.num 2) else inner))
    | 4 => pure (Ast.opFn .arrow v1 (.ident ".") inner)
    | 5 => pure (Ast.let_ (.ident ".") v1 inner)
    | _ => do
      -- two levels: the outer `.` is a set of sets
      pure (Ast.opDot .arrow (setOf [v1, v2]) (.opDot .darrow (.ident ".") inner))
  match ← rand 4 with
  | 0 => do
    let x ← pick numNames
    pure (.let_ (.ident x) (.num (← rand 6)) core)
  | 1 => pure (arrOf [core, .num 0])
  | _ => pure core

/-! ## aliases: a name bound to a bare identifier, the source name re-bound before the alias is used -/

/-- the continuation of an alias binding `y = x`: re-bind `x` in one of the ways the language offers, then use `y` -/
def genShadowUse (x y : String) (fnAlias : Bool) : Gen Ast := do
  let b : Ast ← if fnAlias then pure (.fn (.ident "q") (.num 0)) else do pure (.num ((← rand 4) + 6))
  let use ← if fnAlias then pure (Ast.call (.ident y) (.num 1)) else
    pick [Ast.ident y, .bin .add (.ident y) (.ident x), arrOf [.ident x, .ident y], .bin .mul (.ident y) (.num 2),
          .bin .sub (.ident x) (.ident y)]
  let use := if fnAlias then use else use
  match ← rand (if fnAlias then 3 else 8) with
  | 0 => pure (.let_ (.ident x) b use)
  | 1 => pure (.call (.fn (.ident x) use) b)
  | 2 => pure (.opFn .arrow b (.ident x) use)
  | 3 => pure (.opFn .seq (arrOf [.num 5, .num 6]) (.ident x) use)
  | 4 => pure (.opFn .darrow (setOf [.num 5, .num 6]) (.ident x) use)
  | 5 => pure (.let_ (patArr [.ident x, .ident "q"]) (arrOf [b, b]) use)
  | 6 => pure (.let_ (.ident "k") (.fn (.ident x) use) (.call (.ident "k") b))
  | _ => pure (.opFn .where_ (setOf [.num 5, .num 6]) (.ident x) (.bin .lt (.ident y) (.ident x)))

/-- `[let y = x; K,  x -> \y K,  (\y K)(x)]` under a binding of `x` -/
def genAlias : Gen (List Ast) := do
  let dotCase ← chance 1 6
  let fnAlias ← chance 1 6
  if dotCase then
    -- the aliased name is the default binder `.`, re-bound by an inner default binder
    let y ← pick numNames
    let a ← genNum [] 1
    let inner ← pick [Ast.opDot .seq (arrOf [.num 5, .num 6]) (.bin .add (.ident y) (.ident ".")),
                      .opDot .darrow (setOf [.num 5, .num 6]) (.ident y),
                      .opDot .arrow (.num 9) (arrOf [.ident y, .ident "."]),
                      .opDot .sum (setOf [.num 5, .num 6]) (.bin .sub (.ident ".") (.ident y))]
    let forms := [Ast.let_ (.ident y) (.ident ".") inner, .opFn .arrow (.ident ".") (.ident y) inner,
                  .call (.fn (.ident y) inner) (.ident ".")]
    pure (forms.map fun f => Ast.opDot .arrow a f)
  else
    let x ← pick (if fnAlias then fnNames else numNames)
    let y ← pick ((if fnAlias then fnNames else numNames).filter (· != x))
    let a ← if fnAlias then (do pure (Ast.fn (.ident "z") (.bin .add (.ident "z") (.num ((← rand 5) + 1))))) else genNum [] 1
    let k ← genShadowUse x y fnAlias
    let forms := [Ast.let_ (.ident y) (.ident x) k, .opFn .arrow (.ident x) (.ident y) k, .call (.fn (.ident y) k) (.ident x)]
    let outer ← rand 3
    pure (forms.map fun f => match outer with
      | 0 => Ast.opFn .arrow a (.ident x) f
      | _ => Ast.let_ (.ident x) a f)

/-! ## default-binder forms outside the Lean model (mean, median, rank, attribute access): the default-binder
text, the explicit `\v` text and the fully explicit text must agree (harness op `agree`) -/

structure InnerT where
  op : String
  body : String → String      -- the body over the bound name
  val : Nat → String          -- a value for the attribute `a` (two variants)

instance : Inhabited InnerT := ⟨⟨"=>", fun n => n, fun _ => "{1}"⟩⟩

def innerTs : List InnerT :=
  let sets (i : Nat) := if i == 0 then "{3, 1, 2}" else "{4, 6}"
  let arrs (i : Nat) := if i == 0 then "[3, 1, 2]" else "[4, 6]"
  let tups (i : Nat) := if i == 0 then "(p: 3, q: 1)" else "(p: 4, q: 6)"
  let attr (n : String) := if n == "." then ".x" else n ++ ".x"
  let rels (i : Nat) := if i == 0 then "{(x: 3), (x: 1)}" else "{(x: 4), (x: 6), (x: 5)}"
  [ ⟨"where", fun n => s!"{n} > 1", sets⟩, ⟨"=>", fun n => s!"{n} * 2 + 1", sets⟩, ⟨"orderby", fun n => s!"-{n}", sets⟩,
    ⟨"orderby", fun n => s!"{n}", sets⟩, ⟨"sum", fun n => s!"{n} * 2", sets⟩, ⟨"max", fun n => s!"-{n}", sets⟩,
    ⟨"min", fun n => s!"{n} + 1", sets⟩, ⟨"mean", fun n => s!"{n} * 2", sets⟩, ⟨"median", fun n => s!"{n}", sets⟩,
    ⟨">>", fun n => s!"{n} + 1", arrs⟩, ⟨":>", fun n => s!"{n} * 3", tups⟩,
    ⟨"rank", fun n => s!"(r: {attr n})", rels⟩, ⟨"orderby", fun n => s!"-{attr n}", rels⟩,
    ⟨"=>", fun n => s!"({n} -> . + 1)", sets⟩ ]

def genAgree (id : String) : Gen Case := do
  let t ← pick innerTs
  let dflt := s!".a {t.op} {t.body "."}"
  let expl := s!".a {t.op} \\v {t.body "v"}"
  let full := s!"o.a {t.op} \\v {t.body "v"}"
  let (a, b, c) ← match ← rand 5 with
    | 0 => pure (s!"(a: {t.val 0}) -> ({dflt})", s!"(a: {t.val 0}) -> ({expl})", s!"(a: {t.val 0}) -> \\o ({full})")
    | 1 => pure (s!"\{(a: {t.val 0}), (a: {t.val 1})} => ({dflt})", s!"\{(a: {t.val 0}), (a: {t.val 1})} => ({expl})",
                 s!"\{(a: {t.val 0}), (a: {t.val 1})} => \\o ({full})")
    | 2 => pure (s!"[(a: {t.val 0}), (a: {t.val 1})] >> ({dflt})", s!"[(a: {t.val 0}), (a: {t.val 1})] >> ({expl})",
                 s!"[(a: {t.val 0}), (a: {t.val 1})] >> \\o ({full})")
    | 3 => pure (s!"\{(a: {t.val 0}), (a: {t.val 1})} where ({dflt})", s!"\{(a: {t.val 0}), (a: {t.val 1})} where ({expl})",
                 s!"\{(a: {t.val 0}), (a: {t.val 1})} where \\o ({full})")
    | _ => pure (s!"let . = (a: {t.val 1}); {dflt}", s!"let . = (a: {t.val 1}); {expl}",
                 s!"let o = (a: {t.val 1}); {full}")
  pure { id := id, cls := "good", kind := "agree", stratum := s!"agree/{t.op}", model := "agree", spec := "agree",
         payload := [a, b, c] }

/-! ## relation literals: the heading in every attribute order, against the explicit tuples and the sugar -/

def permute {α} (p : List Nat) (xs : List α) [Inhabited α] : List α := p.map fun i => xs.getD i default

def genRelPermAsts : Gen (String × List Ast) := do
  let special ← pick ["@item", "@char", "@value", "@byte", "@item", "@value", "b"]
  let three ← chance 1 3
  let names : List String :=
    if special == "b" then (if three then ["a", "b", "c"] else ["a", "b"])
    else (if three then ["@", special, "x"] else ["@", special])
  let nrows := (← rand 3) + 1
  let cellFor (nm : String) (i : Nat) : Gen Ast := do
    match nm with
    | "@" => pure (.num i)
    | "@char" => do pure (.num (97 + (← rand 4)))
    | "@byte" => do pure (.num (65 + (← rand 4)))
    | _ => do if ← chance 1 4 then genNum [] 1 else pure (.num (← rand 9))
  let mut rows : List (List Ast) := []
  for i in [0:nrows] do
    let mut r : List Ast := []
    for nm in names do
      r := r ++ [← cellFor nm i]
    rows := rows ++ [r]
  let perms : List (List Nat) := if three then [[0, 1, 2], [2, 1, 0], [1, 2, 0], [1, 0, 2]] else [[0, 1], [1, 0]]
  let rel (p : List Nat) : Ast := .coll .rel (mkList (rows.map fun r => tupOf (permute p (names.zip r))))
  let tuples (p : List Nat) : Ast := setOf (rows.map fun r => tupOf (permute p (names.zip r)))
  let p1 ← pick perms
  let p2 ← pick (perms.filter (· != p1))
  -- the sugar literal, where the relation is one (dense indices from 0 / distinct keys)
  let vals := rows.map fun r => r.getD 1 (.num 0)
  let sugar : List Ast :=
    if three || special == "b" || nrows == 0 then [] else
    match special with
    | "@item" => [arrOf vals]
    | "@value" => [dictOf (rows.map fun r => (r.getD 0 (.num 0), r.getD 1 (.num 0)))]
    | "@char" => [.str (vals.map fun | .num n => n | _ => 97)]
    | _ => [.bytes (vals.map fun | .num n => n | _ => 65)]
  pure (s!"sugar/rel/{special}{if three then "/3" else ""}", [rel p1, rel p2, tuples p1, tuples p2] ++ sugar)

def genRelPerm (id : String) : Gen Case := do
  let (stratum, vs) ← genRelPermAsts
  pure (mkMeta id stratum (← vs.mapM rend))

/-! ## `&&`, `||`, cond with a LITERAL operand on either side, spelled inline, parenthesised and let-bound -/

def falsyLits : List Ast := [.ff, setOf [], .num 0, .str [], arrOf [], tupOf []]
def truthyLits : List Ast := [.tt, .num 1, .str [97], setOf [tupOf []], tupOf [("a", .num 0)], arrOf [.num 0], .num 2]

def genLogicLitAsts : Gen (String × List Ast) := do
  let shape ← rand 9
  -- the operand that a wrong fold would drop matters most when the literal decides nothing by itself:
  -- `x && <false-like>` is x when x is false-like (of any kind) and fails when x fails; dually for `||`
  let andish := shape == 0 || shape == 1 || shape == 2
  let orish := shape == 3 || shape == 4 || shape == 5
  let preferFalsy ← if andish then chance 3 4 else if orish then chance 1 4 else chance 1 2
  let l ← if preferFalsy then pick falsyLits else pick truthyLits
  let l2 ← if ← chance 1 2 then pick falsyLits else pick truthyLits
  -- the other operand: a name bound to a value of another kind, arithmetic, a failing term, a literal
  let zFalsy ← if andish then chance 3 4 else if orish then chance 1 4 else chance 1 2
  let zv ← if zFalsy then pick falsyLits else pick truthyLits
  let other ← match ← rand 7 with
    | 0 | 1 | 2 => pure (Ast.ident "z")
    | 3 => pick errTerms
    | 4 => do pure (.bin .sub (.num (← rand 3)) (.num 1))
    | 5 => genNum [("z", .num)] 1
    | _ => pure (.paren (.ident "z"))
  -- `lit` is the spelling of the literal operand
  let core (lit : Ast) : Ast := match shape with
    | 0 | 1 => .and_ other lit
    | 2 => .and_ lit other
    | 3 | 4 => .or_ other lit
    | 5 => .or_ lit other
    | 6 => condOf [(other, lit), (.ident "_", l2)]
    | 7 => condOf [(lit, other), (.ident "_", l2)]
    | _ => .and_ (.or_ other lit) (.or_ l2 (.and_ lit other))
  let ctx ← rand 4
  let wrap (a : Ast) : Ast := match ctx with
    | 0 => arrOf [a, .num 7]
    | 1 => .or_ a (.num 9)
    | _ => a
  let prog (lit : Ast) : Ast := .let_ (.ident "z") zv (wrap (core lit))
  let inline := prog l
  let paren := prog (.paren l)
  let bound := Ast.let_ (.ident "z") zv (.let_ (.ident "f") l (wrap (core (.ident "f"))))
  pure (s!"logic-lit/{shape}", [inline, paren, bound])

def genLogicLit (id : String) : Gen Case := do
  let (stratum, vs) ← genLogicLitAsts
  pure (mkMeta id stratum (← vs.mapM rend))

/-! ## stacked prefix operators (`- -x`, `-+x`, `!-x`, `^ ^s`, …) against their parenthesised forms -/

/-- operands on which negation is not an involution, or not numeric -/
def unaryOperands : List Ast :=
  let w (a : Ast) : Ast := tupOf [("@neg", a)]
  -- `(@neg: n)` and nested wrappers: the values on which `-` is NOT an involution (`-(@neg: 2)` is 2, `-2` is -2)
  [w (.num 2), w (.num 2), w (.num 0), w (.num 5), w (.num 7), w (w (.num 1)), w (w (.num 1)), w (w (w (.num 3))),
   w (w (.str [97])), w (.neg (.num 4)),
   -- values that `-` wraps, numbers, and wrappers of non-numbers (there `-` is an involution)
   .num 2, .num 0, .num 5, w (.str [97]), w (setOf []), .str [97], .str [], setOf [.num 1], setOf [.num 1, .num 2], setOf [],
   tupOf [("a", .num 1)], tupOf [], .tt, .ff, arrOf [.num 1], tupOf [("@neg", .num 1), ("a", .num 2)], .neg (.num 0)]

def applyUn (k : Nat) (e : Ast) : Ast :=
  match k with
  | 0 | 1 | 2 | 3 => .neg e
  | 4 => .un .pos e
  | 5 => .un .not e
  | _ => .un .pset e

/-- `ops` applied innermost first; `parenAt i` puts redundant parentheses around the operand of the i-th operator -/
def stackUn (ops : List Nat) (x : Ast) (parenMask : Nat) : Ast :=
  (ops.zipIdx.foldl (fun (acc : Ast) (k, i) => applyUn k (if i > 0 && (parenMask >>> i) % 2 == 1 then .paren acc else acc)) x)

def genUnaryAsts : Gen (String × List Ast) := do
  let depth := (← rand 2) + 2
  let lit ← pick unaryOperands
  let isSet := match lit with | .coll .set _ => true | .tt => true | .ff => true | .str _ => true | _ => false
  -- mostly `-`, also `+` and `!`; a power set only as the innermost operator(s) of a set operand
  let mut ops ← genList depth (rand 6)
  if isSet && (← chance 1 3) then
    ops := [7] ++ ops.drop 1
    if ← chance 1 3 then ops := [7, 7] ++ ops.drop 2
  let bound ← chance 1 2
  let x : Ast := if bound then .ident "w" else lit
  let ctx ← rand 12
  let wrap (a : Ast) : Ast :=
    let a := match ctx with
      | 0 => Ast.bin .pow a (.num 2)            -- prefix operators bind tighter than `^`
      | 1 => .bin .sub (.num 1) a
      | 2 | 3 => arrOf [a, .num 7]
      | 4 | 5 => .bin .eq a lit
      | _ => a
    if bound then .let_ (.ident "w") lit a else a
  let all := (1 <<< depth) - 1
  let some_ ← rand (all + 1)
  pure (s!"unary/{depth}", [wrap (stackUn ops x 0), wrap (stackUn ops x all), wrap (stackUn ops x some_)])

def genUnary (id : String) : Gen Case := do
  let (stratum, vs) ← genUnaryAsts
  match vs with
  | [a, b, c] => pure (mkMeta id stratum [← rend a, plain b, fullv a, ← rend c])
  | _ => pure (mkMeta id stratum (← vs.mapM rend))

/-! ## floats: an implementation-only metamorphic stream (the Lean model is integer-only).
Arithmetic chains over non-integer and extreme literals, written bare, with the parentheses the documented
precedence/associativity implies, with let-bound literals and with redundant parentheses around the literals:
all spellings must print the same float text (harness op `agree`; NaN prints as NaN). -/

inductive FE where
  | lit (i : Nat)
  | bin (op : String) (l r : FE)
  deriving Inhabited

def floatLits : List String :=
  ["0.1", "0.2", "0.3", "1e308", "1e-308", "1e200", "0", "-0.0", "3", "7", "0.7", "1e16", "2.5", "1e-200"]

def feLevel (op : String) : Nat := if op == "+" || op == "-" then Expected.lvAdd else if op == "^" then Expected.lvPow else Expected.lvMul

/-- `mode` 0 = bare (minimal parentheses), 1 = every sub-term parenthesised; `leaf` prints a literal -/
def FE.src (leaf : Nat → String) (full : Bool) : FE → Nat → String
  | .lit i, _ => if full then "(" ++ leaf i ++ ")" else leaf i
  | .bin op l r, ctx =>
    let lv := feLevel op
    let body := if op == "^" then l.src leaf full (lv + 1) ++ " ^ " ++ r.src leaf full lv
                else l.src leaf full lv ++ " " ++ op ++ " " ++ r.src leaf full (lv + 1)
    if full || lv < ctx then "(" ++ body ++ ")" else body

def FE.leftChain (ops : List String) : Nat → FE
  | 0 => .lit 0
  | n + 1 => .bin (ops.getD n "*") (FE.leftChain ops n) (.lit (n + 1))

def genFE : Nat → Nat → Nat → Gen FE
  | 0, lo, _ => pure (.lit lo)
  | fuel + 1, lo, n => do
    -- leaves lo .. lo+n : split at a random point
    if n == 0 then pure (.lit lo)
    else do
      let k ← rand n
      let l ← genFE fuel lo k
      let r ← genFE fuel (lo + k + 1) (n - k - 1)
      pure (.bin (← pick ["+", "-", "*", "/", "%", "^", "*", "-"]) l r)

def genFloatAsts : Gen (FE × List String) := do
  let n := (← rand 2) + 3
  -- mostly literals whose products/differences are inexact or overflow; the others less often
  let hard := ["0.1", "0.2", "0.3", "0.7", "1e308", "1e200", "1e-308", "1e-200", "1e16", "3", "7", "0.1"]
  let lits ← genList n (do if ← chance 4 5 then pick hard else pick floatLits)
  let e ← if ← chance 3 5 then do
      -- a left-associated chain, mostly of one operator (`x * c1 * c2`, `x - c1 - c2`, `x / c1 / c2` …)
      let op ← pick ["*", "*", "*", "-", "-", "-", "+", "/", "%"]
      let ops ← genList (n - 1) (do if ← chance 3 4 then pure op else pick ["+", "-", "*", "/", "%", "^"])
      pure (FE.leftChain ops (n - 1))
    else genFE 8 0 (n - 1)
  pure (e, lits)

def genFloat (id : String) : Gen Case := do
  let (e, lits) ← genFloatAsts
  let leaf (i : Nat) : String := lits.getD i "1"
  let name (i : Nat) : String := s!"a{i}"
  let lets := String.join ((List.range lits.length).map fun i => s!"let {name i} = {leaf i}; ")
  let bare := e.src leaf false 0
  pure { id := id, cls := "good", kind := "agree", stratum := "float", model := "agree", spec := "agree",
         payload := [bare, e.src leaf true 0, lets ++ e.src name false 0, e.src (fun i => "(" ++ leaf i ++ ")") false 0,
                     lets ++ e.src name true 0] }

def kinds : List String :=
  ["let", "let", "sugar", "dot", "dot", "paren", "paren", "parenfn", "trivia", "subst", "subst", "short", "short",
   "scope", "gap", "nested", "nested", "nested", "alias", "alias", "alias", "agree", "logic", "logic", "logic", "sugar",
   "unary", "unary", "unary", "float", "float", "float", "float", "float"]

/-- is the rewrite kind applicable somewhere in `t`? -/
def applicable (kind : String) (t : Ast) : Bool :=
  match kind with
  | "let" => countApp asLet t > 0
  | "sugar" => countApp spell t > 0
  | "dot" => countApp dotSame t > 0
  | "parenfn" => countApp parenFn t > 0
  | "gap" => (renderGapComment (toks false t) 0).isSome
  | _ => true

def genProgFor (kind : String) (d : Nat) : Nat → Gen Ast
  | 0 => genProg d
  | n + 1 => do
    let t ← genProg d
    if applicable kind t then pure t else genProgFor kind d n

def genCase (idx : Nat) (thorough : Bool) : Gen Case := do
  let id := s!"C08-{idx}"
  let d ← pick (if thorough then [2, 3, 3, 4] else [2, 3, 3])
  let kind ← pick kinds
  let t ← genProgFor kind d 5
  let fallback : Gen Case := do
    -- the rewrite does not apply to this program: fall back to parentheses/trivia, which always apply
    pure (mkMeta id "paren/fallback" [plain t, fullv t, ← withTrivia t false])
  match kind with
  | "let" =>
    match ← applyAt t [asLet, asArrow, asCall] with
    | some [a, b, c] => pure (mkMeta id "let-arrow-call" [← rend a, ← rend b, ← rend c])
    | _ => fallback
  | "sugar" =>
    if ← chance 1 3 then genRelPerm id else
    match ← applyAt t [spellSame, spellAs 0, spellAs 1, spellAs 2, spellAs 3] with
    | some [a, b, c, r1, r2] => pure (mkMeta id "sugar" [← rend a, ← rend b, ← rend c, ← rend r1, ← rend r2])
    | _ => fallback
  | "logic" => genLogicLit id
  | "unary" => genUnary id
  | "float" => genFloat id
  | "dot" =>
    let fresh ← pick ["v1", "arg", "it"]
    match ← applyAt t [dotSame, dotExplicit, dotFresh fresh] with
    | some [a, b, c] => pure (mkMeta id "default-binder" [← rend a, ← rend b, ← rend c])
    | _ => fallback
  | "paren" =>
    let p ← addParens t ((← rand 4) + 1)
    pure (mkMeta id "paren" [plain t, fullv t, plain p])
  | "parenfn" =>
    match ← applyAt t [parenFnSame, parenFn] with
    | some [a, b] => pure (mkMeta id "paren-fn" [← rend a, ← rend b, fullv a])
    | _ => fallback
  | "trivia" =>
    pure (mkMeta id "trivia" [plain t, ← withTrivia t false, ← withTrivia t (← chance 1 4)])
  | "subst" =>
    if ← chance 1 3 then
      -- a let-bound tuple literal used through `.attr`: selected uses of present attributes, a missing
      -- attribute only in branches that are not selected
      let x ← pick ["t", "r", "x"]
      let lit ← pick [tupOf [("a", .num 1)], tupOf [("a", .num 1), ("b", .num 2)], tupOf [("b", .num 5), ("a", .num 0)]]
      let fv ← pick falsy
      let tv ← pick truthy
      let miss := Ast.dot (.ident x) "zz"
      let have_ := Ast.dot (.ident x) "a"
      let shape ← rand 7
      let ins : Ast → Option Ast := fun a =>
        if !notUnderscore a then none else
        some (match shape with
          | 0 => .or_ (.and_ fv miss) a
          | 1 => condOf [(fv, miss), (.ident "_", a)]
          | 2 => .and_ (.or_ tv miss) a
          | 3 => .or_ (.opDot .darrow (setOf []) miss) a
          | 4 => condOf [(.bin .eq have_ (.num 7), miss), (.ident "_", arrOf [have_, a])]
          | 5 => .let_ (.ident "k") (.fn (.ident "q") miss) a
          | _ => arrOf [.bin .add have_ (.num 1), .or_ (.and_ fv miss) a])
      let c := countApp ins t
      let body := rewriteAt ins t (← rand (max c 1))
      let p := Ast.let_ (.ident x) lit body
      pure (mkMeta id s!"subst/tuple-attr/{shape}" [← rend p, ← rend (substA x lit body)])
    else
    -- make a let-bound closed literal likely: bind a fresh literal around a random sub-term that uses it
    let x ← pick numNames
    let lit ← pick closedLits
    let wrapLet : Ast → Option Ast := fun e => if notUnderscore e then some (.let_ (.ident x) lit e) else none
    let t' ← if ← chance 1 2 then pure t else do
      let c := countApp wrapLet t
      pure (rewriteAt wrapLet t (← rand (max c 1)))
    match ← applyAt t' [substSame, substLet] with
    | some [a, b] => pure (mkMeta id "subst" [← rend a, ← rend b])
    | _ => fallback
  | "short" =>
    let e ← (do if ← chance 1 6 then pure dupDict else pick errTerms)
    let fv ← pick falsy
    let tv ← pick truthy
    let e2 ← pick errTerms
    let shape ← rand 14
    let ins : Ast → Option Ast := fun a =>
      if !notUnderscore a then none else
      some (match shape with
        | 0 => condOf [(fv, e), (.ident "_", a)]
        | 1 => .or_ (.and_ fv e) a
        | 2 => .and_ (.or_ tv e) a
        | 3 => condOf [(fv, e), (tv, a), (fv, e2)]
        | 4 => condOf [(tv, a), (.ident "_", e)]
        | 5 => condOf [(.and_ fv e, e2), (.or_ tv e, a), (e, e2)]
        -- an empty collection never evaluates the body of `=>`, `where`, `>>`, `orderby`, `sum`
        | 6 => .or_ (.opDot .darrow (setOf []) e) a
        | 7 => .or_ (.opDot .where_ (setOf []) e) a
        | 8 => .or_ (.opDot .seq (arrOf []) e) a
        | 9 => .or_ (.opDot .orderby (setOf []) e) a
        | 10 => .or_ (.opDot .sum (setOf []) e) a
        -- nested cond arms
        | 11 => condOf [(fv, condOf [(tv, e), (.ident "_", e2)]), (.ident "_", a)]
        | 12 => condOf [(tv, condOf [(fv, e), (.ident "_", a)]), (.ident "_", e2)]
        | _ => .or_ (.opFn .darrow (setOf []) (.ident "q") (.and_ fv e)) (condOf [(fv, e), (fv, e2), (.ident "_", a)]))
    let same : Ast → Option Ast := fun a => if notUnderscore a then some a else none
    match ← applyAt t [same, ins] with
    | some [a, b] => pure (mkMeta id s!"short-circuit/{shape}" [← rend a, ← rend b])
    | _ => fallback
  | "nested" =>
    let p ← genNested
    let e := explicitAll p 8
    let c := countApp dotSame p
    let one ← do
      let fresh ← pick ["v1", "arg", "it"]
      pure (rewriteAt (dotFresh fresh) p (← rand (max c 1)))
    pure (mkMeta id "nested-dot" [← rend p, ← rend e, ← rend one])
  | "alias" =>
    let vs ← genAlias
    pure (mkMeta id "alias" (← vs.mapM rend))
  | "agree" => genAgree id
  | "scope" =>
    -- closures see the bindings at their creation: a later re-binding of a captured name is invisible
    let x ← pick numNames
    let y ← pick (numNames.filter (· != x))
    let f ← pick fnNames
    let a ← genNum [] 1
    let body ← genNum [(x, .num), (y, .num)] d
    let c ← genNum [(x, .num)] 0
    let arg ← genNum [] 1
    let p1 := Ast.let_ (.ident x) a (.let_ (.ident f) (.fn (.ident y) body) (.let_ (.ident x) c (.call (.ident f) arg)))
    let p2 := Ast.let_ (.ident x) a (.let_ (.ident f) (.fn (.ident y) body) (.call (.ident f) arg))
    let p3 := Ast.let_ (.ident x) a (.call (.fn (.ident y) body) arg)
    pure (mkMeta id "lexical-scope" [← rend p1, ← rend p2, ← rend p3])
  | _ =>
    -- a comment where the grammar has no `C*`: between `\` and a parameter, between `cond` and `{`
    match renderGapComment (toks false t) (← rand 8) with
    | some s =>
      let c := mkMeta id "comment-gap" [plain t, ⟨t, s⟩]
      pure { c with cls := if c.spec == "!panic" then "good" else "KF-comment-keyword-gap",
                    model := if c.spec == "!panic" then c.model else "diff:" ++ (c.spec.drop 5).toString ++ "|error" }
    | none => fallback

/-- witnesses of the repaired defect, of the known findings, and the documented examples; always run first -/
def corpus : List Case :=
  let one := Ast.num 1
  let xs := setOf [.num 1, .num 2, .num 3]
  let gt1 (v : Ast) := Ast.bin .gt v (.num 1)
  [ -- repaired: parentheses around a function literal after where / => / ->
    mkMeta "C08-corpus-0" "corpus" [plain (.opFn .where_ xs (.ident "x") (gt1 (.ident "x"))),
      plain (.opDot .where_ xs (.paren (.fn (.ident "x") (gt1 (.ident "x")))))],
    mkMeta "C08-corpus-1" "corpus" [plain (.opFn .darrow xs (.ident "x") (.bin .add (.ident "x") one)),
      plain (.opDot .darrow xs (.paren (.fn (.ident "x") (.bin .add (.ident "x") one))))],
    mkMeta "C08-corpus-2" "corpus" [plain (.opFn .arrow one (.ident "x") (.ident "x")),
      plain (.opDot .arrow one (.paren (.fn (.ident "x") (.ident "x")))), plain (.let_ (.ident "x") one (.ident "x"))],
    -- known finding: constant folding raises the error of an unselected literal dict at compile time
    mkMeta "C08-corpus-3" "corpus" [plain (.let_ (.ident "x") one
        (condOf [(.ff, dictOf [(.ident "x", .num 2), (.ident "x", .num 3)]), (.ident "_", .num 0)])),
      plain (condOf [(.ff, dupDict), (.ident "_", .num 0)])],
    mkMeta "C08-corpus-4" "corpus" [plain (.num 0), plain (.and_ (.num 0) dupDict)],
    mkMeta "C08-corpus-5" "corpus" [plain (condOf [(.ff, dictOf [(.paren one, .num 2), (.paren one, .num 3)]), (.ident "_", .num 0)]),
      plain (condOf [(.ff, dupDict), (.ident "_", .num 0)])],
    -- lexical scope (the documented example)
    mkMeta "C08-corpus-6" "corpus" [plain (.let_ (.ident "x") one (.let_ (.ident "f")
        (.fn (.ident "y") (.bin .add (.ident "x") (.ident "y"))) (.let_ (.ident "x") (.num 10) (.call (.ident "f") one)))),
      plain (.num 2)],
    -- precedence and associativity
    mkMeta "C08-corpus-7" "corpus" [plain (.bin .pow (.neg (.num 2)) (.num 2)), plain (.num 4)],
    mkMeta "C08-corpus-8" "corpus" [plain (.bin .pow (.num 2) (.bin .pow (.num 3) (.num 2))), plain (.num 512)],
    mkMeta "C08-corpus-9" "corpus" [plain (.bin .sub (.bin .sub (.num 7) (.num 2)) one), fullv (.bin .sub (.bin .sub (.num 7) (.num 2)) one),
      plain (.num 4)],
    mkMeta "C08-corpus-10" "corpus" [plain (.bin .sub (.num 7) (.bin .sub (.num 2) one)), plain (.num 6)],
    -- a failing access on a literal tuple in a branch that is not selected; substituting the let-bound tuple
    mkMeta "C08-corpus-11" "corpus" [plain (.and_ .ff (.dot (tupOf [("a", one)]) "b")), plain .ff],
    mkMeta "C08-corpus-12" "corpus" [plain (.or_ .tt (.dot (tupOf [("a", one)]) "b")), plain .tt],
    mkMeta "C08-corpus-13" "corpus" [plain (condOf [(.ff, .dot (tupOf [("a", one)]) "b"), (.ident "_", .num 2)]), plain (.num 2)],
    mkMeta "C08-corpus-14" "corpus" [plain (.opDot .darrow (setOf []) (.dot (tupOf [("a", one)]) "b")), plain (setOf [])],
    mkMeta "C08-corpus-15" "corpus" [plain (.let_ (.ident "t") (tupOf [("a", one)]) (.and_ .ff (.dot (.ident "t") "b"))),
      plain (.and_ .ff (.dot (tupOf [("a", one)]) "b"))],
    -- nested default binders and aliases (the documented examples)
    mkMeta "C08-corpus-16" "corpus" [plain (.opDot .darrow (setOf [tupOf [("a", setOf [.num 3, one, .num 2])]])
        (.opDot .orderby (.dot (.ident ".") "a") (.neg (.ident ".")))), plain (setOf [arrOf [.num 3, .num 2, one]])],
    mkMeta "C08-corpus-17" "corpus" [plain (.let_ (.ident "x") one (.let_ (.ident "y") (.ident "x")
        (.let_ (.ident "x") (.num 2) (.ident "y")))), plain one],
    mkMeta "C08-corpus-18" "corpus" [plain (.let_ (.ident "x") one (.let_ (.ident "y") (.ident "x")
        (.opFn .seq (arrOf [.num 5, .num 6]) (.ident "x") (.ident "y")))), plain (arrOf [one, one])] ] ++
  -- stacked unary minus on an `@neg` wrapper: `- -w` is `-(-w)` is -2, not w
  [ mkMeta "C08-corpus-19" "corpus" [plain (.let_ (.ident "w") (tupOf [("@neg", .num 2)]) (.neg (.neg (.ident "w")))),
      plain (.let_ (.ident "w") (tupOf [("@neg", .num 2)]) (.neg (.paren (.neg (.ident "w"))))), plain (.neg (.num 2))],
    mkMeta "C08-corpus-20" "corpus" [plain (.un .not (.un .not (.num 2))), plain (.un .not (.paren (.un .not (.num 2)))), plain .tt] ] ++
  -- every failing snippet alone is an error (and only an error: never a panic)
  (rawSnippets.zipIdx.map fun (sn, i) => mkMeta s!"C08-corpus-err{i}" "err-snippet" [plain (rawErr sn), plain (.ident "zz")])

def gen (seed n : Nat) (thorough : Bool) : List Case := Id.run do
  let mut out := corpus.reverse
  for i in [0:n] do
    let (c, _) := (genCase i thorough).run (seedOf seed (800000 + i))
    out := c :: out
  pure out.reverse

end Arrai.C08
