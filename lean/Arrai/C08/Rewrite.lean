/-
  C08: the documented rewrites on source terms (`AR`) and the proof that compiling related source
  terms gives related compiled expressions (`compile_rel`), so that `sim` applies: rewriting a program
  by any of the rules, at any positions, never changes its observable.
-/
import Arrai.C08.Lemmas

namespace Arrai.C08
open Impl

/-! ## source-level helpers -/

/-- the term inside redundant outer parentheses -/
def stripA : Ast → Ast
  | .paren e => stripA e
  | a => a

/-- is the term a (possibly parenthesised) function literal? -/
def isFnA : Ast → Bool
  | .paren e => isFnA e
  | .fn _ _ => true
  | _ => false

/-- atomic literals: their value -/
def leafLit : Ast → Option V
  | .num n => some (.num n)
  | .str cs => some (V.mkStr cs)
  | .bytes bs => some (V.mkBytes bs)
  | .tt => some V.tt
  | .ff => some V.none
  | _ => none

def isCellA : Ast → Bool
  | .nil => true
  | .cons _ _ _ _ => true
  | _ => false

def isConsA : Ast → Bool
  | .cons _ _ _ _ => true
  | _ => false

def isUnderscoreA : Ast → Bool
  | .ident x => x == "_"
  | .paren e => isUnderscoreA e
  | _ => false

/-- capture-avoiding substitution of the closed literal `v` for the free occurrences of the name `x`
(binders of `x` shadow it; the default binder of `lhs op f` binds `.`) -/
def substA (x : String) (v : Ast) : Ast → Ast
  | .ident y => if y = x then v else .ident y
  | .let_ p e b => .let_ p (substA x v e) (if x ∈ patVars p then b else substA x v b)
  | .opFn op l p b => .opFn op (substA x v l) p (if x ∈ patVars p then b else substA x v b)
  | .opDot op l g => .opDot op (substA x v l) (if isFnA g || x != "." then substA x v g else g)
  | .fn p b => .fn p (if x ∈ patVars p then b else substA x v b)
  | .call g a => .call (substA x v g) (substA x v a)
  | .neg e => .neg (substA x v e)
  | .dot e n => .dot (substA x v e) n
  | .un op e => .un op (substA x v e)
  | .bin op a b => .bin op (substA x v a) (substA x v b)
  | .and_ a b => .and_ (substA x v a) (substA x v b)
  | .or_ a b => .or_ (substA x v a) (substA x v b)
  | .cond es => .cond (substA x v es)
  | .coll c es => .coll c (substA x v es)
  | .paren e => .paren (substA x v e)
  | .cons n k val r => .cons n (substA x v k) (substA x v val) (substA x v r)
  | a => a

/-! ## facts about `compileG` -/

theorem foldColl_cases (po : Bool) (k : Coll) (items : Expr) :
    (∃ v, foldColl po k items = .lit v) ∨ foldColl po k items = .cerr ∨ foldColl po k items = .coll k items := by
  unfold foldColl
  split
  · split
    · simp
    · cases po <;> simp
  · simp

theorem compileG_coll_true (po : Bool) (k : Coll) (items : Ast) :
    compileG true po (.coll k items) = foldColl po k (compileG true po items) := by simp [compileG]
theorem compileG_coll_false (po : Bool) (k : Coll) (items : Ast) :
    compileG false po (.coll k items) = .coll k (compileG false po items) := by simp [compileG]

/-- a property of expression heads that holds of literals, `cerr` and collections holds of a compiled collection -/
theorem compile_coll_head {P : Expr → Prop} (hl : ∀ v, P (.lit v)) (hc : P .cerr) (hk : ∀ k c, P (.coll k c))
    (fo po : Bool) (k : Coll) (items : Ast) : P (compileG fo po (.coll k items)) := by
  cases fo with
  | false => rw [compileG_coll_false]; exact hk _ _
  | true =>
    rw [compileG_coll_true]
    rcases foldColl_cases po k (compileG true po items) with ⟨v, h⟩ | h | h <;> rw [h]
    · exact hl v
    · exact hc
    · exact hk _ _

theorem compile_leaf {a : Ast} {v : V} (h : leafLit a = some v) (fo po : Bool) : compileG fo po a = .lit v := by
  cases a <;> simp [leafLit] at h <;> subst h <;> simp [compileG]

theorem stripParens_foldColl (po : Bool) (k : Coll) (items : Expr) :
    ∀ p b, stripParens (foldColl po k items) ≠ .fn p b := by
  intro p b
  rcases foldColl_cases po k items with ⟨v, h⟩ | h | h <;> rw [h] <;> simp [stripParens]

/-- `ExprAsFunction` decides on the compiled term exactly what `isFnA`/`stripA` decide on the source term -/
theorem asFunction_compile (fo po : Bool) (f : Ast) :
    asFunction (compileG fo po f) =
      match stripA f with
      | .fn p b => (p, compileG fo po b)
      | _ => (.ident ".", compileG fo po f) := by
  -- the head of the compiled term follows the head of the source term
  have key : ∀ g : Ast, (∀ p b, stripA g = .fn p b → stripParens (compileG fo po g) = .fn p (compileG fo po b)) ∧
      (isFnA g = false → ∀ p b, stripParens (compileG fo po g) ≠ .fn p b) := by
    intro g
    induction g with
    | paren e ih => simpa [stripA, isFnA, compileG, stripParens] using ih
    | fn p b _ => simp [stripA, isFnA, compileG, stripParens]
    | coll k items _ =>
      refine ⟨by simp [stripA], fun _ => ?_⟩
      exact compile_coll_head (P := fun e => ∀ p b, stripParens e ≠ .fn p b)
        (fun _ => by simp [stripParens]) (by simp [stripParens]) (fun _ _ => by simp [stripParens]) fo po k items
    | _ => simp [stripA, isFnA, compileG, stripParens]
  unfold asFunction
  cases hf : isFnA f with
  | true =>
    -- a (parenthesised) function literal
    have : ∃ p b, stripA f = .fn p b := by
      clear key
      induction f with
      | paren e ih => simpa [stripA, isFnA] using ih (by simpa [isFnA] using hf)
      | fn p b => exact ⟨p, b, rfl⟩
      | _ => simp [isFnA] at hf
    obtain ⟨p, b, hs⟩ := this
    rw [hs, (key f).1 p b hs]
  | false =>
    have h1 := (key f).2 hf
    have h2 : ∀ p b, stripA f ≠ .fn p b := by
      clear key h1
      induction f with
      | paren e ih => simpa [stripA, isFnA] using ih (by simpa [isFnA] using hf)
      | fn p b => simp [isFnA] at hf
      | _ => intro p b; simp [stripA]
    split
    · rename_i p b heq
      split
      · rename_i p' b' heq'; exact absurd heq' (h2 p' b')
      · exact absurd heq (h1 p b)
    · split
      · rename_i p' b' heq'; exact absurd heq' (h2 p' b')
      · rfl

theorem compile_opDot_fn {fo po : Bool} {op : ArrOp} {l f : Ast} {p : Pat} {b : Ast} (h : stripA f = .fn p b) :
    compileG fo po (.opDot op l f) = compileG fo po (.opFn op l p b) := by
  simp only [compileG, asFunction_compile, h]

theorem stripA_not_fn {f : Ast} (h : isFnA f = false) : ∀ p b, stripA f ≠ .fn p b := by
  induction f with
  | paren e ih => simpa [stripA, isFnA] using ih (by simpa [isFnA] using h)
  | fn p b => simp [isFnA] at h
  | _ => intro p b; simp [stripA]

theorem compile_opDot_dot {fo po : Bool} {op : ArrOp} {l f : Ast} (h : isFnA f = false) :
    compileG fo po (.opDot op l f) = compileG fo po (.opFn op l (.ident ".") f) := by
  simp only [compileG, asFunction_compile]
  have := stripA_not_fn h
  split
  · rename_i p b heq; exact absurd heq (this p b)
  · rfl

theorem compile_isCell (fo po : Bool) (a : Ast) : isCell (compileG fo po a) = isCellA a := by
  cases a with
  | coll k items =>
    exact compile_coll_head (P := fun e => isCell e = false) (fun _ => rfl) rfl (fun _ _ => rfl) fo po k items
  | _ => rfl

theorem compile_isCons (fo po : Bool) (a : Ast) : isCons (compileG fo po a) = isConsA a := by
  cases a with
  | coll k items =>
    exact compile_coll_head (P := fun e => isCons e = false) (fun _ => rfl) rfl (fun _ _ => rfl) fo po k items
  | _ => rfl

theorem compile_ne_nil (fo po : Bool) {a : Ast} (h : a ≠ .nil) : compileG fo po a ≠ .nil := by
  cases a with
  | coll k items =>
    exact compile_coll_head (P := fun e => e ≠ .nil) (fun _ => by simp) (by simp) (fun _ _ => by simp) fo po k items
  | nil => exact absurd rfl h
  | _ => simp [compileG]

theorem compile_isUnderscore (fo po : Bool) (a : Ast) : isUnderscore (compileG fo po a) = isUnderscoreA a := by
  induction a with
  | paren e ih => simpa [compileG, isUnderscore, isUnderscoreA] using ih
  | coll k items _ =>
    exact compile_coll_head (P := fun e => isUnderscore e = false) (fun _ => rfl) rfl (fun _ _ => rfl) fo po k items
  | _ => simp [compileG, isUnderscore, isUnderscoreA]

theorem foldColl_false_cases (k : Coll) (c : Expr) :
    (∃ es v, litsOf c = some es ∧ mkColl k es = .ok v ∧ foldColl false k c = .lit v) ∨
    foldColl false k c = .coll k c := by
  unfold foldColl
  cases h1 : litsOf c with
  | none => simp
  | some es =>
    cases h2 : mkColl k es with
    | ok v => left; exact ⟨es, v, rfl, h2, by simp [h2]⟩
    | _ => right; simp [h2]

theorem foldR_coll {σ : Sub} {e : Expr} {k : Coll} {c : Expr} (h : ER .expr σ e (.coll k c)) :
    ER .expr σ e (foldColl false k c) := by
  rcases foldColl_false_cases k c with ⟨es, v, h1, h2, h3⟩ | h3 <;> rw [h3]
  · exact ER.foldR h1 h2 h
  · exact h

theorem foldL_coll {σ : Sub} {e : Expr} {k : Coll} {c : Expr} (h : ER .expr σ (.coll k c) e) :
    ER .expr σ (foldColl false k c) e := by
  rcases foldColl_false_cases k c with ⟨es, v, h1, h2, h3⟩ | h3 <;> rw [h3]
  · exact ER.foldL h1 h2 h
  · exact h

/-! ## compile-time failure (`cerr`) -/

theorem poisoned_stripParens (e : Expr) : poisoned (stripParens e) = poisoned e := by
  induction e with
  | paren e ih => simpa [stripParens, poisoned] using ih
  | _ => rfl

theorem poisoned_asFunction (e : Expr) : poisoned (asFunction e).2 = poisoned e := by
  unfold asFunction
  split
  · rename_i p b heq
    have := poisoned_stripParens e
    rw [heq] at this
    simpa [poisoned] using this
  · rfl

theorem foldColl_ok (po : Bool) {k : Coll} {c : Expr} {es : List (String × V × V)} {v : V}
    (h1 : litsOf c = some es) (h2 : mkColl k es = .ok v) : foldColl po k c = .lit v := by
  simp [foldColl, h1, h2]

theorem foldColl_fail_true {k : Coll} {c : Expr} {es : List (String × V × V)}
    (h1 : litsOf c = some es) (h2 : ∀ v, mkColl k es ≠ .ok v) : foldColl true k c = .cerr := by
  unfold foldColl
  rw [h1]
  cases h3 : mkColl k es with
  | ok v => exact absurd h3 (h2 v)
  | _ => simp

theorem foldColl_none (po : Bool) {k : Coll} {c : Expr} (h1 : litsOf c = none) : foldColl po k c = .coll k c := by
  simp [foldColl, h1]

theorem litsOf_unpoisoned (c : Expr) : ∀ es, litsOf c = some es → poisoned c = false := by
  induction c with
  | nil => intro es _; rfl
  | cons n key val rest _ _ ihr =>
    intro es h
    cases val <;> cases key <;> simp [litsOf] at h
    all_goals
      obtain ⟨r, hr, _⟩ := h
      simp [poisoned, ihr r hr]
  | _ => intro es h; simp [litsOf] at h

/-- where today's compiler does not fail at compile time it produces what the never-failing compiler produces -/
theorem compile_eq_of_unpoisoned (a : Ast) :
    poisoned (compileG true true a) = false → compileG true true a = compileG true false a := by
  induction a with
  | coll k items ih =>
    intro h
    rw [compileG_coll_true] at h ⊢
    rw [compileG_coll_true]
    cases h1 : litsOf (compileG true true items) with
    | some es =>
      have hc := ih (litsOf_unpoisoned _ es h1)
      rw [← hc]
      cases h2 : mkColl k es with
      | ok v => rw [foldColl_ok _ h1 h2, foldColl_ok _ h1 h2]
      | err => rw [foldColl_fail_true h1 (by simp [h2])] at h; simp [poisoned] at h
      | oof => rw [foldColl_fail_true h1 (by simp [h2])] at h; simp [poisoned] at h
      | unsup => rw [foldColl_fail_true h1 (by simp [h2])] at h; simp [poisoned] at h
    | none =>
      rw [foldColl_none _ h1] at h ⊢
      simp only [poisoned] at h
      have hc := ih h
      rw [← hc, foldColl_none _ h1]
  | opDot op l f ihl ihf =>
    intro h
    simp only [compileG, poisoned, Bool.or_eq_false_iff, poisoned_asFunction] at h
    simp only [compileG, ihl h.1, ihf h.2]
  | _ => intro h; simp_all [compileG, poisoned]

/-! ## the rewrite relation on source terms -/

inductive AR : K → Sub → Ast → Ast → Prop
  -- congruence
  | leaf {σ a v} : leafLit a = some v → AR .expr σ a a
  | ident (σ x) : lookupV x σ = none → AR .expr σ (.ident x) (.ident x)
  | let_ {σ p e e' b b'} : AR .expr σ e e' → AR .expr (σ.erase (patVars p)) b b' →
      AR .expr σ (.let_ p e b) (.let_ p e' b')
  | opFn {σ p l l' b b'} (op) : AR .expr σ l l' → AR .expr (σ.erase (patVars p)) b b' →
      AR .expr σ (.opFn op l p b) (.opFn op l' p b')
  | opDot {σ l l' f f'} (op) : isFnA f = false → isFnA f' = false → AR .expr σ l l' →
      AR .expr (σ.erase ["."]) f f' → AR .expr σ (.opDot op l f) (.opDot op l' f')
  | fn {σ p b b'} : AR .expr (σ.erase (patVars p)) b b' → AR .expr σ (.fn p b) (.fn p b')
  | call {σ f f' a a'} : AR .expr σ f f' → AR .expr σ a a' → AR .expr σ (.call f a) (.call f' a')
  | neg {σ a a'} : AR .expr σ a a' → AR .expr σ (.neg a) (.neg a')
  | dot {σ a a'} (n : String) : AR .expr σ a a' → AR .expr σ (.dot a n) (.dot a' n)
  | un {σ a a'} (op : UnOp) : AR .expr σ a a' → AR .expr σ (.un op a) (.un op a')
  | bin {σ a a' b b'} (op) : AR .expr σ a a' → AR .expr σ b b' → AR .expr σ (.bin op a b) (.bin op a' b')
  | and_ {σ a a' b b'} : AR .expr σ a a' → AR .expr σ b b' → AR .expr σ (.and_ a b) (.and_ a' b')
  | or_ {σ a a' b b'} : AR .expr σ a a' → AR .expr σ b b' → AR .expr σ (.or_ a b) (.or_ a' b')
  | cond {σ a a'} : AR .conds σ a a' → AR .expr σ (.cond a) (.cond a')
  | coll {σ a a'} (k) : AR .items σ a a' → AR .expr σ (.coll k a) (.coll k a')
  | nilE (σ) : AR .expr σ .nil .nil
  | consE (σ n k v r n' k' v' r') : AR .expr σ (.cons n k v r) (.cons n' k' v' r')
  | nilI (σ) : AR .items σ .nil .nil
  | consNil {σ v v' r r'} (n) : AR .expr σ v v' → AR .items σ r r' →
      AR .items σ (.cons n .nil v r) (.cons n .nil v' r')
  | consKey {σ k k' v v' r r'} (n) : k ≠ .nil → k' ≠ .nil → AR .expr σ k k' → AR .expr σ v v' →
      AR .items σ r r' → AR .items σ (.cons n k v r) (.cons n k' v' r')
  | junkI {σ a a'} : isCellA a = false → isCellA a' = false → AR .items σ a a'
  | endC {σ a a'} : isConsA a = false → isConsA a' = false → AR .conds σ a a'
  | consC {σ k k' v v' r r'} (n n') : AR .expr σ k k' → AR .expr σ v v' → AR .conds σ r r' →
      AR .conds σ (.cons n k v r) (.cons n' k' v' r')
  -- redundant parentheses
  | parenL {σ a a'} : AR .expr σ a a' → AR .expr σ (.paren a) a'
  | parenR {σ a a'} : AR .expr σ a a' → AR .expr σ a (.paren a')
  -- `lhs op f` with a (parenthesised) function literal is `lhs op \\p b`; otherwise it is `lhs op \\. f`
  | dotFnL {σ op l f p b a'} : stripA f = .fn p b → AR .expr σ (.opFn op l p b) a' → AR .expr σ (.opDot op l f) a'
  | dotFnR {σ op l f p b a} : stripA f = .fn p b → AR .expr σ a (.opFn op l p b) → AR .expr σ a (.opDot op l f)
  | dotL {σ op l f a'} : isFnA f = false → AR .expr σ (.opFn op l (.ident ".") f) a' → AR .expr σ (.opDot op l f) a'
  | dotR {σ op l f a} : isFnA f = false → AR .expr σ a (.opFn op l (.ident ".") f) → AR .expr σ a (.opDot op l f)
  -- `let p = e; b` is `e -> \\p b` is `(\\p b)(e)`
  | letL {σ p e b a'} : AR .expr σ (.opFn .arrow e p b) a' → AR .expr σ (.let_ p e b) a'
  | letR {σ p e b a} : AR .expr σ a (.opFn .arrow e p b) → AR .expr σ a (.let_ p e b)
  | callArrow {σ p e e' b b'} : AR .expr σ e e' → AR .expr (σ.erase (patVars p)) b b' →
      AR .expr σ (.call (.fn p b) e) (.opFn .arrow e' p b')
  | arrowCall {σ p e e' b b'} : AR .expr σ e e' → AR .expr (σ.erase (patVars p)) b b' →
      AR .expr σ (.opFn .arrow e p b) (.call (.fn p b') e')
  -- a let-bound atomic literal written in place of the name
  | substVar {σ x lv v} : lookupV x σ = some v → leafLit lv = some v → x ≠ "_" → AR .expr σ (.ident x) lv
  | letSubst {σ x lv v b b'} : leafLit lv = some v → x ≠ "_" → isUnderscoreA b' = false →
      AR .expr ((x, v) :: σ.erase [x]) b b' → AR .expr σ (.let_ (.ident x) lv b) b'
  -- branches that a literal guard never selects
  | andDead {σ g v} (b b') : leafLit g = some v → Impl.isTrue (Val.data v) = false →
      AR .expr σ (.and_ g b) (.and_ g b')
  | orDead {σ g v} (b b') : leafLit g = some v → Impl.isTrue (Val.data v) = true →
      AR .expr σ (.or_ g b) (.or_ g b')
  | condDead {σ g v r r'} (n n' x x') : leafLit g = some v → Impl.isTrue (Val.data v) = false →
      AR .conds σ r r' → AR .conds σ (.cons n g x r) (.cons n' g x' r')
  | condTaken {σ g v x x'} (n n' r r') : leafLit g = some v → Impl.isTrue (Val.data v) = true →
      AR .expr σ x x' → AR .conds σ (.cons n g x r) (.cons n' g x' r')
  | condDefault {σ k k' x x'} (n n' r r') : isUnderscoreA k = true → isUnderscoreA k' = true →
      AR .expr σ x x' → AR .conds σ (.cons n k x r) (.cons n' k' x' r')

/-- compiling related source terms (the left one with or without folding, the right one with folding,
both without compile-time failure) gives related expressions -/
theorem compile_rel {k : K} {σ : Sub} {a a' : Ast} (h : AR k σ a a') (fo : Bool) :
    ER k σ (compileG fo false a) (compileG true false a') := by
  induction h with
  | leaf hl => rw [compile_leaf hl, compile_leaf hl]; exact ER.lit _ _
  | ident σ x hx => exact ER.ident σ x hx
  | let_ _ _ ihe ihb => exact ER.arrow .arrow ihe ihb
  | opFn op _ _ ihl ihb => exact ER.arrow op ihl ihb
  | opDot op hf hf' _ _ ihl ihf =>
    rw [compile_opDot_dot hf, compile_opDot_dot hf']
    exact ER.arrow op ihl ihf
  | fn _ ih => exact ER.fn ih
  | call _ _ ihf iha => exact ER.bin .call ihf iha
  | neg _ ih => exact ER.neg ih
  | dot n _ ih => exact ER.dot n ih
  | un op _ ih => exact ER.un op ih
  | bin op _ _ iha ihb => exact ER.bin op iha ihb
  | and_ _ _ iha ihb => exact ER.and_ iha ihb
  | or_ _ _ iha ihb => exact ER.or_ iha ihb
  | cond _ ih => exact ER.cond ih
  | coll k _ ih =>
    have base := foldR_coll (ER.coll k ih)
    cases fo with
    | false => simpa [compileG] using base
    | true => simpa [compileG] using foldL_coll base
  | nilE σ => exact ER.nilE σ
  | consE => exact ER.consE _ _ _ _ _ _ _ _ _
  | nilI σ => exact ER.nilI σ
  | consNil n _ _ ihv ihr => exact ER.consNil n ihv ihr
  | consKey n hk hk' _ _ _ ihk ihv ihr =>
    exact ER.consKey n (compile_ne_nil _ _ hk) (compile_ne_nil _ _ hk') ihk ihv ihr
  | junkI h1 h2 => exact ER.junkI (by rw [compile_isCell]; exact h1) (by rw [compile_isCell]; exact h2)
  | endC h1 h2 => exact ER.endC (by rw [compile_isCons]; exact h1) (by rw [compile_isCons]; exact h2)
  | consC n n' _ _ _ ihk ihv ihr => exact ER.consC n n' ihk ihv ihr
  | parenL _ ih => exact ER.parenL ih
  | parenR _ ih => exact ER.parenR ih
  | dotFnL hs _ ih => rw [compile_opDot_fn hs]; exact ih
  | dotFnR hs _ ih => rw [compile_opDot_fn hs]; exact ih
  | dotL hf _ ih => rw [compile_opDot_dot hf]; exact ih
  | dotR hf _ ih => rw [compile_opDot_dot hf]; exact ih
  | letL _ ih => exact ih
  | letR _ ih => exact ih
  | callArrow _ _ ihe ihb => exact ER.callArrow ihe ihb
  | arrowCall _ _ ihe ihb => exact ER.arrowCall ihe ihb
  | substVar hx hl hne => rw [compile_leaf hl]; exact ER.subst _ _ _ hx hne
  | letSubst hl hne hu _ ih =>
    simp only [compileG, compile_leaf hl]
    exact ER.letLit _ _ hne (by rw [compile_isUnderscore]; exact hu) ih
  | andDead b b' hl hv => simp only [compileG, compile_leaf hl]; exact ER.andDead _ _ _ _ hv
  | orDead b b' hl hv => simp only [compileG, compile_leaf hl]; exact ER.orDead _ _ _ _ hv
  | condDead n n' x x' hl hv _ ih =>
    simp only [compileG, compile_leaf hl]; exact ER.condDead n n' _ _ _ hv ih
  | condTaken n n' r r' hl hv _ ih =>
    simp only [compileG, compile_leaf hl]; exact ER.condTaken n n' _ _ _ hv ih
  | condDefault n n' r r' h1 h2 _ ih =>
    exact ER.condDefault n n' _ _ (by rw [compile_isUnderscore]; exact h1) (by rw [compile_isUnderscore]; exact h2) ih

/-! ## reflexivity: every program is related to itself -/

theorem Sub.erase_nil (xs : List String) : Sub.erase [] xs = [] := rfl

theorem AR.refl (a : Ast) :
    AR .expr [] a a ∧ AR .items [] a a ∧ AR .conds [] a a ∧ (∀ p b, stripA a = .fn p b → AR .expr [] b b) := by
  induction a with
  | num n => exact ⟨AR.leaf (v := .num n) rfl, AR.junkI rfl rfl, AR.endC rfl rfl, by simp [stripA]⟩
  | str cs => exact ⟨AR.leaf (v := V.mkStr cs) rfl, AR.junkI rfl rfl, AR.endC rfl rfl, by simp [stripA]⟩
  | bytes bs => exact ⟨AR.leaf (v := V.mkBytes bs) rfl, AR.junkI rfl rfl, AR.endC rfl rfl, by simp [stripA]⟩
  | tt => exact ⟨AR.leaf (v := V.tt) rfl, AR.junkI rfl rfl, AR.endC rfl rfl, by simp [stripA]⟩
  | ff => exact ⟨AR.leaf (v := V.none) rfl, AR.junkI rfl rfl, AR.endC rfl rfl, by simp [stripA]⟩
  | ident x => exact ⟨AR.ident [] x rfl, AR.junkI rfl rfl, AR.endC rfl rfl, by simp [stripA]⟩
  | let_ p e b ihe ihb =>
    exact ⟨AR.let_ ihe.1 (by rw [Sub.erase_nil]; exact ihb.1), AR.junkI rfl rfl, AR.endC rfl rfl, by simp [stripA]⟩
  | opFn op l p b ihl ihb =>
    exact ⟨AR.opFn op ihl.1 (by rw [Sub.erase_nil]; exact ihb.1), AR.junkI rfl rfl, AR.endC rfl rfl, by simp [stripA]⟩
  | opDot op l f ihl ihf =>
    refine ⟨?_, AR.junkI rfl rfl, AR.endC rfl rfl, by simp [stripA]⟩
    cases hf : isFnA f with
    | false => exact AR.opDot op hf hf ihl.1 (by rw [Sub.erase_nil]; exact ihf.1)
    | true =>
      have : ∃ p b, stripA f = .fn p b := by
        clear ihf ihl
        induction f with
        | paren e ih => simpa [stripA, isFnA] using ih (by simpa [isFnA] using hf)
        | fn p b => exact ⟨p, b, rfl⟩
        | _ => simp [isFnA] at hf
      obtain ⟨p, b, hs⟩ := this
      exact AR.dotFnL hs (AR.dotFnR hs (AR.opFn op ihl.1 (by rw [Sub.erase_nil]; exact ihf.2.2.2 p b hs)))
  | fn p b ih =>
    refine ⟨AR.fn (by rw [Sub.erase_nil]; exact ih.1), AR.junkI rfl rfl, AR.endC rfl rfl, ?_⟩
    intro p' b' h
    simp only [stripA, Ast.fn.injEq] at h
    obtain ⟨rfl, rfl⟩ := h
    exact ih.1
  | call f a ihf iha => exact ⟨AR.call ihf.1 iha.1, AR.junkI rfl rfl, AR.endC rfl rfl, by simp [stripA]⟩
  | neg e ih => exact ⟨AR.neg ih.1, AR.junkI rfl rfl, AR.endC rfl rfl, by simp [stripA]⟩
  | dot e n ih => exact ⟨AR.dot n ih.1, AR.junkI rfl rfl, AR.endC rfl rfl, by simp [stripA]⟩
  | un op e ih => exact ⟨AR.un op ih.1, AR.junkI rfl rfl, AR.endC rfl rfl, by simp [stripA]⟩
  | bin op a b iha ihb => exact ⟨AR.bin op iha.1 ihb.1, AR.junkI rfl rfl, AR.endC rfl rfl, by simp [stripA]⟩
  | and_ a b iha ihb => exact ⟨AR.and_ iha.1 ihb.1, AR.junkI rfl rfl, AR.endC rfl rfl, by simp [stripA]⟩
  | or_ a b iha ihb => exact ⟨AR.or_ iha.1 ihb.1, AR.junkI rfl rfl, AR.endC rfl rfl, by simp [stripA]⟩
  | cond es ih => exact ⟨AR.cond ih.2.2.1, AR.junkI rfl rfl, AR.endC rfl rfl, by simp [stripA]⟩
  | coll k es ih => exact ⟨AR.coll k ih.2.1, AR.junkI rfl rfl, AR.endC rfl rfl, by simp [stripA]⟩
  | paren e ih =>
    exact ⟨AR.parenL (AR.parenR ih.1), AR.junkI rfl rfl, AR.endC rfl rfl, fun p b h => ih.2.2.2 p b (by simpa [stripA] using h)⟩
  | nil => exact ⟨AR.nilE [], AR.nilI [], AR.endC rfl rfl, by simp [stripA]⟩
  | cons n k v r ihk ihv ihr =>
    refine ⟨AR.consE _ _ _ _ _ _ _ _ _, ?_, AR.consC n n ihk.1 ihv.1 ihr.2.2.1, by simp [stripA]⟩
    by_cases hk : k = .nil
    · subst hk; exact AR.consNil n ihv.1 ihr.2.1
    · exact AR.consKey n hk hk ihk.1 ihv.1 ihr.2.1

/-! ## substitution of an atomic literal for a name -/

theorem Sub.erase_single (x : String) (v : V) (xs : List String) :
    Sub.erase [(x, v)] xs = if x ∈ xs then [] else [(x, v)] := by
  rw [Sub.erase_cons]; simp [Sub.erase_nil]

theorem isFnA_leaf {lv : Ast} {v : V} (h : leafLit lv = some v) : isFnA lv = false := by
  cases lv <;> simp [leafLit] at h <;> rfl

theorem isFnA_substA (x : String) {lv : Ast} {v : V} (hl : leafLit lv = some v) (g : Ast) :
    isFnA (substA x lv g) = isFnA g := by
  induction g with
  | paren e ih => simpa [substA, isFnA] using ih
  | ident y =>
    simp only [substA]
    split
    · rw [isFnA_leaf hl]; rfl
    · rfl
  | _ => simp [substA, isFnA]

theorem stripA_substA (x : String) (lv : Ast) (g : Ast) :
    ∀ p b, stripA g = .fn p b →
      stripA (substA x lv g) = .fn p (if x ∈ patVars p then b else substA x lv b) := by
  induction g with
  | paren e ih => intro p b h; simpa [substA, stripA] using ih p b (by simpa [stripA] using h)
  | fn q c _ =>
    intro p b h
    simp only [stripA, Ast.fn.injEq] at h
    obtain ⟨rfl, rfl⟩ := h
    simp [substA, stripA]
  | _ => intro p b h; simp [stripA] at h

theorem substA_rel (x : String) {lv : Ast} {v : V} (hl : leafLit lv = some v) (hx : x ≠ "_") (a : Ast) :
    AR .expr [(x, v)] a (substA x lv a) ∧ AR .items [(x, v)] a (substA x lv a) ∧
    AR .conds [(x, v)] a (substA x lv a) ∧
    (∀ p b, stripA a = .fn p b →
      AR .expr (Sub.erase [(x, v)] (patVars p)) b (if x ∈ patVars p then b else substA x lv b)) := by
  -- a body under a binder: shadowed (nothing is substituted, related to itself) or not
  have under : ∀ (vars : List String) (b : Ast), AR .expr [(x, v)] b (substA x lv b) →
      AR .expr (Sub.erase [(x, v)] vars) b (if x ∈ vars then b else substA x lv b) := by
    intro vars b h
    rw [Sub.erase_single]
    by_cases hm : x ∈ vars
    · simp only [hm, if_true]; exact (AR.refl b).1
    · simp only [hm, if_false]; exact h
  induction a with
  | num n => exact ⟨AR.leaf (v := .num n) rfl, AR.junkI rfl rfl, AR.endC rfl rfl, by simp [stripA]⟩
  | str cs => exact ⟨AR.leaf (v := V.mkStr cs) rfl, AR.junkI rfl rfl, AR.endC rfl rfl, by simp [stripA]⟩
  | bytes bs => exact ⟨AR.leaf (v := V.mkBytes bs) rfl, AR.junkI rfl rfl, AR.endC rfl rfl, by simp [stripA]⟩
  | tt => exact ⟨AR.leaf (v := V.tt) rfl, AR.junkI rfl rfl, AR.endC rfl rfl, by simp [stripA]⟩
  | ff => exact ⟨AR.leaf (v := V.none) rfl, AR.junkI rfl rfl, AR.endC rfl rfl, by simp [stripA]⟩
  | ident y =>
    have hcell : isCellA (substA x lv (.ident y)) = false := by
      simp only [substA]; split
      · cases lv <;> simp [leafLit] at hl <;> rfl
      · rfl
    have hcons : isConsA (substA x lv (.ident y)) = false := by
      simp only [substA]; split
      · cases lv <;> simp [leafLit] at hl <;> rfl
      · rfl
    refine ⟨?_, AR.junkI rfl hcell, AR.endC rfl hcons, by simp [stripA]⟩
    simp only [substA]
    by_cases hy : y = x
    · simp only [hy, if_true]
      exact AR.substVar (by simp [lookupV]) hl hx
    · simp only [hy, if_false]
      exact AR.ident _ _ (by simp [lookupV, hy])
  | let_ p e b ihe ihb =>
    exact ⟨AR.let_ ihe.1 (under _ b ihb.1), AR.junkI rfl rfl, AR.endC rfl rfl, by simp [stripA]⟩
  | opFn op l p b ihl ihb =>
    exact ⟨AR.opFn op ihl.1 (under _ b ihb.1), AR.junkI rfl rfl, AR.endC rfl rfl, by simp [stripA]⟩
  | opDot op l g ihl ihg =>
    refine ⟨?_, AR.junkI rfl rfl, AR.endC rfl rfl, by simp [stripA]⟩
    simp only [substA]
    cases hf : isFnA g with
    | true =>
      simp only [Bool.true_or, if_true]
      have : ∃ p b, stripA g = .fn p b := by
        clear ihg ihl
        induction g with
        | paren e ih => simpa [stripA, isFnA] using ih (by simpa [isFnA] using hf)
        | fn p b => exact ⟨p, b, rfl⟩
        | _ => simp [isFnA] at hf
      obtain ⟨p, b, hs⟩ := this
      exact AR.dotFnL hs (AR.dotFnR (stripA_substA x lv g p b hs) (AR.opFn op ihl.1 (ihg.2.2.2 p b hs)))
    | false =>
      simp only [Bool.false_or]
      by_cases hd : x = "."
      · subst hd
        simp only [bne_self_eq_false, Bool.false_eq_true, if_false]
        refine AR.opDot op hf hf ihl.1 ?_
        rw [Sub.erase_single]; simp
        exact (AR.refl g).1
      · have : (x != ".") = true := by simp [hd]
        simp only [this, if_true]
        refine AR.opDot op hf (by rw [isFnA_substA x hl]; exact hf) ihl.1 ?_
        rw [Sub.erase_single]; simp [hd]
        exact ihg.1
  | fn p b ih =>
    refine ⟨AR.fn (under _ b ih.1), AR.junkI rfl rfl, AR.endC rfl rfl, ?_⟩
    intro p' b' h
    simp only [stripA, Ast.fn.injEq] at h
    obtain ⟨rfl, rfl⟩ := h
    exact under _ _ ih.1
  | call f a ihf iha => exact ⟨AR.call ihf.1 iha.1, AR.junkI rfl rfl, AR.endC rfl rfl, by simp [stripA]⟩
  | neg e ih => exact ⟨AR.neg ih.1, AR.junkI rfl rfl, AR.endC rfl rfl, by simp [stripA]⟩
  | dot e n ih => exact ⟨AR.dot n ih.1, AR.junkI rfl rfl, AR.endC rfl rfl, by simp [stripA]⟩
  | un op e ih => exact ⟨AR.un op ih.1, AR.junkI rfl rfl, AR.endC rfl rfl, by simp [stripA]⟩
  | bin op a b iha ihb => exact ⟨AR.bin op iha.1 ihb.1, AR.junkI rfl rfl, AR.endC rfl rfl, by simp [stripA]⟩
  | and_ a b iha ihb => exact ⟨AR.and_ iha.1 ihb.1, AR.junkI rfl rfl, AR.endC rfl rfl, by simp [stripA]⟩
  | or_ a b iha ihb => exact ⟨AR.or_ iha.1 ihb.1, AR.junkI rfl rfl, AR.endC rfl rfl, by simp [stripA]⟩
  | cond es ih => exact ⟨AR.cond ih.2.2.1, AR.junkI rfl rfl, AR.endC rfl rfl, by simp [stripA]⟩
  | coll k es ih => exact ⟨AR.coll k ih.2.1, AR.junkI rfl rfl, AR.endC rfl rfl, by simp [stripA]⟩
  | paren e ih =>
    exact ⟨AR.parenL (AR.parenR ih.1), AR.junkI rfl rfl, AR.endC rfl rfl,
      fun p b h => ih.2.2.2 p b (by simpa [stripA] using h)⟩
  | nil => exact ⟨AR.nilE _, AR.nilI _, AR.endC rfl rfl, by simp [stripA]⟩
  | cons n k val r ihk ihv ihr =>
    refine ⟨AR.consE _ _ _ _ _ _ _ _ _, ?_, AR.consC n n ihk.1 ihv.1 ihr.2.2.1, by simp [stripA]⟩
    by_cases hk : k = .nil
    · subst hk; exact AR.consNil n ihv.1 ihr.2.1
    · have hk' : substA x lv k ≠ .nil := by
        cases k <;> simp [substA] at hk ⊢
        split
        · cases lv <;> simp [leafLit] at hl <;> simp
        · simp
      exact AR.consKey n hk hk' ihk.1 ihv.1 ihr.2.1

end Arrai.C08
