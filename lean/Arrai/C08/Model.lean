/-
  C08 — documented source-level equivalences preserve meaning.

  Layer 1 model.  `Ast` is the core expression language as written; `Impl.compile : Ast → Expr`
  transliterates the decisions of syntax/compile.go that matter for the equivalences
  (compileLet/compileArrow ⇒ ArrowExpr over NewFunction(pattern, body); compileFunction;
  NewCallExpr; ExprAsFunction's default binder `.`; compileExpr wrapping a parenthesised term in
  ExprExpr; the literal folding of NewSetExpr/NewTupleExpr/NewDictExpr/NewArrayExpr;
  compileCondWithoutControlVar ⇒ CondExpr over an always-unfolded DictExpr) and
  `Impl.evalE`/`Impl.eval` transliterate the `Eval` methods of rel/expr_*.go over `Arrai.V` + closures
  (Scope.With/Update as association lists, Closure capture, And/Or/Cond evaluation order,
  Pattern.Bind for identifier / literal / array / tuple patterns).

  Representation notes
  * Go slices (`[]Expr`, `[]AttrExpr`, `[]DictEntryTupleExpr`, pattern items) are cons-spines *inside*
    the same inductive type (`Expr.cons/nil`, `Ast.cons/nil`, `Pat.pcons/pnil`), so that `Expr`, `Ast`
    and `Pat` are plain (non-nested) inductive types and Lean's `induction` applies.
  * Fuel bounds the depth of *closure calls* only (`callAt`); everything else is structural recursion
    on the expression.  A program without calls of closure values (the first-order fragment: let,
    arrows, cond, &&, ||, where/=>/>>/orderby, constructors) evaluates with fuel 0.
  * `Res.unsup` marks inputs outside the model (closures stored inside data, non-integral or huge
    numbers, `<` on non-numbers, sets applied as functions, sparse arrays in array patterns, …);
    the generator gives such cases the loose specification `!panic`.
  Core-only.
-/
import Arrai.Core.Lit

namespace Arrai.C08

/-! ## Syntax -/

/-- patterns (`rel.IdentPattern`, `rel.ExprPattern` over a literal, `rel.ArrayPattern`, `rel.TuplePattern`);
`pcons name p rest` is the spine of the item slice (`name` is the attribute name for tuple patterns) -/
inductive Pat where
  | ident (x : String)
  | lit (v : V)
  | arr (items : Pat)
  | tup (items : Pat)
  | pnil
  | pcons (name : String) (p : Pat) (rest : Pat)
  deriving Inhabited, DecidableEq

/-- names bound by a pattern (`_` binds nothing) -/
def patVars : Pat → List String
  | .ident x => if x = "_" then [] else [x]
  | .lit _ => []
  | .arr items => patVars items
  | .tup items => patVars items
  | .pnil => []
  | .pcons _ p r => patVars p ++ patVars r

/-- strict binary operators (`rel.BinExpr` / two-argument `rel.CompareExpr`): both operands are evaluated -/
inductive BinOp where
  | add | sub | mul | pow | eq | ne | lt | le | gt | ge | call
  deriving Inhabited, DecidableEq

/-- the `lhs op f` family that goes through `ExprAsFunction`: `->`, `=>`, `>>`, `where`, `orderby`, `:>`,
and the reducers `sum`, `max`, `min` -/
inductive ArrOp where
  | arrow | darrow | seq | where_ | orderby | tupmap | sum | max | min
  deriving Inhabited, DecidableEq

/-- the other prefix operators of the grammar's unop level: `+` (NewPosExpr), `!` (NewNotExpr), `^` (NewPowerSetExpr) -/
inductive UnOp where
  | pos | not | pset
  deriving Inhabited, DecidableEq

/-- `rel` is a relation literal `{|n1, n2| (c1, c2), …}`: a spine of rows, each row a `tup` collection that carries
the heading's names (its denotation is the set of those tuples, whatever the order of the heading) -/
inductive Coll where
  | set | arr | tup | dict | rel
  deriving Inhabited, DecidableEq

/-- compiled expressions (`rel.Expr`).  `cons name key val rest` is the spine of an element slice:
set/array elements use `val` only, tuple attributes `name`+`val`, dict and cond entries `key`+`val`.
`cerr` marks a compile-time failure (NewDictExpr folding a literal dict with duplicate keys). -/
inductive Expr where
  | lit (v : V)                                        -- LiteralExpr
  | ident (x : String)                                 -- IdentExpr
  | fn (p : Pat) (b : Expr)                            -- *Function
  | paren (e : Expr)                                   -- ExprExpr
  | neg (e : Expr)                                     -- UnaryExpr "-"
  | un (op : UnOp) (e : Expr)                          -- UnaryExpr "+", "!", "^"
  | dot (e : Expr) (attr : String)                     -- DotExpr
  | bin (op : BinOp) (a b : Expr)                      -- BinExpr / CompareExpr
  | and_ (a b : Expr)                                  -- AndExpr
  | or_ (a b : Expr)                                   -- OrExpr
  | arrow (op : ArrOp) (lhs : Expr) (p : Pat) (b : Expr)  -- ArrowExpr/DArrowExpr/SeqArrowExpr/where/orderby over a *Function
  | cond (entries : Expr)                              -- CondExpr over a DictExpr
  | coll (k : Coll) (items : Expr)                     -- SetExpr/ArrayExpr/TupleExpr/DictExpr
  | nil
  | cons (name : String) (key : Expr) (val : Expr) (rest : Expr)
  | cerr
  deriving Inhabited, DecidableEq

/-- the core expression language as written -/
inductive Ast where
  | num (n : Nat)
  | str (cs : List Nat)
  | bytes (bs : List Nat)                              -- <<b0, b1, …>>
  | tt
  | ff
  | ident (x : String)
  | let_ (p : Pat) (e b : Ast)                         -- let p = e; b
  | opFn (op : ArrOp) (lhs : Ast) (p : Pat) (b : Ast)  -- lhs op \p b
  | opDot (op : ArrOp) (lhs f : Ast)                   -- lhs op f        (default binder `.`)
  | fn (p : Pat) (b : Ast)                             -- \p b
  | call (f a : Ast)                                   -- f(a)
  | neg (e : Ast)
  | un (op : UnOp) (e : Ast)                           -- +e  !e  ^e
  | dot (e : Ast) (attr : String)                      -- e.attr
  | bin (op : BinOp) (a b : Ast)
  | and_ (a b : Ast)
  | or_ (a b : Ast)
  | cond (entries : Ast)                               -- cond {k: v, …}
  | coll (k : Coll) (items : Ast)                      -- {…} [ … ] (n: …) {k: v}
  | paren (e : Ast)
  | nil
  | cons (name : String) (key : Ast) (val : Ast) (rest : Ast)
  deriving Inhabited, DecidableEq

/-! ## Values and results -/

inductive Val where
  | data (v : V)
  | clo (env : List (String × Val)) (p : Pat) (b : Expr)   -- rel.Closure{scope, f}
  deriving Inhabited

abbrev Env := List (String × Val)

inductive Res (α : Type) where
  | ok (a : α)
  | err            -- an arr.ai error (compile time or run time)
  | oof            -- closure-call depth exhausted
  | unsup          -- outside the model
  deriving Inhabited

namespace Res
@[inline] def bind {α β} (r : Res α) (f : α → Res β) : Res β :=
  match r with
  | .ok a => f a
  | .err => .err
  | .oof => .oof
  | .unsup => .unsup
instance : Monad Res where
  pure := .ok
  bind := Res.bind

@[simp] theorem bind_ok {α β} (a : α) (f : α → Res β) : (Res.ok a >>= f) = f a := rfl
@[simp] theorem bind_err {α β} (f : α → Res β) : ((Res.err : Res α) >>= f) = .err := rfl
@[simp] theorem bind_oof {α β} (f : α → Res β) : ((Res.oof : Res α) >>= f) = .oof := rfl
@[simp] theorem bind_unsup {α β} (f : α → Res β) : ((Res.unsup : Res α) >>= f) = .unsup := rfl
@[simp] theorem pure_eq {α} (a : α) : (pure a : Res α) = .ok a := rfl

/-- `mapM` written out (structural on the list) -/
def mapM' {α β} (f : α → Res β) : List α → Res (List β)
  | [] => .ok []
  | x :: xs => f x >>= fun y => mapM' f xs >>= fun ys => .ok (y :: ys)
end Res

namespace Impl
open Res

/-! ## Value helpers -/

/-- `Value.IsTrue` -/
def isTrue : Val → Bool
  | .data (.num n) => n != 0
  | .data (.tup as) => !as.isEmpty
  | .data (.set xs) => !xs.isEmpty
  | .clo _ _ _ => true

def asData : Val → Res V
  | .data v => .ok v
  | .clo _ _ _ => .unsup

/-- largest magnitude printed as an integer by the harness (and exactly representable in a float64) -/
def numLimit : Int := 1000000000000000

def mkNum (n : Int) : Res Val := if n.natAbs < numLimit.natAbs then .ok (.data (.num n)) else .unsup

/-- is `xs` (a canonical member list) `[(@:i,@item:v0), (@:i+1,@item:v1), …]` ? -/
def arrItems : List V → Int → Option (List V)
  | [], _ => some []
  | .tup [("@", .num j), ("@item", v)] :: r, i =>
    if j = i then (arrItems r (i + 1)).map (v :: ·) else none
  | _, _ => none

/-- every member is an `(@:n, @item:v)` tuple (an Array in Go, possibly sparse or offset) -/
def arrLike : List V → Bool
  | [] => true
  | .tup [("@", .num _), ("@item", _)] :: r => arrLike r
  | _ => false

def lookupV (n : String) : List (String × V) → Option V
  | [] => none
  | (m, v) :: r => if n = m then some v else lookupV n r

def lookup (n : String) : Env → Option Val
  | [] => none
  | (m, v) :: r => if n = m then some v else lookup n r

/-- `Scope.MatchedUpdate`: bindings of `t` are added to `s`; a name bound in both must be bound to the
same value (Go compares the printed values; closures are outside the model) -/
def sameVal : Val → Val → Res Bool
  | .data a, .data b => .ok (decide (a = b))
  | _, _ => .unsup

def matchedOk (s : Env) : Env → Res Bool
  | [] => .ok true
  | (n, v) :: r =>
    match lookup n s with
    | none => matchedOk s r
    | some u => sameVal u v >>= fun b => if b then matchedOk s r else .ok false

def matchedUpdate (s t : Env) : Res Env :=
  matchedOk s t >>= fun b => if b then .ok (t ++ s) else .err

def patLen : Pat → Nat
  | .pcons _ _ r => patLen r + 1
  | _ => 0

/-! ## Pattern.Bind -/
mutual
/-- `Pattern.Bind(ctx, local, value)`: the scope of new bindings (`Scope{}.With(name, value)`; the name
`_` binds nothing) -/
def bind : Pat → Val → Res Env
  | .ident x, v => .ok (if x = "_" then [] else [(x, v)])
  | .lit w, v =>
    match v with
    | .data u => if u = w then .ok [] else .err
    | .clo _ _ _ => .err
  | .arr items, v =>
    match v with
    | .data (.set xs) =>
      match arrItems xs 0 with
      | some vs => if patLen items = vs.length then bindItems items vs else .err
      | none => if arrLike xs then .unsup else .err
    | _ => .err
  | .tup items, v =>
    match v with
    | .data (.tup as) => bindAttrs items as as
    | _ => .err
  | .pnil, _ => .err
  | .pcons _ _ _, _ => .err
/-- ArrayPattern.Bind's loop (no `...`, no fallbacks) -/
def bindItems : Pat → List V → Res Env
  | .pcons _ p rest, v :: vs =>
    bind p (.data v) >>= fun s => bindItems rest vs >>= fun r => matchedUpdate s r
  | .pnil, [] => .ok []
  | _, _ => .err
/-- TuplePattern.Bind's loop: `rem` = names of the tuple not yet matched -/
def bindAttrs : Pat → List (String × V) → List (String × V) → Res Env
  | .pcons n p rest, rem, all =>
    if rem.isEmpty then .err
    else match lookupV n all with
      | none => .err
      | some v =>
        bind p (.data v) >>= fun s =>
        bindAttrs rest (rem.filter (fun a => a.1 != n)) all >>= fun r => matchedUpdate s r
  | .pnil, rem, _ => if rem.isEmpty then .ok [] else .err
  | _, _, _ => .err
end

/-! ## Operators on values -/

/-- tuples that Go specialises (`(@: i, @item: x)` …): their `Negate` negates the components (outside the model) -/
def specialPair (as : List (String × V)) : Bool :=
  match as with
  | [("@", _), (n, _)] => n == "@item" || n == "@char" || n == "@value" || n == "@byte"
  | _ => false

/-- `Value.Negate`: a number is negated arithmetically; `(@neg: x)` is `x`; the empty tuple is itself;
every other tuple and every set `x` becomes `(@neg: x)` (so negation is an involution only on numbers
and on values that are not themselves `@neg` wrappers) -/
def negV : Val → Res Val
  | .data (.num n) => mkNum (-n)
  | .data (.tup [("@neg", x)]) => .ok (.data x)
  | .data (.tup []) => .ok (.data (.tup []))
  | .data (.tup as) => if specialPair as then .unsup else .ok (.data (.tup [("@neg", .tup as)]))
  | .data (.set xs) => .ok (.data (.tup [("@neg", .set xs)]))
  | .clo _ _ _ => .unsup

def sublists : List V → List (List V)
  | [] => [[]]
  | x :: r => sublists r ++ (sublists r).map (x :: ·)

/-- `+x` is x; `!x` is the negated truth value; `^s` is the power set of a (small) set -/
def unV (op : UnOp) (v : Val) : Res Val :=
  match op with
  | .pos => .ok v
  | .not => .ok (.data (V.bool (!isTrue v)))
  | .pset =>
    match v with
    | .data (.set xs) => if xs.length ≤ 4 then .ok (.data (V.mkSet ((sublists xs).map V.set))) else .unsup
    | .data _ => .err
    | .clo _ _ _ => .unsup

/-- `DotExpr.Eval`: attribute of a tuple, or of the sole tuple member of a set (deprecated but accepted);
everything else is an error (`&name` method attributes are outside the model) -/
def getAttr (name : String) (as : List (String × V)) : Res Val :=
  match lookupV name as with
  | some v => .ok (.data v)
  | none => if (lookupV ("&" ++ name) as).isSome then .unsup else .err

def dotV (name : String) : Val → Res Val
  | .data (.tup as) => getAttr name as
  | .data (.set [.tup as]) => getAttr name as
  | _ => .err

def powNat (a : Int) : Nat → Int
  | 0 => 1
  | n + 1 => a * powNat a n

def cmpOp (op : BinOp) (a b : Int) : Bool :=
  match op with
  | .lt => a < b
  | .le => a ≤ b
  | .gt => b < a
  | .ge => b ≤ a
  | _ => false

/-- the strict operators on two evaluated operands (everything except `call`) -/
def applyData (op : BinOp) (va vb : Val) : Res Val :=
  match op with
  | .add =>
    match va, vb with
    | .data (.num a), .data (.num b) => mkNum (a + b)
    | .data (.tup _), .data (.tup _) => .unsup     -- deprecated tuple merge
    | .data (.set _), .data (.set _) => .unsup     -- deprecated concatenation
    | .clo _ _ _, .data (.set _) => .unsup         -- a Closure is a Set in Go
    | .data (.set _), .clo _ _ _ => .unsup
    | .clo _ _ _, .clo _ _ _ => .unsup
    | _, _ => .err
  | .sub =>
    match va, vb with
    | .data (.num a), .data (.num b) => mkNum (a - b)
    | _, _ => .err
  | .mul =>
    match va, vb with
    | .data (.num a), .data (.num b) => mkNum (a * b)
    | _, _ => .err
  | .pow =>
    match va, vb with
    | .data (.num a), .data (.num b) =>
      if b < 0 then .unsup else if b > 40 then .unsup else mkNum (powNat a b.toNat)
    | _, _ => .err
  | .eq =>
    match va, vb with
    | .data a, .data b => .ok (.data (V.bool (decide (a = b))))
    | _, _ => .unsup
  | .ne =>
    match va, vb with
    | .data a, .data b => .ok (.data (V.bool (!decide (a = b))))
    | _, _ => .unsup
  | .call => .unsup
  | op =>
    match va, vb with
    | .data (.num a), .data (.num b) => .ok (.data (V.bool (cmpOp op a b)))
    | _, _ => .unsup

/-- insertion of `(k, x)` into a list sorted by key; `none` on a repeated key -/
def insKey (k : Int) (x : V) : List (Int × V) → Option (List (Int × V))
  | [] => some [(k, x)]
  | (j, y) :: r =>
    if k < j then some ((k, x) :: (j, y) :: r)
    else if k = j then none
    else (insKey k x r).map ((j, y) :: ·)

def sortByKey : List (Int × V) → Option (List (Int × V))
  | [] => some []
  | (k, x) :: r => (sortByKey r).bind (insKey k x)

def keyOf : Val → Res Int
  | .data (.num n) => .ok n
  | _ => .unsup

/-- `sum`'s reducer: "Non-numeric value used in sum" -/
def numOf : Val → Res Int
  | .data (.num n) => .ok n
  | _ => .err

def maxOf : List Int → Int
  | [] => 0
  | [a] => a
  | a :: r => if a < maxOf r then maxOf r else a

def minOf : List Int → Int
  | [] => 0
  | [a] => a
  | a :: r => if minOf r < a then minOf r else a

/-- the collection built from evaluated entries `(name, key, value)`:
`SetBuilder.Finish`, `NewArray`, `tuple.With` left to right (the last attribute of a name wins),
`NewDict(false, …)` (a repeated key is an error) -/
def keysNodup : List V → Bool
  | [] => true
  | k :: r => !(r.any (fun j => decide (j = k))) && keysNodup r

def dictEntry (k v : V) : V := V.mkTup [("@", k), ("@value", v)]

def mkColl (k : Coll) (es : List (String × V × V)) : Res V :=
  match k with
  | .set => .ok (V.mkSet (es.map (·.2.2)))
  | .rel => .ok (V.mkSet (es.map (·.2.2)))
  | .arr => .ok (V.mkArr (es.map (·.2.2)))
  | .tup => .ok (V.mkTup (es.reverse.map (fun e => (e.1, e.2.2))))
  | .dict =>
    if keysNodup (es.map (·.2.1)) then .ok (V.mkSet (es.map (fun e => dictEntry e.2.1 e.2.2))) else .err

def isNil : Expr → Bool
  | .nil => true
  | _ => false

/-- `CondExpr.Eval` recognises the default entry by `expr.at.String() == "_"` (parentheses print nothing) -/
def isUnderscore : Expr → Bool
  | .ident x => x == "_"
  | .paren e => isUnderscore e
  | _ => false

/-! ## Eval -/

/-- how a closure value is applied (`Closure.CallAll`): supplied by `callAt` with the remaining depth -/
abbrev Caller := Env → Pat → Expr → Val → Res Val

mutual
/-- `Expr.Eval(ctx, local)` -/
def evalE (call : Caller) : Expr → Env → Res Val
  | .lit v, _ => .ok (.data v)
  | .ident x, env =>
    match lookup x env with
    | some v => .ok v
    | none => .err
  | .fn p b, env => .ok (.clo env p b)
  | .paren e, env => evalE call e env
  | .neg e, env => evalE call e env >>= negV
  | .un op e, env => evalE call e env >>= unV op
  | .dot e name, env => evalE call e env >>= dotV name
  | .bin op a b, env =>
    evalE call a env >>= fun va =>
    evalE call b env >>= fun vb =>
    match op with
    | .call =>
      match va with
      | .clo cenv p body => call cenv p body vb
      | .data (.set _) => .unsup       -- a set applied as a function
      | .data _ => .err                -- "call lhs must be a function"
    | op => applyData op va vb
  | .and_ a b, env =>
    evalE call a env >>= fun va => if isTrue va then evalE call b env else .ok va
  | .or_ a b, env =>
    evalE call a env >>= fun va => if isTrue va then .ok va else evalE call b env
  | .arrow op lhs p b, env =>
    evalE call lhs env >>= fun v =>
    match op with
    | .arrow =>        -- ArrowExpr.Eval: bind, then the body in local.Update(scope)
      bind p v >>= fun s => evalE call b (s ++ env)
    | .darrow =>       -- DArrowExpr.Eval
      match v with
      | .data (.set xs) =>
        Res.mapM' (fun x => bind p (.data x) >>= fun s => evalE call b (s ++ env) >>= asData) xs >>= fun rs =>
        .ok (.data (V.mkSet rs))
      | .data _ => .err
      | .clo _ _ _ => .unsup
    | .seq =>          -- SeqArrowExpr.Eval on a dense array (and on the empty set)
      match v with
      | .data (.set xs) =>
        match arrItems xs 0 with
        | some vs =>
          Res.mapM' (fun x => bind p (.data x) >>= fun s => evalE call b (s ++ env) >>= asData) vs >>= fun rs =>
          .ok (.data (V.mkArr rs))
        | none => .unsup
      | .data _ => .err
      | .clo _ _ _ => .unsup
    | .where_ =>       -- NewWhereExpr: keep the members whose predicate result IsTrue
      match v with
      | .data (.set xs) =>
        Res.mapM' (fun x => bind p (.data x) >>= fun s => evalE call b (s ++ env) >>= fun r =>
          .ok (x, isTrue r)) xs >>= fun rs =>
        .ok (.data (V.mkSet ((rs.filter (·.2)).map (·.1))))
      | .data _ => .err
      | .clo _ _ _ => .unsup
    | .orderby =>      -- NewOrderByExpr with pairwise distinct numeric keys
      match v with
      | .data (.set xs) =>
        Res.mapM' (fun x => bind p (.data x) >>= fun s => evalE call b (s ++ env) >>= fun r =>
          keyOf r >>= fun k => .ok (k, x)) xs >>= fun ks =>
        match sortByKey ks with
        | some sorted => .ok (.data (V.mkArr (sorted.map (·.2))))
        | none => .unsup
      | .data _ => .err
      | .clo _ _ _ => .unsup
    | .tupmap =>       -- TupleMapExpr.Eval: `value.(Tuple).Map(…)` (a non-tuple is a Go panic: outside the model)
      match v with
      | .data (.tup as) =>
        Res.mapM' (fun x => bind p (.data x) >>= fun s => evalE call b (s ++ env) >>= asData) (as.map (·.2)) >>= fun rs =>
        .ok (.data (V.mkTup ((as.map (·.1)).zip rs)))
      | _ => .unsup
    | .sum =>          -- ReduceExpr.Eval with NewSumExpr
      match v with
      | .data (.set xs) =>
        Res.mapM' (fun x => bind p (.data x) >>= fun s => evalE call b (s ++ env) >>= numOf) xs >>= fun ns =>
        mkNum (ns.foldl (· + ·) 0)
      | .data _ => .err
      | .clo _ _ _ => .unsup
    | .max =>          -- NewMaxExpr over numeric results ("Empty set has no max")
      match v with
      | .data (.set xs) =>
        if xs.isEmpty then .err else
        Res.mapM' (fun x => bind p (.data x) >>= fun s => evalE call b (s ++ env) >>= keyOf) xs >>= fun ns =>
        .ok (.data (.num (maxOf ns)))
      | .data _ => .err
      | .clo _ _ _ => .unsup
    | .min =>
      match v with
      | .data (.set xs) =>
        if xs.isEmpty then .err else
        Res.mapM' (fun x => bind p (.data x) >>= fun s => evalE call b (s ++ env) >>= keyOf) xs >>= fun ns =>
        .ok (.data (.num (minOf ns)))
      | .data _ => .err
      | .clo _ _ _ => .unsup
  | .cond es, env => evalCond call es env
  | .coll k items, env =>
    evalItems call items env >>= fun es =>
    match mkColl k es with
    | .ok v => .ok (.data v)
    | .err => .err
    | .oof => .oof
    | .unsup => .unsup
  | .nil, _ => .err
  | .cons _ _ _ _, _ => .err
  | .cerr, _ => .err
/-- the element loop of SetExpr/ArrayExpr/TupleExpr/DictExpr.Eval: entries left to right, key before value -/
def evalItems (call : Caller) : Expr → Env → Res (List (String × V × V))
  | .nil, _ => .ok []
  | .cons n k v rest, env =>
    (if isNil k then .ok V.none else evalE call k env >>= asData) >>= fun kv =>
    evalE call v env >>= asData >>= fun vv =>
    evalItems call rest env >>= fun r => .ok ((n, kv, vv) :: r)
  | _, _ => .err
/-- `CondExpr.Eval`: the first entry whose key is `_` or evaluates to a true value is selected and only its
value is evaluated; no entry selected ⇒ `{}` -/
def evalCond (call : Caller) : Expr → Env → Res Val
  | .cons _ k v rest, env =>
    if isUnderscore k then evalE call v env
    else evalE call k env >>= fun c => if isTrue c then evalE call v env else evalCond call rest env
  | _, _ => .ok (.data V.none)
end

/-- `Closure.CallAll` with `n` further nested closure calls allowed: bind the argument in the captured scope,
evaluate the body in `c.scope.Update(scope)` -/
def callAt : Nat → Caller
  | 0 => fun _ _ _ _ => .oof
  | n + 1 => fun cenv p b arg => bind p arg >>= fun s => evalE (callAt n) b (s ++ cenv)

def eval (n : Nat) (e : Expr) (env : Env) : Res Val := evalE (callAt n) e env

/-! ## Compile -/

/-- `ExprAsFunction` (with the repair: parentheses are looked through): a function literal is used as it is,
anything else becomes `\. expr` -/
def stripParens : Expr → Expr
  | .paren e => stripParens e
  | e => e

def asFunction (e : Expr) : Pat × Expr :=
  match stripParens e with
  | .fn p b => (p, b)
  | _ => (.ident ".", e)

/-- `exprIsValue` on every entry of a spine: the literal entries, if all are literals -/
def litsOf : Expr → Option (List (String × V × V))
  | .nil => some []
  | .cons n .nil (.lit v) rest => (litsOf rest).map ((n, V.none, v) :: ·)
  | .cons n (.lit k) (.lit v) rest => (litsOf rest).map ((n, k, v) :: ·)
  | _ => none

/-- NewSetExpr/NewArrayExpr/NewTupleExpr/NewDictExpr: fold when every element is a value.
`poison = true` is today's compiler (a literal dict with duplicate keys fails to compile);
`poison = false` keeps the unfolded expression (the error is raised when the dict is evaluated). -/
def foldColl (poison : Bool) (k : Coll) (items : Expr) : Expr :=
  match litsOf items with
  | some es =>
    match mkColl k es with
    | .ok v => .lit v
    | _ => if poison then .cerr else .coll k items
  | none => .coll k items

/-- `ParseContext.CompileExpr`; `fold = false` never folds (used to state that folding is inert) -/
def compileG (fold poison : Bool) : Ast → Expr
  | .num n => .lit (.num n)
  | .str cs => .lit (V.mkStr cs)
  | .bytes bs => .lit (V.mkBytes bs)
  | .tt => .lit V.tt
  | .ff => .lit V.none
  | .ident x => .ident x
  | .let_ p e b => .arrow .arrow (compileG fold poison e) p (compileG fold poison b)
  | .opFn op lhs p b => .arrow op (compileG fold poison lhs) p (compileG fold poison b)
  | .opDot op lhs f =>
    .arrow op (compileG fold poison lhs) (asFunction (compileG fold poison f)).1 (asFunction (compileG fold poison f)).2
  | .fn p b => .fn p (compileG fold poison b)
  | .call f a => .bin .call (compileG fold poison f) (compileG fold poison a)
  | .neg e => .neg (compileG fold poison e)
  | .un op e => .un op (compileG fold poison e)
  | .dot e name => .dot (compileG fold poison e) name
  | .bin op a b => .bin op (compileG fold poison a) (compileG fold poison b)
  | .and_ a b => .and_ (compileG fold poison a) (compileG fold poison b)
  | .or_ a b => .or_ (compileG fold poison a) (compileG fold poison b)
  | .cond es => .cond (compileG fold poison es)
  | .coll k items =>
    if fold then foldColl poison k (compileG fold poison items) else .coll k (compileG fold poison items)
  | .paren e => .paren (compileG fold poison e)
  | .nil => .nil
  | .cons n k v r => .cons n (compileG fold poison k) (compileG fold poison v) (compileG fold poison r)

/-- today's compiler -/
def compile : Ast → Expr := compileG true true

/-- does the compiled program contain a compile-time failure? -/
def poisoned : Expr → Bool
  | .cerr => true
  | .fn _ b => poisoned b
  | .paren e => poisoned e
  | .neg e => poisoned e
  | .un _ e => poisoned e
  | .dot e _ => poisoned e
  | .bin _ a b => poisoned a || poisoned b
  | .and_ a b => poisoned a || poisoned b
  | .or_ a b => poisoned a || poisoned b
  | .arrow _ l _ b => poisoned l || poisoned b
  | .cond es => poisoned es
  | .coll _ es => poisoned es
  | .cons _ k v r => poisoned k || poisoned v || poisoned r
  | _ => false

/-- `syntax.EvaluateExpr`: compile (a compile error is an error), then evaluate in the empty scope -/
def run (n : Nat) (a : Ast) : Res Val :=
  if poisoned (compile a) then .err else eval n (compile a) []

end Impl

/-! ## Spec: what the documentation promises -/
namespace Spec
/-- the compiler without compile-time evaluation of literal sub-terms: an ill-formed literal is an error
only where (and if) it is evaluated -/
def compile : Ast → Expr := Impl.compileG true false
def run (n : Nat) (a : Ast) : Res Val := Impl.eval n (compile a) []
end Spec

/-! ## Observables -/

def Val.obs : Val → String
  | .data v => v.canon
  | .clo _ _ _ => "fn"

def Res.obs : Res Val → String
  | .ok v => v.obs
  | .err => "error"
  | .oof => "?oof"
  | .unsup => "?unsup"

def Res.defined : Res Val → Bool
  | .ok _ => true
  | .err => true
  | _ => false

end Arrai.C08
