/-
  C08 helper lemmas: the simulation theorem.

  `ER k σ eL eR` is the least relation on compiled expressions that is closed under every constructor
  (a congruence) and contains the documented rewrites:
    parentheses (parenL/parenR), folded vs unfolded literal collections (foldL/foldR),
    `(\p b)(e)` vs `e -> \p b` (callArrow/arrowCall),
    a name bound to a closed data value vs that value written in its place (`subst`, governed by `σ`),
    branches of `&&`, `||`, `cond` that a literal guard never selects (andDead/orDead/condDead/condTaken).
  `sim`: related expressions evaluated in related environments give related results, whatever the two
  closure-call budgets are (a result `oof` on either side is related to everything).
-/
import Arrai.C08.Model

namespace Arrai.C08
open Impl

/-! ## substitutions and lookups -/

/-- names (left) that are bound to a data value which the right-hand program has in place of the name -/
abbrev Sub := List (String × V)

def Sub.erase (σ : Sub) (xs : List String) : Sub := σ.filter (fun p => !xs.contains p.1)

theorem Sub.erase_cons (m : String) (v : V) (r : Sub) (xs : List String) :
    Sub.erase ((m, v) :: r) xs = if m ∈ xs then Sub.erase r xs else (m, v) :: Sub.erase r xs := by
  by_cases h : m ∈ xs <;> simp [Sub.erase, List.filter, h]

theorem lookupV_erase (σ : Sub) (xs : List String) (x : String) :
    lookupV x (σ.erase xs) = if x ∈ xs then none else lookupV x σ := by
  induction σ with
  | nil => simp [Sub.erase, lookupV]
  | cons p r ih =>
    obtain ⟨m, v⟩ := p
    rw [Sub.erase_cons]
    by_cases hm : m ∈ xs
    · simp only [hm, if_true, ih, lookupV]
      by_cases hx : x = m
      · subst hx; simp [hm]
      · simp [hx]
    · simp only [hm, if_false, lookupV, ih]
      by_cases hx : x = m
      · subst hx; simp [hm]
      · simp [hx]

theorem lookup_append (x : String) (s env : Env) :
    lookup x (s ++ env) = match lookup x s with | some v => some v | none => lookup x env := by
  induction s with
  | nil => simp [lookup]
  | cons p r ih =>
    obtain ⟨m, v⟩ := p
    simp only [List.cons_append, lookup]
    by_cases h : x = m
    · simp [h]
    · simp [h, ih]

/-! ## the relations -/

inductive K | expr | items | conds
  deriving DecidableEq

def isCell : Expr → Bool
  | .nil => true
  | .cons _ _ _ _ => true
  | _ => false

def isCons : Expr → Bool
  | .cons _ _ _ _ => true
  | _ => false

inductive ER : K → Sub → Expr → Expr → Prop
  -- congruence
  | lit (σ v) : ER .expr σ (.lit v) (.lit v)
  | ident (σ x) : lookupV x σ = none → ER .expr σ (.ident x) (.ident x)
  | fn {σ p bL bR} : ER .expr (σ.erase (patVars p)) bL bR → ER .expr σ (.fn p bL) (.fn p bR)
  | neg {σ a b} : ER .expr σ a b → ER .expr σ (.neg a) (.neg b)
  | dot {σ a b} (n : String) : ER .expr σ a b → ER .expr σ (.dot a n) (.dot b n)
  | un {σ a b} (op : UnOp) : ER .expr σ a b → ER .expr σ (.un op a) (.un op b)
  | bin {σ a b c d} (op) : ER .expr σ a b → ER .expr σ c d → ER .expr σ (.bin op a c) (.bin op b d)
  | and_ {σ a b c d} : ER .expr σ a b → ER .expr σ c d → ER .expr σ (.and_ a c) (.and_ b d)
  | or_ {σ a b c d} : ER .expr σ a b → ER .expr σ c d → ER .expr σ (.or_ a c) (.or_ b d)
  | arrow {σ lL lR p bL bR} (op) : ER .expr σ lL lR → ER .expr (σ.erase (patVars p)) bL bR →
      ER .expr σ (.arrow op lL p bL) (.arrow op lR p bR)
  | cond {σ a b} : ER .conds σ a b → ER .expr σ (.cond a) (.cond b)
  | coll {σ a b} (k) : ER .items σ a b → ER .expr σ (.coll k a) (.coll k b)
  | cerr (σ) : ER .expr σ .cerr .cerr
  | nilE (σ) : ER .expr σ .nil .nil
  | consE (σ n k v r n' k' v' r') : ER .expr σ (.cons n k v r) (.cons n' k' v' r')
  -- spines of element slices
  | nilI (σ) : ER .items σ .nil .nil
  | consNil {σ vL vR rL rR} (n) : ER .expr σ vL vR → ER .items σ rL rR →
      ER .items σ (.cons n .nil vL rL) (.cons n .nil vR rR)
  | consKey {σ kL kR vL vR rL rR} (n) : kL ≠ .nil → kR ≠ .nil → ER .expr σ kL kR → ER .expr σ vL vR →
      ER .items σ rL rR → ER .items σ (.cons n kL vL rL) (.cons n kR vR rR)
  | junkI {σ a b} : isCell a = false → isCell b = false → ER .items σ a b
  -- spines of cond entries
  | endC {σ a b} : isCons a = false → isCons b = false → ER .conds σ a b
  | consC {σ kL kR vL vR rL rR} (n n') : ER .expr σ kL kR → ER .expr σ vL vR → ER .conds σ rL rR →
      ER .conds σ (.cons n kL vL rL) (.cons n' kR vR rR)
  -- the documented rewrites
  | parenL {σ a b} : ER .expr σ a b → ER .expr σ (.paren a) b
  | parenR {σ a b} : ER .expr σ a b → ER .expr σ a (.paren b)
  | foldL {σ k items es v e} : litsOf items = some es → mkColl k es = .ok v → ER .expr σ (.coll k items) e →
      ER .expr σ (.lit v) e
  | foldR {σ k items es v e} : litsOf items = some es → mkColl k es = .ok v → ER .expr σ e (.coll k items) →
      ER .expr σ e (.lit v)
  | subst (σ x v) : lookupV x σ = some v → x ≠ "_" → ER .expr σ (.ident x) (.lit v)
  | letLit {σ bL bR} (x v) : x ≠ "_" → isUnderscore bR = false → ER .expr ((x, v) :: σ.erase [x]) bL bR →
      ER .expr σ (.arrow .arrow (.lit v) (.ident x) bL) bR
  | callArrow {σ p eL eR bL bR} : ER .expr σ eL eR → ER .expr (σ.erase (patVars p)) bL bR →
      ER .expr σ (.bin .call (.fn p bL) eL) (.arrow .arrow eR p bR)
  | arrowCall {σ p eL eR bL bR} : ER .expr σ eL eR → ER .expr (σ.erase (patVars p)) bL bR →
      ER .expr σ (.arrow .arrow eL p bL) (.bin .call (.fn p bR) eR)
  -- branches that a literal guard never selects
  | andDead (σ v b b') : Impl.isTrue (Val.data v) = false → ER .expr σ (.and_ (.lit v) b) (.and_ (.lit v) b')
  | orDead (σ v b b') : Impl.isTrue (Val.data v) = true → ER .expr σ (.or_ (.lit v) b) (.or_ (.lit v) b')
  | condDead {σ rL rR} (n n' v x x') : Impl.isTrue (Val.data v) = false → ER .conds σ rL rR →
      ER .conds σ (.cons n (.lit v) x rL) (.cons n' (.lit v) x' rR)
  | condTaken {σ xL xR} (n n' v r r') : Impl.isTrue (Val.data v) = true → ER .expr σ xL xR →
      ER .conds σ (.cons n (.lit v) xL r) (.cons n' (.lit v) xR r')
  | condDefault {σ kL kR xL xR} (n n' r r') : isUnderscore kL = true → isUnderscore kR = true → ER .expr σ xL xR →
      ER .conds σ (.cons n kL xL r) (.cons n' kR xR r')

/-- related values: equal data, or closures with related bodies over related captured scopes -/
inductive ValR : Val → Val → Prop
  | data (v) : ValR (.data v) (.data v)
  | clo {envL envR p bL bR} (σ : Sub) :
      (∀ x v, lookupV x σ = some v → lookup x envL = some (.data v)) →
      (∀ x, lookupV x σ = none → (lookup x envL).isSome = (lookup x envR).isSome) →
      (∀ x a b, lookupV x σ = none → lookup x envL = some a → lookup x envR = some b → ValR a b) →
      ER .expr (σ.erase (patVars p)) bL bR →
      ValR (.clo envL p bL) (.clo envR p bR)

structure EnvR (σ : Sub) (envL envR : Env) : Prop where
  sub : ∀ x v, lookupV x σ = some v → lookup x envL = some (.data v)
  dom : ∀ x, lookupV x σ = none → (lookup x envL).isSome = (lookup x envR).isSome
  val : ∀ x a b, lookupV x σ = none → lookup x envL = some a → lookup x envR = some b → ValR a b

theorem EnvR.nil : EnvR [] [] [] :=
  ⟨by intro x v h; simp [lookupV] at h, by intro x _; simp [lookup], by intro x a b _ h; simp [lookup] at h⟩

/-- related results: `oof` (either side) is related to everything -/
def ResR {α β} (R : α → β → Prop) : Res α → Res β → Prop
  | .oof, _ => True
  | _, .oof => True
  | .ok a, .ok b => R a b
  | .err, .err => True
  | .unsup, .unsup => True
  | _, _ => False

section
variable {α β : Type} {R : α → β → Prop}
@[simp] theorem ResR.oofL (r : Res β) : ResR R .oof r := by simp [ResR]
@[simp] theorem ResR.oofR (r : Res α) : ResR R r .oof := by cases r <;> simp [ResR]
@[simp] theorem ResR.ok_ok (a : α) (b : β) : ResR R (.ok a) (.ok b) ↔ R a b := by simp [ResR]
@[simp] theorem ResR.err_err : ResR R (.err : Res α) (.err : Res β) := by simp [ResR]
@[simp] theorem ResR.unsup_unsup : ResR R (.unsup : Res α) (.unsup : Res β) := by simp [ResR]
@[simp] theorem ResR.ok_err (a : α) : ResR R (.ok a) (.err : Res β) ↔ False := by simp [ResR]
@[simp] theorem ResR.ok_unsup (a : α) : ResR R (.ok a) (.unsup : Res β) ↔ False := by simp [ResR]
@[simp] theorem ResR.err_ok (b : β) : ResR R (.err : Res α) (.ok b) ↔ False := by simp [ResR]
@[simp] theorem ResR.err_unsup : ResR R (.err : Res α) (.unsup : Res β) ↔ False := by simp [ResR]
@[simp] theorem ResR.unsup_ok (b : β) : ResR R (.unsup : Res α) (.ok b) ↔ False := by simp [ResR]
@[simp] theorem ResR.unsup_err : ResR R (.unsup : Res α) (.err : Res β) ↔ False := by simp [ResR]
end

theorem ResR.bind {α β γ δ} {R : α → β → Prop} {S : γ → δ → Prop} {r1 : Res α} {r2 : Res β}
    {f : α → Res γ} {g : β → Res δ} (h : ResR R r1 r2) (hf : ∀ a b, R a b → ResR S (f a) (g b)) :
    ResR S (r1 >>= f) (r2 >>= g) := by
  cases r1 <;> cases r2 <;> simp_all

theorem ResR.mapM' {α β} (f g : α → Res β) (xs : List α) (h : ∀ x, x ∈ xs → ResR Eq (f x) (g x)) :
    ResR Eq (Res.mapM' f xs) (Res.mapM' g xs) := by
  induction xs with
  | nil => simp [Res.mapM']
  | cons x r ih =>
    simp only [Res.mapM']
    refine ResR.bind (h x (by simp)) ?_
    intro a b hab
    subst hab
    refine ResR.bind (ih (fun y hy => h y (by simp [hy]))) ?_
    intro as bs habs
    subst habs
    simp

theorem ResR.refl_eq {α} (r : Res α) : ResR Eq r r := by cases r <;> simp

/-! ## values -/

theorem ValR.isTrue {a b : Val} (h : ValR a b) : isTrue a = isTrue b := by
  cases h <;> simp [Impl.isTrue]

theorem ValR.asData {a b : Val} (h : ValR a b) : ResR Eq (asData a) (asData b) := by
  cases h <;> simp [Impl.asData]

theorem ValR.data_left {v : V} {b : Val} (h : ValR (.data v) b) : b = .data v := by
  cases h; rfl

theorem mkNum_rel (n : Int) : ResR ValR (mkNum n) (mkNum n) := by
  unfold mkNum; split <;> simp; exact ValR.data _

theorem getAttr_rel (n : String) (as : List (String × V)) : ResR ValR (getAttr n as) (getAttr n as) := by
  unfold getAttr
  split
  · simp; exact ValR.data _
  · split <;> simp

theorem ValR.dotV (n : String) {a b : Val} (h : ValR a b) : ResR ValR (dotV n a) (dotV n b) := by
  cases h with
  | data v =>
    cases v with
    | tup as => exact getAttr_rel n as
    | set xs =>
      match xs with
      | [.tup as] => exact getAttr_rel n as
      | [] => simp [Impl.dotV]
      | [.num _] => simp [Impl.dotV]
      | [.set _] => simp [Impl.dotV]
      | _ :: _ :: _ => simp [Impl.dotV]
    | num _ => simp [Impl.dotV]
  | clo => simp [Impl.dotV]

theorem mkNum_ok {n : Int} {r : Val} (h : mkNum n = .ok r) : ∃ u, r = Val.data u := by
  unfold mkNum at h
  split at h <;> simp at h
  exact ⟨_, h.symm⟩

theorem ValR.negV {a b : Val} (h : ValR a b) : ResR ValR (negV a) (negV b) := by
  cases h with
  | data v =>
    cases hr : Impl.negV (.data v) with
    | ok r =>
      simp only [ResR.ok_ok]
      have : ∃ u, r = Val.data u := by
        unfold Impl.negV at hr
        split at hr
        · exact mkNum_ok hr
        · simp at hr; exact ⟨_, hr.symm⟩
        · simp at hr; exact ⟨_, hr.symm⟩
        · split at hr <;> simp at hr; exact ⟨_, hr.symm⟩
        · simp at hr; exact ⟨_, hr.symm⟩
        · simp at hr
      obtain ⟨u, rfl⟩ := this
      exact ValR.data u
    | err => simp
    | oof => simp
    | unsup => simp
  | clo => simp [Impl.negV]

theorem ValR.unV (op : UnOp) {a b : Val} (h : ValR a b) : ResR ValR (unV op a) (unV op b) := by
  cases op with
  | pos => simpa [Impl.unV] using h
  | not => simp [Impl.unV, h.isTrue]; exact ValR.data _
  | pset =>
    cases h with
    | data v =>
      cases v with
      | set xs => simp only [Impl.unV]; split <;> simp; exact ValR.data _
      | _ => simp [Impl.unV]
    | clo => simp [Impl.unV]

/-! ## Pattern.Bind -/

def allData (s : Env) : Prop := ∀ x a, lookup x s = some a → ∃ u, a = Val.data u
def domIs (s : Env) (vars : List String) : Prop := ∀ x, (lookup x s).isSome = decide (x ∈ vars)

theorem matchedUpdate_ok {s r t : Env} (h : matchedUpdate s r = .ok t) : t = r ++ s := by
  unfold matchedUpdate at h
  cases hm : matchedOk s r with
  | ok b =>
    rw [hm] at h
    cases b <;> simp at h
    exact h.symm
  | err => rw [hm] at h; simp at h
  | oof => rw [hm] at h; simp at h
  | unsup => rw [hm] at h; simp at h

theorem domIs_append {s r : Env} {a b : List String} (hs : domIs s a) (hr : domIs r b) :
    domIs (r ++ s) (a ++ b) := by
  intro x
  rw [lookup_append]
  have h1 := hs x
  have h2 := hr x
  cases hl : lookup x r with
  | some v => simp [hl] at h2; simp [h2]
  | none =>
    simp [hl] at h2
    simp only [h1]
    simp [h2]

theorem allData_append {s r : Env} (hs : allData s) (hr : allData r) : allData (r ++ s) := by
  intro x a h
  rw [lookup_append] at h
  cases hl : lookup x r with
  | some v => rw [hl] at h; simp at h; subst h; exact hr x v hl
  | none => rw [hl] at h; exact hs x a h

theorem bind_ok_inv {α β} {r : Res α} {f : α → Res β} {b : β} (h : (r >>= f) = .ok b) :
    ∃ a, r = .ok a ∧ f a = .ok b := by
  cases r <;> simp at h
  exact ⟨_, rfl, h⟩

theorem bind_props (p : Pat) :
    (∀ v s, bind p v = .ok s → domIs s (patVars p) ∧ ((∃ u, v = Val.data u) → allData s)) ∧
    (∀ vs s, bindItems p vs = .ok s → domIs s (patVars p) ∧ allData s) ∧
    (∀ rem all s, bindAttrs p rem all = .ok s → domIs s (patVars p) ∧ allData s) := by
  induction p with
  | ident x =>
    refine ⟨?_, ?_, ?_⟩
    · intro v s h
      simp only [Impl.bind, Res.ok.injEq] at h
      subst h
      by_cases hx : x = "_"
      · simp [hx, domIs, allData, lookup, patVars]
      · simp only [hx, if_false, patVars]
        refine ⟨?_, ?_⟩
        · intro y; simp only [lookup]; by_cases hy : y = x <;> simp [hy]
        · rintro ⟨u, rfl⟩ y a h
          simp only [lookup] at h
          by_cases hy : y = x
          · simp [hy] at h; exact ⟨u, h.symm⟩
          · simp [hy] at h
    · intro vs s h; simp [bindItems] at h
    · intro rem all s h; simp [bindAttrs] at h
  | lit w =>
    refine ⟨?_, ?_, ?_⟩
    · intro v s h
      cases v with
      | data u =>
        simp only [Impl.bind] at h
        split at h <;> simp at h
        subst h; simp [domIs, allData, lookup, patVars]
      | clo => simp [Impl.bind] at h
    · intro vs s h; simp [bindItems] at h
    · intro rem all s h; simp [bindAttrs] at h
  | arr items ih =>
    refine ⟨?_, ?_, ?_⟩
    · intro v s h
      simp only [Impl.bind] at h
      split at h
      · split at h
        · split at h
          · exact ⟨(ih.2.1 _ _ h).1, fun _ => (ih.2.1 _ _ h).2⟩
          · simp at h
        · split at h <;> simp at h
      · simp at h
    · intro vs s h; simp [bindItems] at h
    · intro rem all s h; simp [bindAttrs] at h
  | tup items ih =>
    refine ⟨?_, ?_, ?_⟩
    · intro v s h
      simp only [Impl.bind] at h
      split at h
      · exact ⟨(ih.2.2 _ _ _ h).1, fun _ => (ih.2.2 _ _ _ h).2⟩
      · simp at h
    · intro vs s h; simp [bindItems] at h
    · intro rem all s h; simp [bindAttrs] at h
  | pnil =>
    refine ⟨?_, ?_, ?_⟩
    · intro v s h; simp [Impl.bind] at h
    · intro vs s h
      cases vs <;> simp [bindItems] at h
      subst h; simp [domIs, allData, lookup, patVars]
    · intro rem all s h
      simp only [bindAttrs] at h
      split at h <;> simp at h
      subst h; simp [domIs, allData, lookup, patVars]
  | pcons n p rest ihp ihr =>
    refine ⟨?_, ?_, ?_⟩
    · intro v s h; simp [Impl.bind] at h
    · intro vs s h
      cases vs with
      | nil => simp [bindItems] at h
      | cons v vs =>
        simp only [bindItems] at h
        obtain ⟨s1, h1, h⟩ := bind_ok_inv h
        obtain ⟨r1, h2, h⟩ := bind_ok_inv h
        have := matchedUpdate_ok h
        subst this
        have a1 := ihp.1 _ _ h1
        have a2 := ihr.2.1 _ _ h2
        exact ⟨domIs_append a1.1 a2.1, allData_append (a1.2 ⟨v, rfl⟩) a2.2⟩
    · intro rem all s h
      simp only [bindAttrs] at h
      split at h
      · simp at h
      · split at h
        · simp at h
        · obtain ⟨s1, h1, h⟩ := bind_ok_inv h
          obtain ⟨r1, h2, h⟩ := bind_ok_inv h
          have := matchedUpdate_ok h
          subst this
          have a1 := ihp.1 _ _ h1
          have a2 := ihr.2.2 _ _ _ h2
          exact ⟨domIs_append a1.1 a2.1, allData_append (a1.2 ⟨_, rfl⟩) a2.2⟩

/-! ## related scopes -/

structure ScopeR (vars : List String) (sL sR : Env) : Prop where
  domL : domIs sL vars
  domR : domIs sR vars
  val : ∀ x a b, lookup x sL = some a → lookup x sR = some b → ValR a b

theorem bind_rel (p : Pat) {vL vR : Val} (h : ValR vL vR) :
    ResR (ScopeR (patVars p)) (Impl.bind p vL) (Impl.bind p vR) := by
  cases h with
  | data v =>
    cases hb : Impl.bind p (.data v) with
    | ok s =>
      simp only [ResR.ok_ok]
      have hp := (bind_props p).1 _ _ hb
      refine ⟨hp.1, hp.1, ?_⟩
      intro x a b ha hb'
      rw [ha] at hb'
      cases hb'
      obtain ⟨u, rfl⟩ := hp.2 ⟨v, rfl⟩ x a ha
      exact ValR.data u
    | err => simp
    | oof => simp
    | unsup => simp
  | clo σ hs hd hv hb =>
    cases p with
    | ident x =>
      simp only [Impl.bind, ResR.ok_ok]
      by_cases hx : x = "_"
      · simp only [hx, if_true, patVars]
        exact ⟨by intro y; simp [lookup], by intro y; simp [lookup], by intro y a b h; simp [lookup] at h⟩
      · simp only [hx, if_false, patVars]
        refine ⟨?_, ?_, ?_⟩
        · intro y; simp only [lookup]; by_cases hy : y = x <;> simp [hy]
        · intro y; simp only [lookup]; by_cases hy : y = x <;> simp [hy]
        · intro y a b ha hb'
          simp only [lookup] at ha hb'
          by_cases hy : y = x
          · simp [hy] at ha hb'
            subst ha; subst hb'
            exact ValR.clo σ hs hd hv hb
          · simp [hy] at ha
    | lit w => simp [Impl.bind]
    | arr items => simp [Impl.bind]
    | tup items => simp [Impl.bind]
    | pnil => simp [Impl.bind]
    | pcons n q r => simp [Impl.bind]

theorem EnvR.letLit {σ : Sub} {envL envR : Env} (x : String) (v : V) (he : EnvR σ envL envR) :
    EnvR ((x, v) :: σ.erase [x]) ((x, .data v) :: envL) envR := by
  refine ⟨?_, ?_, ?_⟩
  · intro y w h
    simp only [lookupV] at h
    by_cases hy : y = x
    · simp only [hy, if_true, Option.some.injEq] at h
      simp [lookup, hy, h]
    · simp only [hy, if_false, lookupV_erase, List.mem_singleton] at h
      simp only [lookup, hy, if_false]
      exact he.sub y w h
  · intro y h
    simp only [lookupV] at h
    by_cases hy : y = x
    · simp [hy] at h
    · simp only [hy, if_false, lookupV_erase, List.mem_singleton] at h
      simp only [lookup, hy, if_false]
      exact he.dom y h
  · intro y a b h ha hb
    simp only [lookupV] at h
    by_cases hy : y = x
    · simp [hy] at h
    · simp only [hy, if_false, lookupV_erase, List.mem_singleton] at h
      simp only [lookup, hy, if_false] at ha
      exact he.val y a b h ha hb

theorem EnvR.extend {σ : Sub} {envL envR sL sR : Env} {vars : List String}
    (he : EnvR σ envL envR) (hs : ScopeR vars sL sR) : EnvR (σ.erase vars) (sL ++ envL) (sR ++ envR) := by
  refine ⟨?_, ?_, ?_⟩
  · intro x v h
    rw [lookupV_erase] at h
    by_cases hx : x ∈ vars
    · simp [hx] at h
    · simp only [hx, if_false] at h
      have := hs.domL x
      simp only [hx, decide_false] at this
      rw [lookup_append]
      cases hl : lookup x sL with
      | some a => rw [hl] at this; simp at this
      | none => simp only; exact he.sub x v h
  · intro x h
    rw [lookupV_erase] at h
    rw [lookup_append, lookup_append]
    have h1 := hs.domL x
    have h2 := hs.domR x
    by_cases hx : x ∈ vars
    · simp only [hx, decide_true] at h1 h2
      cases hl : lookup x sL <;> cases hr : lookup x sR <;> simp_all
    · simp only [hx, decide_false] at h1 h2
      simp only [hx, if_false] at h
      cases hl : lookup x sL with
      | some a => rw [hl] at h1; simp at h1
      | none =>
        cases hr : lookup x sR with
        | some a => rw [hr] at h2; simp at h2
        | none => simp only; exact he.dom x h
  · intro x a b h ha hb
    rw [lookupV_erase] at h
    rw [lookup_append] at ha hb
    have h1 := hs.domL x
    have h2 := hs.domR x
    cases hl : lookup x sL with
    | some a' =>
      cases hr : lookup x sR with
      | some b' =>
        rw [hl] at ha; rw [hr] at hb
        simp at ha hb
        subst ha; subst hb
        exact hs.val x _ _ hl hr
      | none =>
        rw [hl] at h1; rw [hr] at h2
        simp at h1 h2
        exact absurd h1 h2
    | none =>
      cases hr : lookup x sR with
      | some b' =>
        rw [hl] at h1; rw [hr] at h2
        simp at h1 h2
        exact absurd h2 h1
      | none =>
        rw [hl] at ha h1; rw [hr] at hb
        simp at h1
        simp only [h1, if_false] at h
        exact he.val x a b h ha hb

/-! ## operators -/

theorem applyData_rel (op : BinOp) {a a' b b' : Val} (ha : ValR a a') (hb : ValR b b') :
    ResR ValR (applyData op a b) (applyData op a' b') := by
  cases ha with
  | data x =>
    cases hb with
    | data y =>
      cases h : applyData op (.data x) (.data y) with
      | ok r =>
        simp only [ResR.ok_ok]
        -- the result of an operator on data is data
        have : ∃ u, r = Val.data u := by
          cases op <;> cases x <;> cases y <;> simp [applyData] at h <;>
            first
            | exact mkNum_ok h
            | exact ⟨_, h.symm⟩
            | (split at h
               · simp at h
               · split at h
                 · simp at h
                 · exact mkNum_ok h)
        obtain ⟨u, rfl⟩ := this
        exact ValR.data u
      | err => simp
      | oof => simp
      | unsup => simp
    | clo => cases op <;> cases x <;> simp [applyData]
  | clo =>
    cases hb with
    | data y => cases op <;> cases y <;> simp [applyData]
    | clo => cases op <;> simp [applyData]

/-! ## evaluation of spines -/

theorem evalItems_junk (call : Caller) {a : Expr} (h : isCell a = false) (env : Env) :
    evalItems call a env = .err := by
  cases a <;> simp_all [isCell, evalItems]

theorem evalCond_end (call : Caller) {a : Expr} (h : isCons a = false) (env : Env) :
    evalCond call a env = .ok (.data V.none) := by
  cases a <;> simp_all [isCons, evalCond]

theorem evalItems_lits (call : Caller) (env : Env) (items : Expr) :
    ∀ es, litsOf items = some es → evalItems call items env = .ok es := by
  induction items with
  | nil => intro es h; simp [litsOf] at h; subst h; simp [evalItems]
  | cons n key val rest _ _ ihr =>
    intro es h
    cases val <;> cases key <;> simp [litsOf] at h
    all_goals
      obtain ⟨r, hr, rfl⟩ := h
      simp [evalItems, isNil, evalE, asData, ihr r hr]
  | _ => intro es h; simp [litsOf] at h

theorem evalE_lits (call : Caller) (env : Env) {k : Coll} {items : Expr} {es : List (String × V × V)} {v : V}
    (h1 : litsOf items = some es) (h2 : mkColl k es = .ok v) :
    evalE call (.coll k items) env = .ok (.data v) := by
  simp [evalE, evalItems_lits call env items es h1, h2]

theorem ER.isUnderscore_eq {k : K} {σ : Sub} {a b : Expr} (h : ER k σ a b) :
    k = .expr → isUnderscore a = isUnderscore b := by
  induction h with
  | ident => intro _; rfl
  | subst σ x v _ hx => intro _; simp [isUnderscore, hx]
  | parenL _ ih => intro hk; simpa [isUnderscore] using ih hk
  | parenR _ ih => intro hk; simpa [isUnderscore] using ih hk
  | foldL _ _ _ ih => intro hk; simpa [isUnderscore] using ih hk
  | foldR _ _ _ ih => intro hk; simpa [isUnderscore] using ih hk
  | letLit x v _ hu _ _ => intro _; simp [isUnderscore, hu]
  | _ => intro hk; first | rfl | cases hk

/-! ## the simulation theorem -/

def SimGoal (nL nR : Nat) (k : K) (eL eR : Expr) (envL envR : Env) : Prop :=
  match k with
  | .expr => ResR ValR (evalE (callAt nL) eL envL) (evalE (callAt nR) eR envR)
  | .items => ResR Eq (evalItems (callAt nL) eL envL) (evalItems (callAt nR) eR envR)
  | .conds => ResR ValR (evalCond (callAt nL) eL envL) (evalCond (callAt nR) eR envR)

/-- the statement of `sim` for a left budget `nL` -/
def SimAt (nL : Nat) : Prop :=
  ∀ {k : K} {σ : Sub} {eL eR : Expr}, ER k σ eL eR → ∀ (nR : Nat) (envL envR : Env), EnvR σ envL envR →
    SimGoal nL nR k eL eR envL envR

/-- applying related closures to related arguments (`Closure.CallAll`) -/
theorem call_rel (nL : Nat) (IH : ∀ m, m < nL → SimAt m) (nR : Nat) {cL cR : Env} {p : Pat} {bL bR : Expr}
    {aL aR : Val} (hc : ValR (.clo cL p bL) (.clo cR p bR)) (ha : ValR aL aR) :
    ResR ValR (callAt nL cL p bL aL) (callAt nR cR p bR aR) := by
  cases nL with
  | zero => simp [callAt]
  | succ k =>
    cases nR with
    | zero => simp [callAt]
    | succ m =>
      simp only [callAt]
      cases hc with
      | clo σ hs hd hv hb =>
        refine ResR.bind (bind_rel p ha) ?_
        intro sL sR hsc
        exact IH k (Nat.lt_succ_self k) hb m _ _ (EnvR.extend ⟨hs, hd, hv⟩ hsc)

/-- the element loop shared by `=>`, `>>`, `where`, `orderby`: the body evaluated for every member -/
theorem body_rel {nL nR : Nat} {σ : Sub} {envL envR : Env} {p : Pat} {bL bR : Expr}
    (henv : EnvR σ envL envR)
    (ihb : ∀ (nR : Nat) (envL envR : Env), EnvR (σ.erase (patVars p)) envL envR →
      ResR ValR (evalE (callAt nL) bL envL) (evalE (callAt nR) bR envR))
    {γ : Type} (post : V → Val → Res γ)
    (hpost : ∀ x a b, ValR a b → ResR Eq (post x a) (post x b)) (xs : List V) :
    ResR Eq
      (Res.mapM' (fun x => Impl.bind p (.data x) >>= fun s => evalE (callAt nL) bL (s ++ envL) >>= post x) xs)
      (Res.mapM' (fun x => Impl.bind p (.data x) >>= fun s => evalE (callAt nR) bR (s ++ envR) >>= post x) xs) := by
  refine ResR.mapM' _ _ xs ?_
  intro x _
  refine ResR.bind (bind_rel p (ValR.data x)) ?_
  intro sL sR hsc
  refine ResR.bind (ihb nR _ _ (EnvR.extend henv hsc)) ?_
  intro a b hab
  exact hpost x a b hab

theorem simStep (nL : Nat) (IH : ∀ m, m < nL → SimAt m) : SimAt nL := by
  intro k σ eL eR h
  induction h with
  | lit σ v => intro nR envL envR _; simp [SimGoal, evalE]; exact ValR.data v
  | ident σ x hx =>
    intro nR envL envR henv
    simp only [SimGoal, evalE]
    have hd := henv.dom x hx
    cases hl : lookup x envL with
    | none =>
      rw [hl] at hd
      cases hr : lookup x envR with
      | none => simp
      | some b => rw [hr] at hd; simp at hd
    | some a =>
      rw [hl] at hd
      cases hr : lookup x envR with
      | none => rw [hr] at hd; simp at hd
      | some b => simp; exact henv.val x a b hx hl hr
  | fn hb _ =>
    intro nR envL envR henv
    simp only [SimGoal, evalE, ResR.ok_ok]
    exact ValR.clo _ henv.sub henv.dom henv.val hb
  | neg _ ih =>
    intro nR envL envR henv
    simp only [SimGoal, evalE]
    exact ResR.bind (ih nR envL envR henv) (fun _ _ h => h.negV)
  | dot n _ ih =>
    intro nR envL envR henv
    simp only [SimGoal, evalE]
    exact ResR.bind (ih nR envL envR henv) (fun _ _ h => h.dotV n)
  | un op _ ih =>
    intro nR envL envR henv
    simp only [SimGoal, evalE]
    exact ResR.bind (ih nR envL envR henv) (fun _ _ h => h.unV op)
  | bin op _ _ iha ihc =>
    intro nR envL envR henv
    simp only [SimGoal, evalE]
    refine ResR.bind (iha nR envL envR henv) ?_
    intro va va' hva
    refine ResR.bind (ihc nR envL envR henv) ?_
    intro vb vb' hvb
    cases op with
    | call =>
      cases hva with
      | data v => cases v <;> simp
      | clo σ' hs hd hv hb => exact call_rel nL IH nR (ValR.clo σ' hs hd hv hb) hvb
    | _ => exact applyData_rel _ hva hvb
  | and_ _ _ iha ihc =>
    intro nR envL envR henv
    simp only [SimGoal, evalE]
    refine ResR.bind (iha nR envL envR henv) ?_
    intro va va' hva
    rw [hva.isTrue]
    split
    · exact ihc nR envL envR henv
    · simpa using hva
  | or_ _ _ iha ihc =>
    intro nR envL envR henv
    simp only [SimGoal, evalE]
    refine ResR.bind (iha nR envL envR henv) ?_
    intro va va' hva
    rw [hva.isTrue]
    split
    · simpa using hva
    · exact ihc nR envL envR henv
  | arrow op _ _ ihl ihb =>
    intro nR envL envR henv
    simp only [SimGoal, evalE]
    refine ResR.bind (ihl nR envL envR henv) ?_
    intro v v' hv
    cases op with
    | arrow =>
      refine ResR.bind (bind_rel _ hv) ?_
      intro sL sR hsc
      exact ihb nR _ _ (EnvR.extend henv hsc)
    | darrow =>
      cases hv with
      | data u =>
        cases u with
        | set xs =>
          refine ResR.bind (body_rel henv ihb (fun _ r => asData r) (fun _ _ _ h => h.asData) xs) ?_
          intro rs rs' hrs; subst hrs; simp; exact ValR.data _
        | _ => simp
      | clo => simp
    | seq =>
      cases hv with
      | data u =>
        cases u with
        | set xs =>
          simp only
          cases arrItems xs 0 with
          | some vs =>
            refine ResR.bind (body_rel henv ihb (fun _ r => asData r) (fun _ _ _ h => h.asData) vs) ?_
            intro rs rs' hrs; subst hrs; simp; exact ValR.data _
          | none => simp
        | _ => simp
      | clo => simp
    | where_ =>
      cases hv with
      | data u =>
        cases u with
        | set xs =>
          refine ResR.bind (body_rel henv ihb (fun x r => .ok (x, Impl.isTrue r))
            (fun _ _ _ h => by simp [h.isTrue]) xs) ?_
          intro rs rs' hrs; subst hrs; simp; exact ValR.data _
        | _ => simp
      | clo => simp
    | orderby =>
      cases hv with
      | data u =>
        cases u with
        | set xs =>
          refine ResR.bind (body_rel henv ihb (fun x r => keyOf r >>= fun k => .ok (k, x))
            (fun _ a b h => by cases h <;> exact ResR.refl_eq _) xs) ?_
          intro rs rs' hrs; subst hrs
          cases sortByKey rs with
          | some sorted => simp; exact ValR.data _
          | none => simp
        | _ => simp
      | clo => simp
    | tupmap =>
      cases hv with
      | data u =>
        cases u with
        | tup as =>
          refine ResR.bind (body_rel henv ihb (fun _ r => asData r) (fun _ _ _ h => h.asData) (as.map (·.2))) ?_
          intro rs rs' hrs; subst hrs; simp; exact ValR.data _
        | _ => simp
      | clo => simp
    | sum =>
      cases hv with
      | data u =>
        cases u with
        | set xs =>
          refine ResR.bind (body_rel henv ihb (fun _ r => numOf r)
            (fun _ a b h => by cases h <;> exact ResR.refl_eq _) xs) ?_
          intro rs rs' hrs; subst hrs; exact mkNum_rel _
        | _ => simp
      | clo => simp
    | max =>
      cases hv with
      | data u =>
        cases u with
        | set xs =>
          simp only
          split
          · simp
          · refine ResR.bind (body_rel henv ihb (fun _ r => keyOf r)
              (fun _ a b h => by cases h <;> exact ResR.refl_eq _) xs) ?_
            intro rs rs' hrs; subst hrs; simp; exact ValR.data _
        | _ => simp
      | clo => simp
    | min =>
      cases hv with
      | data u =>
        cases u with
        | set xs =>
          simp only
          split
          · simp
          · refine ResR.bind (body_rel henv ihb (fun _ r => keyOf r)
              (fun _ a b h => by cases h <;> exact ResR.refl_eq _) xs) ?_
            intro rs rs' hrs; subst hrs; simp; exact ValR.data _
        | _ => simp
      | clo => simp
  | cond _ ih =>
    intro nR envL envR henv
    simp only [SimGoal, evalE]
    exact ih nR envL envR henv
  | coll k _ ih =>
    intro nR envL envR henv
    simp only [SimGoal, evalE]
    refine ResR.bind (ih nR envL envR henv) ?_
    intro es es' hes; subst hes
    cases mkColl k es <;> simp
    exact ValR.data _
  | cerr => intro nR envL envR _; simp [SimGoal, evalE]
  | nilE => intro nR envL envR _; simp [SimGoal, evalE]
  | consE => intro nR envL envR _; simp [SimGoal, evalE]
  | nilI => intro nR envL envR _; simp [SimGoal, evalItems]
  | consNil n _ _ ihv ihr =>
    intro nR envL envR henv
    simp only [SimGoal, evalItems, isNil, if_true, Res.bind_ok]
    refine ResR.bind (ResR.bind (ihv nR envL envR henv) (fun _ _ h => h.asData)) ?_
    intro a b hab; subst hab
    refine ResR.bind (ihr nR envL envR henv) ?_
    intro r r' hr; subst hr; simp
  | consKey n hkL hkR _ _ _ ihk ihv ihr =>
    intro nR envL envR henv
    rename_i σ' kL kR vL vR rL rR _ _ _
    have h1 : isNil kL = false := by cases kL <;> simp_all [isNil]
    have h2 : isNil kR = false := by cases kR <;> simp_all [isNil]
    simp only [SimGoal, evalItems, h1, h2]
    refine ResR.bind (ResR.bind (ihk nR envL envR henv) (fun _ _ h => h.asData)) ?_
    intro a b hab; subst hab
    refine ResR.bind (ResR.bind (ihv nR envL envR henv) (fun _ _ h => h.asData)) ?_
    intro a' b' hab'; subst hab'
    refine ResR.bind (ihr nR envL envR henv) ?_
    intro r r' hr; subst hr; simp
  | junkI h1 h2 =>
    intro nR envL envR _
    simp [SimGoal, evalItems_junk _ h1, evalItems_junk _ h2]
  | endC h1 h2 =>
    intro nR envL envR _
    simp [SimGoal, evalCond_end _ h1, evalCond_end _ h2]; exact ValR.data _
  | consC n n' hk _ _ ihk ihv ihr =>
    intro nR envL envR henv
    simp only [SimGoal, evalCond]
    rw [hk.isUnderscore_eq rfl]
    split
    · exact ihv nR envL envR henv
    · refine ResR.bind (ihk nR envL envR henv) ?_
      intro c c' hc
      rw [hc.isTrue]
      split
      · exact ihv nR envL envR henv
      · exact ihr nR envL envR henv
  | parenL _ ih => intro nR envL envR henv; simp only [SimGoal, evalE]; exact ih nR envL envR henv
  | parenR _ ih => intro nR envL envR henv; simp only [SimGoal, evalE]; exact ih nR envL envR henv
  | foldL h1 h2 _ ih =>
    intro nR envL envR henv
    have := ih nR envL envR henv
    simp only [SimGoal] at this ⊢
    rw [evalE_lits _ _ h1 h2] at this
    simpa [evalE] using this
  | foldR h1 h2 _ ih =>
    intro nR envL envR henv
    have := ih nR envL envR henv
    simp only [SimGoal] at this ⊢
    rw [evalE_lits _ _ h1 h2] at this
    simpa [evalE] using this
  | subst σ x v hx _ =>
    intro nR envL envR henv
    simp only [SimGoal, evalE, henv.sub x v hx, ResR.ok_ok]
    exact ValR.data v
  | letLit x v hx _ _ ih =>
    intro nR envL envR henv
    have := ih nR _ _ (EnvR.letLit x v henv)
    simp only [SimGoal] at this ⊢
    simpa [evalE, Impl.bind, hx] using this
  | callArrow _ hb ihe _ =>
    intro nR envL envR henv
    simp only [SimGoal, evalE, Res.bind_ok]
    refine ResR.bind (ihe nR envL envR henv) ?_
    intro vb v hv
    cases nL with
    | zero => simp [callAt]
    | succ k =>
      simp only [callAt]
      refine ResR.bind (bind_rel _ hv) ?_
      intro sL sR hsc
      exact IH k (Nat.lt_succ_self k) hb nR _ _ (EnvR.extend henv hsc)
  | arrowCall _ _ ihe ihb =>
    intro nR envL envR henv
    simp only [SimGoal, evalE, Res.bind_ok]
    refine ResR.bind (ihe nR envL envR henv) ?_
    intro v vb hv
    cases nR with
    | zero => simp [callAt]
    | succ m =>
      simp only [callAt]
      refine ResR.bind (bind_rel _ hv) ?_
      intro sL sR hsc
      exact ihb m _ _ (EnvR.extend henv hsc)
  | andDead σ v b b' hv =>
    intro nR envL envR _
    simp [SimGoal, evalE, hv]; exact ValR.data v
  | orDead σ v b b' hv =>
    intro nR envL envR _
    simp [SimGoal, evalE, hv]; exact ValR.data v
  | condDead n n' v x x' hv _ ih =>
    intro nR envL envR henv
    simp [SimGoal, evalCond, isUnderscore, evalE, hv]
    exact ih nR envL envR henv
  | condTaken n n' v r r' hv _ ih =>
    intro nR envL envR henv
    simp [SimGoal, evalCond, isUnderscore, evalE, hv]
    exact ih nR envL envR henv
  | condDefault n n' r r' h1 h2 _ ih =>
    intro nR envL envR henv
    simp only [SimGoal, evalCond, h1, h2, if_true]
    exact ih nR envL envR henv

theorem sim (nL : Nat) : SimAt nL := by
  induction nL using Nat.strongRecOn with
  | _ n ih => exact simStep n ih

/-- related whole programs in the empty scope -/
theorem sim_closed {eL eR : Expr} (h : ER .expr [] eL eR) (nL nR : Nat) :
    ResR ValR (eval nL eL []) (eval nR eR []) :=
  sim nL h nR [] [] EnvR.nil

theorem obs_eq_of_rel {r1 r2 : Res Val} (h : ResR ValR r1 r2) (h1 : r1 ≠ .oof) (h2 : r2 ≠ .oof) :
    r1.obs = r2.obs := by
  cases r1 <;> cases r2 <;> simp_all [Res.obs]
  rename_i a b
  cases h <;> simp [Val.obs]

end Arrai.C08
