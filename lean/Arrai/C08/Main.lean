import Arrai.Core.DriverMain
import Arrai.C08.Gen

def main (args : List String) : IO UInt32 := Arrai.driverMain Arrai.C08.gen args
