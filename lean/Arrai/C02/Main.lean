import Arrai.Core.DriverMain
import Arrai.C02.Gen

def main (args : List String) : IO UInt32 := Arrai.driverMain Arrai.C02.gen args
