/-
  C02 — equality is extensional; equal values are interchangeable.

  `Rep`   : what the Go evaluator holds — one constructor per Go type implementing `rel.Value`
            in the data fragment (rel/value_*.go).
  `den`   : the denotation of a representation in `Arrai.V`.
  `wf`    : the canonical-form invariant the Go constructors are supposed to establish
            ("every denotation has exactly one reachable representation").
  `Impl`  : transliteration of every `Equal` method, of the structural part of every `Hash`
            method (`hashKey`) and of the constructors that establish `wf`
            (NewTuple/TupleBuilder.Finish, NewOffsetString, NewOffsetArray, newSetFromFrozenSet,
            asString/asArray/asBytes, SetBuilder.Finish, String.Without, Array.Without,
            MergeLeftToRight) — the repaired functions and, for the witness theorems, the
            functions as they were before the repair (`…Old`).
  Core-only (linked into driver-c02).
-/
import Arrai.Core.Canon

namespace Arrai.C02

/-! ## representations -/

inductive Rep where
  | num (n : Int)                                   -- Number
  | gtuple (attrs : List (String × Rep))            -- *GenericTuple (frozen map: an enumeration order)
  | charT (ix : Int) (ch : Int)                     -- StringCharTuple
  | byteT (ix : Int) (b : Int)                      -- BytesByteTuple
  | itemT (ix : Int) (item : Rep)                   -- ArrayItemTuple
  | entryT (k : Rep) (v : Rep)                      -- DictEntryTuple
  | empty                                           -- EmptySet
  | true_                                           -- TrueSet
  | generic (xs : List Rep)                         -- GenericSet: members in enumeration order
  | str (s : List Int) (off : Int) (holes : Int)    -- String; negative rune = hole
  | bytes (b : List Int) (off : Int)                -- Bytes
  | array (vs : List (Option Rep)) (off : Int) (count : Int)   -- Array; none = hole
  | dict (m : List (Rep × List Rep))                -- Dict: key ↦ one value or multipleValues
  | relation (attrs : List String) (rows : List (List Rep))    -- Relation (identity projector)
  | union (buckets : List (String × Rep))           -- UnionSet: bucket name ↦ homogeneous subset
  deriving Inhabited

namespace Rep

/-! ## denotation -/

def vmembers : V → List V
  | .set l => l
  | _ => []

/-- `(@: i, name: v)` as a canonical tuple (`"@"` sorts before every `@name`) -/
def vpair (name : String) (i v : V) : V := .tup [("@", i), (name, v)]

/-- members of a string: negative runes are holes -/
def strMembers (off : Int) : List Int → List V
  | [] => []
  | c :: r => if c < 0 then strMembers (off + 1) r
              else vpair "@char" (.num off) (.num c) :: strMembers (off + 1) r

def bytesMembers (off : Int) : List Int → List V
  | [] => []
  | b :: r => vpair "@byte" (.num off) (.num b) :: bytesMembers (off + 1) r

def arrMembers (off : Int) : List (Option V) → List V
  | [] => []
  | some x :: r => vpair "@item" (.num off) x :: arrMembers (off + 1) r
  | none :: r => arrMembers (off + 1) r

def zipAttrs : List String → List V → List (String × V)
  | n :: ns, v :: vs => (n, v) :: zipAttrs ns vs
  | _, _ => []

mutual
def den : Rep → V
  | .num n => .num n
  | .gtuple as => V.mkTup (denAttrs as)
  | .charT ix ch => vpair "@char" (.num ix) (.num ch)
  | .byteT ix b => vpair "@byte" (.num ix) (.num b)
  | .itemT ix x => vpair "@item" (.num ix) (den x)
  | .entryT k v => vpair "@value" (den k) (den v)
  | .empty => .set []
  | .true_ => .set [.tup []]
  | .generic xs => V.mkSet (denList xs)
  | .str s off _ => V.mkSet (strMembers off s)
  | .bytes b off => V.mkSet (bytesMembers off b)
  | .array vs off _ => V.mkSet (arrMembers off (denOpts vs))
  | .dict m => V.mkSet (denDict m)
  | .relation names rows => V.mkSet (denRows names rows)
  | .union bs => V.mkSet (denBuckets bs)
def denAttrs : List (String × Rep) → List (String × V)
  | [] => []
  | (n, v) :: r => (n, den v) :: denAttrs r
def denList : List Rep → List V
  | [] => []
  | x :: r => den x :: denList r
def denOpts : List (Option Rep) → List (Option V)
  | [] => []
  | some x :: r => some (den x) :: denOpts r
  | none :: r => none :: denOpts r
def denDict : List (Rep × List Rep) → List V
  | [] => []
  | (k, vs) :: r => (denList vs).map (fun v => vpair "@value" (den k) v) ++ denDict r
def denRows (names : List String) : List (List Rep) → List V
  | [] => []
  | row :: r => V.mkTup (zipAttrs names (denList row)) :: denRows names r
def denBuckets : List (String × Rep) → List V
  | [] => []
  | (_, s) :: r => vmembers (den s) ++ denBuckets r
end

/-! ## Go-level accessors (non-recursive) -/

def isTuple : Rep → Bool
  | .gtuple _ | .charT _ _ | .byteT _ _ | .itemT _ _ | .entryT _ _ => true
  | _ => false

def isSet : Rep → Bool
  | .empty | .true_ | .generic _ | .str _ _ _ | .bytes _ _ | .array _ _ _ | .dict _ | .relation _ _
  | .union _ => true
  | _ => false

def lookupAttr (n : String) : List (String × Rep) → Option Rep
  | [] => none
  | (m, v) :: r => if n = m then some v else lookupAttr n r

/-- `Tuple.Get` -/
def tupleGet : Rep → String → Option Rep
  | .gtuple as, n => lookupAttr n as
  | .charT ix ch, n => if n = "@" then some (.num ix) else if n = "@char" then some (.num ch) else none
  | .byteT ix b, n => if n = "@" then some (.num ix) else if n = "@byte" then some (.num b) else none
  | .itemT ix x, n => if n = "@" then some (.num ix) else if n = "@item" then some x else none
  | .entryT k v, n => if n = "@" then some k else if n = "@value" then some v else none
  | _, _ => none

/-- names in `Enumerator` order -/
def tupleNames : Rep → List String
  | .gtuple as => as.map (·.1)
  | .charT _ _ => ["@", "@char"]
  | .byteT _ _ => ["@", "@byte"]
  | .itemT _ _ => ["@", "@item"]
  | .entryT _ _ => ["@", "@value"]
  | _ => []

def strCount (s : List Int) : Nat := (s.filter (fun c => decide (0 ≤ c))).length
def optCount {α} (vs : List (Option α)) : Nat := (vs.filter Option.isSome).length

/-- `Set.Enumerator` one level (members in enumeration order); union members need the subsets' -/
def members1 : Rep → List Rep
  | .true_ => [.gtuple []]
  | .generic xs => xs
  | .str s off _ => (s.zipIdx.filter (fun p => decide (0 ≤ p.1))).map (fun p => .charT (off + p.2) p.1)
  | .bytes b off => b.zipIdx.map (fun p => .byteT (off + p.2) p.1)
  | .array vs off _ => vs.zipIdx.filterMap (fun p => p.1.map (fun x => .itemT (off + p.2) x))
  | .dict m => m.flatMap (fun kv => kv.2.map (fun v => .entryT kv.1 v))
  | .relation names rows => rows.map (fun row => .gtuple (names.zip row))
  | _ => []

def members : Rep → List Rep
  | .union bs => bs.flatMap (fun b => members1 b.2)
  | r => members1 r

/-- `Set.Count` -/
def count : Rep → Int
  | .true_ => 1
  | .generic xs => xs.length
  | .str s _ holes => s.length - holes
  | .bytes b _ => b.length
  | .array _ _ c => c
  | .dict m => m.length          -- counts keys (C01's finding for multi-valued keys)
  | .relation _ rows => rows.length
  | .union bs => (bs.map (fun b => match b.2 with
      | .true_ => (1 : Int) | .generic xs => xs.length | .str s _ h => s.length - h | .bytes b _ => b.length
      | .array _ _ c => c | .dict m => m.length | .relation _ rows => rows.length | _ => 0)).foldl (· + ·) 0
  | _ => 0

/-- `DictTupleMatcher`: any tuple with exactly the names `@` and `@value` -/
def asEntry : Rep → Option (Rep × Rep)
  | .entryT k v => some (k, v)
  | .gtuple as =>
    if as.length = 2 then
      match lookupAttr "@" as, lookupAttr "@value" as with
      | some k, some v => some (k, v)
      | _, _ => none
    else none
  | _ => none

/-! ## `Hash`

frozen identifies the elements of a `Set` by their full hash: `Set.Equal` is "same count and same
XOR of the element hashes" (tree.Equal: `FullHash() && !H0.isZero()`), the structural comparison is
only consulted when that XOR is zero.  So what the `Hash` methods feed to the hash function decides
equality of every set nested in a set.  Hash values are modelled symbolically:

* an *atom* is one application of a mixing function of github.com/arr-ai/hash (memhash/aeshash of a
  payload under a seed) — idealised as injective in (function, payload, seed): no accidental 64-bit
  collisions;
* a hash value (`HV`) is the strictly sorted list of the atoms occurring an odd number of times, so
  Go's `^` is the symmetric difference `hxor`.

`hashG true` transliterates the repaired `Hash` methods, `hashG false` the ones before the repairs
(plain XORs of the parts' hashes; `String`/`Bytes` = hash.String(content)). frozen hashes an element
under the seeds 0 and 1; the model follows seed 0 (= `[]`) only. -/

abbrev HV := List V

def hxor (a b : HV) : HV := FinSet.symdiff a b
def hatom (tag : String) (payload : V) (seed : HV) : HV := [.tup [(tag, payload), ("seed", .set seed)]]
def numsV (l : List Int) : V := .set (l.map (fun x => .num x))
/-- payload of `hash.String(name)`: injective in the name -/
def nameV (n : String) : V := .tup [(n, .num 0)]

/-- `finishHash(h, seed)` (repaired) vs. `pre ^ h` (before) -/
def hfin (rep : Bool) (pre h seed : HV) : HV := if rep then hatom "fin" (.set h) seed else hxor pre h

/-- `ArrayItemTuple.Hash`/`DictEntryTuple.Hash`: the hash of the item/value under the seed derived from the
index/key, finished under the caller's seed (repaired) vs. returned as it is (before) -/
def tfin (rep : Bool) (inner seed : HV) : HV := if rep then hatom "fin" (.set inner) seed else inner

def strMemXor (off : Int) : List Int → HV
  | [] => []
  | c :: r => if c < 0 then strMemXor (off + 1) r
              else hxor (hatom "charT" (.set [.num off, .num c]) []) (strMemXor (off + 1) r)
def bytesMemXor (off : Int) : List Int → HV
  | [] => []
  | b :: r => hxor (hatom "byteT" (.set [.num off, .num b]) []) (bytesMemXor (off + 1) r)

mutual
/-- `v.Hash(seed)` -/
def hashG (rep : Bool) : Rep → HV → HV
  | .num n, s => hatom "f64" (.num n) s
  -- frozen Map.Hash: C(seed) ^ XOR of hash.Any(value, hash.Any(key, seed)); repaired: finished
  | .gtuple as, s => hfin rep [] (hxor (hatom "mapC" (.set []) s) (xorAttrs rep as s)) s
  -- hash.Int32(char, hash.Int(at, seed)) / hash.Uint8(byte, hash.Int(at, seed)): one injective atom each
  | .charT ix ch, s => hatom "charT" (.set [.num ix, .num ch]) s
  | .byteT ix b, s => hatom "byteT" (.set [.num ix, .num b]) s
  | .itemT ix x, s => tfin rep (hashG rep x (hatom "int" (.num ix) s)) s
  | .entryT k v, s => tfin rep (hashG rep v (hashG rep k s)) s
  | .empty, s => hfin rep s [] s
  | .true_, s => hfin rep s (hfin rep [] (hatom "mapC" (.set []) []) []) s
  | .generic xs, s => hfin rep s (xorList rep xs) s
  | .str r off _, s =>
    if rep then hatom "runes" (numsV (off :: r)) s
    else hatom "str" (numsV (r.map (fun c => if c < 0 then 0xFFFD else c))) s
  | .bytes b off, s =>
    if rep then hatom "bstr" (numsV (off :: b)) s
    else hatom "str" (numsV b) s
  | .array vs off _, s => hfin rep s (xorOpts rep off vs s) s
  | .dict m, s => hfin rep s (xorDict rep m s) s
  | .relation names rows, s => hfin rep [] (xorRows rep names rows s) s
  | .union bs, s => hfin rep s (xorBuckets rep bs) s
def xorAttrs (rep : Bool) : List (String × Rep) → HV → HV
  | [], _ => []
  | (n, v) :: r, s => hxor (hashG rep v (hatom "str" (nameV n) s)) (xorAttrs rep r s)
/-- XOR of `member.Hash(0)` -/
def xorList (rep : Bool) : List Rep → HV
  | [] => []
  | x :: r => hxor (hashG rep x []) (xorList rep r)
def xorOpts (rep : Bool) (off : Int) : List (Option Rep) → HV → HV
  | [], _ => []
  | some x :: r, s => hxor (tfin rep (hashG rep x (hatom "int" (.num off) s)) s) (xorOpts rep (off + 1) r s)
  | none :: r, s => xorOpts rep (off + 1) r s
def xorDict (rep : Bool) : List (Rep × List Rep) → HV → HV
  | [], _ => []
  | (k, vs) :: r, s => hxor (xorVals rep vs (hashG rep k s) s) (xorDict rep r s)
def xorVals (rep : Bool) : List Rep → HV → HV → HV
  | [], _, _ => []
  | v :: r, ks, s => hxor (tfin rep (hashG rep v ks) s) (xorVals rep r ks s)
def xorRows (rep : Bool) (names : List String) : List (List Rep) → HV → HV
  | [], _ => []
  | row :: r, s =>
    hxor (hfin rep [] (hxor (hatom "mapC" (.set []) s) (xorRow rep names row s)) s) (xorRows rep names r s)
def xorRow (rep : Bool) : List String → List Rep → HV → HV
  | n :: ns, v :: vs, s => hxor (hashG rep v (hatom "str" (nameV n) s)) (xorRow rep ns vs s)
  | _, _, _ => []
/-- a `UnionSet` hashes all members of all buckets under seed 0 -/
def xorBuckets (rep : Bool) : List (String × Rep) → HV
  | [] => []
  | (_, sub) :: r => hxor (memXor rep sub) (xorBuckets rep r)
/-- XOR of `member.Hash(0)` over the enumeration of a (non-union) set -/
def memXor (rep : Bool) : Rep → HV
  | .true_ => hfin rep [] (hatom "mapC" (.set []) []) []
  | .generic xs => xorList rep xs
  | .str r off _ => strMemXor off r
  | .bytes b off => bytesMemXor off b
  | .array vs off _ => xorOpts rep off vs []
  | .dict m => xorDict rep m []
  | .relation names rows => xorRows rep names rows []
  | _ => []
end

/-- the repaired hash under seed 0 -/
def hashKey (r : Rep) : HV := hashG true r []

end Rep

/-! ## the canonical-form invariant -/
namespace Rep

def inRune (c : Int) : Bool := decide (0 ≤ c) && decide (c ≤ 0x10FFFF)
def inByte (b : Int) : Bool := decide (0 ≤ b) && decide (b ≤ 0xFF)

/-- would `NewTuple`/`TupleBuilder.Finish` (after repair #20) turn these attributes into one of the
four specialised tuples?  (`@` not a number with `@char/@byte/@item` panics in Go — pinned by the
suite — so such a tuple is never built; it counts as not specialisable here.) -/
def specialisable (as : List (String × Rep)) : Bool :=
  as.length == 2 &&
  match lookupAttr "@" as with
  | none => false
  | some i =>
    (lookupAttr "@value" as).isSome ||
    (match i with
     | .num _ =>
       (lookupAttr "@item" as).isSome ||
       (match lookupAttr "@char" as with | some (.num c) => inRune c | _ => false) ||
       (match lookupAttr "@byte" as with | some (.num b) => inByte b | _ => false)
     | _ => false)

/-- member of the generic bucket (`getBucket() == genericType`): numbers, sets, the empty tuple -/
def genericMember : Rep → Bool
  | .num _ => true
  | .gtuple [] => true
  | r => isSet r

/-- `unionSetSubsetBucket()` of a set representation -/
def bucketOfSet : Rep → Option String
  | .true_ | .generic _ => some "rel.generic"
  | .str _ _ _ => some "rel.StringCharTuple"
  | .bytes _ _ => some "rel.BytesByteTuple"
  | .array _ _ _ => some "rel.ArrayItemTuple"
  | .dict _ => some "rel.DictEntryTuple"
  | .relation names _ => some (", ".intercalate (sortStrs names))
  | _ => none

def headSome {α} : List (Option α) → Bool
  | some _ :: _ => true
  | _ => false
def lastSome {α} : List (Option α) → Bool
  | [] => false
  | [x] => x.isSome
  | _ :: y :: r => lastSome (y :: r)
def headNonneg : List Int → Bool
  | c :: _ => decide (0 ≤ c)
  | _ => false
def lastNonneg : List Int → Bool
  | [] => false
  | [c] => decide (0 ≤ c)
  | _ :: y :: r => lastNonneg (y :: r)

def namesOf (as : List (String × Rep)) : List String := as.map (·.1)

mutual
def wf : Rep → Bool
  | .num _ => true
  | .gtuple as => decide (namesOf as).Nodup && wfAttrs as && !specialisable as
  | .charT _ ch => inRune ch
  | .byteT _ b => inByte b
  | .itemT _ x => wf x
  | .entryT k v => wf k && wf v
  | .empty => true
  | .true_ => true
  | .generic xs =>
    !xs.isEmpty && wfList xs && xs.all genericMember && decide (denList xs).Nodup &&
    !(denList xs == [V.tup []])
  | .str s _ holes =>
    headNonneg s && lastNonneg s && s.all (fun c => decide (-1 ≤ c) && decide (c ≤ 0x10FFFF)) &&
    holes == (s.length : Int) - (strCount s : Int)
  | .bytes b _ => !b.isEmpty && b.all inByte
  | .array vs _ c => headSome vs && lastSome vs && wfOpts vs && c == (optCount vs : Int)
  | .dict m => !m.isEmpty && wfDict m && decide (denList (m.map (·.1))).Nodup
  | .relation names rows =>
    !names.isEmpty && decide names.Nodup && !rows.isEmpty && wfRows names rows &&
    decide (denRows names rows).Nodup
  | .union bs =>
    decide (2 ≤ bs.length) && decide (bs.map (·.1)).Nodup && wfBuckets bs
def wfAttrs : List (String × Rep) → Bool
  | [] => true
  | (_, v) :: r => wf v && wfAttrs r
def wfList : List Rep → Bool
  | [] => true
  | x :: r => wf x && wfList r
def wfOpts : List (Option Rep) → Bool
  | [] => true
  | some x :: r => wf x && wfOpts r
  | none :: r => wfOpts r
def wfDict : List (Rep × List Rep) → Bool
  | [] => true
  | (k, vs) :: r => wf k && !vs.isEmpty && wfList vs && decide (denList vs).Nodup && wfDict r
/-- rows of heading length, values wf, and no row the specialisation rule would have sugared -/
def wfRows (names : List String) : List (List Rep) → Bool
  | [] => true
  | row :: r => row.length == names.length && wfList row && !specialisable (names.zip row) && wfRows names r
def wfBuckets : List (String × Rep) → Bool
  | [] => true
  | (k, s) :: r => wf s && bucketOfSet s == some k && wfBuckets r
end

end Rep

/-! ## `Equal` methods -/
namespace Impl
open Rep

def sortNames (l : List String) : List String := sortStrs l

/-- index of `n` in `names` -/
def rowGet (names : List String) (row : List Rep) (n : String) : Option Rep :=
  lookupAttr n (names.zip row)

/-- frozen `Tree.Equal`: the XOR of the element hashes decides unless it is zero -/
def frozenEq (h h' : HV) (structural : Bool) : Bool := h == h' && (!h.isEmpty || structural)

/-- `Values.Hash(seed)`: `h = hash.Any(val, h)` over the row in sorted-name order -/
def rowChain (rep : Bool) (names sorted : List String) (row : List Rep) : HV :=
  sorted.foldl (fun h n => match rowGet names row n with
    | some v => hashG rep v h
    | none => h) []

def rowsXor (rep : Bool) (names : List String) (rows : List (List Rep)) : HV :=
  rows.foldr (fun row acc => hxor (rowChain rep names (sortNames names) row) acc) []

mutual
/-- `a.Equal(b)`: structural recursion on the receiver; `rep` selects the repaired `Hash` methods -/
def equalG (rep : Bool) : Rep → Rep → Bool
  | .num a, b => (match b with | .num b => a == b | _ => false)
  -- GenericTuple.Equal accepts any Tuple
  | .gtuple as, b => isTuple b && equalAttrsIn rep as b && (tupleNames b).all (fun n => (as.map (·.1)).contains n)
  | .charT ix ch, b => (match b with | .charT ix' ch' => ix == ix' && ch == ch' | _ => false)
  | .byteT ix x, b => (match b with | .byteT ix' x' => ix == ix' && x == x' | _ => false)
  | .itemT ix x, b => (match b with | .itemT ix' y => ix == ix' && equalG rep x y | _ => false)
  | .entryT k v, b => (match b with | .entryT k' v' => equalG rep k k' && equalG rep v v' | _ => false)
  | .empty, b => (match b with | .empty => true | _ => false)
  | .true_, b => (match b with | .true_ => true | _ => false)
  -- GenericSet.Equal: frozen Set.Equal
  | .generic xs, b =>
    (match b with
     | .generic ys => xs.length == ys.length && frozenEq (xorList rep xs) (xorList rep ys) (allIn rep xs ys)
     | _ => false)
  | .str s off holes, b =>
    (match b with
     | .str s' off' holes' => off == off' && holes == holes' && s.length == s'.length && s == s'
     | _ => false)
  | .bytes x off, b => (match b with | .bytes x' off' => off == off' && x == x' | _ => false)
  | .array vs off c, b =>
    (match b with
     | .array vs' off' c' => vs.length == vs'.length && off == off' && c == c' && arrEq rep vs vs'
     | _ => false)
  -- Dict.Equal accepts any Set
  | .dict m, b =>
    (match b with
     | .dict m' => m.length == m'.length && dictAllIn rep m m'
     | b => isSet b && (count b != 0) && (count (.dict m) == count b) &&
            (members b).all (fun e => match asEntry e with
              | some (k', v') => dictHasSingle rep m k' v'
              | none => false))
  | .relation names rows, b =>
    (match b with
     | .relation names' rows' =>
       names.length == names'.length && sortNames names == sortNames names' &&
       rows.length == rows'.length &&
       frozenEq (rowsXor rep names rows) (rowsXor rep names' rows') (rowsAllIn rep names rows names' rows')
     | _ => false)
  | .union bs, b =>
    (match b with
     | .union bs' => bs.length == bs'.length && bucketsAllIn rep bs bs'
     | _ => false)
termination_by structural a _ => a
def equalAttrsIn (rep : Bool) : List (String × Rep) → Rep → Bool
  | [], _ => true
  | (n, v) :: r, b => (match tupleGet b n with | some w => equalG rep v w | none => false) && equalAttrsIn rep r b
termination_by structural a _ => a
/-- structural part of frozen's set comparison: every member found by hash and `Equal` -/
def allIn (rep : Bool) : List Rep → List Rep → Bool
  | [], _ => true
  | x :: r, ys => ys.any (fun y => hashG rep x [] == hashG rep y [] && equalG rep x y) && allIn rep r ys
termination_by structural a _ => a
def arrEq (rep : Bool) : List (Option Rep) → List (Option Rep) → Bool
  | [], _ => true
  | some c :: r, some d :: r' => equalG rep c d && arrEq rep r r'
  | none :: r, none :: r' => arrEq rep r r'
  | _, _ => false
termination_by structural a _ => a
/-- `equalDict`: every key of the receiver is found in `m'` (hash, then `Equal`) with an equal value
(`equalDictValue`: two plain values, or two `multipleValues` compared as frozen sets) -/
def dictAllIn (rep : Bool) : List (Rep × List Rep) → List (Rep × List Rep) → Bool
  | [], _ => true
  | (k, vs) :: r, m' =>
    m'.any (fun kv' => hashG rep k [] == hashG rep kv'.1 [] && equalG rep k kv'.1 &&
      (if vs.length ≤ 1 then kv'.2.length ≤ 1 && valuesEq rep vs kv'.2
       else 2 ≤ kv'.2.length && vs.length == kv'.2.length &&
            frozenEq (xorList rep vs) (xorList rep kv'.2) (allIn rep vs kv'.2)))
    && dictAllIn rep r m'
termination_by structural a _ => a
/-- `d.m.Get(key)` yields a single value equal to `v'` (argument order of the value comparison
flipped w.r.t. Go — `value.Equal(dv)` — to keep the recursion structural; see `equal_symm`) -/
def dictHasSingle (rep : Bool) : List (Rep × List Rep) → Rep → Rep → Bool
  | [], _, _ => false
  | (k, vs) :: r, k', v' =>
    if hashG rep k [] == hashG rep k' [] && equalG rep k k' then singleEq rep vs v' else dictHasSingle rep r k' v'
termination_by structural a _ _ => a
def singleEq (rep : Bool) : List Rep → Rep → Bool
  | [dv], v' => equalG rep dv v'
  | _, _ => false
termination_by structural a _ => a
/-- `Values.equalValues` -/
def valuesEq (rep : Bool) : List Rep → List Rep → Bool
  | [], [] => true
  | x :: r, y :: r' => equalG rep x y && valuesEq rep r r'
  | _, _ => false
termination_by structural a _ => a
/-- structural part of `canonicalRelation().set.Equal`: every row found among the other relation's
rows, columns matched by name (Go projects both sides to sorted-name order first) -/
def rowsAllIn (rep : Bool) (names : List String) : List (List Rep) → List String → List (List Rep) → Bool
  | [], _, _ => true
  | row :: r, names', rows' =>
    rows'.any (fun row' => rowEqByName rep names row names' row') && rowsAllIn rep names r names' rows'
termination_by structural a _ _ => a
def rowEqByName (rep : Bool) : List String → List Rep → List String → List Rep → Bool
  | n :: ns, x :: xs, names', row' =>
    (match rowGet names' row' n with | some y => equalG rep x y | none => false) && rowEqByName rep ns xs names' row'
  | _, _, _, _ => true
termination_by structural _ a _ _ => a
def bucketsAllIn (rep : Bool) : List (String × Rep) → List (String × Rep) → Bool
  | [], _ => true
  | (k, s) :: r, bs' =>
    (match lookupAttr k bs' with | some s' => equalG rep s s' | none => false) && bucketsAllIn rep r bs'
termination_by structural a _ => a
end

/-- the repaired `Equal` -/
abbrev equal := equalG true
/-- `Equal` with the `Hash` methods as they were before the repairs -/
abbrev equalOld := equalG false

end Impl

/-! ## constructors and the operators that must re-establish `wf` -/
namespace Impl
open Rep

/-- outcome of a Go constructor that may panic (unchecked `.(Number)` assertions, pinned by the suite) -/
inductive Res (α : Type) where
  | ok : α → Res α
  | panic : Res α
  deriving Inhabited

/-- `specialTuple` (rel/value_tuple.go, repair #20): the specialised representation of
`(@: ix, name: v)` if there is one that represents it exactly -/
def specialTuple (ix : Rep) (name : String) (v : Rep) : Res (Option Rep) :=
  if name = "@value" then .ok (some (.entryT ix v))
  else if name = "@item" then
    match ix with
    | .num i => .ok (some (.itemT i v))
    | _ => .panic
  else if name = "@char" then
    match ix, v with
    | .num i, .num c => .ok (if inRune c then some (.charT i c) else none)
    | _, _ => .panic
  else if name = "@byte" then
    match ix, v with
    | .num i, .num b => .ok (if inByte b then some (.byteT i b) else none)
    | _, _ => .panic
  else .ok none

/-- before repair #20: `int(...)`, `rune(...)`, `byte(...)` conversions, no range test -/
def specialTupleOld (ix : Rep) (name : String) (v : Rep) : Res (Option Rep) :=
  if name = "@value" then .ok (some (.entryT ix v))
  else if name = "@item" then
    match ix with
    | .num i => .ok (some (.itemT i v))
    | _ => .panic
  else if name = "@char" then
    match ix, v with
    | .num i, .num c => .ok (some (.charT i c))
    | _, _ => .panic
  else if name = "@byte" then
    match ix, v with
    | .num i, .num b => .ok (some (.byteT i (b % 256)))
    | _, _ => .panic
  else .ok none

/-- `NewTuple` / `TupleBuilder.Finish` for attributes with distinct names -/
def newTupleWith (special : Rep → String → Rep → Res (Option Rep)) (as : List (String × Rep)) : Res Rep :=
  match as with
  | [(n1, v1), (n2, v2)] =>
    if n1 = "@" then
      match special v1 n2 v2 with
      | .ok (some t) => .ok t
      | .ok none => .ok (.gtuple as)
      | .panic => .panic
    else if n2 = "@" then
      match special v2 n1 v1 with
      | .ok (some t) => .ok t
      | .ok none => .ok (.gtuple as)
      | .panic => .panic
    else .ok (.gtuple as)
  | _ => .ok (.gtuple as)

def newTuple := newTupleWith specialTuple
def newTupleOld := newTupleWith specialTupleOld

/-- `asGenericTuple` / `Enumerator` of a tuple -/
def attrsOf : Rep → List (String × Rep)
  | .gtuple as => as
  | .charT i c => [("@", .num i), ("@char", .num c)]
  | .byteT i b => [("@", .num i), ("@byte", .num b)]
  | .itemT i x => [("@", .num i), ("@item", x)]
  | .entryT k v => [("@", k), ("@value", v)]
  | _ => []

/-- frozen map `With` on an enumeration -/
def setAttr (n : String) (v : Rep) : List (String × Rep) → List (String × Rep)
  | [] => [(n, v)]
  | (m, w) :: r => if n = m then (m, v) :: r else (m, w) :: setAttr n v r

/-- `maybeNew<Kind>TupleFromTuple`: the matcher-based, non-panicking re-specialisation each
specialised tuple type applies after `With` (only to its own kind) -/
def maybeOwnKind (kind : String) (as : List (String × Rep)) : Rep :=
  match as with
  | [(n1, v1), (n2, v2)] =>
    let go (i v : Rep) (n : String) : Rep :=
      if n = kind then
        if kind = "@value" then .entryT i v
        else match i with
          | .num ix =>
            if kind = "@item" then .itemT ix v
            else match v with
              | .num c =>
                if kind = "@char" && inRune c then .charT ix c
                else if kind = "@byte" && inByte c then .byteT ix c
                else .gtuple as
              | _ => .gtuple as
          | _ => .gtuple as
      else .gtuple as
    if n1 = "@" then go v1 v2 n2 else if n2 = "@" then go v2 v1 n1 else .gtuple as
  | _ => .gtuple as

/-- `Tuple.With(name, value)` (the `&name` view stripping is outside the data fragment) -/
def tupleWith (t : Rep) (n : String) (v : Rep) : Rep :=
  match t with
  | .gtuple as => .gtuple (setAttr n v as)          -- GenericTuple.With never specialises
  | .charT _ _ => maybeOwnKind "@char" (setAttr n v (attrsOf t))
  | .byteT _ _ => maybeOwnKind "@byte" (setAttr n v (attrsOf t))
  | .itemT _ _ => maybeOwnKind "@item" (setAttr n v (attrsOf t))
  | .entryT _ _ => maybeOwnKind "@value" (setAttr n v (attrsOf t))
  | r => r

/-- `MergeLeftToRight(t, u)` before the repair: accumulate with `With` -/
def mergeLeftToRightOld (t u : Rep) : Rep :=
  (attrsOf u).foldl (fun acc nv => tupleWith acc nv.1 nv.2) t

/-- repaired: `Canonical()` on a generic result -/
def mergeLeftToRight (t u : Rep) : Res Rep :=
  match mergeLeftToRightOld t u with
  | .gtuple as => newTuple as
  | r => .ok r

/-! ### strings -/

def countNeg (s : List Int) : Int := ((s.filter (fun c => decide (c < 0))).length : Int)

/-- `NewOffsetString` -/
def newOffsetString (s : List Int) (off : Int) : Rep :=
  if s.isEmpty then .empty else .str s off (countNeg s)

def dropLeadingNeg : List Int → Int → Int → (List Int × Int × Int)
  | c :: r, off, holes => if c < 0 then dropLeadingNeg r (off + 1) (holes - 1) else (c :: r, off, holes)
  | [], off, holes => ([], off, holes)

/-- drop trailing holes: the trimmed list and the number of holes dropped -/
def trimBackNeg : List Int → (List Int × Int)
  | [] => ([], 0)
  | c :: r =>
    match trimBackNeg r with
    | ([], k) => if c < 0 then ([], k + 1) else ([c], k)
    | (r', k) => (c :: r', k)

def dropTrailingNeg (s : List Int) (holes : Int) : (List Int × Int) :=
  ((trimBackNeg s).1, holes - (trimBackNeg s).2)

/-- `String.trimHoles` (repair #4) -/
def strTrimHoles (s : List Int) (off holes : Int) : (List Int × Int × Int) :=
  let (s1, off1, h1) := dropLeadingNeg s off holes
  let (s2, h2) := dropTrailingNeg s1 h1
  (s2, off1, h2)

/-- the three removal cases of `String.Without(StringCharTuple{at, ch})`, before trimming -/
def strStage1 (s : List Int) (off holes : Int) (ix ch : Int) : (List Int × Int × Int) :=
  let pos := ix - off
  let i : Int := if 0 ≤ pos && pos ≤ s.length then pos else -1
  let n : Int := s.length
  if i == 0 && s.head? == some ch then (s.tail, off + 1, holes)
  else if i == n - 1 && s.getLast? == some ch then (s.dropLast, off, holes)
  else if 0 < i && i < n - 1 && s[i.toNat]? == some ch then (s.set i.toNat (-1), off, holes + 1)
  else (s, off, holes)

/-- `s = s.trimHoles()` (repaired only) and the final `Count() == 0` test -/
def strFinishG (trim : Bool) (t : List Int × Int × Int) : Rep :=
  let u := if trim then strTrimHoles t.1 t.2.1 t.2.2 else t
  if (u.1.length : Int) - u.2.2 == 0 then .empty else .str u.1 u.2.1 u.2.2

/-- `String.Without`; `trim` selects the repaired function -/
def strWithoutG (trim : Bool) (s : List Int) (off holes : Int) (ix ch : Int) : Rep :=
  strFinishG trim (strStage1 s off holes ix ch)

def strWithout := strWithoutG true
def strWithoutOld := strWithoutG false

/-- `asString(values...)` for `StringCharTuple` values given as (at, char) pairs, in order -/
def asString (ts : List (Int × Int)) : Rep :=
  match ts with
  | [] => .empty
  | (a0, _) :: _ =>
    let minAt := ts.foldl (fun m t => if t.1 < m then t.1 else m) a0
    let maxAt := ts.foldl (fun m t => if m < t.1 then t.1 else m) a0
    let blank : List Int := List.replicate (maxAt - minAt + 1).toNat (-1)
    let s := ts.foldl (fun acc t => acc.set (t.1 - minAt).toNat t.2) blank
    .str s minAt (countNeg s)      -- counts the holes that are left (c05's repair; before: len - n)

/-! ### arrays -/

def dropLeadingNone {α} : List (Option α) → Int → (List (Option α) × Int)
  | none :: r, off => dropLeadingNone r (off + 1)
  | l, off => (l, off)

def dropTrailingNone {α} : List (Option α) → List (Option α)
  | [] => []
  | x :: r =>
    match dropTrailingNone r with
    | [] => (match x with | none => [] | some _ => [x])
    | r' => x :: r'

/-- `NewOffsetArray(offset, values...)`: trims holes from both ends, counts -/
def newOffsetArray (off : Int) (vs : List (Option Rep)) : Rep :=
  let (v1, off1) := dropLeadingNone vs off
  let v2 := dropTrailingNone v1
  if v2.isEmpty then .empty else .array v2 off1 (optCount v2)

/-- `Array.Without(ArrayItemTuple{at, item})`; `trim` selects the repaired function -/
def arrWithoutG (trim : Bool) (vs : List (Option Rep)) (off c : Int) (ix : Int) (item : Rep) : Rep :=
  let i := ix - off
  if 0 ≤ i && i < vs.length then
    match vs[i.toNat]? with
    | some (some v) =>
      if equal v item then
        if ix == off then
          (if trim then newOffsetArray (off + 1) vs.tail else .array vs.tail (off + 1) (c - 1))
        else if ix == off + vs.length - 1 then
          (if trim then newOffsetArray off vs.dropLast else .array vs.dropLast off (c - 1))
        else if c - 1 > 0 then .array (vs.set i.toNat none) off (c - 1) else .empty
      else .array vs off c
    | _ => .array vs off c
  else .array vs off c

def arrWithout := arrWithoutG true
def arrWithoutOld := arrWithoutG false

/-- `asArray(values...)` for `ArrayItemTuple` values given as (at, item) pairs, in order -/
def asArray (ts : List (Int × Rep)) : Rep :=
  match ts with
  | [] => .empty
  | (a0, _) :: _ =>
    let minAt := ts.foldl (fun m t => if t.1 < m then t.1 else m) a0
    let maxAt := ts.foldl (fun m t => if m < t.1 then t.1 else m) a0
    let blank : List (Option Rep) := List.replicate (maxAt - minAt + 1).toNat none
    let vs := ts.foldl (fun acc t => acc.set (t.1 - minAt).toNat (some t.2)) blank
    .array vs minAt (optCount vs)

/-- `asBytes(values...)`: holes are filled with 0 (KF-bytes-holes) -/
def asBytes (ts : List (Int × Int)) : Rep :=
  match ts with
  | [] => .empty
  | (a0, _) :: _ =>
    let minAt := ts.foldl (fun m t => if t.1 < m then t.1 else m) a0
    let maxAt := ts.foldl (fun m t => if m < t.1 then t.1 else m) a0
    let blank : List Int := List.replicate (maxAt - minAt + 1).toNat 0
    .bytes (ts.foldl (fun acc t => acc.set (t.1 - minAt).toNat t.2) blank) minAt

/-! ### sets -/

/-- frozen membership: same hash and `Equal` -/
def memFrozen (x : Rep) (ys : List Rep) : Bool := ys.any (fun y => hashKey y == hashKey x && equal y x)

/-- a frozen `SetBuilder`: later duplicates are dropped -/
def dedupFrozen (xs : List Rep) : List Rep :=
  (xs.foldl (fun acc x => if memFrozen x acc then acc else x :: acc) []).reverse

/-- `newSetFromFrozenSet` -/
def newSetFromFrozenSet (xs : List Rep) : Rep :=
  match xs with
  | [] => .empty
  | [.gtuple []] => .true_
  | _ => .generic xs

def genericSetFinish (xs : List Rep) : Rep := newSetFromFrozenSet (dedupFrozen xs)

/-- `NewDict(true, entries...)` -/
def newDict (es : List (Rep × Rep)) : Rep :=
  let add (m : List (Rep × List Rep)) (e : Rep × Rep) : List (Rep × List Rep) :=
    if m.any (fun kv => hashKey kv.1 == hashKey e.1 && equal kv.1 e.1) then
      m.map (fun kv => if hashKey kv.1 == hashKey e.1 && equal kv.1 e.1
                       then (kv.1, if memFrozen e.2 kv.2 then kv.2 else kv.2 ++ [e.2]) else kv)
    else m ++ [(e.1, [e.2])]
  match es.foldl add [] with
  | [] => .empty
  | m => .dict m

/-- `Dict.CallAll` / `{a: 1}(b)`: the values stored under a key found by hash and `Equal` -/
def dictGet (d : Rep) (k : Rep) : List Rep :=
  match d with
  | .dict m => (m.filter (fun kv => hashKey kv.1 == hashKey k && equal kv.1 k)).flatMap (·.2)
  | _ => []

/-- `getBucket().String()` -/
def bucketOf : Rep → String
  | .charT _ _ => "rel.StringCharTuple"
  | .byteT _ _ => "rel.BytesByteTuple"
  | .itemT _ _ => "rel.ArrayItemTuple"
  | .entryT _ _ => "rel.DictEntryTuple"
  | .gtuple [] => "rel.generic"
  | .gtuple as => ", ".intercalate (sortStrs (namesOf as))
  | _ => "rel.generic"

/-- `relationBuilder`: heading = sorted names of the first tuple; `MustGet` panics on a tuple of
another heading that landed in the same bucket (KF-relation-bucket) -/
def relationFinish (ts : List Rep) : Res Rep :=
  match ts with
  | [] => .ok .empty
  | t :: _ =>
    let names := sortStrs (namesOf (attrsOf t))
    let rows : List (Option (List Rep)) := ts.map (fun t => names.mapM (fun n => tupleGet t n))
    if rows.all Option.isSome then
      let rs := rows.filterMap id
      let dedup := (rs.foldl (fun acc r =>
        if acc.any (fun r' => valuesEq true r' r) then acc else r :: acc) []).reverse
      .ok (.relation names dedup)
    else .panic

def bucketFinish (bucket : String) (vs : List Rep) : Res Rep :=
  if bucket = "rel.generic" then .ok (genericSetFinish vs)
  else if bucket = "rel.StringCharTuple" then
    .ok (asString (vs.filterMap (fun v => match v with | .charT i c => some (i, c) | _ => none)))
  else if bucket = "rel.BytesByteTuple" then
    .ok (asBytes (vs.filterMap (fun v => match v with | .byteT i c => some (i, c) | _ => none)))
  else if bucket = "rel.ArrayItemTuple" then
    .ok (asArray (vs.filterMap (fun v => match v with | .itemT i x => some (i, x) | _ => none)))
  else if bucket = "rel.DictEntryTuple" then
    .ok (newDict (vs.filterMap (fun v => match v with | .entryT k x => some (k, x) | _ => none)))
  else relationFinish vs

/-- group by bucket, buckets in order of first appearance -/
def groupBuckets (vs : List Rep) : List (String × List Rep) :=
  vs.foldl (fun acc v =>
    let b := bucketOf v
    if acc.any (fun p => p.1 == b) then acc.map (fun p => if p.1 == b then (p.1, p.2 ++ [v]) else p)
    else acc ++ [(b, [v])]) []

/-- `NewSet(values...)` = `SetBuilder.Add*` + `SetBuilder.Finish` -/
def setBuilderFinish (vs : List Rep) : Res Rep :=
  match groupBuckets vs with
  | [] => .ok .empty
  | [(b, xs)] => bucketFinish b xs
  | groups =>
    let rec go : List (String × List Rep) → Res (List (String × Rep))
      | [] => .ok []
      | (b, xs) :: r =>
        match bucketFinish b xs, go r with
        | .ok s, .ok rest => .ok ((b, s) :: rest)
        | _, _ => .panic
    match go groups with
    | .ok bs => .ok (.union bs)
    | .panic => .panic

/-! ### the canonical representation of a denotation (what the constructors build from scratch) -/
mutual
def build : V → Res Rep
  | .num n => .ok (.num n)
  | .tup as =>
    match buildAttrs as with
    | .ok ras => newTuple ras
    | .panic => .panic
  | .set xs =>
    match buildList xs with
    | .ok rs => setBuilderFinish rs
    | .panic => .panic
def buildAttrs : List (String × V) → Res (List (String × Rep))
  | [] => .ok []
  | (n, v) :: r =>
    match build v, buildAttrs r with
    | .ok x, .ok rest => .ok ((n, x) :: rest)
    | _, _ => .panic
def buildList : List V → Res (List Rep)
  | [] => .ok []
  | v :: r =>
    match build v, buildList r with
    | .ok x, .ok rest => .ok (x :: rest)
    | _, _ => .panic
end

end Impl

end Arrai.C02
