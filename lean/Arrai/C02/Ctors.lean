/-
  C02 — the modelled constructors return canonical forms of the intended denotation:
  bounded-exhaustive statements (every input up to a size bound over a small alphabet), evaluated
  by the kernel (`decide`).  Core-only.
-/
import Arrai.C02.Model

namespace Arrai.C02
open Arrai Arrai.C02.Rep Arrai.C02.Impl

def allLists {α} (alpha : List α) : Nat → List (List α)
  | 0 => [[]]
  | n + 1 => [] :: (alpha.flatMap (fun a => (allLists alpha n).map (a :: ·)))

def veq (a b : V) : Bool := decide (a = b)

def okWith (p : Rep → Bool) : Res Rep → Bool
  | .ok r => p r
  | .panic => false

/-- the specification of `s without v` on denotations -/
def specWithout (members : List V) (v : V) : V := .set (members.filter (fun m => !veq m v))

/-- `String.Without` (repaired) on every canonical string of length ≤ n over {hole, 'a', 'b'}, offsets 0 and 2,
every index around it and both letters: canonical result with exactly the member removed -/
def strWithoutOk (trim : Bool) (n : Nat) : Bool :=
  (allLists [-1, 97, 98] n).all (fun s =>
    [0, 2].all (fun off =>
      !wf (.str s off (countNeg s)) ||
      [-1, 0, 1, 2, 3, 4, 5, 6].all (fun ix => [97, 98].all (fun ch =>
        let r := strWithoutG trim s off (countNeg s) ix ch
        wf r && veq (den r) (specWithout (strMembers off s) (vpair "@char" (.num ix) (.num ch)))))))

/-- `Array.Without` (repaired) on every canonical array of length ≤ n over {hole, 1, {}} -/
def arrWithoutOk (trim : Bool) (n : Nat) : Bool :=
  (allLists [none, some (Rep.num 1), some Rep.empty] n).all (fun vs =>
    [0, 2].all (fun off =>
      !wf (.array vs off (optCount vs)) ||
      [-1, 0, 1, 2, 3, 4, 5, 6].all (fun ix => [Rep.num 1, Rep.empty].all (fun item =>
        let r := arrWithoutG trim vs off (optCount vs) ix item
        wf r && veq (den r) (specWithout (arrMembers off (denOpts vs)) (vpair "@item" (.num ix) (den item)))))))

/-- `NewOffsetArray` trims and counts: any list of length ≤ n over {hole, 1, {}} -/
def newOffsetArrayOk (n : Nat) : Bool :=
  (allLists [none, some (Rep.num 1), some Rep.empty] n).all (fun vs =>
    [0, -1].all (fun off =>
      let r := newOffsetArray off vs
      wf r && veq (den r) (V.mkSet (arrMembers off (denOpts vs)))))

/-- `NewOffsetString` on lists without holes at the ends (what its callers pass) -/
def newOffsetStringOk (n : Nat) : Bool :=
  (allLists [-1, 97, 98] n).all (fun s =>
    !(s.isEmpty || (headNonneg s && lastNonneg s)) ||
    [0, 3].all (fun off =>
      let r := newOffsetString s off
      wf r && veq (den r) (V.mkSet (strMembers off s))))

def smallAttrs : List (String × Rep) :=
  [("@", .num 0), ("@", .empty), ("@char", .num 97), ("@char", .num (-1)), ("@byte", .num 300), ("@byte", .num 7),
   ("@item", .empty), ("@value", .num 1), ("a", .num 1)]

def distinctNames (as : List (String × Rep)) : Bool := decide (namesOf as).Nodup

/-- `NewTuple`/`TupleBuilder.Finish` (repair #20): unless Go panics (non-number `@`/`@char`/`@byte` under a sugar
heading, pinned by the suite) the result is canonical and denotes the attributes given -/
def newTupleOk (n : Nat) : Bool :=
  (allLists smallAttrs n).all (fun as =>
    !distinctNames as ||
    match newTuple as with
    | .ok r => wf r && veq (den r) (V.mkTup (denAttrs as))
    | .panic => true)

/-- `+>` (repaired): canonical, right operand wins -/
def mergeOk (n : Nat) : Bool :=
  (allLists smallAttrs n).all (fun as => (allLists smallAttrs n).all (fun bs =>
    !(distinctNames as && distinctNames bs) ||
    match newTuple as, newTuple bs with
    | .ok t, .ok u =>
      (match mergeLeftToRight t u with
       | .ok r => wf r && veq (den r) (V.mkTup (denAttrs (bs ++ as.filter (fun p => !(namesOf bs).contains p.1))))
       | .panic => true)
    | _, _ => true))

/-- members of every bucket except the relation buckets (their bucket key is a sorted, joined string, which
the kernel does not evaluate; relations are covered by the correspondence run) -/
def smallMembers : List Rep :=
  [.num 1, .num 2, .empty, .true_, .str [97] 0 0, .gtuple [], .charT 0 97, .charT 1 98, .byteT 0 1,
   .itemT 0 (.num 1), .itemT 2 .empty, .entryT (.num 1) (.num 2), .entryT .empty (.num 2)]

/-- `NewSet` = `SetBuilder.Add*` + `Finish` on every list of ≤ n members (repeats allowed, any order):
bucket routing, asString/asArray/asBytes/NewDict/relation builder, union of buckets -/
def dupChar (ms : List Rep) : Bool :=
  let cs := ms.filterMap (fun m => match m with | .charT i c => some (i, c) | _ => none)
  cs.eraseDups.length != cs.length

def setBuilderOk (n : Nat) : Bool :=
  (allLists smallMembers n).all (fun ms =>
    okWith (fun r => wf r && veq (den r) (V.mkSet (denList ms))) (setBuilderFinish ms))

/-- the canonical representation built from a denotation denotes it (`build` = the constructors applied
bottom-up); `vs` = some small denotations -/
def buildOk (vs : List V) : Bool :=
  vs.all (fun v => okWith (fun r => wf r && veq (den r) v) (build v))

end Arrai.C02
