/-
  C02 case generator: pairs of *different construction paths* (arr.ai programs) for one target
  denotation, the observables the specification demands of an equal pair, and the observables the
  model (`Impl.equal`/`hashKey`/constructors on the canonical representations) predicts.
  Negative pairs: near-miss targets with different denotations.
-/
import Arrai.C02.Model
import Arrai.Core.Lit

namespace Arrai.C02
open Arrai Arrai.Lit Arrai.C02.Rep Arrai.C02.Impl

/-! ## plain source of a denotation (explicit tuples and braces only) -/
mutual
def plain : V → String
  | .num n => numSrc n
  | .tup as => "(" ++ ", ".intercalate (plainAttrs as) ++ ")"
  | .set xs => "{" ++ ", ".intercalate (plainList xs) ++ "}"
def plainAttrs : List (String × V) → List String
  | [] => []
  | (n, v) :: r => (nameSrc n ++ ": " ++ plain v) :: plainAttrs r
def plainList : List V → List String
  | [] => []
  | v :: r => plain v :: plainList r
end

/-! ## shapes of a canonical set -/

/-- `(@: i, name: x)` with `i` a number -/
def asIdx (name : String) : V → Option (Int × V)
  | .tup [("@", .num i), (n, x)] => if n = name then some (i, x) else none
  | _ => none

def asSeq (name : String) (ms : List V) : Option (List (Int × V)) := ms.mapM (asIdx name)

def asEntryV : V → Option (V × V)
  | .tup [("@", k), ("@value", x)] => some (k, x)
  | _ => none

def namesOfV : V → Option (List String)
  | .tup as => some (as.map (·.1))
  | _ => none

def isRuneV : V → Bool
  | .num c => decide (32 ≤ c) && decide (c < 127)
  | _ => false
def isByteV : V → Bool
  | .num c => decide (0 ≤ c) && decide (c ≤ 255)
  | _ => false
def numOf : V → Int
  | .num n => n
  | _ => 0

inductive Shape where
  | str (ps : List (Int × V))
  | bytes (ps : List (Int × V))
  | arr (ps : List (Int × V))
  | dict (es : List (V × V))
  | rel (names : List String) (rows : List (List V))
  | other

def distinctIdx (ps : List (Int × V)) : Bool := (ps.map (·.1)).eraseDups.length == ps.length

def shapeOf (ms : List V) : Shape :=
  if ms.isEmpty then .other else
  match asSeq "@char" ms with
  | some ps => if ps.all (fun p => isRuneV p.2) && distinctIdx ps then .str ps else .other
  | none =>
  match asSeq "@byte" ms with
  | some ps => if ps.all (fun p => isByteV p.2) && distinctIdx ps then .bytes ps else .other
  | none =>
  match asSeq "@item" ms with
  | some ps => if distinctIdx ps then .arr ps else .other
  | none =>
  match ms.mapM asEntryV with
  | some es => if (es.map (·.1)).eraseDups.length == es.length then .dict es else .other
  | none =>
  match ms with
  | .tup (a :: as) :: _ =>
    let names := (a :: as).map (·.1)
    if ms.all (fun m => namesOfV m == some names) && names.all (fun n => !n.startsWith "@") then
      .rel names (ms.map (fun m => match m with | .tup as => as.map (·.2) | _ => []))
    else .other
  | _ => .other

def dense (ps : List (Int × V)) : Bool :=
  match ps with
  | [] => true
  | (i0, _) :: _ => (ps.zipIdx.all (fun p => p.1.1 == i0 + p.2))

/- some (sub-)set holds two members `(@: i, @x: _)` with the same index and second name
(KF-superimposed); decidable on the specification value -/
mutual
def superimposed : V → Bool
  | .num _ => false
  | .tup as => superimposedAttrs as
  | .set xs =>
    superimposedList xs ||
    ["@char", "@byte", "@item"].any (fun nm =>
      let idx := xs.filterMap (fun m => (asIdx nm m).map (·.1))
      idx.eraseDups.length != idx.length)
def superimposedAttrs : List (String × V) → Bool
  | [] => false
  | (_, v) :: r => superimposed v || superimposedAttrs r
def superimposedList : List V → Bool
  | [] => false
  | v :: r => superimposed v || superimposedList r
end

/- number of byte-array-shaped sets inside a value (Bytes.Less panics on a second one: C06's repair) -/
mutual
def bytesCount : V → Nat
  | .num _ => 0
  | .tup as => bytesCountAttrs as
  | .set xs => (match shapeOf xs with | .bytes _ => 1 | _ => 0) + bytesCountList xs
def bytesCountAttrs : List (String × V) → Nat
  | [] => 0
  | (_, v) :: r => bytesCount v + bytesCountAttrs r
def bytesCountList : List V → Nat
  | [] => 0
  | v :: r => bytesCount v + bytesCountList r
end

def isBytesV : V → Bool
  | .set xs => (match shapeOf xs with | .bytes _ => true | _ => false)
  | _ => false

/-! ## inputs on which the (unrepaired) `Less` methods are not a strict weak order — C06's findings.
Printing sorts the members of a set / the keys of a dict / the rows of a relation with `Less`, so two
equal values may print differently there.  Decidable on the specification value. -/

def isEmptyOrTrue : V → Bool
  | .set [] => true
  | .set [.tup []] => true
  | _ => false
def isTupV : V → Bool
  | .tup _ => true
  | _ => false
def strContent : V → Option (List Int)
  | .set ms => (match shapeOf ms with | .str ps => some (ps.map (fun p => numOf p.2)) | _ => none)
  | _ => none
def isRelV : V → Bool
  | .set ms => (match shapeOf ms with | .rel _ _ => true | .other => ms.any isTupV | _ => false)
  | _ => false

/-- values that are compared with each other when `.set ms` is printed -/
def sortGroups (ms : List V) : List (List V) :=
  match shapeOf ms with
  | .str _ | .bytes _ | .arr _ => []
  | .dict es => [es.map (·.1)]
  | .rel names rows => (List.range names.length).map (fun i => rows.map (fun r => r.getD i (V.num 0)))
  | .other => [ms]

/- every value inside a value (itself, attribute values, members): `Less` on two composites of the same kind
descends into corresponding parts -/
mutual
def descendants : V → List V
  | .num n => [.num n]
  | .tup as => .tup as :: descendantsAttrs as
  | .set xs => .set xs :: descendantsList xs
def descendantsAttrs : List (String × V) → List V
  | [] => []
  | (_, v) :: r => descendants v ++ descendantsAttrs r
def descendantsList : List V → List V
  | [] => []
  | v :: r => descendants v ++ descendantsList r
end

def groupTrap (g : List V) : Bool :=
  g.length ≥ 2 &&
  (let ds := descendantsList g
   (ds.any isEmptyOrTrue && ds.any isTupV) ||
   (let cs := ds.filterMap strContent; cs.eraseDups.length != cs.length) ||
   ((ds.filter isRelV).length ≥ 2))

mutual
def lessTrap : V → Bool
  | .num _ => false
  | .tup as => lessTrapAttrs as
  | .set xs => (sortGroups xs).any groupTrap || lessTrapList xs
def lessTrapAttrs : List (String × V) → Bool
  | [] => false
  | (_, v) :: r => lessTrap v || lessTrapAttrs r
def lessTrapList : List V → Bool
  | [] => false
  | v :: r => lessTrap v || lessTrapList r
end

/- byte-array-shaped sets with a gap (asBytes fills it with 0: KF-bytes-holes) -/
mutual
def bytesHoles : V → Bool
  | .num _ => false
  | .tup as => bytesHolesAttrs as
  | .set xs => (match shapeOf xs with | .bytes ps => !dense ps | _ => false) || bytesHolesList xs
def bytesHolesAttrs : List (String × V) → Bool
  | [] => false
  | (_, v) :: r => bytesHoles v || bytesHolesAttrs r
def bytesHolesList : List V → Bool
  | [] => false
  | v :: r => bytesHoles v || bytesHolesList r
end

/- an item or entry tuple directly inside an item or entry tuple (also: as an array item or a dictionary key or
value): `ArrayItemTuple.Hash`/`DictEntryTuple.Hash` used to thread the seed through unfinished, so differently
nested tuples hashed alike under every seed (repaired; the predicate only names the stratum of the corpus cases) -/
def isThreadTup : V → Bool
  | .tup [("@", _), ("@item", _)] => true
  | .tup [("@", _), ("@value", _)] => true
  | _ => false
mutual
def threaded : V → Bool
  | .num _ => false
  | .tup as => (isThreadTup (.tup as) && as.any (fun p => isThreadTup p.2)) || threadedAttrs as
  | .set xs => threadedList xs
def threadedAttrs : List (String × V) → Bool
  | [] => false
  | (_, v) :: r => threaded v || threadedAttrs r
def threadedList : List V → Bool
  | [] => false
  | v :: r => threaded v || threadedList r
end

/-- a set whose tuple members have two or more different headings: a UnionSet with two relation
buckets, on which UnionSet.Less panics ("comparing uncomparable type rel.Relation") -/
def twoHeadings (ms : List V) : Bool :=
  match shapeOf ms with
  | .other => ((ms.filterMap (fun m => match m with
      | .tup (a :: as) => some ((a :: as).map (·.1))
      | _ => none)).eraseDups.length ≥ 2)
  | _ => false

mutual
def unionRelCount : V → Nat
  | .num _ => 0
  | .tup as => unionRelCountAttrs as
  | .set xs => (if twoHeadings xs then 1 else 0) + unionRelCountList xs
def unionRelCountAttrs : List (String × V) → Nat
  | [] => 0
  | (_, v) :: r => unionRelCount v + unionRelCountAttrs r
def unionRelCountList : List V → Nat
  | [] => 0
  | v :: r => unionRelCount v + unionRelCountList r
end

/-! ## random helpers -/

def shuffle {α} [Inhabited α] (l : List α) : Gen (List α) := do
  let mut pool := l
  let mut out := []
  for _ in [0:l.length] do
    let i ← rand pool.length
    out := pool.getD i default :: out
    pool := pool.eraseIdx i
  pure out

def splitAtRand {α} (l : List α) : Gen (List α × List α) := do
  let k ← rand (l.length + 1)
  pure (l.take k, l.drop k)

/-- path state: `kf` collects known-finding classes the chosen path runs into -/
structure PState where
  kf : List String := []

abbrev PGen := StateT PState Gen

def liftG {α} (g : Gen α) : PGen α := fun s => do let a ← g; pure (a, s)
def flag (k : String) : PGen Unit := modify (fun s => { s with kf := k :: s.kf })

def strLit (cs : List Int) : String := "'" ++ String.join (cs.map (fun c => charSrc c.toNat)) ++ "'"

def shiftPs (k : Int) (ps : List (Int × V)) : List (Int × V) := ps.map (fun p => (p.1 + k, p.2))

def seqV (name : String) (ps : List (Int × V)) : V :=
  V.mkSet (ps.map (fun p => V.mkTup [("@", .num p.1), (name, p.2)]))

def relV (names : List String) (rows : List (List V)) : V :=
  V.mkSet (rows.map (fun r => V.mkTup (names.zip r)))

def freshNum (used : List V) : Int :=
  let cand : List Int := [7, 8, 9, 10, 11, 12, 13, 14, 15, 16, 17, 18, 19, 20, 21]
  (cand.find? (fun n => !used.contains (V.num n))).getD 99

/-! ## construction paths -/

/-- source of a program whose value is the canonical denotation `v`; `d` bounds the nesting of
operator paths (at 0: literals only) -/
def genPath : Nat → V → PGen String
  | 0, v => pure (plain v)
  | d + 1, v =>
    match v with
    | .num n => do
      let r ← liftG (rand 6)
      match r with
      | 0 => pure s!"({numSrc (n - 1)} + 1)"
      | 1 => pure s!"(2 * {numSrc n} / 2)"
      | 2 => do
        let k ← liftG (randInt (-2) 3)
        pure s!"({numSrc k} + {numSrc (n - k)})"
      | _ => pure (numSrc n)
    | .tup as => genTuple d as
    | .set [] => do
      let r ← liftG (rand 6)
      pure (match r with
        | 0 => "false" | 1 => "({1} &~ {1})" | 2 => "({1} where . = 2)" | 3 => "(1 = 2)" | _ => "{}")
    | .set [.tup []] => do
      let r ← liftG (rand 6)
      pure (match r with
        | 0 => "true" | 1 => "{()}" | 2 => "(1 = 1)" | 3 => "({(a: 1)} => ())" | 4 => "({} with ())" | _ => "true")
    | .set ms => genSet d ms
where
  /-- members as paths, separated -/
  elems (d : Nat) (xs : List V) : PGen (List String) := xs.mapM (genPath d)

  genTuple (d : Nat) (as : List (String × V)) : PGen String := do
    let lit (as : List (String × V)) : PGen String := do
      let sh ← liftG (shuffle as)
      let parts ← sh.mapM (fun nv => do pure (nameSrc nv.1 ++ ": " ++ (← genPath d nv.2)))
      pure ("(" ++ ", ".intercalate parts ++ ")")
    let r ← liftG (rand 8)
    if as.isEmpty then
      pure (if r < 2 then "(() +> ())" else "()")
    else if r < 2 then
      -- left +> right; the right side overrides a junk value on the left for shared names
      let (l, rt) ← liftG (splitAtRand as)
      let ov ← liftG (chance 1 3)
      let l' := if ov then match rt with | (n, _) :: _ => l ++ [(n, V.num 41)] | [] => l else l
      pure s!"({← lit l'} +> {← lit rt})"
    else if r == 2 then
      -- projection of a wider tuple
      let extra := if as.any (fun p => p.1 == "zz") then "zy" else "zz"
      let names := ", ".intercalate (as.map (fun p => nameSrc p.1))
      pure s!"{← lit (as ++ [(extra, V.num 5)])}.|{names}|"
    else lit as

  /-- generic constructions that work for every non-empty set -/
  genAnySet (d : Nat) (ms : List V) (kind : String) : PGen String := do
    let seqLike := kind != ""
    let r ← liftG (rand 10)
    let braces (xs : List V) : PGen String := do
      let sh ← liftG (shuffle xs)
      pure ("{" ++ ", ".intercalate (← elems d sh) ++ "}")
    match r with
    | 0 | 1 => do
      -- braces with one member written twice (by two paths)
      let dup ← liftG (pick ms)
      -- asString does not expect the same member twice (c05's repair)
      if kind == "@char" then flag "KF-string-dup-member"
      let sh ← liftG (shuffle (dup :: ms))
      pure ("{" ++ ", ".intercalate (← elems d sh) ++ "}")
    | 2 => do
      -- union of two overlapping parts (generic members only: C01 owns `|` on sequences)
      if seqLike then braces ms else
      let (a, b) ← liftG (splitAtRand ms)
      let ov ← liftG (pick ms)
      let a' := if a.isEmpty then [ov] else a
      let twice ← liftG (chance 1 2)
      let b' := if b.isEmpty then [ov] else (if twice then ov :: b else b)
      pure s!"({← braces a'} | {← braces b'})"
    | 3 => do
      -- where: filter a superset
      let e := V.num (freshNum ms)
      pure s!"({← braces (e :: ms)} where . != {plain e})"
    | 4 => do
      -- map an array / a relation onto it
      let sh ← liftG (shuffle ms)
      if (← liftG (chance 1 2)) then
        pure s!"([{", ".intercalate (← elems d sh)}] => .@item)"
      else
        let rows ← sh.mapM (fun m => do pure s!"({← genPath d m})")
        pure ("({|k| " ++ ", ".intercalate rows ++ "} => .k)")
    | 5 => do
      -- with / without
      if seqLike then braces ms else
      if (← liftG (chance 1 2)) then
        let e := V.num (freshNum ms)
        pure s!"({← braces (e :: ms)} without {plain e})"
      else
        match ms with
        | m :: rest =>
          if rest.isEmpty then pure s!"(\{} with {← genPath d m})"
          else pure s!"({← braces rest} with {← genPath d m})"
        | [] => pure "{}"
    | 6 => do
      -- intersection / difference of supersets
      if seqLike then braces ms else
      let e1 := V.num (freshNum ms)
      let e2 := V.num (freshNum (e1 :: ms))
      if (← liftG (chance 1 2)) then pure s!"({← braces (e1 :: ms)} & {← braces (e2 :: ms)})"
      else pure s!"({← braces (e1 :: e2 :: ms)} &~ \{{plain e1}, {plain e2}})"
    | _ => braces ms

  /-- a sequence given by its (index, element) pairs in increasing index order -/
  genSeq (d : Nat) (name : String) (ps : List (Int × V)) : PGen String := do
    let elemSrc (x : V) : PGen String := genPath d x
    let lit (ps : List (Int × V)) : PGen String := do
      match ps with
      | [] => pure "{}"
      | (i0, _) :: _ =>
        let last := (ps.getLast?.map (·.1)).getD i0
        if name == "@char" then
          pure (offSrc i0 (strLit (ps.map (fun p => numOf p.2))))
        else if name == "@byte" then
          pure (offSrc i0 ("<<" ++ ", ".intercalate (ps.map (fun p => toString (numOf p.2))) ++ ">>"))
        else
          let cells ← (List.range (last - i0 + 1).toNat).mapM (fun (k : Nat) =>
            match ps.find? (fun p => p.1 == i0 + (k : Int)) with
            | some p => elemSrc p.2
            | none => pure "")
          pure (offSrc i0 ("[" ++ ", ".intercalate cells ++ "]"))
    let tupleSrc (p : Int × V) : PGen String := do
      pure s!"(@: {numSrc p.1}, {name}: {← elemSrc p.2})"
    let canLit (ps : List (Int × V)) : Bool := name == "@item" || dense ps
    /- a literal-ish source for any pair list: sugar when writable, else relation literal -/
    let base (ps : List (Int × V)) : PGen String := do
      if canLit ps && (← liftG (chance 2 3)) then lit ps
      else
        let sh ← liftG (shuffle ps)
        if (← liftG (chance 1 2)) then
          let rows ← sh.mapM (fun p => do pure s!"({numSrc p.1}, {← elemSrc p.2})")
          pure ("{|@, " ++ name ++ "| " ++ ", ".intercalate rows ++ "}")
        else
          let rows ← sh.mapM (fun p => do pure s!"({← elemSrc p.2}, {numSrc p.1})")
          pure ("{|" ++ name ++ ", @| " ++ ", ".intercalate rows ++ "}")
    let n := ps.length
    let i0 := (ps.head?.map (·.1)).getD 0
    let iN := (ps.getLast?.map (·.1)).getD 0
    -- a fresh element of the right kind
    let filler : V := if name == "@char" then .num 122 else if name == "@byte" then .num 9 else .num 77
    let r ← liftG (rand 16)
    match r with
    | 0 | 1 => base ps
    | 2 => do
      -- set of explicit tuples
      let sh ← liftG (shuffle ps)
      pure ("{" ++ ", ".intercalate (← sh.mapM tupleSrc) ++ "}")
    | 3 => do
      -- concatenation: the right operand is shifted by the *count* of the left one
      if n < 2 then base ps else
      let k := 1 + (← liftG (rand (n - 1)))
      pure s!"({← base (ps.take k)} ++ {← base (shiftPs (-(k : Int)) (ps.drop k))})"
    | 4 => do
      -- offset expression
      let k ← liftG (randInt (-2) 3)
      pure s!"({numSrc k}\\({← base (shiftPs (-k) ps)}))"
    | 5 | 6 | 7 => do
      -- without: remove an extra first / last / middle element of a superset (String/Array.Without)
      if name == "@byte" then base ps else
      let w ← liftG (rand 4)
      let gap ← liftG (rand 3)   -- 0: adjacent; >0: leaves `gap` holes next to the removed end
      let extra : Option (Int × V) :=
        if w == 0 then some (i0 - 1 - gap, filler)
        else if w == 1 then some (iN + 1 + gap, filler)
        else
          -- a hole strictly inside, if there is one
          ((List.range (iN - i0 + 1).toNat).map (fun (k : Nat) => i0 + (k : Int))).find?
            (fun i => !ps.any (fun p => p.1 == i)) |>.map (fun i => (i, filler))
      match extra with
      | none => base ps
      | some e =>
        let sup := (e :: ps).mergeSort (fun a b => a.1 ≤ b.1)
        if !canLit sup && name == "@char" then
          -- a holey string superset can only be written as a set; still goes through asString
          pure s!"({← base sup} without {← tupleSrc e})"
        else pure s!"({← base sup} without {← tupleSrc e})"
    | 8 | 9 => do
      -- where on the index: drop extras at both ends
      let lo ← liftG (rand 3)
      let hi ← liftG (rand 3)
      let pre := (List.range lo).map (fun (k : Nat) => (i0 - 1 - (k : Int), filler))
      let post := (List.range hi).map (fun (k : Nat) => (iN + 1 + (k : Int), filler))
      let sup := (pre ++ ps ++ post).mergeSort (fun a b => a.1 ≤ b.1)
      pure s!"({← base sup} where {numSrc i0} <= .@ && .@ <= {numSrc iN})"
    | 10 => do
      -- => that shifts a moved copy back
      let k ← liftG (randInt 1 3)
      pure s!"({← base (shiftPs k ps)} => (@: .@ - {k}, {name}: .{name}))"
    | 11 => do
      -- `|` of a prefix and the following suffix (adjacent appends only)
      if n < 2 || name == "@byte" || !dense ps then base ps else
      let k := 1 + (← liftG (rand (n - 1)))
      if name == "@char" && (← liftG (chance 1 6)) then
        -- suffix first: String.with falls back to a generic set (C01's repair)
        flag "KF-string-with-fallback"
        pure s!"({← base (ps.drop k)} | {← base (ps.take k)})"
      else pure s!"({← base (ps.take k)} | {← base (ps.drop k)})"
    | 12 => do
      -- with at the end / the front
      if n < 2 || name == "@byte" || !dense ps then base ps else
      if (← liftG (chance 1 2)) then
        match ps.getLast? with
        | some e => pure s!"({← base ps.dropLast} with {← tupleSrc e})"
        | none => base ps
      else
        match ps with
        | e :: rest => pure s!"({← base rest} with {← tupleSrc e})"
        | [] => base ps
    | _ => genAnySet d (ps.map (fun p => V.mkTup [("@", .num p.1), (name, p.2)])) name

  genDict (d : Nat) (es : List (V × V)) : PGen String := do
    let sh ← liftG (shuffle es)
    let kv (e : V × V) : PGen String := do pure s!"{← genPath d e.1}: {← genPath d e.2}"
    let sugar (es : List (V × V)) : PGen String := do
      pure ("{" ++ ", ".intercalate (← es.mapM kv) ++ "}")
    let r ← liftG (rand 8)
    match r with
    | 0 | 1 => sugar sh
    | 2 => do
      let rows ← sh.mapM (fun e => do pure s!"({← genPath d e.1}, {← genPath d e.2})")
      pure ("{|@, @value| " ++ ", ".intercalate rows ++ "}")
    | 3 => do
      let ts ← sh.mapM (fun e => do pure s!"(@: {← genPath d e.1}, @value: {← genPath d e.2})")
      pure ("{" ++ ", ".intercalate ts ++ "}")
    | 4 => do
      -- dict merge, right side wins
      let (a, b) ← liftG (splitAtRand sh)
      if a.isEmpty || b.isEmpty then sugar sh else
      let ov ← liftG (chance 1 3)
      let a' := if ov then match b with | (k, _) :: _ => a ++ [(k, V.num 41)] | [] => a else a
      pure s!"({← sugar a'} +> {← sugar b})"
    | 5 => do
      -- where on the key
      let k := V.num (freshNum (es.map (·.1)))
      pure s!"({← sugar ((k, V.num 1) :: sh)} where .@ != {plain k})"
    | 6 => do
      let (a, b) ← liftG (splitAtRand sh)
      if a.isEmpty || b.isEmpty then sugar sh else pure s!"({← sugar a} | {← sugar b})"
    | _ => genAnySet d (es.map (fun e => V.mkTup [("@", e.1), ("@value", e.2)])) "@value"

  genRel (d : Nat) (names : List String) (rows : List (List V)) : PGen String := do
    let lit (names : List String) (rows : List (List V)) : PGen String := do
      -- permute the columns
      let idx ← liftG (shuffle (List.range names.length))
      let ns := idx.map (fun i => names.getD i "")
      let sh ← liftG (shuffle rows)
      let rs ← sh.mapM (fun row => do
        let cells ← idx.mapM (fun i => genPath d (row.getD i (V.num 0)))
        pure ("(" ++ ", ".intercalate cells ++ ")"))
      pure ("{|" ++ ", ".intercalate (ns.map nameSrc) ++ "| " ++ ", ".intercalate rs ++ "}")
    let r ← liftG (rand 8)
    match r with
    | 0 | 1 => lit names rows
    | 2 => do
      -- projection of a wider relation
      let extra := if names.contains "zz" then "zy" else "zz"
      let rows' ← rows.mapM (fun row => do pure (row ++ [V.num (← liftG (randInt 0 2))]))
      let proj := ", ".intercalate (names.map (fun n => s!"{nameSrc n}: .{nameSrc n}"))
      pure s!"({← lit (names ++ [extra]) rows'} => ({proj}))"
    | 3 => do
      -- join with the relation's own first column
      let col := rows.map (fun row => [row.getD 0 (V.num 0)])
      let h := [names.getD 0 "a"]
      let fresh := V.num (freshNum (col.map (fun c => c.getD 0 (V.num 0))))
      let extraRow := fresh :: (rows.getD 0 []).drop 1
      pure s!"({← lit names (extraRow :: rows)} <&> {← lit h col.eraseDups})"
    | 4 => do
      -- product of single-row relations
      if rows.length != 1 || names.length < 2 then lit names rows else
      let row := rows.getD 0 []
      pure s!"({← lit (names.take 1) [row.take 1]} <&> {← lit (names.drop 1) [row.drop 1]})"
    | 5 => pure s!"({← lit names rows} <&> {← lit names rows})"
    | _ => genAnySet d (rows.map (fun r => V.mkTup (names.zip r))) ""

  genSet (d : Nat) (ms : List V) : PGen String := do
    match shapeOf ms with
    | .str ps => genSeq d "@char" ps
    | .bytes ps => genSeq d "@byte" ps
    | .arr ps => genSeq d "@item" ps
    | .dict es => genDict d es
    | .rel names rows => genRel d names rows
    | .other => genAnySet d ms ""

/-! ## operator contexts -/

def genCtx (v : V) : Gen String := do
  let r ← rand 8
  match v with
  | .num _ =>
    pick ["\\x x + 1", "\\x {x}", "\\x (k: x)", "\\x [x, x]", "\\x {x: 1}", "\\x x * 2", "\\x {x, 0} count"]
  | .tup as =>
    match as with
    | (n, _) :: _ =>
      if r < 2 then pure s!"\\x x.{nameSrc n}"
      else pick ["\\x x +> (zq: 1)", "\\x {x}", "\\x [x]", "\\x {x: 1}", "\\x {x, (zq: 1)} count", "\\x (k: x)"]
    | [] => pick ["\\x {x}", "\\x x +> (zq: 1)", "\\x [x]", "\\x {x, 1}"]
  | .set ms =>
    let seqCtx := ["\\x x ++ x", "\\x 2\\x", "\\x x where .@ > 0", "\\x x => .@", "\\x x count",
                   "\\x x(0)", "\\x x(1)", "\\x {x}", "\\x [x]", "\\x (k: x)", "\\x x | {42}"]
    let anyCtx := ["\\x x count", "\\x x | {42}", "\\x x & x", "\\x x with 42", "\\x x without 42", "\\x x => .",
                   "\\x x where true", "\\x {x}", "\\x [x]", "\\x (k: x)", "\\x {x: 1}", "\\x x &~ {42}",
                   "\\x {x, 1} count"]
    match shapeOf ms with
    | .str _ => pick (seqCtx ++ ["\\x x ++ 'z'", "\\x //str.upper(x)", "\\x //seq.concat([x, 'q'])"])
    | .bytes _ => pick ["\\x x count", "\\x {x}", "\\x [x]", "\\x (k: x)", "\\x x => .@", "\\x x(0)", "\\x 1\\x"]
    | .arr _ => pick (seqCtx ++ ["\\x x ++ [9]", "\\x x => .@item", "\\x //seq.concat([x, [1]])"])
    | .dict _ => pick (anyCtx ++ ["\\x x => .@", "\\x x => .@value", "\\x x +> {77: 1}"])
    | .rel (n :: _) _ => pick (anyCtx ++ [s!"\\x x => .{nameSrc n}", "\\x x <&> x"])
    | _ => pick anyCtx

/-! ## near-miss targets -/

/- canonical form of an arbitrary `V` (sets sorted/deduplicated, tuples sorted by name) -/
mutual
def canonV : V → V
  | .num n => .num n
  | .tup as => V.mkTup (canonAttrsV as)
  | .set xs => V.mkSet (canonListV xs)
def canonAttrsV : List (String × V) → List (String × V)
  | [] => []
  | (n, v) :: r => (n, canonV v) :: canonAttrsV r
def canonListV : List V → List V
  | [] => []
  | v :: r => canonV v :: canonListV r
end

def isSetV : V → Bool
  | .set _ => true
  | _ => false

/-- change a value at its root into a different but similar one -/
def mutateHere (v : V) : Gen V := do
  let r ← rand 8
  match v with
  | .num n => pure (if r < 6 then .num (n + 1) else .set [.num n])
  | .tup as =>
    if as.isEmpty then pure (if r < 4 then .tup [("zq", .num 1)] else .set []) else
    let i ← rand as.length
    if r < 2 then pure (.tup (as.eraseIdx i))
    else if r == 2 then pure (.set [.tup as])
    else if r == 3 then pure (.tup (as.zipIdx.map (fun p => if p.2 == i then (p.1.1 ++ "q", p.1.2) else p.1)))
    else pure (.tup (as.zipIdx.map (fun p => if p.2 == i then (p.1.1, match p.1.2 with
      | .num n => V.num (n + 1) | .set [] => V.set [.set []] | x => V.set [x]) else p.1)))
  | .set ms =>
    if ms.isEmpty then pure (if r < 3 then .set [.tup []] else if r < 6 then .set [.set []] else .num 0) else
    let i ← rand ms.length
    let seqShift (name : String) (ps : List (Int × V)) (k : Int) : V :=
      .set (ps.map (fun p => V.tup [("@", .num (p.1 + k)), (name, p.2)]))
    match shapeOf ms, r with
    -- sequences: shift the offset, or change the kind of sequence
    | .str ps, 0 => pure (seqShift "@char" ps 1)
    | .str ps, 1 => pure (seqShift "@byte" ps 0)
    | .str ps, 2 => pure (seqShift "@char" ps (-1))
    | .bytes ps, 0 => pure (seqShift "@byte" ps 1)
    | .bytes ps, 1 => pure (seqShift "@char" (ps.map (fun p => (p.1, V.num (numOf p.2 % 3 + 97)))) 0)
    | .arr ps, 0 => pure (seqShift "@item" ps 1)
    | .arr ps, 1 => pure (.set (ps.map (fun p => V.tup [("@", .num p.1), ("@value", p.2)])))
    | _, _ =>
      -- sets of sets: move a member of one inner set into another (same XOR of leaf hashes)
      let inner := ms.filter (fun m => match m with | .set (_ :: _) => true | _ => false)
      if r == 3 && inner.length ≥ 2 then
        match ms.partition (fun m => match m with | .set (_ :: _) => true | _ => false) with
        | (.set (x :: xs) :: .set ys :: rest, others) => pure (.set (.set xs :: .set (x :: ys) :: rest ++ others))
        | _ => pure (.set (ms.eraseIdx i))
      else if r == 4 then pure (.set [.set ms])                       -- wrap
      else if r == 5 then pure (.set (ms.eraseIdx i))                 -- drop a member
      else if r == 6 then pure (.set (.num (freshNum ms) :: ms))      -- add a member
      else
        match ms with
        | [m] => pure (if isSetV m then m else .set [m, .num (freshNum ms)])   -- unwrap
        | _ => pure (.set (ms.eraseIdx i))

/-- mutate at a random position (`d` bounds the descent) -/
def mutate : Nat → V → Gen V
  | 0, v => mutateHere v
  | d + 1, v => do
    let here ← chance 1 2
    if here then mutateHere v else
    match v with
    | .num _ => mutateHere v
    | .tup as =>
      if as.isEmpty then mutateHere v else
      let i ← rand as.length
      let sub ← mutate d ((as.getD i ("", V.num 0)).2)
      pure (.tup (as.zipIdx.map (fun p => if p.2 == i then (p.1.1, sub) else p.1)))
    | .set ms =>
      if ms.isEmpty then mutateHere v else
      let i ← rand ms.length
      let m := ms.getD i (V.num 0)
      -- do not descend into the index tuples of sequences / dict entries: mutate their payload
      match m with
      | .tup [("@", ix), (nm, x)] =>
        let sub ← mutate d x
        pure (.set (ms.zipIdx.map (fun p => if p.2 == i then V.tup [("@", ix), (nm, sub)] else p.1)))
      | _ =>
        let sub ← mutate d m
        pure (.set (ms.zipIdx.map (fun p => if p.2 == i then sub else p.1)))

/-! ## observables -/

def boolS (b : Bool) : String := if b then "true" else "false"

def obsLine (eq qe cnt dict repr lt gt ctx ctxden : String) (ca cb : String) (st : String := "-") : String :=
  s!"eq={eq};qe={qe};set={st};cnt={cnt};dict={dict};repr={repr};lt={lt};gt={gt};ctx={ctx};ctxden={ctxden}|{ca}|{cb}"

/-- what the property demands of two programs with denotations `da`, `db` -/
def specObs (da db : V) (flags : String) (hasCtx : Bool) : String :=
  let on (c : Char) (s : String) := if flags.toList.contains c then s else "-"
  if da == db then
    obsLine (on 'e' "true") (on 'q' "true") (on 'c' "1") (on 'd' "1") (on 'r' "true") (on 'l' "false") (on 'g' "false")
      (if hasCtx && flags.toList.contains 'f' then "true" else "-")
      (if hasCtx && flags.toList.contains 'F' then "true" else "-") da.canon db.canon (on 's' "true")
  else
    obsLine (on 'e' "false") (on 'q' "false") (on 'c' "2") (on 'd' "error") "-" "-" "-" "-" "-" da.canon db.canon
      (on 's' "false")

def resCount : Res Rep → String
  | .ok r => toString (Rep.count r)
  | .panic => "panic"

/-- what the transliteration predicts on the canonical representations of the two denotations -/
def modelObs (da db : V) (flags : String) (hasCtx : Bool) : String :=
  let on (c : Char) (s : String) := if flags.toList.contains c then s else "-"
  match build da, build db with
  | .ok ra, .ok rb =>
    let e := equal ra rb
    let st := match setBuilderFinish [ra], setBuilderFinish [rb] with
      | .ok sa, .ok sb => boolS (equal sa sb)
      | _, _ => "panic"
    let cnt := resCount (setBuilderFinish [ra, rb])
    let dict := match dictGet (newDict [(ra, .num 1)]) rb with
      | [.num 1] => "1"
      | _ => "error"
    if da == db then
      obsLine (on 'e' (boolS e)) (on 'q' (boolS (equal rb ra))) (on 'c' cnt) (on 'd' dict) (on 'r' (boolS e))
        (on 'l' "false") (on 'g' "false")
        (if hasCtx && flags.toList.contains 'f' then boolS e else "-")
        (if hasCtx && flags.toList.contains 'F' then boolS e else "-") (den ra).canon (den rb).canon (on 's' st)
    else
      obsLine (on 'e' (boolS e)) (on 'q' (boolS (equal rb ra))) (on 'c' cnt) (on 'd' dict) "-" "-" "-" "-" "-"
        (den ra).canon (den rb).canon (on 's' st)
  | _, _ => "panic"

/-- the concrete Go representation the constructors are supposed to produce (harness op `rep`) -/
def goRepOf : Rep → String
  | .num _ => "Number"
  | .gtuple as => s!"GenericTuple(n={as.length})"
  | .charT _ _ => "StringCharTuple"
  | .byteT _ _ => "BytesByteTuple"
  | .itemT _ _ => "ArrayItemTuple"
  | .entryT _ _ => "DictEntryTuple"
  | .empty => "EmptySet"
  | .true_ => "TrueSet"
  | .generic xs => s!"GenericSet(n={xs.length})"
  | .str s off h => s!"String(off={off},len={s.length},holes={h})"
  | .bytes b off => s!"Bytes(off={off},len={b.length})"
  | .array vs off c => s!"Array(off={off},len={vs.length},count={c})"
  | .dict m => s!"Dict(n={m.length})"
  | .relation names rows => s!"Relation({",".intercalate (sortStrs names)};n={rows.length})"
  | .union bs => s!"UnionSet(n={Rep.count (.union bs)})"

def repObs (d : V) : String :=
  match build d with
  | .ok r => goRepOf r
  | .panic => "panic"

/-! ## cases -/

def mkPair (id stratum : String) (da db : V) (srcA srcB ctx : String) (kfs : List String) : List Case :=
  let pos := da == db
  let hasCtx := ctx != "" && pos
  let mk (id cls flags : String) : Case :=
    { id := id, cls := cls, kind := "pair", stratum := stratum,
      model := modelObs da db flags hasCtx, spec := specObs da db flags hasCtx,
      payload := [srcA, srcB, if hasCtx then ctx else "", flags] }
  if superimposed da || superimposed db then [mk id "KF-superimposed" (if pos then "eqscdrlgfF" else "eqscd")]
  else if bytesHoles da || bytesHoles db || kfs.contains "KF-bytes-holes" then
    -- also: an element-by-element construction visits the byte pairs in an order that leaves a gap on the way
    [mk id "KF-bytes-holes" (if pos then "eqscdfF" else "eqscd")]
  else
    -- the classes of C01/C05/C06 findings (string `with` fallback, duplicated string member, Less panics and
    -- inconsistencies) were dropped when their repairs were merged: `kfs` is no longer consulted
    let _ := kfs
    if !pos then [mk id "good" "eqscd"] else [mk id "good" "eqscdrlgfF"]

def mkRep (id stratum : String) (da db : V) (srcA srcB : String) : Case :=
  { id := id, cls := "good", kind := "rep", stratum := stratum,
    model := repObs da ++ "|" ++ repObs db, spec := "!panic", payload := [srcA, srcB] }

def shapeName (v : V) : String :=
  match v with
  | .num _ => "num"
  | .tup _ => "tuple"
  | .set [] => "empty"
  | .set [.tup []] => "true"
  | .set ms =>
    match shapeOf ms with
    | .str _ => "string" | .bytes _ => "bytes" | .arr _ => "array" | .dict _ => "dict"
    | .rel _ _ => "relation" | .other => "set"

def genCase (idx : Nat) (thorough : Bool) : Gen (List Case) := do
  let depth ← pick [1, 2, 2, 3]
  let lit ← Lit.genLit depth
  let t := lit.den
  let pd ← pick [1, 1, 2, 2, 3]
  let negative ← chance 1 5
  let id := s!"C02-{idx}"
  if superimposed t then
    -- the generator of literals does not produce these; keep the case well-formed anyway
    pure (mkPair id "superimposed" t t (plain t) (plain t) "" [])
  else if negative then
    let md ← rand 3
    let t2' := canonV (← mutate md t)
    -- a mutant that the tuple constructors reject (non-number under a sugar heading) is replaced
    let t2 := match build t2' with
      | .ok _ => if superimposed t2' then V.mkSet [t, .num 7] else t2'
      | .panic => V.mkSet [t, .num 7]
    let (a, sa) ← (genPath pd t).run {}
    let (b, sb) ← (genPath pd t2).run {}
    pure (mkPair id ("neg/" ++ shapeName t) t t2 a b "" (sa.kf ++ sb.kf))
  else
    let (a, sa) ← (genPath pd t).run {}
    let (b0, sb0) ← (genPath pd t).run {}
    -- insist on two different programs when a second try gives one
    let (b, sb) ← if b0 == a then (genPath (pd + 1) t).run {} else pure (b0, sb0)
    let ctx ← genCtx t
    let wantRep ← chance 1 (if thorough then 2 else 3)
    let cs := mkPair id ("pos/" ++ shapeName t) t t a b ctx (sa.kf ++ sb.kf)
    pure (if wantRep then cs ++ [mkRep (id ++ "r") ("rep/" ++ shapeName t) t t a b] else cs)

/-! ## transitions: construction paths through a larger collection and back

A dictionary key going from three values to two, two to one (the stored value set has to collapse to the plain
value), one to none (the key disappears; the last key leaves `{}`); a relation going to one row / one column /
no row; a union set losing a bucket (the remaining bucket has to become the plain string / array / dictionary /
relation / generic set).  Each result is compared with its literal spelling under all pair observables. -/

abbrev Atom := String × V

def atomPool : List Atom :=
  [("1", .num 1), ("2", .num 2), ("3", .num 3), ("4", .num 4), ("0", .num 0), ("'a'", (Lit.str 0 [97]).den),
   ("'bc'", (Lit.str 0 [98, 99]).den), ("(a: 1)", V.mkTup [("a", .num 1)]), ("{}", .set []),
   ("[7]", (Lit.arr 0 [some (.num 7)]).den), ("true", V.tt), ("{5, 6}", V.mkSet [.num 5, .num 6]), ("()", .tup [])]

def intPool : List Atom := [("1", .num 1), ("2", .num 2), ("3", .num 3), ("4", .num 4), ("0", .num 0), ("5", .num 5)]

/-- a dictionary state: keys with their values (one or several) -/
abbrev DState := List (Atom × List Atom)

namespace Trans

def entries (st : DState) : List (Atom × Atom) := st.flatMap (fun kv => kv.2.map (fun v => (kv.1, v)))
def entryV (e : Atom × Atom) : V := V.mkTup [("@", e.1.2), ("@value", e.2.2)]
def denD (st : DState) : V := V.mkSet ((entries st).map entryV)
def tupSrc (e : Atom × Atom) : String := "(@: " ++ e.1.1 ++ ", @value: " ++ e.2.1 ++ ")"

def relLit (st : DState) : Gen String := do
  let sh ← shuffle (entries st)
  if (← chance 1 2) then
    pure ("{|@, @value| " ++ ", ".intercalate (sh.map (fun e => "(" ++ e.1.1 ++ ", " ++ e.2.1 ++ ")")) ++ "}")
  else
    pure ("{|@value, @| " ++ ", ".intercalate (sh.map (fun e => "(" ++ e.2.1 ++ ", " ++ e.1.1 ++ ")")) ++ "}")
def setLit (st : DState) : Gen String := do
  let sh ← shuffle (entries st)
  pure ("{" ++ ", ".intercalate (sh.map tupSrc) ++ "}")
def sugar (es : List (Atom × Atom)) : String :=
  "{" ++ ", ".intercalate (es.map (fun e => e.1.1 ++ ": " ++ e.2.1)) ++ "}"
/-- `d1 | d2 | …`: layer `i` holds the `i`-th value of every key that has one -/
def layered (st : DState) : Gen String := do
  let depth := (st.map (fun kv => kv.2.length)).foldl max 0
  let layers := (List.range depth).map (fun i => st.filterMap (fun kv => (kv.2[i]?).map (fun v => (kv.1, v))))
  let srcs ← layers.mapM (fun l => do pure (sugar (← shuffle l)))
  match srcs with
  | [] => pure "{}"
  | [x] => pure x
  | _ => pure ("(" ++ " | ".intercalate srcs ++ ")")
def withSrc (st : DState) : Gen String := do
  match (entries st).reverse with
  | e :: rest =>
    let st' : DState := rest.reverse.map (fun p => (p.1, [p.2]))
    pure ("(" ++ (← setLit st') ++ " with " ++ tupSrc e ++ ")")
  | [] => pure "{}"

/-- the literal spelling of a state -/
def canonLit (st : DState) : Gen String := do
  if st.isEmpty then pure "{}"
  else if st.all (fun kv => kv.2.length == 1) then
    pure (sugar (← shuffle (entries st)))
  else relLit st

/-- some spelling of a (possibly multi-valued) state -/
def anySrc (st : DState) : Gen String := do
  match (← rand 5) with
  | 0 => relLit st
  | 1 => setLit st
  | 2 => withSrc st
  | _ => layered st

def removeEntry (st : DState) (k v : Atom) : DState :=
  (st.map (fun kv => if kv.1.1 == k.1 then (kv.1, kv.2.filter (fun w => w.1 != v.1)) else kv)).filter
    (fun kv => !kv.2.isEmpty)

/-- a path that removes the entry `(k, v)` from the state `sup` -/
def removal (op : Nat) (sup : DState) (k v : Atom) : Gen String := do
  let s ← anySrc sup
  let t := tupSrc (k, v)
  match op % 4 with
  | 0 => pure ("(" ++ s ++ " without " ++ t ++ ")")
  | 1 => pure ("(" ++ s ++ " &~ {" ++ t ++ "})")
  | 2 => pure ("(" ++ s ++ " where .@ != " ++ k.1 ++ " || .@value != " ++ v.1 ++ ")")
  | _ => pure ("((" ++ s ++ " | {(@: " ++ k.1 ++ ", @value: 99)}) &~ {" ++ t ++ ", (@: " ++ k.1 ++ ", @value: 99)})")

end Trans

open Trans in
/-- one transition case; `i` selects the family so that every family and count transition is hit on every run -/
def genTransition (i : Nat) : Gen (String × V × String × String × List String) := do
  let fam := i % 12
  let op := i / 36   -- cycles through the removal operators per family and count transition
  if fam < 4 then
    -- dictionaries: the key `k` goes from `n` to `n - 1` values (n = 3, 2, 1), next to 0..2 other keys
    let n := 3 - (i / 12) % 3
    let ints ← chance 1 3
    let pool ← shuffle (if ints then intPool else atomPool)
    let k := pool.getD 0 ("1", .num 1)
    let vals ← shuffle (if ints then intPool else atomPool)
    let kvals := vals.take n
    let nOther ← rand 3
    let others : DState ← (List.range nOther).mapM (fun (j : Nat) => do
      let m ← pick [1, 1, 2]
      let vs ← shuffle (if ints then intPool else atomPool)
      pure (pool.getD (j + 1) ("2", .num 2), vs.take m))
    let sup : DState := (k, kvals) :: others
    let v := kvals.getD 0 ("1", .num 1)
    let res := removeEntry sup k v
    if fam == 3 && ints then
      -- `=>` remapping: the extra value is mapped onto one that is already there (or onto a fresh one)
      let w := kvals.getD 1 v
      let extra : Atom := (toString (numOf w.2 + 10), .num (numOf w.2 + 10))
      let sup' : DState := (k, extra :: kvals.drop 1) :: others
      let s ← anySrc sup'
      let src := "(" ++ s ++ " => (@: .@, @value: .@value % 10))"
      let res' : DState := if n == 1 then [(k, [((toString (numOf v.2)), v.2)])] ++ others else (k, kvals.drop 1) :: others
      -- with n = 1 the only value is `extra`, which maps to `w` = `v`
      pure (src, denD res', ← canonLit res', "dict/remap", [])
    else if fam == 2 && n ≥ 2 then
      -- two removals in a row (3 → 1, 2 → 0)
      let v2 := kvals.getD 1 v
      let s1 ← removal op sup k v
      let res2 := removeEntry res k v2
      let src := "(" ++ s1 ++ " without " ++ tupSrc (k, v2) ++ ")"
      pure (src, denD res2, ← canonLit res2, s!"dict/{n}to{n - 2}", [])
    else
      pure (← removal op sup k v, denD res, ← canonLit res, s!"dict/{n}to{n - 1}", [])
  else if fam < 6 then
    -- relations: rows and columns go away
    let cols ← pick [["a"], ["a", "b"], ["a", "b", "c"]]
    let nrows := 1 + (i / 12) % 3
    let vals ← shuffle atomPool
    let rows : List (List Atom) := (List.range nrows).map (fun (r : Nat) =>
      (List.range cols.length).map (fun (c : Nat) => vals.getD ((r * 2 + c) % vals.length) ("1", .num 1)))
    let extraRow : List Atom := (List.range cols.length).map (fun (c : Nat) => vals.getD ((7 + c) % vals.length) ("9", .num 9))
    let rowSrc (row : List Atom) : String := "(" ++ ", ".intercalate (row.map (·.1)) ++ ")"
    let tupRow (row : List Atom) : String :=
      "(" ++ ", ".intercalate ((cols.zip row).map (fun p => p.1 ++ ": " ++ p.2.1)) ++ ")"
    let lit (rs : List (List Atom)) : Gen String := do
      if rs.isEmpty then pure "{}" else
      let sh ← shuffle rs
      if (← chance 1 2) then pure ("{|" ++ ", ".intercalate cols ++ "| " ++ ", ".intercalate (sh.map rowSrc) ++ "}")
      else pure ("{" ++ ", ".intercalate (sh.map tupRow) ++ "}")
    let denR (cs : List String) (rs : List (List Atom)) : V :=
      V.mkSet (rs.map (fun row => V.mkTup ((cs.zip row).map (fun p => (p.1, p.2.2)))))
    if fam == 4 then
      -- drop rows: `nrows` down to `nrows - 1` (1 → `{}`)
      let gone := rows.getD 0 extraRow
      let rest := rows.drop 1
      let s ← lit rows
      let src ← match op % 3 with
        | 0 => pure ("(" ++ s ++ " without " ++ tupRow gone ++ ")")
        | 1 => pure ("(" ++ s ++ " &~ {" ++ tupRow gone ++ "})")
        | _ => pure ("((" ++ s ++ " | {" ++ tupRow extraRow ++ "}) &~ {" ++ tupRow gone ++ ", " ++ tupRow extraRow ++ "})")
      let restDistinct := rest.filter (fun r => rowSrc r != rowSrc gone)
      pure (src, denR cols restDistinct, ← lit restDistinct.eraseDups, s!"rel/rows{nrows}to{nrows - 1}", [])
    else
      -- project to the first column (rows may merge)
      let s ← lit rows
      let src := "(" ++ s ++ " => (a: .a))"
      let proj := (rows.map (fun r => r.take 1)).eraseDups
      let shp ← shuffle proj
      let litp := "{|a| " ++ ", ".intercalate (shp.map (fun r => "(" ++ ", ".intercalate (r.map (·.1)) ++ ")")) ++ "}"
      pure (src, denR ["a"] proj, litp, s!"rel/cols{cols.length}to1", [])
  else if fam < 8 then
    -- union sets: two buckets, all members of one of them go away
    let bucketsAll : List (List Atom × String) :=
      [([("1", .num 1), ("{}", .set []), ("'a'", (Lit.str 0 [97]).den)], "{1, {}, 'a'}"),
       ([("(a: 1)", V.mkTup [("a", .num 1)]), ("(a: 2)", V.mkTup [("a", .num 2)])], "{|a| (1), (2)}"),
       ([("(@: 0, @char: 97)", V.mkTup [("@", .num 0), ("@char", .num 97)]),
         ("(@: 1, @char: 98)", V.mkTup [("@", .num 1), ("@char", .num 98)])], "'ab'"),
       ([("(@: 2, @item: 7)", V.mkTup [("@", .num 2), ("@item", .num 7)])], "2\\[7]"),
       ([("(@: 1, @value: 2)", V.mkTup [("@", .num 1), ("@value", .num 2)]),
         ("(@: 'k', @value: {})", V.mkTup [("@", (Lit.str 0 [107]).den), ("@value", .set [])])], "{1: 2, 'k': {}}"),
       ([("(@: 0, @byte: 65)", V.mkTup [("@", .num 0), ("@byte", .num 65)])], "<<65>>"),
       ([("(b: 1, c: 2)", V.mkTup [("b", .num 1), ("c", .num 2)])], "{(c: 2, b: 1)}")]
    let sh ← shuffle bucketsAll
    let keep := sh.getD 0 ([], "{}")
    let drop := sh.getD 1 ([], "{}")
    let all ← shuffle (keep.1 ++ drop.1)
    let u := "{" ++ ", ".intercalate (all.map (·.1)) ++ "}"
    let src ← match op % 3 with
      | 0 => pure (drop.1.foldl (fun acc m => "(" ++ acc ++ " without " ++ m.1 ++ ")") u)
      | 1 => pure ("(" ++ u ++ " &~ {" ++ ", ".intercalate (drop.1.map (·.1)) ++ "})")
      | _ => pure ("((" ++ keep.2 ++ " | " ++ drop.2 ++ ") &~ " ++ drop.2 ++ ")")
    pure (src, V.mkSet (keep.1.map (·.2)), keep.2, "union/2to1", [])
  else if fam < 10 then
    -- joins and compositions that end in a sugared heading `{@, @char|@item|@value|@byte}`: the value column from the
    -- left operand and from the right operand, every operator, compared with the string/array/dict/bytes literal
    let j := (i / 12) * 2 + (fam - 8)
    let name := ["@char", "@item", "@value", "@byte"].getD (j % 4) "@item"
    let variant := (j / 4) % 8
    let offPre (o : Int) : String := if o == 0 then "" else numSrc o ++ "\\"
    let len := 1 + (← rand 3)
    -- rows `(at, value)` with their denotations, and the literal
    let (rows, lit, extraAt) : List (Atom × Atom) × String × String ← (do
      if name == "@char" then
        let off ← pick [(0 : Int), 0, 2, -1]
        let cs ← (List.range len).mapM (fun _ => pick [(97 : Nat), 98, 99, 122])
        let rows := (cs.zipIdx).map (fun p => ((numSrc (off + (p.2 : Int)), V.num (off + (p.2 : Int))),
                                               (toString p.1, V.num (p.1 : Int))))
        pure (rows, offPre off ++ strLit (cs.map (fun c => Int.ofNat c)), "9999")
      else if name == "@byte" then
        let off ← pick [(0 : Int), 0, 3]
        let bs ← (List.range len).mapM (fun _ => pick [(65 : Nat), 66, 0, 255])
        let rows := (bs.zipIdx).map (fun p => ((numSrc (off + (p.2 : Int)), V.num (off + (p.2 : Int))),
                                               (toString p.1, V.num (p.1 : Int))))
        -- a byte array cannot have gaps (KF-bytes-holes): the extra row sits right behind the last byte
        pure (rows, offPre off ++ "<<" ++ ", ".intercalate (bs.map toString) ++ ">>", numSrc (off + (len : Int)))
      else if name == "@item" then
        let off ← pick [(0 : Int), 0, 2, -2]
        let its ← shuffle atomPool
        let hole := len == 3 && (← chance 1 2)
        let cells : List (Option Atom) := (List.range len).map (fun (k : Nat) =>
          if hole && k == 1 then none else some (its.getD k ("1", .num 1)))
        let rows := (cells.zipIdx).filterMap (fun p => p.1.map (fun a =>
          ((numSrc (off + (p.2 : Int)), V.num (off + (p.2 : Int))), a)))
        pure (rows, offPre off ++ "[" ++ ", ".intercalate (cells.map (fun c => (c.map (·.1)).getD "")) ++ "]", "9999")
      else
        let ks ← shuffle atomPool
        let vs ← shuffle atomPool
        let rows := (List.range len).map (fun (k : Nat) => (ks.getD k ("1", .num 1), vs.getD k ("2", .num 2)))
        pure (rows, sugar rows, "9999"))
    let v : V := V.mkSet (rows.map (fun r => V.mkTup [("@", r.1.2), (name, r.2.2)]))
    let filler := if name == "@char" then "122" else if name == "@byte" then "9" else "77"
    let xs : List String := (List.range rows.length).map (fun (k : Nat) => toString (10 + k))
    let rx := rows.zip xs
    let rel (cols : String) (rs : List String) : Gen String := do
      pure ("{|" ++ cols ++ "| " ++ ", ".intercalate (← shuffle rs) ++ "}")
    -- the `{|@| …}` operand of the semi-joins drives an element-by-element construction (`with`) of the result: a byte
    -- array cannot have holes, so an order that leaves a gap on the way ends in a generic set (KF-bytes-holes)
    let atRows ← shuffle rows
    let atRel := "{|@| " ++ ", ".intercalate (atRows.map (fun r => "(" ++ r.1.1 ++ ")")) ++ "}"
    let gapOrder : Bool := Id.run do
      let idx := atRows.map (fun r => numOf r.1.2)
      match idx with
      | [] => return false
      | i0 :: rest =>
        let mut lo := i0
        let mut hi := i0
        let mut gap := false
        for k in rest do
          if k == hi + 1 then hi := k
          else if k == lo - 1 then lo := k
          else gap := true
        return gap
    let kf : List String := if name == "@byte" && (variant == 4 || variant == 5) && gapOrder then ["KF-bytes-holes"] else []
    let src ← match variant with
      | 0 => do pure ((← rel (name ++ ", x") (rx.map (fun p => "(" ++ p.1.2.1 ++ ", " ++ p.2 ++ ")"))) ++ " <-> " ++
                      (← rel "@, x" (rx.map (fun p => "(" ++ p.1.1.1 ++ ", " ++ p.2 ++ ")"))))
      | 1 => do pure ((← rel "@, x" (rx.map (fun p => "(" ++ p.1.1.1 ++ ", " ++ p.2 ++ ")"))) ++ " <-> " ++
                      (← rel (name ++ ", x") (rx.map (fun p => "(" ++ p.1.2.1 ++ ", " ++ p.2 ++ ")"))))
      | 2 => do
        if rows.length == 1 then
          pure ((← rel name (rows.map (fun r => "(" ++ r.2.1 ++ ")"))) ++ " <&> " ++ (← rel "@" (rows.map (fun r => "(" ++ r.1.1 ++ ")"))))
        else
          pure ((← rel ("x, " ++ name) (rx.map (fun p => "(" ++ p.2 ++ ", " ++ p.1.2.1 ++ ")"))) ++ " <-> " ++
                (← rel "x, @" (rx.map (fun p => "(" ++ p.2 ++ ", " ++ p.1.1.1 ++ ")"))))
      | 3 => do
        if rows.length == 1 then
          pure ((← rel "@" (rows.map (fun r => "(" ++ r.1.1 ++ ")"))) ++ " <&> " ++ (← rel name (rows.map (fun r => "(" ++ r.2.1 ++ ")"))))
        else
          pure ((← rel "x, @" (rx.map (fun p => "(" ++ p.2 ++ ", " ++ p.1.1.1 ++ ")"))) ++ " <-> " ++
                (← rel ("x, " ++ name) (rx.map (fun p => "(" ++ p.2 ++ ", " ++ p.1.2.1 ++ ")"))))
      | 4 => do pure (atRel ++ " -&> " ++
                      (← rel ("@, " ++ name) (("(" ++ extraAt ++ ", " ++ filler ++ ")") :: rows.map (fun r => "(" ++ r.1.1 ++ ", " ++ r.2.1 ++ ")"))))
      | 5 => do pure ((← rel (name ++ ", @") (("(" ++ filler ++ ", " ++ extraAt ++ ")") :: rows.map (fun r => "(" ++ r.2.1 ++ ", " ++ r.1.1 ++ ")"))) ++
                      " <&- " ++ atRel)
      | 6 => do pure ((← rel "x" (xs.map (fun x => "(" ++ x ++ ")"))) ++ " --> " ++
                      (← rel ("x, @, " ++ name) (("(99, " ++ extraAt ++ ", " ++ filler ++ ")") ::
                        rx.map (fun p => "(" ++ p.2 ++ ", " ++ p.1.1.1 ++ ", " ++ p.1.2.1 ++ ")"))))
      | _ => do pure ((← rel (name ++ ", x, @") (("(" ++ filler ++ ", 99, " ++ extraAt ++ ")") ::
                        rx.map (fun p => "(" ++ p.1.2.1 ++ ", " ++ p.2 ++ ", " ++ p.1.1.1 ++ ")"))) ++ " <-- " ++
                      (← rel "x" (xs.map (fun x => "(" ++ x ++ ")"))))
    pure ("(" ++ src ++ ")", v, lit, "join/" ++ name ++ "/" ++ toString variant, kf)
  else
    -- shrinking to a special canonical form: `true`, `false`, a one-member string / array / byte array / dictionary /
    -- relation / generic set, from a larger generic or union set by `&~ & ~~ where without =>`
    let q := (i / 12) * 2 + (fam - 10)
    let targets : List (String × List Atom) :=
      [("true", [("()", .tup [])]), ("false", []),
       ("'a'", [("(@: 0, @char: 97)", V.mkTup [("@", .num 0), ("@char", .num 97)])]),
       ("2\\'b'", [("(@: 2, @char: 98)", V.mkTup [("@", .num 2), ("@char", .num 98)])]),
       ("[{}]", [("(@: 0, @item: {})", V.mkTup [("@", .num 0), ("@item", .set [])])]),
       ("<<65>>", [("(@: 0, @byte: 65)", V.mkTup [("@", .num 0), ("@byte", .num 65)])]),
       ("{'k': 2}", [("(@: 'k', @value: 2)", V.mkTup [("@", (Lit.str 0 [107]).den), ("@value", .num 2)])]),
       ("{|a| (1)}", [("(a: 1)", V.mkTup [("a", .num 1)])]),
       ("{5}", [("5", .num 5)])]
    let sameExtras : List (List String) :=
      [["1", "{2}"], ["1", "{}", "()"], ["(@: 1, @char: 98)", "(@: 2, @char: 99)"], ["(@: 3, @char: 99)"],
       ["(@: 1, @item: 7)"], ["(@: 1, @byte: 66)"], ["(@: 1, @value: 2)", "(@: 'k', @value: 3)"],
       ["(a: 2)", "(a: 'q')"], ["6", "()"]]
    let (ti, opi, same) ← (do
      if q < 24 then pure (q % 2, (q / 2) % 6, (q / 12) % 2 == 0)
      else pure (2 + (← rand 7), ← rand 6, ← chance 1 2))
    let tgt := targets.getD ti ("true", [("()", .tup [])])
    let generic := ti == 0 || ti == 1 || ti == 8
    let extras : List String :=
      if same then sameExtras.getD ti ["1"]
      else if generic then ["(zz: 1)", "(@: 0, @char: 97)"] else ["1", "(zz: 1)"]
    let ms := tgt.2.map (·.1)
    let setOf (l : List String) : Gen String := do pure ("{" ++ ", ".intercalate (← shuffle l) ++ "}")
    let sup ← setOf (ms ++ extras)
    let src ← match opi with
      | 0 => do pure ("(" ++ sup ++ " &~ " ++ (← setOf extras) ++ ")")
      | 1 => do pure ("(" ++ sup ++ " & " ++ (← setOf (ms ++ ["424242", "(qq: 0)"])) ++ ")")
      | 2 => do pure ("(" ++ sup ++ " ~~ " ++ (← setOf extras) ++ ")")
      | 3 => pure ("(" ++ sup ++ " where " ++
            (if ms.isEmpty then ". = 424242" else " || ".intercalate (ms.map (fun m => ". = " ++ m))) ++ ")")
      | 4 => do pure ((← shuffle extras).foldl (fun acc e => "(" ++ acc ++ " without " ++ e ++ ")") sup)
      | _ => do
        match ms with
        | [m] => pure ("(" ++ (← setOf (if same && generic then ["1", "2"] else extras)) ++ " => " ++ m ++ ")")
        | _ => pure ("((" ++ sup ++ " &~ " ++ sup ++ ") => 1)")
    pure (src, V.mkSet (tgt.2.map (·.2)), tgt.1, "shrink/" ++ tgt.1 ++ "/" ++ toString opi, [])

/-- witnesses of the repaired defects and minimised past failures; always run first -/
def corpus : List Case :=
  let s (cs : List Nat) (off : Int := 0) : V := (Lit.str off cs).den
  let arr3 : V := (Lit.arr 2 [some (.num 3)]).den
  let pos (id a b : String) (v : V) (ctx : String := "") : List Case := mkPair id "corpus" v v a b ctx []
  let evalC (id src : String) (v : V) : Case :=
    { id := id, cls := "good", kind := "eval", stratum := "corpus", model := v.canon, spec := v.canon, payload := [src] }
  List.flatten [
    -- #4 Array.Without at an end next to a hole
    pos "C02-corpus-0" "([1, , 3] without (@: 0, @item: 1))" "2\\[3]" arr3 "\\x x ++ [9]",
    pos "C02-corpus-1" "([3, , 1] without (@: 2, @item: 1))" "[3]" (Lit.arr 0 [some (.num 3)]).den "\\x x ++ [9]",
    [evalC "C02-corpus-2" "([3, , 3] without (@: 2, @item: 3)) ++ [1]" (Lit.arr 0 [some (.num 3), some (.num 1)]).den],
    -- #4 String.Without at an end next to a hole
    pos "C02-corpus-3" "(('a' ++ 1\\'c') without (@: 0, @char: 97))" "2\\'c'" (s [99] 2) "\\x 1\\x",
    pos "C02-corpus-4" "(('a' ++ 1\\'c') without (@: 2, @char: 99))" "'a'" (s [97]) "\\x x ++ 'z'",
    -- #5 +> leaves a generic (@, @char) tuple
    pos "C02-corpus-5" "{(@: 0) +> (@char: 97)}" "'a'" (s [97]) "\\x x ++ 'z'",
    pos "C02-corpus-6" "((@: 0) +> (@item: 7))" "(@: 0, @item: 7)" (V.mkTup [("@", .num 0), ("@item", .num 7)]) "\\x {x}",
    pos "C02-corpus-7" "{() +> (@: 1, @value: 2)}" "{1: 2}" (Lit.dict [(.num 1, .num 2)]).den "\\x x(1)",
    -- #20 out-of-range @byte / negative @char must not be specialised
    mkPair "C02-corpus-8" "corpus" (V.mkTup [("@", .num 0), ("@byte", .num 300)]) (V.mkTup [("@", .num 0), ("@byte", .num 44)])
      "(@: 0, @byte: 300)" "(@: 0, @byte: 44)" "" [],
    mkPair "C02-corpus-9" "corpus" (V.mkSet [V.mkTup [("@", .num 0), ("@char", .num (-1))]]) (V.set [])
      "{(@: 0, @char: -1)}" "{}" "" [],
    pos "C02-corpus-10" "{|@, @char| (0, -1)}" "{(@: 0, @char: -1)}" (V.mkSet [V.mkTup [("@", .num 0), ("@char", .num (-1))]]),
    pos "C02-corpus-11" "{(@: 0, @char: -5) :> . + 100}" "100\\'_'" (s [95] 100) "\\x 1\\x",
    mkPair "C02-corpus-12" "corpus" (s [44]) (V.mkSet [V.mkTup [("@", .num 0), ("@byte", .num 300)]])
      "(<<44>> => (@: .@, @char: .@byte))" "{(@: 0, @byte: 300)}" "" [],
    -- hashes: frozen identifies set elements by their hash; XOR-linear / offset-blind hashes collided
    (let n (k : Int) : V := .num k
     let st (l : List V) : V := V.mkSet l
     let neg (id a b : String) (va vb : V) : List Case := mkPair id "corpus" va vb a b "" []
     List.flatten [
       neg "C02-corpus-20" "{{1, 2}, {3}}" "{{1, 3}, {2}}" (st [st [n 1, n 2], st [n 3]]) (st [st [n 1, n 3], st [n 2]]),
       neg "C02-corpus-21" "{{}}" "{}" (st [st []]) (st []),
       neg "C02-corpus-22" "{{{}}}" "{{}}" (st [st [st []]]) (st [st []]),
       neg "C02-corpus-23" "'a'" "1\\'a'" (s [97]) (s [97] 1),
       neg "C02-corpus-24" "'a'" "<<97>>" (s [97]) (Lit.bytes 0 [97]).den,
       neg "C02-corpus-25" "<<1>>" "1\\<<1>>" (Lit.bytes 0 [1]).den (Lit.bytes 1 [1]).den,
       neg "C02-corpus-26" "[{1, 2}, {3}]" "[{1, 3}, {2}]" (Lit.arr 0 [some (.set [.num 1, .num 2]), some (.set [.num 3])]).den
         (Lit.arr 0 [some (.set [.num 1, .num 3]), some (.set [.num 2])]).den,
       neg "C02-corpus-27" "[true, true]" "[{}, {}]" (Lit.arr 0 [some .tt, some .tt]).den (Lit.arr 0 [some .ff, some .ff]).den,
       neg "C02-corpus-28" "{[1, 2], [3]}" "{[1], [3, 2]}"
         (st [(Lit.arr 0 [some (.num 1), some (.num 2)]).den, (Lit.arr 0 [some (.num 3)]).den])
         (st [(Lit.arr 0 [some (.num 1)]).den, (Lit.arr 0 [some (.num 3), some (.num 2)]).den]),
       neg "C02-corpus-29" "(a: {{}})" "(a: {})" (V.mkTup [("a", st [st []])]) (V.mkTup [("a", st [])]),
       neg "C02-corpus-30" "'a\uFFFDc'" "('a' ++ 1\\'c')" (s [97, 0xFFFD, 99])
         (V.mkSet [V.mkTup [("@", n 0), ("@char", n 97)], V.mkTup [("@", n 2), ("@char", n 99)]]),
       neg "C02-corpus-31" "{1: {(a: 1, b: 2), (c: 3)}}" "{1: {(a: 1), (b: 2, c: 3)}}"
         (Lit.dict [(.num 1, .set [.tup [("a", .num 1), ("b", .num 2)], .tup [("c", .num 3)]])]).den
         (Lit.dict [(.num 1, .set [.tup [("a", .num 1)], .tup [("b", .num 2), ("c", .num 3)]])]).den ]),
    -- #7 item/entry tuples threaded the seed: differently nested tuples hashed alike
    (let n (k : Int) : V := .num k
     let x : V := V.mkTup [("@", V.mkTup [("@", n 1), ("@item", n 5)]), ("@value", n 7)]
     let y : V := V.mkTup [("@", n 1), ("@item", V.mkTup [("@", n 5), ("@value", n 7)])]
     let xs := "(@: (@: 1, @item: 5), @value: 7)"
     let ys := "(@: 1, @item: (@: 5, @value: 7))"
     List.flatten [
       mkPair "C02-corpus-40" "corpus" (V.mkSet [V.mkTup [("@", n 0), ("@item", x)]]) (V.mkSet [V.mkTup [("@", n 0), ("@item", y)]])
         s!"[{xs}]" s!"[{ys}]" "" [],
       mkPair "C02-corpus-41" "corpus" (V.mkSet [V.mkTup [("p", x)]]) (V.mkSet [V.mkTup [("p", y)]])
         ("{(p: " ++ xs ++ ")}") ("{(p: " ++ ys ++ ")}") "" [],
       mkPair "C02-corpus-42" "corpus" (V.mkTup [("p", x)]) (V.mkTup [("p", y)])
         ("(p: " ++ xs ++ ")") ("(p: " ++ ys ++ ")") "" [] ]),
    -- C01's finding, classed narrowly
    mkPair "C02-corpus-13" "corpus" (s [97, 98, 99, 100]) (s [97, 98, 99, 100]) "(2\\'cd' | 'ab')" "'abcd'" ""
      ["KF-string-with-fallback"]
  ]

def gen (seed n : Nat) (thorough : Bool) : List Case := Id.run do
  let mut out := corpus.reverse
  -- transitions: every family and count transition on every run
  for i in [0:(if thorough then 1920 else 240)] do
    let ((a, v, b, stratum, kf), _) := (genTransition i).run (seedOf seed (900000 + i))
    let (ctx, _) := (genCtx v).run (seedOf seed (950000 + i))
    let cs := mkPair s!"C02-t{i}" ("trans/" ++ stratum) v v a b ctx kf
    out := cs.reverse ++ out
  for i in [0:n] do
    let (cs, _) := (genCase i thorough).run (seedOf seed (200000 + i))
    out := cs.reverse ++ out
  pure out.reverse

end Arrai.C02
