/-
  C02 — `sortStrs` (Go's sort.Strings on relation headings): a permutation, and determined by the set of names.
  Core-only.
-/
import Arrai.Core.Canon

namespace Arrai.C02
open Arrai

def leS (a b : String) : Bool := !(b < a)

theorem sortStrs_eq (l : List String) : sortStrs l = l.mergeSort leS := rfl

theorem sortStrs_perm (l : List String) : (sortStrs l).Perm l := List.mergeSort_perm l _

theorem mem_sortStrs (l : List String) (x : String) : x ∈ sortStrs l ↔ x ∈ l := (sortStrs_perm l).mem_iff

theorem leS_trans (a b c : String) (h1 : leS a b = true) (h2 : leS b c = true) : leS a c = true := by
  simp only [leS, Bool.not_eq_true', decide_eq_false_iff_not] at *
  intro h
  rcases Std.lt_trichotomy a b with h3 | h3 | h3
  · exact h2 (Std.lt_trans h h3)
  · subst h3; exact h2 h
  · exact h1 h3

theorem leS_total (a b : String) : (leS a b || leS b a) = true := by
  simp only [leS, Bool.or_eq_true, Bool.not_eq_true', decide_eq_false_iff_not]
  rcases Std.lt_trichotomy a b with h | h | h
  · exact Or.inl (fun h' => Std.lt_irrefl (Std.lt_trans h h'))
  · subst h; exact Or.inl Std.lt_irrefl
  · exact Or.inr (fun h' => Std.lt_irrefl (Std.lt_trans h h'))

theorem leS_antisymm (a b : String) (h1 : leS a b = true) (h2 : leS b a = true) : a = b := by
  simp only [leS, Bool.not_eq_true', decide_eq_false_iff_not] at *
  rcases Std.lt_trichotomy a b with h | h | h
  · exact absurd h h2
  · exact h
  · exact absurd h h1

theorem sortStrs_sorted (l : List String) : (sortStrs l).Pairwise (fun a b => leS a b = true) :=
  List.pairwise_mergeSort leS_trans leS_total l

/-- the sorted heading depends only on the set of (distinct) names -/
theorem sortStrs_eq_iff (l l' : List String) (h : l.Nodup) (h' : l'.Nodup) :
    sortStrs l = sortStrs l' ↔ ∀ x, x ∈ l ↔ x ∈ l' := by
  constructor
  · intro e x
    rw [← mem_sortStrs l, ← mem_sortStrs l', e]
  · intro hm
    have p : l.Perm l' := (List.perm_ext_iff_of_nodup h h').2 hm
    have p' : (sortStrs l).Perm (sortStrs l') := (sortStrs_perm l).trans (p.trans (sortStrs_perm l').symm)
    exact List.Perm.eq_of_pairwise (le := fun a b => leS a b = true)
      (fun a b _ _ h1 h2 => leS_antisymm a b h1 h2) (sortStrs_sorted l) (sortStrs_sorted l') p'

theorem sortStrs_nodup (l : List String) (h : l.Nodup) : (sortStrs l).Nodup := (sortStrs_perm l).nodup_iff.2 h

end Arrai.C02
