/-
  C02 — tuples as name-sorted association lists: `V.mkTup` is determined by the lookup function.
  Core-only.
-/
import Arrai.Core.Canon

namespace Arrai.C02
open Arrai

def lookupV (k : String) : List (String × V) → Option V
  | [] => none
  | (m, v) :: r => if k = m then some v else lookupV k r

def SortedA (l : List (String × V)) : Prop := l.Pairwise (fun a b => a.1 < b.1)

theorem lookupV_insAttr (k n : String) (v : V) : ∀ (l : List (String × V)),
    lookupV k (V.insAttr n v l) = if k = n then some v else lookupV k l
  | [] => by simp [V.insAttr, lookupV]
  | (m, w) :: r => by
    simp only [V.insAttr]
    split
    · simp [lookupV]
    · split
      · next h => subst h; simp only [lookupV]; split <;> simp_all
      · next h1 h2 =>
        simp only [lookupV, lookupV_insAttr k n v r]
        by_cases hk : k = m
        · subst hk
          have : ¬ k = n := fun e => h2 e.symm
          simp [this]
        · simp [hk]

theorem mem_insAttr_name (n : String) (v : V) : ∀ (l : List (String × V)) (p : String × V),
    p ∈ V.insAttr n v l → p.1 = n ∨ p ∈ l
  | [], p, h => by simp [V.insAttr] at h; exact Or.inl (by rw [h])
  | (m, w) :: r, p, h => by
    simp only [V.insAttr] at h
    split at h
    · simp only [List.mem_cons] at h
      rcases h with h | h | h
      · exact Or.inl (by rw [h])
      · exact Or.inr (by simp [h])
      · exact Or.inr (by simp [h])
    · split at h
      · simp only [List.mem_cons] at h
        rcases h with h | h
        · exact Or.inl (by rw [h])
        · exact Or.inr (by simp [h])
      · simp only [List.mem_cons] at h
        rcases h with h | h
        · exact Or.inr (by simp [h])
        · rcases mem_insAttr_name n v r p h with h | h
          · exact Or.inl h
          · exact Or.inr (by simp [h])

theorem sortedA_insAttr (n : String) (v : V) : ∀ (l : List (String × V)), SortedA l → SortedA (V.insAttr n v l)
  | [], _ => by simp [V.insAttr, SortedA]
  | (m, w) :: r, h => by
    unfold SortedA at h
    rw [List.pairwise_cons] at h
    simp only [V.insAttr]
    split
    · next hlt =>
      unfold SortedA
      rw [List.pairwise_cons]
      refine ⟨?_, List.pairwise_cons.2 h⟩
      intro p hp
      simp only [List.mem_cons] at hp
      rcases hp with hp | hp
      · rw [hp]; exact hlt
      · exact Std.lt_trans hlt (h.1 p hp)
    · split
      · next _ he =>
        subst he
        unfold SortedA
        rw [List.pairwise_cons]
        exact ⟨h.1, h.2⟩
      · next h1 h2 =>
        unfold SortedA
        rw [List.pairwise_cons]
        refine ⟨?_, sortedA_insAttr n v r h.2⟩
        intro p hp
        rcases mem_insAttr_name n v r p hp with e | hp
        · rw [e]
          rcases Std.lt_trichotomy n m with h3 | h3 | h3
          · exact absurd h3 h1
          · exact absurd h3 h2
          · exact h3
        · exact h.1 p hp

theorem lookupV_none_of_lt (k : String) : ∀ (l : List (String × V)), (∀ p, p ∈ l → k < p.1) → lookupV k l = none
  | [], _ => rfl
  | (m, w) :: r, h => by
    have hm : k < m := h (m, w) (by simp)
    have : k ≠ m := fun e => by subst e; exact Std.lt_irrefl hm
    simp only [lookupV, this, if_false]
    exact lookupV_none_of_lt k r (fun p hp => h p (List.mem_cons_of_mem _ hp))

/-- a name-sorted association list is determined by its lookup function -/
theorem sortedA_ext : ∀ (a b : List (String × V)), SortedA a → SortedA b →
    (∀ k, lookupV k a = lookupV k b) → a = b
  | [], [], _, _, _ => rfl
  | [], (m, w) :: r, _, _, h => by have := h m; simp [lookupV] at this
  | (n, v) :: r, [], _, _, h => by have := h n; simp [lookupV] at this
  | (n, v) :: r, (m, w) :: r', ha, hb, h => by
    unfold SortedA at ha hb
    rw [List.pairwise_cons] at ha hb
    have hnm : n = m := by
      rcases Std.lt_trichotomy n m with h3 | h3 | h3
      · -- n < m: lookup n in b is none
        have hb' : lookupV n ((m, w) :: r') = none :=
          lookupV_none_of_lt n _ (fun p hp => by
            simp only [List.mem_cons] at hp
            rcases hp with hp | hp
            · rw [hp]; exact h3
            · exact Std.lt_trans h3 (hb.1 p hp))
        have := h n
        rw [hb'] at this
        simp [lookupV] at this
      · exact h3
      · have ha' : lookupV m ((n, v) :: r) = none :=
          lookupV_none_of_lt m _ (fun p hp => by
            simp only [List.mem_cons] at hp
            rcases hp with hp | hp
            · rw [hp]; exact h3
            · exact Std.lt_trans h3 (ha.1 p hp))
        have := h m
        rw [ha'] at this
        simp [lookupV] at this
    subst hnm
    have hvw : v = w := by have := h n; simpa [lookupV] using this
    subst hvw
    congr 1
    apply sortedA_ext r r' ha.2 hb.2
    intro k
    by_cases hk : k = n
    · subst hk
      rw [lookupV_none_of_lt k r (fun p hp => ha.1 p hp), lookupV_none_of_lt k r' (fun p hp => hb.1 p hp)]
    · have := h k
      simpa [lookupV, hk] using this

def mkAttrs (l : List (String × V)) : List (String × V) := l.foldr (fun p acc => V.insAttr p.1 p.2 acc) []

theorem mkTup_eq (l : List (String × V)) : V.mkTup l = .tup (mkAttrs l) := rfl

theorem sortedA_mkAttrs : ∀ (l : List (String × V)), SortedA (mkAttrs l)
  | [] => by simp [mkAttrs, SortedA]
  | (n, v) :: r => by
    show SortedA (V.insAttr n v (mkAttrs r))
    exact sortedA_insAttr n v _ (sortedA_mkAttrs r)

theorem lookupV_mkAttrs (k : String) : ∀ (l : List (String × V)), lookupV k (mkAttrs l) = lookupV k l
  | [] => rfl
  | (n, v) :: r => by
    show lookupV k (V.insAttr n v (mkAttrs r)) = _
    rw [lookupV_insAttr, lookupV_mkAttrs k r]
    simp [lookupV]

/-- `mkTup` is determined by the lookup function of its argument -/
theorem mkTup_eq_iff (l l' : List (String × V)) : V.mkTup l = V.mkTup l' ↔ ∀ k, lookupV k l = lookupV k l' := by
  rw [mkTup_eq, mkTup_eq]
  constructor
  · intro h k
    have h' : mkAttrs l = mkAttrs l' := by simpa using h
    rw [← lookupV_mkAttrs k l, ← lookupV_mkAttrs k l', h']
  · intro h
    congr 1
    apply sortedA_ext _ _ (sortedA_mkAttrs l) (sortedA_mkAttrs l')
    intro k
    rw [lookupV_mkAttrs, lookupV_mkAttrs, h]

end Arrai.C02
