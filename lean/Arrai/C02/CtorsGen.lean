/-
  C02 — general (unbounded) constructor theorems: the sequence constructors and `Without` return canonical
  forms of the intended denotation, for every input.  Core-only.
-/
import Arrai.C02.Lemmas
import Arrai.C02.Ctors

namespace Arrai.C02
open Arrai Arrai.FinSet Arrai.C02.Rep Arrai.C02.Impl

/-! ## keyed sequences: members, appending, removing one member -/

theorem seqM_append (name : String) : ∀ (a b : List (Option V)) (off : Int),
    seqM name off (a ++ b) = seqM name off a ++ seqM name (off + a.length) b
  | [], b, off => by simp [seqM]
  | some x :: r, b, off => by
    simp only [List.cons_append, seqM, List.length_cons, seqM_append name r b (off + 1)]
    have : off + 1 + (r.length : Int) = off + ((r.length + 1 : Nat) : Int) := by push_cast; omega
    rw [this]
  | none :: r, b, off => by
    simp only [List.cons_append, seqM, List.length_cons, seqM_append name r b (off + 1)]
    have : off + 1 + (r.length : Int) = off + ((r.length + 1 : Nat) : Int) := by push_cast; omega
    rw [this]

theorem seqM_index_lt (name : String) : ∀ (xs : List (Option V)) (off : Int) (v : V),
    v ∈ seqM name off xs → ∃ i x, v = vpair name (.num i) x ∧ off ≤ i ∧ i < off + xs.length
  | [], _, v, h => by simp [seqM] at h
  | some a :: r, off, v, h => by
    simp only [seqM, List.mem_cons] at h
    rcases h with h | h
    · exact ⟨off, a, h, Int.le_refl _, by simp; omega⟩
    · obtain ⟨i, x, e, h1, h2⟩ := seqM_index_lt name r (off + 1) v h
      exact ⟨i, x, e, by omega, by simp; omega⟩
  | none :: r, off, v, h => by
    simp only [seqM] at h
    obtain ⟨i, x, e, h1, h2⟩ := seqM_index_lt name r (off + 1) v h
    exact ⟨i, x, e, by omega, by simp; omega⟩

/-- membership in a keyed sequence -/
theorem seqM_mem (name : String) : ∀ (xs : List (Option V)) (off : Int) (i : Int) (d : V),
    vpair name (.num i) d ∈ seqM name off xs ↔ ∃ k : Nat, i = off + k ∧ xs[k]? = some (some d)
  | [], off, i, d => by simp [seqM]
  | some a :: r, off, i, d => by
    simp only [seqM, List.mem_cons]
    rw [seqM_mem name r (off + 1) i d]
    constructor
    · rintro (h | ⟨k, hk, hx⟩)
      · obtain ⟨h1, h2⟩ := vpair_inj h
        simp at h1
        exact ⟨0, by simp [h1], by simp [h2]⟩
      · exact ⟨k + 1, by push_cast; omega, by simpa using hx⟩
    · rintro ⟨k, hk, hx⟩
      cases k with
      | zero => simp at hx hk; subst hk; subst hx; exact Or.inl rfl
      | succ k => exact Or.inr ⟨k, by push_cast at hk; omega, by simpa using hx⟩
  | none :: r, off, i, d => by
    simp only [seqM]
    rw [seqM_mem name r (off + 1) i d]
    constructor
    · rintro ⟨k, hk, hx⟩
      exact ⟨k + 1, by push_cast; omega, by simpa using hx⟩
    · rintro ⟨k, hk, hx⟩
      cases k with
      | zero => simp at hx
      | succ k => exact ⟨k, by push_cast at hk; omega, by simpa using hx⟩

def dropV (v : V) (l : List V) : List V := l.filter (fun m => !veq m v)

theorem dropV_noop (v : V) (l : List V) (h : v ∉ l) : dropV v l = l := by
  apply List.filter_eq_self.2
  intro a ha
  have : a ≠ v := fun e => h (e ▸ ha)
  simp [veq, this]

theorem specWithout_eq (l : List V) (v : V) : specWithout l v = .set (dropV v l) := rfl

/-- removing the first member -/
theorem seqM_drop_head (name : String) (off : Int) (d : V) (r : List (Option V)) :
    dropV (vpair name (.num off) d) (seqM name off (some d :: r)) = seqM name (off + 1) r := by
  simp only [seqM, dropV, List.filter_cons, veq, decide_true, Bool.not_true, Bool.false_eq_true, if_false]
  apply List.filter_eq_self.2
  intro a ha
  obtain ⟨i, x, e, hi⟩ := seqM_index name r (off + 1) a ha
  subst e
  have : vpair name (V.num i) x ≠ vpair name (V.num off) d := by
    intro h; have := (vpair_inj h).1; simp at this; omega
  simp [this]

/-- removing the last member -/
theorem seqM_drop_last (name : String) (off : Int) (d : V) (r : List (Option V)) :
    dropV (vpair name (.num (off + r.length)) d) (seqM name off (r ++ [some d])) = seqM name off r := by
  rw [seqM_append]
  simp only [seqM, dropV, List.filter_append, List.filter_cons, veq, decide_true, Bool.not_true,
    Bool.false_eq_true, if_false, List.filter_nil, List.append_nil]
  apply List.filter_eq_self.2
  intro a ha
  obtain ⟨i, x, e, _, hi⟩ := seqM_index_lt name r off a ha
  subst e
  have : vpair name (V.num i) x ≠ vpair name (V.num (off + r.length)) d := by
    intro h; have := (vpair_inj h).1; simp at this; omega
  simp [this]

/-- punching a hole removes exactly that member -/
theorem seqM_set_none (name : String) : ∀ (xs : List (Option V)) (off : Int) (k : Nat) (d : V),
    xs[k]? = some (some d) →
    seqM name off (xs.set k none) = dropV (vpair name (.num (off + k)) d) (seqM name off xs)
  | [], _, _, _, h => by simp at h
  | x :: r, off, 0, d, h => by
    simp at h; subst h
    simp only [List.set_cons_zero, seqM]
    have := seqM_drop_head name off d r
    simp only [seqM] at this
    simpa using this.symm
  | some a :: r, off, k + 1, d, h => by
    have ih := seqM_set_none name r (off + 1) k d (by simpa using h)
    have e : off + ((k + 1 : Nat) : Int) = off + 1 + (k : Int) := by push_cast; omega
    rw [e]
    have : vpair name (V.num off) a ≠ vpair name (V.num (off + 1 + (k : Int))) d := by
      intro h; have := (vpair_inj h).1; simp at this; omega
    simp only [List.set_cons_succ, seqM, ih, dropV, List.filter_cons]
    simp [veq, this]
  | none :: r, off, k + 1, d, h => by
    have ih := seqM_set_none name r (off + 1) k d (by simpa using h)
    have e : off + 1 + (k : Int) = off + ((k + 1 : Nat) : Int) := by push_cast; omega
    simp only [List.set_cons_succ, seqM, ih, e]

/-! ## trimming -/

theorem seqM_dropLeadingNone (name : String) : ∀ (xs : List (Option V)) (off : Int),
    seqM name (dropLeadingNone xs off).2 (dropLeadingNone xs off).1 = seqM name off xs
  | [], off => by simp [dropLeadingNone]
  | some a :: r, off => by simp [dropLeadingNone]
  | none :: r, off => by simp [dropLeadingNone, seqM, seqM_dropLeadingNone name r (off + 1)]

theorem seqM_dropTrailingNone (name : String) : ∀ (xs : List (Option V)) (off : Int),
    seqM name off (dropTrailingNone xs) = seqM name off xs
  | [], off => by simp [dropTrailingNone]
  | x :: r, off => by
    have ih := seqM_dropTrailingNone name r (off + 1)
    simp only [dropTrailingNone]
    cases h : dropTrailingNone r with
    | nil =>
      rw [h] at ih
      cases x with
      | none => simp [seqM, ← ih]
      | some a => simp [seqM, ← ih]
    | cons y r' =>
      rw [h] at ih
      cases x with
      | none => simp [seqM, ih]
      | some a => simp [seqM, ih]

theorem headSome_dropLeadingNone {α} : ∀ (xs : List (Option α)) (off : Int),
    (dropLeadingNone xs off).1 = [] ∨ headSome (dropLeadingNone xs off).1 = true
  | [], off => by simp [dropLeadingNone]
  | some a :: r, off => by simp [dropLeadingNone, headSome]
  | none :: r, off => by simpa [dropLeadingNone] using headSome_dropLeadingNone r (off + 1)

theorem lastSome_dropTrailingNone {α} : ∀ (xs : List (Option α)),
    dropTrailingNone xs = [] ∨ lastSome (dropTrailingNone xs) = true
  | [] => by simp [dropTrailingNone]
  | x :: r => by
    simp only [dropTrailingNone]
    cases h : dropTrailingNone r with
    | nil => cases x <;> simp [lastSome]
    | cons y r' =>
      have := lastSome_dropTrailingNone r
      rw [h] at this
      simp [lastSome] at this ⊢
      exact this

theorem headSome_dropTrailingNone {α} : ∀ (xs : List (Option α)), headSome xs = true →
    headSome (dropTrailingNone xs) = true
  | [], h => by simp [headSome] at h
  | none :: r, h => by simp [headSome] at h
  | some a :: r, _ => by
    simp only [dropTrailingNone]
    cases dropTrailingNone r <;> simp [headSome]

theorem mem_dropLeadingNone {α} : ∀ (xs : List (Option α)) (off : Int) (x : Option α),
    x ∈ (dropLeadingNone xs off).1 → x ∈ xs
  | [], _, _, h => by simp [dropLeadingNone] at h
  | some a :: r, off, x, h => by simpa [dropLeadingNone] using h
  | none :: r, off, x, h => by
    simp only [dropLeadingNone] at h
    exact List.mem_cons_of_mem _ (mem_dropLeadingNone r (off + 1) x h)

theorem mem_dropTrailingNone {α} : ∀ (xs : List (Option α)) (x : Option α), x ∈ dropTrailingNone xs → x ∈ xs
  | [], _, h => by simp [dropTrailingNone] at h
  | y :: r, x, h => by
    simp only [dropTrailingNone] at h
    cases hr : dropTrailingNone r with
    | nil =>
      rw [hr] at h
      cases y <;> simp at h
      subst h; simp
    | cons z r' =>
      rw [hr] at h
      simp only [List.mem_cons] at h ⊢
      rcases h with h | h
      · exact Or.inl h
      · exact Or.inr (mem_dropTrailingNone r x (by rw [hr]; simpa using h))

theorem wfOpts_of_mem (vs ws : List (Option Rep)) (h : ∀ x, x ∈ ws → x ∈ vs) (hw : wfOpts vs = true) :
    wfOpts ws = true := by
  induction ws with
  | nil => rfl
  | cons y r ih =>
    have ihr := ih (fun x hx => h x (List.mem_cons_of_mem _ hx))
    cases y with
    | none => simpa [wfOpts] using ihr
    | some v =>
      simp only [wfOpts, Bool.and_eq_true]
      exact ⟨wfOpts_mem vs v hw (h _ (by simp)), ihr⟩

theorem denOpts_map : ∀ (vs : List (Option Rep)), denOpts vs = vs.map (Option.map den)
  | [] => rfl
  | some _ :: r => by simp [denOpts, denOpts_map r]
  | none :: r => by simp [denOpts, denOpts_map r]

theorem dropLeadingNone_map {α β} (f : α → β) : ∀ (xs : List (Option α)) (off : Int),
    dropLeadingNone (xs.map (Option.map f)) off = (((dropLeadingNone xs off).1).map (Option.map f), (dropLeadingNone xs off).2)
  | [], off => by simp [dropLeadingNone]
  | some a :: r, off => by simp [dropLeadingNone]
  | none :: r, off => by simp [dropLeadingNone, dropLeadingNone_map f r (off + 1)]

theorem dropTrailingNone_map {α β} (f : α → β) : ∀ (xs : List (Option α)),
    dropTrailingNone (xs.map (Option.map f)) = (dropTrailingNone xs).map (Option.map f)
  | [] => by simp [dropTrailingNone]
  | x :: r => by
    simp only [List.map_cons, dropTrailingNone, dropTrailingNone_map f r]
    cases dropTrailingNone r with
    | nil => cases x <;> simp
    | cons y r' => simp

/-- `NewOffsetArray` returns the canonical array (or `{}`) denoting exactly the present items -/
theorem new_offset_array_wf_den (off : Int) (vs : List (Option Rep)) (hw : wfOpts vs = true) :
    wf (newOffsetArray off vs) = true ∧
    den (newOffsetArray off vs) = .set (seqM "@item" off (denOpts vs)) := by
  unfold newOffsetArray
  have hsub : ∀ x, x ∈ dropTrailingNone (dropLeadingNone vs off).1 → x ∈ vs :=
    fun x hx => mem_dropLeadingNone vs off x (mem_dropTrailingNone _ x hx)
  have hden : seqM "@item" (dropLeadingNone vs off).2 (denOpts (dropTrailingNone (dropLeadingNone vs off).1)) =
      seqM "@item" off (denOpts vs) := by
    rw [denOpts_map, ← dropTrailingNone_map, seqM_dropTrailingNone]
    have := seqM_dropLeadingNone "@item" (vs.map (Option.map den)) off
    rw [dropLeadingNone_map] at this
    rw [denOpts_map]; exact this
  simp only []
  cases hv : dropTrailingNone (dropLeadingNone vs off).1 with
  | nil =>
    rw [hv] at hden
    simp [wf, den, ← hden, denOpts, seqM]
  | cons y r =>
    have hne : dropTrailingNone (dropLeadingNone vs off).1 ≠ [] := by rw [hv]; simp
    simp only [List.isEmpty_cons, Bool.false_eq_true, if_false]
    rw [← hv]
    refine ⟨?_, by rw [den_array, hden]⟩
    simp only [wf, Bool.and_eq_true, beq_iff_eq]
    refine ⟨⟨⟨?_, ?_⟩, wfOpts_of_mem vs _ hsub hw⟩, trivial⟩
    · rcases headSome_dropLeadingNone vs off with h | h
      · rw [h] at hne; simp [dropTrailingNone] at hne
      · exact headSome_dropTrailingNone _ h
    · rcases lastSome_dropTrailingNone (dropLeadingNone vs off).1 with h | h
      · exact absurd h hne
      · exact h


/-! ## `Array.Without` -/

theorem denOpts_getElem (vs : List (Option Rep)) (k : Nat) : (denOpts vs)[k]? = (vs[k]?).map (Option.map den) := by
  rw [denOpts_map]; simp

theorem denOpts_set_none (vs : List (Option Rep)) (k : Nat) : denOpts (vs.set k none) = (denOpts vs).set k none := by
  rw [denOpts_map, denOpts_map, List.map_set]; rfl

theorem optCount_cons_some {α} (a : α) (r : List (Option α)) : optCount (some a :: r) = optCount r + 1 := by
  simp [optCount]
theorem optCount_cons_none {α} (r : List (Option α)) : optCount ((none : Option α) :: r) = optCount r := by
  simp [optCount]

theorem optCount_set_none {α} : ∀ (vs : List (Option α)) (k : Nat) (v : α), vs[k]? = some (some v) →
    optCount (vs.set k none) + 1 = optCount vs
  | [], _, _, h => by simp at h
  | x :: r, 0, v, h => by
    simp at h; subst h
    simp [optCount]
  | x :: r, k + 1, v, h => by
    have ih := optCount_set_none r k v (by simpa using h)
    cases x <;> simp [optCount] at ih ⊢ <;> omega

theorem optCount_pos_of_get {α} : ∀ (vs : List (Option α)) (k : Nat) (v : α), vs[k]? = some (some v) → 0 < optCount vs
  | [], _, _, h => by simp at h
  | x :: r, 0, v, h => by simp at h; subst h; simp [optCount]
  | x :: r, k + 1, v, h => by
    have ih := optCount_pos_of_get r k v (by simpa using h)
    cases x <;> simp [optCount] at ih ⊢ <;> omega

theorem optCount_ge_two {α} (vs : List (Option α)) (k : Nat) (v : α) (hh : headSome vs = true) (hk : 0 < k)
    (h : vs[k]? = some (some v)) : 2 ≤ optCount vs := by
  cases vs with
  | nil => simp at h
  | cons x r =>
    cases x with
    | none => simp [headSome] at hh
    | some a =>
      cases k with
      | zero => exact absurd hk (Nat.lt_irrefl 0)
      | succ k =>
        have := optCount_pos_of_get r k v (by simpa using h)
        rw [optCount_cons_some]; omega

theorem headSome_set {α} (vs : List (Option α)) (k : Nat) (y : Option α) (hk : 0 < k) (h : headSome vs = true) :
    headSome (vs.set k y) = true := by
  cases vs with
  | nil => simp [headSome] at h
  | cons x r =>
    cases k with
    | zero => exact absurd hk (Nat.lt_irrefl 0)
    | succ k => cases x <;> simpa [headSome] using h

theorem lastSome_set {α} : ∀ (vs : List (Option α)) (k : Nat) (y : Option α), k + 1 < vs.length →
    lastSome vs = true → lastSome (vs.set k y) = true
  | [], _, _, h, _ => by simp at h
  | [x], k, _, h, _ => by simp at h
  | x :: z :: r, 0, y, _, hl => by simpa [lastSome] using hl
  | x :: z :: r, k + 1, y, h, hl => by
    simp only [List.set_cons_succ]
    have := lastSome_set (z :: r) k y (by simpa using h) (by simpa [lastSome] using hl)
    cases hs : (z :: r).set k y with
    | nil => simp at hs
    | cons w r' => rw [hs] at this; simpa [lastSome] using this

theorem wfOpts_set_none : ∀ (vs : List (Option Rep)) (k : Nat), wfOpts vs = true → wfOpts (vs.set k none) = true
  | [], _, _ => by simp [wfOpts]
  | x :: r, 0, h => by cases x <;> simp [wfOpts] at h ⊢ <;> simp [h]
  | x :: r, k + 1, h => by
    cases x with
    | none => simpa [wfOpts] using wfOpts_set_none r k (by simpa [wfOpts] using h)
    | some v =>
      simp only [wfOpts, Bool.and_eq_true] at h
      simp only [List.set_cons_succ, wfOpts, Bool.and_eq_true]
      exact ⟨h.1, wfOpts_set_none r k h.2⟩


theorem tail_eq_of_head {α} (vs : List α) (v : α) (h : vs[0]? = some v) : vs = v :: vs.tail := by
  cases vs with
  | nil => simp at h
  | cons x r => simp at h; subst h; rfl

theorem dropLast_append_last {α} (vs : List α) (v : α) (h : vs[vs.length - 1]? = some v) (hne : vs ≠ []) :
    vs = vs.dropLast ++ [v] := by
  have hlt : vs.length - 1 < vs.length := by
    cases vs with
    | nil => exact absurd rfl hne
    | cons _ _ => simp
  have hv : vs.getLast hne = v := by
    rw [List.getLast_eq_getElem]
    rw [List.getElem?_eq_getElem hlt] at h
    exact Option.some.inj h
  have := List.dropLast_concat_getLast hne
  rw [hv] at this
  exact this.symm

/-- `Array.Without` (repaired): a canonical result denoting the array without exactly that member.
`H` says that `Equal` between the stored items and the argument decides equality of denotations
(`equal_iff_den`). -/
theorem array_without_wf_den (vs : List (Option Rep)) (off c ix : Int) (item : Rep)
    (hw : wf (.array vs off c) = true)
    (H : ∀ v, some v ∈ vs → (equal v item = true ↔ den v = den item)) :
    wf (arrWithout vs off c ix item) = true ∧
    den (arrWithout vs off c ix item) =
      specWithout (arrMembers off (denOpts vs)) (vpair "@item" (.num ix) (den item)) := by
  have hw0 := hw
  simp only [wf, Bool.and_eq_true, beq_iff_eq] at hw
  obtain ⟨⟨⟨hh, hl⟩, hwo⟩, hc⟩ := hw
  rw [arrMembers_eq, specWithout_eq]
  -- the member is absent: nothing changes
  have noop : vpair "@item" (.num ix) (den item) ∉ seqM "@item" off (denOpts vs) →
      wf (.array vs off c) = true ∧
      den (.array vs off c) = .set (dropV (vpair "@item" (.num ix) (den item)) (seqM "@item" off (denOpts vs))) := by
    intro h
    rw [dropV_noop _ _ h, den_array]
    exact ⟨hw0, rfl⟩
  unfold arrWithout arrWithoutG
  simp only []
  by_cases hr : (decide (0 ≤ ix - off) && decide (ix - off < (vs.length : Int))) = true
  · simp only [hr, if_true]
    simp only [Bool.and_eq_true, decide_eq_true_eq] at hr
    obtain ⟨k, hk⟩ : ∃ k : Nat, ix - off = k := ⟨(ix - off).toNat, by omega⟩
    have hkn : (ix - off).toNat = k := by omega
    have hklt : k < vs.length := by omega
    rw [hkn]
    cases hv : vs[k]? with
    | none => rw [List.getElem?_eq_getElem hklt] at hv; cases hv
    | some o =>
      cases o with
      | none =>
        simp only []
        apply noop
        rw [seqM_mem]
        rintro ⟨k', hk', hx⟩
        have : k' = k := by omega
        subst this
        rw [denOpts_getElem, hv] at hx
        simp at hx
      | some v =>
        simp only []
        have hmem : some v ∈ vs := List.mem_of_getElem? hv
        by_cases he : equal v item = true
        · have hd : den v = den item := (H v hmem).1 he
          simp only [he, if_true]
          by_cases h0 : (ix == off) = true
          · -- first item
            simp only [h0, if_true]
            have hk0 : k = 0 := by simp at h0; omega
            subst hk0
            have hvs := tail_eq_of_head vs (some v) hv
            have hwt : wfOpts vs.tail = true := by
              rw [hvs] at hwo; simp only [wfOpts, Bool.and_eq_true] at hwo; exact hwo.2
            obtain ⟨w1, w2⟩ := new_offset_array_wf_den (off + 1) vs.tail hwt
            refine ⟨w1, ?_⟩
            rw [w2]
            have e : ix = off := by simpa using h0
            rw [e, ← hd]
            have hvs' : denOpts vs = some (den v) :: denOpts vs.tail := by
              rw [denOpts_map, denOpts_map]; conv => lhs; rw [hvs]
              simp
            rw [hvs', seqM_drop_head]
          · simp only [h0, Bool.false_eq_true, if_false]
            by_cases h1 : (ix == off + (vs.length : Int) - 1) = true
            · -- last item
              simp only [h1, if_true]
              have hkl : k = vs.length - 1 := by simp at h1; omega
              have hne : vs ≠ [] := by intro e; rw [e] at hklt; simp at hklt
              have hvs := dropLast_append_last vs (some v) (by rw [← hkl]; exact hv) hne
              have hwt : wfOpts vs.dropLast = true :=
                wfOpts_of_mem vs _ (fun x hx => List.dropLast_subset vs hx) hwo
              obtain ⟨w1, w2⟩ := new_offset_array_wf_den off vs.dropLast hwt
              refine ⟨w1, ?_⟩
              rw [w2]
              have e : ix = off + (vs.dropLast.length : Int) := by
                simp at h1; rw [List.length_dropLast]; omega
              rw [e, ← hd]
              have hvs' : denOpts vs = denOpts vs.dropLast ++ [some (den v)] := by
                rw [denOpts_map, denOpts_map]; conv => lhs; rw [hvs]
                simp
              have hl' : (denOpts vs.dropLast).length = vs.dropLast.length := denOpts_length _
              rw [hvs', ← hl', seqM_drop_last]
            · -- a middle item: punch a hole
              simp only [h1, Bool.false_eq_true, if_false]
              have hkpos : 0 < k := by simp at h0; omega
              have hklast : k + 1 < vs.length := by simp at h1; omega
              have hcnt := optCount_set_none vs k v hv
              have h2 := optCount_ge_two vs k v hh hkpos hv
              have hcpos : c - 1 > 0 := by rw [hc]; omega
              simp only [hcpos, if_true]
              refine ⟨?_, ?_⟩
              · simp only [wf, Bool.and_eq_true, beq_iff_eq]
                refine ⟨⟨⟨headSome_set vs k none hkpos hh, lastSome_set vs k none hklast hl⟩,
                  wfOpts_set_none vs k hwo⟩, ?_⟩
                rw [hc]; omega
              · rw [den_array, denOpts_set_none,
                  seqM_set_none "@item" (denOpts vs) off k (den v) (by rw [denOpts_getElem, hv]; rfl)]
                have e : ix = off + (k : Int) := by omega
                rw [e, hd]
        · -- a different item is stored there
          have he' : equal v item = false := by simpa using he
          simp only [he', Bool.false_eq_true, if_false]
          apply noop
          rw [seqM_mem]
          rintro ⟨k', hk', hx⟩
          have : k' = k := by omega
          subst this
          rw [denOpts_getElem, hv] at hx
          simp at hx
          exact he ((H v hmem).2 hx)
  · simp only [hr, Bool.false_eq_true, if_false]
    apply noop
    rw [seqM_mem]
    rintro ⟨k', hk', hx⟩
    have hlt : k' < (denOpts vs).length := by
      apply Nat.lt_of_not_le
      intro hge
      rw [List.getElem?_eq_none hge] at hx
      cases hx
    rw [denOpts_length] at hlt
    apply hr
    simp only [Bool.and_eq_true, decide_eq_true_eq]
    omega


/-! ## strings -/

def runesOk (s : List Int) : Bool := s.all (fun c => decide (-1 ≤ c) && decide (c ≤ 0x10FFFF))

theorem countNeg_cons (c : Int) (r : List Int) : countNeg (c :: r) = (if c < 0 then 1 else 0) + countNeg r := by
  unfold countNeg
  by_cases h : c < 0 <;> simp [h] <;> omega

theorem strCount_cons (c : Int) (r : List Int) : strCount (c :: r) = (if c < 0 then 0 else 1) + strCount r := by
  unfold strCount
  by_cases h : c < 0
  · have : ¬ 0 ≤ c := by omega
    simp [h, this]
  · have : 0 ≤ c := by omega
    simp [h, this]; omega

theorem countNeg_add_strCount : ∀ (s : List Int), countNeg s + (strCount s : Int) = (s.length : Int)
  | [] => by simp [countNeg, strCount]
  | c :: r => by
    have ih := countNeg_add_strCount r
    rw [countNeg_cons, strCount_cons]
    by_cases h : c < 0 <;> simp [h] <;> omega

theorem wf_str_iff (s : List Int) (off holes : Int) :
    wf (.str s off holes) = true ↔
      (headNonneg s = true ∧ lastNonneg s = true ∧ runesOk s = true ∧ holes = countNeg s) := by
  have := countNeg_add_strCount s
  simp only [wf, runesOk, Bool.and_eq_true, beq_iff_eq]
  constructor
  · rintro ⟨⟨⟨h1, h2⟩, h3⟩, h4⟩; exact ⟨h1, h2, h3, by omega⟩
  · rintro ⟨h1, h2, h3, h4⟩; exact ⟨⟨⟨h1, h2⟩, h3⟩, by omega⟩

/-- `NewOffsetString` on a list without holes at its ends -/
theorem new_offset_string_wf_den (s : List Int) (off : Int)
    (hends : s = [] ∨ (headNonneg s = true ∧ lastNonneg s = true)) (hr : runesOk s = true) :
    wf (newOffsetString s off) = true ∧ den (newOffsetString s off) = .set (strMembers off s) := by
  unfold newOffsetString
  rcases hends with rfl | ⟨h1, h2⟩
  · simp [wf, den, strMembers]
  · have : s.isEmpty = false := by cases s <;> simp [headNonneg] at h1 ⊢
    simp only [this, Bool.false_eq_true, if_false]
    exact ⟨(wf_str_iff _ _ _).2 ⟨h1, h2, hr, rfl⟩, den_str _ _ _⟩

/-! ### trimming holes -/

theorem dropLeadingNeg_spec : ∀ (s : List Int) (off holes : Int),
    strMembers (dropLeadingNeg s off holes).2.1 (dropLeadingNeg s off holes).1 = strMembers off s ∧
    ((dropLeadingNeg s off holes).1 = [] ∨ headNonneg (dropLeadingNeg s off holes).1 = true) ∧
    (holes = countNeg s → (dropLeadingNeg s off holes).2.2 = countNeg (dropLeadingNeg s off holes).1) ∧
    (runesOk s = true → runesOk (dropLeadingNeg s off holes).1 = true) ∧
    (lastNonneg s = true → lastNonneg (dropLeadingNeg s off holes).1 = true)
  | [], off, holes => by simp [dropLeadingNeg]
  | c :: r, off, holes => by
    by_cases h : c < 0
    · obtain ⟨i1, i2, i3, i4, i5⟩ := dropLeadingNeg_spec r (off + 1) (holes - 1)
      simp only [dropLeadingNeg, h, if_true]
      refine ⟨by rw [i1]; simp [strMembers, h], i2, ?_, ?_, ?_⟩
      · intro hh; apply i3; rw [hh, countNeg_cons]; simp [h]; omega
      · intro hr; apply i4; simp [runesOk] at hr ⊢; exact hr.2
      · intro hl; apply i5
        cases r with
        | nil => simp [lastNonneg] at hl; omega
        | cons d r' => simpa [lastNonneg] using hl
    · simp only [dropLeadingNeg, h, if_false]
      exact ⟨trivial, Or.inr (by simp [headNonneg]; omega), fun hh => hh, fun hr => hr, fun hl => hl⟩

theorem trimBackNeg_spec : ∀ (s : List Int) (off : Int),
    strMembers off (trimBackNeg s).1 = strMembers off s ∧
    ((trimBackNeg s).1 = [] ∨ lastNonneg (trimBackNeg s).1 = true) ∧
    countNeg (trimBackNeg s).1 = countNeg s - (trimBackNeg s).2 ∧
    (runesOk s = true → runesOk (trimBackNeg s).1 = true) ∧
    (headNonneg s = true → headNonneg (trimBackNeg s).1 = true)
  | [], off => by simp [trimBackNeg, countNeg]
  | c :: r, off => by
    obtain ⟨i1, i2, i3, i4, i5⟩ := trimBackNeg_spec r (off + 1)
    simp only [trimBackNeg]
    cases hr : trimBackNeg r with
    | mk r' k =>
      rw [hr] at i1 i2 i3 i4
      simp only [] at i1 i2 i3 i4
      cases r' with
      | nil =>
        by_cases h : c < 0
        · simp only [h, if_true]
          refine ⟨by simp [strMembers, h, ← i1], Or.inl trivial, ?_, fun _ => rfl, ?_⟩
          · rw [countNeg_cons]; simp [h, countNeg] at i3 ⊢; omega
          · intro hh; simp [headNonneg] at hh; omega
        · simp only [h, if_false]
          refine ⟨by simp [strMembers, h, ← i1], Or.inr (by simp [lastNonneg]; omega), ?_, ?_, ?_⟩
          · rw [countNeg_cons, countNeg_cons]; simp [h, countNeg] at i3 ⊢; omega
          · intro hq; simp [runesOk] at hq ⊢; exact hq.1
          · intro _; simp [headNonneg]; omega
      | cons d r'' =>
        simp only []
        refine ⟨?_, ?_, ?_, ?_, ?_⟩
        · by_cases h : c < 0 <;> simp only [strMembers, h, if_true, if_false] <;> rw [← i1] <;> simp [strMembers]
        · rcases i2 with i2 | i2
          · cases i2
          · exact Or.inr (by simpa [lastNonneg] using i2)
        · rw [countNeg_cons c (d :: r''), countNeg_cons c r, i3]; omega
        · intro hq
          simp only [runesOk, List.all_cons, Bool.and_eq_true] at hq ⊢
          exact ⟨hq.1, by simpa [runesOk] using i4 (by simpa [runesOk] using hq.2)⟩
        · intro hh; simpa [headNonneg] using hh

/-- `String.trimHoles`: same members, no hole at either end, holes recounted -/
theorem strTrimHoles_spec (s : List Int) (off holes : Int) (hh : holes = countNeg s) (hr : runesOk s = true) :
    strMembers (strTrimHoles s off holes).2.1 (strTrimHoles s off holes).1 = strMembers off s ∧
    ((strTrimHoles s off holes).1 = [] ∨
      (headNonneg (strTrimHoles s off holes).1 = true ∧ lastNonneg (strTrimHoles s off holes).1 = true)) ∧
    (strTrimHoles s off holes).2.2 = countNeg (strTrimHoles s off holes).1 ∧
    runesOk (strTrimHoles s off holes).1 = true := by
  obtain ⟨a1, a2, a3, a4, _⟩ := dropLeadingNeg_spec s off holes
  obtain ⟨b1, b2, b3, b4, b5⟩ := trimBackNeg_spec (dropLeadingNeg s off holes).1 (dropLeadingNeg s off holes).2.1
  simp only [strTrimHoles, dropTrailingNeg]
  refine ⟨by rw [b1, a1], ?_, ?_, b4 (a4 hr)⟩
  · rcases b2 with b2 | b2
    · exact Or.inl b2
    · rcases a2 with a2 | a2
      · rw [a2] at b2; simp [trimBackNeg, lastNonneg] at b2
      · exact Or.inr ⟨b5 a2, b2⟩
  · rw [b3, a3 hh]


/-! ### `String.Without` -/

def strFinish (t : List Int × Int × Int) : Rep := strFinishG true t

theorem strWithout_eq (s : List Int) (off holes ix ch : Int) :
    strWithout s off holes ix ch = strFinish (strStage1 s off holes ix ch) := rfl

theorem strCount_pos_of_head (s : List Int) (h : headNonneg s = true) : 0 < strCount s := by
  cases s with
  | nil => simp [headNonneg] at h
  | cons c r =>
    simp [headNonneg] at h
    rw [strCount_cons]
    have : ¬ c < 0 := by omega
    simp [this]; omega

theorem strFinish_spec (s' : List Int) (off' holes' : Int) (h2 : holes' = countNeg s') (h3 : runesOk s' = true) :
    wf (strFinish (s', off', holes')) = true ∧ den (strFinish (s', off', holes')) = .set (strMembers off' s') := by
  obtain ⟨t1, t2, t3, t4⟩ := strTrimHoles_spec s' off' holes' h2 h3
  unfold strFinish strFinishG
  simp only [if_true]
  have hlen := countNeg_add_strCount (strTrimHoles s' off' holes').1
  rcases t2 with t2 | ⟨t2a, t2b⟩
  · have : ((strTrimHoles s' off' holes').1.length : Int) - (strTrimHoles s' off' holes').2.2 = 0 := by
      rw [t3, t2]; simp [countNeg]
    simp only [this, beq_self_eq_true, if_true]
    rw [← t1, t2]
    simp [wf, den, strMembers]
  · have hp := strCount_pos_of_head _ t2a
    have : ¬ ((strTrimHoles s' off' holes').1.length : Int) - (strTrimHoles s' off' holes').2.2 = 0 := by
      rw [t3]; omega
    simp only [beq_iff_eq, this, if_false]
    refine ⟨(wf_str_iff _ _ _).2 ⟨t2a, t2b, t4, t3⟩, ?_⟩
    rw [den_str, t1]

theorem runeOpt_some (c : Int) (h : 0 ≤ c) : runeOpt c = some (.num c) := by
  have : ¬ c < 0 := by omega
  simp [runeOpt, this]

theorem strMembers_mem (s : List Int) (off i c : Int) :
    vpair "@char" (.num i) (.num c) ∈ strMembers off s ↔ ∃ k : Nat, i = off + k ∧ s[k]? = some c ∧ 0 ≤ c := by
  rw [strMembers_eq, seqM_mem]
  constructor
  · rintro ⟨k, hk, hx⟩
    refine ⟨k, hk, ?_⟩
    simp only [List.getElem?_map] at hx
    cases hs : s[k]? with
    | none => rw [hs] at hx; simp at hx
    | some d =>
      rw [hs] at hx
      simp only [Option.map_some, Option.some.injEq] at hx
      unfold runeOpt at hx
      by_cases hd : d < 0
      · simp [hd] at hx
      · simp [hd] at hx; subst hx; exact ⟨rfl, by omega⟩
  · rintro ⟨k, hk, hs, hc⟩
    refine ⟨k, hk, ?_⟩
    simp [List.getElem?_map, hs, runeOpt_some c hc]

theorem runesOk_tail (s : List Int) (h : runesOk s = true) : runesOk s.tail = true := by
  cases s with
  | nil => rfl
  | cons c r => simp [runesOk] at h ⊢; exact h.2

theorem runesOk_sub (s t : List Int) (hsub : ∀ x, x ∈ t → x ∈ s) (h : runesOk s = true) : runesOk t = true := by
  simp only [runesOk, List.all_eq_true] at h ⊢
  exact fun x hx => h x (hsub x hx)

theorem countNeg_append (a b : List Int) : countNeg (a ++ b) = countNeg a + countNeg b := by
  simp [countNeg]

theorem countNeg_set_neg : ∀ (s : List Int) (k : Nat) (c : Int), s[k]? = some c → 0 ≤ c →
    countNeg (s.set k (-1)) = countNeg s + 1
  | [], _, _, h, _ => by simp at h
  | d :: r, 0, c, h, hc => by
    simp at h; subst h
    rw [List.set_cons_zero, countNeg_cons, countNeg_cons]
    have : ¬ d < 0 := by omega
    simp [this]; omega
  | d :: r, k + 1, c, h, hc => by
    have ih := countNeg_set_neg r k c (by simpa using h) hc
    rw [List.set_cons_succ, countNeg_cons, countNeg_cons, ih]; omega

/-- `String.Without` (repaired): a canonical result denoting the string without exactly that member -/
theorem string_without_wf_den (s : List Int) (off holes ix ch : Int)
    (hw : wf (.str s off holes) = true) (hc : inRune ch = true) :
    wf (strWithout s off holes ix ch) = true ∧
    den (strWithout s off holes ix ch) =
      specWithout (strMembers off s) (vpair "@char" (.num ix) (.num ch)) := by
  obtain ⟨hh, hl, hr, hc0⟩ := (wf_str_iff _ _ _).1 hw
  have hch : 0 ≤ ch := by simp [inRune] at hc; exact hc.1
  rw [strWithout_eq, specWithout_eq]
  -- it suffices to establish the three invariants of the intermediate triple
  suffices hst : strMembers (strStage1 s off holes ix ch).2.1 (strStage1 s off holes ix ch).1 =
        dropV (vpair "@char" (.num ix) (.num ch)) (strMembers off s) ∧
      (strStage1 s off holes ix ch).2.2 = countNeg (strStage1 s off holes ix ch).1 ∧
      runesOk (strStage1 s off holes ix ch).1 = true by
    obtain ⟨i1, i2, i3⟩ := hst
    have := strFinish_spec (strStage1 s off holes ix ch).1 (strStage1 s off holes ix ch).2.1
      (strStage1 s off holes ix ch).2.2 i2 i3
    rw [i1] at this
    exact this
  have hne : s ≠ [] := by intro e; subst e; simp [headNonneg] at hh
  unfold strStage1
  simp only []
  by_cases hin : (decide (0 ≤ ix - off) && decide (ix - off ≤ (s.length : Int))) = true
  · simp only [hin, if_true]
    simp only [Bool.and_eq_true, decide_eq_true_eq] at hin
    obtain ⟨k, hk⟩ : ∃ k : Nat, ix - off = k := ⟨(ix - off).toNat, by omega⟩
    rw [hk]
    by_cases c1 : ((k : Int) == 0 && s.head? == some ch) = true
    · -- the first character
      simp only [c1, if_true]
      simp only [Bool.and_eq_true, beq_iff_eq] at c1
      have hk0 : k = 0 := by omega
      have hs : s = ch :: s.tail := by
        cases s with
        | nil => exact absurd rfl hne
        | cons d r => simp at c1; rw [c1.2]; rfl
      refine ⟨?_, ?_, runesOk_tail s hr⟩
      · have e : ix = off := by omega
        have hs' : s.map runeOpt = some (.num ch) :: s.tail.map runeOpt := by
          conv => lhs; rw [hs]
          simp [runeOpt_some ch hch]
        rw [e, strMembers_eq, strMembers_eq, hs', seqM_drop_head]
      · rw [hc0]; conv => lhs; rw [hs]
        rw [countNeg_cons]
        have : ¬ ch < 0 := by omega
        simp [this]
    · simp only [c1, Bool.false_eq_true, if_false]
      by_cases c2 : ((k : Int) == (s.length : Int) - 1 && s.getLast? == some ch) = true
      · -- the last character
        simp only [c2, if_true]
        simp only [Bool.and_eq_true, beq_iff_eq] at c2
        have hs : s = s.dropLast ++ [ch] := by
          have := List.dropLast_concat_getLast hne
          have hg : s.getLast hne = ch := by
            have := c2.2
            rw [List.getLast?_eq_some_getLast hne] at this
            exact Option.some.inj this
          rw [hg] at this; exact this.symm
        refine ⟨?_, ?_, runesOk_sub s _ (fun x hx => List.dropLast_subset s hx) hr⟩
        · have e : ix = off + ((s.dropLast.map runeOpt).length : Int) := by
            rw [List.length_map, List.length_dropLast]; omega
          have hs' : s.map runeOpt = s.dropLast.map runeOpt ++ [some (.num ch)] := by
            conv => lhs; rw [hs]
            simp [runeOpt_some ch hch]
          rw [e, strMembers_eq, strMembers_eq, hs', seqM_drop_last]
        · rw [hc0]; conv => lhs; rw [hs]
          rw [countNeg_append, countNeg_cons]
          have : ¬ ch < 0 := by omega
          simp [this, countNeg]
      · simp only [c2, Bool.false_eq_true, if_false]
        by_cases c3 : (decide (0 < (k : Int)) && decide ((k : Int) < (s.length : Int) - 1) &&
            s[(k : Int).toNat]? == some ch) = true
        · -- a middle character: punch a hole
          simp only [c3, if_true]
          simp only [Bool.and_eq_true, decide_eq_true_eq, beq_iff_eq] at c3
          have hkk : (k : Int).toNat = k := by omega
          rw [hkk] at c3 ⊢
          refine ⟨?_, ?_, ?_⟩
          · have e : ix = off + (k : Int) := by omega
            rw [e, strMembers_eq, strMembers_eq, List.map_set]
            have : runeOpt (-1) = none := by simp [runeOpt]
            rw [this]
            exact seqM_set_none "@char" _ off k (.num ch) (by simp [List.getElem?_map, c3.2, runeOpt_some ch hch])
          · rw [hc0, countNeg_set_neg s k ch c3.2 hch]
          · simp only [runesOk, List.all_eq_true] at hr ⊢
            intro x hx
            rcases List.mem_or_eq_of_mem_set hx with h | h
            · exact hr x h
            · subst h; simp
        · -- nothing to remove
          simp only [c3, Bool.false_eq_true, if_false]
          refine ⟨?_, hc0, hr⟩
          rw [dropV_noop]
          rw [strMembers_mem]
          rintro ⟨k', hk', hs, _⟩
          have hkk : k' = k := by omega
          subst hkk
          have hlt : k' < s.length := by
            apply Nat.lt_of_not_le; intro hge
            rw [List.getElem?_eq_none hge] at hs; cases hs
          -- one of the three cases applies
          by_cases z : k' = 0
          · apply c1
            subst z
            cases s with
            | nil => exact absurd rfl hne
            | cons d r => simp at hs; simp [hs]
          · by_cases zl : k' = s.length - 1
            · apply c2
              have : s.getLast? = some ch := by
                rw [List.getLast?_eq_getElem?, ← zl]; exact hs
              simp [this]; omega
            · apply c3
              have hkk : (k' : Int).toNat = k' := by omega
              simp only [Bool.and_eq_true, decide_eq_true_eq, beq_iff_eq, hkk]
              exact ⟨⟨by omega, by omega⟩, hs⟩
  · -- the index is outside the string
    have : (if (decide (0 ≤ ix - off) && decide (ix - off ≤ (s.length : Int))) = true then ix - off else -1) = -1 :=
      if_neg hin
    simp only [this]
    have c1 : ((-1 : Int) == 0 && s.head? == some ch) = false := by simp
    have c2 : ((-1 : Int) == (s.length : Int) - 1 && s.getLast? == some ch) = false := by
      have : ¬ (-1 : Int) = (s.length : Int) - 1 := by
        have : 0 < s.length := List.length_pos_iff.2 hne
        omega
      simp [this]
    have c3 : (decide (0 < (-1 : Int)) && decide ((-1 : Int) < (s.length : Int) - 1) &&
        s[(-1 : Int).toNat]? == some ch) = false := by simp
    simp only [c1, c2, c3, Bool.false_eq_true, if_false]
    refine ⟨?_, hc0, hr⟩
    rw [dropV_noop]
    rw [strMembers_mem]
    rintro ⟨k', hk', hs, _⟩
    have hlt : k' < s.length := by
      apply Nat.lt_of_not_le; intro hge
      rw [List.getElem?_eq_none hge] at hs; cases hs
    apply hin
    simp only [Bool.and_eq_true, decide_eq_true_eq]
    omega

end Arrai.C02

/-! ## tuples: `NewTuple` and `+>` -/
namespace Arrai.C02
open Arrai Arrai.FinSet Arrai.C02.Rep Arrai.C02.Impl

theorem specialisable_len (as : List (String × Rep)) (h : as.length ≠ 2) : specialisable as = false := by
  simp [specialisable, h]

/-- what `specialTuple` answers, and why the generic fallback is canonical -/
theorem special_spec (i : Rep) (n : String) (v : Rep) (hn : n ≠ "@") (wi : wf i = true) (wv : wf v = true) :
    match specialTuple i n v with
    | .ok (some t) => wf t = true ∧ den t = V.mkTup [("@", den i), (n, den v)] ∧
                      den t = V.mkTup [(n, den v), ("@", den i)]
    | .ok none => specialisable [("@", i), (n, v)] = false ∧ specialisable [(n, v), ("@", i)] = false
    | .panic => True := by
  unfold specialTuple
  by_cases a : n = "@value"
  · subst a
    simp [wf, wi, wv, den, vpair, V.mkTup, V.insAttr]
  · by_cases b : n = "@item"
    · subst b
      cases i <;> simp [wf, wv, den, vpair, V.mkTup, V.insAttr]
    · by_cases c : n = "@char"
      · subst c
        cases i <;> cases v <;> simp
        case num.num x y =>
          by_cases hr : inRune y = true
          · simp [hr, wf, den, vpair, V.mkTup, V.insAttr]
          · simp [hr, specialisable, lookupAttr]
      · by_cases d : n = "@byte"
        · subst d
          cases i <;> cases v <;> simp
          case num.num x y =>
            by_cases hr : inByte y = true
            · simp [hr, wf, den, vpair, V.mkTup, V.insAttr]
            · simp [hr, specialisable, lookupAttr]
        · simp [a, b, c, d]
          have h1 : ¬ "@value" = n := fun e => a e.symm
          have h2 : ¬ "@item" = n := fun e => b e.symm
          have h3 : ¬ "@char" = n := fun e => c e.symm
          have h4 : ¬ "@byte" = n := fun e => d e.symm
          have h5 : ¬ "@" = n := fun e => hn e.symm
          constructor <;> (cases i <;> simp [specialisable, lookupAttr, h1, h2, h3, h4, h5, hn])
end Arrai.C02

namespace Arrai.C02
open Arrai Arrai.FinSet Arrai.C02.Rep Arrai.C02.Impl

/-- `NewTuple`/`TupleBuilder.Finish` (repair #20): unless Go panics, a canonical tuple denoting the attributes -/
theorem new_tuple_wf_den (as : List (String × Rep)) (r : Rep) (hn : (namesOf as).Nodup) (hw : wfAttrs as = true)
    (h : newTuple as = .ok r) : wf r = true ∧ den r = V.mkTup (denAttrs as) := by
  have generic : specialisable as = false → wf (.gtuple as) = true ∧ den (.gtuple as) = V.mkTup (denAttrs as) := by
    intro hs
    exact ⟨by simp [wf, hn, hw, hs], rfl⟩
  unfold newTuple newTupleWith at h
  match as, hn, hw, generic, h with
  | [], _, _, generic, h =>
    simp at h; subst h; exact generic (specialisable_len _ (by simp))
  | [_], _, _, generic, h =>
    simp at h; subst h; exact generic (specialisable_len _ (by simp))
  | _ :: _ :: _ :: _, _, _, generic, h =>
    simp at h; subst h; exact generic (specialisable_len _ (by simp))
  | [(n1, v1), (n2, v2)], hn, hw, generic, h =>
    simp only [namesOf, List.map_cons, List.map_nil, List.nodup_cons, List.mem_cons, List.mem_nil_iff, or_false,
      not_false_eq_true, List.nodup_nil, and_true] at hn
    simp only [wfAttrs, Bool.and_eq_true, and_true] at hw
    simp only [denAttrs]
    by_cases e1 : n1 = "@"
    · subst e1
      have n2ne : n2 ≠ "@" := fun e => hn e.symm
      simp only [if_true] at h
      have sp := special_spec v1 n2 v2 n2ne hw.1 hw.2
      cases hs : specialTuple v1 n2 v2 with
      | panic => rw [hs] at h; cases h
      | ok o =>
        rw [hs] at h sp
        cases o with
        | some t => simp at h; subst h; exact ⟨sp.1, sp.2.1⟩
        | none => simp at h; subst h; exact generic sp.1
    · simp only [e1, if_false] at h
      by_cases e2 : n2 = "@"
      · subst e2
        simp only [if_true] at h
        have sp := special_spec v2 n1 v1 e1 hw.2 hw.1
        cases hs : specialTuple v2 n1 v1 with
        | panic => rw [hs] at h; cases h
        | ok o =>
          rw [hs] at h sp
          cases o with
          | some t => simp at h; subst h; exact ⟨sp.1, sp.2.2⟩
          | none => simp at h; subst h; exact generic sp.2
      · simp only [e2, if_false] at h
        simp at h; subst h
        apply generic
        have h1 : ¬ "@" = n1 := fun e => e1 e.symm
        have h2 : ¬ "@" = n2 := fun e => e2 e.symm
        simp [specialisable, lookupAttr, h1, h2]

end Arrai.C02

namespace Arrai.C02
open Arrai Arrai.FinSet Arrai.C02.Rep Arrai.C02.Impl

/-! ## `+>` -/

def mergeAttrs (as bs : List (String × Rep)) : List (String × Rep) :=
  bs.foldl (fun acc p => setAttr p.1 p.2 acc) as

/-- invariant of the accumulator of `MergeLeftToRight` -/
def TupOk (t : Rep) : Prop :=
  isTuple t = true ∧ (namesOf (attrsOf t)).Nodup ∧ wfAttrs (attrsOf t) = true ∧
  ((∀ as, t ≠ .gtuple as) → wf t = true)

theorem lookupAttr_setAttr (k n : String) (v : Rep) : ∀ (l : List (String × Rep)),
    lookupAttr k (setAttr n v l) = if k = n then some v else lookupAttr k l
  | [] => by simp [setAttr, lookupAttr]
  | (m, w) :: r => by
    simp only [setAttr]
    by_cases h : n = m
    · subst h
      simp only [if_true, lookupAttr]
      by_cases hk : k = n <;> simp [hk]
    · simp only [h, if_false, lookupAttr, lookupAttr_setAttr k n v r]
      by_cases hk : k = m
      · subst hk
        have : ¬ k = n := fun e => h e.symm
        simp [this]
      · simp [hk]

theorem namesOf_setAttr (n : String) (v : Rep) : ∀ (l : List (String × Rep)),
    (namesOf l).Nodup → (namesOf (setAttr n v l)).Nodup ∧ ∀ x, x ∈ namesOf (setAttr n v l) ↔ (x = n ∨ x ∈ namesOf l)
  | [], _ => by simp [setAttr, namesOf]
  | (m, w) :: r, h => by
    simp only [namesOf, List.map_cons, List.nodup_cons] at h
    simp only [setAttr]
    by_cases e : n = m
    · subst e
      simp only [if_true, namesOf, List.map_cons, List.nodup_cons, List.mem_cons]
      exact ⟨h, fun x => ⟨fun hx => by rcases hx with hx | hx; exact Or.inl hx; exact Or.inr (Or.inr hx), fun hx => by rcases hx with hx | hx | hx; exact Or.inl hx; exact Or.inl hx; exact Or.inr hx⟩⟩
    · obtain ⟨i1, i2⟩ := namesOf_setAttr n v r h.2
      simp only [e, if_false, namesOf, List.map_cons, List.nodup_cons, List.mem_cons]
      simp only [namesOf] at i1 i2
      refine ⟨⟨?_, i1⟩, fun x => ?_⟩
      · intro hm
        rcases (i2 m).1 hm with h' | h'
        · exact e h'.symm
        · exact h.1 h'
      · rw [i2 x]
        constructor
        · rintro (h | h | h) <;> simp [h]
        · rintro (h | h | h) <;> simp [h]

theorem wfAttrs_setAttr (n : String) (v : Rep) (wv : wf v = true) : ∀ (l : List (String × Rep)),
    wfAttrs l = true → wfAttrs (setAttr n v l) = true
  | [], _ => by simp [setAttr, wfAttrs, wv]
  | (m, w) :: r, h => by
    simp only [wfAttrs, Bool.and_eq_true] at h
    simp only [setAttr]
    by_cases e : n = m
    · simp [e, wfAttrs, wv, h.2]
    · simp only [e, if_false, wfAttrs, Bool.and_eq_true]
      exact ⟨h.1, wfAttrs_setAttr n v wv r h.2⟩

theorem lookupV_denAttrs_setAttr (k n : String) (v : Rep) (l : List (String × Rep)) :
    lookupV k (denAttrs (setAttr n v l)) = if k = n then some (den v) else lookupV k (denAttrs l) := by
  rw [lookupV_denAttrs, lookupV_denAttrs, lookupAttr_setAttr]
  by_cases h : k = n <;> simp [h]

end Arrai.C02

namespace Arrai.C02
open Arrai Arrai.FinSet Arrai.C02.Rep Arrai.C02.Impl

def isKind (kind : String) : Prop := kind = "@char" ∨ kind = "@byte" ∨ kind = "@item" ∨ kind = "@value"

/-- `maybeNew<Kind>TupleFromTuple`: the result is a well-formed accumulator with the same name ↦ value map -/
theorem maybeOwnKind_spec (kind : String) (hk : isKind kind) (as : List (String × Rep))
    (hn : (namesOf as).Nodup) (hw : wfAttrs as = true) :
    TupOk (maybeOwnKind kind as) ∧
    ∀ k, lookupV k (denAttrs (attrsOf (maybeOwnKind kind as))) = lookupV k (denAttrs as) := by
  have generic : TupOk (.gtuple as) ∧ ∀ k, lookupV k (denAttrs (attrsOf (.gtuple as))) = lookupV k (denAttrs as) :=
    ⟨⟨rfl, hn, hw, fun h => absurd rfl (h as)⟩, fun _ => rfl⟩
  unfold maybeOwnKind
  match as, hn, hw, generic with
  | [], _, _, generic => exact generic
  | [_], _, _, generic => exact generic
  | _ :: _ :: _ :: _, _, _, generic => exact generic
  | [(n1, v1), (n2, v2)], hn, hw, generic =>
    simp only [namesOf, List.map_cons, List.map_nil, List.nodup_cons, List.mem_cons, List.mem_nil_iff, or_false,
      not_false_eq_true, List.nodup_nil, and_true] at hn
    simp only [wfAttrs, Bool.and_eq_true, and_true] at hw
    -- the inner function on an index value `i`, the other attribute `(n, v)`, in either order
    have go : ∀ (i v : Rep) (n : String), n ≠ "@" → wf i = true → wf v = true →
        (as' : List (String × Rep)) →
        (∀ k, lookupV k (denAttrs as') = lookupV k (denAttrs [("@", i), (n, v)])) →
        (TupOk (.gtuple as') ∧ ∀ k, lookupV k (denAttrs (attrsOf (.gtuple as'))) = lookupV k (denAttrs as')) →
        let r := (if n = kind then
            if kind = "@value" then Rep.entryT i v
            else match i with
              | .num ix =>
                if kind = "@item" then Rep.itemT ix v
                else match v with
                  | .num c =>
                    if (kind = "@char" && inRune c) then Rep.charT ix c
                    else if (kind = "@byte" && inByte c) then Rep.byteT ix c
                    else Rep.gtuple as'
                  | _ => Rep.gtuple as'
              | _ => Rep.gtuple as'
          else Rep.gtuple as')
        TupOk r ∧ ∀ k, lookupV k (denAttrs (attrsOf r)) = lookupV k (denAttrs as') := by
      intro i v n hne wi wv as' hl gen
      by_cases e : n = kind
      · subst e
        simp only [if_true]
        rcases hk with h | h | h | h
        · subst h
          simp only [show ¬ ("@char" = "@value") by decide, if_false, show ¬ ("@char" = "@item") by decide]
          cases i with
          | num ix =>
            cases v with
            | num c =>
              by_cases hr : inRune c = true
              · simp only [hr, decide_true, Bool.and_self, if_true]
                refine ⟨⟨rfl, by simp [attrsOf, namesOf], by simp [attrsOf, wfAttrs, wf], fun _ => by simp [wf, hr]⟩, ?_⟩
                intro k; rw [hl k]; simp [attrsOf, denAttrs, den]
              · simp [hr]; exact gen
            | _ => exact gen
          | _ => exact gen
        · subst h
          simp only [show ¬ ("@byte" = "@value") by decide, if_false, show ¬ ("@byte" = "@item") by decide,
            show ¬ ("@byte" = "@char") by decide]
          cases i with
          | num ix =>
            cases v with
            | num c =>
              by_cases hr : inByte c = true
              · simp only [hr, decide_true, decide_false, Bool.false_and, Bool.and_self, if_true, if_false,
                  Bool.false_eq_true]
                refine ⟨⟨rfl, by simp [attrsOf, namesOf], by simp [attrsOf, wfAttrs, wf], fun _ => by simp [wf, hr]⟩, ?_⟩
                intro k; rw [hl k]; simp [attrsOf, denAttrs, den]
              · simp [hr]; exact gen
            | _ => exact gen
          | _ => exact gen
        · subst h
          simp only [show ¬ ("@item" = "@value") by decide, if_false, if_true]
          cases i with
          | num ix =>
            refine ⟨⟨rfl, by simp [attrsOf, namesOf], by simp [attrsOf, wfAttrs, wf, wv], fun _ => by simp [wf, wv]⟩, ?_⟩
            intro k; rw [hl k]; simp [attrsOf, denAttrs, den]
          | _ => exact gen
        · subst h
          simp only [if_true]
          refine ⟨⟨rfl, by simp [attrsOf, namesOf], by simp [attrsOf, wfAttrs, wi, wv], fun _ => by simp [wf, wi, wv]⟩, ?_⟩
          intro k; rw [hl k]; simp [attrsOf, denAttrs]
      · simp only [e, if_false]; exact gen
    by_cases e1 : n1 = "@"
    · subst e1
      have n2ne : n2 ≠ "@" := fun e => hn e.symm
      simp only [if_true]
      exact go v1 v2 n2 n2ne hw.1 hw.2 _ (fun _ => rfl) generic
    · simp only [e1, if_false]
      by_cases e2 : n2 = "@"
      · subst e2
        simp only [if_true]
        refine go v2 v1 n1 e1 hw.2 hw.1 _ ?_ generic
        intro k
        have h1 : ¬ "@" = n1 := fun e => e1 e.symm
        simp only [denAttrs, lookupV]
        by_cases a : k = n1
        · subst a; simp [e1]
        · by_cases b : k = "@"
          · subst b; simp [h1]
          · simp [a, b]
      · simp only [e2, if_false]; exact generic

end Arrai.C02

namespace Arrai.C02
open Arrai Arrai.FinSet Arrai.C02.Rep Arrai.C02.Impl

theorem tupOk_of_wf (t : Rep) (ht : isTuple t = true) (hw : wf t = true) : TupOk t := by
  cases t <;> simp [isTuple] at ht
  case gtuple as =>
    simp only [wf, Bool.and_eq_true, decide_eq_true_eq] at hw
    exact ⟨rfl, hw.1.1, hw.1.2, fun h => absurd rfl (h as)⟩
  case charT i c => exact ⟨rfl, by simp [attrsOf, namesOf], by simp [attrsOf, wfAttrs, wf], fun _ => hw⟩
  case byteT i c => exact ⟨rfl, by simp [attrsOf, namesOf], by simp [attrsOf, wfAttrs, wf], fun _ => hw⟩
  case itemT i x =>
    exact ⟨rfl, by simp [attrsOf, namesOf], by simpa [attrsOf, wfAttrs, wf] using hw, fun _ => hw⟩
  case entryT k v =>
    exact ⟨rfl, by simp [attrsOf, namesOf], by simpa [attrsOf, wfAttrs, wf] using hw, fun _ => hw⟩

/-- `Tuple.With` keeps the accumulator well formed and updates the name ↦ value map -/
theorem tupleWith_spec (t : Rep) (n : String) (v : Rep) (ht : TupOk t) (wv : wf v = true) :
    TupOk (tupleWith t n v) ∧
    ∀ k, lookupV k (denAttrs (attrsOf (tupleWith t n v))) =
      if k = n then some (den v) else lookupV k (denAttrs (attrsOf t)) := by
  obtain ⟨h1, h2, h3, h4⟩ := ht
  have hn' := (namesOf_setAttr n v (attrsOf t) h2).1
  have hw' := wfAttrs_setAttr n v wv (attrsOf t) h3
  have special : ∀ kind, isKind kind →
      TupOk (maybeOwnKind kind (setAttr n v (attrsOf t))) ∧
      ∀ k, lookupV k (denAttrs (attrsOf (maybeOwnKind kind (setAttr n v (attrsOf t))))) =
        if k = n then some (den v) else lookupV k (denAttrs (attrsOf t)) := by
    intro kind hk
    obtain ⟨a, b⟩ := maybeOwnKind_spec kind hk _ hn' hw'
    exact ⟨a, fun k => by rw [b k, lookupV_denAttrs_setAttr]⟩
  cases t <;> simp [isTuple] at h1
  case gtuple as =>
    simp only [tupleWith]
    exact ⟨⟨rfl, hn', hw', fun h => absurd rfl (h _)⟩, fun k => lookupV_denAttrs_setAttr k n v as⟩
  case charT i c => exact special "@char" (Or.inl rfl)
  case byteT i c => exact special "@byte" (Or.inr (Or.inl rfl))
  case itemT i x => exact special "@item" (Or.inr (Or.inr (Or.inl rfl)))
  case entryT k v' => exact special "@value" (Or.inr (Or.inr (Or.inr rfl)))

theorem merge_old_spec : ∀ (bs : List (String × Rep)) (t : Rep), TupOk t → wfAttrs bs = true →
    TupOk (bs.foldl (fun acc nv => tupleWith acc nv.1 nv.2) t) ∧
    ∀ k, lookupV k (denAttrs (attrsOf (bs.foldl (fun acc nv => tupleWith acc nv.1 nv.2) t))) =
      lookupV k (denAttrs (mergeAttrs (attrsOf t) bs))
  | [], t, ht, _ => ⟨ht, fun _ => rfl⟩
  | (n, v) :: r, t, ht, hw => by
    simp only [wfAttrs, Bool.and_eq_true] at hw
    obtain ⟨a, b⟩ := tupleWith_spec t n v ht hw.1
    obtain ⟨c, d⟩ := merge_old_spec r (tupleWith t n v) a hw.2
    refine ⟨c, fun k => ?_⟩
    simp only [List.foldl_cons]
    rw [d k]
    -- both accumulators have the same lookups; folding the same updates keeps that
    have gen : ∀ (bs : List (String × Rep)) (l l' : List (String × Rep)),
        (∀ k, lookupV k (denAttrs l) = lookupV k (denAttrs l')) →
        ∀ k, lookupV k (denAttrs (mergeAttrs l bs)) = lookupV k (denAttrs (mergeAttrs l' bs)) := by
      intro bs
      induction bs with
      | nil => intro l l' h; exact h
      | cons p q ih =>
        intro l l' h
        simp only [mergeAttrs, List.foldl_cons]
        apply ih
        intro k
        rw [lookupV_denAttrs_setAttr, lookupV_denAttrs_setAttr, h k]
    simp only [mergeAttrs, List.foldl_cons]
    exact gen r _ _ (fun k => by rw [b k, lookupV_denAttrs_setAttr]) k

/-- `+>` (repaired): unless Go panics, a canonical tuple in which the right operand's attributes override
the left operand's -/
theorem merge_wf_den (t u r : Rep) (ht : isTuple t = true) (hu : isTuple u = true)
    (wt : wf t = true) (wu : wf u = true) (h : mergeLeftToRight t u = .ok r) :
    wf r = true ∧ den r = V.mkTup (denAttrs (mergeAttrs (attrsOf t) (attrsOf u))) := by
  obtain ⟨ok, lk⟩ := merge_old_spec (attrsOf u) t (tupOk_of_wf t ht wt) (tupOk_of_wf u hu wu).2.2.1
  unfold mergeLeftToRight mergeLeftToRightOld at h
  obtain ⟨o1, o2, o3, o4⟩ := ok
  cases hm : (attrsOf u).foldl (fun acc nv => tupleWith acc nv.1 nv.2) t with
  | gtuple as =>
    rw [hm] at h lk o2 o3
    simp only [] at h
    obtain ⟨w, d⟩ := new_tuple_wf_den as r o2 o3 h
    exact ⟨w, by rw [d, mkTup_eq_iff]; exact lk⟩
  | _ =>
    rw [hm] at h lk o1 o4
    simp only [Res.ok.injEq] at h
    subst h
    refine ⟨o4 (fun as e => by cases e), ?_⟩
    rw [den_attrsOf _ o1, mkTup_eq_iff]
    exact lk

end Arrai.C02

