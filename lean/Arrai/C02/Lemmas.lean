/-
  C02 helper lemmas.  Core-only.
  Part 1: finite sets as sorted lists (extras over Arrai.Core.FinSet), XOR-sets.
  Part 2: denotation inversion, sequence denotations are injective on canonical forms.
  Part 3: the repaired hash is injective up to denotation; `Equal` = equality of denotations
          (fragment `frag`).
  Part 4: constructors.
-/
import Arrai.C02.Model
import Arrai.C02.Assoc

namespace Arrai
namespace FinSet
open V

theorem mk_of_sorted : ∀ (l : List V), Sorted l → mk l = l
  | [], _ => rfl
  | x :: xs, h => by
    unfold Sorted at h
    rw [List.pairwise_cons] at h
    show ins x (mk xs) = x :: xs
    rw [mk_of_sorted xs h.2]
    cases xs with
    | nil => rfl
    | cons y ys =>
      have : cmp x y = .lt := h.1 y (by simp)
      simp [ins, this]

theorem mk_eq_iff (a b : List V) : mk a = mk b ↔ ∀ x, x ∈ a ↔ x ∈ b := by
  constructor
  · intro h x
    rw [← mem_mk a, ← mem_mk b, h]
  · intro h
    apply sorted_ext _ _ (sorted_mk a) (sorted_mk b)
    intro x
    rw [mem_mk, mem_mk, h]

theorem mk_eq_nil (a : List V) : mk a = [] ↔ a = [] := by
  constructor
  · intro h
    cases a with
    | nil => rfl
    | cons x xs =>
      have : x ∈ mk (x :: xs) := (mem_mk _ _).2 (by simp)
      rw [h] at this; simp at this
  · intro h; subst h; rfl

/-- pigeonhole: a duplicate-free list included in a list that is not longer covers it -/
theorem subset_of_nodup_length {α} [DecidableEq α] :
    ∀ (l₁ l₂ : List α), l₁.Nodup → (∀ x, x ∈ l₁ → x ∈ l₂) → l₂.length ≤ l₁.length → ∀ y, y ∈ l₂ → y ∈ l₁
  | [], l₂, _, _, hlen, y, hy => by
    cases l₂ with
    | nil => simp at hy
    | cons z zs => simp at hlen
  | x :: t, l₂, hnd, hsub, hlen, y, hy => by
    rw [List.nodup_cons] at hnd
    have hx : x ∈ l₂ := hsub x (by simp)
    by_cases hyx : y = x
    · subst hyx; simp
    · have hsub' : ∀ z, z ∈ t → z ∈ l₂.erase x := by
        intro z hz
        have hzx : z ≠ x := by intro e; subst e; exact hnd.1 hz
        exact (List.mem_erase_of_ne hzx).2 (hsub z (List.mem_cons_of_mem _ hz))
      have hlen' : (l₂.erase x).length ≤ t.length := by
        rw [List.length_erase_of_mem hx]
        simp at hlen; omega
      have := subset_of_nodup_length t (l₂.erase x) hnd.2 hsub' hlen' y ((List.mem_erase_of_ne hyx).2 hy)
      exact List.mem_cons_of_mem _ this

theorem nodup_subset_length_le {α} [DecidableEq α] :
    ∀ (l₁ l₂ : List α), l₁.Nodup → (∀ x, x ∈ l₁ → x ∈ l₂) → l₁.length ≤ l₂.length
  | [], _, _, _ => by simp
  | x :: t, l₂, hnd, hsub => by
    rw [List.nodup_cons] at hnd
    have hx : x ∈ l₂ := hsub x (by simp)
    have hsub' : ∀ z, z ∈ t → z ∈ l₂.erase x := by
      intro z hz
      have hzx : z ≠ x := by intro e; subst e; exact hnd.1 hz
      exact (List.mem_erase_of_ne hzx).2 (hsub z (List.mem_cons_of_mem _ hz))
    have := nodup_subset_length_le t (l₂.erase x) hnd.2 hsub'
    rw [List.length_erase_of_mem hx] at this
    have : 0 < l₂.length := List.length_pos_of_mem hx
    simp; omega

/-- duplicate-free lists with the same members have the same length -/
theorem length_eq_of_same_members {α} [DecidableEq α] (l₁ l₂ : List α) (h₁ : l₁.Nodup) (h₂ : l₂.Nodup)
    (h : ∀ x, x ∈ l₁ ↔ x ∈ l₂) : l₁.length = l₂.length :=
  Nat.le_antisymm (nodup_subset_length_le l₁ l₂ h₁ (fun x hx => (h x).1 hx))
    (nodup_subset_length_le l₂ l₁ h₂ (fun x hx => (h x).2 hx))

theorem length_mk_of_nodup : ∀ (l : List V), l.Nodup → (mk l).length = l.length
  | [], _ => rfl
  | x :: xs, h => by
    rw [List.nodup_cons] at h
    show card (ins x (mk xs)) = _
    rw [card_ins x _ (sorted_mk xs)]
    have : x ∉ mk xs := fun hx => h.1 ((mem_mk _ _).1 hx)
    simp [this, card, length_mk_of_nodup xs h.2]

/-! ### XOR of sorted atom sets -/

theorem symdiff_nil_right (a : List V) (ha : Sorted a) : symdiff a [] = a := by
  have h1 : diff a [] = a := by simp [diff]
  have h2 : diff ([] : List V) a = [] := by simp [diff]
  rw [symdiff, h1, h2]
  show a.foldr ins [] = a
  exact mk_of_sorted a ha

theorem symdiff_singleton (x : V) (s : List V) (hs : Sorted s) (hx : x ∉ s) : symdiff [x] s = ins x s := by
  have h1 : diff [x] s = [x] := by simp [diff, hx]
  have h2 : diff s [x] = s := by
    simp only [diff]
    apply List.filter_eq_self.2
    intro a ha
    have : a ≠ x := by intro e; subst e; exact hx ha
    simp [this]
  rw [symdiff, h1, h2]; rfl

end FinSet
end Arrai

namespace Arrai.C02
open Arrai Arrai.FinSet Arrai.C02.Rep

/-! ## Part 2 — sequences -/

/-- members of a sequence sugar: element `i` of `xs` (if present) is `(@: off+i, name: x)` -/
def seqM (name : String) (off : Int) : List (Option V) → List V
  | [] => []
  | some x :: r => vpair name (.num off) x :: seqM name (off + 1) r
  | none :: r => seqM name (off + 1) r

def runeOpt (c : Int) : Option V := if c < 0 then none else some (.num c)

theorem strMembers_eq (off : Int) (s : List Int) : strMembers off s = seqM "@char" off (s.map runeOpt) := by
  induction s generalizing off with
  | nil => rfl
  | cons c r ih =>
    by_cases h : c < 0 <;> simp [strMembers, seqM, runeOpt, h, ih]

theorem bytesMembers_eq (off : Int) (b : List Int) :
    bytesMembers off b = seqM "@byte" off (b.map (fun x => some (.num x))) := by
  induction b generalizing off with
  | nil => rfl
  | cons c r ih => simp [bytesMembers, seqM, ih]

theorem arrMembers_eq (off : Int) (xs : List (Option V)) : arrMembers off xs = seqM "@item" off xs := by
  induction xs generalizing off with
  | nil => rfl
  | cons c r ih => cases c <;> simp [arrMembers, seqM, ih]

theorem cmp_vpair_lt (name : String) (i j : Int) (x y : V) (h : i < j) :
    V.cmp (vpair name (.num i) x) (vpair name (.num j) y) = .lt := by
  have : compare i j = .lt := by
    rw [Int.compare_eq_lt]; exact h
  simp [vpair, V.cmp, V.cmpAttrs, this]

theorem seqM_index (name : String) : ∀ (xs : List (Option V)) (off : Int) (v : V),
    v ∈ seqM name off xs → ∃ i x, v = vpair name (.num i) x ∧ off ≤ i
  | [], _, v, h => by simp [seqM] at h
  | some a :: r, off, v, h => by
    simp only [seqM, List.mem_cons] at h
    rcases h with h | h
    · exact ⟨off, a, h, Int.le_refl _⟩
    · obtain ⟨i, x, e, hi⟩ := seqM_index name r (off + 1) v h
      exact ⟨i, x, e, by omega⟩
  | none :: r, off, v, h => by
    simp only [seqM] at h
    obtain ⟨i, x, e, hi⟩ := seqM_index name r (off + 1) v h
    exact ⟨i, x, e, by omega⟩

theorem seqM_sorted (name : String) : ∀ (xs : List (Option V)) (off : Int), Sorted (seqM name off xs)
  | [], _ => sorted_nil
  | some a :: r, off => by
    simp only [seqM]
    unfold Sorted
    rw [List.pairwise_cons]
    refine ⟨?_, seqM_sorted name r (off + 1)⟩
    intro v hv
    obtain ⟨i, x, e, hi⟩ := seqM_index name r (off + 1) v hv
    subst e
    exact cmp_vpair_lt name off i a x (by omega)
  | none :: r, off => by
    simp only [seqM]
    exact seqM_sorted name r (off + 1)

/-- no trailing hole -/
def noTrail {α} : List (Option α) → Bool
  | [] => true
  | [x] => x.isSome
  | _ :: y :: r => noTrail (y :: r)

theorem noTrail_tail {α} (x : Option α) (r : List (Option α)) (h : noTrail (x :: r) = true) : noTrail r = true := by
  cases r with
  | nil => rfl
  | cons y r' => simpa [noTrail] using h

theorem seqM_ne_nil (name : String) : ∀ (xs : List (Option V)) (off : Int),
    noTrail xs = true → xs ≠ [] → seqM name off xs ≠ []
  | [], _, _, h => absurd rfl h
  | some a :: r, off, _, _ => by simp [seqM]
  | none :: r, off, ht, _ => by
    simp only [seqM]
    cases r with
    | nil => simp [noTrail] at ht
    | cons y r' => exact seqM_ne_nil name (y :: r') (off + 1) (noTrail_tail _ _ ht) (by simp)

theorem vpair_inj {name : String} {i j x y : V} (h : vpair name i x = vpair name j y) : i = j ∧ x = y := by
  simp [vpair] at h; exact h

theorem seqM_inj_tail (name : String) : ∀ (xs ys : List (Option V)) (off : Int),
    noTrail xs = true → noTrail ys = true → seqM name off xs = seqM name off ys → xs = ys
  | [], [], _, _, _, _ => rfl
  | [], y :: r, off, _, hy, h => by
    exact absurd h.symm (seqM_ne_nil name (y :: r) off hy (by simp))
  | x :: r, [], off, hx, _, h => by
    exact absurd h (seqM_ne_nil name (x :: r) off hx (by simp))
  | some a :: r, some b :: r', off, hx, hy, h => by
    simp only [seqM, List.cons.injEq] at h
    have := (vpair_inj h.1).2
    subst this
    rw [seqM_inj_tail name r r' (off + 1) (noTrail_tail _ _ hx) (noTrail_tail _ _ hy) h.2]
  | some a :: r, none :: r', off, _, _, h => by
    simp only [seqM] at h
    have hm : vpair name (.num off) a ∈ seqM name (off + 1) r' := by rw [← h]; simp
    obtain ⟨i, x, e, hi⟩ := seqM_index name r' (off + 1) _ hm
    have := (vpair_inj e).1
    simp at this; omega
  | none :: r, some b :: r', off, _, _, h => by
    simp only [seqM] at h
    have hm : vpair name (.num off) b ∈ seqM name (off + 1) r := by rw [h]; simp
    obtain ⟨i, x, e, hi⟩ := seqM_index name r (off + 1) _ hm
    have := (vpair_inj e).1
    simp at this; omega
  | none :: r, none :: r', off, hx, hy, h => by
    simp only [seqM] at h
    rw [seqM_inj_tail name r r' (off + 1) (noTrail_tail _ _ hx) (noTrail_tail _ _ hy) h]

/-- a canonical sequence (first and last present) is determined by its members -/
theorem seqM_inj (name : String) (xs ys : List (Option V)) (off off' : Int)
    (hx : headSome xs = true) (hy : headSome ys = true) (tx : noTrail xs = true) (ty : noTrail ys = true)
    (h : seqM name off xs = seqM name off' ys) : off = off' ∧ xs = ys := by
  cases xs with
  | nil => simp [headSome] at hx
  | cons x r =>
    cases ys with
    | nil => simp [headSome] at hy
    | cons y r' =>
      cases x with
      | none => simp [headSome] at hx
      | some a =>
        cases y with
        | none => simp [headSome] at hy
        | some b =>
          have h0 := h
          simp only [seqM, List.cons.injEq] at h0
          have := (vpair_inj h0.1).1
          simp at this
          subst this
          exact ⟨rfl, seqM_inj_tail name _ _ off tx ty h⟩

theorem lastSome_noTrail {α} : ∀ (l : List (Option α)), lastSome l = true → noTrail l = true
  | [], h => by simp [lastSome] at h
  | [x], h => by simpa [lastSome, noTrail] using h
  | _ :: y :: r, h => by
    simp only [lastSome] at h
    simp only [noTrail]
    exact lastSome_noTrail (y :: r) h


/-! ## Part 3 — hash and `Equal` on the fragment -/

open Arrai.C02.Impl

/-! ### nesting depth (the main theorem is proved by induction on a bound of it) -/
mutual
def depth : Rep → Nat
  | .gtuple [] => 0
  | .gtuple (p :: as) => depthAttrs (p :: as) + 1
  | .itemT _ x => depth x + 1
  | .entryT k v => depth k + depth v + 1
  | .generic xs => depthList xs + 1
  | .array vs _ _ => depthOpts vs + 1
  | .dict m => depthDict m + 1
  | .relation _ rows => depthRows rows + 1
  | .union bs => depthAttrs bs + 1
  | _ => 0
def depthAttrs : List (String × Rep) → Nat
  | [] => 0
  | (_, v) :: r => depth v + depthAttrs r
def depthList : List Rep → Nat
  | [] => 0
  | x :: r => depth x + depthList r
def depthOpts : List (Option Rep) → Nat
  | [] => 0
  | some x :: r => depth x + depthOpts r
  | none :: r => depthOpts r
def depthDict : List (Rep × List Rep) → Nat
  | [] => 0
  | (k, vs) :: r => depth k + depthList vs + depthDict r
def depthRows : List (List Rep) → Nat
  | [] => 0
  | row :: r => depthList row + depthRows r
end

theorem depth_mem_list : ∀ (xs : List Rep) (x : Rep), x ∈ xs → depth x ≤ depthList xs
  | [], _, h => by simp at h
  | y :: r, x, h => by
    simp only [List.mem_cons] at h
    rcases h with h | h
    · subst h; simp [depthList]
    · have := depth_mem_list r x h
      simp [depthList]; omega

/-! ### the proved fragment: numbers, the empty tuple, character and byte tuples, strings, byte
arrays, booleans and generic sets of these, nested arbitrarily -/
/-- not one of the two tuple types whose hash threads the seed through (`ArrayItemTuple`, `DictEntryTuple`) -/
def plain : Rep → Bool
  | .itemT _ _ | .entryT _ _ => false
  | _ => true

mutual
def frag : Rep → Bool
  | .num _ | .charT _ _ | .byteT _ _ | .empty | .true_ | .str _ _ _ | .bytes _ _ => true
  | .gtuple as => fragAttrs as
  | .itemT _ x => plain x && frag x
  | .entryT k v => plain k && plain v && frag k && frag v
  | .generic xs => fragList xs
  | .array vs _ _ => fragOpts vs
  | _ => false
def fragAttrs : List (String × Rep) → Bool
  | [] => true
  | (_, v) :: r => plain v && frag v && fragAttrs r
def fragList : List Rep → Bool
  | [] => true
  | x :: r => frag x && fragList r
def fragOpts : List (Option Rep) → Bool
  | [] => true
  | some x :: r => plain x && frag x && fragOpts r
  | none :: r => fragOpts r
end

theorem fragList_mem : ∀ (xs : List Rep) (x : Rep), fragList xs = true → x ∈ xs → frag x = true
  | [], _, _, h => by simp at h
  | y :: r, x, hf, h => by
    simp only [fragList, Bool.and_eq_true] at hf
    simp only [List.mem_cons] at h
    rcases h with h | h
    · subst h; exact hf.1
    · exact fragList_mem r x hf.2 h

theorem wfList_mem : ∀ (xs : List Rep) (x : Rep), wfList xs = true → x ∈ xs → wf x = true
  | [], _, _, h => by simp at h
  | y :: r, x, hf, h => by
    simp only [wfList, Bool.and_eq_true] at hf
    simp only [List.mem_cons] at h
    rcases h with h | h
    · subst h; exact hf.1
    · exact wfList_mem r x hf.2 h

theorem mem_denList : ∀ (xs : List Rep) (v : V), v ∈ denList xs ↔ ∃ x, x ∈ xs ∧ den x = v
  | [], v => by simp [denList]
  | y :: r, v => by
    simp only [denList, List.mem_cons, mem_denList r v]
    constructor
    · rintro (h | ⟨x, hx, e⟩)
      · exact ⟨y, Or.inl rfl, h.symm⟩
      · exact ⟨x, Or.inr hx, e⟩
    · rintro ⟨x, hx | hx, e⟩
      · subst hx; exact Or.inl e.symm
      · exact Or.inr ⟨x, hx, e⟩

theorem denList_length : ∀ (xs : List Rep), (denList xs).length = xs.length
  | [] => rfl
  | _ :: r => by simp [denList, denList_length r]

/-! ### shapes of denotations -/

theorem den_eq_num {a : Rep} {n : Int} (h : den a = .num n) : a = .num n := by
  cases a <;> simp [den, vpair, V.mkTup, V.mkSet] at h
  exact congrArg _ h

theorem insAttr_ne_nil (n : String) (v : V) (l : List (String × V)) : V.insAttr n v l ≠ [] := by
  cases l with
  | nil => simp [V.insAttr]
  | cons p r =>
    obtain ⟨m, w⟩ := p
    simp only [V.insAttr]
    split
    · simp
    · split <;> simp

theorem den_eq_tup_nil {a : Rep} (h : den a = .tup []) : a = .gtuple [] := by
  cases a <;> simp [den, vpair, V.mkSet] at h
  case gtuple as =>
    cases as with
    | nil => rfl
    | cons p r =>
      obtain ⟨n, v⟩ := p
      simp only [denAttrs, V.mkTup, List.foldr_cons, V.tup.injEq] at h
      exact absurd h (insAttr_ne_nil _ _ _)

theorem genericMember_den {x : Rep} (h : genericMember x = true) :
    (∃ n, den x = .num n) ∨ (∃ l, den x = .set l) ∨ den x = .tup [] := by
  cases x <;> simp [genericMember, isSet] at h <;> simp [den, V.mkSet]
  case gtuple as =>
    cases as with
    | nil => simp [denAttrs, V.mkTup]
    | cons p r => simp [genericMember, isSet] at h

/-- constructor of a representation -/
def ctorTag : Rep → Nat
  | .num _ => 0 | .gtuple _ => 1 | .charT _ _ => 2 | .byteT _ _ => 3 | .itemT _ _ => 4 | .entryT _ _ => 5
  | .empty => 6 | .true_ => 7 | .generic _ => 8 | .str _ _ _ => 9 | .bytes _ _ => 10 | .array _ _ _ => 11
  | .dict _ => 12 | .relation _ _ => 13 | .union _ => 14

/-- the number inside an optional value -/
def numOfV : Option V → Option Int
  | some (.num c) => some c
  | _ => none
def numOfR : Option Rep → Option Int
  | some (.num c) => some c
  | _ => none
def okBy (p : Int → Bool) : Option Int → Bool
  | some c => p c
  | none => false

/-- the tuple constructor a canonical representation of `.tup l` must have: the specialisation rule
of `NewTuple` (after repair #20) read off the denotation -/
def tupKind (l : List (String × V)) : Nat :=
  if l.length = 2 then
    match lookupV "@" l with
    | none => 1
    | some i =>
      if (lookupV "@value" l).isSome then 5
      else if (numOfV (some i)).isSome then
        (if (lookupV "@item" l).isSome then 4
         else if okBy inRune (numOfV (lookupV "@char" l)) then 2
         else if okBy inByte (numOfV (lookupV "@byte" l)) then 3 else 1)
      else 1
  else 1

/-- the constructor a canonical representation of a denotation must have (fragment) -/
def vtag : V → Nat
  | .num _ => 0
  | .tup l => tupKind l
  | .set [] => 6
  | .set [.tup []] => 7
  | .set (.tup l :: _) => (match tupKind l with | 2 => 9 | 3 => 10 | 4 => 11 | _ => 8)
  | .set _ => 8

theorem head_mk_mem (l : List V) (v : V) (r : List V) (h : mk l = v :: r) : v ∈ l := by
  have : v ∈ mk l := by rw [h]; simp
  exact (mem_mk l v).1 this

theorem strMembers_ne_nil (off : Int) (s : List Int) (h : headNonneg s = true) : strMembers off s ≠ [] := by
  cases s with
  | nil => simp [headNonneg] at h
  | cons c r =>
    simp only [headNonneg, decide_eq_true_eq] at h
    have : ¬ c < 0 := by omega
    simp [strMembers, this]

theorem den_str (s : List Int) (off holes : Int) : den (.str s off holes) = .set (strMembers off s) := by
  simp only [den, V.mkSet]
  rw [strMembers_eq, mk_of_sorted _ (seqM_sorted _ _ _)]

theorem den_bytes (b : List Int) (off : Int) : den (.bytes b off) = .set (bytesMembers off b) := by
  simp only [den, V.mkSet]
  rw [bytesMembers_eq, mk_of_sorted _ (seqM_sorted _ _ _)]

theorem den_array (vs : List (Option Rep)) (off c : Int) :
    den (.array vs off c) = .set (seqM "@item" off (denOpts vs)) := by
  simp only [den, V.mkSet]
  rw [arrMembers_eq, mk_of_sorted _ (seqM_sorted _ _ _)]

theorem lookupV_denAttrs (k : String) : ∀ (as : List (String × Rep)),
    lookupV k (denAttrs as) = (lookupAttr k as).map den
  | [] => rfl
  | (n, v) :: r => by
    simp only [denAttrs, lookupV, lookupAttr]
    split
    · rfl
    · exact lookupV_denAttrs k r

theorem denAttrs_length : ∀ (as : List (String × Rep)), (denAttrs as).length = as.length
  | [] => rfl
  | (_, _) :: r => by simp [denAttrs, denAttrs_length r]

theorem denAttrs_names : ∀ (as : List (String × Rep)), (denAttrs as).map (·.1) = namesOf as
  | [] => rfl
  | (_, _) :: r => by simp [denAttrs, namesOf, denAttrs_names r]

theorem mkAttrs_names_sub : ∀ (l : List (String × V)) (p : String × V), p ∈ mkAttrs l → p.1 ∈ l.map (·.1)
  | [], p, h => by simp [mkAttrs] at h
  | (n, v) :: r, p, h => by
    have h' : p ∈ V.insAttr n v (mkAttrs r) := h
    rcases mem_insAttr_name n v _ p h' with e | hp
    · simp [e]
    · have := mkAttrs_names_sub r p hp
      simp only [List.map_cons, List.mem_cons]; exact Or.inr this

theorem length_insAttr_notin (n : String) (v : V) : ∀ (l : List (String × V)), (∀ p, p ∈ l → p.1 ≠ n) →
    (V.insAttr n v l).length = l.length + 1
  | [], _ => by simp [V.insAttr]
  | (m, w) :: r, h => by
    have hm : n ≠ m := fun e => h (m, w) (by simp) e.symm
    simp only [V.insAttr]
    split
    · simp
    · simp only [hm, if_false, List.length_cons]
      rw [length_insAttr_notin n v r (fun p hp => h p (List.mem_cons_of_mem _ hp))]

theorem length_mkAttrs : ∀ (l : List (String × V)), (l.map (·.1)).Nodup → (mkAttrs l).length = l.length
  | [], _ => rfl
  | (n, v) :: r, h => by
    simp only [List.map_cons, List.nodup_cons] at h
    show (V.insAttr n v (mkAttrs r)).length = _
    rw [length_insAttr_notin n v _ (fun p hp e => h.1 (by rw [← e]; exact mkAttrs_names_sub r p hp)),
      length_mkAttrs r h.2]
    simp

theorem numOfV_den (o : Option Rep) : numOfV (o.map den) = numOfR o := by
  cases o with
  | none => rfl
  | some x => cases x <;> simp [numOfV, numOfR, den, vpair, V.mkTup, V.mkSet]

/-- a canonical generic tuple does not denote one of the sugar tuples -/
theorem tupKind_gtuple (as : List (String × Rep)) (hw : wf (.gtuple as) = true) :
    tupKind (mkAttrs (denAttrs as)) = 1 := by
  simp only [wf, Bool.and_eq_true, decide_eq_true_eq, Bool.not_eq_true'] at hw
  obtain ⟨⟨hnd, _⟩, hsp⟩ := hw
  have hlen : (mkAttrs (denAttrs as)).length = as.length := by
    rw [length_mkAttrs _ (by rw [denAttrs_names]; exact hnd), denAttrs_length]
  have L : ∀ k, lookupV k (mkAttrs (denAttrs as)) = (lookupAttr k as).map den := fun k => by
    rw [lookupV_mkAttrs, lookupV_denAttrs]
  unfold tupKind
  rw [hlen]
  by_cases h2 : as.length = 2
  · simp only [h2, if_true]
    rw [L "@", L "@value", L "@item", L "@char", L "@byte", numOfV_den, numOfV_den]
    unfold specialisable at hsp
    simp only [h2, beq_self_eq_true, Bool.true_and] at hsp
    cases hi : lookupAttr "@" as with
    | none => simp
    | some i =>
      rw [hi] at hsp
      simp only [Bool.or_eq_false_iff] at hsp
      obtain ⟨hv, hrest⟩ := hsp
      have hv' : ((lookupAttr "@value" as).map den).isSome = false := by simpa using hv
      simp only [Option.map_some, hv', Bool.false_eq_true, if_false]
      have hn : numOfV (some (den i)) = numOfR (some i) := numOfV_den (some i)
      rw [hn]
      cases i with
      | num k =>
        simp only [Bool.or_eq_false_iff] at hrest
        obtain ⟨⟨hit, hch⟩, hby⟩ := hrest
        have hit' : ((lookupAttr "@item" as).map den).isSome = false := by simpa using hit
        have hch' : okBy inRune (numOfR (lookupAttr "@char" as)) = false := by
          cases hc : lookupAttr "@char" as with
          | none => rfl
          | some x => rw [hc] at hch; cases x <;> simp_all [okBy, numOfR]
        have hby' : okBy inByte (numOfR (lookupAttr "@byte" as)) = false := by
          cases hc : lookupAttr "@byte" as with
          | none => rfl
          | some x => rw [hc] at hby; cases x <;> simp_all [okBy, numOfR]
        have h0 : (numOfR (some (Rep.num k))).isSome = true := rfl
        simp [h0, hit', hch', hby']
      | _ => simp [numOfR]
  · simp [h2]

theorem vtag_den (a : Rep) (hw : wf a = true) (hf : frag a = true) : vtag (den a) = ctorTag a := by
  cases a <;> simp [frag] at hf
  case num n => simp [den, vtag, ctorTag]
  case gtuple as =>
    rw [den, mkTup_eq]
    simp only [vtag, ctorTag]
    exact tupKind_gtuple as hw
  case charT i c =>
    have : inRune c = true := by simpa [wf] using hw
    simp [den, vtag, ctorTag, vpair, tupKind, lookupV, numOfV, okBy, this]
  case byteT i c =>
    have : inByte c = true := by simpa [wf] using hw
    simp [den, vtag, ctorTag, vpair, tupKind, lookupV, numOfV, okBy, this]
  case itemT i x => simp [den, vtag, ctorTag, vpair, tupKind, lookupV, numOfV, okBy]
  case entryT k v => simp [den, vtag, ctorTag, vpair, tupKind, lookupV, numOfV, okBy]
  case empty => simp [den, vtag, ctorTag]
  case true_ => simp [den, vtag, ctorTag]
  case str s off holes =>
    rw [den_str]
    simp only [wf, Bool.and_eq_true] at hw
    cases s with
    | nil => simp [headNonneg] at hw
    | cons c r =>
      have hc : ¬ c < 0 := by
        have := hw.1.1.1; simp [headNonneg] at this; omega
      have hr : inRune c = true := by
        have := hw.1.2; simp at this
        simp [inRune]; omega
      simp [strMembers, hc, vtag, ctorTag, vpair, tupKind, lookupV, numOfV, okBy, hr]
  case bytes b off =>
    rw [den_bytes]
    simp only [wf, Bool.and_eq_true] at hw
    cases b with
    | nil => simp at hw
    | cons c r =>
      have hr : inByte c = true := by have := hw.2; simp at this; exact this.1
      simp [bytesMembers, vtag, ctorTag, vpair, tupKind, lookupV, numOfV, okBy, hr]
  case array vs off c =>
    rw [den_array]
    simp only [wf, Bool.and_eq_true] at hw
    cases vs with
    | nil => simp [headSome] at hw
    | cons o r =>
      cases o with
      | none => simp [headSome] at hw
      | some x => simp [denOpts, seqM, vtag, ctorTag, vpair, tupKind, lookupV, numOfV, okBy]
  case generic xs =>
    simp only [wf, Bool.and_eq_true, Bool.not_eq_true', decide_eq_true_eq] at hw
    obtain ⟨⟨⟨⟨hne, hwl⟩, hgm⟩, hnd⟩, hnt⟩ := hw
    simp only [den, V.mkSet, ctorTag]
    cases hm : mk (denList xs) with
    | nil =>
      have := (mk_eq_nil _).1 hm
      cases xs with
      | nil => simp at hne
      | cons x r => simp [denList] at this
    | cons v r =>
      have hv : v ∈ denList xs := head_mk_mem _ _ _ hm
      obtain ⟨x, hx, e⟩ := (mem_denList xs v).1 hv
      have hg : genericMember x = true := by
        have := List.all_eq_true.1 hgm x hx; exact this
      rcases genericMember_den hg with ⟨n, hn⟩ | ⟨l, hl⟩ | ht
      · rw [← e, hn]; simp [vtag]
      · rw [← e, hl]; simp [vtag]
      · -- v = () : then the set is not {()} because members are distinct and the list is not [()]
        rw [← e, ht]
        cases r with
        | cons w r' => simp [vtag, tupKind]
        | nil =>
          exfalso
          have hlen : (mk (denList xs)).length = (denList xs).length := length_mk_of_nodup _ hnd
          rw [hm] at hlen
          have : denList xs = [V.tup []] := by
            cases hd : denList xs with
            | nil => rw [hd] at hlen; simp at hlen
            | cons d ds =>
              rw [hd] at hlen hv
              cases ds with
              | nil =>
                have : v = d := by simpa using hv
                rw [← this, ← e, ht]
              | cons _ _ => simp at hlen
          simp [this] at hnt

/-! ### strings and byte arrays: canonical forms are determined by the denotation -/

theorem headSome_runeOpt (s : List Int) (h : headNonneg s = true) : headSome (s.map runeOpt) = true := by
  cases s with
  | nil => simp [headNonneg] at h
  | cons c r =>
    simp only [headNonneg, decide_eq_true_eq] at h
    have : ¬ c < 0 := by omega
    simp [runeOpt, this, headSome]

theorem noTrail_runeOpt : ∀ (s : List Int), lastNonneg s = true → noTrail (s.map runeOpt) = true
  | [], h => by simp [lastNonneg] at h
  | [c], h => by
    simp only [lastNonneg, decide_eq_true_eq] at h
    have : ¬ c < 0 := by omega
    simp [runeOpt, this, noTrail]
  | _ :: y :: r, h => by
    simp only [lastNonneg] at h
    have := noTrail_runeOpt (y :: r) h
    simpa [noTrail] using this

theorem runeOpt_map_inj : ∀ (s s' : List Int),
    s.all (fun c => decide (-1 ≤ c) && decide (c ≤ 0x10FFFF)) = true →
    s'.all (fun c => decide (-1 ≤ c) && decide (c ≤ 0x10FFFF)) = true →
    s.map runeOpt = s'.map runeOpt → s = s'
  | [], [], _, _, _ => rfl
  | [], _ :: _, _, _, h => by simp at h
  | _ :: _, [], _, _, h => by simp at h
  | c :: r, c' :: r', h1, h2, h => by
    simp only [List.all_cons, Bool.and_eq_true, decide_eq_true_eq] at h1 h2
    simp only [List.map_cons, List.cons.injEq] at h
    have hr := runeOpt_map_inj r r' (by simpa using h1.2) (by simpa using h2.2) h.2
    have hc : c = c' := by
      have := h.1
      unfold runeOpt at this
      by_cases a : c < 0 <;> by_cases b : c' < 0 <;> simp [a, b] at this
      · omega
      · exact this
    rw [hc, hr]

theorem str_den_inj (s s' : List Int) (off off' h h' : Int)
    (w : wf (.str s off h) = true) (w' : wf (.str s' off' h') = true) :
    den (.str s off h) = den (.str s' off' h') ↔ (off = off' ∧ s = s' ∧ h = h') := by
  simp only [wf, Bool.and_eq_true, beq_iff_eq] at w w'
  obtain ⟨⟨⟨hh, hl⟩, ha⟩, hc⟩ := w
  obtain ⟨⟨⟨hh', hl'⟩, ha'⟩, hc'⟩ := w'
  constructor
  · intro e
    rw [den_str, den_str, strMembers_eq, strMembers_eq] at e
    have e' : seqM "@char" off (s.map runeOpt) = seqM "@char" off' (s'.map runeOpt) := by simpa using e
    obtain ⟨ho, hs⟩ := seqM_inj "@char" _ _ off off' (headSome_runeOpt s hh) (headSome_runeOpt s' hh')
      (noTrail_runeOpt s hl) (noTrail_runeOpt s' hl') e'
    have := runeOpt_map_inj s s' ha ha' hs
    subst this
    exact ⟨ho, rfl, by rw [hc, hc']⟩
  · rintro ⟨rfl, rfl, rfl⟩; rfl

theorem bytes_den_inj (b b' : List Int) (off off' : Int)
    (w : wf (.bytes b off) = true) (w' : wf (.bytes b' off') = true) :
    den (.bytes b off) = den (.bytes b' off') ↔ (off = off' ∧ b = b') := by
  simp only [wf, Bool.and_eq_true, Bool.not_eq_true', List.isEmpty_eq_false_iff] at w w'
  constructor
  · intro e
    rw [den_bytes, den_bytes, bytesMembers_eq, bytesMembers_eq] at e
    have e' : seqM "@byte" off (b.map (fun x => some (V.num x))) = seqM "@byte" off' (b'.map (fun x => some (V.num x))) := by
      simpa using e
    have hs : ∀ (l : List Int), l ≠ [] → headSome (l.map (fun x => some (V.num x))) = true := by
      intro l hl; cases l with
      | nil => exact absurd rfl hl
      | cons c r => simp [headSome]
    have ht : ∀ (l : List Int), noTrail (l.map (fun x => some (V.num x))) = true := by
      intro l; induction l with
      | nil => rfl
      | cons c r ih =>
        cases r with
        | nil => simp [noTrail]
        | cons d r' => simpa [noTrail] using ih
    obtain ⟨ho, hb⟩ := seqM_inj "@byte" _ _ off off' (hs b w.1) (hs b' w'.1) (ht b) (ht b') e'
    refine ⟨ho, ?_⟩
    have : ∀ (l l' : List Int), l.map (fun x => some (V.num x)) = l'.map (fun x => some (V.num x)) → l = l' := by
      intro l; induction l with
      | nil => intro l' h; cases l' <;> simp at h ⊢
      | cons c r ih =>
        intro l' h
        cases l' with
        | nil => simp at h
        | cons c' r' =>
          simp only [List.map_cons, List.cons.injEq, Option.some.injEq, V.num.injEq] at h
          rw [h.1, ih r' h.2]
    exact this b b' hb
  · rintro ⟨rfl, rfl⟩; rfl

theorem numsV_inj (l l' : List Int) : numsV l = numsV l' ↔ l = l' := by
  constructor
  · intro h
    simp only [numsV, V.set.injEq] at h
    induction l generalizing l' with
    | nil => cases l' <;> simp at h ⊢
    | cons c r ih =>
      cases l' with
      | nil => simp at h
      | cons c' r' =>
        simp only [List.map_cons, List.cons.injEq, V.num.injEq] at h
        rw [h.1, ih r' h.2]
  · intro h; rw [h]

/-! ### hashes of plain fragment values are single atoms carrying their seed -/

def atomAt (x : Rep) (s : HV) : V := (hashG true x s).headD (.num 0)
abbrev atomOf (x : Rep) : V := atomAt x []

theorem hxor_nil_right (x : V) : hxor [x] [] = [x] := by
  simp [hxor, symdiff, diff, FinSet.union, ins]

theorem hash_singleton (x : Rep) (hf : frag x = true) (hp : plain x = true) (s : HV) :
    hashG true x s = [atomAt x s] := by
  cases x <;> simp [frag, plain] at hf hp <;> simp [atomAt, hashG, hfin, hatom]

theorem atomAt_seed (x : Rep) (hf : frag x = true) (hp : plain x = true) (s : HV) :
    ∃ t p, atomAt x s = .tup [(t, p), ("seed", .set s)] := by
  cases x <;> simp [frag, plain] at hf hp <;> simp [atomAt, hashG, hfin, hatom]

theorem atomAt_ne_mapC (y : Rep) (hf : frag y = true) (hp : plain y = true) (s : HV) (p q : V) :
    atomAt y s ≠ .tup [("mapC", p), ("seed", q)] := by
  cases y <;> simp [frag, plain] at hf hp <;> simp [atomAt, hashG, hfin, hatom]

theorem atomAt_seed_inj (x y : Rep) (hx : frag x = true) (px : plain x = true) (hy : frag y = true)
    (py : plain y = true) (s s' : HV) (h : atomAt x s = atomAt y s') : s = s' := by
  obtain ⟨t, p, e⟩ := atomAt_seed x hx px s
  obtain ⟨t', p', e'⟩ := atomAt_seed y hy py s'
  rw [e, e'] at h
  simp at h
  exact h.2

theorem nodup_map_of {α β γ} (f : α → β) (g : α → γ) : ∀ (l : List α),
    (∀ x, x ∈ l → ∀ y, y ∈ l → f x = f y → g x = g y) → (l.map g).Nodup → (l.map f).Nodup
  | [], _, _ => by simp
  | x :: r, h, hn => by
    simp only [List.map_cons, List.nodup_cons] at hn ⊢
    refine ⟨?_, nodup_map_of f g r (fun a ha b hb => h a (List.mem_cons_of_mem _ ha) b (List.mem_cons_of_mem _ hb)) hn.2⟩
    intro hm
    obtain ⟨y, hy, e⟩ := List.mem_map.1 hm
    have := h x (by simp) y (List.mem_cons_of_mem _ hy) e.symm
    exact hn.1 (List.mem_map.2 ⟨y, hy, this.symm⟩)

theorem denList_eq_map : ∀ (xs : List Rep), denList xs = xs.map den
  | [] => rfl
  | x :: r => by simp [denList, denList_eq_map r]

/-- transfer of "same image set" between two maps that identify the same pairs -/
theorem map_mem_transfer {α β γ} (f : α → β) (g : α → γ) (l₁ l₂ : List α)
    (h : ∀ x, x ∈ l₁ → ∀ y, y ∈ l₂ → (f x = f y ↔ g x = g y)) :
    (∀ v, v ∈ l₁.map f ↔ v ∈ l₂.map f) ↔ (∀ v, v ∈ l₁.map g ↔ v ∈ l₂.map g) := by
  constructor
  · intro hf v
    constructor
    · intro hv
      obtain ⟨x, hx, e⟩ := List.mem_map.1 hv
      obtain ⟨y, hy, e'⟩ := List.mem_map.1 ((hf (f x)).1 (List.mem_map.2 ⟨x, hx, rfl⟩))
      exact List.mem_map.2 ⟨y, hy, by rw [← e]; exact ((h x hx y hy).1 e'.symm).symm⟩
    · intro hv
      obtain ⟨y, hy, e⟩ := List.mem_map.1 hv
      obtain ⟨x, hx, e'⟩ := List.mem_map.1 ((hf (f y)).2 (List.mem_map.2 ⟨y, hy, rfl⟩))
      exact List.mem_map.2 ⟨x, hx, by rw [← e]; exact (h x hx y hy).1 e'⟩
  · intro hg v
    constructor
    · intro hv
      obtain ⟨x, hx, e⟩ := List.mem_map.1 hv
      obtain ⟨y, hy, e'⟩ := List.mem_map.1 ((hg (g x)).1 (List.mem_map.2 ⟨x, hx, rfl⟩))
      exact List.mem_map.2 ⟨y, hy, by rw [← e]; exact ((h x hx y hy).2 e'.symm).symm⟩
    · intro hv
      obtain ⟨y, hy, e⟩ := List.mem_map.1 hv
      obtain ⟨x, hx, e'⟩ := List.mem_map.1 ((hg (g y)).2 (List.mem_map.2 ⟨y, hy, rfl⟩))
      exact List.mem_map.2 ⟨x, hx, by rw [← e]; exact (h x hx y hy).2 e'⟩

/-! ### a generic XOR over a list of (value, seed) pairs -/

/-- XOR of `hash x s` over a list of (value, seed) pairs -/
def xorPairs : List (Rep × HV) → HV
  | [] => []
  | (x, s) :: r => hxor (hashG true x s) (xorPairs r)

def goodPair (p : Rep × HV) : Prop := frag p.1 = true ∧ plain p.1 = true

theorem xorPairs_eq_mk : ∀ (l : List (Rep × HV)), (∀ p, p ∈ l → goodPair p) →
    (l.map (fun p => atomAt p.1 p.2)).Nodup → xorPairs l = mk (l.map (fun p => atomAt p.1 p.2))
  | [], _, _ => rfl
  | (x, s) :: r, hg, hn => by
    simp only [List.map_cons, List.nodup_cons] at hn
    simp only [xorPairs, List.map_cons]
    have gx := hg (x, s) (by simp)
    rw [hash_singleton x gx.1 gx.2 s, xorPairs_eq_mk r (fun p hp => hg p (List.mem_cons_of_mem _ hp)) hn.2]
    have hx : atomAt x s ∉ mk (r.map (fun p => atomAt p.1 p.2)) := fun h => hn.1 ((mem_mk _ _).1 h)
    rw [hxor, symdiff_singleton _ _ (sorted_mk _) hx]
    rfl

theorem xorList_eq_pairs : ∀ (xs : List Rep), xorList true xs = xorPairs (xs.map (fun x => (x, [])))
  | [] => rfl
  | x :: r => by simp [xorList, xorPairs, xorList_eq_pairs r]

/-- present items of an array with their indices -/
def idxItems (off : Int) : List (Option Rep) → List (Int × Rep)
  | [] => []
  | some x :: r => (off, x) :: idxItems (off + 1) r
  | none :: r => idxItems (off + 1) r

def intSeed (i : Int) (s : HV) : HV := hatom "int" (.num i) s

theorem xorOpts_eq_pairs : ∀ (vs : List (Option Rep)) (off : Int) (s : HV),
    xorOpts true off vs s = xorPairs ((idxItems off vs).map (fun p => (p.2, intSeed p.1 s)))
  | [], _, _ => rfl
  | some x :: r, off, s => by simp [xorOpts, idxItems, xorPairs, intSeed, xorOpts_eq_pairs r]
  | none :: r, off, s => by simp [xorOpts, idxItems, xorOpts_eq_pairs r]

theorem seqM_eq_idx : ∀ (vs : List (Option Rep)) (off : Int),
    seqM "@item" off (denOpts vs) = (idxItems off vs).map (fun p => vpair "@item" (.num p.1) (den p.2))
  | [], _ => rfl
  | some x :: r, off => by simp [denOpts, seqM, idxItems, seqM_eq_idx r]
  | none :: r, off => by simp [denOpts, seqM, idxItems, seqM_eq_idx r]

theorem idxItems_ge : ∀ (vs : List (Option Rep)) (off : Int) (p : Int × Rep), p ∈ idxItems off vs → off ≤ p.1
  | [], _, _, h => by simp [idxItems] at h
  | some x :: r, off, p, h => by
    simp only [idxItems, List.mem_cons] at h
    rcases h with h | h
    · subst h; exact Int.le_refl _
    · have := idxItems_ge r (off + 1) p h; omega
  | none :: r, off, p, h => by
    simp only [idxItems] at h
    have := idxItems_ge r (off + 1) p h; omega

theorem idxItems_idx_nodup : ∀ (vs : List (Option Rep)) (off : Int), ((idxItems off vs).map (·.1)).Nodup
  | [], _ => by simp [idxItems]
  | some x :: r, off => by
    simp only [idxItems, List.map_cons, List.nodup_cons]
    refine ⟨?_, idxItems_idx_nodup r (off + 1)⟩
    intro h
    obtain ⟨p, hp, e⟩ := List.mem_map.1 h
    have := idxItems_ge r (off + 1) p hp
    omega
  | none :: r, off => by
    simp only [idxItems]
    exact idxItems_idx_nodup r (off + 1)

theorem idxItems_mem : ∀ (vs : List (Option Rep)) (off : Int) (p : Int × Rep), p ∈ idxItems off vs → some p.2 ∈ vs
  | [], _, _, h => by simp [idxItems] at h
  | some x :: r, off, p, h => by
    simp only [idxItems, List.mem_cons] at h
    rcases h with h | h
    · subst h; simp
    · exact List.mem_cons_of_mem _ (idxItems_mem r (off + 1) p h)
  | none :: r, off, p, h => by
    simp only [idxItems] at h
    exact List.mem_cons_of_mem _ (idxItems_mem r (off + 1) p h)

theorem fragOpts_mem : ∀ (vs : List (Option Rep)) (x : Rep), fragOpts vs = true → some x ∈ vs →
    plain x = true ∧ frag x = true
  | [], _, _, h => by simp at h
  | some y :: r, x, hf, h => by
    simp only [fragOpts, Bool.and_eq_true] at hf
    simp only [List.mem_cons, Option.some.injEq] at h
    rcases h with h | h
    · subst h; exact hf.1
    · exact fragOpts_mem r x hf.2 h
  | none :: r, x, hf, h => by
    simp only [fragOpts] at hf
    simp only [List.mem_cons] at h
    rcases h with h | h
    · cases h
    · exact fragOpts_mem r x hf h

theorem wfOpts_mem : ∀ (vs : List (Option Rep)) (x : Rep), wfOpts vs = true → some x ∈ vs → wf x = true
  | [], _, _, h => by simp at h
  | some y :: r, x, hf, h => by
    simp only [wfOpts, Bool.and_eq_true] at hf
    simp only [List.mem_cons, Option.some.injEq] at h
    rcases h with h | h
    · subst h; exact hf.1
    · exact wfOpts_mem r x hf.2 h
  | none :: r, x, hf, h => by
    simp only [wfOpts] at hf
    simp only [List.mem_cons] at h
    rcases h with h | h
    · cases h
    · exact wfOpts_mem r x hf h

theorem depth_mem_opts : ∀ (vs : List (Option Rep)) (x : Rep), some x ∈ vs → depth x ≤ depthOpts vs
  | [], _, h => by simp at h
  | some y :: r, x, h => by
    simp only [List.mem_cons, Option.some.injEq] at h
    rcases h with h | h
    · subst h; simp [depthOpts]
    · have := depth_mem_opts r x h
      simp [depthOpts]; omega
  | none :: r, x, h => by
    simp only [List.mem_cons] at h
    rcases h with h | h
    · cases h
    · have := depth_mem_opts r x h
      simpa [depthOpts] using this


/-! ### generic sets: the XOR of member hashes is the set of member atoms -/

theorem xorList_eq_mk (xs : List Rep) (hf : fragList xs = true) (hp : ∀ x, x ∈ xs → plain x = true)
    (hn : (xs.map atomOf).Nodup) : xorList true xs = mk (xs.map atomOf) := by
  rw [xorList_eq_pairs, xorPairs_eq_mk]
  · simp [List.map_map, Function.comp_def]
  · intro p hp'
    obtain ⟨x, hx, e⟩ := List.mem_map.1 hp'
    subst e
    exact ⟨fragList_mem xs x hf hx, hp x hx⟩
  · simpa [List.map_map, Function.comp_def] using hn

theorem atomOf_eq_iff (x y : Rep) (hx : frag x = true) (hy : frag y = true) (px : plain x = true)
    (py : plain y = true) : atomOf x = atomOf y ↔ hashG true x [] = hashG true y [] := by
  rw [hash_singleton x hx px, hash_singleton y hy py]; simp

theorem atoms_nodup (xs : List Rep) (hf : fragList xs = true) (hp : ∀ x, x ∈ xs → plain x = true)
    (hn : (denList xs).Nodup)
    (H : ∀ x, x ∈ xs → ∀ y, y ∈ xs → (hashG true x [] = hashG true y [] ↔ den x = den y)) :
    (xs.map atomOf).Nodup := by
  apply nodup_map_of atomOf den xs
  · intro x hx y hy e
    exact (H x hx y hy).1 ((atomOf_eq_iff x y (fragList_mem xs x hf hx) (fragList_mem xs y hf hy) (hp x hx) (hp y hy)).1 e)
  · rw [← denList_eq_map]; exact hn

theorem generic_core (xs ys : List Rep)
    (hfx : fragList xs = true) (hfy : fragList ys = true)
    (hpx : ∀ x, x ∈ xs → plain x = true) (hpy : ∀ x, x ∈ ys → plain x = true)
    (hnx : (denList xs).Nodup) (hny : (denList ys).Nodup)
    (H : ∀ x, x ∈ xs ++ ys → ∀ y, y ∈ xs ++ ys → (hashG true x [] = hashG true y [] ↔ den x = den y)) :
    (xorList true xs = xorList true ys ↔ mk (denList xs) = mk (denList ys)) ∧
    (mk (denList xs) = mk (denList ys) → xs.length = ys.length) := by
  have ax := atoms_nodup xs hfx hpx hnx (fun x hx y hy => H x (by simp [hx]) y (by simp [hy]))
  have ay := atoms_nodup ys hfy hpy hny (fun x hx y hy => H x (by simp [hx]) y (by simp [hy]))
  refine ⟨?_, ?_⟩
  · rw [xorList_eq_mk xs hfx hpx ax, xorList_eq_mk ys hfy hpy ay, mk_eq_iff, mk_eq_iff, denList_eq_map,
      denList_eq_map]
    apply map_mem_transfer
    intro x hx y hy
    rw [atomOf_eq_iff x y (fragList_mem xs x hfx hx) (fragList_mem ys y hfy hy) (hpx x hx) (hpy y hy)]
    exact H x (by simp [hx]) y (by simp [hy])
  · intro h
    have := length_eq_of_same_members (denList xs) (denList ys) hnx hny ((mk_eq_iff _ _).1 h)
    rwa [denList_length, denList_length] at this

theorem xorList_ne_nil (xs : List Rep) (hf : fragList xs = true) (hp : ∀ x, x ∈ xs → plain x = true)
    (ha : (xs.map atomOf).Nodup) (hne : xs ≠ []) : xorList true xs ≠ [] := by
  rw [xorList_eq_mk xs hf hp ha]
  intro h
  have := (mk_eq_nil _).1 h
  cases xs with
  | nil => exact hne rfl
  | cons x r => simp at this

theorem xorList_single (ys : List Rep) (hf : fragList ys = true) (hp : ∀ x, x ∈ ys → plain x = true)
    (ha : (ys.map atomOf).Nodup) (A : V) (h : xorList true ys = [A]) : ∃ y, ys = [y] ∧ atomOf y = A := by
  rw [xorList_eq_mk ys hf hp ha] at h
  have hlen := length_mk_of_nodup _ ha
  rw [h] at hlen
  cases ys with
  | nil => simp at hlen
  | cons y r =>
    cases r with
    | cons _ _ => simp at hlen
    | nil =>
      refine ⟨y, rfl, ?_⟩
      have := head_mk_mem _ _ _ h
      simp at this
      exact this.symm

theorem xorList_mem_atom (ys : List Rep) (hf : fragList ys = true) (hp : ∀ x, x ∈ ys → plain x = true)
    (ha : (ys.map atomOf).Nodup) (A : V) (h : A ∈ xorList true ys) : ∃ y, y ∈ ys ∧ atomOf y = A := by
  rw [xorList_eq_mk ys hf hp ha, mem_mk] at h
  obtain ⟨y, hy, e⟩ := List.mem_map.1 h
  exact ⟨y, hy, e⟩

/-! ### arrays -/

def arrAtoms (off : Int) (vs : List (Option Rep)) (s : HV) : List V :=
  (idxItems off vs).map (fun p => atomAt p.2 (intSeed p.1 s))

theorem intSeed_inj (i j : Int) (s s' : HV) : intSeed i s = intSeed j s' ↔ (i = j ∧ s = s') := by
  simp [intSeed, hatom]

theorem arrAtoms_nodup (off : Int) (vs : List (Option Rep)) (s : HV) (hf : fragOpts vs = true) :
    (arrAtoms off vs s).Nodup := by
  apply nodup_map_of (fun p : Int × Rep => atomAt p.2 (intSeed p.1 s)) (·.1) (idxItems off vs)
  · intro p hp q hq e
    obtain ⟨pp, pf⟩ := fragOpts_mem vs p.2 hf (idxItems_mem vs off p hp)
    obtain ⟨qp, qf⟩ := fragOpts_mem vs q.2 hf (idxItems_mem vs off q hq)
    have := atomAt_seed_inj p.2 q.2 pf pp qf qp _ _ e
    exact ((intSeed_inj _ _ _ _).1 this).1
  · exact idxItems_idx_nodup vs off

theorem xorOpts_eq_mk (off : Int) (vs : List (Option Rep)) (s : HV) (hf : fragOpts vs = true) :
    xorOpts true off vs s = mk (arrAtoms off vs s) := by
  rw [xorOpts_eq_pairs, xorPairs_eq_mk]
  · simp [arrAtoms, List.map_map, Function.comp_def]
  · intro p hp
    obtain ⟨q, hq, e⟩ := List.mem_map.1 hp
    subst e
    obtain ⟨pp, pf⟩ := fragOpts_mem vs q.2 hf (idxItems_mem vs off q hq)
    exact ⟨pf, pp⟩
  · have := arrAtoms_nodup off vs s hf
    simpa [arrAtoms, List.map_map, Function.comp_def] using this

theorem idxItems_ne_nil (off : Int) (vs : List (Option Rep)) (h : headSome vs = true) : idxItems off vs ≠ [] := by
  cases vs with
  | nil => simp [headSome] at h
  | cons o r =>
    cases o with
    | none => simp [headSome] at h
    | some x => simp [idxItems]

theorem array_core (vs vs' : List (Option Rep)) (off off' : Int) (s : HV)
    (hf : fragOpts vs = true) (hf' : fragOpts vs' = true)
    (H : ∀ x, some x ∈ vs → ∀ y, some y ∈ vs' → ∀ S S' : HV,
      (hashG true x S = hashG true y S' ↔ (S = S' ∧ den x = den y))) :
    xorOpts true off vs s = xorOpts true off' vs' s ↔
      seqM "@item" off (denOpts vs) = seqM "@item" off' (denOpts vs') := by
  rw [xorOpts_eq_mk off vs s hf, xorOpts_eq_mk off' vs' s hf', mk_eq_iff]
  have hs : seqM "@item" off (denOpts vs) = seqM "@item" off' (denOpts vs') ↔
      ∀ v, v ∈ seqM "@item" off (denOpts vs) ↔ v ∈ seqM "@item" off' (denOpts vs') := by
    constructor
    · intro h v; rw [h]
    · intro h; exact sorted_ext _ _ (seqM_sorted _ _ _) (seqM_sorted _ _ _) h
  rw [hs, seqM_eq_idx, seqM_eq_idx]
  unfold arrAtoms
  apply map_mem_transfer
  intro p hp q hq
  obtain ⟨pp, pf⟩ := fragOpts_mem vs p.2 hf (idxItems_mem vs off p hp)
  obtain ⟨qp, qf⟩ := fragOpts_mem vs' q.2 hf' (idxItems_mem vs' off' q hq)
  have h1 : atomAt p.2 (intSeed p.1 s) = atomAt q.2 (intSeed q.1 s) ↔
      hashG true p.2 (intSeed p.1 s) = hashG true q.2 (intSeed q.1 s) := by
    rw [hash_singleton p.2 pf pp, hash_singleton q.2 qf qp]; simp
  rw [h1, H p.2 (idxItems_mem vs off p hp) q.2 (idxItems_mem vs' off' q hq), intSeed_inj]
  simp [vpair]

theorem denOpts_length : ∀ (vs : List (Option Rep)), (denOpts vs).length = vs.length
  | [] => rfl
  | some _ :: r => by simp [denOpts, denOpts_length r]
  | none :: r => by simp [denOpts, denOpts_length r]

theorem headSome_denOpts (vs : List (Option Rep)) (h : headSome vs = true) : headSome (denOpts vs) = true := by
  cases vs with
  | nil => simp [headSome] at h
  | cons o r => cases o <;> simp [headSome, denOpts] at h ⊢

theorem lastSome_denOpts : ∀ (vs : List (Option Rep)), lastSome vs = true → lastSome (denOpts vs) = true
  | [], h => by simp [lastSome] at h
  | [o], h => by cases o <;> simp [lastSome, denOpts] at h ⊢
  | o :: p :: r, h => by
    simp only [lastSome] at h
    have := lastSome_denOpts (p :: r) h
    cases o <;> cases p <;> simpa [denOpts, lastSome] using this

theorem optCount_denOpts : ∀ (vs : List (Option Rep)), optCount (denOpts vs) = optCount vs
  | [] => rfl
  | some _ :: r => by
    have := optCount_denOpts r
    simp [denOpts, optCount] at this ⊢; omega
  | none :: r => by
    have := optCount_denOpts r
    simp [denOpts, optCount] at this ⊢; omega

theorem arrEq_iff : ∀ (vs vs' : List (Option Rep)), vs.length = vs'.length →
    (∀ x, some x ∈ vs → ∀ y, some y ∈ vs' → (equal x y = true ↔ den x = den y)) →
    (arrEq true vs vs' = true ↔ denOpts vs = denOpts vs')
  | [], [], _, _ => by simp [arrEq, denOpts]
  | [], _ :: _, h, _ => by simp at h
  | _ :: _, [], h, _ => by simp at h
  | some c :: r, some d :: r', h, H => by
    have ih := arrEq_iff r r' (by simpa using h)
      (fun x hx y hy => H x (List.mem_cons_of_mem _ hx) y (List.mem_cons_of_mem _ hy))
    have hc := H c (by simp) d (by simp)
    simp only [arrEq, denOpts, Bool.and_eq_true, List.cons.injEq, Option.some.injEq]
    rw [ih]
    exact and_congr hc Iff.rfl
  | some c :: r, none :: r', _, _ => by simp [arrEq, denOpts]
  | none :: r, some d :: r', _, _ => by simp [arrEq, denOpts]
  | none :: r, none :: r', h, H => by
    have ih := arrEq_iff r r' (by simpa using h)
      (fun x hx y hy => H x (List.mem_cons_of_mem _ hx) y (List.mem_cons_of_mem _ hy))
    simp only [arrEq, denOpts, List.cons.injEq, true_and]
    exact ih


/-! ### generic tuples -/

def strSeed (n : String) (s : HV) : HV := hatom "str" (nameV n) s
def mapC (s : HV) : V := .tup [("mapC", .set []), ("seed", .set s)]
def attrAtoms (as : List (String × Rep)) (s : HV) : List V := as.map (fun p => atomAt p.2 (strSeed p.1 s))

theorem strSeed_inj (n m : String) (s s' : HV) : strSeed n s = strSeed m s' ↔ (n = m ∧ s = s') := by
  simp [strSeed, hatom, nameV]

theorem xorAttrs_eq_pairs : ∀ (as : List (String × Rep)) (s : HV),
    xorAttrs true as s = xorPairs (as.map (fun p => (p.2, strSeed p.1 s)))
  | [], _ => rfl
  | (n, v) :: r, s => by simp [xorAttrs, xorPairs, strSeed, xorAttrs_eq_pairs r]

theorem fragAttrs_mem : ∀ (as : List (String × Rep)) (p : String × Rep), fragAttrs as = true → p ∈ as →
    plain p.2 = true ∧ frag p.2 = true
  | [], _, _, h => by simp at h
  | (n, v) :: r, p, hf, h => by
    simp only [fragAttrs, Bool.and_eq_true] at hf
    simp only [List.mem_cons] at h
    rcases h with h | h
    · subst h; exact hf.1
    · exact fragAttrs_mem r p hf.2 h

theorem wfAttrs_mem : ∀ (as : List (String × Rep)) (p : String × Rep), wfAttrs as = true → p ∈ as → wf p.2 = true
  | [], _, _, h => by simp at h
  | (n, v) :: r, p, hf, h => by
    simp only [wfAttrs, Bool.and_eq_true] at hf
    simp only [List.mem_cons] at h
    rcases h with h | h
    · subst h; exact hf.1
    · exact wfAttrs_mem r p hf.2 h

theorem depth_mem_attrs : ∀ (as : List (String × Rep)) (p : String × Rep), p ∈ as → depth p.2 ≤ depthAttrs as
  | [], _, h => by simp at h
  | (n, v) :: r, p, h => by
    simp only [List.mem_cons] at h
    rcases h with h | h
    · subst h; simp [depthAttrs]
    · have := depth_mem_attrs r p h
      simp [depthAttrs]; omega

theorem depth_gtuple (as : List (String × Rep)) (p : String × Rep) (h : p ∈ as) : depth p.2 < depth (.gtuple as) := by
  have := depth_mem_attrs as p h
  cases as with
  | nil => simp at h
  | cons q r => simp only [depth]; omega

theorem attrAtoms_nodup (as : List (String × Rep)) (s : HV) (hnd : (namesOf as).Nodup) (hf : fragAttrs as = true) :
    (attrAtoms as s).Nodup := by
  apply nodup_map_of (fun p : String × Rep => atomAt p.2 (strSeed p.1 s)) (·.1) as
  · intro p hp q hq e
    obtain ⟨pp, pf⟩ := fragAttrs_mem as p hf hp
    obtain ⟨qp, qf⟩ := fragAttrs_mem as q hf hq
    have := atomAt_seed_inj p.2 q.2 pf pp qf qp _ _ e
    exact ((strSeed_inj _ _ _ _).1 this).1
  · exact hnd

theorem xorAttrs_eq_mk (as : List (String × Rep)) (s : HV) (hnd : (namesOf as).Nodup) (hf : fragAttrs as = true) :
    xorAttrs true as s = mk (attrAtoms as s) := by
  rw [xorAttrs_eq_pairs, xorPairs_eq_mk]
  · simp [attrAtoms, List.map_map, Function.comp_def]
  · intro p hp
    obtain ⟨q, hq, e⟩ := List.mem_map.1 hp
    subst e
    obtain ⟨pp, pf⟩ := fragAttrs_mem as q hf hq
    exact ⟨pf, pp⟩
  · have := attrAtoms_nodup as s hnd hf
    simpa [attrAtoms, List.map_map, Function.comp_def] using this

theorem mapC_notin (as : List (String × Rep)) (s s' : HV) (hf : fragAttrs as = true) : mapC s' ∉ attrAtoms as s := by
  intro h
  obtain ⟨p, hp, e⟩ := List.mem_map.1 h
  obtain ⟨pp, pf⟩ := fragAttrs_mem as p hf hp
  exact atomAt_ne_mapC p.2 pf pp _ _ _ e

/-- what `GenericTuple.Hash` finishes: the map constant and one atom per attribute -/
theorem gtuple_payload (as : List (String × Rep)) (s : HV) (hnd : (namesOf as).Nodup) (hf : fragAttrs as = true) :
    hxor (hatom "mapC" (.set []) s) (xorAttrs true as s) = mk (mapC s :: attrAtoms as s) := by
  rw [xorAttrs_eq_mk as s hnd hf]
  have : mapC s ∉ mk (attrAtoms as s) := fun h => mapC_notin as s s hf ((mem_mk _ _).1 h)
  show hxor [mapC s] _ = _
  rw [hxor, symdiff_singleton _ _ (sorted_mk _) this]
  rfl

theorem lookupV_some_of_mem : ∀ (l : List (String × V)) (k : String) (v : V), (l.map (·.1)).Nodup →
    (k, v) ∈ l → lookupV k l = some v
  | [], _, _, _, h => by simp at h
  | (m, w) :: r, k, v, hn, h => by
    simp only [List.map_cons, List.nodup_cons] at hn
    simp only [List.mem_cons, Prod.mk.injEq] at h
    rcases h with ⟨rfl, rfl⟩ | h
    · simp [lookupV]
    · have : k ≠ m := by
        intro e; subst e
        exact hn.1 (List.mem_map.2 ⟨(k, v), h, rfl⟩)
      simp only [lookupV, this, if_false]
      exact lookupV_some_of_mem r k v hn.2 h

theorem lookupV_mem : ∀ (l : List (String × V)) (k : String) (v : V), lookupV k l = some v → (k, v) ∈ l
  | [], _, _, h => by simp [lookupV] at h
  | (m, w) :: r, k, v, h => by
    simp only [lookupV] at h
    split at h
    · next e => subst e; simp at h; subst h; simp
    · exact List.mem_cons_of_mem _ (lookupV_mem r k v h)

theorem lookup_ext_iff_mem (l l' : List (String × V)) (hn : (l.map (·.1)).Nodup) (hn' : (l'.map (·.1)).Nodup) :
    (∀ k, lookupV k l = lookupV k l') ↔ (∀ q, q ∈ l ↔ q ∈ l') := by
  constructor
  · intro h q
    obtain ⟨k, v⟩ := q
    constructor
    · intro hq
      have := lookupV_some_of_mem l k v hn hq
      rw [h k] at this
      exact lookupV_mem l' k v this
    · intro hq
      have := lookupV_some_of_mem l' k v hn' hq
      rw [← h k] at this
      exact lookupV_mem l k v this
  · intro h k
    cases h1 : lookupV k l with
    | some v =>
      have := (h (k, v)).1 (lookupV_mem l k v h1)
      rw [lookupV_some_of_mem l' k v hn' this]
    | none =>
      cases h2 : lookupV k l' with
      | none => rfl
      | some w =>
        have := (h (k, w)).2 (lookupV_mem l' k w h2)
        rw [lookupV_some_of_mem l k w hn this] at h1
        cases h1

theorem denAttrs_eq_map : ∀ (as : List (String × Rep)), denAttrs as = as.map (fun p => (p.1, den p.2))
  | [] => rfl
  | (_, _) :: r => by simp [denAttrs, denAttrs_eq_map r]

theorem gtuple_core (as bs : List (String × Rep)) (s : HV)
    (na : (namesOf as).Nodup) (nb : (namesOf bs).Nodup) (fa : fragAttrs as = true) (fb : fragAttrs bs = true)
    (H : ∀ p, p ∈ as → ∀ q, q ∈ bs → ∀ S S' : HV,
      (hashG true p.2 S = hashG true q.2 S' ↔ (S = S' ∧ den p.2 = den q.2))) :
    mk (mapC s :: attrAtoms as s) = mk (mapC s :: attrAtoms bs s) ↔
      V.mkTup (denAttrs as) = V.mkTup (denAttrs bs) := by
  rw [mkTup_eq_iff, lookup_ext_iff_mem _ _ (by rw [denAttrs_names]; exact na) (by rw [denAttrs_names]; exact nb),
    mk_eq_iff, denAttrs_eq_map, denAttrs_eq_map]
  have hA := mapC_notin as s s fa
  have hB := mapC_notin bs s s fb
  have h1 : (∀ v, v ∈ mapC s :: attrAtoms as s ↔ v ∈ mapC s :: attrAtoms bs s) ↔
      (∀ v, v ∈ attrAtoms as s ↔ v ∈ attrAtoms bs s) := by
    constructor
    · intro h v
      constructor
      · intro hv
        rcases List.mem_cons.1 ((h v).1 (List.mem_cons_of_mem _ hv)) with e | h'
        · subst e; exact absurd hv hA
        · exact h'
      · intro hv
        rcases List.mem_cons.1 ((h v).2 (List.mem_cons_of_mem _ hv)) with e | h'
        · subst e; exact absurd hv hB
        · exact h'
    · intro h v
      simp only [List.mem_cons, h v]
  rw [h1]
  unfold attrAtoms
  apply map_mem_transfer
  intro p hp q hq
  obtain ⟨pp, pf⟩ := fragAttrs_mem as p fa hp
  obtain ⟨qp, qf⟩ := fragAttrs_mem bs q fb hq
  have h2 : atomAt p.2 (strSeed p.1 s) = atomAt q.2 (strSeed q.1 s) ↔
      hashG true p.2 (strSeed p.1 s) = hashG true q.2 (strSeed q.1 s) := by
    rw [hash_singleton p.2 pf pp, hash_singleton q.2 qf qp]; simp
  rw [h2, H p hp q hq, strSeed_inj]
  simp

/-! #### `GenericTuple.Equal` against any tuple -/

theorem tupleGet_attrsOf (b : Rep) (hb : isTuple b = true) (n : String) : tupleGet b n = lookupAttr n (attrsOf b) := by
  cases b <;> simp [isTuple] at hb <;> simp [tupleGet, attrsOf, lookupAttr]
  all_goals (split <;> simp_all)

theorem tupleNames_attrsOf (b : Rep) (hb : isTuple b = true) : tupleNames b = namesOf (attrsOf b) := by
  cases b <;> simp [isTuple] at hb <;> simp [tupleNames, attrsOf, namesOf]

theorem den_attrsOf (b : Rep) (hb : isTuple b = true) : den b = V.mkTup (denAttrs (attrsOf b)) := by
  cases b <;> simp [isTuple] at hb <;> simp [den, attrsOf, denAttrs, V.mkTup, V.insAttr, vpair]

theorem lookupAttr_some_of_mem : ∀ (as : List (String × Rep)) (k : String) (v : Rep), (namesOf as).Nodup →
    (k, v) ∈ as → lookupAttr k as = some v
  | [], _, _, _, h => by simp at h
  | (m, w) :: r, k, v, hn, h => by
    simp only [namesOf, List.map_cons, List.nodup_cons] at hn
    simp only [List.mem_cons, Prod.mk.injEq] at h
    rcases h with ⟨rfl, rfl⟩ | h
    · simp [lookupAttr]
    · have : k ≠ m := by
        intro e; subst e
        exact hn.1 (List.mem_map.2 ⟨(k, v), h, rfl⟩)
      simp only [lookupAttr, this, if_false]
      exact lookupAttr_some_of_mem r k v hn.2 h

theorem lookupAttr_mem : ∀ (as : List (String × Rep)) (k : String) (v : Rep), lookupAttr k as = some v → (k, v) ∈ as
  | [], _, _, h => by simp [lookupAttr] at h
  | (m, w) :: r, k, v, h => by
    simp only [lookupAttr] at h
    split at h
    · next e => subst e; simp at h; subst h; simp
    · exact List.mem_cons_of_mem _ (lookupAttr_mem r k v h)

theorem lookupAttr_none_iff : ∀ (as : List (String × Rep)) (k : String), lookupAttr k as = none ↔ k ∉ namesOf as
  | [], _ => by simp [lookupAttr, namesOf]
  | (m, w) :: r, k => by
    simp only [lookupAttr, namesOf, List.map_cons, List.mem_cons, not_or]
    split
    · next e => simp [e]
    · next e =>
      have := lookupAttr_none_iff r k
      simp only [namesOf] at this
      rw [this]; simp [e]

theorem equalAttrsIn_iff : ∀ (as : List (String × Rep)) (b : Rep),
    equalAttrsIn true as b = true ↔ ∀ p, p ∈ as → ∃ w, tupleGet b p.1 = some w ∧ equalG true p.2 w = true
  | [], b => by simp [equalAttrsIn]
  | (n, v) :: r, b => by
    simp only [equalAttrsIn, Bool.and_eq_true, equalAttrsIn_iff r b, List.mem_cons, forall_eq_or_imp]
    constructor
    · rintro ⟨h1, h2⟩
      refine ⟨?_, h2⟩
      cases hg : tupleGet b n with
      | none => rw [hg] at h1; simp at h1
      | some w => rw [hg] at h1; exact ⟨w, rfl, h1⟩
    · rintro ⟨⟨w, hw, he⟩, h2⟩
      refine ⟨?_, h2⟩
      rw [hw]; exact he

/-- `GenericTuple.Equal(b)` for a tuple `b` of any representation is equality of the name ↦ value maps -/
theorem gtuple_equal_iff (as : List (String × Rep)) (b : Rep) (hb : isTuple b = true)
    (na : (namesOf as).Nodup) (nb : (namesOf (attrsOf b)).Nodup)
    (HE : ∀ p, p ∈ as → ∀ q, q ∈ attrsOf b → (equal p.2 q.2 = true ↔ den p.2 = den q.2)) :
    equal (.gtuple as) b = true ↔ den (.gtuple as) = den b := by
  rw [den_attrsOf b hb]
  simp only [den, mkTup_eq_iff, equal, equalG, hb, Bool.true_and, Bool.and_eq_true, equalAttrsIn_iff,
    List.all_eq_true, tupleNames_attrsOf b hb]
  constructor
  · rintro ⟨h1, h2⟩ k
    rw [lookupV_denAttrs, lookupV_denAttrs]
    cases hk : lookupAttr k as with
    | some v =>
      obtain ⟨w, hw, he⟩ := h1 (k, v) (lookupAttr_mem as k v hk)
      rw [tupleGet_attrsOf b hb] at hw
      have := (HE (k, v) (lookupAttr_mem as k v hk) (k, w) (lookupAttr_mem _ k w hw)).1 he
      simp only [] at hw
      rw [hw]; simp [this]
    | none =>
      cases hk' : lookupAttr k (attrsOf b) with
      | none => rfl
      | some w =>
        exfalso
        have hm : k ∈ namesOf (attrsOf b) := by
          have := lookupAttr_mem _ k w hk'
          exact List.mem_map.2 ⟨(k, w), this, rfl⟩
        have := h2 k hm
        have hnot := (lookupAttr_none_iff as k).1 hk
        simp [namesOf] at this hnot
        obtain ⟨x, hx⟩ := this
        exact hnot x hx
  · intro h
    constructor
    · intro p hp
      have hk := lookupAttr_some_of_mem as p.1 p.2 na hp
      have := h p.1
      rw [lookupV_denAttrs, lookupV_denAttrs, hk] at this
      cases hk' : lookupAttr p.1 (attrsOf b) with
      | none => rw [hk'] at this; simp at this
      | some w =>
        rw [hk'] at this
        simp at this
        refine ⟨w, by rw [tupleGet_attrsOf b hb]; exact hk', ?_⟩
        exact (HE p hp (p.1, w) (lookupAttr_mem _ _ _ hk')).2 this
    · intro k hk
      have := h k
      rw [lookupV_denAttrs, lookupV_denAttrs] at this
      have hb' : lookupAttr k (attrsOf b) ≠ none := by
        intro e; exact ((lookupAttr_none_iff _ k).1 e) hk
      cases hk' : lookupAttr k as with
      | none =>
        rw [hk'] at this
        cases hk'' : lookupAttr k (attrsOf b) with
        | none => exact absurd hk'' hb'
        | some w => rw [hk''] at this; simp at this
      | some v =>
        have := lookupAttr_mem as k v hk'
        simp
        exact ⟨v, this⟩

/-! ### the main theorem on the fragment -/

/-- the statement proved by induction on a bound of the nesting depth -/
def MainAt (a b : Rep) : Prop :=
  (equal a b = true ↔ den a = den b) ∧
  (plain a = true → plain b = true →
    ∀ s s' : HV, hashG true a s = hashG true b s' ↔ (s = s' ∧ den a = den b))

theorem cross_lemma (a b : Rep) (hne : ctorTag a ≠ ctorTag b)
    (htag : den a = den b → ctorTag a = ctorTag b) (heq : equal a b = false)
    (hh : plain a = true → plain b = true → ∀ s s', hashG true a s ≠ hashG true b s') : MainAt a b :=
  ⟨⟨fun h => (by rw [heq] at h; cases h), fun h => absurd (htag h) hne⟩,
   fun pa pb s s' => ⟨fun h => absurd h (hh pa pb s s'), fun h => absurd (htag h.2) hne⟩⟩

theorem genericMember_plain (x : Rep) (h : genericMember x = true) : plain x = true := by
  cases x <;> simp [genericMember, isSet] at h <;> simp [plain]

theorem generic_facts (n : Nat) (zs : List Rep) (hd : depth (.generic zs) < n + 1)
    (hw : wf (.generic zs) = true) (hf : frag (.generic zs) = true) :
    fragList zs = true ∧ (denList zs).Nodup ∧ zs ≠ [] ∧ denList zs ≠ [V.tup []] ∧ wfList zs = true ∧
    (∀ x, x ∈ zs → depth x < n) ∧ (∀ x, x ∈ zs → plain x = true) := by
  simp only [wf, Bool.and_eq_true, Bool.not_eq_true', decide_eq_true_eq] at hw
  obtain ⟨⟨⟨⟨hne, hwl⟩, hgm⟩, hnd⟩, hnt⟩ := hw
  refine ⟨by simpa [frag] using hf, hnd, ?_, ?_, hwl, ?_, ?_⟩
  · intro e; subst e; simp at hne
  · intro e; rw [e] at hnt; simp at hnt
  · intro x hx
    have := depth_mem_list zs x hx
    simp only [depth] at hd
    omega
  · intro x hx
    exact genericMember_plain x (List.all_eq_true.1 hgm x hx)

theorem array_facts (n : Nat) (vs : List (Option Rep)) (off c : Int) (hd : depth (.array vs off c) < n + 1)
    (hw : wf (.array vs off c) = true) (hf : frag (.array vs off c) = true) :
    fragOpts vs = true ∧ headSome vs = true ∧ lastSome vs = true ∧ wfOpts vs = true ∧ c = (optCount vs : Int) ∧
    (∀ x, some x ∈ vs → depth x < n) := by
  simp only [wf, Bool.and_eq_true, beq_iff_eq] at hw
  obtain ⟨⟨⟨hh, hl⟩, hwo⟩, hc⟩ := hw
  refine ⟨by simpa [frag] using hf, hh, hl, hwo, hc, ?_⟩
  intro x hx
  have := depth_mem_opts vs x hx
  simp only [depth] at hd
  omega

macro "cross" htag:ident fb:ident : tactic => `(tactic| first
  | (simp [frag] at $fb:ident; done)
  | exact cross_lemma _ _ (by simp [ctorTag]) $htag (by simp [equal, equalG, isTuple, equalAttrsIn, tupleNames])
      (by first
        | (intro hp; simp [plain] at hp; done)
        | (intro _ hq; simp [plain] at hq; done)
        | (intro _ _ s s'; simp [hashG, hfin, hatom])))

theorem gtuple_facts (n : Nat) (as : List (String × Rep)) (hd : depth (.gtuple as) < n + 1)
    (hw : wf (.gtuple as) = true) (hf : frag (.gtuple as) = true) :
    (namesOf as).Nodup ∧ wfAttrs as = true ∧ fragAttrs as = true ∧ (∀ p, p ∈ as → depth p.2 < n) := by
  simp only [wf, Bool.and_eq_true, decide_eq_true_eq] at hw
  refine ⟨hw.1.1, hw.1.2, by simpa [frag] using hf, ?_⟩
  intro p hp
  have := depth_gtuple as p hp
  omega

theorem gtuple_payload_mem (as : List (String × Rep)) (s : HV) (hnd : (namesOf as).Nodup)
    (hf : fragAttrs as = true) : mapC s ∈ hxor (hatom "mapC" (.set []) s) (xorAttrs true as s) := by
  rw [gtuple_payload as s hnd hf, mem_mk]; simp

/-- the attributes of a canonical fragment tuple are canonical fragment values of smaller depth -/
theorem attrsOf_facts (n : Nat) (b : Rep) (hb : isTuple b = true) (hd : depth b < n + 1) (hn : 0 < n)
    (hw : wf b = true) (hf : frag b = true) :
    (namesOf (attrsOf b)).Nodup ∧ ∀ q, q ∈ attrsOf b → depth q.2 < n ∧ wf q.2 = true ∧ frag q.2 = true := by
  cases b <;> simp [isTuple] at hb
  case gtuple bs =>
    obtain ⟨nb, wb, fb, db⟩ := gtuple_facts n bs hd hw hf
    exact ⟨nb, fun q hq => ⟨db q hq, wfAttrs_mem bs q wb hq, (fragAttrs_mem bs q fb hq).2⟩⟩
  case charT i c =>
    refine ⟨by simp [attrsOf, namesOf], ?_⟩
    intro q hq
    simp [attrsOf] at hq
    rcases hq with rfl | rfl <;> simp [depth, wf, frag, hn]
  case byteT i c =>
    refine ⟨by simp [attrsOf, namesOf], ?_⟩
    intro q hq
    simp [attrsOf] at hq
    rcases hq with rfl | rfl <;> simp [depth, wf, frag, hn]
  case itemT i x =>
    refine ⟨by simp [attrsOf, namesOf], ?_⟩
    intro q hq
    simp [attrsOf] at hq
    simp only [frag, Bool.and_eq_true] at hf
    simp only [depth] at hd
    rcases hq with rfl | rfl
    · simp [depth, wf, frag, hn]
    · exact ⟨by simp; omega, by simpa [wf] using hw, hf.2⟩
  case entryT k v =>
    refine ⟨by simp [attrsOf, namesOf], ?_⟩
    intro q hq
    simp [attrsOf] at hq
    simp only [frag, Bool.and_eq_true] at hf
    simp only [wf, Bool.and_eq_true] at hw
    simp only [depth] at hd
    rcases hq with rfl | rfl
    · exact ⟨by simp; omega, hw.1, hf.1.2⟩
    · exact ⟨by simp; omega, hw.2, hf.2⟩

theorem main_frag : ∀ (n : Nat) (a b : Rep), depth a < n → depth b < n → wf a = true → wf b = true →
    frag a = true → frag b = true → MainAt a b := by
  intro n
  induction n with
  | zero => intro a b ha; omega
  | succ n ih =>
    intro a b ha hb wa wb fa fb
    have htag : den a = den b → ctorTag a = ctorTag b := by
      intro h; rw [← vtag_den a wa fa, ← vtag_den b wb fb, h]
    -- the induction hypothesis for plain values, any seeds
    have ihH : ∀ x y, depth x < n → depth y < n → wf x = true → wf y = true → frag x = true → frag y = true →
        plain x = true → plain y = true →
        ∀ S S' : HV, (hashG true x S = hashG true y S' ↔ (S = S' ∧ den x = den y)) :=
      fun x y dx dy wx wy fx fy px py => (ih x y dx dy wx wy fx fy).2 px py
    -- hash injectivity among members of generic sets below the bound
    have memH : ∀ (xs ys : List Rep), (∀ x, x ∈ xs → depth x < n) → (∀ x, x ∈ ys → depth x < n) →
        wfList xs = true → wfList ys = true → fragList xs = true → fragList ys = true →
        (∀ x, x ∈ xs → plain x = true) → (∀ x, x ∈ ys → plain x = true) →
        ∀ x, x ∈ xs ++ ys → ∀ y, y ∈ xs ++ ys → (hashG true x [] = hashG true y [] ↔ den x = den y) := by
      intro xs ys dx dy wx wy fx fy ppx ppy x hx y hy
      have px : depth x < n ∧ wf x = true ∧ frag x = true ∧ plain x = true := by
        rcases List.mem_append.1 hx with h | h
        · exact ⟨dx x h, wfList_mem xs x wx h, fragList_mem xs x fx h, ppx x h⟩
        · exact ⟨dy x h, wfList_mem ys x wy h, fragList_mem ys x fy h, ppy x h⟩
      have py : depth y < n ∧ wf y = true ∧ frag y = true ∧ plain y = true := by
        rcases List.mem_append.1 hy with h | h
        · exact ⟨dx y h, wfList_mem xs y wx h, fragList_mem xs y fx h, ppx y h⟩
        · exact ⟨dy y h, wfList_mem ys y wy h, fragList_mem ys y fy h, ppy y h⟩
      have := ihH x y px.1 py.1 px.2.1 py.2.1 px.2.2.1 py.2.2.1 px.2.2.2 py.2.2.2 [] []
      simpa using this
    -- the empty tuple as a possible member of a generic set
    have unitFacts : 0 < n → (∀ x, x ∈ [Rep.gtuple []] → depth x < n) ∧ wfList [Rep.gtuple []] = true ∧
        fragList [Rep.gtuple []] = true ∧ (∀ x, x ∈ [Rep.gtuple []] → plain x = true) := by
      intro hn
      refine ⟨?_, by simp [wfList, wf, wfAttrs, namesOf, specialisable], by simp [fragList, frag, fragAttrs], ?_⟩
      · intro x hx; simp at hx; subst hx; simpa [depth] using hn
      · intro x hx; simp at hx; subst hx; rfl
    cases a with
    | num x =>
      cases b with
      | num y =>
        refine ⟨by simp [equal, equalG, den], fun _ _ s s' => ?_⟩
        simp [hashG, hatom, den]; constructor <;> (rintro ⟨h1, h2⟩; exact ⟨h2, h1⟩)
      | _ => cross htag fb
    | charT i c =>
      cases b with
      | charT j d =>
        refine ⟨by simp [equal, equalG, den, vpair], fun _ _ s s' => ?_⟩
        simp [hashG, hatom, den, vpair]; constructor <;> (rintro ⟨h1, h2⟩; exact ⟨h2, h1⟩)
      | _ => cross htag fb
    | byteT i c =>
      cases b with
      | byteT j d =>
        refine ⟨by simp [equal, equalG, den, vpair], fun _ _ s s' => ?_⟩
        simp [hashG, hatom, den, vpair]; constructor <;> (rintro ⟨h1, h2⟩; exact ⟨h2, h1⟩)
      | _ => cross htag fb
    | itemT i x =>
      cases b with
      | itemT j y =>
        simp only [frag, Bool.and_eq_true] at fa fb
        have dx : depth x < n := by simp only [depth] at ha; omega
        have dy : depth y < n := by simp only [depth] at hb; omega
        have := (ih x y dx dy (by simpa [wf] using wa) (by simpa [wf] using wb) fa.2 fb.2).1
        refine ⟨?_, fun hp => by simp [plain] at hp⟩
        simp only [equal, equalG, Bool.and_eq_true, beq_iff_eq]
        rw [show equalG true x y = equal x y from rfl, this]
        simp [den, vpair]
      | _ => cross htag fb
    | entryT k v =>
      cases b with
      | entryT k' v' =>
        simp only [frag, Bool.and_eq_true] at fa fb
        simp only [wf, Bool.and_eq_true] at wa wb
        simp only [depth] at ha hb
        have h1 := (ih k k' (by omega) (by omega) wa.1 wb.1 fa.1.2 fb.1.2).1
        have h2 := (ih v v' (by omega) (by omega) wa.2 wb.2 fa.2 fb.2).1
        refine ⟨?_, fun hp => by simp [plain] at hp⟩
        simp only [equal, equalG, Bool.and_eq_true]
        rw [show equalG true k k' = equal k k' from rfl, show equalG true v v' = equal v v' from rfl, h1, h2]
        simp [den, vpair]
      | _ => cross htag fb
    | str r off h =>
      cases b with
      | str r' off' h' =>
        have key := str_den_inj r r' off off' h h' wa wb
        refine ⟨?_, fun _ _ s s' => ?_⟩
        · rw [key]; simp [equal, equalG]
          constructor
          · rintro ⟨⟨⟨h1, h2⟩, _⟩, h4⟩; exact ⟨h1, h4, h2⟩
          · rintro ⟨h1, h2, h3⟩; subst h2; exact ⟨⟨⟨h1, h3⟩, rfl⟩, rfl⟩
        · rw [key]; simp [hashG, hatom, numsV_inj]
          constructor
          · rintro ⟨⟨h1, h2⟩, h3⟩
            subst h1 h2 h3
            have := (key.1 rfl).2.2
            exact ⟨rfl, rfl, rfl, this⟩
          · rintro ⟨h1, h2, h3, _⟩; exact ⟨⟨h2, h3⟩, h1⟩
      | _ => cross htag fb
    | bytes r off =>
      cases b with
      | bytes r' off' =>
        have key := bytes_den_inj r r' off off' wa wb
        refine ⟨?_, fun _ _ s s' => ?_⟩
        · rw [key]; simp [equal, equalG]
        · rw [key]; simp [hashG, hatom, numsV_inj]
          constructor
          · rintro ⟨⟨h1, h2⟩, h3⟩; exact ⟨h3, h1, h2⟩
          · rintro ⟨h1, h2, h3⟩; exact ⟨⟨h2, h3⟩, h1⟩
      | _ => cross htag fb
    | empty =>
      cases b with
      | empty => exact ⟨by simp [equal, equalG], fun _ _ s s' => by simp [hashG, hfin, hatom]⟩
      | generic ys =>
        obtain ⟨fy, ny, ney, _, wy, dy, py⟩ := generic_facts n ys hb wb fb
        have ay := atoms_nodup ys fy py ny (fun x hx y hy =>
          memH ys [] dy (by simp) wy rfl fy rfl py (by simp) x (by simp [hx]) y (by simp [hy]))
        apply cross_lemma _ _ (by simp [ctorTag]) htag (by simp [equal, equalG])
        intro _ _ s s' h
        simp [hashG, hfin, hatom] at h
        exact xorList_ne_nil ys fy py ay ney h.1
      | array vs' off' c' =>
        obtain ⟨fo, hh, _, _, _, _⟩ := array_facts n vs' off' c' hb wb fb
        apply cross_lemma _ _ (by simp [ctorTag]) htag (by simp [equal, equalG])
        intro _ _ s s' h
        simp [hashG, hfin, hatom] at h
        rw [xorOpts_eq_mk off' vs' s' fo] at h
        have := (mk_eq_nil _).1 h.1
        simp [arrAtoms] at this
        exact idxItems_ne_nil off' vs' hh this
      | gtuple bs =>
        obtain ⟨nb, _, fbs, _⟩ := gtuple_facts n bs hb wb fb
        apply cross_lemma _ _ (by simp [ctorTag]) htag (by simp [equal, equalG])
        intro _ _ s s' h
        simp only [hashG, hfin, hatom, if_true] at h
        simp at h
        have := gtuple_payload_mem bs s' nb fbs
        rw [show hatom "mapC" (V.set []) s' = [V.tup [("mapC", V.set []), ("seed", V.set s')]] from rfl, h.1] at this
        simp at this
      | _ => cross htag fb
    | true_ =>
      cases b with
      | true_ => exact ⟨by simp [equal, equalG], fun _ _ s s' => by simp [hashG, hfin, hatom]⟩
      | generic ys =>
        obtain ⟨fy, ny, ney, nty, wy, dy, py⟩ := generic_facts n ys hb wb fb
        have hn : 0 < n := by simp only [depth] at hb; omega
        obtain ⟨u1, u2, u3, u4⟩ := unitFacts hn
        have Hy := memH ys [.gtuple []] dy u1 wy u2 fy u3 py u4
        have ay := atoms_nodup ys fy py ny (fun x hx y hy => Hy x (by simp [hx]) y (by simp [hy]))
        apply cross_lemma _ _ (by simp [ctorTag]) htag (by simp [equal, equalG])
        intro _ _ s s' h
        simp [hashG, hfin, hatom] at h
        obtain ⟨y, e, hy⟩ := xorList_single ys fy py ay _ h.1.symm
        subst e
        have hfy : frag y = true := by simpa [fragList] using fy
        have h2 : hashG true y [] = hashG true (.gtuple []) [] := by
          have hy' : atomAt y [] = _ := hy
          rw [hash_singleton y hfy (py y (by simp)), hy']; simp [hashG, hfin, hatom, xorAttrs, hxor_nil_right]
        have := (Hy y (by simp) (.gtuple []) (by simp)).1 h2
        simp [den, denAttrs, V.mkTup] at this
        apply nty; simp [denList, this]
      | array vs' off' c' =>
        obtain ⟨fo, hh, _, _, _, _⟩ := array_facts n vs' off' c' hb wb fb
        apply cross_lemma _ _ (by simp [ctorTag]) htag (by simp [equal, equalG])
        intro _ _ s s' h
        simp [hashG, hfin, hatom] at h
        rw [xorOpts_eq_mk off' vs' s' fo] at h
        -- the single atom on the left has seed [], array item atoms have an index seed
        cases hi : idxItems off' vs' with
        | nil => exact idxItems_ne_nil off' vs' hh hi
        | cons p r =>
          have hm : atomAt p.2 (intSeed p.1 s') ∈ mk (arrAtoms off' vs' s') := by
            rw [mem_mk]; simp [arrAtoms, hi]
          rw [← h.1] at hm
          simp at hm
          obtain ⟨pp, pf⟩ := fragOpts_mem vs' p.2 fo (idxItems_mem vs' off' p (by rw [hi]; simp))
          obtain ⟨t, q, e⟩ := atomAt_seed p.2 pf pp (intSeed p.1 s')
          rw [e] at hm
          simp [intSeed, hatom] at hm
      | gtuple bs =>
        obtain ⟨nb, _, fbs, _⟩ := gtuple_facts n bs hb wb fb
        apply cross_lemma _ _ (by simp [ctorTag]) htag (by simp [equal, equalG])
        intro _ _ s s' h
        simp only [hashG, hfin, hatom, if_true] at h
        simp at h
        have := gtuple_payload_mem bs s' nb fbs
        rw [show hatom "mapC" (V.set []) s' = [V.tup [("mapC", V.set []), ("seed", V.set s')]] from rfl, ← h.1] at this
        simp [mapC] at this
      | _ => cross htag fb
    | gtuple as =>
      obtain ⟨na, was, fas, das⟩ := gtuple_facts n as ha wa fa
      have pm := fun s => gtuple_payload_mem as s na fas
      by_cases hbt : isTuple b = true
      · -- against any tuple: the name ↦ value maps
        have hn : 0 < n ∨ as = [] := by
          cases as with
          | nil => exact Or.inr rfl
          | cons p r => exact Or.inl (by have := das p (by simp); omega)
        have HE : ∀ p, p ∈ as → ∀ q, q ∈ attrsOf b → (equal p.2 q.2 = true ↔ den p.2 = den q.2) := by
          intro p hp q hq
          have hn' : 0 < n := by have := das p hp; omega
          obtain ⟨_, fq⟩ := attrsOf_facts n b hbt hb hn' wb fb
          obtain ⟨dq, wq, fq'⟩ := fq q hq
          exact (ih p.2 q.2 (das p hp) dq (wfAttrs_mem as p was hp) wq (fragAttrs_mem as p fas hp).2 fq').1
        have nb : (namesOf (attrsOf b)).Nodup := by
          cases b <;> simp [isTuple] at hbt <;> simp [attrsOf, namesOf]
          case gtuple bs => exact (gtuple_facts n bs hb wb fb).1
        have heq := gtuple_equal_iff as b hbt na nb HE
        refine ⟨heq, ?_⟩
        cases b with
        | gtuple bs =>
          obtain ⟨nbs, wbs, fbs, dbs⟩ := gtuple_facts n bs hb wb fb
          intro _ _ s s'
          have HH : ∀ p, p ∈ as → ∀ q, q ∈ bs → ∀ S S' : HV,
              (hashG true p.2 S = hashG true q.2 S' ↔ (S = S' ∧ den p.2 = den q.2)) := by
            intro p hp q hq
            obtain ⟨pp, pf⟩ := fragAttrs_mem as p fas hp
            obtain ⟨qp, qf⟩ := fragAttrs_mem bs q fbs hq
            exact ihH p.2 q.2 (das p hp) (dbs q hq) (wfAttrs_mem as p was hp) (wfAttrs_mem bs q wbs hq) pf qf pp qp
          simp only [hashG, hfin, hatom, if_true]
          constructor
          · intro h
            simp at h
            obtain ⟨h1, h2⟩ := h
            subst h2
            refine ⟨rfl, ?_⟩
            have h1' : hxor (hatom "mapC" (.set []) s) (xorAttrs true as s) =
                hxor (hatom "mapC" (.set []) s) (xorAttrs true bs s) := h1
            rw [gtuple_payload as s na fas, gtuple_payload bs s nbs fbs] at h1'
            exact (gtuple_core as bs s na nbs fas fbs HH).1 h1'
          · rintro ⟨rfl, h⟩
            have := (gtuple_core as bs s na nbs fas fbs HH).2 h
            rw [← gtuple_payload as s na fas, ← gtuple_payload bs s nbs fbs] at this
            simp only [hatom] at this
            rw [this]
        | charT j d =>
          intro _ _ s s'
          exact ⟨fun h => by simp [hashG, hfin, hatom] at h, fun h => absurd (htag h.2) (by simp [ctorTag])⟩
        | byteT j d =>
          intro _ _ s s'
          exact ⟨fun h => by simp [hashG, hfin, hatom] at h, fun h => absurd (htag h.2) (by simp [ctorTag])⟩
        | itemT j y => intro _ hq; simp [plain] at hq
        | entryT k v => intro _ hq; simp [plain] at hq
        | _ => simp [isTuple] at hbt
      · -- against a non-tuple
        have hbt' : isTuple b = false := by simpa using hbt
        cases b with
        | generic ys =>
          obtain ⟨fy, ny, ney, _, wy, dy, py⟩ := generic_facts n ys hb wb fb
          have ay := atoms_nodup ys fy py ny (fun x hx y hy =>
            memH ys [] dy (by simp) wy rfl fy rfl py (by simp) x (by simp [hx]) y (by simp [hy]))
          apply cross_lemma _ _ (by simp [ctorTag]) htag (by simp [equal, equalG, isTuple])
          intro _ _ s s' h
          simp only [hashG, hfin, hatom, if_true] at h
          simp at h
          have := pm s
          rw [show hatom "mapC" (V.set []) s = [V.tup [("mapC", V.set []), ("seed", V.set s)]] from rfl, h.1] at this
          obtain ⟨y, hy, e⟩ := xorList_mem_atom ys fy py ay _ this
          exact atomAt_ne_mapC y (fragList_mem ys y fy hy) (py y hy) [] _ _ e
        | array vs' off' c' =>
          obtain ⟨fo, hh, _, _, _, _⟩ := array_facts n vs' off' c' hb wb fb
          apply cross_lemma _ _ (by simp [ctorTag]) htag (by simp [equal, equalG, isTuple])
          intro _ _ s s' h
          simp only [hashG, hfin, hatom, if_true] at h
          simp at h
          have := pm s
          rw [show hatom "mapC" (V.set []) s = [V.tup [("mapC", V.set []), ("seed", V.set s)]] from rfl, h.1,
            xorOpts_eq_mk off' vs' s' fo, mem_mk] at this
          obtain ⟨p, hp, e⟩ := List.mem_map.1 this
          obtain ⟨pp, pf⟩ := fragOpts_mem vs' p.2 fo (idxItems_mem vs' off' p hp)
          exact atomAt_ne_mapC p.2 pf pp _ _ _ e
        | empty =>
          apply cross_lemma _ _ (by simp [ctorTag]) htag (by simp [equal, equalG, isTuple])
          intro _ _ s s' h
          simp only [hashG, hfin, hatom, if_true] at h
          simp at h
          have := pm s
          rw [show hatom "mapC" (V.set []) s = [V.tup [("mapC", V.set []), ("seed", V.set s)]] from rfl, h.1] at this
          simp at this
        | true_ =>
          apply cross_lemma _ _ (by simp [ctorTag]) htag (by simp [equal, equalG, isTuple])
          intro _ _ s s' h
          simp only [hashG, hfin, hatom, if_true] at h
          simp at h
          have := pm s
          rw [show hatom "mapC" (V.set []) s = [V.tup [("mapC", V.set []), ("seed", V.set s)]] from rfl, h.1] at this
          simp [mapC] at this
        | num y =>
          exact cross_lemma _ _ (by simp [ctorTag]) htag (by simp [equal, equalG, isTuple])
            (by intro _ _ s s'; simp [hashG, hfin, hatom])
        | str r off h =>
          exact cross_lemma _ _ (by simp [ctorTag]) htag (by simp [equal, equalG, isTuple])
            (by intro _ _ s s'; simp [hashG, hfin, hatom])
        | bytes r off =>
          exact cross_lemma _ _ (by simp [ctorTag]) htag (by simp [equal, equalG, isTuple])
            (by intro _ _ s s'; simp [hashG, hfin, hatom])
        | dict m => simp [frag] at fb
        | relation names rows => simp [frag] at fb
        | union bs => simp [frag] at fb
        | _ => simp [isTuple] at hbt'
    | generic xs =>
      obtain ⟨fx, nx, nex, ntx, wx, dx, px⟩ := generic_facts n xs ha wa fa
      have ax := atoms_nodup xs fx px nx (fun x hx y hy =>
        memH xs [] dx (by simp) wx rfl fx rfl px (by simp) x (by simp [hx]) y (by simp [hy]))
      cases b with
      | generic ys =>
        obtain ⟨fy, ny, ney, _, wy, dy, py⟩ := generic_facts n ys hb wb fb
        obtain ⟨c1, c2⟩ := generic_core xs ys fx fy px py nx ny (memH xs ys dx dy wx wy fx fy px py)
        have hne := xorList_ne_nil xs fx px ax nex
        have hden : den (.generic xs) = den (.generic ys) ↔ mk (denList xs) = mk (denList ys) := by
          simp [den, V.mkSet]
        refine ⟨?_, fun _ _ s s' => ?_⟩
        · rw [hden, ← c1]
          have hX : (xorList true xs).isEmpty = false := by
            cases hx : xorList true xs with
            | nil => exact absurd hx hne
            | cons _ _ => rfl
          simp only [equal, equalG, frozenEq, hX, Bool.and_eq_true, beq_iff_eq, Bool.not_false, Bool.true_or,
            and_true]
          constructor
          · exact fun h => h.2
          · intro h; exact ⟨c2 (c1.1 h), h⟩
        · rw [hden, ← c1]
          simp [hashG, hfin, hatom]
          constructor <;> (rintro ⟨h1, h2⟩; exact ⟨h2, h1⟩)
      | empty =>
        apply cross_lemma _ _ (by simp [ctorTag]) htag (by simp [equal, equalG])
        intro _ _ s s' h
        simp [hashG, hfin, hatom] at h
        exact xorList_ne_nil xs fx px ax nex h.1
      | true_ =>
        have hn : 0 < n := by simp only [depth] at ha; omega
        obtain ⟨u1, u2, u3, u4⟩ := unitFacts hn
        have Hx := memH xs [.gtuple []] dx u1 wx u2 fx u3 px u4
        apply cross_lemma _ _ (by simp [ctorTag]) htag (by simp [equal, equalG])
        intro _ _ s s' h
        simp [hashG, hfin, hatom] at h
        obtain ⟨y, e, hy⟩ := xorList_single xs fx px ax _ h.1
        subst e
        have hfy : frag y = true := by simpa [fragList] using fx
        have h2 : hashG true y [] = hashG true (.gtuple []) [] := by
          have hy' : atomAt y [] = _ := hy
          rw [hash_singleton y hfy (px y (by simp)), hy']; simp [hashG, hfin, hatom, xorAttrs, hxor_nil_right]
        have := (Hx y (by simp) (.gtuple []) (by simp)).1 h2
        simp [den, denAttrs, V.mkTup] at this
        apply ntx; simp [denList, this]
      | gtuple bs =>
        obtain ⟨nb, _, fbs, _⟩ := gtuple_facts n bs hb wb fb
        apply cross_lemma _ _ (by simp [ctorTag]) htag (by simp [equal, equalG])
        intro _ _ s s' h
        simp only [hashG, hfin, hatom, if_true] at h
        simp at h
        have := gtuple_payload_mem bs s' nb fbs
        rw [show hatom "mapC" (V.set []) s' = [V.tup [("mapC", V.set []), ("seed", V.set s')]] from rfl, ← h.1] at this
        obtain ⟨y, hy, e⟩ := xorList_mem_atom xs fx px ax _ this
        exact atomAt_ne_mapC y (fragList_mem xs y fx hy) (px y hy) [] _ _ e
      | array vs' off' c' =>
        obtain ⟨fo, hh, _, _, _, _⟩ := array_facts n vs' off' c' hb wb fb
        apply cross_lemma _ _ (by simp [ctorTag]) htag (by simp [equal, equalG])
        intro _ _ s s' h
        simp [hashG, hfin, hatom] at h
        rw [xorOpts_eq_mk off' vs' s' fo] at h
        -- member atoms of the generic set have seed [], array item atoms an index seed
        cases hi : idxItems off' vs' with
        | nil => exact idxItems_ne_nil off' vs' hh hi
        | cons p r =>
          have hm : atomAt p.2 (intSeed p.1 s') ∈ mk (arrAtoms off' vs' s') := by
            rw [mem_mk]; simp [arrAtoms, hi]
          rw [← h.1] at hm
          obtain ⟨y, hy, e⟩ := xorList_mem_atom xs fx px ax _ hm
          obtain ⟨pp, pf⟩ := fragOpts_mem vs' p.2 fo (idxItems_mem vs' off' p (by rw [hi]; simp))
          have := atomAt_seed_inj y p.2 (fragList_mem xs y fx hy) (px y hy) pf pp _ _ e
          simp [intSeed, hatom] at this
      | _ => cross htag fb
    | array vs off c =>
      obtain ⟨fo, hh, hl, wo, hc, dv⟩ := array_facts n vs off c ha wa fa
      cases b with
      | array vs' off' c' =>
        obtain ⟨fo', hh', hl', wo', hc', dv'⟩ := array_facts n vs' off' c' hb wb fb
        have HH : ∀ x, some x ∈ vs → ∀ y, some y ∈ vs' → ∀ S S' : HV,
            (hashG true x S = hashG true y S' ↔ (S = S' ∧ den x = den y)) := by
          intro x hx y hy
          obtain ⟨px, fx⟩ := fragOpts_mem vs x fo hx
          obtain ⟨py, fy⟩ := fragOpts_mem vs' y fo' hy
          exact ihH x y (dv x hx) (dv' y hy) (wfOpts_mem vs x wo hx) (wfOpts_mem vs' y wo' hy) fx fy px py
        have HE : ∀ x, some x ∈ vs → ∀ y, some y ∈ vs' → (equal x y = true ↔ den x = den y) := by
          intro x hx y hy
          obtain ⟨_, fx⟩ := fragOpts_mem vs x fo hx
          obtain ⟨_, fy⟩ := fragOpts_mem vs' y fo' hy
          exact (ih x y (dv x hx) (dv' y hy) (wfOpts_mem vs x wo hx) (wfOpts_mem vs' y wo' hy) fx fy).1
        -- the denotation determines offset and items
        have hden : den (.array vs off c) = den (.array vs' off' c') ↔ (off = off' ∧ denOpts vs = denOpts vs') := by
          rw [den_array, den_array]
          constructor
          · intro h
            have h' : seqM "@item" off (denOpts vs) = seqM "@item" off' (denOpts vs') := by simpa using h
            exact seqM_inj "@item" _ _ off off' (headSome_denOpts vs hh) (headSome_denOpts vs' hh')
              (lastSome_noTrail _ (lastSome_denOpts vs hl)) (lastSome_noTrail _ (lastSome_denOpts vs' hl')) h'
          · rintro ⟨rfl, h⟩; rw [h]
        refine ⟨?_, fun _ _ s s' => ?_⟩
        · rw [hden]
          simp only [equal, equalG, Bool.and_eq_true, beq_iff_eq]
          constructor
          · rintro ⟨⟨⟨h1, h2⟩, _⟩, h4⟩
            exact ⟨h2, (arrEq_iff vs vs' (by exact_mod_cast h1) HE).1 h4⟩
          · rintro ⟨h1, h2⟩
            have hlen : vs.length = vs'.length := by
              have := congrArg List.length h2
              rwa [denOpts_length, denOpts_length] at this
            refine ⟨⟨⟨by exact_mod_cast hlen, h1⟩, ?_⟩, (arrEq_iff vs vs' hlen HE).2 h2⟩
            rw [hc, hc', ← optCount_denOpts vs, ← optCount_denOpts vs', h2]
        · simp only [hashG, hfin, hatom, if_true]
          constructor
          · intro h
            simp at h
            obtain ⟨h1, h2⟩ := h
            subst h2
            refine ⟨rfl, ?_⟩
            rw [den_array, den_array]
            exact congrArg _ ((array_core vs vs' off off' s fo fo' HH).1 h1)
          · rintro ⟨rfl, h⟩
            rw [den_array, den_array] at h
            have h' : seqM "@item" off (denOpts vs) = seqM "@item" off' (denOpts vs') := by simpa using h
            rw [(array_core vs vs' off off' s fo fo' HH).2 h']
      | empty =>
        apply cross_lemma _ _ (by simp [ctorTag]) htag (by simp [equal, equalG])
        intro _ _ s s' h
        simp [hashG, hfin, hatom] at h
        rw [xorOpts_eq_mk off vs s fo] at h
        have := (mk_eq_nil _).1 h.1
        simp [arrAtoms] at this
        exact idxItems_ne_nil off vs hh this
      | true_ =>
        apply cross_lemma _ _ (by simp [ctorTag]) htag (by simp [equal, equalG])
        intro _ _ s s' h
        simp [hashG, hfin, hatom] at h
        rw [xorOpts_eq_mk off vs s fo] at h
        cases hi : idxItems off vs with
        | nil => exact idxItems_ne_nil off vs hh hi
        | cons p r =>
          have hm : atomAt p.2 (intSeed p.1 s) ∈ mk (arrAtoms off vs s) := by
            rw [mem_mk]; simp [arrAtoms, hi]
          rw [h.1] at hm
          simp at hm
          obtain ⟨pp, pf⟩ := fragOpts_mem vs p.2 fo (idxItems_mem vs off p (by rw [hi]; simp))
          obtain ⟨t, q, e⟩ := atomAt_seed p.2 pf pp (intSeed p.1 s)
          rw [e] at hm
          simp [intSeed, hatom] at hm
      | gtuple bs =>
        obtain ⟨nb, _, fbs, _⟩ := gtuple_facts n bs hb wb fb
        apply cross_lemma _ _ (by simp [ctorTag]) htag (by simp [equal, equalG])
        intro _ _ s s' h
        simp only [hashG, hfin, hatom, if_true] at h
        simp at h
        have := gtuple_payload_mem bs s' nb fbs
        rw [show hatom "mapC" (V.set []) s' = [V.tup [("mapC", V.set []), ("seed", V.set s')]] from rfl, ← h.1,
          xorOpts_eq_mk off vs s fo, mem_mk] at this
        obtain ⟨p, hp, e⟩ := List.mem_map.1 this
        obtain ⟨pp, pf⟩ := fragOpts_mem vs p.2 fo (idxItems_mem vs off p hp)
        exact atomAt_ne_mapC p.2 pf pp _ _ _ e
      | generic ys =>
        obtain ⟨fy, ny, ney, _, wy, dy, py⟩ := generic_facts n ys hb wb fb
        have ay := atoms_nodup ys fy py ny (fun x hx y hy =>
          memH ys [] dy (by simp) wy rfl fy rfl py (by simp) x (by simp [hx]) y (by simp [hy]))
        apply cross_lemma _ _ (by simp [ctorTag]) htag (by simp [equal, equalG])
        intro _ _ s s' h
        simp [hashG, hfin, hatom] at h
        rw [xorOpts_eq_mk off vs s fo] at h
        cases hi : idxItems off vs with
        | nil => exact idxItems_ne_nil off vs hh hi
        | cons p r =>
          have hm : atomAt p.2 (intSeed p.1 s) ∈ mk (arrAtoms off vs s) := by
            rw [mem_mk]; simp [arrAtoms, hi]
          rw [h.1] at hm
          obtain ⟨y, hy, e⟩ := xorList_mem_atom ys fy py ay _ hm
          obtain ⟨pp, pf⟩ := fragOpts_mem vs p.2 fo (idxItems_mem vs off p (by rw [hi]; simp))
          have := atomAt_seed_inj y p.2 (fragList_mem ys y fy hy) (py y hy) pf pp _ _ e
          simp [intSeed, hatom] at this
      | _ => cross htag fb
    | _ => simp [frag] at fa


/-- a canonical array is determined by its denotation (offset, hole pattern, item denotations) -/
theorem array_den_inj (vs vs' : List (Option Rep)) (off off' c c' : Int)
    (wa : wf (.array vs off c) = true) (wb : wf (.array vs' off' c') = true) :
    den (.array vs off c) = den (.array vs' off' c') ↔ (off = off' ∧ denOpts vs = denOpts vs') := by
  simp only [wf, Bool.and_eq_true] at wa wb
  rw [den_array, den_array]
  constructor
  · intro h
    have h' : seqM "@item" off (denOpts vs) = seqM "@item" off' (denOpts vs') := by simpa using h
    exact seqM_inj "@item" _ _ off off' (headSome_denOpts vs wa.1.1.1) (headSome_denOpts vs' wb.1.1.1)
      (lastSome_noTrail _ (lastSome_denOpts vs wa.1.1.2)) (lastSome_noTrail _ (lastSome_denOpts vs' wb.1.1.2)) h'
  · rintro ⟨rfl, h⟩; rw [h]

end Arrai.C02
