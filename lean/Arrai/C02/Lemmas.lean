/-
  C02 helper lemmas.  Core-only.
  Part 1: finite sets as sorted lists (extras over Arrai.Core.FinSet), XOR-sets.
  Part 2: denotation inversion, sequence denotations are injective on canonical forms.
  Part 3: the repaired hash is injective up to denotation; `Equal` = equality of denotations
          (fragment `frag`).
  Part 4: constructors.
-/
import Arrai.C02.Model
import Arrai.C02.Assoc
import Arrai.C02.SortNames

namespace Arrai
namespace FinSet
open V

theorem mk_of_sorted : ∀ (l : List V), Sorted l → mk l = l
  | [], _ => rfl
  | x :: xs, h => by
    unfold Sorted at h
    rw [List.pairwise_cons] at h
    show ins x (mk xs) = x :: xs
    rw [mk_of_sorted xs h.2]
    cases xs with
    | nil => rfl
    | cons y ys =>
      have : cmp x y = .lt := h.1 y (by simp)
      simp [ins, this]

theorem mk_eq_iff (a b : List V) : mk a = mk b ↔ ∀ x, x ∈ a ↔ x ∈ b := by
  constructor
  · intro h x
    rw [← mem_mk a, ← mem_mk b, h]
  · intro h
    apply sorted_ext _ _ (sorted_mk a) (sorted_mk b)
    intro x
    rw [mem_mk, mem_mk, h]

theorem mk_eq_nil (a : List V) : mk a = [] ↔ a = [] := by
  constructor
  · intro h
    cases a with
    | nil => rfl
    | cons x xs =>
      have : x ∈ mk (x :: xs) := (mem_mk _ _).2 (by simp)
      rw [h] at this; simp at this
  · intro h; subst h; rfl

/-- pigeonhole: a duplicate-free list included in a list that is not longer covers it -/
theorem subset_of_nodup_length {α} [DecidableEq α] :
    ∀ (l₁ l₂ : List α), l₁.Nodup → (∀ x, x ∈ l₁ → x ∈ l₂) → l₂.length ≤ l₁.length → ∀ y, y ∈ l₂ → y ∈ l₁
  | [], l₂, _, _, hlen, y, hy => by
    cases l₂ with
    | nil => simp at hy
    | cons z zs => simp at hlen
  | x :: t, l₂, hnd, hsub, hlen, y, hy => by
    rw [List.nodup_cons] at hnd
    have hx : x ∈ l₂ := hsub x (by simp)
    by_cases hyx : y = x
    · subst hyx; simp
    · have hsub' : ∀ z, z ∈ t → z ∈ l₂.erase x := by
        intro z hz
        have hzx : z ≠ x := by intro e; subst e; exact hnd.1 hz
        exact (List.mem_erase_of_ne hzx).2 (hsub z (List.mem_cons_of_mem _ hz))
      have hlen' : (l₂.erase x).length ≤ t.length := by
        rw [List.length_erase_of_mem hx]
        simp at hlen; omega
      have := subset_of_nodup_length t (l₂.erase x) hnd.2 hsub' hlen' y ((List.mem_erase_of_ne hyx).2 hy)
      exact List.mem_cons_of_mem _ this

theorem nodup_subset_length_le {α} [DecidableEq α] :
    ∀ (l₁ l₂ : List α), l₁.Nodup → (∀ x, x ∈ l₁ → x ∈ l₂) → l₁.length ≤ l₂.length
  | [], _, _, _ => by simp
  | x :: t, l₂, hnd, hsub => by
    rw [List.nodup_cons] at hnd
    have hx : x ∈ l₂ := hsub x (by simp)
    have hsub' : ∀ z, z ∈ t → z ∈ l₂.erase x := by
      intro z hz
      have hzx : z ≠ x := by intro e; subst e; exact hnd.1 hz
      exact (List.mem_erase_of_ne hzx).2 (hsub z (List.mem_cons_of_mem _ hz))
    have := nodup_subset_length_le t (l₂.erase x) hnd.2 hsub'
    rw [List.length_erase_of_mem hx] at this
    have : 0 < l₂.length := List.length_pos_of_mem hx
    simp; omega

/-- duplicate-free lists with the same members have the same length -/
theorem length_eq_of_same_members {α} [DecidableEq α] (l₁ l₂ : List α) (h₁ : l₁.Nodup) (h₂ : l₂.Nodup)
    (h : ∀ x, x ∈ l₁ ↔ x ∈ l₂) : l₁.length = l₂.length :=
  Nat.le_antisymm (nodup_subset_length_le l₁ l₂ h₁ (fun x hx => (h x).1 hx))
    (nodup_subset_length_le l₂ l₁ h₂ (fun x hx => (h x).2 hx))

theorem length_mk_of_nodup : ∀ (l : List V), l.Nodup → (mk l).length = l.length
  | [], _ => rfl
  | x :: xs, h => by
    rw [List.nodup_cons] at h
    show card (ins x (mk xs)) = _
    rw [card_ins x _ (sorted_mk xs)]
    have : x ∉ mk xs := fun hx => h.1 ((mem_mk _ _).1 hx)
    simp [this, card, length_mk_of_nodup xs h.2]

/-! ### XOR of sorted atom sets -/

theorem symdiff_nil_right (a : List V) (ha : Sorted a) : symdiff a [] = a := by
  have h1 : diff a [] = a := by simp [diff]
  have h2 : diff ([] : List V) a = [] := by simp [diff]
  rw [symdiff, h1, h2]
  show a.foldr ins [] = a
  exact mk_of_sorted a ha

theorem symdiff_singleton (x : V) (s : List V) (hs : Sorted s) (hx : x ∉ s) : symdiff [x] s = ins x s := by
  have h1 : diff [x] s = [x] := by simp [diff, hx]
  have h2 : diff s [x] = s := by
    simp only [diff]
    apply List.filter_eq_self.2
    intro a ha
    have : a ≠ x := by intro e; subst e; exact hx ha
    simp [this]
  rw [symdiff, h1, h2]; rfl

end FinSet
end Arrai

namespace Arrai.C02
open Arrai Arrai.FinSet Arrai.C02.Rep

/-! ## Part 2 — sequences -/

/-- members of a sequence sugar: element `i` of `xs` (if present) is `(@: off+i, name: x)` -/
def seqM (name : String) (off : Int) : List (Option V) → List V
  | [] => []
  | some x :: r => vpair name (.num off) x :: seqM name (off + 1) r
  | none :: r => seqM name (off + 1) r

def runeOpt (c : Int) : Option V := if c < 0 then none else some (.num c)

theorem strMembers_eq (off : Int) (s : List Int) : strMembers off s = seqM "@char" off (s.map runeOpt) := by
  induction s generalizing off with
  | nil => rfl
  | cons c r ih =>
    by_cases h : c < 0 <;> simp [strMembers, seqM, runeOpt, h, ih]

theorem bytesMembers_eq (off : Int) (b : List Int) :
    bytesMembers off b = seqM "@byte" off (b.map (fun x => some (.num x))) := by
  induction b generalizing off with
  | nil => rfl
  | cons c r ih => simp [bytesMembers, seqM, ih]

theorem arrMembers_eq (off : Int) (xs : List (Option V)) : arrMembers off xs = seqM "@item" off xs := by
  induction xs generalizing off with
  | nil => rfl
  | cons c r ih => cases c <;> simp [arrMembers, seqM, ih]

theorem cmp_vpair_lt (name : String) (i j : Int) (x y : V) (h : i < j) :
    V.cmp (vpair name (.num i) x) (vpair name (.num j) y) = .lt := by
  have : compare i j = .lt := by
    rw [Int.compare_eq_lt]; exact h
  simp [vpair, V.cmp, V.cmpAttrs, this]

theorem seqM_index (name : String) : ∀ (xs : List (Option V)) (off : Int) (v : V),
    v ∈ seqM name off xs → ∃ i x, v = vpair name (.num i) x ∧ off ≤ i
  | [], _, v, h => by simp [seqM] at h
  | some a :: r, off, v, h => by
    simp only [seqM, List.mem_cons] at h
    rcases h with h | h
    · exact ⟨off, a, h, Int.le_refl _⟩
    · obtain ⟨i, x, e, hi⟩ := seqM_index name r (off + 1) v h
      exact ⟨i, x, e, by omega⟩
  | none :: r, off, v, h => by
    simp only [seqM] at h
    obtain ⟨i, x, e, hi⟩ := seqM_index name r (off + 1) v h
    exact ⟨i, x, e, by omega⟩

theorem seqM_sorted (name : String) : ∀ (xs : List (Option V)) (off : Int), Sorted (seqM name off xs)
  | [], _ => sorted_nil
  | some a :: r, off => by
    simp only [seqM]
    unfold Sorted
    rw [List.pairwise_cons]
    refine ⟨?_, seqM_sorted name r (off + 1)⟩
    intro v hv
    obtain ⟨i, x, e, hi⟩ := seqM_index name r (off + 1) v hv
    subst e
    exact cmp_vpair_lt name off i a x (by omega)
  | none :: r, off => by
    simp only [seqM]
    exact seqM_sorted name r (off + 1)

/-- no trailing hole -/
def noTrail {α} : List (Option α) → Bool
  | [] => true
  | [x] => x.isSome
  | _ :: y :: r => noTrail (y :: r)

theorem noTrail_tail {α} (x : Option α) (r : List (Option α)) (h : noTrail (x :: r) = true) : noTrail r = true := by
  cases r with
  | nil => rfl
  | cons y r' => simpa [noTrail] using h

theorem seqM_ne_nil (name : String) : ∀ (xs : List (Option V)) (off : Int),
    noTrail xs = true → xs ≠ [] → seqM name off xs ≠ []
  | [], _, _, h => absurd rfl h
  | some a :: r, off, _, _ => by simp [seqM]
  | none :: r, off, ht, _ => by
    simp only [seqM]
    cases r with
    | nil => simp [noTrail] at ht
    | cons y r' => exact seqM_ne_nil name (y :: r') (off + 1) (noTrail_tail _ _ ht) (by simp)

theorem vpair_inj {name : String} {i j x y : V} (h : vpair name i x = vpair name j y) : i = j ∧ x = y := by
  simp [vpair] at h; exact h

theorem seqM_inj_tail (name : String) : ∀ (xs ys : List (Option V)) (off : Int),
    noTrail xs = true → noTrail ys = true → seqM name off xs = seqM name off ys → xs = ys
  | [], [], _, _, _, _ => rfl
  | [], y :: r, off, _, hy, h => by
    exact absurd h.symm (seqM_ne_nil name (y :: r) off hy (by simp))
  | x :: r, [], off, hx, _, h => by
    exact absurd h (seqM_ne_nil name (x :: r) off hx (by simp))
  | some a :: r, some b :: r', off, hx, hy, h => by
    simp only [seqM, List.cons.injEq] at h
    have := (vpair_inj h.1).2
    subst this
    rw [seqM_inj_tail name r r' (off + 1) (noTrail_tail _ _ hx) (noTrail_tail _ _ hy) h.2]
  | some a :: r, none :: r', off, _, _, h => by
    simp only [seqM] at h
    have hm : vpair name (.num off) a ∈ seqM name (off + 1) r' := by rw [← h]; simp
    obtain ⟨i, x, e, hi⟩ := seqM_index name r' (off + 1) _ hm
    have := (vpair_inj e).1
    simp at this; omega
  | none :: r, some b :: r', off, _, _, h => by
    simp only [seqM] at h
    have hm : vpair name (.num off) b ∈ seqM name (off + 1) r := by rw [h]; simp
    obtain ⟨i, x, e, hi⟩ := seqM_index name r (off + 1) _ hm
    have := (vpair_inj e).1
    simp at this; omega
  | none :: r, none :: r', off, hx, hy, h => by
    simp only [seqM] at h
    rw [seqM_inj_tail name r r' (off + 1) (noTrail_tail _ _ hx) (noTrail_tail _ _ hy) h]

/-- a canonical sequence (first and last present) is determined by its members -/
theorem seqM_inj (name : String) (xs ys : List (Option V)) (off off' : Int)
    (hx : headSome xs = true) (hy : headSome ys = true) (tx : noTrail xs = true) (ty : noTrail ys = true)
    (h : seqM name off xs = seqM name off' ys) : off = off' ∧ xs = ys := by
  cases xs with
  | nil => simp [headSome] at hx
  | cons x r =>
    cases ys with
    | nil => simp [headSome] at hy
    | cons y r' =>
      cases x with
      | none => simp [headSome] at hx
      | some a =>
        cases y with
        | none => simp [headSome] at hy
        | some b =>
          have h0 := h
          simp only [seqM, List.cons.injEq] at h0
          have := (vpair_inj h0.1).1
          simp at this
          subst this
          exact ⟨rfl, seqM_inj_tail name _ _ off tx ty h⟩

theorem lastSome_noTrail {α} : ∀ (l : List (Option α)), lastSome l = true → noTrail l = true
  | [], h => by simp [lastSome] at h
  | [x], h => by simpa [lastSome, noTrail] using h
  | _ :: y :: r, h => by
    simp only [lastSome] at h
    simp only [noTrail]
    exact lastSome_noTrail (y :: r) h


/-! ## Part 3 — hash and `Equal` on the fragment -/

open Arrai.C02.Impl

/-! ### nesting depth (the main theorem is proved by induction on a bound of it) -/
mutual
def depth : Rep → Nat
  | .gtuple [] => 0
  | .gtuple (p :: as) => depthAttrs (p :: as) + 1
  | .itemT _ x => depth x + 1
  | .entryT k v => depth k + depth v + 1
  | .generic xs => depthList xs + 1
  | .array vs _ _ => depthOpts vs + 2
  | .dict m => depthDict m + 2
  | .relation _ rows => depthRows rows + 2
  | .union bs => depthAttrs bs + 1
  | _ => 0
def depthAttrs : List (String × Rep) → Nat
  | [] => 0
  | (_, v) :: r => depth v + depthAttrs r
def depthList : List Rep → Nat
  | [] => 0
  | x :: r => depth x + depthList r
def depthOpts : List (Option Rep) → Nat
  | [] => 0
  | some x :: r => depth x + depthOpts r
  | none :: r => depthOpts r
def depthDict : List (Rep × List Rep) → Nat
  | [] => 0
  | (k, vs) :: r => depth k + depthList vs + depthDict r
def depthRows : List (List Rep) → Nat
  | [] => 0
  | row :: r => depthList row + depthRows r
end

theorem depth_mem_list : ∀ (xs : List Rep) (x : Rep), x ∈ xs → depth x ≤ depthList xs
  | [], _, h => by simp at h
  | y :: r, x, h => by
    simp only [List.mem_cons] at h
    rcases h with h | h
    · subst h; simp [depthList]
    · have := depth_mem_list r x h
      simp [depthList]; omega

/-! ### the proved fragment: numbers, the empty tuple, character and byte tuples, strings, byte
arrays, booleans and generic sets of these, nested arbitrarily -/
/-- not one of the two tuple types whose hash threads the seed through (`ArrayItemTuple`, `DictEntryTuple`) -/
def plain (_ : Rep) : Bool := true

mutual
def frag : Rep → Bool
  | .num _ | .charT _ _ | .byteT _ _ | .empty | .true_ | .str _ _ _ | .bytes _ _ => true
  | .gtuple as => fragAttrs as
  | .itemT _ x => plain x && frag x
  | .entryT k v => plain k && plain v && frag k && frag v
  | .generic xs => fragList xs
  | .array vs _ _ => fragOpts vs
  | .dict m => fragDict m
  | .relation _ rows => fragRows rows
  | .union bs => fragAttrs bs
def fragRows : List (List Rep) → Bool
  | [] => true
  | row :: r => fragPlainList row && fragRows r
def fragDict : List (Rep × List Rep) → Bool
  | [] => true
  | (k, vs) :: r => plain k && frag k && fragPlainList vs && fragDict r
def fragPlainList : List Rep → Bool
  | [] => true
  | x :: r => plain x && frag x && fragPlainList r
def fragAttrs : List (String × Rep) → Bool
  | [] => true
  | (_, v) :: r => plain v && frag v && fragAttrs r
def fragList : List Rep → Bool
  | [] => true
  | x :: r => frag x && fragList r
def fragOpts : List (Option Rep) → Bool
  | [] => true
  | some x :: r => plain x && frag x && fragOpts r
  | none :: r => fragOpts r
end

theorem fragList_mem : ∀ (xs : List Rep) (x : Rep), fragList xs = true → x ∈ xs → frag x = true
  | [], _, _, h => by simp at h
  | y :: r, x, hf, h => by
    simp only [fragList, Bool.and_eq_true] at hf
    simp only [List.mem_cons] at h
    rcases h with h | h
    · subst h; exact hf.1
    · exact fragList_mem r x hf.2 h

theorem wfList_mem : ∀ (xs : List Rep) (x : Rep), wfList xs = true → x ∈ xs → wf x = true
  | [], _, _, h => by simp at h
  | y :: r, x, hf, h => by
    simp only [wfList, Bool.and_eq_true] at hf
    simp only [List.mem_cons] at h
    rcases h with h | h
    · subst h; exact hf.1
    · exact wfList_mem r x hf.2 h

theorem mem_denList : ∀ (xs : List Rep) (v : V), v ∈ denList xs ↔ ∃ x, x ∈ xs ∧ den x = v
  | [], v => by simp [denList]
  | y :: r, v => by
    simp only [denList, List.mem_cons, mem_denList r v]
    constructor
    · rintro (h | ⟨x, hx, e⟩)
      · exact ⟨y, Or.inl rfl, h.symm⟩
      · exact ⟨x, Or.inr hx, e⟩
    · rintro ⟨x, hx | hx, e⟩
      · subst hx; exact Or.inl e.symm
      · exact Or.inr ⟨x, hx, e⟩

theorem denList_length : ∀ (xs : List Rep), (denList xs).length = xs.length
  | [] => rfl
  | _ :: r => by simp [denList, denList_length r]

/-! ### shapes of denotations -/

theorem den_eq_num {a : Rep} {n : Int} (h : den a = .num n) : a = .num n := by
  cases a <;> simp [den, vpair, V.mkTup, V.mkSet] at h
  exact congrArg _ h

theorem insAttr_ne_nil (n : String) (v : V) (l : List (String × V)) : V.insAttr n v l ≠ [] := by
  cases l with
  | nil => simp [V.insAttr]
  | cons p r =>
    obtain ⟨m, w⟩ := p
    simp only [V.insAttr]
    split
    · simp
    · split <;> simp

theorem den_eq_tup_nil {a : Rep} (h : den a = .tup []) : a = .gtuple [] := by
  cases a <;> simp [den, vpair, V.mkSet] at h
  case gtuple as =>
    cases as with
    | nil => rfl
    | cons p r =>
      obtain ⟨n, v⟩ := p
      simp only [denAttrs, V.mkTup, List.foldr_cons, V.tup.injEq] at h
      exact absurd h (insAttr_ne_nil _ _ _)

theorem genericMember_den {x : Rep} (h : genericMember x = true) :
    (∃ n, den x = .num n) ∨ (∃ l, den x = .set l) ∨ den x = .tup [] := by
  cases x <;> simp [genericMember, isSet] at h <;> simp [den, V.mkSet]
  case gtuple as =>
    cases as with
    | nil => simp [denAttrs, V.mkTup]
    | cons p r => simp [genericMember, isSet] at h

/-- constructor of a representation -/
def ctorTag : Rep → Nat
  | .num _ => 0 | .gtuple _ => 1 | .charT _ _ => 2 | .byteT _ _ => 3 | .itemT _ _ => 4 | .entryT _ _ => 5
  | .empty => 6 | .true_ => 7 | .generic _ => 8 | .str _ _ _ => 9 | .bytes _ _ => 10 | .array _ _ _ => 11
  | .dict _ => 12 | .relation _ _ => 13 | .union _ => 14

/-- the number inside an optional value -/
def numOfV : Option V → Option Int
  | some (.num c) => some c
  | _ => none
def numOfR : Option Rep → Option Int
  | some (.num c) => some c
  | _ => none
def okBy (p : Int → Bool) : Option Int → Bool
  | some c => p c
  | none => false

/-- the tuple constructor a canonical representation of `.tup l` must have: the specialisation rule
of `NewTuple` (after repair #20) read off the denotation -/
def tupKind (l : List (String × V)) : Nat :=
  if l.length = 2 then
    match lookupV "@" l with
    | none => 1
    | some i =>
      if (lookupV "@value" l).isSome then 5
      else if (numOfV (some i)).isSome then
        (if (lookupV "@item" l).isSome then 4
         else if okBy inRune (numOfV (lookupV "@char" l)) then 2
         else if okBy inByte (numOfV (lookupV "@byte" l)) then 3 else 1)
      else 1
  else 1

/-- the bucket of a member of a set, read off its denotation (`getBucket`) -/
inductive BK where
  | g | c | b | i | e
  | r (names : List String)
  deriving DecidableEq

def bucketV : V → BK
  | .num _ => .g
  | .set _ => .g
  | .tup l =>
    match tupKind l with
    | 2 => .c | 3 => .b | 4 => .i | 5 => .e
    | _ => if l.isEmpty then .g else .r (l.map (·.1))

def bkTag : BK → Nat
  | .g => 8 | .c => 9 | .b => 10 | .i => 11 | .e => 12 | .r _ => 13

/-- the constructor a canonical representation of a denotation must have -/
def vtag : V → Nat
  | .num _ => 0
  | .tup l => tupKind l
  | .set [] => 6
  | .set (m :: r) =>
    if decide (m :: r = [V.tup []]) then 7
    else if r.all (fun x => decide (bucketV x = bucketV m)) then bkTag (bucketV m) else 14

theorem vtag_set_uniform (ms : List V) (X : BK) (hne : ms ≠ []) (hnt : ms ≠ [V.tup []])
    (h : ∀ v, v ∈ ms → bucketV v = X) : vtag (.set ms) = bkTag X := by
  cases ms with
  | nil => exact absurd rfl hne
  | cons m r =>
    simp only [vtag, hnt, decide_false, Bool.false_eq_true, if_false]
    have hm := h m (by simp)
    have : r.all (fun x => decide (bucketV x = bucketV m)) = true := by
      rw [List.all_eq_true]
      intro x hx
      simp [h x (List.mem_cons_of_mem _ hx), hm]
    rw [if_pos this, hm]

theorem bucketV_unit : bucketV (.tup []) = .g := by simp [bucketV, tupKind]

/-- for a bucket other than the generic one the set cannot be `{()}` -/
theorem vtag_set_uniform' (ms : List V) (X : BK) (hne : ms ≠ []) (hX : X ≠ .g)
    (h : ∀ v, v ∈ ms → bucketV v = X) : vtag (.set ms) = bkTag X := by
  apply vtag_set_uniform ms X hne _ h
  intro e
  have := h (.tup []) (by rw [e]; simp)
  rw [bucketV_unit] at this
  exact hX this.symm

theorem head_mk_mem (l : List V) (v : V) (r : List V) (h : mk l = v :: r) : v ∈ l := by
  have : v ∈ mk l := by rw [h]; simp
  exact (mem_mk l v).1 this

theorem strMembers_ne_nil (off : Int) (s : List Int) (h : headNonneg s = true) : strMembers off s ≠ [] := by
  cases s with
  | nil => simp [headNonneg] at h
  | cons c r =>
    simp only [headNonneg, decide_eq_true_eq] at h
    have : ¬ c < 0 := by omega
    simp [strMembers, this]

theorem den_str (s : List Int) (off holes : Int) : den (.str s off holes) = .set (strMembers off s) := by
  simp only [den, V.mkSet]
  rw [strMembers_eq, mk_of_sorted _ (seqM_sorted _ _ _)]

theorem den_bytes (b : List Int) (off : Int) : den (.bytes b off) = .set (bytesMembers off b) := by
  simp only [den, V.mkSet]
  rw [bytesMembers_eq, mk_of_sorted _ (seqM_sorted _ _ _)]

theorem den_array (vs : List (Option Rep)) (off c : Int) :
    den (.array vs off c) = .set (seqM "@item" off (denOpts vs)) := by
  simp only [den, V.mkSet]
  rw [arrMembers_eq, mk_of_sorted _ (seqM_sorted _ _ _)]

theorem lookupV_denAttrs (k : String) : ∀ (as : List (String × Rep)),
    lookupV k (denAttrs as) = (lookupAttr k as).map den
  | [] => rfl
  | (n, v) :: r => by
    simp only [denAttrs, lookupV, lookupAttr]
    split
    · rfl
    · exact lookupV_denAttrs k r

theorem denAttrs_length : ∀ (as : List (String × Rep)), (denAttrs as).length = as.length
  | [] => rfl
  | (_, _) :: r => by simp [denAttrs, denAttrs_length r]

theorem denAttrs_names : ∀ (as : List (String × Rep)), (denAttrs as).map (·.1) = namesOf as
  | [] => rfl
  | (_, _) :: r => by simp [denAttrs, namesOf, denAttrs_names r]

theorem mkAttrs_names_sub : ∀ (l : List (String × V)) (p : String × V), p ∈ mkAttrs l → p.1 ∈ l.map (·.1)
  | [], p, h => by simp [mkAttrs] at h
  | (n, v) :: r, p, h => by
    have h' : p ∈ V.insAttr n v (mkAttrs r) := h
    rcases mem_insAttr_name n v _ p h' with e | hp
    · simp [e]
    · have := mkAttrs_names_sub r p hp
      simp only [List.map_cons, List.mem_cons]; exact Or.inr this

theorem length_insAttr_notin (n : String) (v : V) : ∀ (l : List (String × V)), (∀ p, p ∈ l → p.1 ≠ n) →
    (V.insAttr n v l).length = l.length + 1
  | [], _ => by simp [V.insAttr]
  | (m, w) :: r, h => by
    have hm : n ≠ m := fun e => h (m, w) (by simp) e.symm
    simp only [V.insAttr]
    split
    · simp
    · simp only [hm, if_false, List.length_cons]
      rw [length_insAttr_notin n v r (fun p hp => h p (List.mem_cons_of_mem _ hp))]

theorem length_mkAttrs : ∀ (l : List (String × V)), (l.map (·.1)).Nodup → (mkAttrs l).length = l.length
  | [], _ => rfl
  | (n, v) :: r, h => by
    simp only [List.map_cons, List.nodup_cons] at h
    show (V.insAttr n v (mkAttrs r)).length = _
    rw [length_insAttr_notin n v _ (fun p hp e => h.1 (by rw [← e]; exact mkAttrs_names_sub r p hp)),
      length_mkAttrs r h.2]
    simp

theorem numOfV_den (o : Option Rep) : numOfV (o.map den) = numOfR o := by
  cases o with
  | none => rfl
  | some x => cases x <;> simp [numOfV, numOfR, den, vpair, V.mkTup, V.mkSet]

/-- a canonical generic tuple does not denote one of the sugar tuples -/
theorem tupKind_gtuple (as : List (String × Rep)) (hw : wf (.gtuple as) = true) :
    tupKind (mkAttrs (denAttrs as)) = 1 := by
  simp only [wf, Bool.and_eq_true, decide_eq_true_eq, Bool.not_eq_true'] at hw
  obtain ⟨⟨hnd, _⟩, hsp⟩ := hw
  have hlen : (mkAttrs (denAttrs as)).length = as.length := by
    rw [length_mkAttrs _ (by rw [denAttrs_names]; exact hnd), denAttrs_length]
  have L : ∀ k, lookupV k (mkAttrs (denAttrs as)) = (lookupAttr k as).map den := fun k => by
    rw [lookupV_mkAttrs, lookupV_denAttrs]
  unfold tupKind
  rw [hlen]
  by_cases h2 : as.length = 2
  · simp only [h2, if_true]
    rw [L "@", L "@value", L "@item", L "@char", L "@byte", numOfV_den, numOfV_den]
    unfold specialisable at hsp
    simp only [h2, beq_self_eq_true, Bool.true_and] at hsp
    cases hi : lookupAttr "@" as with
    | none => simp
    | some i =>
      rw [hi] at hsp
      simp only [Bool.or_eq_false_iff] at hsp
      obtain ⟨hv, hrest⟩ := hsp
      have hv' : ((lookupAttr "@value" as).map den).isSome = false := by simpa using hv
      simp only [Option.map_some, hv', Bool.false_eq_true, if_false]
      have hn : numOfV (some (den i)) = numOfR (some i) := numOfV_den (some i)
      rw [hn]
      cases i with
      | num k =>
        simp only [Bool.or_eq_false_iff] at hrest
        obtain ⟨⟨hit, hch⟩, hby⟩ := hrest
        have hit' : ((lookupAttr "@item" as).map den).isSome = false := by simpa using hit
        have hch' : okBy inRune (numOfR (lookupAttr "@char" as)) = false := by
          cases hc : lookupAttr "@char" as with
          | none => rfl
          | some x => rw [hc] at hch; cases x <;> simp_all [okBy, numOfR]
        have hby' : okBy inByte (numOfR (lookupAttr "@byte" as)) = false := by
          cases hc : lookupAttr "@byte" as with
          | none => rfl
          | some x => rw [hc] at hby; cases x <;> simp_all [okBy, numOfR]
        have h0 : (numOfR (some (Rep.num k))).isSome = true := rfl
        simp [h0, hit', hch', hby']
      | _ => simp [numOfR]
  · simp [h2]

/-! ### dictionaries: the list of (key, value) entries -/

def entries (m : List (Rep × List Rep)) : List (Rep × Rep) := m.flatMap (fun kv => kv.2.map (fun v => (kv.1, v)))

def entryDen (e : Rep × Rep) : V := vpair "@value" (den e.1) (den e.2)

theorem denDict_eq : ∀ (m : List (Rep × List Rep)), denDict m = (entries m).map entryDen
  | [] => rfl
  | (k, vs) :: r => by
    simp only [denDict, entries, List.flatMap_cons, List.map_append, denList_eq_map', List.map_map]
    rw [← entries, ← denDict_eq r]
    rfl
where
  denList_eq_map' : ∀ (xs : List Rep), denList xs = xs.map den := by
    intro xs; induction xs with
    | nil => rfl
    | cons x r ih => simp [denList, ih]

theorem entries_ne_nil (m : List (Rep × List Rep)) (hm : m ≠ []) (hv : ∀ kv, kv ∈ m → kv.2 ≠ []) : entries m ≠ [] := by
  cases m with
  | nil => exact absurd rfl hm
  | cons kv r =>
    obtain ⟨k, vs⟩ := kv
    have := hv (k, vs) (by simp)
    cases vs with
    | nil => exact absurd rfl this
    | cons v vs' => simp [entries]

theorem wfDict_mem : ∀ (m : List (Rep × List Rep)) (kv : Rep × List Rep), wfDict m = true → kv ∈ m →
    wf kv.1 = true ∧ kv.2 ≠ [] ∧ wfList kv.2 = true ∧ (denList kv.2).Nodup
  | [], _, _, h => by simp at h
  | (k, vs) :: r, kv, hw, h => by
    simp only [wfDict, Bool.and_eq_true, Bool.not_eq_true', decide_eq_true_eq] at hw
    simp only [List.mem_cons] at h
    rcases h with h | h
    · subst h
      exact ⟨hw.1.1.1.1, by intro e; simp only [] at e; rw [e] at hw; simp at hw, hw.1.1.2, hw.1.2⟩
    · exact wfDict_mem r kv hw.2 h

/-! ### relations: rows as generic tuples -/

def rowT (names : List String) (row : List Rep) : Rep := .gtuple (names.zip row)

theorem denAttrs_zip : ∀ (names : List String) (row : List Rep),
    denAttrs (names.zip row) = zipAttrs names (denList row)
  | [], _ => by simp [denAttrs, zipAttrs]
  | _ :: _, [] => by simp [denAttrs, zipAttrs, denList]
  | n :: ns, x :: xs => by simp [denAttrs, zipAttrs, denList, denAttrs_zip ns xs]

theorem den_rowT (names : List String) (row : List Rep) :
    den (rowT names row) = V.mkTup (zipAttrs names (denList row)) := by
  simp [rowT, den, denAttrs_zip]

theorem denRows_eq : ∀ (names : List String) (rows : List (List Rep)),
    denRows names rows = rows.map (fun row => den (rowT names row))
  | _, [] => rfl
  | names, row :: r => by simp [denRows, den_rowT, denRows_eq names r]

theorem namesOf_zip : ∀ (names : List String) (row : List Rep), row.length = names.length →
    namesOf (names.zip row) = names
  | [], [], _ => rfl
  | [], _ :: _, h => by simp at h
  | _ :: _, [], h => by simp at h
  | n :: ns, x :: xs, h => by
    have := namesOf_zip ns xs (by simpa using h)
    simp only [namesOf] at this
    simp [namesOf, this]

theorem wfAttrs_zip : ∀ (names : List String) (row : List Rep), wfList row = true → wfAttrs (names.zip row) = true
  | [], _, _ => by simp [wfAttrs]
  | _ :: _, [], _ => by simp [wfAttrs]
  | n :: ns, x :: xs, h => by
    simp only [wfList, Bool.and_eq_true] at h
    simp [wfAttrs, h.1, wfAttrs_zip ns xs h.2]

theorem wfRows_mem : ∀ (names : List String) (rows : List (List Rep)) (row : List Rep), wfRows names rows = true →
    row ∈ rows → row.length = names.length ∧ wfList row = true ∧ specialisable (names.zip row) = false
  | _, [], _, _, h => by simp at h
  | names, r0 :: r, row, hw, h => by
    simp only [wfRows, Bool.and_eq_true, beq_iff_eq, Bool.not_eq_true'] at hw
    simp only [List.mem_cons] at h
    rcases h with h | h
    · subst h; exact ⟨hw.1.1.1, hw.1.1.2, hw.1.2⟩
    · exact wfRows_mem names r row hw.2 h

theorem wf_rowT (names : List String) (rows : List (List Rep)) (row : List Rep) (hn : names.Nodup)
    (hw : wfRows names rows = true) (h : row ∈ rows) : wf (rowT names row) = true := by
  obtain ⟨h1, h2, h3⟩ := wfRows_mem names rows row hw h
  simp [rowT, wf, namesOf_zip names row h1, hn, wfAttrs_zip names row h2, h3]

theorem insAttr_names (n : String) (v w : V) : ∀ (l l' : List (String × V)), l.map (·.1) = l'.map (·.1) →
    (V.insAttr n v l).map (·.1) = (V.insAttr n w l').map (·.1)
  | [], [], _ => by simp [V.insAttr]
  | [], _ :: _, h => by simp at h
  | _ :: _, [], h => by simp at h
  | (m, a) :: r, (m', a') :: r', h => by
    simp only [List.map_cons, List.cons.injEq] at h
    obtain ⟨h1, h2⟩ := h
    subst h1
    simp only [V.insAttr]
    split
    · simp [h2]
    · split
      · simp [h2]
      · simp [insAttr_names n v w r r' h2]

theorem mkAttrs_names_congr : ∀ (l l' : List (String × V)), l.map (·.1) = l'.map (·.1) →
    (mkAttrs l).map (·.1) = (mkAttrs l').map (·.1)
  | [], [], _ => rfl
  | [], _ :: _, h => by simp at h
  | _ :: _, [], h => by simp at h
  | (n, v) :: r, (n', v') :: r', h => by
    simp only [List.map_cons, List.cons.injEq] at h
    obtain ⟨h1, h2⟩ := h
    subst h1
    show (V.insAttr n v (mkAttrs r)).map (·.1) = (V.insAttr n v' (mkAttrs r')).map (·.1)
    exact insAttr_names n v v' _ _ (mkAttrs_names_congr r r' h2)

theorem zipAttrs_names : ∀ (names : List String) (ds : List V), ds.length = names.length →
    (zipAttrs names ds).map (·.1) = names
  | [], [], _ => rfl
  | [], _ :: _, h => by simp at h
  | _ :: _, [], h => by simp at h
  | n :: ns, d :: ds, h => by simp [zipAttrs, zipAttrs_names ns ds (by simpa using h)]

/-- the sorted heading of a relation with these column names -/
def headingOf (names : List String) : List String :=
  (mkAttrs (zipAttrs names (names.map (fun _ => V.num 0)))).map (·.1)

theorem bucketV_rowT (names : List String) (rows : List (List Rep)) (row : List Rep) (hn : names.Nodup)
    (hne : names ≠ []) (hw : wfRows names rows = true) (h : row ∈ rows) :
    bucketV (den (rowT names row)) = .r (headingOf names) := by
  obtain ⟨h1, _, _⟩ := wfRows_mem names rows row hw h
  have hk := tupKind_gtuple (names.zip row) (wf_rowT names rows row hn hw h)
  rw [den_rowT, mkTup_eq]
  rw [denAttrs_zip] at hk
  simp only [bucketV, hk]
  have hnames : (mkAttrs (zipAttrs names (denList row))).map (·.1) = headingOf names := by
    apply mkAttrs_names_congr
    rw [zipAttrs_names _ _ (by rw [denList_length]; exact h1), zipAttrs_names _ _ (by simp)]
  have hnn : mkAttrs (zipAttrs names (denList row)) ≠ [] := by
    cases names with
    | nil => exact absurd rfl hne
    | cons n ns =>
      cases row with
      | nil => simp at h1
      | cons x xs =>
        simp only [denList, zipAttrs, mkAttrs, List.foldr_cons]
        exact insAttr_ne_nil _ _ _
  have : (mkAttrs (zipAttrs names (denList row))).isEmpty = false := by
    cases hh : mkAttrs (zipAttrs names (denList row)) with
    | nil => exact absurd hh hnn
    | cons _ _ => rfl
  simp [this, hnames]

/-! ### members of each set representation have one bucket -/

theorem bucketV_char (i c : Int) (h : inRune c = true) : bucketV (vpair "@char" (.num i) (.num c)) = .c := by
  simp [bucketV, vpair, tupKind, lookupV, numOfV, okBy, h]
theorem bucketV_byte (i c : Int) (h : inByte c = true) : bucketV (vpair "@byte" (.num i) (.num c)) = .b := by
  simp [bucketV, vpair, tupKind, lookupV, numOfV, okBy, h]
theorem bucketV_item (i : Int) (x : V) : bucketV (vpair "@item" (.num i) x) = .i := by
  simp [bucketV, vpair, tupKind, lookupV, numOfV, okBy]
theorem bucketV_value (k x : V) : bucketV (vpair "@value" k x) = .e := by
  simp [bucketV, vpair, tupKind, lookupV]

theorem strMembers_form : ∀ (s : List Int) (off : Int) (v : V), v ∈ strMembers off s →
    ∃ i c, v = vpair "@char" (.num i) (.num c) ∧ 0 ≤ c ∧ c ∈ s
  | [], _, _, h => by simp [strMembers] at h
  | d :: r, off, v, h => by
    simp only [strMembers] at h
    by_cases hd : d < 0
    · simp only [hd, if_true] at h
      obtain ⟨i, c, e, h1, h2⟩ := strMembers_form r (off + 1) v h
      exact ⟨i, c, e, h1, List.mem_cons_of_mem _ h2⟩
    · simp only [hd, if_false, List.mem_cons] at h
      rcases h with h | h
      · exact ⟨off, d, h, by omega, by simp⟩
      · obtain ⟨i, c, e, h1, h2⟩ := strMembers_form r (off + 1) v h
        exact ⟨i, c, e, h1, List.mem_cons_of_mem _ h2⟩

theorem bytesMembers_form : ∀ (b : List Int) (off : Int) (v : V), v ∈ bytesMembers off b →
    ∃ i c, v = vpair "@byte" (.num i) (.num c) ∧ c ∈ b
  | [], _, _, h => by simp [bytesMembers] at h
  | d :: r, off, v, h => by
    simp only [bytesMembers, List.mem_cons] at h
    rcases h with h | h
    · exact ⟨off, d, h, by simp⟩
    · obtain ⟨i, c, e, h2⟩ := bytesMembers_form r (off + 1) v h
      exact ⟨i, c, e, List.mem_cons_of_mem _ h2⟩

theorem bucketV_genericMember (y : Rep) (h : genericMember y = true) : bucketV (den y) = .g := by
  rcases genericMember_den h with ⟨n, hn⟩ | ⟨l, hl⟩ | ht
  · rw [hn]; rfl
  · rw [hl]; rfl
  · rw [ht]; exact bucketV_unit


/-! ### union sets: every bucket holds the members of one `bucketV` class -/

/-- the `bucketV` class of the members of a (non-union) set representation -/
def bkOfSet : Rep → BK
  | .str _ _ _ => .c | .bytes _ _ => .b | .array _ _ _ => .i | .dict _ => .e
  | .relation names _ => .r (headingOf names)
  | _ => .g

theorem lookupV_isSome (k : String) : ∀ (l : List (String × V)), (lookupV k l).isSome = true ↔ k ∈ l.map (·.1)
  | [] => by simp [lookupV]
  | (m, v) :: r => by
    simp only [lookupV, List.map_cons, List.mem_cons]
    by_cases h : k = m
    · simp [h]
    · simp [h, lookupV_isSome k r]

theorem mem_headingOf (names : List String) (x : String) : x ∈ headingOf names ↔ x ∈ names := by
  unfold headingOf
  rw [← lookupV_isSome, lookupV_mkAttrs, lookupV_isSome, zipAttrs_names _ _ (by simp)]

theorem sub_members_bucket (s : Rep) (k : String) (hw : wf s = true) (hk : bucketOfSet s = some k) :
    vmembers (den s) ≠ [] ∧ ∀ v, v ∈ vmembers (den s) → bucketV v = bkOfSet s := by
  cases s <;> simp [bucketOfSet] at hk
  case true_ => simp [den, vmembers, bkOfSet, bucketV_unit]
  case generic xs =>
    simp only [wf, Bool.and_eq_true, Bool.not_eq_true', decide_eq_true_eq] at hw
    obtain ⟨⟨⟨⟨hne, _⟩, hgm⟩, _⟩, _⟩ := hw
    simp only [den, V.mkSet, vmembers, bkOfSet]
    refine ⟨?_, ?_⟩
    · intro h
      have := (mk_eq_nil _).1 h
      cases xs with
      | nil => simp at hne
      | cons x r => simp [denList] at this
    · intro v hv
      obtain ⟨x, hx, e⟩ := (mem_denList xs v).1 ((mem_mk _ _).1 hv)
      rw [← e]
      exact bucketV_genericMember x (List.all_eq_true.1 hgm x hx)
  case str s off holes =>
    rw [den_str]
    simp only [vmembers, bkOfSet]
    refine ⟨strMembers_ne_nil off s (by simp only [wf, Bool.and_eq_true] at hw; exact hw.1.1.1), ?_⟩
    have hr : ∀ c, c ∈ s → c ≤ 0x10FFFF := by
      simp only [wf, Bool.and_eq_true] at hw
      intro c hc
      have := List.all_eq_true.1 hw.1.2 c hc
      simp at this; exact this.2
    intro v hv
    obtain ⟨i, c, e, h0, hc⟩ := strMembers_form s off v hv
    subst e
    exact bucketV_char i c (by simp [inRune]; exact ⟨h0, hr c hc⟩)
  case bytes b off =>
    rw [den_bytes]
    simp only [wf, Bool.and_eq_true, Bool.not_eq_true', List.isEmpty_eq_false_iff] at hw
    simp only [vmembers, bkOfSet]
    refine ⟨?_, ?_⟩
    · cases b with
      | nil => exact absurd rfl hw.1
      | cons c r => simp [bytesMembers]
    · intro v hv
      obtain ⟨i, c, e, hc⟩ := bytesMembers_form b off v hv
      subst e
      exact bucketV_byte i c (List.all_eq_true.1 hw.2 c hc)
  case array vs off c =>
    rw [den_array]
    simp only [wf, Bool.and_eq_true] at hw
    simp only [vmembers, bkOfSet]
    refine ⟨?_, ?_⟩
    · cases vs with
      | nil => simp [headSome] at hw
      | cons o r =>
        cases o with
        | none => simp [headSome] at hw
        | some x => simp [denOpts, seqM]
    · intro v hv
      obtain ⟨i, x, e, _⟩ := seqM_index "@item" _ off v hv
      subst e
      exact bucketV_item i x
  case dict m =>
    simp only [wf, Bool.and_eq_true, Bool.not_eq_true', decide_eq_true_eq] at hw
    obtain ⟨⟨hne, hwd⟩, _⟩ := hw
    have hm : m ≠ [] := by intro e; subst e; simp at hne
    have hen := entries_ne_nil m hm (fun kv hkv => (wfDict_mem m kv hwd hkv).2.1)
    simp only [den, V.mkSet, denDict_eq, vmembers, bkOfSet]
    refine ⟨?_, ?_⟩
    · intro h; have := (mk_eq_nil _).1 h; simp at this; exact hen this
    · intro v hv
      obtain ⟨e, _, he⟩ := List.mem_map.1 ((mem_mk _ _).1 hv)
      subst he
      exact bucketV_value _ _
  case relation names rows =>
    simp only [wf, Bool.and_eq_true, Bool.not_eq_true', decide_eq_true_eq] at hw
    obtain ⟨⟨⟨⟨hnn, hnd⟩, hrn⟩, hwr⟩, _⟩ := hw
    have hne : names ≠ [] := by intro e; subst e; simp at hnn
    have hre : rows ≠ [] := by intro e; subst e; simp at hrn
    simp only [den, V.mkSet, denRows_eq, vmembers, bkOfSet]
    refine ⟨?_, ?_⟩
    · intro h; have := (mk_eq_nil _).1 h; simp at this; exact hre this
    · intro v hv
      obtain ⟨row, hrow, he⟩ := List.mem_map.1 ((mem_mk _ _).1 hv)
      subst he
      exact bucketV_rowT names rows row hnd hne hwr hrow

/-- the bucket key is determined by the class of the members -/
theorem bkOfSet_key (s s' : Rep) (k k' : String) (hw : wf s = true) (hw' : wf s' = true)
    (hk : bucketOfSet s = some k) (hk' : bucketOfSet s' = some k') (h : bkOfSet s = bkOfSet s') : k = k' := by
  cases s <;> simp [bucketOfSet] at hk <;> cases s' <;> simp [bucketOfSet] at hk' <;> simp [bkOfSet] at h <;>
    try (rw [← hk, ← hk'])
  case relation.relation ns rows ns' rows' =>
    simp only [wf, Bool.and_eq_true, Bool.not_eq_true', decide_eq_true_eq] at hw hw'
    have : sortStrs ns = sortStrs ns' := by
      rw [sortStrs_eq_iff ns ns' hw.1.1.1.2 hw'.1.1.1.2]
      intro x
      rw [← mem_headingOf ns, ← mem_headingOf ns', h]
    rw [this]

theorem wfBuckets_mem : ∀ (bs : List (String × Rep)) (p : String × Rep), wfBuckets bs = true → p ∈ bs →
    wf p.2 = true ∧ bucketOfSet p.2 = some p.1
  | [], _, _, h => by simp at h
  | (k, s) :: r, p, hw, h => by
    simp only [wfBuckets, Bool.and_eq_true, beq_iff_eq] at hw
    simp only [List.mem_cons] at h
    rcases h with h | h
    · subst h; exact ⟨hw.1.1, hw.1.2⟩
    · exact wfBuckets_mem r p hw.2 h

theorem mem_denBuckets : ∀ (bs : List (String × Rep)) (v : V),
    v ∈ denBuckets bs ↔ ∃ p, p ∈ bs ∧ v ∈ vmembers (den p.2)
  | [], v => by simp [denBuckets]
  | (k, s) :: r, v => by
    simp only [denBuckets, List.mem_append, mem_denBuckets r v, List.mem_cons]
    constructor
    · rintro (h | ⟨p, hp, h⟩)
      · exact ⟨(k, s), Or.inl rfl, h⟩
      · exact ⟨p, Or.inr hp, h⟩
    · rintro ⟨p, hp | hp, h⟩
      · subst hp; exact Or.inl h
      · exact Or.inr ⟨p, hp, h⟩

/-- a set with members of two different classes -/
theorem vtag_set_mixed (ms : List V) (v1 v2 : V) (h1 : v1 ∈ ms) (h2 : v2 ∈ ms) (hne : bucketV v1 ≠ bucketV v2) :
    vtag (.set ms) = 14 := by
  cases ms with
  | nil => simp at h1
  | cons m r =>
    have hnt : ¬ (m :: r = [V.tup []]) := by
      intro e
      rw [e] at h1 h2
      simp at h1 h2
      rw [h1, h2] at hne
      exact hne rfl
    have hall : r.all (fun x => decide (bucketV x = bucketV m)) = false := by
      rw [Bool.eq_false_iff]
      intro hall
      rw [List.all_eq_true] at hall
      have cls : ∀ v, v ∈ m :: r → bucketV v = bucketV m := by
        intro v hv
        simp only [List.mem_cons] at hv
        rcases hv with hv | hv
        · rw [hv]
        · simpa using hall v hv
      rw [cls v1 h1, cls v2 h2] at hne
      exact hne rfl
    simp [vtag, hnt, hall]

/-- two buckets of a canonical union set and one member of each, of different classes -/
theorem union_two_members (bs : List (String × Rep)) (hw : wf (.union bs) = true) :
    ∃ p q v1 v2, p ∈ bs ∧ q ∈ bs ∧ p.1 ≠ q.1 ∧ v1 ∈ vmembers (den p.2) ∧ v2 ∈ vmembers (den q.2) ∧
      bucketV v1 = bkOfSet p.2 ∧ bucketV v2 = bkOfSet q.2 ∧ bucketV v1 ≠ bucketV v2 := by
  simp only [wf, Bool.and_eq_true, decide_eq_true_eq] at hw
  obtain ⟨⟨hl, hnd⟩, hwb⟩ := hw
  match bs, hl, hnd, hwb with
  | p :: q :: r, _, hnd, hwb =>
    have hpq : p.1 ≠ q.1 := by
      simp only [List.map_cons, List.nodup_cons, List.mem_cons, not_or] at hnd
      exact hnd.1.1
    obtain ⟨wp, kp⟩ := wfBuckets_mem _ p hwb (by simp)
    obtain ⟨wq, kq⟩ := wfBuckets_mem _ q hwb (by simp)
    obtain ⟨np, bp⟩ := sub_members_bucket p.2 p.1 wp kp
    obtain ⟨nq, bq⟩ := sub_members_bucket q.2 q.1 wq kq
    obtain ⟨v1, h1⟩ := List.exists_mem_of_ne_nil _ np
    obtain ⟨v2, h2⟩ := List.exists_mem_of_ne_nil _ nq
    refine ⟨p, q, v1, v2, by simp, by simp, hpq, h1, h2, bp v1 h1, bq v2 h2, ?_⟩
    rw [bp v1 h1, bq v2 h2]
    intro e
    exact hpq (bkOfSet_key p.2 q.2 p.1 q.1 wp wq kp kq e)

theorem vtag_den_wf (a : Rep) (hw : wf a = true) : vtag (den a) = ctorTag a := by
  cases a
  case num n => simp [den, vtag, ctorTag]
  case gtuple as =>
    rw [den, mkTup_eq]
    simp only [vtag, ctorTag]
    exact tupKind_gtuple as hw
  case charT i c =>
    have : inRune c = true := by simpa [wf] using hw
    simp [den, vtag, ctorTag, vpair, tupKind, lookupV, numOfV, okBy, this]
  case byteT i c =>
    have : inByte c = true := by simpa [wf] using hw
    simp [den, vtag, ctorTag, vpair, tupKind, lookupV, numOfV, okBy, this]
  case itemT i x => simp [den, vtag, ctorTag, vpair, tupKind, lookupV, numOfV, okBy]
  case entryT k v => simp [den, vtag, ctorTag, vpair, tupKind, lookupV, numOfV, okBy]
  case empty => simp [den, vtag, ctorTag]
  case true_ => simp [den, vtag, ctorTag]
  case str s off holes =>
    rw [den_str]
    have hne := strMembers_ne_nil off s (by simp only [wf, Bool.and_eq_true] at hw; exact hw.1.1.1)
    have hr : ∀ c, c ∈ s → c ≤ 0x10FFFF := by
      simp only [wf, Bool.and_eq_true] at hw
      intro c hc
      have := List.all_eq_true.1 hw.1.2 c hc
      simp at this; exact this.2
    rw [vtag_set_uniform' _ .c hne (by simp)]
    · rfl
    · intro v hv
      obtain ⟨i, c, e, h0, hc⟩ := strMembers_form s off v hv
      subst e
      exact bucketV_char i c (by simp [inRune]; exact ⟨h0, hr c hc⟩)
  case bytes b off =>
    rw [den_bytes]
    simp only [wf, Bool.and_eq_true, Bool.not_eq_true', List.isEmpty_eq_false_iff] at hw
    have hne : bytesMembers off b ≠ [] := by
      cases b with
      | nil => exact absurd rfl hw.1
      | cons c r => simp [bytesMembers]
    rw [vtag_set_uniform' _ .b hne (by simp)]
    · rfl
    · intro v hv
      obtain ⟨i, c, e, hc⟩ := bytesMembers_form b off v hv
      subst e
      exact bucketV_byte i c (List.all_eq_true.1 hw.2 c hc)
  case array vs off c =>
    rw [den_array]
    simp only [wf, Bool.and_eq_true] at hw
    have hne : seqM "@item" off (denOpts vs) ≠ [] := by
      cases vs with
      | nil => simp [headSome] at hw
      | cons o r =>
        cases o with
        | none => simp [headSome] at hw
        | some x => simp [denOpts, seqM]
    rw [vtag_set_uniform' _ .i hne (by simp)]
    · rfl
    · intro v hv
      obtain ⟨i, x, e, _⟩ := seqM_index "@item" _ off v hv
      subst e
      exact bucketV_item i x
  case dict m =>
    simp only [wf, Bool.and_eq_true, Bool.not_eq_true', decide_eq_true_eq] at hw
    obtain ⟨⟨hne, hwd⟩, _⟩ := hw
    have hm : m ≠ [] := by intro e; subst e; simp at hne
    have hen := entries_ne_nil m hm (fun kv hkv => (wfDict_mem m kv hwd hkv).2.1)
    simp only [den, V.mkSet, ctorTag, denDict_eq]
    have hne' : mk ((entries m).map entryDen) ≠ [] := by
      intro h; have := (mk_eq_nil _).1 h; simp at this; exact hen this
    rw [vtag_set_uniform' _ .e hne' (by simp)]
    · rfl
    · intro v hv
      obtain ⟨e, _, he⟩ := List.mem_map.1 ((mem_mk _ _).1 hv)
      subst he
      exact bucketV_value _ _
  case relation names rows =>
    simp only [wf, Bool.and_eq_true, Bool.not_eq_true', decide_eq_true_eq] at hw
    obtain ⟨⟨⟨⟨hnn, hnd⟩, hrn⟩, hwr⟩, _⟩ := hw
    have hne : names ≠ [] := by intro e; subst e; simp at hnn
    have hre : rows ≠ [] := by intro e; subst e; simp at hrn
    simp only [den, V.mkSet, ctorTag, denRows_eq]
    have hne' : mk (rows.map (fun row => den (rowT names row))) ≠ [] := by
      intro h; have := (mk_eq_nil _).1 h; simp at this; exact hre this
    rw [vtag_set_uniform' _ (.r (headingOf names)) hne' (by simp)]
    · rfl
    · intro v hv
      obtain ⟨row, hrow, he⟩ := List.mem_map.1 ((mem_mk _ _).1 hv)
      subst he
      exact bucketV_rowT names rows row hnd hne hwr hrow
  case generic xs =>
    simp only [wf, Bool.and_eq_true, Bool.not_eq_true', decide_eq_true_eq] at hw
    obtain ⟨⟨⟨⟨hne, hwl⟩, hgm⟩, hnd⟩, hnt⟩ := hw
    simp only [den, V.mkSet, ctorTag]
    have hne' : mk (denList xs) ≠ [] := by
      intro h
      have := (mk_eq_nil _).1 h
      cases xs with
      | nil => simp at hne
      | cons x r => simp [denList] at this
    have hnt' : mk (denList xs) ≠ [V.tup []] := by
      intro hm
      have hlen : (mk (denList xs)).length = (denList xs).length := length_mk_of_nodup _ hnd
      rw [hm] at hlen
      have hv : V.tup [] ∈ denList xs := head_mk_mem _ _ _ hm
      have : denList xs = [V.tup []] := by
        cases hd : denList xs with
        | nil => rw [hd] at hlen; simp at hlen
        | cons d ds =>
          rw [hd] at hlen hv
          cases ds with
          | nil =>
            have : V.tup [] = d := by simpa using hv
            rw [← this]
          | cons _ _ => simp at hlen
      simp [this] at hnt
    rw [vtag_set_uniform _ .g hne' hnt']
    · rfl
    · intro v hv
      obtain ⟨x, hx, e⟩ := (mem_denList xs v).1 ((mem_mk _ _).1 hv)
      have hg : genericMember x = true := List.all_eq_true.1 hgm x hx
      rcases genericMember_den hg with ⟨n, hn⟩ | ⟨l, hl⟩ | ht
      · rw [← e, hn]; rfl
      · rw [← e, hl]; rfl
      · rw [← e, ht]; exact bucketV_unit
  case union bs =>
    obtain ⟨p, q, v1, v2, hp, hq, _, h1, h2, _, _, hne⟩ := union_two_members bs hw
    simp only [den, V.mkSet, ctorTag]
    exact vtag_set_mixed _ v1 v2 ((mem_mk _ _).2 ((mem_denBuckets bs v1).2 ⟨p, hp, h1⟩))
      ((mem_mk _ _).2 ((mem_denBuckets bs v2).2 ⟨q, hq, h2⟩)) hne

theorem vtag_den (a : Rep) (hw : wf a = true) (_hf : frag a = true) : vtag (den a) = ctorTag a :=
  vtag_den_wf a hw

/-! ### strings and byte arrays: canonical forms are determined by the denotation -/

theorem headSome_runeOpt (s : List Int) (h : headNonneg s = true) : headSome (s.map runeOpt) = true := by
  cases s with
  | nil => simp [headNonneg] at h
  | cons c r =>
    simp only [headNonneg, decide_eq_true_eq] at h
    have : ¬ c < 0 := by omega
    simp [runeOpt, this, headSome]

theorem noTrail_runeOpt : ∀ (s : List Int), lastNonneg s = true → noTrail (s.map runeOpt) = true
  | [], h => by simp [lastNonneg] at h
  | [c], h => by
    simp only [lastNonneg, decide_eq_true_eq] at h
    have : ¬ c < 0 := by omega
    simp [runeOpt, this, noTrail]
  | _ :: y :: r, h => by
    simp only [lastNonneg] at h
    have := noTrail_runeOpt (y :: r) h
    simpa [noTrail] using this

theorem runeOpt_map_inj : ∀ (s s' : List Int),
    s.all (fun c => decide (-1 ≤ c) && decide (c ≤ 0x10FFFF)) = true →
    s'.all (fun c => decide (-1 ≤ c) && decide (c ≤ 0x10FFFF)) = true →
    s.map runeOpt = s'.map runeOpt → s = s'
  | [], [], _, _, _ => rfl
  | [], _ :: _, _, _, h => by simp at h
  | _ :: _, [], _, _, h => by simp at h
  | c :: r, c' :: r', h1, h2, h => by
    simp only [List.all_cons, Bool.and_eq_true, decide_eq_true_eq] at h1 h2
    simp only [List.map_cons, List.cons.injEq] at h
    have hr := runeOpt_map_inj r r' (by simpa using h1.2) (by simpa using h2.2) h.2
    have hc : c = c' := by
      have := h.1
      unfold runeOpt at this
      by_cases a : c < 0 <;> by_cases b : c' < 0 <;> simp [a, b] at this
      · omega
      · exact this
    rw [hc, hr]

theorem str_den_inj (s s' : List Int) (off off' h h' : Int)
    (w : wf (.str s off h) = true) (w' : wf (.str s' off' h') = true) :
    den (.str s off h) = den (.str s' off' h') ↔ (off = off' ∧ s = s' ∧ h = h') := by
  simp only [wf, Bool.and_eq_true, beq_iff_eq] at w w'
  obtain ⟨⟨⟨hh, hl⟩, ha⟩, hc⟩ := w
  obtain ⟨⟨⟨hh', hl'⟩, ha'⟩, hc'⟩ := w'
  constructor
  · intro e
    rw [den_str, den_str, strMembers_eq, strMembers_eq] at e
    have e' : seqM "@char" off (s.map runeOpt) = seqM "@char" off' (s'.map runeOpt) := by simpa using e
    obtain ⟨ho, hs⟩ := seqM_inj "@char" _ _ off off' (headSome_runeOpt s hh) (headSome_runeOpt s' hh')
      (noTrail_runeOpt s hl) (noTrail_runeOpt s' hl') e'
    have := runeOpt_map_inj s s' ha ha' hs
    subst this
    exact ⟨ho, rfl, by rw [hc, hc']⟩
  · rintro ⟨rfl, rfl, rfl⟩; rfl

theorem bytes_den_inj (b b' : List Int) (off off' : Int)
    (w : wf (.bytes b off) = true) (w' : wf (.bytes b' off') = true) :
    den (.bytes b off) = den (.bytes b' off') ↔ (off = off' ∧ b = b') := by
  simp only [wf, Bool.and_eq_true, Bool.not_eq_true', List.isEmpty_eq_false_iff] at w w'
  constructor
  · intro e
    rw [den_bytes, den_bytes, bytesMembers_eq, bytesMembers_eq] at e
    have e' : seqM "@byte" off (b.map (fun x => some (V.num x))) = seqM "@byte" off' (b'.map (fun x => some (V.num x))) := by
      simpa using e
    have hs : ∀ (l : List Int), l ≠ [] → headSome (l.map (fun x => some (V.num x))) = true := by
      intro l hl; cases l with
      | nil => exact absurd rfl hl
      | cons c r => simp [headSome]
    have ht : ∀ (l : List Int), noTrail (l.map (fun x => some (V.num x))) = true := by
      intro l; induction l with
      | nil => rfl
      | cons c r ih =>
        cases r with
        | nil => simp [noTrail]
        | cons d r' => simpa [noTrail] using ih
    obtain ⟨ho, hb⟩ := seqM_inj "@byte" _ _ off off' (hs b w.1) (hs b' w'.1) (ht b) (ht b') e'
    refine ⟨ho, ?_⟩
    have : ∀ (l l' : List Int), l.map (fun x => some (V.num x)) = l'.map (fun x => some (V.num x)) → l = l' := by
      intro l; induction l with
      | nil => intro l' h; cases l' <;> simp at h ⊢
      | cons c r ih =>
        intro l' h
        cases l' with
        | nil => simp at h
        | cons c' r' =>
          simp only [List.map_cons, List.cons.injEq, Option.some.injEq, V.num.injEq] at h
          rw [h.1, ih r' h.2]
    exact this b b' hb
  · rintro ⟨rfl, rfl⟩; rfl

theorem numsV_inj (l l' : List Int) : numsV l = numsV l' ↔ l = l' := by
  constructor
  · intro h
    simp only [numsV, V.set.injEq] at h
    induction l generalizing l' with
    | nil => cases l' <;> simp at h ⊢
    | cons c r ih =>
      cases l' with
      | nil => simp at h
      | cons c' r' =>
        simp only [List.map_cons, List.cons.injEq, V.num.injEq] at h
        rw [h.1, ih r' h.2]
  · intro h; rw [h]

/-! ### hashes of plain fragment values are single atoms carrying their seed -/

def atomAt (x : Rep) (s : HV) : V := (hashG true x s).headD (.num 0)
abbrev atomOf (x : Rep) : V := atomAt x []

theorem hxor_nil_right (x : V) : hxor [x] [] = [x] := by
  simp [hxor, symdiff, diff, FinSet.union, ins]

theorem hash_singleton (x : Rep) (hf : frag x = true) (hp : plain x = true) (s : HV) :
    hashG true x s = [atomAt x s] := by
  cases x <;> simp [frag, plain] at hf hp <;> simp [atomAt, hashG, hfin, tfin, hatom]

theorem atomAt_seed (x : Rep) (hf : frag x = true) (hp : plain x = true) (s : HV) :
    ∃ t p, atomAt x s = .tup [(t, p), ("seed", .set s)] := by
  cases x <;> simp [frag, plain] at hf hp <;> simp [atomAt, hashG, hfin, tfin, hatom]

theorem atomAt_ne_mapC (y : Rep) (hf : frag y = true) (hp : plain y = true) (s : HV) (p q : V) :
    atomAt y s ≠ .tup [("mapC", p), ("seed", q)] := by
  cases y <;> simp [frag, plain] at hf hp <;> simp [atomAt, hashG, hfin, tfin, hatom]

theorem atomAt_seed_inj (x y : Rep) (hx : frag x = true) (px : plain x = true) (hy : frag y = true)
    (py : plain y = true) (s s' : HV) (h : atomAt x s = atomAt y s') : s = s' := by
  obtain ⟨t, p, e⟩ := atomAt_seed x hx px s
  obtain ⟨t', p', e'⟩ := atomAt_seed y hy py s'
  rw [e, e'] at h
  simp at h
  exact h.2

/-- the atom of an item tuple: the item's atom under the index seed, finished under the caller's seed -/
theorem atomAt_item (i : Int) (x : Rep) (hf : frag x = true) (s : HV) :
    atomAt (.itemT i x) s = .tup [("fin", .set [atomAt x (hatom "int" (.num i) s)]), ("seed", .set s)] := by
  have := hash_singleton x hf rfl (hatom "int" (.num i) s)
  simp [atomAt, hashG, tfin, hatom] at this ⊢
  rw [this]; simp

/-- the atom of an entry tuple: the value's atom under the key's hash, finished under the caller's seed -/
theorem atomAt_entry (k v : Rep) (hk : frag k = true) (hv : frag v = true) (s : HV) :
    atomAt (.entryT k v) s = .tup [("fin", .set [atomAt v [atomAt k s]]), ("seed", .set s)] := by
  have h1 := hash_singleton k hk rfl s
  have h2 := hash_singleton v hv rfl [atomAt k s]
  simp only [atomAt, hashG, tfin, hatom, if_true] at h1 h2 ⊢
  rw [h1, h2]; simp

theorem nodup_map_of {α β γ} (f : α → β) (g : α → γ) : ∀ (l : List α),
    (∀ x, x ∈ l → ∀ y, y ∈ l → f x = f y → g x = g y) → (l.map g).Nodup → (l.map f).Nodup
  | [], _, _ => by simp
  | x :: r, h, hn => by
    simp only [List.map_cons, List.nodup_cons] at hn ⊢
    refine ⟨?_, nodup_map_of f g r (fun a ha b hb => h a (List.mem_cons_of_mem _ ha) b (List.mem_cons_of_mem _ hb)) hn.2⟩
    intro hm
    obtain ⟨y, hy, e⟩ := List.mem_map.1 hm
    have := h x (by simp) y (List.mem_cons_of_mem _ hy) e.symm
    exact hn.1 (List.mem_map.2 ⟨y, hy, this.symm⟩)

theorem denList_eq_map : ∀ (xs : List Rep), denList xs = xs.map den
  | [] => rfl
  | x :: r => by simp [denList, denList_eq_map r]

/-- transfer of "same image set" between two maps that identify the same pairs -/
theorem map_mem_transfer {α β γ} (f : α → β) (g : α → γ) (l₁ l₂ : List α)
    (h : ∀ x, x ∈ l₁ → ∀ y, y ∈ l₂ → (f x = f y ↔ g x = g y)) :
    (∀ v, v ∈ l₁.map f ↔ v ∈ l₂.map f) ↔ (∀ v, v ∈ l₁.map g ↔ v ∈ l₂.map g) := by
  constructor
  · intro hf v
    constructor
    · intro hv
      obtain ⟨x, hx, e⟩ := List.mem_map.1 hv
      obtain ⟨y, hy, e'⟩ := List.mem_map.1 ((hf (f x)).1 (List.mem_map.2 ⟨x, hx, rfl⟩))
      exact List.mem_map.2 ⟨y, hy, by rw [← e]; exact ((h x hx y hy).1 e'.symm).symm⟩
    · intro hv
      obtain ⟨y, hy, e⟩ := List.mem_map.1 hv
      obtain ⟨x, hx, e'⟩ := List.mem_map.1 ((hf (f y)).2 (List.mem_map.2 ⟨y, hy, rfl⟩))
      exact List.mem_map.2 ⟨x, hx, by rw [← e]; exact (h x hx y hy).1 e'⟩
  · intro hg v
    constructor
    · intro hv
      obtain ⟨x, hx, e⟩ := List.mem_map.1 hv
      obtain ⟨y, hy, e'⟩ := List.mem_map.1 ((hg (g x)).1 (List.mem_map.2 ⟨x, hx, rfl⟩))
      exact List.mem_map.2 ⟨y, hy, by rw [← e]; exact ((h x hx y hy).2 e'.symm).symm⟩
    · intro hv
      obtain ⟨y, hy, e⟩ := List.mem_map.1 hv
      obtain ⟨x, hx, e'⟩ := List.mem_map.1 ((hg (g y)).2 (List.mem_map.2 ⟨y, hy, rfl⟩))
      exact List.mem_map.2 ⟨x, hx, by rw [← e]; exact (h x hx y hy).2 e'⟩

/-! ### a generic XOR over a list of (value, seed) pairs -/

/-- XOR of `hash x s` over a list of (value, seed) pairs -/
def xorPairs : List (Rep × HV) → HV
  | [] => []
  | (x, s) :: r => hxor (hashG true x s) (xorPairs r)

def goodPair (p : Rep × HV) : Prop := frag p.1 = true ∧ plain p.1 = true

theorem xorPairs_eq_mk : ∀ (l : List (Rep × HV)), (∀ p, p ∈ l → goodPair p) →
    (l.map (fun p => atomAt p.1 p.2)).Nodup → xorPairs l = mk (l.map (fun p => atomAt p.1 p.2))
  | [], _, _ => rfl
  | (x, s) :: r, hg, hn => by
    simp only [List.map_cons, List.nodup_cons] at hn
    simp only [xorPairs, List.map_cons]
    have gx := hg (x, s) (by simp)
    rw [hash_singleton x gx.1 gx.2 s, xorPairs_eq_mk r (fun p hp => hg p (List.mem_cons_of_mem _ hp)) hn.2]
    have hx : atomAt x s ∉ mk (r.map (fun p => atomAt p.1 p.2)) := fun h => hn.1 ((mem_mk _ _).1 h)
    rw [hxor, symdiff_singleton _ _ (sorted_mk _) hx]
    rfl

theorem xorList_eq_pairs : ∀ (xs : List Rep), xorList true xs = xorPairs (xs.map (fun x => (x, [])))
  | [] => rfl
  | x :: r => by simp [xorList, xorPairs, xorList_eq_pairs r]

/-- present items of an array with their indices -/
def idxItems (off : Int) : List (Option Rep) → List (Int × Rep)
  | [] => []
  | some x :: r => (off, x) :: idxItems (off + 1) r
  | none :: r => idxItems (off + 1) r

def intSeed (i : Int) (s : HV) : HV := hatom "int" (.num i) s

theorem xorOpts_eq_pairs : ∀ (vs : List (Option Rep)) (off : Int) (s : HV),
    xorOpts true off vs s = xorPairs ((idxItems off vs).map (fun p => (Rep.itemT p.1 p.2, s)))
  | [], _, _ => rfl
  | some x :: r, off, s => by simp [xorOpts, idxItems, xorPairs, hashG, xorOpts_eq_pairs r]
  | none :: r, off, s => by simp [xorOpts, idxItems, xorOpts_eq_pairs r]

theorem seqM_eq_idx : ∀ (vs : List (Option Rep)) (off : Int),
    seqM "@item" off (denOpts vs) = (idxItems off vs).map (fun p => vpair "@item" (.num p.1) (den p.2))
  | [], _ => rfl
  | some x :: r, off => by simp [denOpts, seqM, idxItems, seqM_eq_idx r]
  | none :: r, off => by simp [denOpts, seqM, idxItems, seqM_eq_idx r]

theorem idxItems_ge : ∀ (vs : List (Option Rep)) (off : Int) (p : Int × Rep), p ∈ idxItems off vs → off ≤ p.1
  | [], _, _, h => by simp [idxItems] at h
  | some x :: r, off, p, h => by
    simp only [idxItems, List.mem_cons] at h
    rcases h with h | h
    · subst h; exact Int.le_refl _
    · have := idxItems_ge r (off + 1) p h; omega
  | none :: r, off, p, h => by
    simp only [idxItems] at h
    have := idxItems_ge r (off + 1) p h; omega

theorem idxItems_idx_nodup : ∀ (vs : List (Option Rep)) (off : Int), ((idxItems off vs).map (·.1)).Nodup
  | [], _ => by simp [idxItems]
  | some x :: r, off => by
    simp only [idxItems, List.map_cons, List.nodup_cons]
    refine ⟨?_, idxItems_idx_nodup r (off + 1)⟩
    intro h
    obtain ⟨p, hp, e⟩ := List.mem_map.1 h
    have := idxItems_ge r (off + 1) p hp
    omega
  | none :: r, off => by
    simp only [idxItems]
    exact idxItems_idx_nodup r (off + 1)

theorem idxItems_mem : ∀ (vs : List (Option Rep)) (off : Int) (p : Int × Rep), p ∈ idxItems off vs → some p.2 ∈ vs
  | [], _, _, h => by simp [idxItems] at h
  | some x :: r, off, p, h => by
    simp only [idxItems, List.mem_cons] at h
    rcases h with h | h
    · subst h; simp
    · exact List.mem_cons_of_mem _ (idxItems_mem r (off + 1) p h)
  | none :: r, off, p, h => by
    simp only [idxItems] at h
    exact List.mem_cons_of_mem _ (idxItems_mem r (off + 1) p h)

theorem fragOpts_mem : ∀ (vs : List (Option Rep)) (x : Rep), fragOpts vs = true → some x ∈ vs →
    plain x = true ∧ frag x = true
  | [], _, _, h => by simp at h
  | some y :: r, x, hf, h => by
    simp only [fragOpts, Bool.and_eq_true] at hf
    simp only [List.mem_cons, Option.some.injEq] at h
    rcases h with h | h
    · subst h; exact hf.1
    · exact fragOpts_mem r x hf.2 h
  | none :: r, x, hf, h => by
    simp only [fragOpts] at hf
    simp only [List.mem_cons] at h
    rcases h with h | h
    · cases h
    · exact fragOpts_mem r x hf h

theorem wfOpts_mem : ∀ (vs : List (Option Rep)) (x : Rep), wfOpts vs = true → some x ∈ vs → wf x = true
  | [], _, _, h => by simp at h
  | some y :: r, x, hf, h => by
    simp only [wfOpts, Bool.and_eq_true] at hf
    simp only [List.mem_cons, Option.some.injEq] at h
    rcases h with h | h
    · subst h; exact hf.1
    · exact wfOpts_mem r x hf.2 h
  | none :: r, x, hf, h => by
    simp only [wfOpts] at hf
    simp only [List.mem_cons] at h
    rcases h with h | h
    · cases h
    · exact wfOpts_mem r x hf h

theorem depth_mem_opts : ∀ (vs : List (Option Rep)) (x : Rep), some x ∈ vs → depth x ≤ depthOpts vs
  | [], _, h => by simp at h
  | some y :: r, x, h => by
    simp only [List.mem_cons, Option.some.injEq] at h
    rcases h with h | h
    · subst h; simp [depthOpts]
    · have := depth_mem_opts r x h
      simp [depthOpts]; omega
  | none :: r, x, h => by
    simp only [List.mem_cons] at h
    rcases h with h | h
    · cases h
    · have := depth_mem_opts r x h
      simpa [depthOpts] using this


/-! ### generic sets: the XOR of member hashes is the set of member atoms -/

theorem xorList_eq_mk (xs : List Rep) (hf : fragList xs = true) (hp : ∀ x, x ∈ xs → plain x = true)
    (hn : (xs.map atomOf).Nodup) : xorList true xs = mk (xs.map atomOf) := by
  rw [xorList_eq_pairs, xorPairs_eq_mk]
  · simp [List.map_map, Function.comp_def]
  · intro p hp'
    obtain ⟨x, hx, e⟩ := List.mem_map.1 hp'
    subst e
    exact ⟨fragList_mem xs x hf hx, hp x hx⟩
  · simpa [List.map_map, Function.comp_def] using hn

theorem atomOf_eq_iff (x y : Rep) (hx : frag x = true) (hy : frag y = true) (px : plain x = true)
    (py : plain y = true) : atomOf x = atomOf y ↔ hashG true x [] = hashG true y [] := by
  rw [hash_singleton x hx px, hash_singleton y hy py]; simp

theorem atoms_nodup (xs : List Rep) (hf : fragList xs = true) (hp : ∀ x, x ∈ xs → plain x = true)
    (hn : (denList xs).Nodup)
    (H : ∀ x, x ∈ xs → ∀ y, y ∈ xs → (hashG true x [] = hashG true y [] ↔ den x = den y)) :
    (xs.map atomOf).Nodup := by
  apply nodup_map_of atomOf den xs
  · intro x hx y hy e
    exact (H x hx y hy).1 ((atomOf_eq_iff x y (fragList_mem xs x hf hx) (fragList_mem xs y hf hy) (hp x hx) (hp y hy)).1 e)
  · rw [← denList_eq_map]; exact hn

theorem generic_core (xs ys : List Rep)
    (hfx : fragList xs = true) (hfy : fragList ys = true)
    (hpx : ∀ x, x ∈ xs → plain x = true) (hpy : ∀ x, x ∈ ys → plain x = true)
    (hnx : (denList xs).Nodup) (hny : (denList ys).Nodup)
    (H : ∀ x, x ∈ xs ++ ys → ∀ y, y ∈ xs ++ ys → (hashG true x [] = hashG true y [] ↔ den x = den y)) :
    (xorList true xs = xorList true ys ↔ mk (denList xs) = mk (denList ys)) ∧
    (mk (denList xs) = mk (denList ys) → xs.length = ys.length) := by
  have ax := atoms_nodup xs hfx hpx hnx (fun x hx y hy => H x (by simp [hx]) y (by simp [hy]))
  have ay := atoms_nodup ys hfy hpy hny (fun x hx y hy => H x (by simp [hx]) y (by simp [hy]))
  refine ⟨?_, ?_⟩
  · rw [xorList_eq_mk xs hfx hpx ax, xorList_eq_mk ys hfy hpy ay, mk_eq_iff, mk_eq_iff, denList_eq_map,
      denList_eq_map]
    apply map_mem_transfer
    intro x hx y hy
    rw [atomOf_eq_iff x y (fragList_mem xs x hfx hx) (fragList_mem ys y hfy hy) (hpx x hx) (hpy y hy)]
    exact H x (by simp [hx]) y (by simp [hy])
  · intro h
    have := length_eq_of_same_members (denList xs) (denList ys) hnx hny ((mk_eq_iff _ _).1 h)
    rwa [denList_length, denList_length] at this

theorem xorList_ne_nil (xs : List Rep) (hf : fragList xs = true) (hp : ∀ x, x ∈ xs → plain x = true)
    (ha : (xs.map atomOf).Nodup) (hne : xs ≠ []) : xorList true xs ≠ [] := by
  rw [xorList_eq_mk xs hf hp ha]
  intro h
  have := (mk_eq_nil _).1 h
  cases xs with
  | nil => exact hne rfl
  | cons x r => simp at this

theorem xorList_single (ys : List Rep) (hf : fragList ys = true) (hp : ∀ x, x ∈ ys → plain x = true)
    (ha : (ys.map atomOf).Nodup) (A : V) (h : xorList true ys = [A]) : ∃ y, ys = [y] ∧ atomOf y = A := by
  rw [xorList_eq_mk ys hf hp ha] at h
  have hlen := length_mk_of_nodup _ ha
  rw [h] at hlen
  cases ys with
  | nil => simp at hlen
  | cons y r =>
    cases r with
    | cons _ _ => simp at hlen
    | nil =>
      refine ⟨y, rfl, ?_⟩
      have := head_mk_mem _ _ _ h
      simp at this
      exact this.symm

theorem xorList_mem_atom (ys : List Rep) (hf : fragList ys = true) (hp : ∀ x, x ∈ ys → plain x = true)
    (ha : (ys.map atomOf).Nodup) (A : V) (h : A ∈ xorList true ys) : ∃ y, y ∈ ys ∧ atomOf y = A := by
  rw [xorList_eq_mk ys hf hp ha, mem_mk] at h
  obtain ⟨y, hy, e⟩ := List.mem_map.1 h
  exact ⟨y, hy, e⟩

/-! ### arrays -/

def arrAtoms (off : Int) (vs : List (Option Rep)) (s : HV) : List V :=
  (idxItems off vs).map (fun p => atomAt (.itemT p.1 p.2) s)

theorem intSeed_inj (i j : Int) (s s' : HV) : intSeed i s = intSeed j s' ↔ (i = j ∧ s = s') := by
  simp [intSeed, hatom]

/-- two item-tuple atoms: same seed and the items' atoms under the index seeds agree -/
theorem item_atom_eq (i j : Int) (x y : Rep) (hx : frag x = true) (hy : frag y = true) (s s' : HV) :
    atomAt (.itemT i x) s = atomAt (.itemT j y) s' ↔
      (s = s' ∧ atomAt x (intSeed i s) = atomAt y (intSeed j s')) := by
  rw [atomAt_item i x hx, atomAt_item j y hy]
  simp [intSeed]
  exact And.comm

theorem arrAtoms_nodup (off : Int) (vs : List (Option Rep)) (s : HV) (hf : fragOpts vs = true) :
    (arrAtoms off vs s).Nodup := by
  apply nodup_map_of (fun p : Int × Rep => atomAt (.itemT p.1 p.2) s) (·.1) (idxItems off vs)
  · intro p hp q hq e
    obtain ⟨pp, pf⟩ := fragOpts_mem vs p.2 hf (idxItems_mem vs off p hp)
    obtain ⟨qp, qf⟩ := fragOpts_mem vs q.2 hf (idxItems_mem vs off q hq)
    have e' := ((item_atom_eq p.1 q.1 p.2 q.2 pf qf s s).1 e).2
    have := atomAt_seed_inj p.2 q.2 pf pp qf qp _ _ e'
    exact ((intSeed_inj _ _ _ _).1 this).1
  · exact idxItems_idx_nodup vs off

theorem xorOpts_eq_mk (off : Int) (vs : List (Option Rep)) (s : HV) (hf : fragOpts vs = true) :
    xorOpts true off vs s = mk (arrAtoms off vs s) := by
  rw [xorOpts_eq_pairs, xorPairs_eq_mk]
  · simp [arrAtoms, List.map_map, Function.comp_def]
  · intro p hp
    obtain ⟨q, hq, e⟩ := List.mem_map.1 hp
    subst e
    obtain ⟨pp, pf⟩ := fragOpts_mem vs q.2 hf (idxItems_mem vs off q hq)
    exact ⟨by simp [frag, pf, pp], rfl⟩
  · have := arrAtoms_nodup off vs s hf
    simpa [arrAtoms, List.map_map, Function.comp_def] using this

theorem idxItems_ne_nil (off : Int) (vs : List (Option Rep)) (h : headSome vs = true) : idxItems off vs ≠ [] := by
  cases vs with
  | nil => simp [headSome] at h
  | cons o r =>
    cases o with
    | none => simp [headSome] at h
    | some x => simp [idxItems]

theorem array_core (vs vs' : List (Option Rep)) (off off' : Int) (s : HV)
    (hf : fragOpts vs = true) (hf' : fragOpts vs' = true)
    (H : ∀ x, some x ∈ vs → ∀ y, some y ∈ vs' → ∀ S S' : HV,
      (hashG true x S = hashG true y S' ↔ (S = S' ∧ den x = den y))) :
    xorOpts true off vs s = xorOpts true off' vs' s ↔
      seqM "@item" off (denOpts vs) = seqM "@item" off' (denOpts vs') := by
  rw [xorOpts_eq_mk off vs s hf, xorOpts_eq_mk off' vs' s hf', mk_eq_iff]
  have hs : seqM "@item" off (denOpts vs) = seqM "@item" off' (denOpts vs') ↔
      ∀ v, v ∈ seqM "@item" off (denOpts vs) ↔ v ∈ seqM "@item" off' (denOpts vs') := by
    constructor
    · intro h v; rw [h]
    · intro h; exact sorted_ext _ _ (seqM_sorted _ _ _) (seqM_sorted _ _ _) h
  rw [hs, seqM_eq_idx, seqM_eq_idx]
  unfold arrAtoms
  apply map_mem_transfer
  intro p hp q hq
  obtain ⟨pp, pf⟩ := fragOpts_mem vs p.2 hf (idxItems_mem vs off p hp)
  obtain ⟨qp, qf⟩ := fragOpts_mem vs' q.2 hf' (idxItems_mem vs' off' q hq)
  have h1 : atomAt (.itemT p.1 p.2) s = atomAt (.itemT q.1 q.2) s ↔
      hashG true p.2 (intSeed p.1 s) = hashG true q.2 (intSeed q.1 s) := by
    rw [item_atom_eq p.1 q.1 p.2 q.2 pf qf, hash_singleton p.2 pf pp, hash_singleton q.2 qf qp]; simp
  rw [h1, H p.2 (idxItems_mem vs off p hp) q.2 (idxItems_mem vs' off' q hq), intSeed_inj]
  simp [vpair]

theorem denOpts_length : ∀ (vs : List (Option Rep)), (denOpts vs).length = vs.length
  | [] => rfl
  | some _ :: r => by simp [denOpts, denOpts_length r]
  | none :: r => by simp [denOpts, denOpts_length r]

theorem headSome_denOpts (vs : List (Option Rep)) (h : headSome vs = true) : headSome (denOpts vs) = true := by
  cases vs with
  | nil => simp [headSome] at h
  | cons o r => cases o <;> simp [headSome, denOpts] at h ⊢

theorem lastSome_denOpts : ∀ (vs : List (Option Rep)), lastSome vs = true → lastSome (denOpts vs) = true
  | [], h => by simp [lastSome] at h
  | [o], h => by cases o <;> simp [lastSome, denOpts] at h ⊢
  | o :: p :: r, h => by
    simp only [lastSome] at h
    have := lastSome_denOpts (p :: r) h
    cases o <;> cases p <;> simpa [denOpts, lastSome] using this

theorem optCount_denOpts : ∀ (vs : List (Option Rep)), optCount (denOpts vs) = optCount vs
  | [] => rfl
  | some _ :: r => by
    have := optCount_denOpts r
    simp [denOpts, optCount] at this ⊢; omega
  | none :: r => by
    have := optCount_denOpts r
    simp [denOpts, optCount] at this ⊢; omega

theorem arrEq_iff : ∀ (vs vs' : List (Option Rep)), vs.length = vs'.length →
    (∀ x, some x ∈ vs → ∀ y, some y ∈ vs' → (equal x y = true ↔ den x = den y)) →
    (arrEq true vs vs' = true ↔ denOpts vs = denOpts vs')
  | [], [], _, _ => by simp [arrEq, denOpts]
  | [], _ :: _, h, _ => by simp at h
  | _ :: _, [], h, _ => by simp at h
  | some c :: r, some d :: r', h, H => by
    have ih := arrEq_iff r r' (by simpa using h)
      (fun x hx y hy => H x (List.mem_cons_of_mem _ hx) y (List.mem_cons_of_mem _ hy))
    have hc := H c (by simp) d (by simp)
    simp only [arrEq, denOpts, Bool.and_eq_true, List.cons.injEq, Option.some.injEq]
    rw [ih]
    exact and_congr hc Iff.rfl
  | some c :: r, none :: r', _, _ => by simp [arrEq, denOpts]
  | none :: r, some d :: r', _, _ => by simp [arrEq, denOpts]
  | none :: r, none :: r', h, H => by
    have ih := arrEq_iff r r' (by simpa using h)
      (fun x hx y hy => H x (List.mem_cons_of_mem _ hx) y (List.mem_cons_of_mem _ hy))
    simp only [arrEq, denOpts, List.cons.injEq, true_and]
    exact ih


/-! ### generic tuples -/

def strSeed (n : String) (s : HV) : HV := hatom "str" (nameV n) s
def mapC (s : HV) : V := .tup [("mapC", .set []), ("seed", .set s)]
def attrAtoms (as : List (String × Rep)) (s : HV) : List V := as.map (fun p => atomAt p.2 (strSeed p.1 s))

theorem strSeed_inj (n m : String) (s s' : HV) : strSeed n s = strSeed m s' ↔ (n = m ∧ s = s') := by
  simp [strSeed, hatom, nameV]

theorem xorAttrs_eq_pairs : ∀ (as : List (String × Rep)) (s : HV),
    xorAttrs true as s = xorPairs (as.map (fun p => (p.2, strSeed p.1 s)))
  | [], _ => rfl
  | (n, v) :: r, s => by simp [xorAttrs, xorPairs, strSeed, xorAttrs_eq_pairs r]

theorem fragAttrs_mem : ∀ (as : List (String × Rep)) (p : String × Rep), fragAttrs as = true → p ∈ as →
    plain p.2 = true ∧ frag p.2 = true
  | [], _, _, h => by simp at h
  | (n, v) :: r, p, hf, h => by
    simp only [fragAttrs, Bool.and_eq_true] at hf
    simp only [List.mem_cons] at h
    rcases h with h | h
    · subst h; exact hf.1
    · exact fragAttrs_mem r p hf.2 h

theorem wfAttrs_mem : ∀ (as : List (String × Rep)) (p : String × Rep), wfAttrs as = true → p ∈ as → wf p.2 = true
  | [], _, _, h => by simp at h
  | (n, v) :: r, p, hf, h => by
    simp only [wfAttrs, Bool.and_eq_true] at hf
    simp only [List.mem_cons] at h
    rcases h with h | h
    · subst h; exact hf.1
    · exact wfAttrs_mem r p hf.2 h

theorem depth_mem_attrs : ∀ (as : List (String × Rep)) (p : String × Rep), p ∈ as → depth p.2 ≤ depthAttrs as
  | [], _, h => by simp at h
  | (n, v) :: r, p, h => by
    simp only [List.mem_cons] at h
    rcases h with h | h
    · subst h; simp [depthAttrs]
    · have := depth_mem_attrs r p h
      simp [depthAttrs]; omega

theorem depth_gtuple (as : List (String × Rep)) (p : String × Rep) (h : p ∈ as) : depth p.2 < depth (.gtuple as) := by
  have := depth_mem_attrs as p h
  cases as with
  | nil => simp at h
  | cons q r => simp only [depth]; omega

theorem attrAtoms_nodup (as : List (String × Rep)) (s : HV) (hnd : (namesOf as).Nodup) (hf : fragAttrs as = true) :
    (attrAtoms as s).Nodup := by
  apply nodup_map_of (fun p : String × Rep => atomAt p.2 (strSeed p.1 s)) (·.1) as
  · intro p hp q hq e
    obtain ⟨pp, pf⟩ := fragAttrs_mem as p hf hp
    obtain ⟨qp, qf⟩ := fragAttrs_mem as q hf hq
    have := atomAt_seed_inj p.2 q.2 pf pp qf qp _ _ e
    exact ((strSeed_inj _ _ _ _).1 this).1
  · exact hnd

theorem xorAttrs_eq_mk (as : List (String × Rep)) (s : HV) (hnd : (namesOf as).Nodup) (hf : fragAttrs as = true) :
    xorAttrs true as s = mk (attrAtoms as s) := by
  rw [xorAttrs_eq_pairs, xorPairs_eq_mk]
  · simp [attrAtoms, List.map_map, Function.comp_def]
  · intro p hp
    obtain ⟨q, hq, e⟩ := List.mem_map.1 hp
    subst e
    obtain ⟨pp, pf⟩ := fragAttrs_mem as q hf hq
    exact ⟨pf, pp⟩
  · have := attrAtoms_nodup as s hnd hf
    simpa [attrAtoms, List.map_map, Function.comp_def] using this

theorem mapC_notin (as : List (String × Rep)) (s s' : HV) (hf : fragAttrs as = true) : mapC s' ∉ attrAtoms as s := by
  intro h
  obtain ⟨p, hp, e⟩ := List.mem_map.1 h
  obtain ⟨pp, pf⟩ := fragAttrs_mem as p hf hp
  exact atomAt_ne_mapC p.2 pf pp _ _ _ e

/-- what `GenericTuple.Hash` finishes: the map constant and one atom per attribute -/
theorem gtuple_payload (as : List (String × Rep)) (s : HV) (hnd : (namesOf as).Nodup) (hf : fragAttrs as = true) :
    hxor (hatom "mapC" (.set []) s) (xorAttrs true as s) = mk (mapC s :: attrAtoms as s) := by
  rw [xorAttrs_eq_mk as s hnd hf]
  have : mapC s ∉ mk (attrAtoms as s) := fun h => mapC_notin as s s hf ((mem_mk _ _).1 h)
  show hxor [mapC s] _ = _
  rw [hxor, symdiff_singleton _ _ (sorted_mk _) this]
  rfl

theorem lookupV_some_of_mem : ∀ (l : List (String × V)) (k : String) (v : V), (l.map (·.1)).Nodup →
    (k, v) ∈ l → lookupV k l = some v
  | [], _, _, _, h => by simp at h
  | (m, w) :: r, k, v, hn, h => by
    simp only [List.map_cons, List.nodup_cons] at hn
    simp only [List.mem_cons, Prod.mk.injEq] at h
    rcases h with ⟨rfl, rfl⟩ | h
    · simp [lookupV]
    · have : k ≠ m := by
        intro e; subst e
        exact hn.1 (List.mem_map.2 ⟨(k, v), h, rfl⟩)
      simp only [lookupV, this, if_false]
      exact lookupV_some_of_mem r k v hn.2 h

theorem lookupV_mem : ∀ (l : List (String × V)) (k : String) (v : V), lookupV k l = some v → (k, v) ∈ l
  | [], _, _, h => by simp [lookupV] at h
  | (m, w) :: r, k, v, h => by
    simp only [lookupV] at h
    split at h
    · next e => subst e; simp at h; subst h; simp
    · exact List.mem_cons_of_mem _ (lookupV_mem r k v h)

theorem lookup_ext_iff_mem (l l' : List (String × V)) (hn : (l.map (·.1)).Nodup) (hn' : (l'.map (·.1)).Nodup) :
    (∀ k, lookupV k l = lookupV k l') ↔ (∀ q, q ∈ l ↔ q ∈ l') := by
  constructor
  · intro h q
    obtain ⟨k, v⟩ := q
    constructor
    · intro hq
      have := lookupV_some_of_mem l k v hn hq
      rw [h k] at this
      exact lookupV_mem l' k v this
    · intro hq
      have := lookupV_some_of_mem l' k v hn' hq
      rw [← h k] at this
      exact lookupV_mem l k v this
  · intro h k
    cases h1 : lookupV k l with
    | some v =>
      have := (h (k, v)).1 (lookupV_mem l k v h1)
      rw [lookupV_some_of_mem l' k v hn' this]
    | none =>
      cases h2 : lookupV k l' with
      | none => rfl
      | some w =>
        have := (h (k, w)).2 (lookupV_mem l' k w h2)
        rw [lookupV_some_of_mem l k w hn this] at h1
        cases h1

theorem denAttrs_eq_map : ∀ (as : List (String × Rep)), denAttrs as = as.map (fun p => (p.1, den p.2))
  | [] => rfl
  | (_, _) :: r => by simp [denAttrs, denAttrs_eq_map r]

theorem gtuple_core (as bs : List (String × Rep)) (s : HV)
    (na : (namesOf as).Nodup) (nb : (namesOf bs).Nodup) (fa : fragAttrs as = true) (fb : fragAttrs bs = true)
    (H : ∀ p, p ∈ as → ∀ q, q ∈ bs → ∀ S S' : HV,
      (hashG true p.2 S = hashG true q.2 S' ↔ (S = S' ∧ den p.2 = den q.2))) :
    mk (mapC s :: attrAtoms as s) = mk (mapC s :: attrAtoms bs s) ↔
      V.mkTup (denAttrs as) = V.mkTup (denAttrs bs) := by
  rw [mkTup_eq_iff, lookup_ext_iff_mem _ _ (by rw [denAttrs_names]; exact na) (by rw [denAttrs_names]; exact nb),
    mk_eq_iff, denAttrs_eq_map, denAttrs_eq_map]
  have hA := mapC_notin as s s fa
  have hB := mapC_notin bs s s fb
  have h1 : (∀ v, v ∈ mapC s :: attrAtoms as s ↔ v ∈ mapC s :: attrAtoms bs s) ↔
      (∀ v, v ∈ attrAtoms as s ↔ v ∈ attrAtoms bs s) := by
    constructor
    · intro h v
      constructor
      · intro hv
        rcases List.mem_cons.1 ((h v).1 (List.mem_cons_of_mem _ hv)) with e | h'
        · subst e; exact absurd hv hA
        · exact h'
      · intro hv
        rcases List.mem_cons.1 ((h v).2 (List.mem_cons_of_mem _ hv)) with e | h'
        · subst e; exact absurd hv hB
        · exact h'
    · intro h v
      simp only [List.mem_cons, h v]
  rw [h1]
  unfold attrAtoms
  apply map_mem_transfer
  intro p hp q hq
  obtain ⟨pp, pf⟩ := fragAttrs_mem as p fa hp
  obtain ⟨qp, qf⟩ := fragAttrs_mem bs q fb hq
  have h2 : atomAt p.2 (strSeed p.1 s) = atomAt q.2 (strSeed q.1 s) ↔
      hashG true p.2 (strSeed p.1 s) = hashG true q.2 (strSeed q.1 s) := by
    rw [hash_singleton p.2 pf pp, hash_singleton q.2 qf qp]; simp
  rw [h2, H p hp q hq, strSeed_inj]
  simp

/-! #### `GenericTuple.Equal` against any tuple -/

theorem tupleGet_attrsOf (b : Rep) (hb : isTuple b = true) (n : String) : tupleGet b n = lookupAttr n (attrsOf b) := by
  cases b <;> simp [isTuple] at hb <;> simp [tupleGet, attrsOf, lookupAttr]
  all_goals (split <;> simp_all)

theorem tupleNames_attrsOf (b : Rep) (hb : isTuple b = true) : tupleNames b = namesOf (attrsOf b) := by
  cases b <;> simp [isTuple] at hb <;> simp [tupleNames, attrsOf, namesOf]

theorem den_attrsOf (b : Rep) (hb : isTuple b = true) : den b = V.mkTup (denAttrs (attrsOf b)) := by
  cases b <;> simp [isTuple] at hb <;> simp [den, attrsOf, denAttrs, V.mkTup, V.insAttr, vpair]

theorem lookupAttr_some_of_mem : ∀ (as : List (String × Rep)) (k : String) (v : Rep), (namesOf as).Nodup →
    (k, v) ∈ as → lookupAttr k as = some v
  | [], _, _, _, h => by simp at h
  | (m, w) :: r, k, v, hn, h => by
    simp only [namesOf, List.map_cons, List.nodup_cons] at hn
    simp only [List.mem_cons, Prod.mk.injEq] at h
    rcases h with ⟨rfl, rfl⟩ | h
    · simp [lookupAttr]
    · have : k ≠ m := by
        intro e; subst e
        exact hn.1 (List.mem_map.2 ⟨(k, v), h, rfl⟩)
      simp only [lookupAttr, this, if_false]
      exact lookupAttr_some_of_mem r k v hn.2 h

theorem lookupAttr_mem : ∀ (as : List (String × Rep)) (k : String) (v : Rep), lookupAttr k as = some v → (k, v) ∈ as
  | [], _, _, h => by simp [lookupAttr] at h
  | (m, w) :: r, k, v, h => by
    simp only [lookupAttr] at h
    split at h
    · next e => subst e; simp at h; subst h; simp
    · exact List.mem_cons_of_mem _ (lookupAttr_mem r k v h)

theorem lookupAttr_none_iff : ∀ (as : List (String × Rep)) (k : String), lookupAttr k as = none ↔ k ∉ namesOf as
  | [], _ => by simp [lookupAttr, namesOf]
  | (m, w) :: r, k => by
    simp only [lookupAttr, namesOf, List.map_cons, List.mem_cons, not_or]
    split
    · next e => simp [e]
    · next e =>
      have := lookupAttr_none_iff r k
      simp only [namesOf] at this
      rw [this]; simp [e]

theorem equalAttrsIn_iff : ∀ (as : List (String × Rep)) (b : Rep),
    equalAttrsIn true as b = true ↔ ∀ p, p ∈ as → ∃ w, tupleGet b p.1 = some w ∧ equalG true p.2 w = true
  | [], b => by simp [equalAttrsIn]
  | (n, v) :: r, b => by
    simp only [equalAttrsIn, Bool.and_eq_true, equalAttrsIn_iff r b, List.mem_cons, forall_eq_or_imp]
    constructor
    · rintro ⟨h1, h2⟩
      refine ⟨?_, h2⟩
      cases hg : tupleGet b n with
      | none => rw [hg] at h1; simp at h1
      | some w => rw [hg] at h1; exact ⟨w, rfl, h1⟩
    · rintro ⟨⟨w, hw, he⟩, h2⟩
      refine ⟨?_, h2⟩
      rw [hw]; exact he

/-- `GenericTuple.Equal(b)` for a tuple `b` of any representation is equality of the name ↦ value maps -/
theorem gtuple_equal_iff (as : List (String × Rep)) (b : Rep) (hb : isTuple b = true)
    (na : (namesOf as).Nodup) (nb : (namesOf (attrsOf b)).Nodup)
    (HE : ∀ p, p ∈ as → ∀ q, q ∈ attrsOf b → (equal p.2 q.2 = true ↔ den p.2 = den q.2)) :
    equal (.gtuple as) b = true ↔ den (.gtuple as) = den b := by
  rw [den_attrsOf b hb]
  simp only [den, mkTup_eq_iff, equal, equalG, hb, Bool.true_and, Bool.and_eq_true, equalAttrsIn_iff,
    List.all_eq_true, tupleNames_attrsOf b hb]
  constructor
  · rintro ⟨h1, h2⟩ k
    rw [lookupV_denAttrs, lookupV_denAttrs]
    cases hk : lookupAttr k as with
    | some v =>
      obtain ⟨w, hw, he⟩ := h1 (k, v) (lookupAttr_mem as k v hk)
      rw [tupleGet_attrsOf b hb] at hw
      have := (HE (k, v) (lookupAttr_mem as k v hk) (k, w) (lookupAttr_mem _ k w hw)).1 he
      simp only [] at hw
      rw [hw]; simp [this]
    | none =>
      cases hk' : lookupAttr k (attrsOf b) with
      | none => rfl
      | some w =>
        exfalso
        have hm : k ∈ namesOf (attrsOf b) := by
          have := lookupAttr_mem _ k w hk'
          exact List.mem_map.2 ⟨(k, w), this, rfl⟩
        have := h2 k hm
        have hnot := (lookupAttr_none_iff as k).1 hk
        simp [namesOf] at this hnot
        obtain ⟨x, hx⟩ := this
        exact hnot x hx
  · intro h
    constructor
    · intro p hp
      have hk := lookupAttr_some_of_mem as p.1 p.2 na hp
      have := h p.1
      rw [lookupV_denAttrs, lookupV_denAttrs, hk] at this
      cases hk' : lookupAttr p.1 (attrsOf b) with
      | none => rw [hk'] at this; simp at this
      | some w =>
        rw [hk'] at this
        simp at this
        refine ⟨w, by rw [tupleGet_attrsOf b hb]; exact hk', ?_⟩
        exact (HE p hp (p.1, w) (lookupAttr_mem _ _ _ hk')).2 this
    · intro k hk
      have := h k
      rw [lookupV_denAttrs, lookupV_denAttrs] at this
      have hb' : lookupAttr k (attrsOf b) ≠ none := by
        intro e; exact ((lookupAttr_none_iff _ k).1 e) hk
      cases hk' : lookupAttr k as with
      | none =>
        rw [hk'] at this
        cases hk'' : lookupAttr k (attrsOf b) with
        | none => exact absurd hk'' hb'
        | some w => rw [hk''] at this; simp at this
      | some v =>
        have := lookupAttr_mem as k v hk'
        simp
        exact ⟨v, this⟩

/-! ### dictionaries -/

theorem hxor_mk_disjoint (A B : List V) (hd : ∀ x, x ∈ A → x ∉ B) : hxor (mk A) (mk B) = mk (A ++ B) := by
  apply sorted_ext _ _ (sorted_symdiff _ _ (sorted_mk B)) (sorted_mk _)
  intro x
  show x ∈ symdiff (mk A) (mk B) ↔ _
  rw [mem_symdiff, mem_mk, mem_mk, mem_mk, List.mem_append]
  constructor
  · rintro (⟨h, _⟩ | ⟨h, _⟩)
    · exact Or.inl h
    · exact Or.inr h
  · rintro (h | h)
    · exact Or.inl ⟨h, hd x h⟩
    · exact Or.inr ⟨h, fun h' => hd x h' h⟩

theorem inj_of_nodup_map {α β} (f : α → β) : ∀ (l : List α), (l.map f).Nodup → ∀ x, x ∈ l → ∀ y, y ∈ l → f x = f y → x = y
  | [], _, _, h, _, _, _ => by simp at h
  | a :: r, hn, x, hx, y, hy, e => by
    simp only [List.map_cons, List.nodup_cons] at hn
    simp only [List.mem_cons] at hx hy
    rcases hx with rfl | hx <;> rcases hy with rfl | hy
    · rfl
    · exact absurd (List.mem_map.2 ⟨y, hy, e.symm⟩) hn.1
    · exact absurd (List.mem_map.2 ⟨x, hx, e⟩) hn.1
    · exact inj_of_nodup_map f r hn.2 x hx y hy e

theorem fragPlainList_mem : ∀ (vs : List Rep) (v : Rep), fragPlainList vs = true → v ∈ vs → plain v = true ∧ frag v = true
  | [], _, _, h => by simp at h
  | y :: r, v, hf, h => by
    simp only [fragPlainList, Bool.and_eq_true] at hf
    simp only [List.mem_cons] at h
    rcases h with h | h
    · subst h; exact hf.1
    · exact fragPlainList_mem r v hf.2 h

theorem fragDict_mem : ∀ (m : List (Rep × List Rep)) (kv : Rep × List Rep), fragDict m = true → kv ∈ m →
    plain kv.1 = true ∧ frag kv.1 = true ∧ fragPlainList kv.2 = true
  | [], _, _, h => by simp at h
  | (k, vs) :: r, kv, hf, h => by
    simp only [fragDict, Bool.and_eq_true] at hf
    simp only [List.mem_cons] at h
    rcases h with h | h
    · subst h; exact ⟨hf.1.1.1, hf.1.1.2, hf.1.2⟩
    · exact fragDict_mem r kv hf.2 h

theorem fragList_of_plainList : ∀ (vs : List Rep), fragPlainList vs = true → fragList vs = true
  | [], _ => rfl
  | y :: r, hf => by
    simp only [fragPlainList, Bool.and_eq_true] at hf
    simp only [fragList, Bool.and_eq_true]
    exact ⟨hf.1.2, fragList_of_plainList r hf.2⟩

theorem mem_entries (m : List (Rep × List Rep)) (e : Rep × Rep) :
    e ∈ entries m ↔ ∃ kv, kv ∈ m ∧ e.1 = kv.1 ∧ e.2 ∈ kv.2 := by
  simp only [entries, List.mem_flatMap, List.mem_map]
  constructor
  · rintro ⟨kv, hkv, v, hv, rfl⟩; exact ⟨kv, hkv, rfl, hv⟩
  · rintro ⟨kv, hkv, h1, h2⟩
    exact ⟨kv, hkv, e.2, h2, by rw [← h1]⟩

theorem depth_mem_dict : ∀ (m : List (Rep × List Rep)) (kv : Rep × List Rep), kv ∈ m →
    depth kv.1 ≤ depthDict m ∧ ∀ v, v ∈ kv.2 → depth v ≤ depthDict m
  | [], _, h => by simp at h
  | (k, vs) :: r, kv, h => by
    simp only [List.mem_cons] at h
    rcases h with h | h
    · subst h
      refine ⟨by simp [depthDict]; omega, fun v hv => ?_⟩
      have := depth_mem_list vs v hv
      simp [depthDict]; omega
    · obtain ⟨a, b⟩ := depth_mem_dict r kv h
      exact ⟨by simp [depthDict]; omega, fun v hv => by have := b v hv; simp [depthDict]; omega⟩

def dictAtoms (m : List (Rep × List Rep)) (s : HV) : List V :=
  (entries m).map (fun e => atomAt (.entryT e.1 e.2) s)

theorem entries_cons (k : Rep) (vs : List Rep) (r : List (Rep × List Rep)) :
    entries ((k, vs) :: r) = vs.map (fun v => (k, v)) ++ entries r := by
  simp [entries]

theorem xorVals_eq_pairs (k : Rep) (s : HV) : ∀ (vs : List Rep),
    xorVals true vs (hashG true k s) s = xorPairs (vs.map (fun v => (Rep.entryT k v, s)))
  | [] => rfl
  | v :: r => by simp [xorVals, xorPairs, hashG, xorVals_eq_pairs k s r]

theorem xorDict_eq_mk : ∀ (m : List (Rep × List Rep)) (s : HV), fragDict m = true → (dictAtoms m s).Nodup →
    xorDict true m s = mk (dictAtoms m s)
  | [], _, _, _ => rfl
  | (k, vs) :: r, s, hf, hn => by
    have hf0 := hf
    simp only [fragDict, Bool.and_eq_true] at hf
    simp only [dictAtoms, entries_cons, List.map_append, List.map_map, Function.comp_def] at hn
    obtain ⟨n1, n2, n3⟩ := List.nodup_append.1 hn
    simp only [xorDict, dictAtoms, entries_cons, List.map_append, List.map_map, Function.comp_def]
    rw [xorVals_eq_pairs, xorPairs_eq_mk, xorDict_eq_mk r s hf.2 (by simpa [dictAtoms] using n2)]
    · simp only [List.map_map, Function.comp_def]
      apply hxor_mk_disjoint
      intro x hx hx'
      exact n3 x hx x (by simpa [dictAtoms] using hx') rfl
    · intro p hp
      obtain ⟨v, hv, e⟩ := List.mem_map.1 hp
      subst e
      obtain ⟨pv, fv⟩ := fragPlainList_mem vs v hf.1.2 hv
      exact ⟨by simp [frag, fv, pv, hf.1.1.1, hf.1.1.2], rfl⟩
    · simpa [List.map_map, Function.comp_def] using n1

theorem denDict_nodup : ∀ (m : List (Rep × List Rep)), wfDict m = true → (denList (m.map (·.1))).Nodup →
    (denDict m).Nodup
  | [], _, _ => by simp [denDict]
  | (k, vs) :: r, hw, hk => by
    simp only [wfDict, Bool.and_eq_true, decide_eq_true_eq] at hw
    simp only [List.map_cons, denList, List.nodup_cons] at hk
    simp only [denDict]
    rw [List.nodup_append]
    refine ⟨?_, denDict_nodup r hw.2 hk.2, ?_⟩
    · exact nodup_map_of (fun v => vpair "@value" (den k) v) id (denList vs)
        (fun a _ b _ e => (vpair_inj e).2) (by simpa using hw.1.2)
    · intro x hx y hy e
      subst e
      obtain ⟨d, _, rfl⟩ := List.mem_map.1 hx
      rw [denDict_eq] at hy
      obtain ⟨e, he, h⟩ := List.mem_map.1 hy
      obtain ⟨kv, hkv, h1, _⟩ := (mem_entries r e).1 he
      have := (vpair_inj h).1
      apply hk.1
      rw [mem_denList]
      exact ⟨kv.1, List.mem_map.2 ⟨kv, hkv, rfl⟩, by rw [← h1]; exact this⟩

/-- what the main induction provides about keys and values of two dictionaries -/
def DictIH (m m' : List (Rep × List Rep)) : Prop :=
  ∀ e, e ∈ entries m ++ entries m' → ∀ e', e' ∈ entries m ++ entries m' →
    (∀ S S' : HV, hashG true e.1 S = hashG true e'.1 S' ↔ (S = S' ∧ den e.1 = den e'.1)) ∧
    (∀ S S' : HV, hashG true e.2 S = hashG true e'.2 S' ↔ (S = S' ∧ den e.2 = den e'.2)) ∧
    (equal e.1 e'.1 = true ↔ den e.1 = den e'.1) ∧ (equal e.2 e'.2 = true ↔ den e.2 = den e'.2)

theorem entry_frag (m : List (Rep × List Rep)) (hf : fragDict m = true) (e : Rep × Rep) (he : e ∈ entries m) :
    (plain e.1 = true ∧ frag e.1 = true) ∧ (plain e.2 = true ∧ frag e.2 = true) := by
  obtain ⟨kv, hkv, h1, h2⟩ := (mem_entries m e).1 he
  obtain ⟨a, b, c⟩ := fragDict_mem m kv hf hkv
  rw [h1]
  exact ⟨⟨a, b⟩, fragPlainList_mem kv.2 e.2 c h2⟩

/-- two entry-tuple atoms: same seed and the values' atoms under the keys' hashes agree -/
theorem entry_atom_eq (k k' v v' : Rep) (hk : frag k = true) (hk' : frag k' = true) (hv : frag v = true)
    (hv' : frag v' = true) (s s' : HV) :
    atomAt (.entryT k v) s = atomAt (.entryT k' v') s' ↔
      (s = s' ∧ atomAt v (hashG true k s) = atomAt v' (hashG true k' s')) := by
  rw [atomAt_entry k v hk hv, atomAt_entry k' v' hk' hv', hash_singleton k hk rfl, hash_singleton k' hk' rfl]
  simp
  exact And.comm

theorem dict_atom_iff (m m' : List (Rep × List Rep)) (s : HV) (hf : fragDict m = true) (hf' : fragDict m' = true)
    (H : DictIH m m') (e e' : Rep × Rep) (he : e ∈ entries m ++ entries m') (he' : e' ∈ entries m ++ entries m') :
    atomAt (.entryT e.1 e.2) s = atomAt (.entryT e'.1 e'.2) s ↔ entryDen e = entryDen e' := by
  have fe : (plain e.1 = true ∧ frag e.1 = true) ∧ (plain e.2 = true ∧ frag e.2 = true) := by
    rcases List.mem_append.1 he with h | h
    · exact entry_frag m hf e h
    · exact entry_frag m' hf' e h
  have fe' : (plain e'.1 = true ∧ frag e'.1 = true) ∧ (plain e'.2 = true ∧ frag e'.2 = true) := by
    rcases List.mem_append.1 he' with h | h
    · exact entry_frag m hf e' h
    · exact entry_frag m' hf' e' h
  obtain ⟨hk, hv, _, _⟩ := H e he e' he'
  have h2 : atomAt (.entryT e.1 e.2) s = atomAt (.entryT e'.1 e'.2) s ↔
      hashG true e.2 (hashG true e.1 s) = hashG true e'.2 (hashG true e'.1 s) := by
    rw [entry_atom_eq e.1 e'.1 e.2 e'.2 fe.1.2 fe'.1.2 fe.2.2 fe'.2.2,
      hash_singleton e.2 fe.2.2 fe.2.1, hash_singleton e'.2 fe'.2.2 fe'.2.1]; simp
  rw [h2, hv, hk]
  simp [entryDen, vpair]

theorem dictAtoms_nodup (m : List (Rep × List Rep)) (s : HV) (hf : fragDict m = true) (hw : wfDict m = true)
    (hk : (denList (m.map (·.1))).Nodup) (H : DictIH m m) : (dictAtoms m s).Nodup := by
  apply nodup_map_of (fun e : Rep × Rep => atomAt (.entryT e.1 e.2) s) entryDen (entries m)
  · intro e he e' he' h
    exact (dict_atom_iff m m s hf hf H e e' (by simp [he]) (by simp [he'])).1 h
  · rw [← denDict_eq]; exact denDict_nodup m hw hk

theorem dict_core (m m' : List (Rep × List Rep)) (s : HV) (hf : fragDict m = true) (hf' : fragDict m' = true)
    (H : DictIH m m') :
    mk (dictAtoms m s) = mk (dictAtoms m' s) ↔ mk (denDict m) = mk (denDict m') := by
  rw [mk_eq_iff, mk_eq_iff, denDict_eq, denDict_eq]
  unfold dictAtoms
  apply map_mem_transfer
  intro e he e' he'
  exact dict_atom_iff m m' s hf hf' H e e' (by simp [he]) (by simp [he'])

/-! #### `Dict.equalDict` -/

/-- `equalDictValue` on the value lists stored under two keys -/
def valueMatch (vs vs' : List Rep) : Bool :=
  if vs.length ≤ 1 then decide (vs'.length ≤ 1) && valuesEq true vs vs'
  else decide (2 ≤ vs'.length) && (vs.length == vs'.length) &&
       frozenEq (xorList true vs) (xorList true vs') (allIn true vs vs')

theorem dictAllIn_iff : ∀ (m m' : List (Rep × List Rep)),
    dictAllIn true m m' = true ↔ ∀ kv, kv ∈ m → ∃ kv', kv' ∈ m' ∧
      ((hashG true kv.1 [] == hashG true kv'.1 [] && equalG true kv.1 kv'.1) && valueMatch kv.2 kv'.2) = true
  | [], m' => by simp [dictAllIn]
  | (k, vs) :: r, m' => by
    simp only [dictAllIn, Bool.and_eq_true, List.any_eq_true, dictAllIn_iff r m', List.mem_cons, forall_eq_or_imp]
    constructor
    · rintro ⟨⟨kv', h1, h2⟩, h3⟩
      refine ⟨⟨kv', h1, ?_⟩, h3⟩
      simpa [valueMatch, Bool.and_assoc] using h2
    · rintro ⟨⟨kv', h1, h2⟩, h3⟩
      refine ⟨⟨kv', h1, ?_⟩, h3⟩
      simpa [valueMatch, Bool.and_assoc] using h2

theorem valueMatch_iff (vs vs' : List Rep) (hne : vs ≠ []) (hne' : vs' ≠ [])
    (hf : fragPlainList vs = true) (hf' : fragPlainList vs' = true)
    (hn : (denList vs).Nodup) (hn' : (denList vs').Nodup)
    (HE : ∀ x, x ∈ vs → ∀ y, y ∈ vs' → (equal x y = true ↔ den x = den y))
    (HH : ∀ x, x ∈ vs ++ vs' → ∀ y, y ∈ vs ++ vs' → (hashG true x [] = hashG true y [] ↔ den x = den y)) :
    valueMatch vs vs' = true ↔ ∀ d, d ∈ denList vs ↔ d ∈ denList vs' := by
  have lenEq : (∀ d, d ∈ denList vs ↔ d ∈ denList vs') → vs.length = vs'.length := by
    intro h
    have := length_eq_of_same_members _ _ hn hn' h
    rwa [denList_length, denList_length] at this
  unfold valueMatch
  by_cases h1 : vs.length ≤ 1
  · simp only [h1, if_true, Bool.and_eq_true, decide_eq_true_eq]
    cases vs with
    | nil => exact absurd rfl hne
    | cons v r =>
      cases r with
      | cons _ _ => simp at h1
      | nil =>
        constructor
        · rintro ⟨hl, he⟩
          cases vs' with
          | nil => exact absurd rfl hne'
          | cons v' r' =>
            cases r' with
            | cons _ _ => simp at hl
            | nil =>
              simp only [valuesEq, Bool.and_true] at he
              have := (HE v (by simp) v' (by simp)).1 he
              intro d; simp [denList, this]
        · intro h
          have hl := lenEq h
          cases vs' with
          | nil => exact absurd rfl hne'
          | cons v' r' =>
            cases r' with
            | cons _ _ => simp at hl
            | nil =>
              refine ⟨by simp, ?_⟩
              simp only [valuesEq, Bool.and_true]
              apply (HE v (by simp) v' (by simp)).2
              have := (h (den v)).1 (by simp [denList])
              simpa [denList] using this
  · simp only [h1, if_false, Bool.and_eq_true, decide_eq_true_eq, beq_iff_eq]
    have px : ∀ x, x ∈ vs → plain x = true := fun x hx => (fragPlainList_mem vs x hf hx).1
    have py : ∀ x, x ∈ vs' → plain x = true := fun x hx => (fragPlainList_mem vs' x hf' hx).1
    obtain ⟨c1, c2⟩ := generic_core vs vs' (fragList_of_plainList vs hf) (fragList_of_plainList vs' hf') px py hn hn' HH
    have ax := atoms_nodup vs (fragList_of_plainList vs hf) px hn
      (fun x hx y hy => HH x (by simp [hx]) y (by simp [hy]))
    have hX : (xorList true vs).isEmpty = false := by
      cases hx : xorList true vs with
      | nil => exact absurd hx (xorList_ne_nil vs (fragList_of_plainList vs hf) px ax hne)
      | cons _ _ => rfl
    simp only [frozenEq, hX, Bool.not_false, Bool.true_or, Bool.and_true, beq_iff_eq]
    rw [c1, mk_eq_iff]
    constructor
    · exact fun h => h.2
    · intro h
      have := lenEq h
      exact ⟨⟨by omega, this⟩, h⟩

def keyDens (m : List (Rep × List Rep)) : List V := denList (m.map (·.1))

theorem mem_keyDens (m : List (Rep × List Rep)) (d : V) : d ∈ keyDens m ↔ ∃ kv, kv ∈ m ∧ den kv.1 = d := by
  unfold keyDens
  rw [mem_denList]
  constructor
  · rintro ⟨x, hx, e⟩
    obtain ⟨kv, hkv, rfl⟩ := List.mem_map.1 hx
    exact ⟨kv, hkv, e⟩
  · rintro ⟨kv, hkv, e⟩
    exact ⟨kv.1, List.mem_map.2 ⟨kv, hkv, rfl⟩, e⟩

theorem key_inj (m : List (Rep × List Rep)) (hk : (keyDens m).Nodup) (kv kv' : Rep × List Rep)
    (h : kv ∈ m) (h' : kv' ∈ m) (e : den kv.1 = den kv'.1) : kv = kv' := by
  apply inj_of_nodup_map (fun kv : Rep × List Rep => den kv.1) m _ kv h kv' h' e
  unfold keyDens at hk
  rw [denList_eq_map, List.map_map] at hk
  exact hk

theorem mem_denDict (m : List (Rep × List Rep)) (d : V) :
    d ∈ denDict m ↔ ∃ kv v, kv ∈ m ∧ v ∈ kv.2 ∧ d = vpair "@value" (den kv.1) (den v) := by
  rw [denDict_eq, List.mem_map]
  constructor
  · rintro ⟨e, he, rfl⟩
    obtain ⟨kv, hkv, h1, h2⟩ := (mem_entries m e).1 he
    exact ⟨kv, e.2, hkv, h2, by simp [entryDen, h1]⟩
  · rintro ⟨kv, v, hkv, hv, rfl⟩
    exact ⟨(kv.1, v), (mem_entries m _).2 ⟨kv, hkv, rfl, hv⟩, rfl⟩

/-- two canonical dictionaries denote the same set iff every key of the first has a partner with the
same value set, and they have the same number of keys -/
theorem dict_den_iff (m m' : List (Rep × List Rep)) (hw : wfDict m = true) (hw' : wfDict m' = true)
    (hk : (keyDens m).Nodup) (hk' : (keyDens m').Nodup) :
    mk (denDict m) = mk (denDict m') ↔
      (m.length = m'.length ∧ ∀ kv, kv ∈ m → ∃ kv', kv' ∈ m' ∧ den kv.1 = den kv'.1 ∧
        ∀ d, d ∈ denList kv.2 ↔ d ∈ denList kv'.2) := by
  rw [mk_eq_iff]
  constructor
  · intro h
    -- partner of a key of one side on the other side
    have partner : ∀ (a b : List (Rep × List Rep)), wfDict a = true → (keyDens b).Nodup →
        (∀ d, d ∈ denDict a → d ∈ denDict b) → (∀ d, d ∈ denDict b → d ∈ denDict a) → (keyDens a).Nodup →
        ∀ kv, kv ∈ a → ∃ kv', kv' ∈ b ∧ den kv.1 = den kv'.1 ∧ ∀ d, d ∈ denList kv.2 ↔ d ∈ denList kv'.2 := by
      intro a b wa kb hab hba ka kv hkv
      obtain ⟨_, hne, _, _⟩ := wfDict_mem a kv wa hkv
      cases hvs : kv.2 with
      | nil => exact absurd hvs hne
      | cons v0 r0 =>
        have hv0 : v0 ∈ kv.2 := by rw [hvs]; simp
        obtain ⟨kv', v', hkv', hv', e⟩ := (mem_denDict b _).1 (hab _ ((mem_denDict a _).2 ⟨kv, v0, hkv, hv0, rfl⟩))
        have ek := (vpair_inj e).1
        refine ⟨kv', hkv', ek, fun d => ?_⟩
        rw [← hvs]
        constructor
        · intro hd
          obtain ⟨x, hx, rfl⟩ := (mem_denList kv.2 d).1 hd
          obtain ⟨kv'', x'', hkv'', hx'', e'⟩ := (mem_denDict b _).1 (hab _ ((mem_denDict a _).2 ⟨kv, x, hkv, hx, rfl⟩))
          have := key_inj b kb kv'' kv' hkv'' hkv' (by rw [← (vpair_inj e').1, ek])
          subst this
          rw [(vpair_inj e').2]
          exact (mem_denList _ _).2 ⟨x'', hx'', rfl⟩
        · intro hd
          obtain ⟨x', hx', rfl⟩ := (mem_denList kv'.2 d).1 hd
          obtain ⟨kv2, x2, hkv2, hx2, e'⟩ := (mem_denDict a _).1 (hba _ ((mem_denDict b _).2 ⟨kv', x', hkv', hx', rfl⟩))
          have := key_inj a ka kv2 kv hkv2 hkv (by rw [← (vpair_inj e').1, ek])
          subst this
          rw [(vpair_inj e').2]
          exact (mem_denList _ _).2 ⟨x2, hx2, rfl⟩
    have p1 := partner m m' hw hk' (fun d hd => (h d).1 hd) (fun d hd => (h d).2 hd) hk
    have p2 := partner m' m hw' hk (fun d hd => (h d).2 hd) (fun d hd => (h d).1 hd) hk'
    refine ⟨?_, p1⟩
    have := length_eq_of_same_members (keyDens m) (keyDens m') hk hk' (fun d => by
      rw [mem_keyDens, mem_keyDens]
      constructor
      · rintro ⟨kv, hkv, rfl⟩
        obtain ⟨kv', hkv', e, _⟩ := p1 kv hkv
        exact ⟨kv', hkv', e.symm⟩
      · rintro ⟨kv, hkv, rfl⟩
        obtain ⟨kv', hkv', e, _⟩ := p2 kv hkv
        exact ⟨kv', hkv', e.symm⟩)
    simpa [keyDens, denList_length] using this
  · rintro ⟨hlen, hp⟩
    -- every key of m' is hit (pigeonhole on the key denotations)
    have hsub : ∀ d, d ∈ keyDens m → d ∈ keyDens m' := by
      intro d hd
      obtain ⟨kv, hkv, rfl⟩ := (mem_keyDens m d).1 hd
      obtain ⟨kv', hkv', e, _⟩ := hp kv hkv
      exact (mem_keyDens m' _).2 ⟨kv', hkv', e.symm⟩
    have hsup := subset_of_nodup_length (keyDens m) (keyDens m') hk hsub
      (by simp [keyDens, denList_length, hlen])
    intro d
    constructor
    · intro hd
      obtain ⟨kv, v, hkv, hv, rfl⟩ := (mem_denDict m d).1 hd
      obtain ⟨kv', hkv', e, hvals⟩ := hp kv hkv
      obtain ⟨v', hv', ev⟩ := (mem_denList kv'.2 _).1 ((hvals (den v)).1 ((mem_denList _ _).2 ⟨v, hv, rfl⟩))
      exact (mem_denDict m' _).2 ⟨kv', v', hkv', hv', by rw [e, ev]⟩
    · intro hd
      obtain ⟨kv', v', hkv', hv', rfl⟩ := (mem_denDict m' d).1 hd
      obtain ⟨kv, hkv, e⟩ := (mem_keyDens m _).1 (hsup _ ((mem_keyDens m' _).2 ⟨kv', hkv', rfl⟩))
      obtain ⟨kv'', hkv'', e', hvals⟩ := hp kv hkv
      have := key_inj m' hk' kv'' kv' hkv'' hkv' (by rw [← e', e])
      subst this
      obtain ⟨v, hv, ev⟩ := (mem_denList kv.2 _).1 ((hvals (den v')).2 ((mem_denList _ _).2 ⟨v', hv', rfl⟩))
      exact (mem_denDict m _).2 ⟨kv, v, hkv, hv, by rw [e, ev]⟩

theorem asEntry_genericMember (y : Rep) (h : genericMember y = true) : asEntry y = none := by
  cases y <;> simp [genericMember, isSet] at h <;> simp [asEntry]
  case gtuple as =>
    cases as with
    | nil => simp
    | cons p r => simp [genericMember, isSet] at h

/-- `Dict.Equal` against a canonical set of another representation is false -/
theorem asEntry_rowT (names : List String) (row : List Rep) (h : specialisable (names.zip row) = false) :
    asEntry (rowT names row) = none := by
  unfold rowT asEntry
  by_cases hl : (names.zip row).length = 2
  · simp only [hl, if_true]
    unfold specialisable at h
    simp only [hl, beq_self_eq_true, Bool.true_and] at h
    cases h1 : lookupAttr "@" (names.zip row) with
    | none => rfl
    | some i =>
      rw [h1] at h
      simp only [Bool.or_eq_false_iff] at h
      cases h2 : lookupAttr "@value" (names.zip row) with
      | none => rfl
      | some v => rw [h2] at h; simp at h
  · simp only [hl, ↓reduceIte]

/-- every canonical set other than a dictionary has a member that is no `@`/`@value` tuple -/
theorem nonentry_member (s : Rep) (k : String) (wb : wf s = true) (hk : bucketOfSet s = some k)
    (hnd : ∀ m, s ≠ .dict m) : ∃ e, e ∈ members1 s ∧ asEntry e = none := by
  cases s <;> simp [bucketOfSet] at hk
  case true_ => exact ⟨.gtuple [], by simp [members1], by simp [asEntry]⟩
  case dict m => exact absurd rfl (hnd m)
  case relation names rows =>
    simp only [wf, Bool.and_eq_true, Bool.not_eq_true', decide_eq_true_eq] at wb
    obtain ⟨⟨⟨_, hrn⟩, hwr⟩, _⟩ := wb
    cases rows with
    | nil => simp at hrn
    | cons r0 r =>
      obtain ⟨_, _, h3⟩ := wfRows_mem names (r0 :: r) r0 hwr (by simp)
      exact ⟨rowT names r0, by simp [members1, rowT], asEntry_rowT names r0 h3⟩
  case generic ys =>
    simp only [wf, Bool.and_eq_true, Bool.not_eq_true', decide_eq_true_eq] at wb
    obtain ⟨⟨⟨⟨hne, _⟩, hgm⟩, _⟩, _⟩ := wb
    cases ys with
    | nil => simp at hne
    | cons y r =>
      exact ⟨y, by simp [members1], asEntry_genericMember y (by simpa using (List.all_eq_true.1 hgm) y (by simp))⟩
  case str s off h =>
    simp only [wf, Bool.and_eq_true] at wb
    cases s with
    | nil => simp [headNonneg] at wb
    | cons c r =>
      have hc : 0 ≤ c := by have := wb.1.1.1; simpa [headNonneg] using this
      exact ⟨.charT (off + 0) c, by simp [members1, List.zipIdx_cons, hc], by simp [asEntry]⟩
  case bytes bs off =>
    simp only [wf, Bool.and_eq_true] at wb
    cases bs with
    | nil => simp at wb
    | cons c r => exact ⟨.byteT (off + 0) c, by simp [members1, List.zipIdx_cons], by simp [asEntry]⟩
  case array vs off c =>
    simp only [wf, Bool.and_eq_true] at wb
    cases vs with
    | nil => simp [headSome] at wb
    | cons o r =>
      cases o with
      | none => simp [headSome] at wb
      | some x => exact ⟨.itemT (off + 0) x, by simp [members1, List.zipIdx_cons], by simp [asEntry]⟩

theorem dict_equal_nondict (m : List (Rep × List Rep)) (b : Rep) (wb : wf b = true) (fb : frag b = true)
    (hb : ∀ m', b ≠ .dict m') : equal (.dict m) b = false := by
  cases b <;> simp [frag] at fb
  case num => simp [equal, equalG, isSet]
  case gtuple => simp [equal, equalG, isSet]
  case charT => simp [equal, equalG, isSet]
  case byteT => simp [equal, equalG, isSet]
  case itemT => simp [equal, equalG, isSet]
  case entryT => simp [equal, equalG, isSet]
  case empty => simp [equal, equalG, isSet, count]
  case true_ => simp [equal, equalG, isSet, count, members, members1, asEntry]
  case dict m' => exact absurd rfl (hb m')
  case relation names rows =>
    simp only [wf, Bool.and_eq_true, Bool.not_eq_true', decide_eq_true_eq] at wb
    obtain ⟨⟨⟨_, hrn⟩, hwr⟩, _⟩ := wb
    cases rows with
    | nil => simp at hrn
    | cons r0 r =>
      obtain ⟨_, _, h3⟩ := wfRows_mem names (r0 :: r) r0 hwr (by simp)
      have := asEntry_rowT names r0 h3
      simp only [rowT] at this
      simp [equal, equalG, members, members1, this]
  case generic ys =>
    simp only [wf, Bool.and_eq_true, Bool.not_eq_true', decide_eq_true_eq] at wb
    obtain ⟨⟨⟨⟨hne, _⟩, hgm⟩, _⟩, _⟩ := wb
    cases ys with
    | nil => simp at hne
    | cons y r =>
      have := asEntry_genericMember y (by simpa using (List.all_eq_true.1 hgm) y (by simp))
      simp [equal, equalG, members, members1, this]
  case str s off h =>
    simp only [wf, Bool.and_eq_true] at wb
    cases s with
    | nil => simp [headNonneg] at wb
    | cons c r =>
      have hc : 0 ≤ c := by have := wb.1.1.1; simpa [headNonneg] using this
      simp [equal, equalG, members, members1, List.zipIdx_cons, hc, asEntry]
  case bytes bs off =>
    simp only [wf, Bool.and_eq_true] at wb
    cases bs with
    | nil => simp at wb
    | cons c r => simp [equal, equalG, members, members1, List.zipIdx_cons, asEntry]
  case array vs off c =>
    simp only [wf, Bool.and_eq_true] at wb
    cases vs with
    | nil => simp [headSome] at wb
    | cons o r =>
      cases o with
      | none => simp [headSome] at wb
      | some x => simp [equal, equalG, members, members1, List.zipIdx_cons, asEntry]
  case union bs =>
    obtain ⟨p, q, _, _, hp, hq, hpq, _⟩ := union_two_members bs wb
    have hwb : wfBuckets bs = true := by simp only [wf, Bool.and_eq_true] at wb; exact wb.2
    obtain ⟨wp, kp⟩ := wfBuckets_mem bs p hwb hp
    obtain ⟨wq, kq⟩ := wfBuckets_mem bs q hwb hq
    have : ∃ t, t ∈ bs ∧ ∀ m', t.2 ≠ .dict m' := by
      by_cases h1 : ∃ m1, p.2 = .dict m1
      · by_cases h2 : ∃ m2, q.2 = .dict m2
        · obtain ⟨m1, e1⟩ := h1
          obtain ⟨m2, e2⟩ := h2
          rw [e1] at kp; rw [e2] at kq
          simp [bucketOfSet] at kp kq
          exact absurd (kp.symm.trans kq) hpq
        · exact ⟨q, hq, fun m' e => h2 ⟨m', e⟩⟩
      · exact ⟨p, hp, fun m' e => h1 ⟨m', e⟩⟩
    obtain ⟨t, ht, htd⟩ := this
    obtain ⟨wt, kt⟩ := wfBuckets_mem bs t hwb ht
    obtain ⟨e, he, hne⟩ := nonentry_member t.2 t.1 wt kt htd
    simp only [equal, equalG]
    rw [Bool.and_eq_false_iff]
    right
    rw [List.all_eq_false]
    exact ⟨e, by simp only [members, List.mem_flatMap]; exact ⟨t, ht, he⟩, by simp [hne]⟩

/-! ### relations -/

theorem fragRows_mem : ∀ (rows : List (List Rep)) (row : List Rep), fragRows rows = true → row ∈ rows →
    fragPlainList row = true
  | [], _, _, h => by simp at h
  | r0 :: r, row, hf, h => by
    simp only [fragRows, Bool.and_eq_true] at hf
    simp only [List.mem_cons] at h
    rcases h with h | h
    · subst h; exact hf.1
    · exact fragRows_mem r row hf.2 h

theorem fragAttrs_zip : ∀ (names : List String) (row : List Rep), fragPlainList row = true →
    fragAttrs (names.zip row) = true
  | [], _, _ => by simp [fragAttrs]
  | _ :: _, [], _ => by simp [fragAttrs]
  | n :: ns, x :: xs, h => by
    simp only [fragPlainList, Bool.and_eq_true] at h
    simp [fragAttrs, h.1.1, h.1.2, fragAttrs_zip ns xs h.2]

theorem depthAttrs_zip : ∀ (names : List String) (row : List Rep), depthAttrs (names.zip row) ≤ depthList row
  | [], _ => by simp [depthAttrs]
  | _ :: _, [] => by simp [depthAttrs]
  | n :: ns, x :: xs => by
    have := depthAttrs_zip ns xs
    simp [depthAttrs, depthList]; omega

theorem depth_mem_rows : ∀ (rows : List (List Rep)) (row : List Rep), row ∈ rows → depthList row ≤ depthRows rows
  | [], _, h => by simp at h
  | r0 :: r, row, h => by
    simp only [List.mem_cons] at h
    rcases h with h | h
    · subst h; simp [depthRows]
    · have := depth_mem_rows r row h
      simp [depthRows]; omega

theorem depth_rowT (names : List String) (row : List Rep) : depth (rowT names row) ≤ depthList row + 1 := by
  have := depthAttrs_zip names row
  unfold rowT
  cases h : names.zip row with
  | nil => simp [depth]
  | cons p r => rw [h] at this; simp only [depth]; omega

theorem xorRow_eq : ∀ (names : List String) (row : List Rep) (s : HV),
    xorRow true names row s = xorAttrs true (names.zip row) s
  | [], _, _ => by simp [xorRow, xorAttrs]
  | _ :: _, [], _ => by simp [xorRow, xorAttrs]
  | n :: ns, x :: xs, s => by simp [xorRow, xorAttrs, xorRow_eq ns xs s]

theorem xorRows_eq_pairs : ∀ (names : List String) (rows : List (List Rep)) (s : HV),
    xorRows true names rows s = xorPairs (rows.map (fun row => (rowT names row, s)))
  | _, [], _ => rfl
  | names, row :: r, s => by
    simp only [xorRows, List.map_cons, xorPairs, xorRows_eq_pairs names r s, xorRow_eq]
    simp [rowT, hashG]

/-- everything the main induction needs to know about a canonical fragment relation -/
theorem relation_facts (n : Nat) (names : List String) (rows : List (List Rep))
    (hd : depth (.relation names rows) < n + 1) (hw : wf (.relation names rows) = true)
    (hf : frag (.relation names rows) = true) :
    names ≠ [] ∧ names.Nodup ∧ rows ≠ [] ∧ wfRows names rows = true ∧ (denRows names rows).Nodup ∧
    fragRows rows = true ∧
    (∀ row, row ∈ rows → depth (rowT names row) < n ∧ wf (rowT names row) = true ∧
      frag (rowT names row) = true ∧ row.length = names.length ∧ fragPlainList row = true ∧ wfList row = true ∧
      ∀ x, x ∈ row → depth x + 1 < n) := by
  simp only [wf, Bool.and_eq_true, Bool.not_eq_true', decide_eq_true_eq] at hw
  obtain ⟨⟨⟨⟨hnn, hnd⟩, hrn⟩, hwr⟩, hdn⟩ := hw
  have hfr : fragRows rows = true := by simpa [frag] using hf
  refine ⟨by intro e; subst e; simp at hnn, hnd, by intro e; subst e; simp at hrn, hwr, hdn, hfr, ?_⟩
  intro row hrow
  obtain ⟨h1, h2, _⟩ := wfRows_mem names rows row hwr hrow
  have d1 := depth_mem_rows rows row hrow
  have d2 := depth_rowT names row
  simp only [depth] at hd
  refine ⟨by omega, wf_rowT names rows row hnd hwr hrow, ?_, h1, fragRows_mem rows row hfr hrow, h2, ?_⟩
  · simpa [rowT, frag] using fragAttrs_zip names row (fragRows_mem rows row hfr hrow)
  · intro x hx
    have := depth_mem_list row x hx
    omega

def rowTs (names : List String) (rows : List (List Rep)) : List Rep := rows.map (rowT names)

theorem denRows_rowTs (names : List String) (rows : List (List Rep)) :
    denRows names rows = (rowTs names rows).map den := by
  rw [denRows_eq]; simp [rowTs, List.map_map, Function.comp_def]

theorem xorRows_eq_mk (names : List String) (rows : List (List Rep)) (s : HV)
    (hf : ∀ row, row ∈ rows → frag (rowT names row) = true)
    (hn : ((rowTs names rows).map (fun t => atomAt t s)).Nodup) :
    xorRows true names rows s = mk ((rowTs names rows).map (fun t => atomAt t s)) := by
  rw [xorRows_eq_pairs, xorPairs_eq_mk]
  · simp [rowTs, List.map_map, Function.comp_def]
  · intro p hp
    obtain ⟨row, hrow, e⟩ := List.mem_map.1 hp
    subst e
    exact ⟨hf row hrow, rfl⟩
  · simpa [rowTs, List.map_map, Function.comp_def] using hn

/-- a generic core for lists of plain fragment values hashed under one seed -/
theorem seeded_core (xs ys : List Rep) (s : HV)
    (hfx : ∀ x, x ∈ xs → frag x = true ∧ plain x = true) (hfy : ∀ x, x ∈ ys → frag x = true ∧ plain x = true)
    (H : ∀ x, x ∈ xs ++ ys → ∀ y, y ∈ xs ++ ys → (hashG true x s = hashG true y s ↔ den x = den y)) :
    (mk (xs.map (fun t => atomAt t s)) = mk (ys.map (fun t => atomAt t s)) ↔ mk (xs.map den) = mk (ys.map den)) := by
  rw [mk_eq_iff, mk_eq_iff]
  apply map_mem_transfer
  intro x hx y hy
  have := H x (by simp [hx]) y (by simp [hy])
  rw [hash_singleton x (hfx x hx).1 (hfx x hx).2, hash_singleton y (hfy y hy).1 (hfy y hy).2] at this
  simpa using this

theorem seeded_nodup (xs : List Rep) (s : HV) (hfx : ∀ x, x ∈ xs → frag x = true ∧ plain x = true)
    (hn : (xs.map den).Nodup)
    (H : ∀ x, x ∈ xs → ∀ y, y ∈ xs → (hashG true x s = hashG true y s ↔ den x = den y)) :
    (xs.map (fun t => atomAt t s)).Nodup := by
  apply nodup_map_of (fun t => atomAt t s) den xs _ hn
  intro x hx y hy e
  have := H x hx y hy
  rw [hash_singleton x (hfx x hx).1 (hfx x hx).2, hash_singleton y (hfx y hy).1 (hfx y hy).2] at this
  exact this.1 (by rw [e])

/-! #### `Relation.EqualRelation`: rows hashed as `Values` in sorted-name order -/

def getDen (names : List String) (row : List Rep) (n : String) : Option V := (rowGet names row n).map den

theorem rowGet_mem (names : List String) (row : List Rep) (n : String) (v : Rep) (h : rowGet names row n = some v) :
    v ∈ row := by
  have := lookupAttr_mem _ _ _ h
  exact (List.of_mem_zip this).2

theorem rowGet_isSome (names : List String) (row : List Rep) (hl : row.length = names.length) (n : String) :
    (rowGet names row n).isSome = true ↔ n ∈ names := by
  unfold rowGet
  cases h : lookupAttr n (names.zip row) with
  | none =>
    have := (lookupAttr_none_iff _ _).1 h
    rw [namesOf_zip names row hl] at this
    simp [this]
  | some v =>
    have := lookupAttr_mem _ _ _ h
    simp [(List.of_mem_zip this).1]

/-- the row denotes the map name ↦ denotation of the cell -/
theorem den_rowT_eq_iff (ns ns' : List String) (row row' : List Rep) :
    den (rowT ns row) = den (rowT ns' row') ↔ ∀ k, getDen ns row k = getDen ns' row' k := by
  simp only [rowT, den, mkTup_eq_iff, lookupV_denAttrs, getDen, rowGet]

def chainStep (names : List String) (row : List Rep) (h : HV) (n : String) : HV :=
  match rowGet names row n with
  | some v => hashG true v h
  | none => h

theorem rowChain_eq (names S : List String) (row : List Rep) :
    rowChain true names S row = S.foldl (chainStep names row) [] := rfl

/-- cells of two rows: plain fragment values whose hash is injective under every seed -/
def CellIH (row row' : List Rep) : Prop :=
  (∀ v, v ∈ row ++ row' → frag v = true ∧ plain v = true) ∧
  ∀ v, v ∈ row ++ row' → ∀ v', v' ∈ row ++ row' → ∀ S S' : HV,
    (hashG true v S = hashG true v' S' ↔ (S = S' ∧ den v = den v'))

theorem chain_inj (ns ns' : List String) (row row' : List Rep) (H : CellIH row row') :
    ∀ (S : List String) (h h' : HV),
      (∀ n, n ∈ S → (rowGet ns row n).isSome = true ∧ (rowGet ns' row' n).isSome = true) →
      (S.foldl (chainStep ns row) h = S.foldl (chainStep ns' row') h' ↔
        (h = h' ∧ ∀ n, n ∈ S → getDen ns row n = getDen ns' row' n))
  | [], h, h', _ => by simp
  | n :: S, h, h', hs => by
    obtain ⟨g1, g2⟩ := hs n (by simp)
    cases e1 : rowGet ns row n with
    | none => rw [e1] at g1; cases g1
    | some v =>
      cases e2 : rowGet ns' row' n with
      | none => rw [e2] at g2; cases g2
      | some v' =>
        have hv : v ∈ row ++ row' := List.mem_append.2 (Or.inl (rowGet_mem _ _ _ _ e1))
        have hv' : v' ∈ row ++ row' := List.mem_append.2 (Or.inr (rowGet_mem _ _ _ _ e2))
        simp only [List.foldl_cons]
        rw [chain_inj ns ns' row row' H S _ _ (fun m hm => hs m (List.mem_cons_of_mem _ hm))]
        simp only [chainStep, e1, e2, H.2 v hv v' hv' h h', List.mem_cons, forall_eq_or_imp, getDen,
          Option.map_some, Option.some.injEq]
        constructor
        · rintro ⟨⟨a, b⟩, c⟩; exact ⟨a, b, c⟩
        · rintro ⟨a, b, c⟩; exact ⟨⟨a, b⟩, c⟩

theorem chain_singleton (ns : List String) (row : List Rep)
    (hf : ∀ v, v ∈ row → frag v = true ∧ plain v = true) :
    ∀ (S : List String) (h : HV), S ≠ [] → (∀ n, n ∈ S → (rowGet ns row n).isSome = true) →
      ∃ A, S.foldl (chainStep ns row) h = [A]
  | [], _, hne, _ => absurd rfl hne
  | [n], h, _, hs => by
    cases e1 : rowGet ns row n with
    | none => have := hs n (by simp); rw [e1] at this; cases this
    | some v =>
      have hv := hf v (rowGet_mem _ _ _ _ e1)
      exact ⟨atomAt v h, by simp [chainStep, e1, hash_singleton v hv.1 hv.2]⟩
  | n :: m :: S, h, _, hs => by
    simp only [List.foldl_cons]
    exact chain_singleton ns row hf (m :: S) _ (by simp) (fun k hk => hs k (List.mem_cons_of_mem _ hk))

theorem foldr_hxor_singletons {α} (c : α → V) : ∀ (l : List α) (f : α → HV), (∀ x, x ∈ l → f x = [c x]) →
    (l.map c).Nodup → l.foldr (fun x acc => hxor (f x) acc) [] = mk (l.map c)
  | [], _, _, _ => rfl
  | x :: r, f, hf, hn => by
    simp only [List.map_cons, List.nodup_cons] at hn
    simp only [List.foldr_cons, List.map_cons]
    rw [foldr_hxor_singletons c r f (fun y hy => hf y (List.mem_cons_of_mem _ hy)) hn.2, hf x (by simp)]
    have hx : c x ∉ mk (r.map c) := fun h => hn.1 ((mem_mk _ _).1 h)
    rw [hxor, symdiff_singleton _ _ (sorted_mk _) hx]
    rfl

/-- a relation body as (heading, row) pairs, its `Values` hash atom and its row denotation -/
def relPairs (ns : List String) (rows : List (List Rep)) : List (List String × List Rep) := rows.map (fun r => (ns, r))
def chainAtom (p : List String × List Rep) : V := (rowChain true p.1 (sortNames p.1) p.2).headD (.num 0)
def rowDen (p : List String × List Rep) : V := den (rowT p.1 p.2)

/-- what is known about the rows of a canonical fragment relation -/
structure RelOk (ns : List String) (rows : List (List Rep)) : Prop where
  nne : ns ≠ []
  nnd : ns.Nodup
  rne : rows ≠ []
  len : ∀ row, row ∈ rows → row.length = ns.length
  cells : ∀ row, row ∈ rows → ∀ v, v ∈ row → frag v = true ∧ plain v = true
  dnd : (denRows ns rows).Nodup

theorem sortNames_mem (ns : List String) (x : String) : x ∈ sortNames ns ↔ x ∈ ns := mem_sortStrs ns x

theorem chain_is_singleton (ns : List String) (rows : List (List Rep)) (ok : RelOk ns rows) (row : List Rep)
    (hr : row ∈ rows) : rowChain true ns (sortNames ns) row = [chainAtom (ns, row)] := by
  have hne : sortNames ns ≠ [] := by
    intro e
    cases hns : ns with
    | nil => exact ok.nne hns
    | cons n r =>
      have : n ∈ sortNames ns := (sortNames_mem ns n).2 (by rw [hns]; simp)
      rw [e] at this; simp at this
  obtain ⟨A, hA⟩ := chain_singleton ns row (ok.cells row hr) (sortNames ns) [] hne
    (fun n hn => (rowGet_isSome ns row (ok.len row hr) n).2 ((sortNames_mem ns n).1 hn))
  rw [rowChain_eq] at *
  simp [chainAtom, rowChain_eq, hA]

/-- for rows of relations with the same set of column names: same `Values` hash iff same row denotation -/
theorem chainAtom_iff (ns ns' : List String) (rows rows' : List (List Rep)) (ok : RelOk ns rows) (ok' : RelOk ns' rows')
    (hnames : ∀ x, x ∈ ns ↔ x ∈ ns') (row row' : List Rep) (hr : row ∈ rows) (hr' : row' ∈ rows')
    (H : CellIH row row') : chainAtom (ns, row) = chainAtom (ns', row') ↔ rowDen (ns, row) = rowDen (ns', row') := by
  have hS : sortNames ns = sortNames ns' := (sortStrs_eq_iff ns ns' ok.nnd ok'.nnd).2 hnames
  have c1 := chain_is_singleton ns rows ok row hr
  have c2 := chain_is_singleton ns' rows' ok' row' hr'
  have hci := chain_inj ns ns' row row' H (sortNames ns) [] [] (fun n hn =>
    ⟨(rowGet_isSome ns row (ok.len row hr) n).2 ((sortNames_mem ns n).1 hn),
     (rowGet_isSome ns' row' (ok'.len row' hr') n).2 ((hnames n).1 ((sortNames_mem ns n).1 hn))⟩)
  have h1 : chainAtom (ns, row) = chainAtom (ns', row') ↔
      rowChain true ns (sortNames ns) row = rowChain true ns' (sortNames ns') row' := by
    rw [c1, c2]; simp
  rw [h1, rowChain_eq, rowChain_eq, ← hS, hci]
  simp only [rowDen, den_rowT_eq_iff, true_and]
  constructor
  · intro h k
    by_cases hk : k ∈ ns
    · exact h k ((sortNames_mem ns k).2 hk)
    · have e1 : getDen ns row k = none := by
        have : ¬ (rowGet ns row k).isSome = true := fun e => hk ((rowGet_isSome ns row (ok.len row hr) k).1 e)
        cases hh : rowGet ns row k with
        | none => simp [getDen, hh]
        | some _ => rw [hh] at this; simp at this
      have e2 : getDen ns' row' k = none := by
        have : ¬ (rowGet ns' row' k).isSome = true := fun e =>
          hk ((hnames k).2 ((rowGet_isSome ns' row' (ok'.len row' hr') k).1 e))
        cases hh : rowGet ns' row' k with
        | none => simp [getDen, hh]
        | some _ => rw [hh] at this; simp at this
      rw [e1, e2]
  · intro h k _; exact h k

theorem rowsXor_eq_mk (ns : List String) (rows : List (List Rep)) (ok : RelOk ns rows)
    (hn : ((relPairs ns rows).map chainAtom).Nodup) :
    rowsXor true ns rows = mk ((relPairs ns rows).map chainAtom) := by
  unfold rowsXor
  have := foldr_hxor_singletons (fun row => chainAtom (ns, row)) rows
    (fun row => rowChain true ns (sortNames ns) row) (fun row hr => chain_is_singleton ns rows ok row hr)
    (by simpa [relPairs, List.map_map, Function.comp_def] using hn)
  simpa [relPairs, List.map_map, Function.comp_def] using this

theorem denRows_relPairs (ns : List String) (rows : List (List Rep)) :
    denRows ns rows = (relPairs ns rows).map rowDen := by
  rw [denRows_eq]; simp [relPairs, rowDen, List.map_map, Function.comp_def]

/-- names of a row's denotation: two rows with the same denotation have the same column names -/
theorem names_of_rowDen (ns ns' : List String) (row row' : List Rep) (hl : row.length = ns.length)
    (hl' : row'.length = ns'.length) (h : rowDen (ns, row) = rowDen (ns', row')) : ∀ x, x ∈ ns ↔ x ∈ ns' := by
  intro x
  have := (den_rowT_eq_iff ns ns' row row').1 h x
  rw [← rowGet_isSome ns row hl x, ← rowGet_isSome ns' row' hl' x]
  simp only [getDen] at this
  cases h1 : rowGet ns row x <;> cases h2 : rowGet ns' row' x <;> simp [h1, h2] at this ⊢

/-- `Relation.Equal` on canonical fragment relations is equality of denotations -/
theorem relation_equal_iff (ns ns' : List String) (rows rows' : List (List Rep)) (ok : RelOk ns rows)
    (ok' : RelOk ns' rows')
    (H : ∀ r1, r1 ∈ rows ++ rows' → ∀ r2, r2 ∈ rows ++ rows' → CellIH r1 r2) :
    equal (.relation ns rows) (.relation ns' rows') = true ↔ mk (denRows ns rows) = mk (denRows ns' rows') := by
  -- within one relation: atoms are distinct
  have nd1 : ((relPairs ns rows).map chainAtom).Nodup := by
    apply nodup_map_of chainAtom rowDen
    · intro p hp q hq e
      obtain ⟨r1, h1, rfl⟩ := List.mem_map.1 hp
      obtain ⟨r2, h2, rfl⟩ := List.mem_map.1 hq
      exact (chainAtom_iff ns ns rows rows ok ok (fun _ => Iff.rfl) r1 r2 h1 h2
        (H r1 (by simp [h1]) r2 (by simp [h2]))).1 e
    · rw [← denRows_relPairs]; exact ok.dnd
  have nd2 : ((relPairs ns' rows').map chainAtom).Nodup := by
    apply nodup_map_of chainAtom rowDen
    · intro p hp q hq e
      obtain ⟨r1, h1, rfl⟩ := List.mem_map.1 hp
      obtain ⟨r2, h2, rfl⟩ := List.mem_map.1 hq
      exact (chainAtom_iff ns' ns' rows' rows' ok' ok' (fun _ => Iff.rfl) r1 r2 h1 h2
        (H r1 (by simp [h1]) r2 (by simp [h2]))).1 e
    · rw [← denRows_relPairs]; exact ok'.dnd
  have hX := rowsXor_eq_mk ns rows ok nd1
  have hX' := rowsXor_eq_mk ns' rows' ok' nd2
  have hXne : (rowsXor true ns rows).isEmpty = false := by
    rw [hX]
    cases hh : mk ((relPairs ns rows).map chainAtom) with
    | nil =>
      have := (mk_eq_nil _).1 hh
      simp [relPairs] at this
      exact absurd this ok.rne
    | cons _ _ => rfl
  -- with the same column names the transfer between atoms and row denotations works
  have transfer : (∀ x, x ∈ ns ↔ x ∈ ns') →
      (mk ((relPairs ns rows).map chainAtom) = mk ((relPairs ns' rows').map chainAtom) ↔
        mk ((relPairs ns rows).map rowDen) = mk ((relPairs ns' rows').map rowDen)) := by
    intro hnames
    rw [mk_eq_iff, mk_eq_iff]
    apply map_mem_transfer
    intro p hp q hq
    obtain ⟨r1, h1, rfl⟩ := List.mem_map.1 hp
    obtain ⟨r2, h2, rfl⟩ := List.mem_map.1 hq
    exact chainAtom_iff ns ns' rows rows' ok ok' hnames r1 r2 h1 h2 (H r1 (by simp [h1]) r2 (by simp [h2]))
  simp only [equal, equalG, Bool.and_eq_true, beq_iff_eq, frozenEq, hXne, Bool.not_false, Bool.true_or,
    and_true]
  rw [denRows_relPairs, denRows_relPairs]
  constructor
  · rintro ⟨⟨⟨_, hs⟩, _⟩, hx⟩
    have hnames := (sortStrs_eq_iff ns ns' ok.nnd ok'.nnd).1 hs
    rw [hX, hX'] at hx
    exact (transfer hnames).1 hx
  · intro hd
    have hmem := (mk_eq_iff _ _).1 hd
    -- a row of the first relation and its partner give the column names
    obtain ⟨r0, hr0⟩ : ∃ r0, r0 ∈ rows := by
      cases hh : rows with
      | nil => exact absurd hh ok.rne
      | cons r _ => exact ⟨r, by simp⟩
    obtain ⟨q, hq, e⟩ := List.mem_map.1 ((hmem (rowDen (ns, r0))).1
      (List.mem_map.2 ⟨(ns, r0), List.mem_map.2 ⟨r0, hr0, rfl⟩, rfl⟩))
    obtain ⟨r0', hr0', rfl⟩ := List.mem_map.1 hq
    have hnames := names_of_rowDen ns ns' r0 r0' (ok.len r0 hr0) (ok'.len r0' hr0') e.symm
    have hs : sortNames ns = sortNames ns' := (sortStrs_eq_iff ns ns' ok.nnd ok'.nnd).2 hnames
    have hl : ns.length = ns'.length :=
      length_eq_of_same_members ns ns' ok.nnd ok'.nnd hnames
    have hrl : rows.length = rows'.length := by
      have := length_eq_of_same_members _ _ (by rw [← denRows_relPairs]; exact ok.dnd)
        (by rw [← denRows_relPairs]; exact ok'.dnd) hmem
      simpa [relPairs] using this
    refine ⟨⟨⟨hl, hs⟩, hrl⟩, ?_⟩
    rw [hX, hX']
    exact (transfer hnames).2 hd

/-! ### the main theorem on the fragment -/

/-- the statement proved by induction on a bound of the nesting depth -/
def MainAt (a b : Rep) : Prop :=
  (equal a b = true ↔ den a = den b) ∧
  (plain a = true → plain b = true →
    ∀ s s' : HV, hashG true a s = hashG true b s' ↔ (s = s' ∧ den a = den b))

theorem cross_lemma (a b : Rep) (hne : ctorTag a ≠ ctorTag b)
    (htag : den a = den b → ctorTag a = ctorTag b) (heq : equal a b = false)
    (hh : plain a = true → plain b = true → ∀ s s', hashG true a s ≠ hashG true b s') : MainAt a b :=
  ⟨⟨fun h => (by rw [heq] at h; cases h), fun h => absurd (htag h) hne⟩,
   fun pa pb s s' => ⟨fun h => absurd h (hh pa pb s s'), fun h => absurd (htag h.2) hne⟩⟩

theorem genericMember_plain (x : Rep) (h : genericMember x = true) : plain x = true := by
  cases x <;> simp [genericMember, isSet] at h <;> simp [plain]

theorem generic_facts (n : Nat) (zs : List Rep) (hd : depth (.generic zs) < n + 1)
    (hw : wf (.generic zs) = true) (hf : frag (.generic zs) = true) :
    fragList zs = true ∧ (denList zs).Nodup ∧ zs ≠ [] ∧ denList zs ≠ [V.tup []] ∧ wfList zs = true ∧
    (∀ x, x ∈ zs → depth x < n) ∧ (∀ x, x ∈ zs → plain x = true) := by
  simp only [wf, Bool.and_eq_true, Bool.not_eq_true', decide_eq_true_eq] at hw
  obtain ⟨⟨⟨⟨hne, hwl⟩, hgm⟩, hnd⟩, hnt⟩ := hw
  refine ⟨by simpa [frag] using hf, hnd, ?_, ?_, hwl, ?_, ?_⟩
  · intro e; subst e; simp at hne
  · intro e; rw [e] at hnt; simp at hnt
  · intro x hx
    have := depth_mem_list zs x hx
    simp only [depth] at hd
    omega
  · intro x hx
    exact genericMember_plain x (List.all_eq_true.1 hgm x hx)

theorem array_facts (n : Nat) (vs : List (Option Rep)) (off c : Int) (hd : depth (.array vs off c) < n + 1)
    (hw : wf (.array vs off c) = true) (hf : frag (.array vs off c) = true) :
    fragOpts vs = true ∧ headSome vs = true ∧ lastSome vs = true ∧ wfOpts vs = true ∧ c = (optCount vs : Int) ∧
    (∀ x, some x ∈ vs → depth x < n) := by
  simp only [wf, Bool.and_eq_true, beq_iff_eq] at hw
  obtain ⟨⟨⟨hh, hl⟩, hwo⟩, hc⟩ := hw
  refine ⟨by simpa [frag] using hf, hh, hl, hwo, hc, ?_⟩
  intro x hx
  have := depth_mem_opts vs x hx
  simp only [depth] at hd
  omega

macro "cross" htag:ident fb:ident : tactic => `(tactic| first
  | (simp [frag] at $fb:ident; done)
  | exact cross_lemma _ _ (by simp [ctorTag]) $htag (by simp [equal, equalG, isTuple, equalAttrsIn, tupleNames])
      (by first
        | (intro hp; simp [plain] at hp; done)
        | (intro _ hq; simp [plain] at hq; done)
        | (intro _ _ s s'; simp [hashG, hfin, tfin, hatom])))

theorem gtuple_facts (n : Nat) (as : List (String × Rep)) (hd : depth (.gtuple as) < n + 1)
    (hw : wf (.gtuple as) = true) (hf : frag (.gtuple as) = true) :
    (namesOf as).Nodup ∧ wfAttrs as = true ∧ fragAttrs as = true ∧ (∀ p, p ∈ as → depth p.2 < n) := by
  simp only [wf, Bool.and_eq_true, decide_eq_true_eq] at hw
  refine ⟨hw.1.1, hw.1.2, by simpa [frag] using hf, ?_⟩
  intro p hp
  have := depth_gtuple as p hp
  omega

theorem gtuple_payload_mem (as : List (String × Rep)) (s : HV) (hnd : (namesOf as).Nodup)
    (hf : fragAttrs as = true) : mapC s ∈ hxor (hatom "mapC" (.set []) s) (xorAttrs true as s) := by
  rw [gtuple_payload as s hnd hf, mem_mk]; simp

/-- the attributes of a canonical fragment tuple are canonical fragment values of smaller depth -/
theorem attrsOf_facts (n : Nat) (b : Rep) (hb : isTuple b = true) (hd : depth b < n + 1) (hn : 0 < n)
    (hw : wf b = true) (hf : frag b = true) :
    (namesOf (attrsOf b)).Nodup ∧ ∀ q, q ∈ attrsOf b → depth q.2 < n ∧ wf q.2 = true ∧ frag q.2 = true := by
  cases b <;> simp [isTuple] at hb
  case gtuple bs =>
    obtain ⟨nb, wb, fb, db⟩ := gtuple_facts n bs hd hw hf
    exact ⟨nb, fun q hq => ⟨db q hq, wfAttrs_mem bs q wb hq, (fragAttrs_mem bs q fb hq).2⟩⟩
  case charT i c =>
    refine ⟨by simp [attrsOf, namesOf], ?_⟩
    intro q hq
    simp [attrsOf] at hq
    rcases hq with rfl | rfl <;> simp [depth, wf, frag, hn]
  case byteT i c =>
    refine ⟨by simp [attrsOf, namesOf], ?_⟩
    intro q hq
    simp [attrsOf] at hq
    rcases hq with rfl | rfl <;> simp [depth, wf, frag, hn]
  case itemT i x =>
    refine ⟨by simp [attrsOf, namesOf], ?_⟩
    intro q hq
    simp [attrsOf] at hq
    simp only [frag, Bool.and_eq_true] at hf
    simp only [depth] at hd
    rcases hq with rfl | rfl
    · simp [depth, wf, frag, hn]
    · exact ⟨by simp; omega, by simpa [wf] using hw, hf.2⟩
  case entryT k v =>
    refine ⟨by simp [attrsOf, namesOf], ?_⟩
    intro q hq
    simp [attrsOf] at hq
    simp only [frag, Bool.and_eq_true] at hf
    simp only [wf, Bool.and_eq_true] at hw
    simp only [depth] at hd
    rcases hq with rfl | rfl
    · exact ⟨by simp; omega, hw.1, hf.1.2⟩
    · exact ⟨by simp; omega, hw.2, hf.2⟩

theorem atomAt_ne_int (y : Rep) (hf : frag y = true) (hp : plain y = true) (s : HV) (p q : V) :
    atomAt y s ≠ .tup [("int", p), ("seed", q)] := by
  cases y <;> simp [frag, plain] at hf hp <;> simp [atomAt, hashG, hfin, tfin, hatom]

theorem dict_facts (n : Nat) (m : List (Rep × List Rep)) (hd : depth (.dict m) < n + 1)
    (hw : wf (.dict m) = true) (hf : frag (.dict m) = true) :
    m ≠ [] ∧ wfDict m = true ∧ (keyDens m).Nodup ∧ fragDict m = true ∧ entries m ≠ [] ∧
    ∀ e, e ∈ entries m → (depth e.1 < n ∧ wf e.1 = true ∧ frag e.1 = true ∧ plain e.1 = true) ∧
      (depth e.2 < n ∧ wf e.2 = true ∧ frag e.2 = true ∧ plain e.2 = true) := by
  simp only [wf, Bool.and_eq_true, Bool.not_eq_true', decide_eq_true_eq] at hw
  obtain ⟨⟨hne, hwd⟩, hk⟩ := hw
  have hm : m ≠ [] := by intro e; subst e; simp at hne
  have hfd : fragDict m = true := by simpa [frag] using hf
  refine ⟨hm, hwd, hk, hfd, entries_ne_nil m hm (fun kv hkv => (wfDict_mem m kv hwd hkv).2.1), ?_⟩
  intro e he
  obtain ⟨kv, hkv, h1, h2⟩ := (mem_entries m e).1 he
  obtain ⟨wk, _, wvs, _⟩ := wfDict_mem m kv hwd hkv
  obtain ⟨dk, dv⟩ := depth_mem_dict m kv hkv
  obtain ⟨⟨pk, fk⟩, ⟨pv, fv⟩⟩ := entry_frag m hfd e he
  simp only [depth] at hd
  refine ⟨⟨by rw [h1]; omega, by rw [h1]; exact wk, fk, pk⟩,
    ⟨by have := dv e.2 h2; omega, wfList_mem kv.2 e.2 wvs h2, fv, pv⟩⟩

theorem seed_acyclic (t : String) (p : V) (s : HV) : hatom t p s ≠ s := by
  intro h
  have := congrArg sizeOf h
  simp [hatom] at this
  omega

theorem single_acyclic (t : String) (p : V) (s : HV) : [V.tup [(t, p), ("seed", V.set s)]] ≠ s :=
  seed_acyclic t p s

theorem relOk_of_facts (n : Nat) (names : List String) (rows : List (List Rep))
    (hd : depth (.relation names rows) < n + 1) (hw : wf (.relation names rows) = true)
    (hf : frag (.relation names rows) = true) : RelOk names rows := by
  obtain ⟨h1, h2, h3, _, h5, _, F⟩ := relation_facts n names rows hd hw hf
  exact ⟨h1, h2, h3, fun row hr => (F row hr).2.2.2.1,
    fun row hr v hv => ⟨(fragPlainList_mem row v (F row hr).2.2.2.2.1 hv).2, (fragPlainList_mem row v (F row hr).2.2.2.2.1 hv).1⟩, h5⟩

/-! ### the induction hypothesis of the main theorem, as standalone consequences -/

/-- the main statement for all pairs of canonical fragment representations below a depth bound -/
def IHn (n : Nat) : Prop :=
  ∀ a b : Rep, depth a < n → depth b < n → wf a = true → wf b = true → frag a = true → frag b = true → MainAt a b

def HashIH (n : Nat) : Prop :=
  ∀ x y, depth x < n → depth y < n → wf x = true → wf y = true → frag x = true → frag y = true →
    plain x = true → plain y = true →
    ∀ S S' : HV, (hashG true x S = hashG true y S' ↔ (S = S' ∧ den x = den y))

theorem ihH_of (n : Nat) (ih : IHn n) : HashIH n :=
  fun x y dx dy wx wy fx fy px py => (ih x y dx dy wx wy fx fy).2 px py

theorem memH_of (n : Nat) (ih : IHn n) : ∀ (xs ys : List Rep), (∀ x, x ∈ xs → depth x < n) → (∀ x, x ∈ ys → depth x < n) →
    wfList xs = true → wfList ys = true → fragList xs = true → fragList ys = true →
    (∀ x, x ∈ xs → plain x = true) → (∀ x, x ∈ ys → plain x = true) →
    ∀ x, x ∈ xs ++ ys → ∀ y, y ∈ xs ++ ys → (hashG true x [] = hashG true y [] ↔ den x = den y) := by
  have ihH := ihH_of n ih
  intro xs ys dx dy wx wy fx fy ppx ppy x hx y hy
  have px : depth x < n ∧ wf x = true ∧ frag x = true ∧ plain x = true := by
    rcases List.mem_append.1 hx with h | h
    · exact ⟨dx x h, wfList_mem xs x wx h, fragList_mem xs x fx h, ppx x h⟩
    · exact ⟨dy x h, wfList_mem ys x wy h, fragList_mem ys x fy h, ppy x h⟩
  have py : depth y < n ∧ wf y = true ∧ frag y = true ∧ plain y = true := by
    rcases List.mem_append.1 hy with h | h
    · exact ⟨dx y h, wfList_mem xs y wx h, fragList_mem xs y fx h, ppx y h⟩
    · exact ⟨dy y h, wfList_mem ys y wy h, fragList_mem ys y fy h, ppy y h⟩
  have := ihH x y px.1 py.1 px.2.1 py.2.1 px.2.2.1 py.2.2.1 px.2.2.2 py.2.2.2 [] []
  simpa using this

theorem dictH_of (n : Nat) (ih : IHn n) : ∀ (m m' : List (Rep × List Rep)), depth (.dict m) < n + 1 → depth (.dict m') < n + 1 →
    wf (.dict m) = true → wf (.dict m') = true → frag (.dict m) = true → frag (.dict m') = true →
    DictIH m m' := by
  have ihH := ihH_of n ih
  intro m m' d1 d2 w1 w2 f1 f2 e he e' he'
  obtain ⟨_, _, _, _, _, F1⟩ := dict_facts n m d1 w1 f1
  obtain ⟨_, _, _, _, _, F2⟩ := dict_facts n m' d2 w2 f2
  have fe : (depth e.1 < n ∧ wf e.1 = true ∧ frag e.1 = true ∧ plain e.1 = true) ∧
      (depth e.2 < n ∧ wf e.2 = true ∧ frag e.2 = true ∧ plain e.2 = true) := by
    rcases List.mem_append.1 he with h | h
    · exact F1 e h
    · exact F2 e h
  have fe' : (depth e'.1 < n ∧ wf e'.1 = true ∧ frag e'.1 = true ∧ plain e'.1 = true) ∧
      (depth e'.2 < n ∧ wf e'.2 = true ∧ frag e'.2 = true ∧ plain e'.2 = true) := by
    rcases List.mem_append.1 he' with h | h
    · exact F1 e' h
    · exact F2 e' h
  obtain ⟨⟨a1, a2, a3, a4⟩, ⟨b1, b2, b3, b4⟩⟩ := fe
  obtain ⟨⟨c1, c2, c3, c4⟩, ⟨d1', d2', d3, d4⟩⟩ := fe'
  exact ⟨ihH e.1 e'.1 a1 c1 a2 c2 a3 c3 a4 c4, ihH e.2 e'.2 b1 d1' b2 d2' b3 d3 b4 d4,
    (ih e.1 e'.1 a1 c1 a2 c2 a3 c3).1, (ih e.2 e'.2 b1 d1' b2 d2' b3 d3).1⟩

theorem relH_of (n : Nat) (ih : IHn n) : ∀ (ns ns' : List String) (rows rows' : List (List Rep)),
    depth (.relation ns rows) < n + 1 → depth (.relation ns' rows') < n + 1 →
    wf (.relation ns rows) = true → wf (.relation ns' rows') = true →
    frag (.relation ns rows) = true → frag (.relation ns' rows') = true →
    ∀ r1, r1 ∈ rows ++ rows' → ∀ r2, r2 ∈ rows ++ rows' → CellIH r1 r2 := by
  have ihH := ihH_of n ih
  intro ns ns' rows rows' d1 d2 w1 w2 f1 f2 r1 h1 r2 h2
  obtain ⟨_, _, _, _, _, _, F1⟩ := relation_facts n ns rows d1 w1 f1
  obtain ⟨_, _, _, _, _, _, F2⟩ := relation_facts n ns' rows' d2 w2 f2
  have cell : ∀ r, r ∈ rows ++ rows' → ∀ v, v ∈ r →
      depth v < n ∧ wf v = true ∧ frag v = true ∧ plain v = true := by
    intro r hr v hv
    rcases List.mem_append.1 hr with h | h
    · obtain ⟨_, _, _, _, fp, wl, dv⟩ := F1 r h
      have := dv v hv
      exact ⟨by omega, wfList_mem r v wl hv, (fragPlainList_mem r v fp hv).2, (fragPlainList_mem r v fp hv).1⟩
    · obtain ⟨_, _, _, _, fp, wl, dv⟩ := F2 r h
      have := dv v hv
      exact ⟨by omega, wfList_mem r v wl hv, (fragPlainList_mem r v fp hv).2, (fragPlainList_mem r v fp hv).1⟩
  have cell2 : ∀ v, v ∈ r1 ++ r2 → depth v < n ∧ wf v = true ∧ frag v = true ∧ plain v = true := by
    intro v hv
    rcases List.mem_append.1 hv with h | h
    · exact cell r1 h1 v h
    · exact cell r2 h2 v h
  refine ⟨fun v hv => ⟨(cell2 v hv).2.2.1, (cell2 v hv).2.2.2⟩, fun v hv v' hv' => ?_⟩
  obtain ⟨a1, a2, a3, a4⟩ := cell2 v hv
  obtain ⟨b1, b2, b3, b4⟩ := cell2 v' hv'
  exact ihH v v' a1 b1 a2 b2 a3 b3 a4 b4

theorem rowH_of (n : Nat) (ih : IHn n) : ∀ (ns ns' : List String) (rows rows' : List (List Rep)),
    depth (.relation ns rows) < n + 1 → depth (.relation ns' rows') < n + 1 →
    wf (.relation ns rows) = true → wf (.relation ns' rows') = true →
    frag (.relation ns rows) = true → frag (.relation ns' rows') = true →
    ∀ x, x ∈ rowTs ns rows ++ rowTs ns' rows' → ∀ y, y ∈ rowTs ns rows ++ rowTs ns' rows' →
      ∀ S S' : HV, (hashG true x S = hashG true y S' ↔ (S = S' ∧ den x = den y)) := by
  have ihH := ihH_of n ih
  intro ns ns' rows rows' d1 d2 w1 w2 f1 f2 x hx y hy
  obtain ⟨_, _, _, _, _, _, F1⟩ := relation_facts n ns rows d1 w1 f1
  obtain ⟨_, _, _, _, _, _, F2⟩ := relation_facts n ns' rows' d2 w2 f2
  have tf : ∀ t, t ∈ rowTs ns rows ++ rowTs ns' rows' → depth t < n ∧ wf t = true ∧ frag t = true ∧ plain t = true := by
    intro t ht
    rcases List.mem_append.1 ht with h | h
    · obtain ⟨row, hr, rfl⟩ := List.mem_map.1 h
      obtain ⟨a, b, c, _⟩ := F1 row hr
      exact ⟨a, b, c, rfl⟩
    · obtain ⟨row, hr, rfl⟩ := List.mem_map.1 h
      obtain ⟨a, b, c, _⟩ := F2 row hr
      exact ⟨a, b, c, rfl⟩
  obtain ⟨a1, a2, a3, a4⟩ := tf x hx
  obtain ⟨b1, b2, b3, b4⟩ := tf y hy
  exact ihH x y a1 b1 a2 b2 a3 b3 a4 b4

/-! ### union sets: every member of every bucket contributes one atom under its own seed -/

/-- a contribution `(atom, member denotation)` of a bucket member `x`: its hash under seed 0 (`UnionSet.Hash`
XORs `member.Hash(0)`) and its denotation -/
def Desc (n : Nat) (c : V × V) : Prop :=
  ∃ (x : Rep), depth x < n ∧ wf x = true ∧ frag x = true ∧ c.1 = atomAt x [] ∧ c.2 = den x

theorem atom_iff_hash (x y : Rep) (hx : frag x = true) (px : plain x = true) (hy : frag y = true)
    (py : plain y = true) (s s' : HV) : atomAt x s = atomAt y s' ↔ hashG true x s = hashG true y s' := by
  rw [hash_singleton x hx px, hash_singleton y hy py]; simp

theorem desc_iff (n : Nat) (H : HashIH n) (c c' : V × V) (hc : Desc n c) (hc' : Desc n c') :
    c.1 = c'.1 ↔ c.2 = c'.2 := by
  obtain ⟨x, dx, wx, fx, e1, e2⟩ := hc
  obtain ⟨x', dx', wx', fx', e1', e2'⟩ := hc'
  rw [e1, e1', e2, e2', atom_iff_hash x x' fx rfl fx' rfl]
  have := H x x' dx dx' wx wx' fx fx' rfl rfl [] []
  simpa using this

theorem array_item_depth (n : Nat) (vs : List (Option Rep)) (off c : Int) (hd : depth (.array vs off c) < n + 1)
    (i : Int) (x : Rep) (hx : some x ∈ vs) : depth (.itemT i x) < n := by
  have := depth_mem_opts vs x hx
  simp only [depth] at hd ⊢
  omega

theorem depth_mem_dict2 : ∀ (m : List (Rep × List Rep)) (kv : Rep × List Rep), kv ∈ m →
    ∀ v, v ∈ kv.2 → depth kv.1 + depth v ≤ depthDict m
  | [], _, h => by simp at h
  | (k, vs) :: r, kv, h => by
    simp only [List.mem_cons] at h
    rcases h with h | h
    · subst h
      intro v hv
      have := depth_mem_list vs v hv
      simp [depthDict]; omega
    · intro v hv
      have := depth_mem_dict2 r kv h v hv
      simp [depthDict]; omega

theorem dict_entry_depth (n : Nat) (m : List (Rep × List Rep)) (hd : depth (.dict m) < n + 1)
    (e : Rep × Rep) (he : e ∈ entries m) : depth (.entryT e.1 e.2) < n := by
  obtain ⟨kv, hkv, h1, h2⟩ := (mem_entries m e).1 he
  have := depth_mem_dict2 m kv hkv e.2 h2
  simp only [depth] at hd ⊢
  rw [h1]; omega

def strC (off : Int) : List Int → List (V × V)
  | [] => []
  | c :: r => if c < 0 then strC (off + 1) r
              else (atomAt (.charT off c) [], vpair "@char" (.num off) (.num c)) :: strC (off + 1) r
def bytesC (off : Int) : List Int → List (V × V)
  | [] => []
  | c :: r => (atomAt (.byteT off c) [], vpair "@byte" (.num off) (.num c)) :: bytesC (off + 1) r

/-- the contributions of the members of a (non-union) set representation -/
def contribs : Rep → List (V × V)
  | .true_ => [(atomAt (.gtuple []) [], .tup [])]
  | .generic xs => xs.map (fun x => (atomOf x, den x))
  | .str s off _ => strC off s
  | .bytes b off => bytesC off b
  | .array vs off _ => (idxItems off vs).map (fun p => (atomAt (.itemT p.1 p.2) [], vpair "@item" (.num p.1) (den p.2)))
  | .dict m => (entries m).map (fun e => (atomAt (.entryT e.1 e.2) [], entryDen e))
  | .relation ns rows => (rowTs ns rows).map (fun t => (atomAt t [], den t))
  | _ => []

theorem strC_snd : ∀ (s : List Int) (off : Int), (strC off s).map (·.2) = strMembers off s
  | [], _ => rfl
  | c :: r, off => by
    simp only [strC, strMembers]
    split <;> simp [strC_snd r (off + 1)]

theorem bytesC_snd : ∀ (s : List Int) (off : Int), (bytesC off s).map (·.2) = bytesMembers off s
  | [], _ => rfl
  | c :: r, off => by simp [bytesC, bytesMembers, bytesC_snd r (off + 1)]

theorem strC_form : ∀ (s : List Int) (off : Int) (p : V × V), p ∈ strC off s →
    ∃ i c, off ≤ i ∧ 0 ≤ c ∧ c ∈ s ∧ p = (atomAt (.charT i c) [], vpair "@char" (.num i) (.num c))
  | [], _, _, h => by simp [strC] at h
  | d :: r, off, p, h => by
    simp only [strC] at h
    by_cases hd : d < 0
    · simp only [hd, if_true] at h
      obtain ⟨i, c, h1, h2, h3, h4⟩ := strC_form r (off + 1) p h
      exact ⟨i, c, by omega, h2, List.mem_cons_of_mem _ h3, h4⟩
    · simp only [hd, if_false, List.mem_cons] at h
      rcases h with h | h
      · exact ⟨off, d, Int.le_refl _, by omega, by simp, h⟩
      · obtain ⟨i, c, h1, h2, h3, h4⟩ := strC_form r (off + 1) p h
        exact ⟨i, c, by omega, h2, List.mem_cons_of_mem _ h3, h4⟩

theorem bytesC_form : ∀ (s : List Int) (off : Int) (p : V × V), p ∈ bytesC off s →
    ∃ i c, off ≤ i ∧ c ∈ s ∧ p = (atomAt (.byteT i c) [], vpair "@byte" (.num i) (.num c))
  | [], _, _, h => by simp [bytesC] at h
  | d :: r, off, p, h => by
    simp only [bytesC, List.mem_cons] at h
    rcases h with h | h
    · exact ⟨off, d, Int.le_refl _, by simp, h⟩
    · obtain ⟨i, c, h1, h3, h4⟩ := bytesC_form r (off + 1) p h
      exact ⟨i, c, by omega, List.mem_cons_of_mem _ h3, h4⟩

theorem mk_singleton (x : V) : mk [x] = [x] := by simp [mk, ins]

theorem strMemXor_eq_mk : ∀ (s : List Int) (off : Int), strMemXor off s = mk ((strC off s).map (·.1))
  | [], _ => rfl
  | c :: r, off => by
    simp only [strMemXor, strC]
    by_cases hc : c < 0
    · simp only [hc, if_true]; exact strMemXor_eq_mk r (off + 1)
    · simp only [hc, if_false, List.map_cons]
      rw [strMemXor_eq_mk r (off + 1)]
      have : hatom "charT" (V.set [V.num off, V.num c]) [] = mk [atomAt (.charT off c) []] := by
        rw [mk_singleton]; simp [atomAt, hashG, hatom]
      rw [this, hxor_mk_disjoint]
      · rfl
      · intro x hx hx'
        simp only [List.mem_singleton] at hx
        obtain ⟨p, hp, e⟩ := List.mem_map.1 hx'
        obtain ⟨i, c', h1, _, _, h4⟩ := strC_form r (off + 1) p hp
        rw [h4] at e
        rw [hx] at e
        simp [atomAt, hashG, hatom] at e
        omega

theorem bytesMemXor_eq_mk : ∀ (s : List Int) (off : Int), bytesMemXor off s = mk ((bytesC off s).map (·.1))
  | [], _ => rfl
  | c :: r, off => by
    simp only [bytesMemXor, bytesC, List.map_cons]
    rw [bytesMemXor_eq_mk r (off + 1)]
    have : hatom "byteT" (V.set [V.num off, V.num c]) [] = mk [atomAt (.byteT off c) []] := by
      rw [mk_singleton]; simp [atomAt, hashG, hatom]
    rw [this, hxor_mk_disjoint]
    · rfl
    · intro x hx hx'
      simp only [List.mem_singleton] at hx
      obtain ⟨p, hp, e⟩ := List.mem_map.1 hx'
      obtain ⟨i, c', h1, _, h4⟩ := bytesC_form r (off + 1) p hp
      rw [h4] at e
      rw [hx] at e
      simp [atomAt, hashG, hatom] at e
      omega

theorem mem_seqM_items : ∀ (vs : List (Option Rep)) (off : Int) (v : V),
    v ∈ seqM "@item" off (denOpts vs) ↔ ∃ p, p ∈ idxItems off vs ∧ v = vpair "@item" (.num p.1) (den p.2)
  | [], _, v => by simp [denOpts, seqM, idxItems]
  | some x :: r, off, v => by
    simp only [denOpts, seqM, idxItems, List.mem_cons, mem_seqM_items r (off + 1) v]
    constructor
    · rintro (h | ⟨p, hp, h⟩)
      · exact ⟨(off, x), Or.inl rfl, h⟩
      · exact ⟨p, Or.inr hp, h⟩
    · rintro ⟨p, hp | hp, h⟩
      · subst hp; exact Or.inl h
      · exact Or.inr ⟨p, hp, h⟩
  | none :: r, off, v => by
    simp only [denOpts, seqM, idxItems, mem_seqM_items r (off + 1) v]

/-- what is known about the contributions of a canonical fragment bucket below the depth bound -/
theorem sub_facts (n : Nat) (ih : IHn n) (s : Rep) (k : String) (hd : depth s < n + 1) (hw : wf s = true)
    (hf : frag s = true) (hk : bucketOfSet s = some k) (hn : 0 < n) :
    memXor true s = mk ((contribs s).map (·.1)) ∧
    (∀ v, v ∈ vmembers (den s) ↔ v ∈ (contribs s).map (·.2)) ∧
    (∀ c, c ∈ contribs s → Desc n c) := by
  have ihH := ihH_of n ih
  cases s <;> simp [bucketOfSet] at hk
  case true_ =>
    refine ⟨?_, ?_, ?_⟩
    · simp [memXor, contribs, mk_singleton, atomAt, hashG, hfin, hatom, xorAttrs, hxor, symdiff, diff, FinSet.union, ins]
    · intro v; simp [den, vmembers, contribs]
    · intro c hc
      simp only [contribs, List.mem_singleton] at hc
      subst hc
      exact ⟨.gtuple [], by simpa [depth] using hn, by simp [wf, wfAttrs, namesOf, specialisable],
        by simp [frag, fragAttrs], rfl, by simp [den, denAttrs, V.mkTup]⟩
  case generic xs =>
    obtain ⟨fy, ny, _, _, wy, dy, py⟩ := generic_facts n xs hd hw hf
    have ay := atoms_nodup xs fy py ny (fun x hx y hy =>
      memH_of n ih xs [] dy (by simp) wy rfl fy rfl py (by simp) x (by simp [hx]) y (by simp [hy]))
    refine ⟨?_, ?_, ?_⟩
    · simp only [memXor, contribs, List.map_map, Function.comp_def]
      exact xorList_eq_mk xs fy py ay
    · intro v
      simp only [den, V.mkSet, vmembers, contribs, List.map_map, Function.comp_def, mem_mk, denList_eq_map]
    · intro c hc
      simp only [contribs] at hc
      obtain ⟨x, hx, rfl⟩ := List.mem_map.1 hc
      exact ⟨x, dy x hx, wfList_mem xs x wy hx, fragList_mem xs x fy hx, rfl, rfl⟩
  case str r off holes =>
    refine ⟨?_, ?_, ?_⟩
    · simp only [memXor, contribs]; exact strMemXor_eq_mk r off
    · intro v; rw [den_str]; simp only [vmembers, contribs, strC_snd]
    · intro c hc
      simp only [contribs] at hc
      obtain ⟨i, ch, _, h0, hm, rfl⟩ := strC_form r off c hc
      have hr : ch ≤ 0x10FFFF := by
        simp only [wf, Bool.and_eq_true] at hw
        have := List.all_eq_true.1 hw.1.2 ch hm
        simp at this; exact this.2
      exact ⟨.charT i ch, by simpa [depth] using hn, by simp [wf, inRune]; exact ⟨h0, hr⟩, rfl, rfl,
        by simp [den]⟩
  case bytes b off =>
    refine ⟨?_, ?_, ?_⟩
    · simp only [memXor, contribs]; exact bytesMemXor_eq_mk b off
    · intro v; rw [den_bytes]; simp only [vmembers, contribs, bytesC_snd]
    · intro c hc
      simp only [contribs] at hc
      obtain ⟨i, ch, _, hm, rfl⟩ := bytesC_form b off c hc
      have hr : inByte ch = true := by
        simp only [wf, Bool.and_eq_true] at hw
        exact List.all_eq_true.1 hw.2 ch hm
      exact ⟨.byteT i ch, by simpa [depth] using hn, by simpa [wf] using hr, rfl, rfl,
        by simp [den]⟩
  case array vs off c =>
    obtain ⟨fo, _, _, wo, _, dv⟩ := array_facts n vs off c hd hw hf
    refine ⟨?_, ?_, ?_⟩
    · simp only [memXor, contribs, List.map_map, Function.comp_def]
      rw [xorOpts_eq_mk off vs [] fo]; rfl
    · intro v
      rw [den_array]
      simp only [vmembers, contribs, List.map_map, Function.comp_def, mem_seqM_items, List.mem_map]
      constructor
      · rintro ⟨p, hp, e⟩; exact ⟨p, hp, e.symm⟩
      · rintro ⟨p, hp, e⟩; exact ⟨p, hp, e.symm⟩
    · intro c hc
      simp only [contribs] at hc
      obtain ⟨p, hp, rfl⟩ := List.mem_map.1 hc
      have hm := idxItems_mem vs off p hp
      obtain ⟨pp, pf⟩ := fragOpts_mem vs p.2 fo hm
      exact ⟨.itemT p.1 p.2, array_item_depth n vs off c hd p.1 p.2 hm, by simpa [wf] using wfOpts_mem vs p.2 wo hm,
        by simp [frag, pf, pp], rfl, by simp [den]⟩
  case dict m =>
    obtain ⟨_, hwd, hkn, hfd, _, F⟩ := dict_facts n m hd hw hf
    have and' := dictAtoms_nodup m [] hfd hwd hkn (dictH_of n ih m m hd hd hw hw hf hf)
    refine ⟨?_, ?_, ?_⟩
    · simp only [memXor, contribs, List.map_map, Function.comp_def]
      rw [xorDict_eq_mk m [] hfd and']; rfl
    · intro v
      simp only [den, V.mkSet, vmembers, contribs, List.map_map, Function.comp_def, mem_mk, denDict_eq]
    · intro c hc
      simp only [contribs] at hc
      obtain ⟨e, he, rfl⟩ := List.mem_map.1 hc
      obtain ⟨⟨a1, a2, a3, a4⟩, ⟨b1, b2, b3, b4⟩⟩ := F e he
      exact ⟨.entryT e.1 e.2, dict_entry_depth n m hd e he, by simp [wf, a2, b2],
        by simp [frag, a3, a4, b3, b4], rfl, by simp [den, entryDen]⟩
  case relation ns rows =>
    obtain ⟨_, _, _, _, hdn, _, F⟩ := relation_facts n ns rows hd hw hf
    have tfp : ∀ t, t ∈ rowTs ns rows → frag t = true ∧ plain t = true := by
      intro t ht
      obtain ⟨row, hr, rfl⟩ := List.mem_map.1 ht
      exact ⟨(F row hr).2.2.1, rfl⟩
    have an := seeded_nodup (rowTs ns rows) [] tfp (by rw [← denRows_rowTs]; exact hdn)
      (fun x hx y hy => by
        have := rowH_of n ih ns ns rows rows hd hd hw hw hf hf x (by simp [hx]) y (by simp [hy]) [] []
        simpa using this)
    refine ⟨?_, ?_, ?_⟩
    · simp only [memXor, contribs, List.map_map, Function.comp_def]
      exact xorRows_eq_mk ns rows [] (fun row hr => (F row hr).2.2.1) an
    · intro v
      simp only [den, V.mkSet, vmembers, contribs, List.map_map, Function.comp_def, mem_mk, denRows_rowTs]
    · intro c hc
      simp only [contribs] at hc
      obtain ⟨t, ht, rfl⟩ := List.mem_map.1 hc
      obtain ⟨row, hr, rfl⟩ := List.mem_map.1 ht
      obtain ⟨a, b, c', _⟩ := F row hr
      exact ⟨rowT ns row, a, b, c', rfl, rfl⟩

/-! ### union sets: the whole set -/

def ucontribs (bs : List (String × Rep)) : List (V × V) := bs.flatMap (fun p => contribs p.2)

/-- what is known about a canonical fragment union set below the depth bound -/
theorem union_facts (n : Nat) (ih : IHn n) (bs : List (String × Rep)) (hd : depth (.union bs) < n + 1)
    (hw : wf (.union bs) = true) (hf : frag (.union bs) = true) :
    0 < n ∧ (namesOf bs).Nodup ∧ wfBuckets bs = true ∧
    ∀ p, p ∈ bs → depth p.2 < n ∧ wf p.2 = true ∧ frag p.2 = true ∧ bucketOfSet p.2 = some p.1 ∧
      memXor true p.2 = mk ((contribs p.2).map (·.1)) ∧
      (∀ v, v ∈ vmembers (den p.2) ↔ v ∈ (contribs p.2).map (·.2)) ∧
      (∀ c, c ∈ contribs p.2 → Desc n c) := by
  have hdn : depthAttrs bs < n := by simp only [depth] at hd; omega
  have hn : 0 < n := by omega
  have hfa : fragAttrs bs = true := by simpa [frag] using hf
  simp only [wf, Bool.and_eq_true, decide_eq_true_eq] at hw
  obtain ⟨⟨_, hnd⟩, hwb⟩ := hw
  refine ⟨hn, hnd, hwb, ?_⟩
  intro p hp
  obtain ⟨wp, kp⟩ := wfBuckets_mem bs p hwb hp
  have dp := depth_mem_attrs bs p hp
  have fp := (fragAttrs_mem bs p hfa hp).2
  obtain ⟨A, B, C⟩ := sub_facts n ih p.2 p.1 (by omega) wp fp kp hn
  exact ⟨by omega, wp, fp, kp, A, B, C⟩

theorem mem_ucontribs (bs : List (String × Rep)) (c : V × V) :
    c ∈ ucontribs bs ↔ ∃ p, p ∈ bs ∧ c ∈ contribs p.2 := by
  simp [ucontribs, List.mem_flatMap]

theorem xorBuckets_eq_mk : ∀ (bs : List (String × Rep)),
    (∀ p, p ∈ bs → memXor true p.2 = mk ((contribs p.2).map (·.1))) →
    bs.Pairwise (fun p q => ∀ c, c ∈ contribs p.2 → ∀ c', c' ∈ contribs q.2 → c.1 ≠ c'.1) →
    xorBuckets true bs = mk ((ucontribs bs).map (·.1))
  | [], _, _ => rfl
  | (k, s) :: r, hm, hp => by
    rw [List.pairwise_cons] at hp
    simp only [xorBuckets, ucontribs, List.flatMap_cons, List.map_append]
    rw [hm (k, s) (by simp), xorBuckets_eq_mk r (fun p h => hm p (List.mem_cons_of_mem _ h)) hp.2,
      hxor_mk_disjoint]
    · rfl
    · intro x hx hx'
      obtain ⟨c, hc, e⟩ := List.mem_map.1 hx
      obtain ⟨c', hc', e'⟩ := List.mem_map.1 hx'
      obtain ⟨q, hq, hcq⟩ := (mem_ucontribs r c').1 hc'
      exact hp.1 q hq c hc c' hcq (by rw [e, e'])

/-- the class of the member denotation of a contribution -/
theorem contrib_bucket (s : Rep) (k : String) (hw : wf s = true) (hk : bucketOfSet s = some k)
    (B : ∀ v, v ∈ vmembers (den s) ↔ v ∈ (contribs s).map (·.2)) (c : V × V) (hc : c ∈ contribs s) :
    bucketV c.2 = bkOfSet s :=
  (sub_members_bucket s k hw hk).2 c.2 ((B c.2).2 (List.mem_map.2 ⟨c, hc, rfl⟩))

/-- everything the main theorem needs about the contributions of one union set -/
theorem union_contribs (n : Nat) (ih : IHn n) (bs : List (String × Rep)) (hd : depth (.union bs) < n + 1)
    (hw : wf (.union bs) = true) (hf : frag (.union bs) = true) :
    xorBuckets true bs = mk ((ucontribs bs).map (·.1)) ∧
    (∀ v, v ∈ denBuckets bs ↔ v ∈ (ucontribs bs).map (·.2)) ∧
    (∀ c, c ∈ ucontribs bs → Desc n c) ∧
    (∃ c1 c2, c1 ∈ ucontribs bs ∧ c2 ∈ ucontribs bs ∧ bucketV c1.2 ≠ bucketV c2.2) := by
  obtain ⟨hn, hnd, hwb, F⟩ := union_facts n ih bs hd hw hf
  have H := ihH_of n ih
  refine ⟨?_, ?_, ?_, ?_⟩
  · apply xorBuckets_eq_mk bs (fun p hp => (F p hp).2.2.2.2.1)
    have hpw : bs.Pairwise (fun p q => p.1 ≠ q.1) := by
      have : (bs.map (·.1)).Pairwise (· ≠ ·) := hnd
      rwa [List.pairwise_map] at this
    apply List.Pairwise.imp_of_mem _ hpw
    intro p q hp hq hne c hc c' hc' e
    obtain ⟨_, wp, _, kp, _, Bp, Cp⟩ := F p hp
    obtain ⟨_, wq, _, kq, _, Bq, Cq⟩ := F q hq
    have := (desc_iff n H c c' (Cp c hc) (Cq c' hc')).1 e
    have h1 := contrib_bucket p.2 p.1 wp kp Bp c hc
    have h2 := contrib_bucket q.2 q.1 wq kq Bq c' hc'
    rw [this] at h1
    exact hne (bkOfSet_key p.2 q.2 p.1 q.1 wp wq kp kq (h1.symm.trans h2))
  · intro v
    rw [mem_denBuckets]
    constructor
    · rintro ⟨p, hp, hv⟩
      obtain ⟨c, hc, e⟩ := List.mem_map.1 (((F p hp).2.2.2.2.2.1 v).1 hv)
      exact List.mem_map.2 ⟨c, (mem_ucontribs bs c).2 ⟨p, hp, hc⟩, e⟩
    · intro hv
      obtain ⟨c, hc, e⟩ := List.mem_map.1 hv
      obtain ⟨p, hp, hcp⟩ := (mem_ucontribs bs c).1 hc
      exact ⟨p, hp, ((F p hp).2.2.2.2.2.1 v).2 (List.mem_map.2 ⟨c, hcp, e⟩)⟩
  · intro c hc
    obtain ⟨p, hp, hcp⟩ := (mem_ucontribs bs c).1 hc
    exact (F p hp).2.2.2.2.2.2 c hcp
  · obtain ⟨p, q, v1, v2, hp, hq, _, h1, h2, _, _, hne⟩ := union_two_members bs hw
    obtain ⟨c1, hc1, e1⟩ := List.mem_map.1 (((F p hp).2.2.2.2.2.1 v1).1 h1)
    obtain ⟨c2, hc2, e2⟩ := List.mem_map.1 (((F q hq).2.2.2.2.2.1 v2).1 h2)
    exact ⟨c1, c2, (mem_ucontribs bs c1).2 ⟨p, hp, hc1⟩, (mem_ucontribs bs c2).2 ⟨q, hq, hc2⟩, by rw [e1, e2]; exact hne⟩

/-- the hash of a union set identifies its denotation -/
theorem union_core (n : Nat) (ih : IHn n) (bs bs' : List (String × Rep))
    (hd : depth (.union bs) < n + 1) (hd' : depth (.union bs') < n + 1)
    (hw : wf (.union bs) = true) (hw' : wf (.union bs') = true)
    (hf : frag (.union bs) = true) (hf' : frag (.union bs') = true) :
    xorBuckets true bs = xorBuckets true bs' ↔ mk (denBuckets bs) = mk (denBuckets bs') := by
  obtain ⟨A, B, C, _⟩ := union_contribs n ih bs hd hw hf
  obtain ⟨A', B', C', _⟩ := union_contribs n ih bs' hd' hw' hf'
  rw [A, A', mk_eq_iff, mk_eq_iff]
  have : (∀ v, v ∈ denBuckets bs ↔ v ∈ denBuckets bs') ↔
      (∀ v, v ∈ (ucontribs bs).map (·.2) ↔ v ∈ (ucontribs bs').map (·.2)) := by
    constructor
    · intro h v; rw [← B, ← B', h]
    · intro h v; rw [B, B', h]
  rw [this]
  apply map_mem_transfer
  intro c hc c' hc'
  exact desc_iff n (ihH_of n ih) c c' (C c hc) (C' c' hc')

/-! #### `UnionSet.Equal`: bucket by bucket -/

theorem den_sub_mkSet (s : Rep) (k : String) (hk : bucketOfSet s = some k) : ∃ l, den s = V.mkSet l := by
  cases s <;> simp [bucketOfSet] at hk
  case true_ => exact ⟨[.tup []], by simp [den, V.mkSet, mk_singleton]⟩
  case generic xs => exact ⟨_, by rw [den]⟩
  case str r off h => exact ⟨_, by rw [den]⟩
  case bytes b off => exact ⟨_, by rw [den]⟩
  case array vs off c => exact ⟨_, by rw [den]⟩
  case dict m => exact ⟨_, by rw [den]⟩
  case relation ns rows => exact ⟨_, by rw [den]⟩

theorem den_eq_of_vmembers (s s' : Rep) (k k' : String) (hk : bucketOfSet s = some k)
    (hk' : bucketOfSet s' = some k') (h : ∀ v, v ∈ vmembers (den s) ↔ v ∈ vmembers (den s')) : den s = den s' := by
  obtain ⟨l, e⟩ := den_sub_mkSet s k hk
  obtain ⟨l', e'⟩ := den_sub_mkSet s' k' hk'
  rw [e, e'] at h ⊢
  simp only [V.mkSet, vmembers] at h ⊢
  rw [sorted_ext _ _ (sorted_mk l) (sorted_mk l') h]

theorem mem_same_key (bs : List (String × Rep)) (hn : (namesOf bs).Nodup) (p q : String × Rep)
    (hp : p ∈ bs) (hq : q ∈ bs) (h : p.1 = q.1) : p = q := by
  have h1 := lookupAttr_some_of_mem bs p.1 p.2 hn hp
  have h2 := lookupAttr_some_of_mem bs q.1 q.2 hn hq
  rw [h, h2] at h1
  cases p; cases q
  simp at h h1 ⊢
  exact ⟨h, h1.symm⟩

/-- two canonical union sets with the same members have the same buckets -/
theorem union_match (bs bs' : List (String × Rep)) (hn' : (namesOf bs').Nodup)
    (hn : (namesOf bs).Nodup)
    (hwb : wfBuckets bs = true) (hwb' : wfBuckets bs' = true)
    (hm : ∀ v, v ∈ denBuckets bs ↔ v ∈ denBuckets bs') :
    ∀ p, p ∈ bs → ∃ q, q ∈ bs' ∧ q.1 = p.1 ∧ den p.2 = den q.2 := by
  intro p hp
  obtain ⟨wp, kp⟩ := wfBuckets_mem bs p hwb hp
  obtain ⟨ne, bp⟩ := sub_members_bucket p.2 p.1 wp kp
  obtain ⟨v0, hv0⟩ := List.exists_mem_of_ne_nil _ ne
  obtain ⟨q, hq, hv0q⟩ := (mem_denBuckets bs' v0).1 ((hm v0).1 ((mem_denBuckets bs v0).2 ⟨p, hp, hv0⟩))
  obtain ⟨wq, kq⟩ := wfBuckets_mem bs' q hwb' hq
  obtain ⟨_, bq⟩ := sub_members_bucket q.2 q.1 wq kq
  have hkey : p.1 = q.1 := bkOfSet_key p.2 q.2 p.1 q.1 wp wq kp kq ((bp v0 hv0).symm.trans (bq v0 hv0q))
  refine ⟨q, hq, hkey.symm, ?_⟩
  apply den_eq_of_vmembers p.2 q.2 p.1 q.1 kp kq
  intro v
  constructor
  · intro hv
    obtain ⟨q', hq', hvq'⟩ := (mem_denBuckets bs' v).1 ((hm v).1 ((mem_denBuckets bs v).2 ⟨p, hp, hv⟩))
    obtain ⟨wq', kq'⟩ := wfBuckets_mem bs' q' hwb' hq'
    obtain ⟨_, bq'⟩ := sub_members_bucket q'.2 q'.1 wq' kq'
    have : p.1 = q'.1 := bkOfSet_key p.2 q'.2 p.1 q'.1 wp wq' kp kq' ((bp v hv).symm.trans (bq' v hvq'))
    have := mem_same_key bs' hn' q' q hq' hq (this.symm.trans hkey)
    rw [← this]; exact hvq'
  · intro hv
    obtain ⟨p', hp', hvp'⟩ := (mem_denBuckets bs v).1 ((hm v).2 ((mem_denBuckets bs' v).2 ⟨q, hq, hv⟩))
    obtain ⟨wp', kp'⟩ := wfBuckets_mem bs p' hwb hp'
    obtain ⟨_, bp'⟩ := sub_members_bucket p'.2 p'.1 wp' kp'
    have : q.1 = p'.1 := bkOfSet_key q.2 p'.2 q.1 p'.1 wq wp' kq kp' ((bq v hv).symm.trans (bp' v hvp'))
    have := mem_same_key bs hn p' p hp' hp (this.symm.trans hkey.symm)
    rw [← this]; exact hvp'

theorem union_match_length (bs bs' : List (String × Rep)) (hn' : (namesOf bs').Nodup)
    (hn : (namesOf bs).Nodup) (hwb : wfBuckets bs = true) (hwb' : wfBuckets bs' = true)
    (hm : ∀ v, v ∈ denBuckets bs ↔ v ∈ denBuckets bs') : bs.length = bs'.length := by
  have h1 := union_match bs bs' hn' hn hwb hwb' hm
  have h2 := union_match bs' bs hn hn' hwb' hwb (fun v => (hm v).symm)
  have := length_eq_of_same_members (namesOf bs) (namesOf bs') hn hn' (by
    intro x
    simp only [namesOf, List.mem_map]
    constructor
    · rintro ⟨p, hp, rfl⟩
      obtain ⟨q, hq, e, _⟩ := h1 p hp
      exact ⟨q, hq, e⟩
    · rintro ⟨p, hp, rfl⟩
      obtain ⟨q, hq, e, _⟩ := h2 p hp
      exact ⟨q, hq, e⟩)
  simpa [namesOf] using this

theorem bucketsAllIn_iff : ∀ (bs bs' : List (String × Rep)),
    bucketsAllIn true bs bs' = true ↔ ∀ p, p ∈ bs → ∃ s', lookupAttr p.1 bs' = some s' ∧ equal p.2 s' = true
  | [], _ => by simp [bucketsAllIn]
  | (k, s) :: r, bs' => by
    simp only [bucketsAllIn, Bool.and_eq_true, bucketsAllIn_iff r bs', List.mem_cons]
    constructor
    · rintro ⟨h1, h2⟩ p (hp | hp)
      · subst hp
        cases hl : lookupAttr k bs' with
        | none => simp [hl] at h1
        | some s' => simp only [hl] at h1; exact ⟨s', rfl, h1⟩
      · exact h2 p hp
    · intro h
      refine ⟨?_, fun p hp => h p (Or.inr hp)⟩
      obtain ⟨s', hl, he⟩ := h (k, s) (Or.inl rfl)
      simp only [hl]; exact he

/-- `UnionSet.Equal` on canonical union sets is equality of denotations, given that `Equal` is on the buckets -/
theorem union_equal_iff (bs bs' : List (String × Rep)) (hn : (namesOf bs).Nodup) (hn' : (namesOf bs').Nodup)
    (hwb : wfBuckets bs = true) (hwb' : wfBuckets bs' = true)
    (E : ∀ p, p ∈ bs → ∀ q, q ∈ bs' → (equal p.2 q.2 = true ↔ den p.2 = den q.2)) :
    equal (.union bs) (.union bs') = true ↔ mk (denBuckets bs) = mk (denBuckets bs') := by
  simp only [equal, equalG, Bool.and_eq_true, beq_iff_eq, bucketsAllIn_iff]
  rw [mk_eq_iff]
  constructor
  · rintro ⟨hlen, hall⟩
    have fwd : ∀ p, p ∈ bs → ∃ q, q ∈ bs' ∧ q.1 = p.1 ∧ den p.2 = den q.2 := by
      intro p hp
      obtain ⟨s', hl, he⟩ := hall p hp
      have hq := lookupAttr_mem bs' p.1 s' hl
      exact ⟨(p.1, s'), hq, rfl, (E p hp (p.1, s') hq).1 he⟩
    have keys : ∀ x, x ∈ namesOf bs' → x ∈ namesOf bs := by
      apply subset_of_nodup_length (namesOf bs) (namesOf bs') hn
      · intro x hx
        simp only [namesOf, List.mem_map] at hx ⊢
        obtain ⟨p, hp, rfl⟩ := hx
        obtain ⟨q, hq, e, _⟩ := fwd p hp
        exact ⟨q, hq, e⟩
      · simp [namesOf, hlen]
    intro v
    rw [mem_denBuckets, mem_denBuckets]
    constructor
    · rintro ⟨p, hp, hv⟩
      obtain ⟨q, hq, _, e⟩ := fwd p hp
      exact ⟨q, hq, by rw [← e]; exact hv⟩
    · rintro ⟨q, hq, hv⟩
      have : q.1 ∈ namesOf bs := keys q.1 (by simp only [namesOf, List.mem_map]; exact ⟨q, hq, rfl⟩)
      simp only [namesOf, List.mem_map] at this
      obtain ⟨p, hp, e⟩ := this
      obtain ⟨q', hq', e', ed⟩ := fwd p hp
      have := mem_same_key bs' hn' q' q hq' hq (e'.trans e)
      rw [this] at ed
      exact ⟨p, hp, by rw [ed]; exact hv⟩
  · intro hm
    refine ⟨union_match_length bs bs' hn' hn hwb hwb' hm, ?_⟩
    intro p hp
    obtain ⟨q, hq, e, ed⟩ := union_match bs bs' hn' hn hwb hwb' hm p hp
    refine ⟨q.2, ?_, (E p hp q hq).2 ed⟩
    rw [← e]
    exact lookupAttr_some_of_mem bs' q.1 q.2 hn' hq

/-- a canonical union set is determined by its denotation up to the buckets' denotations -/
theorem union_den_inj (bs bs' : List (String × Rep)) (wa : wf (.union bs) = true) (wb : wf (.union bs') = true)
    (h : den (.union bs) = den (.union bs')) :
    bs.length = bs'.length ∧ ∀ k, (lookupAttr k bs).map den = (lookupAttr k bs').map den := by
  simp only [den, V.mkSet, V.set.injEq] at h
  have hm := (FinSet.mk_eq_iff _ _).1 h
  simp only [wf, Bool.and_eq_true, decide_eq_true_eq] at wa wb
  obtain ⟨⟨_, hn⟩, hwb⟩ := wa
  obtain ⟨⟨_, hn'⟩, hwb'⟩ := wb
  have h1 := union_match bs bs' hn' hn hwb hwb' hm
  have h2 := union_match bs' bs hn hn' hwb' hwb (fun v => (hm v).symm)
  refine ⟨union_match_length bs bs' hn' hn hwb hwb' hm, ?_⟩
  intro k
  cases hl : lookupAttr k bs with
  | some s =>
    obtain ⟨q, hq, e, ed⟩ := h1 (k, s) (lookupAttr_mem bs k s hl)
    have : lookupAttr k bs' = some q.2 := by
      have := lookupAttr_some_of_mem bs' q.1 q.2 hn' hq
      rwa [e] at this
    rw [this]; simp [ed]
  | none =>
    cases hl' : lookupAttr k bs' with
    | none => rfl
    | some s' =>
      obtain ⟨q, hq, e, _⟩ := h2 (k, s') (lookupAttr_mem bs' k s' hl')
      have := lookupAttr_some_of_mem bs q.1 q.2 hn hq
      rw [e] at this
      simp at this
      rw [hl] at this
      cases this

/-! #### a contribution whose atom is the atom of a known value -/

theorem kind1_desc (n : Nat) (x : Rep) (hd : depth x < n) (hw : wf x = true) (hf : frag x = true)
    (_hp : plain x = true) : Desc n (atomAt x [], den x) :=
  ⟨x, hd, hw, hf, rfl, rfl⟩

theorem desc_seed_nil (n : Nat) (H : HashIH n) (c : V × V) (hc : Desc n c) (x : Rep) (hd : depth x < n)
    (hw : wf x = true) (hf : frag x = true) (hp : plain x = true) (e : c.1 = atomAt x []) : c.2 = den x :=
  (desc_iff n H c (atomAt x [], den x) hc (kind1_desc n x hd hw hf hp)).1 e

/-- the atom of a contribution under any seed: the seed is 0 and the member has the value's denotation -/
theorem desc_at (n : Nat) (H : HashIH n) (c : V × V) (hc : Desc n c) (x : Rep) (hd : depth x < n)
    (hw : wf x = true) (hf : frag x = true) (s : HV) (e : c.1 = atomAt x s) : s = [] ∧ c.2 = den x := by
  obtain ⟨y, _, _, fy, e1, _⟩ := hc
  have hs : [] = s := atomAt_seed_inj y x fy rfl hf rfl _ _ (e1.symm.trans e)
  subst hs
  exact ⟨rfl, desc_seed_nil n H c ⟨y, by assumption, by assumption, fy, e1, by assumption⟩ x hd hw hf rfl e⟩

theorem hashG_ne_nil (k : Rep) (hf : frag k = true) (hp : plain k = true) (s : HV) : hashG true k s ≠ [] := by
  rw [hash_singleton k hf hp]; simp

theorem intSeed_ne_hash (i : Int) (s s' : HV) (k : Rep) (hf : frag k = true) (hp : plain k = true) :
    intSeed i s ≠ hashG true k s' := by
  intro h
  rw [hash_singleton k hf hp] at h
  have h' : atomAt k s' = .tup [("int", .num i), ("seed", .set s)] := by
    simpa [intSeed, hatom] using h.symm
  exact atomAt_ne_int k hf hp s' _ _ h'

theorem desc_atom (n : Nat) (c : V × V) (hc : Desc n c) : ∃ x sd, frag x = true ∧ plain x = true ∧ c.1 = atomAt x sd := by
  obtain ⟨y, _, _, fy, e1, _⟩ := hc
  exact ⟨y, [], fy, rfl, e1⟩

theorem main_frag : ∀ (n : Nat) (a b : Rep), depth a < n → depth b < n → wf a = true → wf b = true →
    frag a = true → frag b = true → MainAt a b := by
  intro n
  induction n with
  | zero => intro a b ha; omega
  | succ n ih =>
    intro a b ha hb wa wb fa fb
    have htag : den a = den b → ctorTag a = ctorTag b := by
      intro h; rw [← vtag_den a wa fa, ← vtag_den b wb fb, h]
    have ihH := ihH_of n ih
    have memH := memH_of n ih
    -- the empty tuple as a possible member of a generic set
    have unitFacts : 0 < n → (∀ x, x ∈ [Rep.gtuple []] → depth x < n) ∧ wfList [Rep.gtuple []] = true ∧
        fragList [Rep.gtuple []] = true ∧ (∀ x, x ∈ [Rep.gtuple []] → plain x = true) := by
      intro hn
      refine ⟨?_, by simp [wfList, wf, wfAttrs, namesOf, specialisable], by simp [fragList, frag, fragAttrs], ?_⟩
      · intro x hx; simp at hx; subst hx; simpa [depth] using hn
      · intro x hx; simp at hx; subst hx; rfl
    have dictH := dictH_of n ih
    have relH := relH_of n ih
    have rowH := rowH_of n ih
    -- equal atoms of two values below the bound: same seed, same denotation
    have atomDen : ∀ (x y : Rep) (σ σ' : HV), depth x < n → depth y < n → wf x = true → wf y = true →
        frag x = true → frag y = true → atomAt x σ = atomAt y σ' → σ = σ' ∧ den x = den y := by
      intro x y σ σ' dx dy wx wy fx fy e
      exact (ihH x y dx dy wx wy fx fy rfl rfl σ σ').1
        (by rw [hash_singleton x fx rfl, hash_singleton y fy rfl, e])
    -- a finished single atom under a derived seed (the hash of an item or entry tuple) differs from the hash of
    -- every value of another type
    have thrNe : ∀ (x : Rep) (sd s : HV) (b : Rep), frag x = true → sd ≠ [] → sd ≠ s →
        depth b < n + 1 → wf b = true → frag b = true →
        (∀ j y, b ≠ .itemT j y) → (∀ k v, b ≠ .entryT k v) →
        ∀ s' : HV, hatom "fin" (.set [atomAt x sd]) s ≠ hashG true b s' := by
      intro x sd s b fx h0 hs db wb' fb' hni hne s' h
      have seedOf : ∀ (y : Rep) (σ : HV), frag y = true → atomAt x sd = atomAt y σ → sd = σ :=
        fun y σ fy e => atomAt_seed_inj x y fx rfl fy rfl _ _ e
      cases b
      case num => simp [hashG, hatom] at h
      case charT => simp [hashG, hatom] at h
      case byteT => simp [hashG, hatom] at h
      case str => simp [hashG, hatom] at h
      case bytes => simp [hashG, hatom] at h
      case itemT j y => exact hni j y rfl
      case entryT k v => exact hne k v rfl
      case empty => simp [hashG, hfin, hatom] at h
      case true_ =>
        simp [hashG, hfin, hatom] at h
        have : atomAt x sd = atomAt (.gtuple []) [] := by
          rw [h.1]; simp [atomAt, hashG, hfin, hatom, xorAttrs, hxor_nil_right]
        exact h0 (seedOf (.gtuple []) [] (by simp [frag, fragAttrs]) this)
      case gtuple as' =>
        obtain ⟨nb, _, fbs, _⟩ := gtuple_facts n as' db wb' (by simpa [frag] using fb')
        simp only [hashG, hfin, hatom, if_true] at h
        simp at h
        have := gtuple_payload_mem as' s' nb fbs
        rw [show hatom "mapC" (V.set []) s' = [V.tup [("mapC", V.set []), ("seed", V.set s')]] from rfl, ← h.1] at this
        simp [mapC] at this
        exact atomAt_ne_mapC x fx rfl _ _ _ this.symm
      case generic ys =>
        obtain ⟨fy, ny, _, _, wy, dy, py⟩ := generic_facts n ys db wb' (by simpa [frag] using fb')
        have ay := atoms_nodup ys fy py ny (fun x hx y hy =>
          memH ys [] dy (by simp) wy rfl fy rfl py (by simp) x (by simp [hx]) y (by simp [hy]))
        simp [hashG, hfin, hatom] at h
        have hm : atomAt x sd ∈ xorList true ys := by rw [← h.1]; simp
        obtain ⟨y, hy, e⟩ := xorList_mem_atom ys fy py ay _ hm
        exact h0 (seedOf y [] (fragList_mem ys y fy hy) e.symm)
      case array vs' off' c' =>
        obtain ⟨fo, _, _, _, _, _⟩ := array_facts n vs' off' c' db wb' (by simpa [frag] using fb')
        simp [hashG, hfin, hatom] at h
        have hm : atomAt x sd ∈ xorOpts true off' vs' s' := by rw [← h.1]; simp
        rw [xorOpts_eq_mk off' vs' s' fo, mem_mk] at hm
        obtain ⟨p, hp, e⟩ := List.mem_map.1 hm
        obtain ⟨pp, pf⟩ := fragOpts_mem vs' p.2 fo (idxItems_mem vs' off' p hp)
        have := seedOf (.itemT p.1 p.2) s' (by simp [frag, pf, pp]) e.symm
        exact hs (this.trans h.2.symm)
      case dict m' =>
        obtain ⟨_, hwd, hk, hfd, _, Fd⟩ := dict_facts n m' db wb' (by simpa [frag] using fb')
        have and' := dictAtoms_nodup m' s' hfd hwd hk
          (dictH m' m' db db wb' wb' (by simpa [frag] using fb') (by simpa [frag] using fb'))
        simp [hashG, hfin, hatom] at h
        have hm : atomAt x sd ∈ xorDict true m' s' := by rw [← h.1]; simp
        rw [xorDict_eq_mk m' s' hfd and', mem_mk] at hm
        obtain ⟨e, he, e'⟩ := List.mem_map.1 hm
        obtain ⟨⟨_, _, fk, _⟩, ⟨_, _, fv, _⟩⟩ := Fd e he
        have := seedOf (.entryT e.1 e.2) s' (by simp [frag, fk, fv, plain]) e'.symm
        exact hs (this.trans h.2.symm)
      case relation ns' rows' =>
        have fr : frag (.relation ns' rows') = true := by simpa [frag] using fb'
        obtain ⟨_, _, _, _, hdn, _, F⟩ := relation_facts n ns' rows' db wb' fr
        have tfp : ∀ t, t ∈ rowTs ns' rows' → frag t = true ∧ plain t = true := by
          intro t ht
          obtain ⟨row, hr, rfl⟩ := List.mem_map.1 ht
          exact ⟨(F row hr).2.2.1, rfl⟩
        have RH := rowH ns' ns' rows' rows' db db wb' wb' fr fr
        have an := seeded_nodup (rowTs ns' rows') s' tfp (by rw [← denRows_rowTs]; exact hdn)
          (fun x hx y hy => by have := RH x (by simp [hx]) y (by simp [hy]) s' s'; simpa using this)
        simp [hashG, hfin, hatom] at h
        have hm : atomAt x sd ∈ xorRows true ns' rows' s' := by rw [← h.1]; simp
        rw [xorRows_eq_mk ns' rows' s' (fun row hr => (F row hr).2.2.1) an, mem_mk] at hm
        obtain ⟨t, ht, e⟩ := List.mem_map.1 hm
        have := seedOf t s' (tfp t ht).1 e.symm
        exact hs (this.trans h.2.symm)
      case union bs' =>
        obtain ⟨A, _, C, _⟩ := union_contribs n ih bs' db wb' fb'
        simp [hashG, hfin, hatom] at h
        have hm : atomAt x sd ∈ xorBuckets true bs' := by rw [← h.1]; simp
        rw [A, mem_mk] at hm
        obtain ⟨c, hc, e⟩ := List.mem_map.1 hm
        obtain ⟨y, _, _, fy, e1, _⟩ := C c hc
        exact h0 (seedOf y [] fy (e.symm.trans e1))
    -- the hash of an item tuple / entry tuple differs from the hash of every value of another type
    have itemNe : ∀ (j : Int) (y b : Rep), frag (.itemT j y) = true → depth b < n + 1 → wf b = true → frag b = true →
        (∀ j' y', b ≠ .itemT j' y') → ∀ s s' : HV, hashG true (.itemT j y) s ≠ hashG true b s' := by
      intro j y b fy db wb' fb' hni s s' h
      have fy' : frag y = true := by simpa [frag, plain] using fy
      have hl : hashG true (.itemT j y) s = hatom "fin" (.set [atomAt y (intSeed j s)]) s := by
        simp [hashG, tfin, intSeed, hash_singleton y fy' rfl]
      rw [hl] at h
      by_cases hbe : ∃ k v, b = .entryT k v
      · obtain ⟨k, v, rfl⟩ := hbe
        have fkv : frag k = true ∧ frag v = true := by simpa [frag, plain] using fb'
        have hr : hashG true (.entryT k v) s' = hatom "fin" (.set [atomAt v (hashG true k s')]) s' := by
          simp [hashG, tfin, hash_singleton v fkv.2 rfl]
        rw [hr] at h
        simp [hatom] at h
        have := atomAt_seed_inj y v fy' rfl fkv.2 rfl _ _ h.1
        exact intSeed_ne_hash j s s' k fkv.1 rfl this
      · exact thrNe y (intSeed j s) s b fy' (by simp [intSeed, hatom]) (seed_acyclic _ _ _) db wb' fb' hni
          (fun k v e => hbe ⟨k, v, e⟩) s' h
    have entryNe : ∀ (k v b : Rep), depth (.entryT k v) < n + 1 → wf (.entryT k v) = true →
        frag (.entryT k v) = true → depth b < n + 1 → wf b = true → frag b = true →
        (∀ k' v', b ≠ .entryT k' v') → ∀ s s' : HV, hashG true (.entryT k v) s ≠ hashG true b s' := by
      intro k v b dkv wkv fkv db wb' fb' hne s s' h
      by_cases hbi : ∃ j y, b = .itemT j y
      · obtain ⟨j, y, rfl⟩ := hbi
        exact itemNe j y (.entryT k v) fb' dkv wkv fkv (by intro a b e; cases e) s' s h.symm
      · have fkv' : frag k = true ∧ frag v = true := by simpa [frag, plain] using fkv
        have hl : hashG true (.entryT k v) s = hatom "fin" (.set [atomAt v (hashG true k s)]) s := by
          simp [hashG, tfin, hash_singleton v fkv'.2 rfl]
        rw [hl] at h
        have hne0 : hashG true k s ≠ [] := hashG_ne_nil k fkv'.1 rfl s
        have hnes : hashG true k s ≠ s := by
          rw [hash_singleton k fkv'.1 rfl]
          obtain ⟨t, q, et⟩ := atomAt_seed k fkv'.1 rfl s
          rw [et]; exact single_acyclic _ _ _
        exact thrNe v (hashG true k s) s b fkv'.2 hne0 hnes db wb' fb' (fun j y e => hbi ⟨j, y, e⟩) hne s' h
    -- the hash of a union set differs from the hash of every other plain value
    have unionNe : ∀ (bs : List (String × Rep)) (b : Rep), depth (.union bs) < n + 1 → depth b < n + 1 →
        wf (.union bs) = true → wf b = true → frag (.union bs) = true → frag b = true →
        (∀ bs', b ≠ .union bs') → plain b = true →
        ∀ s s' : HV, hashG true (.union bs) s ≠ hashG true b s' := by
      intro bs b du db wu wb' fu fb' hnu pb s s' h
      have h0 := h
      obtain ⟨A, _, C, c1, c2, hc1, hc2, hne⟩ := union_contribs n ih bs du wu fu
      have hn0 : 0 < n := (union_facts n ih bs du wu fu).1
      simp only [hashG, hfin, if_true] at h
      rw [A] at h
      have mem : ∀ c, c ∈ ucontribs bs → c.1 ∈ mk ((ucontribs bs).map (·.1)) :=
        fun c hc => (mem_mk _ _).2 (List.mem_map.2 ⟨c, hc, rfl⟩)
      -- if all contributions are of one class, the two of different classes are contradictory
      have uni : ∀ X : BK, (∀ c, c ∈ ucontribs bs → bucketV c.2 = X) → False :=
        fun X hX => hne ((hX c1 hc1).trans (hX c2 hc2).symm)
      cases b <;> simp [plain] at pb
      case num x => simp [hashG, hatom] at h
      case charT i c => simp [hashG, hatom] at h
      case byteT i c => simp [hashG, hatom] at h
      case str r off hh => simp [hashG, hatom] at h
      case bytes r off => simp [hashG, hatom] at h
      case union bs' => exact hnu bs' rfl
      case itemT j y => exact itemNe j y (.union bs) fb' du wu fu (by intro a b e; cases e) s' s h0.symm
      case entryT k v => exact entryNe k v (.union bs) db wb' fb' du wu fu (by intro a b e; cases e) s' s h0.symm
      case empty =>
        simp [hashG, hfin, hatom] at h
        have := mem c1 hc1
        rw [h.1] at this
        simp at this
      case true_ =>
        simp [hashG, hfin, hatom] at h
        have hu : ∀ c, c ∈ ucontribs bs → c.2 = den (.gtuple []) := by
          intro c hc
          have hm := mem c hc
          rw [h.1] at hm
          apply desc_seed_nil n ihH c (C c hc) (.gtuple []) (by simpa [depth] using hn0)
            (by simp [wf, wfAttrs, namesOf, specialisable]) (by simp [frag, fragAttrs]) rfl
          simpa [atomAt, hashG, hfin, hatom, xorAttrs, hxor_nil_right] using hm
        exact hne ((hu c1 hc1).trans (hu c2 hc2).symm ▸ rfl)
      case gtuple as' =>
        obtain ⟨nb, _, fbs, _⟩ := gtuple_facts n as' db wb' (by simpa [frag] using fb')
        simp only [hashG, hfin, hatom, if_true] at h
        simp at h
        have := gtuple_payload_mem as' s' nb fbs
        rw [show hatom "mapC" (V.set []) s' = [V.tup [("mapC", V.set []), ("seed", V.set s')]] from rfl, ← h.1,
          mem_mk] at this
        obtain ⟨c, hc, e'⟩ := List.mem_map.1 this
        obtain ⟨x, sd, fx, px, ex⟩ := desc_atom n c (C c hc)
        rw [ex] at e'
        exact atomAt_ne_mapC x fx px _ _ _ e'
      case generic ys =>
        obtain ⟨fy, ny, _, _, wy, dy, py⟩ := generic_facts n ys db wb' (by simpa [frag] using fb')
        have ay := atoms_nodup ys fy py ny (fun x hx y hy =>
          memH ys [] dy (by simp) wy rfl fy rfl py (by simp) x (by simp [hx]) y (by simp [hy]))
        have hgm : ∀ y, y ∈ ys → genericMember y = true := by
          simp only [wf, Bool.and_eq_true] at wb'
          exact fun y hy => List.all_eq_true.1 wb'.1.1.2 y hy
        simp [hashG, hfin, hatom] at h
        apply uni .g
        intro c hc
        have hm := mem c hc
        rw [h.1] at hm
        obtain ⟨y, hy, e⟩ := xorList_mem_atom ys fy py ay _ hm
        rw [desc_seed_nil n ihH c (C c hc) y (dy y hy) (wfList_mem ys y wy hy) (fragList_mem ys y fy hy) (py y hy) e.symm]
        exact bucketV_genericMember y (hgm y hy)
      case array vs' off' c' =>
        obtain ⟨fo, _, _, wo, _, _⟩ := array_facts n vs' off' c' db wb' (by simpa [frag] using fb')
        simp [hashG, hfin, hatom] at h
        apply uni .i
        intro c hc
        have hm := mem c hc
        rw [h.1, xorOpts_eq_mk off' vs' s' fo, mem_mk] at hm
        obtain ⟨p, hp, e⟩ := List.mem_map.1 hm
        have hm' := idxItems_mem vs' off' p hp
        obtain ⟨pp, pf⟩ := fragOpts_mem vs' p.2 fo hm'
        rw [(desc_at n ihH c (C c hc) (.itemT p.1 p.2) (array_item_depth n vs' off' c' db p.1 p.2 hm')
          (by simpa [wf] using wfOpts_mem vs' p.2 wo hm') (by simp [frag, pf, pp]) s' e.symm).2]
        simp only [den]
        exact bucketV_item _ _
      case dict m' =>
        obtain ⟨_, hwd, hk, hfd, _, Fd⟩ := dict_facts n m' db wb' (by simpa [frag] using fb')
        have and' := dictAtoms_nodup m' s' hfd hwd hk
          (dictH m' m' db db wb' wb' (by simpa [frag] using fb') (by simpa [frag] using fb'))
        simp [hashG, hfin, hatom] at h
        apply uni .e
        intro c hc
        have hm := mem c hc
        rw [h.1, xorDict_eq_mk m' s' hfd and', mem_mk] at hm
        obtain ⟨e, he, e'⟩ := List.mem_map.1 hm
        obtain ⟨⟨_, wk, fk, _⟩, ⟨_, wv, fv, _⟩⟩ := Fd e he
        rw [(desc_at n ihH c (C c hc) (.entryT e.1 e.2) (dict_entry_depth n m' db e he)
          (by simp [wf, wk, wv]) (by simp [frag, plain, fk, fv]) s' e'.symm).2]
        simp only [den]
        exact bucketV_value _ _
      case relation ns' rows' =>
        have fr : frag (.relation ns' rows') = true := by simpa [frag] using fb'
        obtain ⟨hnne, hnnd, _, hwr, hdn, _, F⟩ := relation_facts n ns' rows' db wb' fr
        have tfp : ∀ t, t ∈ rowTs ns' rows' → frag t = true ∧ plain t = true := by
          intro t ht
          obtain ⟨row, hr, rfl⟩ := List.mem_map.1 ht
          exact ⟨(F row hr).2.2.1, rfl⟩
        have RH := rowH ns' ns' rows' rows' db db wb' wb' fr fr
        have an := seeded_nodup (rowTs ns' rows') s' tfp (by rw [← denRows_rowTs]; exact hdn)
          (fun x hx y hy => by have := RH x (by simp [hx]) y (by simp [hy]) s' s'; simpa using this)
        simp [hashG, hfin, hatom] at h
        rw [xorRows_eq_mk ns' rows' s' (fun row hr => (F row hr).2.2.1) an] at h
        have row : ∀ c, c ∈ ucontribs bs → ∃ r, r ∈ rows' ∧ c.1 = atomAt (rowT ns' r) s' := by
          intro c hc
          have hm := mem c hc
          rw [h.1, mem_mk] at hm
          obtain ⟨t, ht, e⟩ := List.mem_map.1 hm
          obtain ⟨r, hr, rfl⟩ := List.mem_map.1 ht
          exact ⟨r, hr, e.symm⟩
        apply uni (.r (headingOf ns'))
        intro c hc
        obtain ⟨r, hr, e⟩ := row c hc
        rw [(desc_at n ihH c (C c hc) (rowT ns' r) (F r hr).1 (F r hr).2.1 (F r hr).2.2.1 s' e).2]
        exact bucketV_rowT ns' rows' r hnnd hnne hwr hr
    -- the hash of a relation differs from the hash of every other plain value
    have relNe : ∀ (ns : List String) (rows : List (List Rep)) (b : Rep), depth (.relation ns rows) < n + 1 →
        depth b < n + 1 → wf (.relation ns rows) = true → wf b = true → frag (.relation ns rows) = true →
        frag b = true → (∀ ns' rows', b ≠ .relation ns' rows') → plain b = true →
        ∀ s s' : HV, hashG true (.relation ns rows) s ≠ hashG true b s' := by
      intro ns rows b dr db wr wb' fr fb' hnr pb s s' h
      have h0 := h
      obtain ⟨hnne, hnnd, hrne, hwr, hdn, _, F⟩ := relation_facts n ns rows dr wr fr
      have tfp : ∀ t, t ∈ rowTs ns rows → frag t = true ∧ plain t = true := by
        intro t ht
        obtain ⟨row, hr, rfl⟩ := List.mem_map.1 ht
        exact ⟨(F row hr).2.2.1, rfl⟩
      have RH := rowH ns ns rows rows dr dr wr wr fr fr
      have an := seeded_nodup (rowTs ns rows) s tfp (by rw [← denRows_rowTs]; exact hdn)
        (fun x hx y hy => by have := RH x (by simp [hx]) y (by simp [hy]) s s; simpa using this)
      obtain ⟨r0, hr0⟩ : ∃ r0, r0 ∈ rows := by
        cases hh : rows with
        | nil => exact absurd hh hrne
        | cons r _ => exact ⟨r, by simp⟩
      obtain ⟨d0, w0, f0, _⟩ := F r0 hr0
      have hn0 : 0 < n := by omega
      have hmem : atomAt (rowT ns r0) s ∈ mk ((rowTs ns rows).map (fun t => atomAt t s)) := by
        rw [mem_mk]; exact List.mem_map.2 ⟨rowT ns r0, List.mem_map.2 ⟨r0, hr0, rfl⟩, rfl⟩
      have hbk := bucketV_rowT ns rows r0 hnnd hnne hwr hr0
      simp only [hashG, hfin, if_true] at h
      rw [xorRows_eq_mk ns rows s (fun row hr => (F row hr).2.2.1) an] at h
      cases b <;> simp [frag] at fb' <;> simp [plain] at pb
      case num x => simp [hashG, hatom] at h
      case charT i c => simp [hashG, hatom] at h
      case byteT i c => simp [hashG, hatom] at h
      case str r off hh => simp [hashG, hatom] at h
      case bytes r off => simp [hashG, hatom] at h
      case relation ns' rows' => exact hnr ns' rows' rfl
      case itemT j y =>
        exact itemNe j y (.relation ns rows) (by simp [frag, fb'.1, fb'.2]) dr wr fr (by intro a b e; cases e) s' s h0.symm
      case entryT k v =>
        exact entryNe k v (.relation ns rows) db wb' (by simp [frag, fb'.1.1.1, fb'.1.1.2, fb'.1.2, fb'.2]) dr wr fr
          (by intro a b e; cases e) s' s h0.symm
      case union bs' =>
        exact unionNe bs' (.relation ns rows) db dr wb' wr (by simpa [frag] using fb') fr (by intro a e; cases e) rfl s' s
          (by simp only [hashG, hfin, if_true]; rw [xorRows_eq_mk ns rows s (fun row hr => (F row hr).2.2.1) an]; exact h.symm)
      case empty =>
        simp [hashG, hfin, hatom] at h
        have := (mk_eq_nil _).1 h.1
        simp [rowTs] at this
        exact hrne this
      case true_ =>
        simp [hashG, hfin, hatom] at h
        rw [h.1] at hmem
        simp at hmem
        have hu : hashG true (rowT ns r0) s = hashG true (.gtuple []) [] := by
          rw [hash_singleton _ f0 rfl, hmem]; simp [hashG, hfin, hatom, xorAttrs, hxor_nil_right]
        have := (ihH (rowT ns r0) (.gtuple []) d0 (by simpa [depth] using hn0) w0
          (by simp [wf, wfAttrs, namesOf, specialisable]) f0 (by simp [frag, fragAttrs]) rfl rfl s []).1 hu
        rw [this.2] at hbk
        simp [den, denAttrs, V.mkTup, bucketV_unit] at hbk
      case gtuple bs =>
        obtain ⟨nb, _, fbs, _⟩ := gtuple_facts n bs db wb' (by simpa [frag] using fb')
        simp only [hashG, hfin, hatom, if_true] at h
        simp at h
        have := gtuple_payload_mem bs s' nb fbs
        rw [show hatom "mapC" (V.set []) s' = [V.tup [("mapC", V.set []), ("seed", V.set s')]] from rfl, ← h.1,
          mem_mk] at this
        obtain ⟨t, ht, e'⟩ := List.mem_map.1 this
        exact atomAt_ne_mapC t (tfp t ht).1 (tfp t ht).2 _ _ _ e'
      case generic ys =>
        obtain ⟨fy, ny, ney, _, wy, dy, py⟩ := generic_facts n ys db wb' (by simpa [frag] using fb')
        have ay := atoms_nodup ys fy py ny (fun x hx y hy =>
          memH ys [] dy (by simp) wy rfl fy rfl py (by simp) x (by simp [hx]) y (by simp [hy]))
        have hgm : ∀ y, y ∈ ys → genericMember y = true := by
          simp only [wf, Bool.and_eq_true] at wb'
          exact fun y hy => List.all_eq_true.1 wb'.1.1.2 y hy
        simp [hashG, hfin, hatom] at h
        rw [h.1] at hmem
        obtain ⟨y, hy, e⟩ := xorList_mem_atom ys fy py ay _ hmem
        have hs := atomAt_seed_inj y (rowT ns r0) (fragList_mem ys y fy hy) (py y hy) f0 rfl _ _ e
        have hu : hashG true y [] = hashG true (rowT ns r0) s := by
          rw [hash_singleton y (fragList_mem ys y fy hy) (py y hy), hash_singleton _ f0 rfl]
          exact congrArg (fun a => [a]) e
        have := (ihH y (rowT ns r0) (dy y hy) d0 (wfList_mem ys y wy hy) w0 (fragList_mem ys y fy hy) f0
          (py y hy) rfl [] s).1 hu
        rw [← this.2, bucketV_genericMember y (hgm y hy)] at hbk
        cases hbk
      case array vs' off' c' =>
        obtain ⟨fo, hh, _, wo, _, _⟩ := array_facts n vs' off' c' db wb' (by simpa [frag] using fb')
        simp [hashG, hfin, hatom] at h
        rw [h.1, xorOpts_eq_mk off' vs' s' fo, mem_mk] at hmem
        obtain ⟨p, hp, e⟩ := List.mem_map.1 hmem
        have hm' := idxItems_mem vs' off' p hp
        obtain ⟨pp, pf⟩ := fragOpts_mem vs' p.2 fo hm'
        have := (atomDen (.itemT p.1 p.2) (rowT ns r0) s' s (array_item_depth n vs' off' c' db p.1 p.2 hm') d0
          (by simpa [wf] using wfOpts_mem vs' p.2 wo hm') w0 (by simp [frag, pf, pp]) f0 e).2
        rw [← this] at hbk
        simp only [den] at hbk
        rw [bucketV_item] at hbk
        cases hbk
      case dict m' =>
        obtain ⟨_, hwd, hk, hfd, hen, Fd⟩ := dict_facts n m' db wb' (by simpa [frag] using fb')
        have and' := dictAtoms_nodup m' s' hfd hwd hk (dictH m' m' db db wb' wb' (by simpa [frag] using fb') (by simpa [frag] using fb'))
        simp [hashG, hfin, hatom] at h
        rw [h.1, xorDict_eq_mk m' s' hfd and', mem_mk] at hmem
        obtain ⟨e, he, e'⟩ := List.mem_map.1 hmem
        obtain ⟨⟨_, wk, fk, _⟩, ⟨_, wv, fv, _⟩⟩ := Fd e he
        have := (atomDen (.entryT e.1 e.2) (rowT ns r0) s' s (dict_entry_depth n m' db e he) d0
          (by simp [wf, wk, wv]) w0 (by simp [frag, plain, fk, fv]) f0 e').2
        rw [← this] at hbk
        simp only [den] at hbk
        rw [bucketV_value] at hbk
        cases hbk
    -- the hash of a dictionary differs from the hash of every other plain value
    have dictNe : ∀ (m : List (Rep × List Rep)) (b : Rep), depth (.dict m) < n + 1 → depth b < n + 1 →
        wf (.dict m) = true → wf b = true → frag (.dict m) = true → frag b = true → (∀ m', b ≠ .dict m') →
        plain b = true → ∀ s s' : HV, hashG true (.dict m) s ≠ hashG true b s' := by
      intro m b dm db wm wb' fm fb' hnd pb s s' h
      have h0 := h
      obtain ⟨_, hwd, hk, hfd, hen, F⟩ := dict_facts n m dm wm fm
      have an := dictAtoms_nodup m s hfd hwd hk (dictH m m dm dm wm wm fm fm)
      -- an entry and its atom
      obtain ⟨e0, he0⟩ : ∃ e0, e0 ∈ entries m := by
        cases hh : entries m with
        | nil => exact absurd hh hen
        | cons e r => exact ⟨e, by simp⟩
      have hmem : atomAt (.entryT e0.1 e0.2) s ∈ mk (dictAtoms m s) := by
        rw [mem_mk]; exact List.mem_map.2 ⟨e0, he0, rfl⟩
      obtain ⟨⟨_, wk0, fk0, pk0⟩, ⟨_, wv0, fv0, pv0⟩⟩ := F e0 he0
      have dE0 := dict_entry_depth n m dm e0 he0
      have wE0 : wf (.entryT e0.1 e0.2) = true := by simp [wf, wk0, wv0]
      have fE0 : frag (.entryT e0.1 e0.2) = true := by simp [frag, plain, fk0, fv0]
      have hbk : bucketV (den (.entryT e0.1 e0.2)) = .e := by simp only [den]; exact bucketV_value _ _
      have hn0 : 0 < n := by omega
      simp only [hashG, hfin, if_true] at h
      rw [xorDict_eq_mk m s hfd an] at h
      cases b <;> simp [frag] at fb' <;> simp [plain] at pb
      case num x => simp [hashG, hatom] at h
      case charT i c => simp [hashG, hatom] at h
      case byteT i c => simp [hashG, hatom] at h
      case str r off hh => simp [hashG, hatom] at h
      case bytes r off => simp [hashG, hatom] at h
      case dict m' => exact hnd m' rfl
      case itemT j y =>
        exact itemNe j y (.dict m) (by simp [frag, fb'.1, fb'.2]) dm wm fm (by intro a b e; cases e) s' s h0.symm
      case entryT k v =>
        exact entryNe k v (.dict m) db wb' (by simp [frag, fb'.1.1.1, fb'.1.1.2, fb'.1.2, fb'.2]) dm wm fm
          (by intro a b e; cases e) s' s h0.symm
      case union bs' =>
        exact unionNe bs' (.dict m) db dm wb' wm (by simpa [frag] using fb') fm (by intro a e; cases e) rfl s' s
          (by simp only [hashG, hfin, if_true]; rw [xorDict_eq_mk m s hfd an]; exact h.symm)
      case empty =>
        simp [hashG, hfin, hatom] at h
        have := (mk_eq_nil _).1 h.1
        simp [dictAtoms] at this
        exact hen this
      case true_ =>
        simp [hashG, hfin, hatom] at h
        rw [h.1] at hmem
        simp at hmem
        have hu : atomAt (.entryT e0.1 e0.2) s = atomAt (.gtuple []) [] := by
          rw [hmem]; simp [atomAt, hashG, hfin, hatom, xorAttrs, hxor_nil_right]
        have := (atomDen _ _ _ _ dE0 (by simpa [depth] using hn0) wE0
          (by simp [wf, wfAttrs, namesOf, specialisable]) fE0 (by simp [frag, fragAttrs]) hu).2
        rw [this] at hbk
        simp [den, denAttrs, V.mkTup, bucketV_unit] at hbk
      case gtuple bs =>
        obtain ⟨nb, _, fbs, _⟩ := gtuple_facts n bs db wb' (by simpa [frag] using fb')
        simp only [hashG, hfin, hatom, if_true] at h
        simp at h
        have := gtuple_payload_mem bs s' nb fbs
        rw [show hatom "mapC" (V.set []) s' = [V.tup [("mapC", V.set []), ("seed", V.set s')]] from rfl, ← h.1,
          mem_mk] at this
        obtain ⟨e, he, e'⟩ := List.mem_map.1 this
        obtain ⟨⟨_, _, fk, _⟩, ⟨_, _, fv, _⟩⟩ := F e he
        exact atomAt_ne_mapC (.entryT e.1 e.2) (by simp [frag, plain, fk, fv]) rfl _ _ _ e'
      case generic ys =>
        obtain ⟨fy, ny, ney, _, wy, dy, py⟩ := generic_facts n ys db wb' (by simpa [frag] using fb')
        have ay := atoms_nodup ys fy py ny (fun x hx y hy =>
          memH ys [] dy (by simp) wy rfl fy rfl py (by simp) x (by simp [hx]) y (by simp [hy]))
        have hgm : ∀ y, y ∈ ys → genericMember y = true := by
          simp only [wf, Bool.and_eq_true] at wb'
          exact fun y hy => List.all_eq_true.1 wb'.1.1.2 y hy
        simp [hashG, hfin, hatom] at h
        rw [h.1] at hmem
        obtain ⟨y, hy, e⟩ := xorList_mem_atom ys fy py ay _ hmem
        have := (atomDen y _ [] s (dy y hy) dE0 (wfList_mem ys y wy hy) wE0 (fragList_mem ys y fy hy) fE0 e).2
        rw [← this, bucketV_genericMember y (hgm y hy)] at hbk
        cases hbk
      case array vs' off' c' =>
        obtain ⟨fo, hh, _, wo, _, _⟩ := array_facts n vs' off' c' db wb' (by simpa [frag] using fb')
        simp [hashG, hfin, hatom] at h
        rw [h.1, xorOpts_eq_mk off' vs' s' fo, mem_mk] at hmem
        obtain ⟨p, hp, e⟩ := List.mem_map.1 hmem
        have hm' := idxItems_mem vs' off' p hp
        obtain ⟨pp, pf⟩ := fragOpts_mem vs' p.2 fo hm'
        have := (atomDen (.itemT p.1 p.2) _ s' s (array_item_depth n vs' off' c' db p.1 p.2 hm') dE0
          (by simpa [wf] using wfOpts_mem vs' p.2 wo hm') wE0 (by simp [frag, pf, pp]) fE0 e).2
        rw [← this] at hbk
        simp only [den] at hbk
        rw [bucketV_item] at hbk
        cases hbk
      case relation ns' rows' =>
        exact relNe ns' rows' (.dict m) db dm wb' wm (by simpa [frag] using fb') fm (by intro a b e; cases e) rfl s' s
          (by simp only [hashG, hfin, if_true]; rw [xorDict_eq_mk m s hfd an]; exact h.symm)
    -- the hash of an array differs from the hash of every value of another type
    have arrNe : ∀ (vs : List (Option Rep)) (off c : Int) (b : Rep), depth (.array vs off c) < n + 1 →
        depth b < n + 1 → wf (.array vs off c) = true → wf b = true → frag (.array vs off c) = true →
        frag b = true → (∀ vs' off' c', b ≠ .array vs' off' c') → plain b = true →
        ∀ s s' : HV, hashG true (.array vs off c) s ≠ hashG true b s' := by
      intro vs off c b da db wa' wb' fa' fb' hna pb s s' h
      have h0 := h
      obtain ⟨fo, hh, _, wo, _, _⟩ := array_facts n vs off c da wa' fa'
      obtain ⟨p, hp⟩ : ∃ p, p ∈ idxItems off vs := by
        cases hi : idxItems off vs with
        | nil => exact absurd hi (idxItems_ne_nil off vs hh)
        | cons p r => exact ⟨p, by simp⟩
      have hm' := idxItems_mem vs off p hp
      obtain ⟨pp, pf⟩ := fragOpts_mem vs p.2 fo hm'
      have hmem : atomAt (.itemT p.1 p.2) s ∈ mk (arrAtoms off vs s) := by
        rw [mem_mk]; exact List.mem_map.2 ⟨p, hp, rfl⟩
      have dE0 := array_item_depth n vs off c da p.1 p.2 hm'
      have wE0 : wf (.itemT p.1 p.2) = true := by simpa [wf] using wfOpts_mem vs p.2 wo hm'
      have fE0 : frag (.itemT p.1 p.2) = true := by simp [frag, pf, pp]
      have hbk : bucketV (den (.itemT p.1 p.2)) = .i := by simp only [den]; exact bucketV_item _ _
      have hn0 : 0 < n := by omega
      simp only [hashG, hfin, if_true] at h
      rw [xorOpts_eq_mk off vs s fo] at h
      cases b <;> simp [plain] at pb
      case num x => simp [hashG, hatom] at h
      case charT i c => simp [hashG, hatom] at h
      case byteT i c => simp [hashG, hatom] at h
      case str r off hh => simp [hashG, hatom] at h
      case bytes r off => simp [hashG, hatom] at h
      case array vs' off' c' => exact hna vs' off' c' rfl
      case itemT j y => exact itemNe j y (.array vs off c) fb' da wa' fa' (by intro a b e; cases e) s' s h0.symm
      case entryT k v =>
        exact entryNe k v (.array vs off c) db wb' fb' da wa' fa' (by intro a b e; cases e) s' s h0.symm
      case dict m' =>
        exact dictNe m' (.array vs off c) db da wb' wa' fb' fa' (by intro a e; cases e) rfl s' s h0.symm
      case relation ns' rows' =>
        exact relNe ns' rows' (.array vs off c) db da wb' wa' fb' fa' (by intro a b e; cases e) rfl s' s h0.symm
      case union bs' =>
        exact unionNe bs' (.array vs off c) db da wb' wa' fb' fa' (by intro a e; cases e) rfl s' s h0.symm
      case empty =>
        simp [hashG, hfin, hatom] at h
        rw [h.1] at hmem
        simp at hmem
      case true_ =>
        simp [hashG, hfin, hatom] at h
        rw [h.1] at hmem
        simp at hmem
        have hu : atomAt (.itemT p.1 p.2) s = atomAt (.gtuple []) [] := by
          rw [hmem]; simp [atomAt, hashG, hfin, hatom, xorAttrs, hxor_nil_right]
        have := (atomDen _ _ _ _ dE0 (by simpa [depth] using hn0) wE0
          (by simp [wf, wfAttrs, namesOf, specialisable]) fE0 (by simp [frag, fragAttrs]) hu).2
        rw [this] at hbk
        simp [den, denAttrs, V.mkTup, bucketV_unit] at hbk
      case gtuple bs =>
        obtain ⟨nb, _, fbs, _⟩ := gtuple_facts n bs db wb' (by simpa [frag] using fb')
        simp only [hashG, hfin, hatom, if_true] at h
        simp at h
        have := gtuple_payload_mem bs s' nb fbs
        rw [show hatom "mapC" (V.set []) s' = [V.tup [("mapC", V.set []), ("seed", V.set s')]] from rfl, ← h.1,
          mem_mk] at this
        obtain ⟨q, hq, e'⟩ := List.mem_map.1 this
        obtain ⟨qp, qf⟩ := fragOpts_mem vs q.2 fo (idxItems_mem vs off q hq)
        exact atomAt_ne_mapC (.itemT q.1 q.2) (by simp [frag, qf, qp]) rfl _ _ _ e'
      case generic ys =>
        obtain ⟨fy, ny, ney, _, wy, dy, py⟩ := generic_facts n ys db wb' (by simpa [frag] using fb')
        have ay := atoms_nodup ys fy py ny (fun x hx y hy =>
          memH ys [] dy (by simp) wy rfl fy rfl py (by simp) x (by simp [hx]) y (by simp [hy]))
        have hgm : ∀ y, y ∈ ys → genericMember y = true := by
          simp only [wf, Bool.and_eq_true] at wb'
          exact fun y hy => List.all_eq_true.1 wb'.1.1.2 y hy
        simp [hashG, hfin, hatom] at h
        rw [h.1] at hmem
        obtain ⟨y, hy, e⟩ := xorList_mem_atom ys fy py ay _ hmem
        have := (atomDen y _ [] s (dy y hy) dE0 (wfList_mem ys y wy hy) wE0 (fragList_mem ys y fy hy) fE0 e).2
        rw [← this, bucketV_genericMember y (hgm y hy)] at hbk
        cases hbk
    cases a with
    | num x =>
      cases b with
      | num y =>
        refine ⟨by simp [equal, equalG, den], fun _ _ s s' => ?_⟩
        simp [hashG, hatom, den]; constructor <;> (rintro ⟨h1, h2⟩; exact ⟨h2, h1⟩)
      | _ => cross htag fb
    | charT i c =>
      cases b with
      | charT j d =>
        refine ⟨by simp [equal, equalG, den, vpair], fun _ _ s s' => ?_⟩
        simp [hashG, hatom, den, vpair]; constructor <;> (rintro ⟨h1, h2⟩; exact ⟨h2, h1⟩)
      | _ => cross htag fb
    | byteT i c =>
      cases b with
      | byteT j d =>
        refine ⟨by simp [equal, equalG, den, vpair], fun _ _ s s' => ?_⟩
        simp [hashG, hatom, den, vpair]; constructor <;> (rintro ⟨h1, h2⟩; exact ⟨h2, h1⟩)
      | _ => cross htag fb
    | itemT i x =>
      by_cases hbi : ∃ j y, b = .itemT j y
      · obtain ⟨j, y, rfl⟩ := hbi
        have fx : frag x = true := by simpa [frag, plain] using fa
        have fy : frag y = true := by simpa [frag, plain] using fb
        have dx : depth x < n := by simp only [depth] at ha; omega
        have dy : depth y < n := by simp only [depth] at hb; omega
        have M := ih x y dx dy (by simpa [wf] using wa) (by simpa [wf] using wb) fx fy
        have key : ∀ σ σ' : HV, atomAt x σ = atomAt y σ' ↔ (σ = σ' ∧ den x = den y) := by
          intro σ σ'
          rw [atom_iff_hash x y fx rfl fy rfl]
          exact M.2 rfl rfl σ σ'
        refine ⟨?_, fun _ _ s s' => ?_⟩
        · simp only [equal, equalG, Bool.and_eq_true, beq_iff_eq]
          rw [show equalG true x y = equal x y from rfl, M.1]
          simp [den, vpair]
        · have hl : hashG true (.itemT i x) s = hatom "fin" (.set [atomAt x (intSeed i s)]) s := by
            simp [hashG, tfin, intSeed, hash_singleton x fx rfl]
          have hr : hashG true (.itemT j y) s' = hatom "fin" (.set [atomAt y (intSeed j s')]) s' := by
            simp [hashG, tfin, intSeed, hash_singleton y fy rfl]
          rw [hl, hr]
          constructor
          · intro h
            have h' : atomAt x (intSeed i s) = atomAt y (intSeed j s') ∧ s = s' := by simpa [hatom] using h
            obtain ⟨h1, rfl⟩ := h'
            obtain ⟨hs, hd⟩ := (key _ _).1 h1
            have hij := ((intSeed_inj _ _ _ _).1 hs).1
            subst hij
            exact ⟨rfl, by simp only [den]; rw [hd]⟩
          · rintro ⟨rfl, hd⟩
            simp only [den] at hd
            obtain ⟨h1, h2⟩ := vpair_inj hd
            have hij : i = j := by simpa using h1
            subst hij
            rw [(key (intSeed i s) (intSeed i s)).2 ⟨rfl, h2⟩]
      · have hni : ∀ j y, b ≠ .itemT j y := fun j y e => hbi ⟨j, y, e⟩
        have hct : ctorTag (.itemT i x) ≠ ctorTag b := by
          cases b <;> simp [ctorTag]
          case itemT j y => exact hni j y rfl
        have heq : equal (.itemT i x) b = false := by
          cases b <;> simp [equal, equalG]
          case itemT j y => exact absurd rfl (hni j y)
        exact cross_lemma _ _ hct htag heq (fun _ _ s s' => itemNe i x b fa hb wb fb hni s s')
    | entryT k v =>
      by_cases hbe : ∃ k' v', b = .entryT k' v'
      · obtain ⟨k', v', rfl⟩ := hbe
        have fkv : frag k = true ∧ frag v = true := by simpa [frag, plain] using fa
        have fkv' : frag k' = true ∧ frag v' = true := by simpa [frag, plain] using fb
        have wkv : wf k = true ∧ wf v = true := by simpa [wf] using wa
        have wkv' : wf k' = true ∧ wf v' = true := by simpa [wf] using wb
        simp only [depth] at ha hb
        have M1 := ih k k' (by omega) (by omega) wkv.1 wkv'.1 fkv.1 fkv'.1
        have M2 := ih v v' (by omega) (by omega) wkv.2 wkv'.2 fkv.2 fkv'.2
        refine ⟨?_, fun _ _ s s' => ?_⟩
        · simp only [equal, equalG, Bool.and_eq_true]
          rw [show equalG true k k' = equal k k' from rfl, show equalG true v v' = equal v v' from rfl, M1.1, M2.1]
          simp [den, vpair]
        · have hl : hashG true (.entryT k v) s = hatom "fin" (.set [atomAt v (hashG true k s)]) s := by
            simp [hashG, tfin, hash_singleton v fkv.2 rfl]
          have hr : hashG true (.entryT k' v') s' = hatom "fin" (.set [atomAt v' (hashG true k' s')]) s' := by
            simp [hashG, tfin, hash_singleton v' fkv'.2 rfl]
          rw [hl, hr]
          constructor
          · intro h
            have h' : atomAt v (hashG true k s) = atomAt v' (hashG true k' s') ∧ s = s' := by simpa [hatom] using h
            obtain ⟨h1, rfl⟩ := h'
            rw [atom_iff_hash v v' fkv.2 rfl fkv'.2 rfl] at h1
            obtain ⟨hs, hd⟩ := (M2.2 rfl rfl _ _).1 h1
            obtain ⟨_, hk⟩ := (M1.2 rfl rfl _ _).1 hs
            exact ⟨rfl, by simp only [den]; rw [hd, hk]⟩
          · rintro ⟨rfl, hd⟩
            simp only [den] at hd
            obtain ⟨h1, h2⟩ := vpair_inj hd
            have hk : hashG true k s = hashG true k' s := (M1.2 rfl rfl s s).2 ⟨rfl, h1⟩
            have : atomAt v (hashG true k s) = atomAt v' (hashG true k' s) := by
              rw [atom_iff_hash v v' fkv.2 rfl fkv'.2 rfl]
              exact (M2.2 rfl rfl _ _).2 ⟨hk, h2⟩
            rw [this]
      · have hne : ∀ k' v', b ≠ .entryT k' v' := fun k' v' e => hbe ⟨k', v', e⟩
        have hct : ctorTag (.entryT k v) ≠ ctorTag b := by
          cases b <;> simp [ctorTag]
          case entryT k' v' => exact hne k' v' rfl
        have heq : equal (.entryT k v) b = false := by
          cases b <;> simp [equal, equalG]
          case entryT k' v' => exact absurd rfl (hne k' v')
        exact cross_lemma _ _ hct htag heq (fun _ _ s s' => entryNe k v b ha wa fa hb wb fb hne s s')
    | str r off h =>
      cases b with
      | str r' off' h' =>
        have key := str_den_inj r r' off off' h h' wa wb
        refine ⟨?_, fun _ _ s s' => ?_⟩
        · rw [key]; simp [equal, equalG]
          constructor
          · rintro ⟨⟨⟨h1, h2⟩, _⟩, h4⟩; exact ⟨h1, h4, h2⟩
          · rintro ⟨h1, h2, h3⟩; subst h2; exact ⟨⟨⟨h1, h3⟩, rfl⟩, rfl⟩
        · rw [key]; simp [hashG, hatom, numsV_inj]
          constructor
          · rintro ⟨⟨h1, h2⟩, h3⟩
            subst h1 h2 h3
            have := (key.1 rfl).2.2
            exact ⟨rfl, rfl, rfl, this⟩
          · rintro ⟨h1, h2, h3, _⟩; exact ⟨⟨h2, h3⟩, h1⟩
      | _ => cross htag fb
    | bytes r off =>
      cases b with
      | bytes r' off' =>
        have key := bytes_den_inj r r' off off' wa wb
        refine ⟨?_, fun _ _ s s' => ?_⟩
        · rw [key]; simp [equal, equalG]
        · rw [key]; simp [hashG, hatom, numsV_inj]
          constructor
          · rintro ⟨⟨h1, h2⟩, h3⟩; exact ⟨h3, h1, h2⟩
          · rintro ⟨h1, h2, h3⟩; exact ⟨⟨h2, h3⟩, h1⟩
      | _ => cross htag fb
    | empty =>
      cases b with
      | empty => exact ⟨by simp [equal, equalG], fun _ _ s s' => by simp [hashG, hfin, hatom]⟩
      | generic ys =>
        obtain ⟨fy, ny, ney, _, wy, dy, py⟩ := generic_facts n ys hb wb fb
        have ay := atoms_nodup ys fy py ny (fun x hx y hy =>
          memH ys [] dy (by simp) wy rfl fy rfl py (by simp) x (by simp [hx]) y (by simp [hy]))
        apply cross_lemma _ _ (by simp [ctorTag]) htag (by simp [equal, equalG])
        intro _ _ s s' h
        simp [hashG, hfin, hatom] at h
        exact xorList_ne_nil ys fy py ay ney h.1
      | array vs' off' c' =>
        exact cross_lemma _ _ (by simp [ctorTag]) htag (by simp [equal, equalG])
          (fun pa _ s s' h => arrNe vs' off' c' _ hb ha wb wa fb fa (by intro a b c e; cases e) pa s' s h.symm)
      | gtuple bs =>
        obtain ⟨nb, _, fbs, _⟩ := gtuple_facts n bs hb wb fb
        apply cross_lemma _ _ (by simp [ctorTag]) htag (by simp [equal, equalG])
        intro _ _ s s' h
        simp only [hashG, hfin, hatom, if_true] at h
        simp at h
        have := gtuple_payload_mem bs s' nb fbs
        rw [show hatom "mapC" (V.set []) s' = [V.tup [("mapC", V.set []), ("seed", V.set s')]] from rfl, h.1] at this
        simp at this
      | dict m' =>
        exact cross_lemma _ _ (by simp [ctorTag]) htag (by simp [equal, equalG, isTuple])
          (fun pa _ s s' h => dictNe m' _ hb ha wb wa fb fa (by intro m e; cases e) pa s' s h.symm)
      | relation ns' rows' =>
        exact cross_lemma _ _ (by simp [ctorTag]) htag (by simp [equal, equalG])
          (fun pa _ s s' h => relNe ns' rows' _ hb ha wb wa fb fa (by intro a b e; cases e) pa s' s h.symm)
      | union bs' =>
        exact cross_lemma _ _ (by simp [ctorTag]) htag (by simp [equal, equalG])
          (fun pa _ s s' h => unionNe bs' _ hb ha wb wa fb fa (by intro a e; cases e) pa s' s h.symm)
      | itemT j' y' =>
        exact cross_lemma _ _ (by simp [ctorTag]) htag (by simp [equal, equalG])
          (fun _ _ s s' h => itemNe j' y' _ fb ha wa fa (by intro a b e; cases e) s' s h.symm)
      | entryT k' v' =>
        exact cross_lemma _ _ (by simp [ctorTag]) htag (by simp [equal, equalG])
          (fun _ _ s s' h => entryNe k' v' _ hb wb fb ha wa fa (by intro a b e; cases e) s' s h.symm)
      | _ => cross htag fb
    | true_ =>
      cases b with
      | true_ => exact ⟨by simp [equal, equalG], fun _ _ s s' => by simp [hashG, hfin, hatom]⟩
      | generic ys =>
        obtain ⟨fy, ny, ney, nty, wy, dy, py⟩ := generic_facts n ys hb wb fb
        have hn : 0 < n := by simp only [depth] at hb; omega
        obtain ⟨u1, u2, u3, u4⟩ := unitFacts hn
        have Hy := memH ys [.gtuple []] dy u1 wy u2 fy u3 py u4
        have ay := atoms_nodup ys fy py ny (fun x hx y hy => Hy x (by simp [hx]) y (by simp [hy]))
        apply cross_lemma _ _ (by simp [ctorTag]) htag (by simp [equal, equalG])
        intro _ _ s s' h
        simp [hashG, hfin, hatom] at h
        obtain ⟨y, e, hy⟩ := xorList_single ys fy py ay _ h.1.symm
        subst e
        have hfy : frag y = true := by simpa [fragList] using fy
        have h2 : hashG true y [] = hashG true (.gtuple []) [] := by
          have hy' : atomAt y [] = _ := hy
          rw [hash_singleton y hfy (py y (by simp)), hy']; simp [hashG, hfin, hatom, xorAttrs, hxor_nil_right]
        have := (Hy y (by simp) (.gtuple []) (by simp)).1 h2
        simp [den, denAttrs, V.mkTup] at this
        apply nty; simp [denList, this]
      | array vs' off' c' =>
        exact cross_lemma _ _ (by simp [ctorTag]) htag (by simp [equal, equalG])
          (fun pa _ s s' h => arrNe vs' off' c' _ hb ha wb wa fb fa (by intro a b c e; cases e) pa s' s h.symm)
      | gtuple bs =>
        obtain ⟨nb, _, fbs, _⟩ := gtuple_facts n bs hb wb fb
        apply cross_lemma _ _ (by simp [ctorTag]) htag (by simp [equal, equalG])
        intro _ _ s s' h
        simp only [hashG, hfin, hatom, if_true] at h
        simp at h
        have := gtuple_payload_mem bs s' nb fbs
        rw [show hatom "mapC" (V.set []) s' = [V.tup [("mapC", V.set []), ("seed", V.set s')]] from rfl, ← h.1] at this
        simp [mapC] at this
      | dict m' =>
        exact cross_lemma _ _ (by simp [ctorTag]) htag (by simp [equal, equalG, isTuple])
          (fun pa _ s s' h => dictNe m' _ hb ha wb wa fb fa (by intro m e; cases e) pa s' s h.symm)
      | relation ns' rows' =>
        exact cross_lemma _ _ (by simp [ctorTag]) htag (by simp [equal, equalG])
          (fun pa _ s s' h => relNe ns' rows' _ hb ha wb wa fb fa (by intro a b e; cases e) pa s' s h.symm)
      | union bs' =>
        exact cross_lemma _ _ (by simp [ctorTag]) htag (by simp [equal, equalG])
          (fun pa _ s s' h => unionNe bs' _ hb ha wb wa fb fa (by intro a e; cases e) pa s' s h.symm)
      | itemT j' y' =>
        exact cross_lemma _ _ (by simp [ctorTag]) htag (by simp [equal, equalG])
          (fun _ _ s s' h => itemNe j' y' _ fb ha wa fa (by intro a b e; cases e) s' s h.symm)
      | entryT k' v' =>
        exact cross_lemma _ _ (by simp [ctorTag]) htag (by simp [equal, equalG])
          (fun _ _ s s' h => entryNe k' v' _ hb wb fb ha wa fa (by intro a b e; cases e) s' s h.symm)
      | _ => cross htag fb
    | gtuple as =>
      obtain ⟨na, was, fas, das⟩ := gtuple_facts n as ha wa fa
      have pm := fun s => gtuple_payload_mem as s na fas
      by_cases hbt : isTuple b = true
      · -- against any tuple: the name ↦ value maps
        have hn : 0 < n ∨ as = [] := by
          cases as with
          | nil => exact Or.inr rfl
          | cons p r => exact Or.inl (by have := das p (by simp); omega)
        have HE : ∀ p, p ∈ as → ∀ q, q ∈ attrsOf b → (equal p.2 q.2 = true ↔ den p.2 = den q.2) := by
          intro p hp q hq
          have hn' : 0 < n := by have := das p hp; omega
          obtain ⟨_, fq⟩ := attrsOf_facts n b hbt hb hn' wb fb
          obtain ⟨dq, wq, fq'⟩ := fq q hq
          exact (ih p.2 q.2 (das p hp) dq (wfAttrs_mem as p was hp) wq (fragAttrs_mem as p fas hp).2 fq').1
        have nb : (namesOf (attrsOf b)).Nodup := by
          cases b <;> simp [isTuple] at hbt <;> simp [attrsOf, namesOf]
          case gtuple bs => exact (gtuple_facts n bs hb wb fb).1
        have heq := gtuple_equal_iff as b hbt na nb HE
        refine ⟨heq, ?_⟩
        cases b with
        | gtuple bs =>
          obtain ⟨nbs, wbs, fbs, dbs⟩ := gtuple_facts n bs hb wb fb
          intro _ _ s s'
          have HH : ∀ p, p ∈ as → ∀ q, q ∈ bs → ∀ S S' : HV,
              (hashG true p.2 S = hashG true q.2 S' ↔ (S = S' ∧ den p.2 = den q.2)) := by
            intro p hp q hq
            obtain ⟨pp, pf⟩ := fragAttrs_mem as p fas hp
            obtain ⟨qp, qf⟩ := fragAttrs_mem bs q fbs hq
            exact ihH p.2 q.2 (das p hp) (dbs q hq) (wfAttrs_mem as p was hp) (wfAttrs_mem bs q wbs hq) pf qf pp qp
          simp only [hashG, hfin, hatom, if_true]
          constructor
          · intro h
            simp at h
            obtain ⟨h1, h2⟩ := h
            subst h2
            refine ⟨rfl, ?_⟩
            have h1' : hxor (hatom "mapC" (.set []) s) (xorAttrs true as s) =
                hxor (hatom "mapC" (.set []) s) (xorAttrs true bs s) := h1
            rw [gtuple_payload as s na fas, gtuple_payload bs s nbs fbs] at h1'
            exact (gtuple_core as bs s na nbs fas fbs HH).1 h1'
          · rintro ⟨rfl, h⟩
            have := (gtuple_core as bs s na nbs fas fbs HH).2 h
            rw [← gtuple_payload as s na fas, ← gtuple_payload bs s nbs fbs] at this
            simp only [hatom] at this
            rw [this]
        | charT j d =>
          intro _ _ s s'
          exact ⟨fun h => by simp [hashG, hfin, hatom] at h, fun h => absurd (htag h.2) (by simp [ctorTag])⟩
        | byteT j d =>
          intro _ _ s s'
          exact ⟨fun h => by simp [hashG, hfin, hatom] at h, fun h => absurd (htag h.2) (by simp [ctorTag])⟩
        | itemT j y =>
          intro _ _ s s'
          exact ⟨fun h => absurd h.symm (itemNe j y _ fb ha wa fa (by intro a b e; cases e) s' s),
            fun h => absurd (htag h.2) (by simp [ctorTag])⟩
        | entryT k v =>
          intro _ _ s s'
          exact ⟨fun h => absurd h.symm (entryNe k v _ hb wb fb ha wa fa (by intro a b e; cases e) s' s),
            fun h => absurd (htag h.2) (by simp [ctorTag])⟩
        | _ => simp [isTuple] at hbt
      · -- against a non-tuple
        have hbt' : isTuple b = false := by simpa using hbt
        cases b with
        | generic ys =>
          obtain ⟨fy, ny, ney, _, wy, dy, py⟩ := generic_facts n ys hb wb fb
          have ay := atoms_nodup ys fy py ny (fun x hx y hy =>
            memH ys [] dy (by simp) wy rfl fy rfl py (by simp) x (by simp [hx]) y (by simp [hy]))
          apply cross_lemma _ _ (by simp [ctorTag]) htag (by simp [equal, equalG, isTuple])
          intro _ _ s s' h
          simp only [hashG, hfin, hatom, if_true] at h
          simp at h
          have := pm s
          rw [show hatom "mapC" (V.set []) s = [V.tup [("mapC", V.set []), ("seed", V.set s)]] from rfl, h.1] at this
          obtain ⟨y, hy, e⟩ := xorList_mem_atom ys fy py ay _ this
          exact atomAt_ne_mapC y (fragList_mem ys y fy hy) (py y hy) [] _ _ e
        | array vs' off' c' =>
          exact cross_lemma _ _ (by simp [ctorTag]) htag (by simp [equal, equalG, isTuple])
            (fun pa _ s s' h => arrNe vs' off' c' _ hb ha wb wa fb fa (by intro a b c e; cases e) pa s' s h.symm)
        | empty =>
          apply cross_lemma _ _ (by simp [ctorTag]) htag (by simp [equal, equalG, isTuple])
          intro _ _ s s' h
          simp only [hashG, hfin, hatom, if_true] at h
          simp at h
          have := pm s
          rw [show hatom "mapC" (V.set []) s = [V.tup [("mapC", V.set []), ("seed", V.set s)]] from rfl, h.1] at this
          simp at this
        | true_ =>
          apply cross_lemma _ _ (by simp [ctorTag]) htag (by simp [equal, equalG, isTuple])
          intro _ _ s s' h
          simp only [hashG, hfin, hatom, if_true] at h
          simp at h
          have := pm s
          rw [show hatom "mapC" (V.set []) s = [V.tup [("mapC", V.set []), ("seed", V.set s)]] from rfl, h.1] at this
          simp [mapC] at this
        | num y =>
          exact cross_lemma _ _ (by simp [ctorTag]) htag (by simp [equal, equalG, isTuple])
            (by intro _ _ s s'; simp [hashG, hfin, hatom])
        | str r off h =>
          exact cross_lemma _ _ (by simp [ctorTag]) htag (by simp [equal, equalG, isTuple])
            (by intro _ _ s s'; simp [hashG, hfin, hatom])
        | bytes r off =>
          exact cross_lemma _ _ (by simp [ctorTag]) htag (by simp [equal, equalG, isTuple])
            (by intro _ _ s s'; simp [hashG, hfin, hatom])
        | dict m' =>
          exact cross_lemma _ _ (by simp [ctorTag]) htag (by simp [equal, equalG, isTuple])
            (fun pa _ s s' h => dictNe m' _ hb ha wb wa fb fa (by intro m e; cases e) pa s' s h.symm)
        | relation ns' rows' =>
          exact cross_lemma _ _ (by simp [ctorTag]) htag (by simp [equal, equalG, isTuple])
            (fun pa _ s s' h => relNe ns' rows' _ hb ha wb wa fb fa (by intro a b e; cases e) pa s' s h.symm)
        | union bs' =>
          exact cross_lemma _ _ (by simp [ctorTag]) htag (by simp [equal, equalG, isTuple])
            (fun pa _ s s' h => unionNe bs' _ hb ha wb wa fb fa (by intro a e; cases e) pa s' s h.symm)
        | _ => simp [isTuple] at hbt'
    | generic xs =>
      obtain ⟨fx, nx, nex, ntx, wx, dx, px⟩ := generic_facts n xs ha wa fa
      have ax := atoms_nodup xs fx px nx (fun x hx y hy =>
        memH xs [] dx (by simp) wx rfl fx rfl px (by simp) x (by simp [hx]) y (by simp [hy]))
      cases b with
      | generic ys =>
        obtain ⟨fy, ny, ney, _, wy, dy, py⟩ := generic_facts n ys hb wb fb
        obtain ⟨c1, c2⟩ := generic_core xs ys fx fy px py nx ny (memH xs ys dx dy wx wy fx fy px py)
        have hne := xorList_ne_nil xs fx px ax nex
        have hden : den (.generic xs) = den (.generic ys) ↔ mk (denList xs) = mk (denList ys) := by
          simp [den, V.mkSet]
        refine ⟨?_, fun _ _ s s' => ?_⟩
        · rw [hden, ← c1]
          have hX : (xorList true xs).isEmpty = false := by
            cases hx : xorList true xs with
            | nil => exact absurd hx hne
            | cons _ _ => rfl
          simp only [equal, equalG, frozenEq, hX, Bool.and_eq_true, beq_iff_eq, Bool.not_false, Bool.true_or,
            and_true]
          constructor
          · exact fun h => h.2
          · intro h; exact ⟨c2 (c1.1 h), h⟩
        · rw [hden, ← c1]
          simp [hashG, hfin, hatom]
          constructor <;> (rintro ⟨h1, h2⟩; exact ⟨h2, h1⟩)
      | empty =>
        apply cross_lemma _ _ (by simp [ctorTag]) htag (by simp [equal, equalG])
        intro _ _ s s' h
        simp [hashG, hfin, hatom] at h
        exact xorList_ne_nil xs fx px ax nex h.1
      | true_ =>
        have hn : 0 < n := by simp only [depth] at ha; omega
        obtain ⟨u1, u2, u3, u4⟩ := unitFacts hn
        have Hx := memH xs [.gtuple []] dx u1 wx u2 fx u3 px u4
        apply cross_lemma _ _ (by simp [ctorTag]) htag (by simp [equal, equalG])
        intro _ _ s s' h
        simp [hashG, hfin, hatom] at h
        obtain ⟨y, e, hy⟩ := xorList_single xs fx px ax _ h.1
        subst e
        have hfy : frag y = true := by simpa [fragList] using fx
        have h2 : hashG true y [] = hashG true (.gtuple []) [] := by
          have hy' : atomAt y [] = _ := hy
          rw [hash_singleton y hfy (px y (by simp)), hy']; simp [hashG, hfin, hatom, xorAttrs, hxor_nil_right]
        have := (Hx y (by simp) (.gtuple []) (by simp)).1 h2
        simp [den, denAttrs, V.mkTup] at this
        apply ntx; simp [denList, this]
      | gtuple bs =>
        obtain ⟨nb, _, fbs, _⟩ := gtuple_facts n bs hb wb fb
        apply cross_lemma _ _ (by simp [ctorTag]) htag (by simp [equal, equalG])
        intro _ _ s s' h
        simp only [hashG, hfin, hatom, if_true] at h
        simp at h
        have := gtuple_payload_mem bs s' nb fbs
        rw [show hatom "mapC" (V.set []) s' = [V.tup [("mapC", V.set []), ("seed", V.set s')]] from rfl, ← h.1] at this
        obtain ⟨y, hy, e⟩ := xorList_mem_atom xs fx px ax _ this
        exact atomAt_ne_mapC y (fragList_mem xs y fx hy) (px y hy) [] _ _ e
      | array vs' off' c' =>
        exact cross_lemma _ _ (by simp [ctorTag]) htag (by simp [equal, equalG])
          (fun pa _ s s' h => arrNe vs' off' c' _ hb ha wb wa fb fa (by intro a b c e; cases e) pa s' s h.symm)
      | dict m' =>
        exact cross_lemma _ _ (by simp [ctorTag]) htag (by simp [equal, equalG, isTuple])
          (fun pa _ s s' h => dictNe m' _ hb ha wb wa fb fa (by intro m e; cases e) pa s' s h.symm)
      | relation ns' rows' =>
        exact cross_lemma _ _ (by simp [ctorTag]) htag (by simp [equal, equalG])
          (fun pa _ s s' h => relNe ns' rows' _ hb ha wb wa fb fa (by intro a b e; cases e) pa s' s h.symm)
      | union bs' =>
        exact cross_lemma _ _ (by simp [ctorTag]) htag (by simp [equal, equalG])
          (fun pa _ s s' h => unionNe bs' _ hb ha wb wa fb fa (by intro a e; cases e) pa s' s h.symm)
      | itemT j' y' =>
        exact cross_lemma _ _ (by simp [ctorTag]) htag (by simp [equal, equalG])
          (fun _ _ s s' h => itemNe j' y' _ fb ha wa fa (by intro a b e; cases e) s' s h.symm)
      | entryT k' v' =>
        exact cross_lemma _ _ (by simp [ctorTag]) htag (by simp [equal, equalG])
          (fun _ _ s s' h => entryNe k' v' _ hb wb fb ha wa fa (by intro a b e; cases e) s' s h.symm)
      | _ => cross htag fb
    | array vs off c =>
      obtain ⟨fo, hh, hl, wo, hc, dv⟩ := array_facts n vs off c ha wa fa
      cases b with
      | array vs' off' c' =>
        obtain ⟨fo', hh', hl', wo', hc', dv'⟩ := array_facts n vs' off' c' hb wb fb
        have HH : ∀ x, some x ∈ vs → ∀ y, some y ∈ vs' → ∀ S S' : HV,
            (hashG true x S = hashG true y S' ↔ (S = S' ∧ den x = den y)) := by
          intro x hx y hy
          obtain ⟨px, fx⟩ := fragOpts_mem vs x fo hx
          obtain ⟨py, fy⟩ := fragOpts_mem vs' y fo' hy
          exact ihH x y (dv x hx) (dv' y hy) (wfOpts_mem vs x wo hx) (wfOpts_mem vs' y wo' hy) fx fy px py
        have HE : ∀ x, some x ∈ vs → ∀ y, some y ∈ vs' → (equal x y = true ↔ den x = den y) := by
          intro x hx y hy
          obtain ⟨_, fx⟩ := fragOpts_mem vs x fo hx
          obtain ⟨_, fy⟩ := fragOpts_mem vs' y fo' hy
          exact (ih x y (dv x hx) (dv' y hy) (wfOpts_mem vs x wo hx) (wfOpts_mem vs' y wo' hy) fx fy).1
        -- the denotation determines offset and items
        have hden : den (.array vs off c) = den (.array vs' off' c') ↔ (off = off' ∧ denOpts vs = denOpts vs') := by
          rw [den_array, den_array]
          constructor
          · intro h
            have h' : seqM "@item" off (denOpts vs) = seqM "@item" off' (denOpts vs') := by simpa using h
            exact seqM_inj "@item" _ _ off off' (headSome_denOpts vs hh) (headSome_denOpts vs' hh')
              (lastSome_noTrail _ (lastSome_denOpts vs hl)) (lastSome_noTrail _ (lastSome_denOpts vs' hl')) h'
          · rintro ⟨rfl, h⟩; rw [h]
        refine ⟨?_, fun _ _ s s' => ?_⟩
        · rw [hden]
          simp only [equal, equalG, Bool.and_eq_true, beq_iff_eq]
          constructor
          · rintro ⟨⟨⟨h1, h2⟩, _⟩, h4⟩
            exact ⟨h2, (arrEq_iff vs vs' (by exact_mod_cast h1) HE).1 h4⟩
          · rintro ⟨h1, h2⟩
            have hlen : vs.length = vs'.length := by
              have := congrArg List.length h2
              rwa [denOpts_length, denOpts_length] at this
            refine ⟨⟨⟨by exact_mod_cast hlen, h1⟩, ?_⟩, (arrEq_iff vs vs' hlen HE).2 h2⟩
            rw [hc, hc', ← optCount_denOpts vs, ← optCount_denOpts vs', h2]
        · simp only [hashG, hfin, hatom, if_true]
          constructor
          · intro h
            simp at h
            obtain ⟨h1, h2⟩ := h
            subst h2
            refine ⟨rfl, ?_⟩
            rw [den_array, den_array]
            exact congrArg _ ((array_core vs vs' off off' s fo fo' HH).1 h1)
          · rintro ⟨rfl, h⟩
            rw [den_array, den_array] at h
            have h' : seqM "@item" off (denOpts vs) = seqM "@item" off' (denOpts vs') := by simpa using h
            rw [(array_core vs vs' off off' s fo fo' HH).2 h']
      | empty =>
        exact cross_lemma _ _ (by simp [ctorTag]) htag (by simp [equal, equalG])
          (fun _ pb s s' => arrNe vs off c _ ha hb wa wb fa fb (by intro a b c e; cases e) pb s s')
      | true_ =>
        exact cross_lemma _ _ (by simp [ctorTag]) htag (by simp [equal, equalG])
          (fun _ pb s s' => arrNe vs off c _ ha hb wa wb fa fb (by intro a b c e; cases e) pb s s')
      | gtuple bs =>
        exact cross_lemma _ _ (by simp [ctorTag]) htag (by simp [equal, equalG])
          (fun _ pb s s' => arrNe vs off c _ ha hb wa wb fa fb (by intro a b c e; cases e) pb s s')
      | generic ys =>
        exact cross_lemma _ _ (by simp [ctorTag]) htag (by simp [equal, equalG])
          (fun _ pb s s' => arrNe vs off c _ ha hb wa wb fa fb (by intro a b c e; cases e) pb s s')
      | dict m' =>
        exact cross_lemma _ _ (by simp [ctorTag]) htag (by simp [equal, equalG, isTuple])
          (fun pa _ s s' h => dictNe m' _ hb ha wb wa fb fa (by intro m e; cases e) pa s' s h.symm)
      | relation ns' rows' =>
        exact cross_lemma _ _ (by simp [ctorTag]) htag (by simp [equal, equalG])
          (fun pa _ s s' h => relNe ns' rows' _ hb ha wb wa fb fa (by intro a b e; cases e) pa s' s h.symm)
      | union bs' =>
        exact cross_lemma _ _ (by simp [ctorTag]) htag (by simp [equal, equalG])
          (fun pa _ s s' h => unionNe bs' _ hb ha wb wa fb fa (by intro a e; cases e) pa s' s h.symm)
      | itemT j' y' =>
        exact cross_lemma _ _ (by simp [ctorTag]) htag (by simp [equal, equalG])
          (fun _ _ s s' h => itemNe j' y' _ fb ha wa fa (by intro a b e; cases e) s' s h.symm)
      | entryT k' v' =>
        exact cross_lemma _ _ (by simp [ctorTag]) htag (by simp [equal, equalG])
          (fun _ _ s s' h => entryNe k' v' _ hb wb fb ha wa fa (by intro a b e; cases e) s' s h.symm)
      | _ => cross htag fb
    | dict m =>
      by_cases hbd : ∃ m', b = .dict m'
      · obtain ⟨m', rfl⟩ := hbd
        obtain ⟨_, hwd, hk, hfd, hen, F⟩ := dict_facts n m ha wa fa
        obtain ⟨_, hwd', hk', hfd', hen', F'⟩ := dict_facts n m' hb wb fb
        have H := dictH m m' ha hb wa wb fa fb
        have hden : den (.dict m) = den (.dict m') ↔ mk (denDict m) = mk (denDict m') := by
          simp [den, V.mkSet]
        refine ⟨?_, fun _ _ s s' => ?_⟩
        · rw [hden, dict_den_iff m m' hwd hwd' hk hk']
          simp only [equal, equalG, Bool.and_eq_true, beq_iff_eq, dictAllIn_iff]
          -- per pair of keys: the Go test is the denotational one
          have pq : ∀ kv, kv ∈ m → ∀ kv', kv' ∈ m' →
              (((hashG true kv.1 [] = hashG true kv'.1 [] ∧ equalG true kv.1 kv'.1 = true) ∧ valueMatch kv.2 kv'.2 = true) ↔
                (den kv.1 = den kv'.1 ∧ ∀ d, d ∈ denList kv.2 ↔ d ∈ denList kv'.2)) := by
            intro kv hkv kv' hkv'
            obtain ⟨_, hne, _, hnv⟩ := wfDict_mem m kv hwd hkv
            obtain ⟨_, hne', _, hnv'⟩ := wfDict_mem m' kv' hwd' hkv'
            obtain ⟨_, _, fvs⟩ := fragDict_mem m kv hfd hkv
            obtain ⟨_, _, fvs'⟩ := fragDict_mem m' kv' hfd' hkv'
            have ent : ∀ x, x ∈ kv.2 → (kv.1, x) ∈ entries m ++ entries m' := fun x hx =>
              List.mem_append.2 (Or.inl ((mem_entries m _).2 ⟨kv, hkv, rfl, hx⟩))
            have ent' : ∀ x, x ∈ kv'.2 → (kv'.1, x) ∈ entries m ++ entries m' := fun x hx =>
              List.mem_append.2 (Or.inr ((mem_entries m' _).2 ⟨kv', hkv', rfl, hx⟩))
            obtain ⟨v0, hv0⟩ : ∃ v0, v0 ∈ kv.2 := by
              cases hh : kv.2 with
              | nil => exact absurd hh hne
              | cons v r => exact ⟨v, by simp⟩
            obtain ⟨v0', hv0'⟩ : ∃ v0, v0 ∈ kv'.2 := by
              cases hh : kv'.2 with
              | nil => exact absurd hh hne'
              | cons v r => exact ⟨v, by simp⟩
            obtain ⟨hkH, _, hkE, _⟩ := H (kv.1, v0) (ent v0 hv0) (kv'.1, v0') (ent' v0' hv0')
            have hkey : (hashG true kv.1 [] = hashG true kv'.1 [] ∧ equalG true kv.1 kv'.1 = true) ↔
                den kv.1 = den kv'.1 :=
              ⟨fun h => hkE.1 h.2, fun h => ⟨(hkH [] []).2 ⟨rfl, h⟩, hkE.2 h⟩⟩
            have hval := valueMatch_iff kv.2 kv'.2 hne hne' fvs fvs' hnv hnv'
              (fun x hx y hy => (H (kv.1, x) (ent x hx) (kv'.1, y) (ent' y hy)).2.2.2)
              (fun x hx y hy => by
                have ex : ∃ kx, (kx, x) ∈ entries m ++ entries m' := by
                  rcases List.mem_append.1 hx with h | h
                  · exact ⟨kv.1, ent x h⟩
                  · exact ⟨kv'.1, ent' x h⟩
                have ey : ∃ ky, (ky, y) ∈ entries m ++ entries m' := by
                  rcases List.mem_append.1 hy with h | h
                  · exact ⟨kv.1, ent y h⟩
                  · exact ⟨kv'.1, ent' y h⟩
                obtain ⟨kx, hkx⟩ := ex
                obtain ⟨ky, hky⟩ := ey
                have := (H (kx, x) hkx (ky, y) hky).2.1 [] []
                simpa using this)
            rw [hkey, hval]
          constructor
          · rintro ⟨h1, h2⟩
            refine ⟨h1, fun kv hkv => ?_⟩
            obtain ⟨kv', hkv', h⟩ := h2 kv hkv
            obtain ⟨a, b⟩ := (pq kv hkv kv' hkv').1 h
            exact ⟨kv', hkv', a, b⟩
          · rintro ⟨h1, h2⟩
            refine ⟨h1, fun kv hkv => ?_⟩
            obtain ⟨kv', hkv', a, b⟩ := h2 kv hkv
            exact ⟨kv', hkv', (pq kv hkv kv' hkv').2 ⟨a, b⟩⟩
        · rw [hden]
          simp only [hashG, hfin, hatom, if_true]
          constructor
          · intro h
            simp at h
            obtain ⟨h1, h2⟩ := h
            subst h2
            refine ⟨rfl, ?_⟩
            rw [xorDict_eq_mk m s hfd (dictAtoms_nodup m s hfd hwd hk (dictH m m ha ha wa wa fa fa)),
              xorDict_eq_mk m' s hfd' (dictAtoms_nodup m' s hfd' hwd' hk' (dictH m' m' hb hb wb wb fb fb))] at h1
            exact (dict_core m m' s hfd hfd' H).1 h1
          · rintro ⟨rfl, h⟩
            have := (dict_core m m' s hfd hfd' H).2 h
            rw [← xorDict_eq_mk m s hfd (dictAtoms_nodup m s hfd hwd hk (dictH m m ha ha wa wa fa fa)),
              ← xorDict_eq_mk m' s hfd' (dictAtoms_nodup m' s hfd' hwd' hk' (dictH m' m' hb hb wb wb fb fb))] at this
            rw [this]
      · have hnd : ∀ m', b ≠ .dict m' := fun m' e => hbd ⟨m', e⟩
        have hct : ctorTag (.dict m) ≠ ctorTag b := by
          cases b <;> simp [ctorTag]
          case dict m' => exact hnd m' rfl
        exact cross_lemma _ _ hct htag (dict_equal_nondict m b wb fb hnd)
          (fun _ pb s s' => dictNe m b ha hb wa wb fa fb hnd pb s s')
    | relation ns rows =>
      by_cases hbr : ∃ ns' rows', b = .relation ns' rows'
      · obtain ⟨ns', rows', rfl⟩ := hbr
        have ok := relOk_of_facts n ns rows ha wa fa
        have ok' := relOk_of_facts n ns' rows' hb wb fb
        obtain ⟨_, _, _, _, hdn, _, F⟩ := relation_facts n ns rows ha wa fa
        obtain ⟨_, _, _, _, hdn', _, F'⟩ := relation_facts n ns' rows' hb wb fb
        have hden : den (.relation ns rows) = den (.relation ns' rows') ↔
            mk (denRows ns rows) = mk (denRows ns' rows') := by
          simp [den, V.mkSet]
        have tfp : ∀ t, t ∈ rowTs ns rows → frag t = true ∧ plain t = true := by
          intro t ht
          obtain ⟨row, hr, rfl⟩ := List.mem_map.1 ht
          exact ⟨(F row hr).2.2.1, rfl⟩
        have tfp' : ∀ t, t ∈ rowTs ns' rows' → frag t = true ∧ plain t = true := by
          intro t ht
          obtain ⟨row, hr, rfl⟩ := List.mem_map.1 ht
          exact ⟨(F' row hr).2.2.1, rfl⟩
        have an : ∀ s, ((rowTs ns rows).map (fun t => atomAt t s)).Nodup := fun s =>
          seeded_nodup (rowTs ns rows) s tfp (by rw [← denRows_rowTs]; exact hdn)
            (fun x hx y hy => by
              have := rowH ns ns rows rows ha ha wa wa fa fa x (by simp [hx]) y (by simp [hy]) s s
              simpa using this)
        have an' : ∀ s, ((rowTs ns' rows').map (fun t => atomAt t s)).Nodup := fun s =>
          seeded_nodup (rowTs ns' rows') s tfp' (by rw [← denRows_rowTs]; exact hdn')
            (fun x hx y hy => by
              have := rowH ns' ns' rows' rows' hb hb wb wb fb fb x (by simp [hx]) y (by simp [hy]) s s
              simpa using this)
        have core : ∀ s, mk ((rowTs ns rows).map (fun t => atomAt t s)) = mk ((rowTs ns' rows').map (fun t => atomAt t s)) ↔
            mk (denRows ns rows) = mk (denRows ns' rows') := fun s => by
          rw [denRows_rowTs, denRows_rowTs]
          exact seeded_core _ _ s tfp tfp' (fun x hx y hy => by
            have := rowH ns ns' rows rows' ha hb wa wb fa fb x hx y hy s s
            simpa using this)
        refine ⟨?_, fun _ _ s s' => ?_⟩
        · rw [hden]
          exact relation_equal_iff ns ns' rows rows' ok ok' (relH ns ns' rows rows' ha hb wa wb fa fb)
        · rw [hden]
          simp only [hashG, hfin, hatom, if_true]
          constructor
          · intro h
            simp at h
            obtain ⟨h1, h2⟩ := h
            subst h2
            refine ⟨rfl, ?_⟩
            rw [xorRows_eq_mk ns rows s (fun row hr => (F row hr).2.2.1) (an s),
              xorRows_eq_mk ns' rows' s (fun row hr => (F' row hr).2.2.1) (an' s)] at h1
            exact (core s).1 h1
          · rintro ⟨rfl, h⟩
            have := (core s).2 h
            rw [← xorRows_eq_mk ns rows s (fun row hr => (F row hr).2.2.1) (an s),
              ← xorRows_eq_mk ns' rows' s (fun row hr => (F' row hr).2.2.1) (an' s)] at this
            rw [this]
      · have hnr : ∀ ns' rows', b ≠ .relation ns' rows' := fun ns' rows' e => hbr ⟨ns', rows', e⟩
        have hct : ctorTag (.relation ns rows) ≠ ctorTag b := by
          cases b <;> simp [ctorTag]
          case relation ns' rows' => exact hnr ns' rows' rfl
        have heq : equal (.relation ns rows) b = false := by
          cases b <;> simp [equal, equalG]
          case relation ns' rows' => exact absurd rfl (hnr ns' rows')
        exact cross_lemma _ _ hct htag heq
          (fun _ pb s s' => relNe ns rows b ha hb wa wb fa fb hnr pb s s')
    | union bs =>
      by_cases hbu : ∃ bs', b = .union bs'
      · obtain ⟨bs', rfl⟩ := hbu
        obtain ⟨_, hn1, hwb1, F⟩ := union_facts n ih bs ha wa fa
        obtain ⟨_, hn2, hwb2, F'⟩ := union_facts n ih bs' hb wb fb
        have hden : den (.union bs) = den (.union bs') ↔ mk (denBuckets bs) = mk (denBuckets bs') := by
          simp [den, V.mkSet]
        refine ⟨?_, fun _ _ s s' => ?_⟩
        · rw [hden]
          exact union_equal_iff bs bs' hn1 hn2 hwb1 hwb2 (fun p hp q hq =>
            (ih p.2 q.2 (F p hp).1 (F' q hq).1 (F p hp).2.1 (F' q hq).2.1 (F p hp).2.2.1 (F' q hq).2.2.1).1)
        · rw [hden]
          simp only [hashG, hfin, hatom, if_true]
          constructor
          · intro h
            simp at h
            exact ⟨h.2, (union_core n ih bs bs' ha hb wa wb fa fb).1 h.1⟩
          · rintro ⟨rfl, h⟩
            rw [(union_core n ih bs bs' ha hb wa wb fa fb).2 h]
      · have hnu : ∀ bs', b ≠ .union bs' := fun bs' e => hbu ⟨bs', e⟩
        have hct : ctorTag (.union bs) ≠ ctorTag b := by
          cases b <;> simp [ctorTag]
          case union bs' => exact hnu bs' rfl
        have heq : equal (.union bs) b = false := by
          cases b <;> simp [equal, equalG]
          case union bs' => exact absurd rfl (hnu bs')
        exact cross_lemma _ _ hct htag heq
          (fun _ pb s s' => unionNe bs b ha hb wa wb fa fb hnu pb s s')


/-- a canonical relation is determined by its denotation up to column order and row order -/
theorem relation_den_inj (ns ns' : List String) (rows rows' : List (List Rep))
    (wa : wf (.relation ns rows) = true) (wb : wf (.relation ns' rows') = true)
    (h : den (.relation ns rows) = den (.relation ns' rows')) :
    sortStrs ns = sortStrs ns' ∧ rows.length = rows'.length ∧
      ∀ v, v ∈ denRows ns rows ↔ v ∈ denRows ns' rows' := by
  simp only [den, V.mkSet, V.set.injEq] at h
  have hm := (FinSet.mk_eq_iff _ _).1 h
  simp only [wf, Bool.and_eq_true, Bool.not_eq_true', decide_eq_true_eq] at wa wb
  obtain ⟨⟨⟨⟨_, hnd⟩, hrn⟩, hwr⟩, hdn⟩ := wa
  obtain ⟨⟨⟨⟨_, hnd'⟩, _⟩, hwr'⟩, hdn'⟩ := wb
  refine ⟨?_, ?_, hm⟩
  · rw [sortStrs_eq_iff ns ns' hnd hnd']
    cases rows with
    | nil => simp at hrn
    | cons r0 r =>
      have h0 : den (rowT ns r0) ∈ denRows ns' rows' := by
        rw [← hm, denRows_eq]; simp
      rw [denRows_eq] at h0
      obtain ⟨r0', hr0', e⟩ := List.mem_map.1 h0
      exact names_of_rowDen ns ns' r0 r0' (wfRows_mem ns (r0 :: r) r0 hwr (by simp)).1
        (wfRows_mem ns' rows' r0' hwr' hr0').1 e.symm
  · have := FinSet.length_eq_of_same_members _ _ hdn hdn' hm
    rwa [denRows_eq, denRows_eq, List.length_map, List.length_map] at this

/-- a canonical array is determined by its denotation (offset, hole pattern, item denotations) -/
theorem array_den_inj (vs vs' : List (Option Rep)) (off off' c c' : Int)
    (wa : wf (.array vs off c) = true) (wb : wf (.array vs' off' c') = true) :
    den (.array vs off c) = den (.array vs' off' c') ↔ (off = off' ∧ denOpts vs = denOpts vs') := by
  simp only [wf, Bool.and_eq_true] at wa wb
  rw [den_array, den_array]
  constructor
  · intro h
    have h' : seqM "@item" off (denOpts vs) = seqM "@item" off' (denOpts vs') := by simpa using h
    exact seqM_inj "@item" _ _ off off' (headSome_denOpts vs wa.1.1.1) (headSome_denOpts vs' wb.1.1.1)
      (lastSome_noTrail _ (lastSome_denOpts vs wa.1.1.2)) (lastSome_noTrail _ (lastSome_denOpts vs' wb.1.1.2)) h'
  · rintro ⟨rfl, h⟩; rw [h]

/-! ### after the repair of the item/entry tuple hashes every representation is in the fragment -/
mutual
theorem frag_all : ∀ x : Rep, frag x = true
  | .num _ | .charT _ _ | .byteT _ _ | .empty | .true_ | .str _ _ _ | .bytes _ _ => rfl
  | .gtuple as => by simp [frag, fragAttrs_all as]
  | .itemT _ x => by simp [frag, plain, frag_all x]
  | .entryT k v => by simp [frag, plain, frag_all k, frag_all v]
  | .generic xs => by simp [frag, fragList_all xs]
  | .array vs _ _ => by simp [frag, fragOpts_all vs]
  | .dict m => by simp [frag, fragDict_all m]
  | .relation _ rows => by simp [frag, fragRows_all rows]
  | .union bs => by simp [frag, fragAttrs_all bs]
theorem fragRows_all : ∀ rows : List (List Rep), fragRows rows = true
  | [] => rfl
  | row :: r => by simp [fragRows, fragPlainList_all row, fragRows_all r]
theorem fragDict_all : ∀ m : List (Rep × List Rep), fragDict m = true
  | [] => rfl
  | (k, vs) :: r => by simp [fragDict, plain, frag_all k, fragPlainList_all vs, fragDict_all r]
theorem fragPlainList_all : ∀ xs : List Rep, fragPlainList xs = true
  | [] => rfl
  | x :: r => by simp [fragPlainList, plain, frag_all x, fragPlainList_all r]
theorem fragAttrs_all : ∀ as : List (String × Rep), fragAttrs as = true
  | [] => rfl
  | (_, v) :: r => by simp [fragAttrs, plain, frag_all v, fragAttrs_all r]
theorem fragList_all : ∀ xs : List Rep, fragList xs = true
  | [] => rfl
  | x :: r => by simp [fragList, frag_all x, fragList_all r]
theorem fragOpts_all : ∀ vs : List (Option Rep), fragOpts vs = true
  | [] => rfl
  | some x :: r => by simp [fragOpts, plain, frag_all x, fragOpts_all r]
  | none :: r => by simp [fragOpts, fragOpts_all r]
end

/-- the main theorem for all canonical representations -/
theorem main_all (a b : Rep) (ha : wf a = true) (hb : wf b = true) : MainAt a b :=
  main_frag (depth a + depth b + 1) a b (by omega) (by omega) ha hb (frag_all a) (frag_all b)

end Arrai.C02
