/-
  C15 — helper lemmas (core Lean only).
  Part 1: `findRootFromModule` finds the nearest sentinel (characterisation of C16's `findRootUp`).
  Part 2: the archive as a finite map (`zipCreate`, `lookup`, extension, consistency with the source tree).
  Part 3: `mapPath`.
  Part 4: the bundling walk fails exactly when the source compile fails.
  Part 5: simulation — compiling inside the archive yields what compiling the source tree yields.
-/
import Arrai.C15.Model
import Arrai.C16.Lemmas

namespace Arrai.C15
open Arrai.C16 Arrai.C16.Impl Arrai.C16.Impl.Strs Arrai.C16.Impl.Path Impl

/-! ## Part 1 — nearest sentinel -/

theorem findRootUp_some (w : World) : ∀ up r, findRootUp w up = some r →
    r <+: up.reverse ∧ w.fileExists (r ++ [sentinel]) = true ∧
    (∀ e, r <+: e → e <+: up.reverse → e ≠ r → w.fileExists (e ++ [sentinel]) = false) := by
  intro up
  induction up with
  | nil =>
    intro r h
    simp only [findRootUp] at h
    split at h
    · injection h with h; subst h
      refine ⟨List.prefix_refl _, by simpa using ‹_›, ?_⟩
      intro e _ he hne
      simp at he
      exact absurd he hne
    · cases h
  | cons c up ih =>
    intro r h
    simp only [findRootUp] at h
    split at h
    · injection h with h; subst h
      refine ⟨List.prefix_refl _, ‹_›, ?_⟩
      intro e h1 h2 hne
      exact absurd (List.IsPrefix.eq_of_length_le h2 (List.IsPrefix.length_le h1)) hne
    · rename_i hnot
      obtain ⟨h1, h2, h3⟩ := ih r h
      refine ⟨?_, h2, ?_⟩
      · simp only [List.reverse_cons]
        exact List.IsPrefix.trans h1 (List.prefix_append _ _)
      · intro e he1 he2 hne
        simp only [List.reverse_cons] at he2
        rcases List.prefix_concat_iff.1 he2 with rfl | he2
        · simp only [List.reverse_cons] at hnot
          simpa using hnot
        · exact h3 e he1 he2 hne

theorem findRootUp_none (w : World) : ∀ up, findRootUp w up = none →
    ∀ e, e <+: up.reverse → w.fileExists (e ++ [sentinel]) = false := by
  intro up
  induction up with
  | nil =>
    intro h e he
    simp at he
    subst he
    simp only [findRootUp] at h
    split at h
    · cases h
    · rename_i hnot; simpa using hnot
  | cons c up ih =>
    intro h e he
    simp only [findRootUp] at h
    split at h
    · cases h
    · rename_i hnot
      simp only [List.reverse_cons] at he
      rcases List.prefix_concat_iff.1 he with rfl | he
      · simp only [List.reverse_cons] at hnot
        simpa using hnot
      · exact ih h e he

theorem findRootUp_intro' (w : World) (r : List Str) : ∀ t,
    w.fileExists (r ++ [sentinel]) = true →
    (∀ e, r <+: e → e <+: r ++ t.reverse → e ≠ r → w.fileExists (e ++ [sentinel]) = false) →
    findRootUp w (t ++ r.reverse) = some r := by
  intro t
  induction t with
  | nil =>
    intro h _
    simp only [List.nil_append]
    cases hr : r.reverse with
    | nil =>
      have : r = [] := by simpa using hr
      subst this
      simp [findRootUp] at h ⊢
      exact h
    | cons c up =>
      have e : (c :: up).reverse = r := by rw [← hr]; simp
      simp only [findRootUp, e, h, if_true]
  | cons x t ih =>
    intro h hno
    simp only [List.cons_append, findRootUp]
    have e2 : (x :: (t ++ r.reverse)).reverse = r ++ (x :: t).reverse := by simp
    rw [e2]
    have hf : w.fileExists (r ++ (x :: t).reverse ++ [sentinel]) = false := by
      apply hno (r ++ (x :: t).reverse) (List.prefix_append _ _) (List.prefix_refl _)
      intro e
      have := congrArg List.length e
      simp at this
    simp only [hf, Bool.false_eq_true, if_false]
    apply ih h
    intro e he1 he2 hne
    refine hno e he1 (List.IsPrefix.trans he2 ?_) hne
    simp only [List.reverse_cons, ← List.append_assoc]
    exact List.prefix_append _ _

/-- the walk finds `r` when `r` has the sentinel and no directory between `r` and the start has one -/
theorem findRootUp_intro (w : World) (r s : List Str)
    (h : w.fileExists (r ++ [sentinel]) = true)
    (hno : ∀ e, r <+: e → e <+: r ++ s → e ≠ r → w.fileExists (e ++ [sentinel]) = false) :
    findRootUp w (r ++ s).reverse = some r := by
  have := findRootUp_intro' w r s.reverse h (by simpa using hno)
  simpa using this

theorem findRootUp_none_intro (w : World) : ∀ up,
    (∀ e, e <+: up.reverse → w.fileExists (e ++ [sentinel]) = false) → findRootUp w up = none := by
  intro up
  induction up with
  | nil =>
    intro h
    have := h [] (by simp)
    simp at this
    simp [findRootUp, this]
  | cons c up ih =>
    intro h
    have h1 := h (c :: up).reverse (List.prefix_refl _)
    simp only [findRootUp, h1, Bool.false_eq_true, if_false]
    apply ih
    intro e he
    exact h e (by simp only [List.reverse_cons]; exact List.IsPrefix.trans he (List.prefix_append _ _))

/-! ## Part 2 — finite maps -/

theorem lookup_ne_none_iff (fs : Fs) (p : Path) : fs.lookup p ≠ none ↔ p ∈ Fs.keys fs := by
  induction fs with
  | nil => simp [Fs.keys]
  | cons e fs ih =>
    obtain ⟨a, c⟩ := e
    by_cases h : p = a
    · subst h; simp [Fs.keys, List.lookup_cons]
    · have : (p == a) = false := by simp [h]
      simp only [List.lookup_cons, this]
      simp [Fs.keys, h] at ih ⊢

theorem fileExists_keys (fs : Fs) (cwd : Str) (p : Path) :
    (World.fileExists ⟨cwd, Fs.keys fs⟩ p = true) ↔ fs.lookup p ≠ none := by
  simp only [World.fileExists, decide_eq_true_eq]
  exact (lookup_ne_none_iff fs p).symm

theorem lookup_mem (fs : Fs) (p : Path) (c : Content) (h : fs.lookup p = some c) : (p, c) ∈ fs := by
  induction fs with
  | nil => simp at h
  | cons e fs ih =>
    obtain ⟨a, d⟩ := e
    by_cases hp : p = a
    · subst hp
      simp [List.lookup_cons] at h
      simp [h]
    · have : (p == a) = false := by simp [hp]
      simp only [List.lookup_cons, this] at h
      simp [ih h]

/-- `z'` extends `z`: every entry of `z` is found unchanged in `z'` -/
def Ext (z z' : Fs) : Prop := ∀ p c, z.lookup p = some c → z'.lookup p = some c

theorem Ext.refl (z : Fs) : Ext z z := fun _ _ h => h
theorem Ext.trans {a b c : Fs} (h1 : Ext a b) (h2 : Ext b c) : Ext a c := fun p x h => h2 p x (h1 p x h)

theorem zipCreate_ext (z : Fs) (p : Path) (c : Content) : Ext z (zipCreate z p c) := by
  intro q d h
  unfold zipCreate
  split
  · exact h
  · rw [List.lookup_append, h]; rfl

theorem any_key_iff (z : Fs) (p : Path) : (z.any (fun e => decide (e.1 = p)) = true) ↔ z.lookup p ≠ none := by
  rw [lookup_ne_none_iff]
  simp [Fs.keys, List.any_eq_true]

/-- after `ZipCreate(p, c)` the archive has an entry at `p`: the old one if there was one, else `c` -/
theorem zipCreate_lookup (z : Fs) (p : Path) (c : Content) :
    (zipCreate z p c).lookup p = some c ∨ (∃ d, z.lookup p = some d ∧ (zipCreate z p c).lookup p = some d) := by
  unfold zipCreate
  split
  · rename_i h
    have := (any_key_iff z p).1 h
    cases hz : z.lookup p with
    | none => exact absurd hz this
    | some d => exact Or.inr ⟨d, rfl, rfl⟩
  · rename_i h
    have : z.lookup p = none := by
      cases hz : z.lookup p with
      | none => rfl
      | some d => exact absurd ((any_key_iff z p).2 (by simp [hz])) h
    left
    rw [List.lookup_append, this]
    simp [List.lookup_cons]

theorem zipCreate_mem (z : Fs) (p : Path) (c : Content) (q : Path) (d : Content)
    (h : (q, d) ∈ zipCreate z p c) : (q, d) ∈ z ∨ (q = p ∧ d = c) := by
  unfold zipCreate at h
  split at h
  · exact Or.inl h
  · simp at h
    rcases h with h | ⟨h1, h2⟩
    · exact Or.inl h
    · exact Or.inr ⟨h1, h2⟩

/-! ## Part 3 — mapPath -/

theorem prefix_decomp {α : Type} {a b : List α} (h : a <+: b) : b = a ++ b.drop a.length :=
  (List.prefix_iff_eq_append.1 h).symm

/-- **map_join**: mapping commutes with appending the components of a relative import -/
theorem map_join (cfg : Cfg) (d ns : Path) (h : cfg.absRoot <+: d) : mapPath cfg (d ++ ns) = mapPath cfg d ++ ns := by
  simp [mapPath, List.drop_append_of_le_length (List.IsPrefix.length_le h)]

theorem map_dir (cfg : Cfg) (key : Path) (h : cfg.absRoot <+: dirOf key) (hne : key ≠ []) :
    dirOf (mapPath cfg key) = mapPath cfg (dirOf key) := by
  obtain ⟨d, x, rfl⟩ : ∃ d x, key = d ++ [x] :=
    ⟨key.dropLast, key.getLast hne, (List.dropLast_concat_getLast hne).symm⟩
  simp only [dirOf, List.dropLast_concat] at h ⊢
  rw [map_join cfg d [x] h, ← List.append_nil (mapPath cfg d ++ [x]), List.append_assoc]
  simp

theorem map_inj (cfg : Cfg) (a b : Path) (ha : cfg.absRoot <+: a) (hb : cfg.absRoot <+: b)
    (h : mapPath cfg a = mapPath cfg b) : a = b := by
  have := List.append_cancel_left h
  rw [prefix_decomp ha, prefix_decomp hb, this]

theorem map_mem_chain (cfg : Cfg) (chain : List Path) (q : Path) (hq : cfg.absRoot <+: q)
    (hc : ∀ a ∈ chain, cfg.absRoot <+: a) : mapPath cfg q ∈ chain.map (mapPath cfg) ↔ q ∈ chain := by
  constructor
  · intro h
    obtain ⟨a, ha, e⟩ := List.mem_map.1 h
    rw [← map_inj cfg a q (hc a ha) hq e]; exact ha
  · intro h; exact List.mem_map.2 ⟨q, h, rfl⟩

theorem lastExt_append (d ns : Path) (hne : ns ≠ []) : lastExt (d ++ ns) = lastExt ns := by
  obtain ⟨xs, l, rfl⟩ : ∃ xs l, ns = xs ++ [l] :=
    ⟨ns.dropLast, ns.getLast hne, (List.dropLast_concat_getLast hne).symm⟩
  simp [lastExt]

/-- every archive entry is the configuration file or the image of a source file below `absRoot` -/
def Consistent (fs : Fs) (cfg : Cfg) (z : Fs) : Prop :=
  ∀ p c, (p, c) ∈ z → p = [configName] ∨ ∃ q, cfg.absRoot <+: q ∧ p = mapPath cfg q ∧ fs.lookup q = some c

theorem consistent_zipCreate (fs : Fs) (cfg : Cfg) (z : Fs) (q : Path) (c : Content)
    (hz : Consistent fs cfg z) (hq : cfg.absRoot <+: q) (hl : fs.lookup q = some c) :
    Consistent fs cfg (zipCreate z (mapPath cfg q) c) := by
  intro p d hm
  rcases zipCreate_mem z _ c p d hm with h | ⟨rfl, rfl⟩
  · exact hz p d h
  · exact Or.inr ⟨q, hq, rfl, hl⟩

/-- what `SetupBundle` establishes about the configuration -/
structure Setup (fs : Fs) (cfg : Cfg) : Prop where
  pfx : ∃ h t, cfg.pfx = h :: t ∧ h ≠ configName
  noMod : cfg.mainRoot = [] → cfg.pfx = [noModuleDir]
  rootOk : ∀ d r, cfg.absRoot <+: d → findRootC fs d = some r → cfg.absRoot <+: r
  rootEx : cfg.mainRoot ≠ [] → ∀ d, cfg.absRoot <+: d → findRootC fs d ≠ none

theorem map_ne_config (fs : Fs) (cfg : Cfg) (hs : Setup fs cfg) (q : Path) : mapPath cfg q ≠ [configName] := by
  obtain ⟨h, t, e, hne⟩ := hs.pfx
  intro hc
  simp only [mapPath, e, List.cons_append] at hc
  injection hc with h1 _
  exact hne h1

/-- **closure, read side**: an entry at the image of `q` holds the content of `q` -/
theorem consistent_lookup (fs : Fs) (cfg : Cfg) (hs : Setup fs cfg) (z : Fs) (hz : Consistent fs cfg z)
    (q : Path) (hq : cfg.absRoot <+: q) (d : Content) (h : z.lookup (mapPath cfg q) = some d) :
    fs.lookup q = some d := by
  rcases hz _ _ (lookup_mem z _ d h) with hc | ⟨q', hq', e, hl⟩
  · exact absurd hc (map_ne_config fs cfg hs q)
  · rw [map_inj cfg q q' hq hq' e]; exact hl

theorem fileExists_false_iff (fs : Fs) (cwd : Str) (p : Path) :
    (World.fileExists ⟨cwd, Fs.keys fs⟩ p = false) ↔ fs.lookup p = none := by
  have key := fileExists_keys fs cwd p
  constructor
  · intro h
    cases hl : fs.lookup p with
    | none => rfl
    | some c =>
      have := key.2 (by rw [hl]; exact fun e => by cases e)
      rw [h] at this
      cases this
  · intro h
    cases hf : World.fileExists ⟨cwd, Fs.keys fs⟩ p with
    | false => rfl
    | true => exact absurd h (key.1 hf)

/-- **root_found**: the runtime, walking up inside the archive, finds the image of the source root -/
theorem root_found (fs : Fs) (cfg : Cfg) (hs : Setup fs cfg) (z : Fs) (hz : Consistent fs cfg z) (d r : Path)
    (hd : cfg.absRoot <+: d) (hr : findRootC fs d = some r)
    (hsent : z.lookup (mapPath cfg (r ++ [sentinel])) ≠ none) :
    findRootC z (mapPath cfg d) = some (mapPath cfg r) := by
  have har : cfg.absRoot <+: r := hs.rootOk d r hd hr
  obtain ⟨hrd, _, hnear⟩ := findRootUp_some _ _ _ hr
  simp only [List.reverse_reverse] at hrd hnear
  obtain ⟨s, rfl⟩ := hrd
  unfold findRootC
  rw [map_join cfg r s har]
  apply findRootUp_intro
  · rw [← map_join cfg r [sentinel] har]
    exact (fileExists_keys z [] _).2 hsent
  · intro e he1 he2 hne
    obtain ⟨s1, rfl⟩ := he1
    have hs1 : s1 <+: s := (List.prefix_append_right_inj _).1 he2
    have hs1ne : s1 ≠ [] := fun h => hne (by simp [h])
    rw [fileExists_false_iff]
    cases hl : z.lookup (mapPath cfg r ++ s1 ++ [sentinel]) with
    | none => rfl
    | some c =>
      exfalso
      have e1 : mapPath cfg r ++ s1 ++ [sentinel] = mapPath cfg (r ++ s1 ++ [sentinel]) := by
        rw [List.append_assoc, List.append_assoc, map_join cfg r _ har]
      rw [e1] at hl
      have hq : cfg.absRoot <+: r ++ s1 ++ [sentinel] := by
        rw [List.append_assoc]; exact List.IsPrefix.trans har (List.prefix_append _ _)
      have hfs := consistent_lookup fs cfg hs z hz _ hq c hl
      have hno := hnear (r ++ s1) (List.prefix_append _ _) ((List.prefix_append_right_inj _).2 hs1)
        (fun h => hs1ne (by simpa using h))
      rw [fileExists_false_iff] at hno
      rw [hno] at hfs
      cases hfs

theorem sentinel_ne_config : sentinel ≠ configName := by decide
theorem sentinel_ne_noModuleDir : sentinel ≠ noModuleDir := by decide

/-- without a module in the source tree, the runtime finds none in the archive either -/
theorem root_none (fs : Fs) (cfg : Cfg) (hs : Setup fs cfg) (z : Fs) (hz : Consistent fs cfg z) (d : Path)
    (hd : cfg.absRoot <+: d) (hr : findRootC fs d = none) : findRootC z (mapPath cfg d) = none := by
  have hm : cfg.mainRoot = [] := by
    cases h : cfg.mainRoot with
    | nil => rfl
    | cons a b => exact absurd hr (hs.rootEx (by simp [h]) d hd)
  have hp := hs.noMod hm
  have hnone := findRootUp_none _ _ hr
  simp only [List.reverse_reverse] at hnone
  unfold findRootC
  apply findRootUp_none_intro
  simp only [List.reverse_reverse]
  intro e he
  rw [fileExists_false_iff]
  cases hl : z.lookup (e ++ [sentinel]) with
  | none => rfl
  | some c =>
    exfalso
    simp only [mapPath, hp] at he
    cases e with
    | nil =>
      rcases hz _ _ (lookup_mem z _ c hl) with hc | ⟨q, _, hq, _⟩
      · simp at hc; exact sentinel_ne_config hc
      · simp only [mapPath, hp, List.nil_append, List.cons_append] at hq
        injection hq with h1 _
        exact sentinel_ne_noModuleDir h1
    | cons x s1 =>
      have hx : x = noModuleDir ∧ s1 <+: d.drop cfg.absRoot.length := by
        obtain ⟨t, ht⟩ := he
        simp only [List.cons_append] at ht
        injection ht with h1 h2
        exact ⟨h1, ⟨t, h2⟩⟩
      obtain ⟨rfl, hs1⟩ := hx
      have e1 : noModuleDir :: s1 ++ [sentinel] = mapPath cfg (cfg.absRoot ++ s1 ++ [sentinel]) := by
        simp [mapPath, hp]
      rw [e1] at hl
      have hq : cfg.absRoot <+: cfg.absRoot ++ s1 ++ [sentinel] := by
        rw [List.append_assoc]; exact List.prefix_append _ _
      have hfs := consistent_lookup fs cfg hs z hz _ hq c hl
      have hpre : cfg.absRoot ++ s1 <+: d := by
        rw [prefix_decomp hd]
        exact (List.prefix_append_right_inj _).2 hs1
      have hno := hnone _ hpre
      rw [fileExists_false_iff] at hno
      rw [hno] at hfs
      cases hfs

/-! ## Part 4 — one import while bundling -/

theorem extAdj_ne_nil (ns : List Str) (h : ns ≠ []) : extAdj ns ≠ [] := by
  unfold extAdj
  cases hr : ns.reverse with
  | nil => exact absurd (by simpa using hr) h
  | cons l up =>
    simp only
    split
    · exact h
    · simp

theorem dotRel_ne_nil (raw : Str) (ns : List Str) (h : dotRel raw = .ok ns) : ns ≠ [] := by
  unfold dotRel at h
  simp only at h
  split at h
  · cases h
  split at h
  · cases h
  split at h
  · cases h
  injection h with h
  rw [← h]
  exact extAdj_ne_nil _ ‹_›

theorem rootRel_ne_nil (raw : Str) (ms : List Str) (h : rootRel raw = .ok ms) : ms ≠ [] := by
  unfold rootRel at h
  simp only at h
  split at h
  · cases h
  split at h
  · cases h
  injection h with h
  rw [← h]
  exact extAdj_ne_nil _ (splitSlash_ne_nil _)

/-- shape of a resolved import: a base directory below `absRoot` plus at least one component -/
theorem target_shape (fs : Fs) (cfg : Cfg) (hs : Setup fs cfg) (d : Path) (i : Imp) (q : Path)
    (hd : cfg.absRoot <+: d) (h : target fs d i = .ok q) :
    ∃ base ns, q = base ++ ns ∧ ns ≠ [] ∧ cfg.absRoot <+: base ∧
      (i.dot = true → base = d) ∧ (i.dot = false → findRootC fs d = some base) := by
  unfold target at h
  split at h
  · rename_i hdot
    split at h
    · cases h
    · rename_i ns hns
      injection h with h
      exact ⟨d, ns, h.symm, dotRel_ne_nil _ _ hns, hd, fun _ => rfl, fun e => by rw [hdot] at e; cases e⟩
  · rename_i hdot
    split at h
    · cases h
    · rename_i ms hms
      split at h
      · cases h
      · rename_i r hr
        injection h with h
        exact ⟨r, ms, h.symm, rootRel_ne_nil _ _ hms, hs.rootOk d r hd hr,
          fun e => absurd e hdot, fun _ => hr⟩

theorem prefix_append_of_prefix {α : Type} {a b : List α} (c : List α) (h : a <+: b) : a <+: b ++ c :=
  List.IsPrefix.trans h (List.prefix_append _ _)

theorem dirOf_append (base ns : Path) (hne : ns ≠ []) : dirOf (base ++ ns) = base ++ ns.dropLast := by
  simp [dirOf, List.dropLast_append_of_ne_nil hne]

/-- the same import expression, resolved inside the archive, names the image of the source file -/
theorem target_map (fs : Fs) (cfg : Cfg) (hs : Setup fs cfg) (z : Fs) (hz : Consistent fs cfg z)
    (d : Path) (i : Imp) (q : Path) (hd : cfg.absRoot <+: d) (h : target fs d i = .ok q)
    (hsent : i.dot = false → ∀ r, findRootC fs d = some r → z.lookup (mapPath cfg (r ++ [sentinel])) ≠ none) :
    target z (mapPath cfg d) i = .ok (mapPath cfg q) := by
  unfold target at h ⊢
  by_cases hdot : i.dot = true
  · simp only [hdot, if_true] at h ⊢
    cases hns : dotRel i.raw with
    | error e => rw [hns] at h; cases h
    | ok ns =>
      rw [hns] at h
      simp only at h ⊢
      injection h with h
      rw [← h, map_join cfg d ns hd]
  · have hdot' : i.dot = false := by simpa using hdot
    simp only [hdot', Bool.false_eq_true, if_false] at h ⊢
    cases hms : rootRel i.raw with
    | error e => rw [hms] at h; cases h
    | ok ms =>
      rw [hms] at h
      simp only at h ⊢
      cases hr : findRootC fs d with
      | none => rw [hr] at h; cases h
      | some r =>
        rw [hr] at h
        simp only at h
        injection h with h
        rw [root_found fs cfg hs z hz d r hd hr (hsent hdot' r hr)]
        simp only
        rw [← h, map_join cfg r ms (hs.rootOk d r hd hr)]

theorem findRootC_sentinel (fs : Fs) (d r : Path) (h : findRootC fs d = some r) :
    fs.lookup (r ++ [sentinel]) ≠ none := by
  obtain ⟨_, h2, _⟩ := findRootUp_some _ _ _ h
  exact (fileExists_keys fs [] _).1 h2

/-- what a successful `bundleImport` did -/
theorem bundleImport_ok (fs : Fs) (cfg : Cfg) (hs : Setup fs cfg) (z : Fs) (d : Path) (i : Imp)
    (q : Path) (c : Content) (z1 : Fs) (hd : cfg.absRoot <+: d)
    (h : bundleImport fs cfg z d i = .ok (q, c, z1)) :
    target fs d i = .ok q ∧ fs.lookup q = some c ∧ Ext z z1 ∧ z1.lookup (mapPath cfg q) ≠ none ∧
    (i.dot = false → ∀ r, findRootC fs d = some r → z1.lookup (mapPath cfg (r ++ [sentinel])) ≠ none) ∧
    (Consistent fs cfg z → Consistent fs cfg z1) := by
  unfold bundleImport at h
  cases htq : target fs d i with
  | error e => rw [htq] at h; cases h
  | ok q' =>
    rw [htq] at h
    simp only at h
    have hq' : cfg.absRoot <+: q' := by
      obtain ⟨base, ns, e, _, hb, _⟩ := target_shape fs cfg hs d i q' hd htq
      rw [e]; exact prefix_append_of_prefix ns hb
    -- z0 : z, or z plus the sentinel
    have key : ∀ z0, (if i.dot = true then Except.ok z
          else match findRootC fs d with
            | none => Except.ok z
            | some r => addModuleSentinel fs cfg z r) = Except.ok z0 →
        Ext z z0 ∧
        (i.dot = false → ∀ r, findRootC fs d = some r → z0.lookup (mapPath cfg (r ++ [sentinel])) ≠ none) ∧
        (Consistent fs cfg z → Consistent fs cfg z0) := by
      intro z0 hz0
      by_cases hdot : i.dot = true
      · simp only [hdot, if_true] at hz0
        injection hz0 with hz0; subst hz0
        refine ⟨Ext.refl _, ?_, fun x => x⟩
        intro e; rw [hdot] at e; cases e
      · simp only [hdot, if_false] at hz0
        cases hr : findRootC fs d with
        | none =>
          rw [hr] at hz0
          injection hz0 with hz0; subst hz0
          refine ⟨Ext.refl _, ?_, fun x => x⟩
          intro _ r hr'; cases hr'
        | some r =>
          rw [hr] at hz0
          simp only [addModuleSentinel] at hz0
          cases hsc : fs.lookup (r ++ [sentinel]) with
          | none => rw [hsc] at hz0; cases hz0
          | some sc =>
            rw [hsc] at hz0
            injection hz0 with hz0; subst hz0
            refine ⟨zipCreate_ext _ _ _, ?_, ?_⟩
            · intro _ r' hr'
              injection hr' with hr'; subst hr'
              rcases zipCreate_lookup z (mapPath cfg (r ++ [sentinel])) sc with h | ⟨d', _, h⟩ <;> simp [h]
            · intro hcz
              exact consistent_zipCreate fs cfg z _ sc hcz
                (prefix_append_of_prefix _ (hs.rootOk d r hd hr)) hsc
    generalize hz0e : (if i.dot = true then Except.ok z
          else match findRootC fs d with
            | none => Except.ok z
            | some r => addModuleSentinel fs cfg z r) = z0e at h
    cases z0e with
    | error e => cases h
    | ok z0 =>
      simp only at h
      obtain ⟨hext, hsent, hcons⟩ := key z0 hz0e
      cases hc' : fs.lookup q' with
      | none => rw [hc'] at h; cases h
      | some c' =>
        rw [hc'] at h
        simp only at h
        injection h with h
        injection h with h1 h2
        injection h2 with h2 h3
        subst h1; subst h2; subst h3
        refine ⟨rfl, hc', Ext.trans hext (zipCreate_ext _ _ _), ?_, ?_, ?_⟩
        · rcases zipCreate_lookup z0 (mapPath cfg q') c' with h | ⟨d', _, h⟩ <;> simp [h]
        · intro hdot r hr
          have := hsent hdot r hr
          cases hl : z0.lookup (mapPath cfg (r ++ [sentinel])) with
          | none => exact absurd hl this
          | some sc => rw [zipCreate_ext z0 _ c' _ sc hl]; simp
        · intro hcz
          exact consistent_zipCreate fs cfg z0 q' c' (hcons hcz) hq' hc'

/-! ## Part 5 — the walk and the simulation -/

/-- what happened to the archive while one imported file was handled after `bundleImport` -/
def Step (sem : Sem) (recW : Fs → Path → Content → Except Fail Fs) (chain : List Path)
    (i : Imp) (q : Path) (c : Content) (z1 z2 : Fs) : Prop :=
  (i.dec ≠ .none ∧ sem.decodeOk i.dec c.bytes = true ∧ z2 = z1) ∨
  (i.dec = .none ∧ lastExt q ≠ arraiExt ∧ z2 = z1) ∨
  (i.dec = .none ∧ lastExt q = arraiExt ∧ q ∉ chain ∧ recW z1 q c = .ok z2)

theorem walkKids_cons_ok (sem : Sem) (fs : Fs) (cfg : Cfg) (recW : Fs → Path → Content → Except Fail Fs)
    (d : Path) (chain : List Path) (z : Fs) (i : Imp) (r : List Imp) (z' : Fs)
    (h : walkKids sem fs cfg recW d chain z (i :: r) = .ok z') :
    ∃ q c z1 z2, bundleImport fs cfg z d i = .ok (q, c, z1) ∧ Step sem recW chain i q c z1 z2 ∧
      walkKids sem fs cfg recW d chain z2 r = .ok z' := by
  simp only [walkKids] at h
  cases hb : bundleImport fs cfg z d i with
  | error e => rw [hb] at h; cases h
  | ok res =>
    obtain ⟨q, c, z1⟩ := res
    rw [hb] at h
    simp only at h
    by_cases hdec : i.dec = .none
    · by_cases hext : lastExt q = arraiExt
      · by_cases hch : q ∈ chain
        · simp [hdec, hext, hch] at h
        · simp only [hdec, ne_eq, not_true_eq_false, if_false, hext, hch] at h
          cases hr : recW z1 q c with
          | error e => rw [hr] at h; cases h
          | ok z2 =>
            rw [hr] at h
            exact ⟨q, c, z1, z2, rfl, Or.inr (Or.inr ⟨hdec, hext, hch, hr⟩), h⟩
      · simp only [hdec, ne_eq, not_true_eq_false, if_false, hext, if_true] at h
        exact ⟨q, c, z1, z1, rfl, Or.inr (Or.inl ⟨hdec, hext, rfl⟩), h⟩
    · by_cases hok : sem.decodeOk i.dec c.bytes = true
      · simp only [ne_eq, hdec, not_false_eq_true, if_true, hok] at h
        exact ⟨q, c, z1, z1, rfl, Or.inl ⟨hdec, hok, rfl⟩, h⟩
      · simp [hdec, hok] at h

/-- the recursive call of the walk only extends the archive and keeps it consistent -/
structure RecInv (fs : Fs) (cfg : Cfg) (recW : Fs → Path → Content → Except Fail Fs) : Prop where
  ext : ∀ z1 q c z2, cfg.absRoot <+: dirOf q → recW z1 q c = .ok z2 → Ext z1 z2
  cons : ∀ z1 q c z2, cfg.absRoot <+: dirOf q → recW z1 q c = .ok z2 → Consistent fs cfg z1 → Consistent fs cfg z2

theorem walkKids_inv (sem : Sem) (fs : Fs) (cfg : Cfg) (hs : Setup fs cfg)
    (recW : Fs → Path → Content → Except Fail Fs) (hrec : RecInv fs cfg recW)
    (d : Path) (hd : cfg.absRoot <+: d) (chain : List Path) :
    ∀ imps z z', walkKids sem fs cfg recW d chain z imps = .ok z' →
      Ext z z' ∧ (Consistent fs cfg z → Consistent fs cfg z') := by
  intro imps
  induction imps with
  | nil =>
    intro z z' h
    simp only [walkKids] at h
    injection h with h; subst h
    exact ⟨Ext.refl _, fun x => x⟩
  | cons i r ih =>
    intro z z' h
    obtain ⟨q, c, z1, z2, hb, hstep, hrest⟩ := walkKids_cons_ok sem fs cfg recW d chain z i r z' h
    obtain ⟨htq, _, hext1, _, _, hcons1⟩ := bundleImport_ok fs cfg hs z d i q c z1 hd hb
    obtain ⟨hext3, hcons3⟩ := ih z2 z' hrest
    have h12 : Ext z1 z2 ∧ (Consistent fs cfg z1 → Consistent fs cfg z2) := by
      rcases hstep with ⟨_, _, rfl⟩ | ⟨_, _, rfl⟩ | ⟨_, _, _, hr⟩
      · exact ⟨Ext.refl _, fun x => x⟩
      · exact ⟨Ext.refl _, fun x => x⟩
      · obtain ⟨base, ns, e, hne, hb', _⟩ := target_shape fs cfg hs d i q hd htq
        have hdq : cfg.absRoot <+: dirOf q := by
          rw [e, dirOf_append base ns hne]; exact prefix_append_of_prefix _ hb'
        exact ⟨hrec.ext z1 q c z2 hdq hr, hrec.cons z1 q c z2 hdq hr⟩
    exact ⟨Ext.trans hext1 (Ext.trans h12.1 hext3), fun hc => hcons3 (h12.2 (hcons1 hc))⟩

theorem walk_inv (sem : Sem) (fs : Fs) (cfg : Cfg) (hs : Setup fs cfg) :
    ∀ fuel chain z key c z', cfg.absRoot <+: dirOf key →
      walk sem fs cfg fuel chain z key c = .ok z' → Ext z z' ∧ (Consistent fs cfg z → Consistent fs cfg z') := by
  intro fuel
  induction fuel with
  | zero => intro chain z key c z' _ h; simp [walk] at h
  | succ fuel ih =>
    intro chain z key c z' hd h
    simp only [walk] at h
    refine walkKids_inv sem fs cfg hs _ ?_ (dirOf key) hd chain c.imps z z' h
    exact ⟨fun z1 q c' z2 hdq hr => (ih (q :: chain) z1 q c' z2 hdq hr).1, fun z1 q c' z2 hdq hr => (ih (q :: chain) z1 q c' z2 hdq hr).2⟩

theorem lastExt_map (fs : Fs) (cfg : Cfg) (hs : Setup fs cfg) (d : Path) (i : Imp) (q : Path)
    (hd : cfg.absRoot <+: d) (h : target fs d i = .ok q) : lastExt (mapPath cfg q) = lastExt q := by
  obtain ⟨base, ns, e, hne, hb, _⟩ := target_shape fs cfg hs d i q hd h
  rw [e, map_join cfg base ns hb, lastExt_append _ _ hne, lastExt_append _ _ hne]

/-- the imports of one script: compiling them inside the archive equals compiling them in the source tree -/
theorem sim_kids (sem : Sem) (fs : Fs) (cfg : Cfg) (hs : Setup fs cfg) (Z : Fs) (hZ : Consistent fs cfg Z)
    (recW : Fs → Path → Content → Except Fail Fs) (recL recLZ : Path → Content → Except Fail T)
    (hinv : RecInv fs cfg recW)
    (hsim : ∀ z1 z2 q c, cfg.absRoot <+: q → q ≠ [] → cfg.absRoot <+: dirOf q → recW z1 q c = .ok z2 →
      Ext z2 Z → recLZ (mapPath cfg q) c = recL q c)
    (d : Path) (hd : cfg.absRoot <+: d) (chain : List Path) (hchain : ∀ a ∈ chain, cfg.absRoot <+: a) :
    ∀ imps z z', walkKids sem fs cfg recW d chain z imps = .ok z' → Ext z' Z →
      loadKids sem Z recLZ (mapPath cfg d) (chain.map (mapPath cfg)) imps = loadKids sem fs recL d chain imps := by
  intro imps
  induction imps with
  | nil => intro z z' _ _; simp [loadKids]
  | cons i r ih =>
    intro z z' h hext
    obtain ⟨q, c, z1, z2, hb, hstep, hrest⟩ := walkKids_cons_ok sem fs cfg recW d chain z i r z' h
    obtain ⟨htq, hc, _, hq1, hsent1, _⟩ := bundleImport_ok fs cfg hs z d i q c z1 hd hb
    obtain ⟨base, ns, eq, hne, hbase, _⟩ := target_shape fs cfg hs d i q hd htq
    have hqa : cfg.absRoot <+: q := by rw [eq]; exact prefix_append_of_prefix _ hbase
    have hqne : q ≠ [] := by rw [eq]; simp [hne]
    have hdq : cfg.absRoot <+: dirOf q := by
      rw [eq, dirOf_append base ns hne]; exact prefix_append_of_prefix _ hbase
    have hext2 : Ext z2 z' := (walkKids_inv sem fs cfg hs recW hinv d hd chain r z2 z' hrest).1
    have h12 : Ext z1 z2 := by
      rcases hstep with ⟨_, _, rfl⟩ | ⟨_, _, rfl⟩ | ⟨_, _, _, hr⟩
      · exact Ext.refl _
      · exact Ext.refl _
      · exact hinv.ext z1 q c z2 hdq hr
    have h1Z : Ext z1 Z := Ext.trans h12 (Ext.trans hext2 hext)
    -- the archive resolves the import to the image of q and holds q's content there
    have htZ : target Z (mapPath cfg d) i = .ok (mapPath cfg q) := by
      apply target_map fs cfg hs Z hZ d i q hd htq
      intro hdot r' hr'
      have := hsent1 hdot r' hr'
      cases hl : z1.lookup (mapPath cfg (r' ++ [sentinel])) with
      | none => exact absurd hl this
      | some sc => rw [h1Z _ sc hl]; simp
    have hlZ : Z.lookup (mapPath cfg q) = some c := by
      cases hl : z1.lookup (mapPath cfg q) with
      | none => exact absurd hl hq1
      | some c' =>
        have h1 := h1Z _ c' hl
        have h2 := consistent_lookup fs cfg hs Z hZ q hqa c' h1
        rw [hc] at h2; injection h2 with h2
        rw [h2]; exact h1
    have hle : lastExt (mapPath cfg q) = lastExt q := lastExt_map fs cfg hs d i q hd htq
    have hleaf : leafOrScript sem recLZ (chain.map (mapPath cfg)) i (mapPath cfg q) c =
        leafOrScript sem recL chain i q c := by
      unfold leafOrScript
      rw [hle]
      rcases hstep with ⟨hdec, _, _⟩ | ⟨hdec, hx, _⟩ | ⟨hdec, hx, hch, hr⟩
      · simp [hdec]
      · simp [hdec, hx]
      · have hch' : mapPath cfg q ∉ chain.map (mapPath cfg) :=
          fun hm => hch ((map_mem_chain cfg chain q hqa hchain).1 hm)
        simp only [hdec, ne_eq, not_true_eq_false, if_false, hx, hch, hch']
        exact hsim z1 z2 q c hqa hqne hdq hr (Ext.trans hext2 hext)
    have hrestEq := ih z2 z' hrest hext
    simp only [loadKids, htZ, hlZ, htq, hc, hleaf, hrestEq]

/-- **simulation**: a script compiled inside the archive (at the image of its path) has the compiled
form it has in the source tree -/
theorem sim_load (sem : Sem) (fs : Fs) (cfg : Cfg) (hs : Setup fs cfg) (Z : Fs) (hZ : Consistent fs cfg Z) :
    ∀ fuel chain z key c z', cfg.absRoot <+: dirOf key → key ≠ [] → (∀ a ∈ chain, cfg.absRoot <+: a) →
      walk sem fs cfg fuel chain z key c = .ok z' → Ext z' Z →
      load sem Z fuel (chain.map (mapPath cfg)) (mapPath cfg key) c = load sem fs fuel chain key c := by
  intro fuel
  induction fuel with
  | zero => intro chain z key c z' _ _ _ h; simp [walk] at h
  | succ fuel ih =>
    intro chain z key c z' hd hne hchain h hext
    simp only [walk] at h
    simp only [load]
    rw [map_dir cfg key hd hne]
    have hinv : RecInv fs cfg (fun z' q c' => walk sem fs cfg fuel (q :: chain) z' q c') :=
      ⟨fun z1 q c' z2 hdq hr => (walk_inv sem fs cfg hs fuel (q :: chain) z1 q c' z2 hdq hr).1,
       fun z1 q c' z2 hdq hr => (walk_inv sem fs cfg hs fuel (q :: chain) z1 q c' z2 hdq hr).2⟩
    have := sim_kids sem fs cfg hs Z hZ _ (fun q c' => load sem fs fuel (q :: chain) q c')
      (fun q c' => load sem Z fuel (q :: chain.map (mapPath cfg)) q c') hinv
      (by
        intro z1 z2 q c' hqa hqne hdq hr hx
        have := ih (q :: chain) z1 q c' z2 hdq hqne (by
          intro a ha
          simp at ha
          rcases ha with rfl | ha
          · exact hqa
          · exact hchain a ha) hr hx
        simpa using this)
      (dirOf key) hd chain hchain c.imps z z' h hext
    rw [this]

/-! ## Part 6 — the bundling walk fails exactly when (and as) the source compile fails -/

/-- the walk and the compile agree on success, and on the failure -/
def Agree {α β : Type} (rW : Except Fail α) (rL : Except Fail β) : Prop :=
  match rW with
  | .ok _ => ∃ t, rL = .ok t
  | .error e => rL = .error e

theorem bundleImport_agree (fs : Fs) (cfg : Cfg) (z : Fs) (d : Path) (i : Imp) :
    match bundleImport fs cfg z d i with
    | .ok (q, c, _) => target fs d i = .ok q ∧ fs.lookup q = some c
    | .error e => target fs d i = .error e ∨ (∃ q, target fs d i = .ok q ∧ fs.lookup q = none ∧ e = .imp .notFound) := by
  unfold bundleImport
  cases htq : target fs d i with
  | error e => simp
  | ok q =>
    simp only
    have fin : ∀ z0 : Fs,
        (match (match fs.lookup q with
          | none => (Except.error (Fail.imp Err.notFound) : Except Fail (Path × Content × Fs))
          | some c => Except.ok (q, c, zipCreate z0 (mapPath cfg q) c)) with
        | .ok (q', c, _) => (Except.ok q : Except Fail Path) = .ok q' ∧ fs.lookup q' = some c
        | .error e => (Except.ok q : Except Fail Path) = .error e ∨
            (∃ q', (Except.ok q : Except Fail Path) = .ok q' ∧ fs.lookup q' = none ∧ e = .imp .notFound)) := by
      intro z0
      cases hc : fs.lookup q with
      | none => exact Or.inr ⟨q, rfl, hc, rfl⟩
      | some c => exact ⟨rfl, hc⟩
    by_cases hdot : i.dot = true
    · simp only [hdot, if_true]
      exact fin z
    · simp only [hdot, if_false]
      cases hr : findRootC fs d with
      | none => exact fin z
      | some r =>
        simp only [addModuleSentinel]
        cases hsc : fs.lookup (r ++ [sentinel]) with
        | none => exact absurd hsc (findRootC_sentinel fs d r hr)
        | some sc => exact fin _

theorem walkKids_agree (sem : Sem) (fs : Fs) (cfg : Cfg) (recW : Fs → Path → Content → Except Fail Fs)
    (recL : Path → Content → Except Fail T) (hrec : ∀ z q c, Agree (recW z q c) (recL q c))
    (d : Path) (chain : List Path) :
    ∀ imps z, Agree (walkKids sem fs cfg recW d chain z imps) (loadKids sem fs recL d chain imps) := by
  intro imps
  induction imps with
  | nil => intro z; simp [walkKids, loadKids, Agree]
  | cons i r ih =>
    intro z
    have hb := bundleImport_agree fs cfg z d i
    simp only [walkKids, loadKids]
    cases hbi : bundleImport fs cfg z d i with
    | error e =>
      rw [hbi] at hb
      simp only at hb ⊢
      rcases hb with hb | ⟨q, hq, hl, rfl⟩
      · simp [hb, Agree]
      · simp [hq, hl, Agree]
    | ok res =>
      obtain ⟨q, c, z1⟩ := res
      rw [hbi] at hb
      simp only at hb ⊢
      simp only [hb.1, hb.2, leafOrScript]
      by_cases hdec : i.dec = .none
      · by_cases hext : lastExt q = arraiExt
        · by_cases hch : q ∈ chain
          · simp [hdec, hext, hch, Agree]
          · simp only [hdec, ne_eq, not_true_eq_false, if_false, hext, hch]
            have hr := hrec z1 q c
            cases hw : recW z1 q c with
            | error e => rw [hw] at hr; simp only [Agree] at hr; simp [hr, Agree]
            | ok z2 =>
              rw [hw] at hr
              obtain ⟨t, ht⟩ := hr
              simp only [ht]
              have := ih z2
              cases hk : walkKids sem fs cfg recW d chain z2 r with
              | error e => rw [hk] at this; simp only [Agree] at this; simp [this, hk, Agree]
              | ok z3 => rw [hk] at this; obtain ⟨ts, hts⟩ := this; simp [hts, hk, Agree]
        · simp only [hdec, ne_eq, not_true_eq_false, if_false, hext, if_true]
          have := ih z1
          cases hk : walkKids sem fs cfg recW d chain z1 r with
          | error e => rw [hk] at this; simp only [Agree] at this; simp [this, hk, Agree]
          | ok z3 => rw [hk] at this; obtain ⟨ts, hts⟩ := this; simp [hts, hk, Agree]
      · by_cases hok : sem.decodeOk i.dec c.bytes = true
        · simp only [ne_eq, hdec, not_false_eq_true, if_true, hok]
          have := ih z1
          cases hk : walkKids sem fs cfg recW d chain z1 r with
          | error e => rw [hk] at this; simp only [Agree] at this; simp [this, hk, Agree]
          | ok z3 => rw [hk] at this; obtain ⟨ts, hts⟩ := this; simp [hts, hk, Agree]
        · simp [hdec, hok, Agree]

theorem walk_agree (sem : Sem) (fs : Fs) (cfg : Cfg) :
    ∀ fuel chain z key c, Agree (walk sem fs cfg fuel chain z key c) (load sem fs fuel chain key c) := by
  intro fuel
  induction fuel with
  | zero => intro chain z key c; simp [walk, load, Agree]
  | succ fuel ih =>
    intro chain z key c
    simp only [walk, load]
    have := walkKids_agree sem fs cfg (fun z' q c' => walk sem fs cfg fuel (q :: chain) z' q c')
      (fun q c' => load sem fs fuel (q :: chain) q c') (fun z' q c' => ih (q :: chain) z' q c')
      (dirOf key) chain c.imps z
    cases hk : walkKids sem fs cfg (fun z' q c' => walk sem fs cfg fuel (q :: chain) z' q c') (dirOf key) chain z c.imps with
    | error e => rw [hk] at this; simp only [Agree] at this; simp [this, hk, Agree]
    | ok z3 => rw [hk] at this; obtain ⟨ts, hts⟩ := this; simp [hts, hk, Agree]

/-! ## Part 7 — what SetupBundle establishes -/

theorem dirOf_prefix (p : Path) : dirOf p <+: p := by
  unfold dirOf
  exact List.dropLast_prefix p

theorem drop_dropLast (l : Path) (h : l ≠ []) : l.drop l.dropLast.length = [l.getLast h] := by
  have e := List.dropLast_concat_getLast h
  conv => lhs; arg 2; rw [← e]
  rw [List.drop_left]

theorem rootOk_mod (fs : Fs) (root : Path) (hsent : fs.lookup (root ++ [sentinel]) ≠ none) :
    ∀ d r, root <+: d → findRootC fs d = some r → root <+: r := by
  intro d r hd hr
  obtain ⟨hrd, _, hnear⟩ := findRootUp_some _ _ _ hr
  simp only [List.reverse_reverse] at hrd hnear
  by_cases hlen : root.length ≤ r.length
  · exact List.prefix_of_prefix_length_le hd hrd hlen
  · have hrr : r <+: root := List.prefix_of_prefix_length_le hrd hd (by omega)
    have hne : root ≠ r := fun e => hlen (by rw [e]; exact Nat.le_refl _)
    have := hnear root hrr hd hne
    rw [fileExists_false_iff] at this
    exact absurd this hsent

theorem rootEx_mod (fs : Fs) (root : Path) (hsent : fs.lookup (root ++ [sentinel]) ≠ none) :
    ∀ d, root <+: d → findRootC fs d ≠ none := by
  intro d hd hnone
  have := findRootUp_none _ _ hnone root (by simpa using hd)
  rw [fileExists_false_iff] at this
  exact hsent this

theorem rootOk_nomod (fs : Fs) (a : Path) (hnone : findRootC fs a = none) :
    ∀ d r, a <+: d → findRootC fs d = some r → a <+: r := by
  intro d r hd hr
  obtain ⟨hrd, hsent, _⟩ := findRootUp_some _ _ _ hr
  simp only [List.reverse_reverse] at hrd
  by_cases hlen : a.length ≤ r.length
  · exact List.prefix_of_prefix_length_le hd hrd hlen
  · have hra : r <+: a := List.prefix_of_prefix_length_le hrd hd (by omega)
    have := findRootUp_none _ _ hnone r (by simpa using hra)
    rw [hsent] at this
    cases this

theorem parseModule_ne_nil (b name : Str) (h : parseModule b = some name) : name ≠ [] := by
  unfold parseModule at h
  split at h
  · simp only at h
    split at h
    · rename_i hc
      injection h with h
      rw [← h]; exact hc.1
    · cases h
  · cases h

theorem normal_moduleDir : Spec.Normal moduleDir := by decide

/-- `SetupBundle` succeeded: the configuration and the initial archive are as the simulation needs them -/
theorem setup_ok (fs : Fs) (main : Path) (cfg : Cfg) (z0 : Fs) (hmain : main ≠ [])
    (h : setupBundle fs main = .ok (cfg, z0))
    (hname : ∀ c ∈ splitSlash cfg.mainRoot, cfg.mainRoot ≠ [] → Spec.Normal c) :
    Setup fs cfg ∧ Consistent fs cfg z0 ∧ cfg.absRoot <+: dirOf main ∧ cfg.mainFile = mapPath cfg main ∧
      ∃ src, fs.lookup main = some src ∧ z0.lookup (mapPath cfg main) = some src := by
  unfold setupBundle at h
  cases hsrc : fs.lookup main with
  | none => rw [hsrc] at h; cases h
  | some src =>
    rw [hsrc] at h
    simp only at h
    have hlast : main.getLast? = some (main.getLast hmain) := List.getLast?_eq_getLast hmain
    cases hroot : findRootC fs (dirOf main) with
    | none =>
      rw [hroot] at h
      simp only [hlast] at h
      injection h with h
      injection h with hcfg hz
      subst hcfg; subst hz
      have hmapG : ∀ cfg : Cfg, cfg.pfx = [noModuleDir] → cfg.absRoot = dirOf main →
          mapPath cfg main = [noModuleDir] ++ [main.getLast hmain] := by
        intro cfg h1 h2
        simp only [mapPath, h1, h2, dirOf, drop_dropLast main hmain]
      have hmap := hmapG ⟨[], [noModuleDir], [noModuleDir] ++ [main.getLast hmain], dirOf main⟩ rfl rfl
      refine ⟨⟨⟨noModuleDir, [], rfl, by decide⟩, fun _ => rfl, rootOk_nomod fs _ hroot, fun hh => absurd rfl hh⟩,
        ?_, List.prefix_refl _, hmap.symm, src, rfl, ?_⟩
      · intro p c hm
        rcases zipCreate_mem _ _ _ p c hm with hm | ⟨rfl, _⟩
        · rcases zipCreate_mem _ _ _ p c hm with hm | ⟨rfl, rfl⟩
          · cases hm
          · exact Or.inr ⟨main, dirOf_prefix main, hmap.symm, hsrc⟩
        · exact Or.inl rfl
      · rw [hmap]
        apply zipCreate_ext
        rcases zipCreate_lookup [] ([noModuleDir] ++ [main.getLast hmain]) src with hl | ⟨d', hd', _⟩
        · exact hl
        · cases hd'
    | some root =>
      rw [hroot] at h
      simp only at h
      cases hsc : fs.lookup (root ++ [sentinel]) with
      | none => rw [hsc] at h; cases h
      | some sc =>
        rw [hsc] at h
        simp only at h
        cases hpm : parseModule sc.bytes with
        | none => rw [hpm] at h; cases h
        | some name =>
          rw [hpm] at h
          simp only at h
          injection h with h
          injection h with hcfg hz
          subst hcfg; subst hz
          have hnn : name ≠ [] := parseModule_ne_nil _ _ hpm
          have hnorm : norm true (moduleDir :: splitSlash name) = moduleDir :: splitSlash name := by
            apply norm_normal
            intro c hc
            simp at hc
            rcases hc with rfl | hc
            · exact normal_moduleDir
            · exact hname c hc hnn
          have hrd : root <+: dirOf main := by
            have := (findRootUp_some _ _ _ hroot).1
            simpa using this
          have hsent : fs.lookup (root ++ [sentinel]) ≠ none := by rw [hsc]; simp
          simp only [hnorm] at *
          refine ⟨⟨⟨moduleDir, _, rfl, by decide⟩, fun hh => absurd hh hnn, rootOk_mod fs root hsent,
            fun _ => rootEx_mod fs root hsent⟩, ?_, hrd, rfl, src, rfl, ?_⟩
          · intro p c hm
            rcases zipCreate_mem _ _ _ p c hm with hm | ⟨rfl, _⟩
            · rcases zipCreate_mem _ _ _ p c hm with hm | ⟨rfl, rfl⟩
              · rcases zipCreate_mem _ _ _ p c hm with hm | ⟨rfl, rfl⟩
                · cases hm
                · refine Or.inr ⟨root ++ [sentinel], List.prefix_append _ _, ?_, hsc⟩
                  simp [mapPath]
              · exact Or.inr ⟨main, List.IsPrefix.trans hrd (dirOf_prefix main), rfl, hsrc⟩
            · exact Or.inl rfl
          · apply zipCreate_ext
            rcases zipCreate_lookup (zipCreate [] (moduleDir :: splitSlash name ++ [sentinel]) sc)
                (moduleDir :: splitSlash name ++ main.drop root.length) src with hl | ⟨d', hd', hl⟩
            · exact hl
            · -- an entry was already there: it can only be the sentinel, i.e. main is the sentinel itself
              have hm := lookup_mem _ _ _ hd'
              rcases zipCreate_mem _ _ _ _ _ hm with hm | ⟨he, hdsc⟩
              · cases hm
              · have hmain2 : main = root ++ [sentinel] := by
                  have := List.append_cancel_left he
                  rw [prefix_decomp (List.IsPrefix.trans hrd (dirOf_prefix main)), this]
                have hss : sc = src := by
                  rw [hmain2, hsc] at hsrc
                  injection hsrc
                rw [hdsc] at hl
                rw [hss] at hl ⊢
                exact hl

end Arrai.C15
