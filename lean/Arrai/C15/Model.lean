/-
  C15 — a bundle evaluates exactly like its sources and reads nothing else.

  Paths are cleaned absolute paths, as component lists (`Impl.Path` of C16: `filepath.Abs/Join/Dir`,
  `path.Join`, `strings.TrimPrefix(abs, root)` for a component-prefix `root` are concatenation, `dropLast`
  and `drop` on components).  Which components an import appends to its base directory is C16's
  pipeline (`dotRel`, `rootRel`: proved equal to the string-level `resolve` in Arrai/C16).

  `Impl.load`    : Compile → compilePackage → importLocalFile → fileValue → bytesValue over a file system
                   `Fs = List (Path × Content)`; the compiled form is a tree of file contents.  What the
                   parser finds in a file and what a decoder makes of bytes are abstract (`Content.imps`,
                   `Sem`): the same functions for the source tree and for the archive.
  `Impl.Bundle`  : SetupBundle, bundleLocalFile, addModuleSentinel, createConfig (syntax/bundle.go),
                   ZipCreate (pkg/ctxfs), BundledScripts (pkg/bundle) — the same traversal, collecting the
                   archive — and WithBundleRun/withBundledConfig/GetMainBundleSource/EvaluateBundleCtx.
  Core-only.
-/
import Arrai.C16.Model

namespace Arrai.C15
open Arrai.C16 Arrai.C16.Impl Arrai.C16.Impl.Strs Arrai.C16.Impl.Path

abbrev Path := List Str

/-- the decoder of an import: none (`//{p}`), or an explicit one (`//[//encoding.json]{p}` …) -/
inductive Dec
  | none | json | yaml | bytes
  deriving DecidableEq, Repr, Inhabited

structure Imp where
  dot : Bool
  raw : Str
  dec : Dec

/-- a file: its bytes and what the arr.ai parser finds in them (the import expressions in source
order; irrelevant for data files).  `val` names the content in the abstract value. -/
structure Content where
  bytes : Str
  imps : List Imp
  val : Nat

abbrev Fs := List (Path × Content)

inductive Fail
  | imp (e : Err)       -- compilePackage / importLocalFile / fileValue errors (C16)
  | sentinel            -- errSentinelHasNoModule
  | decode              -- an explicit decoder rejected the bytes (at compile time)
  | notBundled          -- "not bundled properly, main file not accessible" (panic)
  | fuel                -- model artefact
  deriving DecidableEq

/-- compiled form: a script with the compiled forms of its imports, or a data leaf -/
inductive T where
  | script (c : Content) (kids : List T)
  | data (dec : Dec) (ext : Str) (c : Content)

/-- what explicit decoders accept (they run at compile time); the same function on both sides -/
structure Sem where
  decodeOk : Dec → Str → Bool

namespace Impl

def dirOf (p : Path) : Path := p.dropLast

/-- `filepath.Ext` of a cleaned path: of its last component -/
def lastExt (q : Path) : Str :=
  match q.reverse with
  | [] => []
  | l :: _ => ext l

def Fs.keys (fs : Fs) : List Path := fs.map (·.1)

/-- `findRootFromModule` over `fs` -/
def findRootC (fs : Fs) (d : Path) : Option Path := findRootUp ⟨[], Fs.keys fs⟩ d.reverse

/-- the file an import expression of a script in directory `srcDir` names -/
def target (fs : Fs) (srcDir : Path) (i : Imp) : Except Fail Path :=
  if i.dot then
    match dotRel i.raw with
    | .error e => .error (.imp e)
    | .ok ns => .ok (srcDir ++ ns)
  else
    match rootRel i.raw with
    | .error e => .error (.imp e)
    | .ok ms =>
      match findRootC fs srcDir with
      | none => .error (.imp .noModule)
      | some r => .ok (r ++ ms)

/-- `fileValue` once the bytes are read: explicit decoder, implicit decoder (lazy), or a script -/
def leafOrScript (sem : Sem) (rec : Path → Content → Except Fail T) (chain : List Path)
    (i : Imp) (q : Path) (c : Content) : Except Fail T :=
  if i.dec ≠ .none then
    if sem.decodeOk i.dec c.bytes then .ok (.data i.dec (lastExt q) c) else .error .decode
  else if lastExt q ≠ arraiExt then .ok (.data .none (lastExt q) c)
  else if q ∈ chain then .error (.imp .importCycle)
  else rec q c

/-- the imports of one script, in source order; the first failure aborts -/
def loadKids (sem : Sem) (fs : Fs) (rec : Path → Content → Except Fail T) (srcDir : Path) (chain : List Path) :
    List Imp → Except Fail (List T)
  | [] => .ok []
  | i :: r =>
    match target fs srcDir i with
    | .error e => .error e
    | .ok q =>
      match fs.lookup q with
      | none => .error (.imp .notFound)
      | some c =>
        match leafOrScript sem rec chain i q c with
        | .error e => .error e
        | .ok t =>
          match loadKids sem fs rec srcDir chain r with
          | .error e => .error e
          | .ok ts => .ok (t :: ts)

/-- `Compile(ctx, key, c.bytes)`; `chain` = scripts being compiled along this call chain -/
def load (sem : Sem) (fs : Fs) : Nat → List Path → Path → Content → Except Fail T
  | 0, _, _, _ => .error .fuel
  | fuel + 1, chain, key, c =>
    match loadKids sem fs (fun q c' => load sem fs fuel (q :: chain) q c') (dirOf key) chain c.imps with
    | .error e => .error e
    | .ok ts => .ok (.script c ts)

/-- `arrai run main` over the source tree (compile-time structure; the value is a function of it).
The main script is compiled directly: it is not in the chain. -/
def evalSource (sem : Sem) (fs : Fs) (main : Path) (fuel : Nat) : Except Fail T :=
  match fs.lookup main with
  | none => .error (.imp .notFound)
  | some c => load sem fs fuel [] main c

/-! ## bundling -/

def moduleDir : Str := "module".toList
def noModuleDir : Str := "unnamed".toList
def configName : Str := "config.arrai".toList

structure Cfg where
  mainRoot : Str      -- the module path; "" for a script without a module
  pfx : Path          -- where files below `absRoot` go: /module/<mainRoot> or /unnamed
  mainFile : Path
  absRoot : Path

/-- `rootModuleRE = "^module ([^\n]+)\n"` -/
def parseModule (bytes : Str) : Option Str :=
  if hasPrefix bytes "module ".toList then
    let rest := bytes.drop 7
    let name := rest.takeWhile (· ≠ '\n')
    if name ≠ [] ∧ (rest.drop name.length).head? = some '\n' then some name else none
  else none

/-- `path.Join(dir, mainRoot, strings.TrimPrefix(abs, absRootPath))` for `abs` beneath `absRoot` -/
def mapPath (cfg : Cfg) (q : Path) : Path := cfg.pfx ++ q.drop cfg.absRoot.length

/-- `ctxfs.ZipCreate`: an existing entry is kept -/
def zipCreate (z : Fs) (p : Path) (c : Content) : Fs := if z.any (fun e => e.1 = p) then z else z ++ [(p, c)]

/-- `bundleConfig.String()`: `(main_root: %q, main_file: %q)` for strings `%q` leaves unescaped -/
def configContent (cfg : Cfg) : Content :=
  { bytes := "(main_root: \"".toList ++ cfg.mainRoot ++ "\", main_file: \"".toList ++
      render true cfg.mainFile ++ "\")".toList,
    imps := [], val := 0 }

/-- `SetupBundle` (+ `createConfig`) -/
def setupBundle (fs : Fs) (main : Path) : Except Fail (Cfg × Fs) :=
  match fs.lookup main with
  | none => .error (.imp .notFound)
  | some src =>
    match findRootC fs (dirOf main) with
    | none =>
      let mainFile := [noModuleDir] ++ (match main.getLast? with | some b => [b] | none => [])
      let cfg : Cfg := { mainRoot := [], pfx := [noModuleDir], mainFile, absRoot := dirOf main }
      let z := zipCreate [] mainFile src
      .ok (cfg, zipCreate z [configName] (configContent cfg))
    | some root =>
      match fs.lookup (root ++ [sentinel]) with
      | none => .error (.imp .notFound)
      | some sc =>
        match parseModule sc.bytes with
        | none => .error .sentinel
        | some name =>
          let pfx := norm true (moduleDir :: splitSlash name)
          let z := zipCreate [] (pfx ++ [sentinel]) sc
          let mainFile := pfx ++ main.drop root.length
          let z := zipCreate z mainFile src
          let cfg : Cfg := { mainRoot := name, pfx, mainFile, absRoot := root }
          .ok (cfg, zipCreate z [configName] (configContent cfg))

/-- `addModuleSentinel` (as repaired: next to the files of its module) -/
def addModuleSentinel (fs : Fs) (cfg : Cfg) (z : Fs) (root : Path) : Except Fail Fs :=
  match fs.lookup (root ++ [sentinel]) with
  | none => .error (.imp .notFound)
  | some sc => .ok (zipCreate z (mapPath cfg (root ++ [sentinel])) sc)

/-- `importLocalFile` while bundling: the sentinel for a module-rooted import, then `bundleLocalFile` -/
def bundleImport (fs : Fs) (cfg : Cfg) (z : Fs) (srcDir : Path) (i : Imp) : Except Fail (Path × Content × Fs) :=
  match target fs srcDir i with
  | .error e => .error e
  | .ok q =>
    let z1 : Except Fail Fs :=
      if i.dot then .ok z
      else match findRootC fs srcDir with
        | none => .ok z
        | some r => addModuleSentinel fs cfg z r
    match z1 with
    | .error e => .error e
    | .ok z1 =>
      match fs.lookup q with
      | none => .error (.imp .notFound)
      | some c => .ok (q, c, zipCreate z1 (mapPath cfg q) c)

/-- the compile of `BundledScripts`, collecting the archive (same traversal as `loadKids`) -/
def walkKids (sem : Sem) (fs : Fs) (cfg : Cfg) (rec : Fs → Path → Content → Except Fail Fs)
    (srcDir : Path) (chain : List Path) : Fs → List Imp → Except Fail Fs
  | z, [] => .ok z
  | z, i :: r =>
    match bundleImport fs cfg z srcDir i with
    | .error e => .error e
    | .ok (q, c, z1) =>
      let z2 : Except Fail Fs :=
        if i.dec ≠ .none then (if sem.decodeOk i.dec c.bytes then .ok z1 else .error .decode)
        else if lastExt q ≠ arraiExt then .ok z1
        else if q ∈ chain then .error (.imp .importCycle)
        else rec z1 q c
      match z2 with
      | .error e => .error e
      | .ok z2 => walkKids sem fs cfg rec srcDir chain z2 r

def walk (sem : Sem) (fs : Fs) (cfg : Cfg) : Nat → List Path → Fs → Path → Content → Except Fail Fs
  | 0, _, _, _, _ => .error .fuel
  | fuel + 1, chain, z, key, c =>
    walkKids sem fs cfg (fun z' q c' => walk sem fs cfg fuel (q :: chain) z' q c') (dirOf key) chain z c.imps

/-- `arrai bundle main`: the configuration and the archive -/
def bundle (sem : Sem) (fs : Fs) (main : Path) (fuel : Nat) : Except Fail (Cfg × Fs) :=
  match setupBundle fs main with
  | .error e => .error e
  | .ok (cfg, z) =>
    match fs.lookup main with
    | none => .error (.imp .notFound)
    | some c =>
      match walk sem fs cfg fuel [] z main c with
      | .error e => .error e
      | .ok z' => .ok (cfg, z')

/-- `arrai run x.arraiz`: WithBundleRun (the archive becomes the source file system),
withBundledConfig + GetMainBundleSource (the main file named by the configuration), EvaluateExpr -/
def evalBundle (sem : Sem) (cfg : Cfg) (z : Fs) (fuel : Nat) : Except Fail T :=
  match z.lookup cfg.mainFile with
  | none => .error .notBundled
  | some c => load sem z fuel [] cfg.mainFile c

end Impl

/-! ## before the repair of addModuleSentinel: always under /module -/
namespace Unrepaired
open Impl
def sentinelLoc (cfg : Cfg) (root : Path) : Path :=
  if cfg.mainRoot = [] then [moduleDir] ++ (root ++ [sentinel]).drop cfg.absRoot.length
  else mapPath cfg (root ++ [sentinel])
end Unrepaired

end Arrai.C15
