import Arrai.Core.DriverMain
import Arrai.C15.Gen

def main (args : List String) : IO UInt32 := Arrai.driverMain Arrai.C15.gen args
