/-
  C15 case generator: module layouts on an in-memory file system; every case is evaluated from source,
  bundled, and the bundle is run from two working directories over an empty file system.
-/
import Arrai.C15.Model

namespace Arrai.C15
open Arrai.C16 Arrai.C16.Impl Arrai.C16.Impl.Strs Arrai.C16.Impl.Path Impl

def str (s : Str) : String := String.ofList s
def pstr (p : Path) : String := str (render true p)
def comp (s : String) : Str := s.toList
def pathOf (s : String) : Path := (splitSlash s.toList).filter (· ≠ [])

def w1 : Path := pathOf "/tmp/vc15/w1"
def w2 : Path := pathOf "/tmp/vc15/w1/sub/w2"

/-! ## the value of a compiled form (the same function on both sides) -/
def isDigits (s : Str) : Bool := s ≠ [] && s.all Char.isDigit

def sem : Sem := { decodeOk := fun d b => match d with | .json => isDigits b | _ => true }

def effDec (dec : Dec) (ext : Str) : Dec :=
  if dec ≠ .none then dec
  else if ext = ".json".toList then .json
  else if ext = ".yaml".toList ∨ ext = ".yml".toList then .yaml
  else .bytes

mutual
def valueOf : T → V
  | .script c kids => V.mkTup [("id", .num c.val), ("imps", V.mkArr (valuesOf kids))]
  | .data dec ext c =>
    match effDec dec ext with
    | .bytes => V.mkBytes (c.bytes.map Char.toNat)
    | _ => .num c.val
def valuesOf : List T → List V
  | [] => []
  | t :: r => valueOf t :: valuesOf r
end

def outcome (r : Except Fail T) : String :=
  match r with
  | .ok t => (valueOf t).canon
  | .error .notBundled => "panic"
  | .error .fuel => "model-out-of-fuel"
  | .error _ => "error"

/-- deeper than any generated import chain -/
def fuel : Nat := 40

/-! ## source text -/
def decSrc : Dec → String
  | .none => "" | .json => "[//encoding.json]" | .yaml => "[//encoding.yaml]" | .bytes => "[//encoding.bytes]"

def impSrc (i : Imp) : String := "//" ++ decSrc i.dec ++ "{" ++ (if i.dot then "." else "") ++ str i.raw ++ "}"

def scriptSrc (id : Nat) (imps : List Imp) : String :=
  s!"(id: {id}, imps: [" ++ ", ".intercalate (imps.map impSrc) ++ "])"

def mkScript (id : Nat) (imps : List Imp) : Content := { bytes := (scriptSrc id imps).toList, imps, val := id }
def mkData (text : String) (val : Nat) : Content := { bytes := text.toList, imps := [], val }
def mkFs (l : List (String × Content)) : Fs := l.map (fun e => (pathOf e.1, e.2))
def imp (dot : Bool) (raw : String) (dec : Dec := .none) : Imp := { dot, raw := raw.toList, dec }

/-! ## observables -/
def sortedNames (z : Fs) : List String := sortStrs (z.map (fun e => str (joinSlash e.1)))

structure Obs where
  src : String
  bundled : Bool
  run : String
  zip : List String

def Obs.text (o : Obs) : String :=
  if o.bundled then s!"src={o.src}|bundle=ok|run1={o.run}|run2={o.run}|outside=|zip=" ++ ",".intercalate o.zip
  else s!"src={o.src}|bundle=error|run1=error|run2=error|outside=|zip="

def modelObs (fs : Fs) (main : Path) : Obs :=
  let src := outcome (evalSource sem fs main fuel)
  match bundle sem fs main fuel with
  | .error _ => { src, bundled := false, run := "error", zip := [] }
  | .ok (cfg, z) => { src, bundled := true, run := outcome (evalBundle sem cfg z fuel), zip := sortedNames z }

/-- what the property demands: the bundle exists exactly when the script compiles, runs to the same
outcome from every working directory, reads nothing outside, and holds the files the model lists -/
def specObs (fs : Fs) (main : Path) : Obs :=
  let m := modelObs fs main
  let compiles := match evalSource sem fs main fuel with | .ok _ => true | .error _ => false
  { src := m.src, bundled := compiles, run := m.src, zip := m.zip }

/-- main path as given on the command line -/
def mainArgOf (cwd main : Path) (relative : Bool) : Str :=
  if !relative then render true main
  else if cwd <+: main then joinSlash (main.drop cwd.length)
  else if w1 <+: main ∧ cwd = w2 then joinSlash ([dd, dd] ++ main.drop w1.length)
  else render true main

def mkCase (id stratum cls : String) (fs : Fs) (main : Path) (cwd1 cwd2 : Path) (relative : Bool) : Case :=
  { id, cls, kind := "bundle", stratum,
    model := (modelObs fs main).text, spec := (specObs fs main).text,
    payload := [pstr cwd1, pstr cwd2, str (mainArgOf cwd1 main relative)] ++
      fs.flatMap (fun e => [pstr e.1, str e.2.bytes]) }

/-! ## layouts -/
def modNames : List String := ["ex.com/m", "m", "github.com/a/b", "my mod", "ex.com/m", "a.b/c-d/e_f"]

def relDirs : List Path :=
  [[], [], [comp "d"], [comp "d", comp "e"], [comp "lib"], [comp "x y"], [comp "d", comp "e", comp "f"], [comp "lib", comp "u"]]

def sentinelText (name : String) (variant : Nat) : String :=
  match variant with
  | 0 => s!"module {name}\n"
  | 1 => s!"module {name}\n\ngo 1.20\n"
  | 2 => s!"module {name}"                 -- no final newline
  | 3 => s!"// c\nmodule {name}\n"          -- a comment first
  | 5 => s!"module {name}\r\n\r\ngo 1.20\r\n"  -- CRLF line ends (the module path then ends in \\r)
  | 6 => s!"module {name} \n"               -- a blank after the module path
  | 7 => s!"module {name}\t\n\ngo 1.21\n"   -- a tab after the module path, a go line
  | 8 => s!"module {name}\n\n"              -- a trailing blank line
  | _ => ""                                -- an EMPTY go.mod: no module line at all

/-- the module path a NESTED go.mod declares: it need not mirror the directory — the main path plus a different
suffix, the main path itself, a sibling of it, or an unrelated path -/
def nestedNames (mainName : String) : List String :=
  [mainName ++ "/gen", mainName ++ "/x/y", mainName, mainName ++ "2", "other.org/n", "nested", mainName ++ "/gen"]

/-- sentinel variants `SetupBundle` can parse (for the main script's module) … -/
def mainVariants : List Nat := [0, 0, 1, 5, 6, 7, 8]
/-- … and for nested modules, whose go.mod is copied verbatim and never parsed: also empty and odd ones -/
def nestedVariants : List Nat := [0, 1, 4, 4, 4, 5, 6, 2, 3]

/-- the known finding: the sentinel of the MAIN script's module does not start with `module <path>\n` -/
def clsOf (fs : Fs) (main : Path) : String :=
  let bad := match findRootC fs (dirOf main) with
    | some r => (match fs.lookup (r ++ [sentinel]) with
        | some sc => (parseModule sc.bytes).isNone
        | none => false)
    | none => false
  if bad then "KF-bundle-sentinel-syntax" else "good"

def natStr (n : Nat) : String := toString n

/-- spell an import of `target` for a script in `fromDir`, whose module root is `root?` -/
def genSpelling (fromDir : Path) (root? : Option Path) (target : Path) (dec : Dec) : Gen (Option Imp) := do
  let canDot := fromDir <+: target
  let canRoot := match root? with | some r => r <+: target | none => false
  if !canDot && !canRoot then return none
  let useDot ← if canDot && canRoot then chance 1 2 else pure canDot
  let rel := if useDot then target.drop fromDir.length else target.drop ((root?.getD []).length)
  let dropExt ← chance 1 2
  let rel := match rel.reverse with
    | last :: up =>
      if dropExt && dec = .none && (ext last = arraiExt) then (last.take (last.length - 6) :: up).reverse else rel
    | [] => rel
  -- a name such as "f 1" keeps its meaning only if what is left has no dot-less… (any name is fine)
  let noise ← rand 7
  let body : Str :=
    match noise with
    | 0 => joinSlash (comp "zz" :: dd :: rel)
    | 1 => joinSlash (dot1 :: rel)
    | 2 => '/' :: joinSlash rel
    | _ => joinSlash rel
  let trail ← rand 10
  let body := if trail == 0 then body ++ [' '] else body
  pure (some { dot := useDot, raw := '/' :: body, dec })

structure Plan where
  base : Path
  sentinels : List (Path × String)     -- directory, text
  scriptPaths : List Path
  dataFiles : List (Path × String × Nat)

def genLayout (idx : Nat) : Gen (Fs × Path × String × String) := do
  let place ← rand 6
  let base : Path := match place with
    | 0 => w1 | 1 => w1 ++ [comp "proj"] | 2 => pathOf "/srv/m" | 3 => w2 | 4 => pathOf "/opt/x y/src" | _ => w1 ++ [comp "p", comp "q"]
  -- module shape: 0 at base, 1 none, 2 nested only, 3 base + nested, 4 above base
  let shape ← pick [0, 0, 0, 1, 1, 2, 2, 3, 3, 4]
  let name ← pick modNames
  let variant ← pick mainVariants
  let nv ← pick nestedVariants
  let nname ← pick (nestedNames name)
  let bad ← chance 1 20
  let badVariant ← pick [2, 3, 4]
  let mainVariant := if bad then badVariant else variant
  let nestedDir ← pick [[comp "d"], [comp "lib"], [comp "d", comp "e"]]
  let sentinels : List (Path × String) :=
    match shape with
    | 0 => [(base, sentinelText name mainVariant)]
    | 1 => []
    | 2 => [(base ++ nestedDir, sentinelText nname nv)]
    | 3 => [(base, sentinelText name mainVariant), (base ++ nestedDir, sentinelText nname nv)]
    | _ => [(base.dropLast, sentinelText name mainVariant)]
  let n ← (do let k ← rand 5; pure (k + 2))
  let spaceNames ← chance 1 4
  let dirs0 ← genList n (pick relDirs)
  -- with a nested module, put about half of the scripts (not the main one) into it
  let coins ← genList n (rand 4)
  let dirs := (List.range n).map (fun i =>
    let d := dirs0.getD i []
    if (shape == 2 || shape == 3) && i > 0 then
      (match coins.getD i 0 with | 0 => nestedDir | 1 => nestedDir ++ [comp "u"] | _ => d)
    else d)
  let scriptPaths := (List.range n).map (fun i =>
    base ++ dirs.getD i [] ++ [comp ((if spaceNames && i % 2 == 1 then "f " else "f") ++ natStr i ++ ".arrai")])
  let nd ← rand 4
  -- kinds ending in 0 are EMPTY files (zero-length archive entries)
  let dataKinds ← genList nd (pick [".json", ".json", ".yaml", ".yml", ".txt", ".b", ".txt0", ".b0", ".arrai0"])
  let dataDirs ← genList nd (pick relDirs)
  let dataFiles : List (Path × String × Nat) := (List.range nd).map (fun i =>
    let k0 := dataKinds.getD i ".txt"
    let empty := k0.endsWith "0"
    let k := if empty then String.ofList (k0.toList.take (k0.length - 1)) else k0
    let v := 100 + i
    let text := if empty then "" else if k == ".json" then natStr v else if k == ".yaml" then natStr v ++ "\n"
      else if k == ".yml" then natStr v else "t " ++ natStr v
    (base ++ dataDirs.getD i [] ++ [comp ("d" ++ natStr i ++ k)], text, v))
  -- the file system without script contents, to find module roots
  let skeleton : Fs := sentinels.map (fun s => (s.1 ++ [sentinel], mkData s.2 0))
  let rootOf (dir : Path) : Option Path := findRootC skeleton dir
  -- imports
  let cyc ← chance 1 40
  let mut scripts : List (Path × Content) := []
  for i in [0:n] do
    let me := scriptPaths.getD i []
    let myDir := dirOf me
    let mut imps : List Imp := []
    for j in [i+1:n] do
      if ← chance 2 5 then
        let dec ← pick [Dec.none, Dec.none, Dec.none, Dec.none, Dec.none, Dec.bytes]
        match ← genSpelling myDir (rootOf myDir) (scriptPaths.getD j []) dec with
        | some imp => imps := imp :: imps
        | none => pure ()
    for d in dataFiles do
      if ← chance 1 3 then
        let isJson := ext (d.1.getLast?.getD []) = ".json".toList
        let isTxt := ext (d.1.getLast?.getD []) = ".txt".toList
        let r ← rand 30
        let isScript := ext (d.1.getLast?.getD []) = arraiExt   -- an empty .arrai file: only as bytes
        let dec : Dec := if isScript then .bytes else if r < 18 then .none else if r < 24 then .bytes else if isJson then .json
          else if isTxt && r == 29 then .json else .none
        match ← genSpelling myDir (rootOf myDir) d.1 dec with
        | some imp => imps := imp :: imps
        | none => pure ()
    if ← chance 1 30 then imps := { dot := true, raw := "/nosuch".toList, dec := .none } :: imps
    if cyc && i + 1 == n then
      match ← genSpelling myDir (rootOf myDir) (scriptPaths.getD 0 []) .none with
      | some imp => imps := imp :: imps
      | none => pure ()
    scripts := (me, mkScript i imps.reverse) :: scripts
  let fs : Fs := scripts.reverse ++ dataFiles.map (fun d => (d.1, mkData d.2.1 d.2.2)) ++ skeleton
  let main := scriptPaths.getD 0 []
  let shapeName := match shape with | 0 => "mod" | 1 => "nomod" | 2 => "nested-nomod" | 3 => "nested-mod" | _ => "mod-above"
  let cls := clsOf fs main
  let _ := idx
  pure (fs, main, shapeName, cls)

def genCase (idx : Nat) : Gen Case := do
  let (fs, main, shapeName, cls) ← genLayout idx
  let cwdFirst ← chance 1 2
  let cwd1 := if cwdFirst then w1 else w2
  let cwd2 := if cwdFirst then w2 else w1
  let relative ← chance 1 2
  let relStr := if relative && mainArgOf cwd1 main true ≠ render true main then "rel" else "abs"
  pure (mkCase s!"C15-{idx}" s!"{shapeName}/{relStr}" cls fs main cwd1 cwd2 relative)

/-! ## nested modules: go.mod at several depths, the same relative names in every directory with different
contents, module-rooted imports at every depth (also directly in a nested root), imports in both orders -/

def treeDirs : List Path := [[], [comp "s"], [comp "s", comp "t"], [comp "u"], [comp "s", comp "v"]]

def nestedChoices : List (List Path) :=
  [ [[comp "s"]], [[comp "s"], [comp "s", comp "t"]], [[comp "u"]], [[comp "s", comp "t"]],
    [[comp "s"], [comp "u"]], [[comp "s"], [comp "s", comp "v"]] ]

def genTwin : Gen (Fs × Path × List Imp) := do
  let place ← rand 4
  let base : Path := match place with
    | 0 => w1 | 1 => w1 ++ [comp "proj"] | 2 => pathOf "/srv/m" | _ => w2
  let outer ← chance 5 6
  let nested ← pick nestedChoices
  let name ← pick modNames
  let mv ← pick mainVariants
  let nv ← pick nestedVariants
  let nname ← pick (nestedNames name)
  let sentinels : List (Path × String) :=
    (if outer then [(base, sentinelText name mv)] else []) ++ nested.map (fun d => (base ++ d, sentinelText nname nv))
  let skeleton : Fs := sentinels.map (fun s => (s.1 ++ [sentinel], mkData s.2 0))
  let mut files : Fs := []
  let mut j := 0
  for d in treeDirs do
    let dir := base ++ d
    let extra ← rand 4
    let libImps : List Imp :=
      [imp false "/data"] ++
      (match extra with
       | 0 => [imp true "/data"]
       | 1 => [imp false "/util"]
       | 2 => [imp false "/data.arrai ", imp true "/util", imp false "/n.json"]
       | _ => [imp true "/z.txt" .bytes, imp false "/z.arrai" .bytes, imp true "/z.txt"])
    files := files ++ [ (dir ++ [comp "lib.arrai"], mkScript (10 + j) libImps),
                        (dir ++ [comp "util.arrai"], mkScript (200 + j) []),
                        (dir ++ [comp "data.arrai"], mkScript (100 + j) []),
                        (dir ++ [comp "n.json"], mkData (natStr (300 + j)) (300 + j)),
                        (dir ++ [comp "z.txt"], mkData "" 0), (dir ++ [comp "z.arrai"], mkData "" 0) ]
    j := j + 1
  let mainDirRel ← pick treeDirs
  let mainDir := base ++ mainDirRel
  let main := mainDir ++ [comp "main.arrai"]
  let mainRoot := findRootC skeleton mainDir
  let k ← (do let x ← rand 3; pure (x + 2))
  let mut imps : List Imp := []
  for _ in [0:k] do
    let d ← pick treeDirs
    let nm ← pick ["lib.arrai", "lib.arrai", "lib.arrai", "data.arrai", "util.arrai", "n.json"]
    match ← genSpelling mainDir mainRoot (base ++ d ++ [comp nm]) .none with
    | some i => imps := i :: imps
    | none => pure ()
  if mainRoot.isSome then
    let nm ← pick ["/util", "/data", "/lib"]
    let front ← chance 1 2
    imps := if front then imps ++ [imp false nm] else imp false nm :: imps
  pure (files ++ skeleton, main, imps)

def genTwinCases (idx : Nat) : Gen (List Case) := do
  let (fs, main, imps) ← genTwin
  let cwdFirst ← chance 1 2
  let cwd1 := if cwdFirst then w1 else w2
  let cwd2 := if cwdFirst then w2 else w1
  let relative ← chance 1 2
  let mk (is : List Imp) : Fs := (main, mkScript 0 is) :: fs
  let cls := clsOf fs main
  pure [ mkCase s!"C15-n{idx}-fwd" "nested-twin/fwd" cls (mk imps) main cwd1 cwd2 relative,
         mkCase s!"C15-n{idx}-rev" "nested-twin/rev" cls (mk imps.reverse) main cwd1 cwd2 relative ]

/-! ## routes: one file of a nested module reached several times in one evaluation, by different
spellings and from different importers (a neighbour inside the nested module, a deeper script of it, a
script outside it), relative first then module-rooted and the reverse, with few module-rooted imports so
that whether the nested sentinel gets bundled hinges on each single one of them -/

/-- one importer script: where it sits and how it spells the target -/
def genImporter (skeleton : Fs) (loc : Path) (name : String) (id : Nat) (targets : List Path) :
    Gen (Option (Path × Content)) := do
  let t ← pick targets
  let wantDot ← chance 1 2
  let canDot := loc <+: t
  let root? := findRootC skeleton loc
  let canRoot := match root? with | some r => r <+: t | none => false
  if !canDot && !canRoot then return none
  -- honour the wish when possible, so that both spellings occur for the same target
  let useDot := if canDot && canRoot then wantDot else canDot
  let rel := if useDot then t.drop loc.length else t.drop ((root?.getD []).length)
  let dropExt ← chance 1 2
  let rel := match rel.reverse with
    | last :: up => if dropExt && ext last = arraiExt then (last.take (last.length - 6) :: up).reverse else rel
    | [] => rel
  let i : Imp := { dot := useDot, raw := '/' :: joinSlash rel, dec := .none }
  pure (some (loc ++ [comp name], mkScript id [i]))

def genRoutes : Gen (Fs × Path × List Imp) := do
  let place ← rand 4
  let base : Path := match place with
    | 0 => w1 | 1 => w1 ++ [comp "proj"] | 2 => pathOf "/srv/m" | _ => w2
  let outer ← chance 5 6
  let nd ← pick [[comp "s"], [comp "u"], [comp "s", comp "t"]]
  let deeper ← chance 1 4     -- a module nested in the nested module
  let name ← pick modNames
  let mv ← pick mainVariants
  let nv ← pick nestedVariants
  let nv2 ← pick nestedVariants
  let nname ← pick (nestedNames name)
  let nname2 ← pick (nestedNames name)
  let n := base ++ nd
  let sentinels : List (Path × String) :=
    (if outer then [(base, sentinelText name mv)] else []) ++ [(n, sentinelText nname nv)] ++
    (if deeper then [(n ++ [comp "v"], sentinelText nname2 nv2)] else [])
  let skeleton : Fs := sentinels.map (fun s => (s.1 ++ [sentinel], mkData s.2 0))
  -- the same names everywhere, different contents
  let leaves : Fs :=
    [ (base ++ [comp "d.arrai"], mkScript 100 []), (base ++ [comp "e.arrai"], mkScript 110 []),
      (n ++ [comp "d.arrai"], mkScript 101 []), (n ++ [comp "e.arrai"], mkScript 111 [imp false "/d"]),
      (n ++ [comp "v", comp "d.arrai"], mkScript 102 []), (n ++ [comp "v", comp "e.arrai"], mkScript 112 []) ]
  let leaves ← (do
    -- e of the nested module imports /d only half of the time (it is itself a module-rooted import)
    if ← chance 1 2 then pure leaves
    else pure (leaves.map (fun f => if f.1 = n ++ [comp "e.arrai"] then (f.1, mkScript 111 []) else f)))
  let targets : List Path := [n ++ [comp "d.arrai"], n ++ [comp "d.arrai"], n ++ [comp "e.arrai"], n ++ [comp "v", comp "d.arrai"]]
  let locs : List Path := [base, n, n, n ++ [comp "v"], n ++ [comp "w"]]
  let k ← (do let x ← rand 3; pure (x + 2))
  let mut importers : Fs := []
  for j in [0:k] do
    let loc ← pick locs
    match ← genImporter skeleton loc s!"r{j}.arrai" (20 + j) targets with
    | some f => importers := importers ++ [f]
    | none => pure ()
  let mainIn ← pick [base, base, base, n, base ++ [comp "cmd"]]
  let main := mainIn ++ [comp "main.arrai"]
  let mainRoot := findRootC skeleton mainIn
  let mut imps : List Imp := []
  for f in importers do
    match ← genSpelling mainIn mainRoot f.1 .none with
    | some i => imps := imps ++ [i]
    | none => pure ()
  -- now and then main reaches a target directly as well
  if ← chance 1 3 then
    match ← genSpelling mainIn mainRoot (n ++ [comp "d.arrai"]) .none with
    | some i => imps := if (← chance 1 2) then i :: imps else imps ++ [i]
    | none => pure ()
  pure (leaves ++ importers ++ skeleton, main, imps)

def genRoutesCases (idx : Nat) : Gen (List Case) := do
  let (fs, main, imps) ← genRoutes
  let cwdFirst ← chance 1 2
  let cwd1 := if cwdFirst then w1 else w2
  let cwd2 := if cwdFirst then w2 else w1
  let mk (is : List Imp) : Fs := (main, mkScript 0 is) :: fs
  -- both orders, each with the main script given absolutely and relatively
  let cls := clsOf fs main
  pure [ mkCase s!"C15-r{idx}-fwd-abs" "routes/fwd/abs" cls (mk imps) main cwd1 cwd2 false,
         mkCase s!"C15-r{idx}-rev-abs" "routes/rev/abs" cls (mk imps.reverse) main cwd1 cwd2 false,
         mkCase s!"C15-r{idx}-fwd-rel" "routes/fwd/rel" cls (mk imps) main cwd1 cwd2 true,
         mkCase s!"C15-r{idx}-rev-rel" "routes/rev/rel" cls (mk imps.reverse) main cwd1 cwd2 true ]

/-! ## corpus -/

def corpus : List Case :=
  [ -- repaired: main script without a module imports a script below a nested go.mod that uses `//{/…}`
    mkCase "C15-corpus-nested-nomod" "corpus" "good"
      (mkFs [("/srv/m/main.arrai", mkScript 0 [imp true "/sub/b"]),
             ("/srv/m/sub/go.mod", mkData "module x\n" 0),
             ("/srv/m/sub/b.arrai", mkScript 1 [imp false "/c"]),
             ("/srv/m/sub/c.arrai", mkScript 2 [])])
      (pathOf "/srv/m/main.arrai") w1 w2 false,
    mkCase "C15-corpus-mod" "corpus" "good"
      (mkFs [("/srv/m/go.mod", mkData "module ex.com/m\n" 0),
             ("/srv/m/main.arrai", mkScript 0 [imp true "/a", imp false "/lib/b", imp true "/d.json", imp true "/t.txt" .bytes]),
             ("/srv/m/a.arrai", mkScript 1 []),
             ("/srv/m/lib/b.arrai", mkScript 2 [imp true "/c", imp false "/a"]),
             ("/srv/m/lib/c.arrai", mkScript 3 []),
             ("/srv/m/d.json", mkData "7" 7), ("/srv/m/t.txt", mkData "t 1" 1)])
      (pathOf "/srv/m/main.arrai") w1 w2 false,
    mkCase "C15-corpus-rel" "corpus" "good"
      (mkFs [("/tmp/vc15/go.mod", mkData "module ex.com/m\n" 0),
             ("/tmp/vc15/w1/cmd/x/main.arrai", mkScript 0 [imp true "/a", imp false "/lib/b"]),
             ("/tmp/vc15/w1/cmd/x/a.arrai", mkScript 1 []),
             ("/tmp/vc15/lib/b.arrai", mkScript 2 [])])
      (pathOf "/tmp/vc15/w1/cmd/x/main.arrai") w1 w2 true,
    -- minimised past failure of C16 (root cache consulted for the parent directory), as a bundle
    mkCase "C15-corpus-nested-root-warm" "corpus" "good"
      (mkFs [("/srv/m/go.mod", mkData "module ex.com/m\n" 0), ("/srv/m/sub/go.mod", mkData "module ex.com/m/sub\n" 0),
             ("/srv/m/main.arrai", mkScript 0 [imp false "/util", imp true "/sub/lib"]),
             ("/srv/m/sub/lib.arrai", mkScript 1 [imp false "/data"]),
             ("/srv/m/data.arrai", mkScript 100 []), ("/srv/m/sub/data.arrai", mkScript 10 []),
             ("/srv/m/util.arrai", mkScript 2 [])])
      (pathOf "/srv/m/main.arrai") w1 w2 false,
    -- minimised past failure: a nested module whose declared path does not mirror its directory
    mkCase "C15-corpus-nested-declared" "corpus" "good"
      (mkFs [("/srv/app/go.mod", mkData "module github.com/acme/app\n" 0),
             ("/srv/app/tools/gen/go.mod", mkData "module github.com/acme/app/gen\n" 0),
             ("/srv/app/main.arrai", mkScript 0 [imp false "/val", imp true "/tools/gen/x"]),
             ("/srv/app/val.arrai", mkScript 7 []), ("/srv/app/tools/gen/val.arrai", mkScript 42 []),
             ("/srv/app/tools/gen/x.arrai", mkScript 1 [imp false "/val"])])
      (pathOf "/srv/app/main.arrai") w1 w2 false,
    mkCase "C15-corpus-sentinel-nonl" "corpus" "KF-bundle-sentinel-syntax"
      (mkFs [("/srv/m/go.mod", mkData "module ex.com/m" 0), ("/srv/m/main.arrai", mkScript 0 [])])
      (pathOf "/srv/m/main.arrai") w1 w2 false ]

def gen (seed n : Nat) (_thorough : Bool) : List Case := Id.run do
  let mut out := corpus.reverse
  for i in [0:n] do
    let (c, _) := (genCase i).run (seedOf seed (1500000 + i))
    out := c :: out
  -- nested-module layouts, each with its imports in both orders
  for i in [0:n / 6] do
    let (cs, _) := (genTwinCases i).run (seedOf seed (1570000 + i))
    for c in cs do
      out := c :: out
  -- one nested file by several routes and spellings; both orders, absolute and relative main
  for i in [0:n / 10] do
    let (cs, _) := (genRoutesCases i).run (seedOf seed (1580000 + i))
    for c in cs do
      out := c :: out
  pure out.reverse

end Arrai.C15
