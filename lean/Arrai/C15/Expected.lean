/-
  C15 — hand-written expectations for the regenerated facts (extract/facts_c15.go).
  The only direct uses of os/ioutil/net/http/os/exec on the import and bundle path are the URL fetch and
  `go mod download`; both sit behind `if isRunningBundle(ctx) { … return … }`.  Everything else reads
  through ctxfs.SourceFsFrom(ctx), which WithBundleRun replaces by the archive.
-/
namespace Arrai.C15.Expected

def direct_io : List (String × String) :=
  [("syntax.importURL", "http.Get"), ("syntax.retrieveModule", "exec.Command")]

def guarded : List (String × Bool) :=
  [("syntax.importModuleFile", true), ("syntax.importURL", true)]

end Arrai.C15.Expected
