/-
  C04 case generator: arr.ai programs `A op B` over every representation of the operands (relation
  literals, sets of tuples, computed relations, join results with permuted columns, arrays, strings,
  byte arrays and dictionaries as binary relations), nest / unnest / rank programs, with the model's
  (Impl) and the specification's expected observable (canon # count).
-/
import Arrai.C04.Model

namespace Arrai.C04
open Impl

/-! ## source text -/

def nameSrc (n : String) : String := n

mutual
def vSrc : V → String
  | .num n => if n < 0 then "(" ++ toString n ++ ")" else toString n
  | .tup as => "(" ++ ", ".intercalate (attrsSrc as) ++ ")"
  | .set xs => "{" ++ ", ".intercalate (listSrc xs) ++ "}"
def attrsSrc : List (String × V) → List String
  | [] => []
  | (n, v) :: r => (n ++ ": " ++ vSrc v) :: attrsSrc r
def listSrc : List V → List String
  | [] => []
  | v :: r => vSrc v :: listSrc r
end

/-- a literal operand: heading in the written column order, rows, and the source form -/
structure Leaf where
  names : Names
  rows : List (List V)
  form : Nat
  deriving Inhabited

def Leaf.tuples (l : Leaf) : List V := l.rows.map fun r => V.mkTup (l.names.zip r)
def Leaf.val (l : Leaf) : V := V.mkSet l.tuples

def relLitSrc (names : Names) (rows : List (List V)) : String :=
  if rows.isEmpty then "{}"
  else if names.isEmpty then "true"
  else "{|" ++ ", ".intercalate names ++ "| " ++
    ", ".intercalate (rows.map fun r => "(" ++ ", ".intercalate (r.map vSrc) ++ ")") ++ "}"

def tupLitSrc (names : Names) (r : List V) : String :=
  "(" ++ ", ".intercalate ((names.zip r).map fun nv => nv.1 ++ ": " ++ vSrc nv.2) ++ ")"

def setLitSrc (names : Names) (rows : List (List V)) : String :=
  "{" ++ ", ".intercalate (rows.map (tupLitSrc names)) ++ "}"

def natOf : V → Option Nat
  | .num n => if n ≥ 0 then some n.toNat else none
  | _ => none

/-- the sugar kind of a heading `{@, @item|@char|@byte|@value}` -/
def sugarKind (names : Names) : Option SeqKind :=
  if names.length == 2 && names.contains "@" then
    if names.contains "@item" then some .item
    else if names.contains "@char" then some .char
    else if names.contains "@byte" then some .byte
    else if names.contains "@value" then some .value
    else none
  else none

def offSrc (off : Nat) (body : String) : String :=
  if off == 0 then body else toString off ++ "\\" ++ body

/-- array / string / bytes / dict literal for a sugar heading, when one exists -/
def sugarSrc (l : Leaf) : Option String :=
  match sugarKind l.names with
  | none => none
  | some k =>
    let pairs : List (V × V) := l.tuples.map (pairOf k)
    if pairs.isEmpty then none
    else match k with
    | .value =>
      let keys := pairs.map (·.1)
      if (dedup keys).length == keys.length then
        some ("{" ++ ", ".intercalate (pairs.map fun kv => vSrc kv.1 ++ ": " ++ vSrc kv.2) ++ "}")
      else none
    | _ =>
      let idx := pairs.filterMap fun kv => natOf kv.1
      if idx.length != pairs.length || (dedup idx).length != idx.length then none
      else
        let lo := idx.foldl min (idx.headD 0)
        let hi := idx.foldl max 0
        let cell (i : Nat) : Option V := (pairs.find? fun kv => natOf kv.1 == some i).map (·.2)
        let cells := (List.range (hi + 1 - lo)).map fun j => cell (lo + j)
        match k with
        | .item =>
          some (offSrc lo ("[" ++ ", ".intercalate (cells.map fun c => match c with
            | some v => vSrc v
            | none => "") ++ "]"))
        | .char =>
          if cells.all Option.isSome then
            let cs := cells.filterMap fun c => c.bind natOf
            if cs.all fun c => 97 ≤ c && c < 123 then
              some (offSrc lo ("'" ++ String.ofList (cs.map Char.ofNat) ++ "'"))
            else none
          else none
        | _ =>
          if cells.all Option.isSome then
            some (offSrc lo ("<<" ++ ", ".intercalate (cells.filterMap fun c => c.map vSrc) ++ ">>"))
          else none

def formName : Nat → String
  | 0 => "lit" | 1 => "tuples" | 2 => "map" | 3 => "where" | 4 => "union" | 5 => "sugar" | _ => "lit"

/-- the form actually used (forms that do not apply fall back to the relation literal) -/
def Leaf.effForm (l : Leaf) : Nat :=
  match l.form with
  | 4 => if l.rows.length ≥ 2 && !l.names.isEmpty && (sugarKind l.names).isNone then 4 else 1
  | 5 => if (sugarSrc l).isSome then 5 else 0
  | f => if f ≤ 3 then f else 0

def Leaf.src (l : Leaf) : String :=
  match l.effForm with
  | 1 => if l.names.isEmpty then (if l.rows.isEmpty then "{}" else "{()}") else setLitSrc l.names l.rows
  | 2 => "(" ++ relLitSrc l.names l.rows ++ " => .)"
  | 3 => "(" ++ relLitSrc l.names l.rows ++ " where true)"
  | 4 => "(" ++ setLitSrc l.names (l.rows.take 1) ++ " | " ++ setLitSrc l.names (l.rows.drop 1) ++ ")"
  | 5 => (sugarSrc l).getD (relLitSrc l.names l.rows)
  | _ => relLitSrc l.names l.rows

/-! ## expressions -/

inductive Ex
  | leaf (l : Leaf)
  | op (o : JoinOp) (a b : Ex)
  | raw (src : String) (v : V)      -- an operand that is not a relation
  | wh (e : Ex)                     -- `(e where true)`: Relation.Where keeps the (permuted) heading
  deriving Inhabited

def Ex.src : Ex → String
  | .leaf l => l.src
  | .op o a b => "(" ++ a.src ++ " " ++ o.sym ++ " " ++ b.src ++ ")"
  | .raw s _ => s
  | .wh e => "(" ++ e.src ++ " where true)"

def Ex.spec : Ex → V
  | .leaf l => l.val
  | .op o a b => Spec.join o a.spec b.spec
  | .raw _ v => v
  | .wh e => e.spec

def Ex.model : Ex → Res
  | .leaf l => .ok (ofV l.val)
  | .raw _ v => .ok (ofV v)
  | .wh e => e.model
  | .op o a b =>
    match a.model with
    | .ok x =>
      (match b.model with
       | .ok y => joiner o x y
       | r => r)
    | r => r

def Ex.illTyped : Ex → Bool
  | .leaf _ => false
  | .raw _ _ => true
  | .wh e => e.illTyped
  | .op _ a b => a.illTyped || b.illTyped

/-! ## known-finding classes (decidable predicates on values) -/

/-- two members `(@: i, @item|@char|@byte: …)` with the same index: arrays, strings and byte arrays cannot hold it -/
def superimposedTop (xs : List V) : Bool :=
  ["@item", "@char", "@byte"].any fun k =>
    let idx := xs.filterMap fun x =>
      if namesOf x = ["@", k] then get "@" (tupOf x) else none
    (dedup idx).length != idx.length

mutual
def superimposed : V → Bool
  | .num _ => false
  | .tup as => superimposedAttrs as
  | .set xs => superimposedTop xs || superimposedList xs
def superimposedAttrs : List (String × V) → Bool
  | [] => false
  | (_, v) :: r => superimposed v || superimposedAttrs r
def superimposedList : List V → Bool
  | [] => false
  | v :: r => superimposed v || superimposedList r
end

/-- byte arrays cannot hold holes: members `(@: i, @byte: …)` whose indices are not contiguous -/
def bytesHolesTop (xs : List V) : Bool :=
  let idx := xs.filterMap fun x =>
    if namesOf x = ["@", "@byte"] then (get "@" (tupOf x)).bind natOf else none
  match idx with
  | [] => false
  | i :: r =>
    let lo := r.foldl min i
    let hi := r.foldl max i
    hi + 1 - lo != (dedup idx).length

mutual
def bytesHoles : V → Bool
  | .num _ => false
  | .tup as => bytesHolesAttrs as
  | .set xs => bytesHolesTop xs || bytesHolesList xs
def bytesHolesAttrs : List (String × V) → Bool
  | [] => false
  | (_, v) :: r => bytesHoles v || bytesHolesAttrs r
def bytesHolesList : List V → Bool
  | [] => false
  | v :: r => bytesHoles v || bytesHolesList r
end

/-- a dictionary with several values under one key (its Count counts keys) -/
def dictMulti : V → Bool
  | .set xs =>
    let keys := xs.filterMap fun x => if namesOf x = ["@", "@value"] then get "@" (tupOf x) else none
    (dedup keys).length != keys.length
  | _ => false

def isNum : V → Bool
  | .num _ => true
  | _ => false

/-- a tuple `(@: i, @char|@byte|@item: x)` whose index (or char/byte) is not a number: `NewTuple` asserts
`Number` there, and the suite pins that panic -/
def nonNumberSugarTuple (as : List (String × V)) : Bool :=
  let ns := as.map (·.1)
  if ns = ["@", "@char"] || ns = ["@", "@byte"] then as.any fun p => !isNum p.2
  else if ns = ["@", "@item"] then !isNum ((get "@" as).getD (V.num 0))
  else false

mutual
def pinned : V → Bool
  | .num _ => false
  | .tup as => nonNumberSugarTuple as || pinnedAttrs as
  | .set xs => pinnedList xs
def pinnedAttrs : List (String × V) → Bool
  | [] => false
  | (_, v) :: r => pinned v || pinnedAttrs r
def pinnedList : List V → Bool
  | [] => false
  | v :: r => pinned v || pinnedList r
end

/-- the known-finding class of a value that has to be held by the implementation ("" = none) -/
def valueClass (v : V) : String :=
  if pinned v then "KF-pinned-panics"
  else if superimposed v then "KF-superimposed"
  else if bytesHoles v then "KF-bytes-holes"
  else ""

def orCls (a b : String) : String := if a != "" then a else b

/-- the number of `(@, @byte)` members of a set -/
def byteMembers : V → Nat
  | .set xs => (xs.filter fun x => namesOf x = ["@", "@byte"]).length
  | _ => 0

def isRelation : Res → Bool
  | .ok (.relation _) => true
  | _ => false

/-- a byte array assembled by the generic path: `GenericJoin` unions the per-key results one member at a
time, and byte arrays cannot pass through a set with a hole (or grow at a distance) -/
def genericBytes (ra rb : Res) (v : V) : Bool :=
  !(isRelation ra && isRelation rb) && byteMembers v ≥ 2

def Ex.cls : Ex → String
  | .leaf l => valueClass l.val
  | .raw _ _ => ""
  | .wh e => e.cls
  | .op o a b =>
    let v := Spec.join o a.spec b.spec
    orCls a.cls (orCls b.cls (orCls (valueClass v)
      (if genericBytes a.model b.model v then "KF-bytes-holes" else "")))

def headingOf (v : V) : Names :=
  match Spec.rowsOf v with
  | [] => []
  | t :: _ => t.map (·.1)

/-! ## random generation -/

def shuffle {α} [Inhabited α] (xs : List α) : Gen (List α) := do
  let mut pool := xs
  let mut out := []
  for _ in [0:xs.length] do
    let i ← rand pool.length
    out := pool.getD i default :: out
    pool := pool.eraseIdx i
  pure out

def plainNames : Names := ["a", "b", "c", "d", "e", "f"]
def sugarNames : Names := ["@item", "@char", "@value", "@byte", "@foo"]

def genVal (name : String) (vmax : Nat) : Gen V := do
  let v ← rand vmax
  pure (.num (Int.ofNat (if name == "@char" then 97 + v else v)))

def genRow (names : Names) (vmax : Nat) : Gen (List V) := do
  let mut out := []
  for n in names do
    out := (← genVal n vmax) :: out
  pure out.reverse

/-- rows of an operand: distinct, and with distinct `@` under an array/string/bytes heading -/
def cleanRows (names : Names) (rows : List (List V)) : List (List V) :=
  let rows := (dedup rows.reverse).reverse
  match sugarKind names with
  | some .value | none => rows
  | some k =>
    let at_ := names.findIdx (· == "@")
    let rows := (rows.foldl (fun acc r =>
      if acc.any (fun r' => r'.getD at_ V.none = r.getD at_ V.none) then acc else r :: acc) []).reverse
    if k == .byte then
      -- byte arrays have no holes: renumber the indices from the first one
      let lo := (rows.head?.bind fun r => natOf (r.getD at_ V.none)).getD 0
      (List.range rows.length).zip rows |>.map fun ir => ir.2.set at_ (V.num (Int.ofNat (lo + ir.1)))
    else rows

def genRows (names : Names) (vmax : Nat) (maxRows : Nat) : Gen (List (List V)) := do
  let k ← pick [0, 1, 1, 2, 2, 2, 3, 3, 3, 4]
  let n := min k maxRows
  let rows ← genList n (genRow names vmax)
  pure (cleanRows names rows)

def genForm : Gen Nat := pick [0, 0, 1, 2, 3, 4, 5, 5, 5]

def genLeaf (names : Names) (vmax maxRows : Nat) : Gen Leaf := do
  let cols ← shuffle names
  let rows ← genRows cols vmax maxRows
  pure ⟨cols, rows, ← genForm⟩

/-- rows for `names` that tend to match `other`'s rows on the common columns -/
def genRowsLike (names : Names) (other : V) (vmax maxRows : Nat) : Gen (List (List V)) := do
  let base ← genRows names vmax maxRows
  let orows := Spec.rowsOf other
  let mut out := []
  for r in base do
    let copy ← chance 1 2
    if copy && !orows.isEmpty then
      let o ← pick orows
      out := ((names.zip r).map fun nv => (get nv.1 o).getD nv.2) :: out
    else
      out := r :: out
  pure (cleanRows names out.reverse)

def genPool : Gen Names := do
  let theme ← rand 10
  let k ← pick sugarNames
  if theme < 4 then shuffle plainNames
  else if theme < 7 then shuffle ["@", k, "a", "b", "c", "d"]
  else do
    -- `@` and a sugar name in front: a two-column operand gets a sugar heading
    let front ← shuffle ["@", k]
    pure (front ++ (← shuffle ["a", "b", "c", "d"]))

def genOp : Gen JoinOp := pick JoinOp.all

/-- an operand expression over (a prefix of) the pool: a leaf, or a join of two leaves (permuted columns) -/
def genOperand (pool : Names) (vmax maxRows : Nat) (nested : Bool) : Gen Ex := do
  if nested then
    let n1 ← rand 3
    let l1 ← genLeaf (pool.take (n1 + 1)) vmax maxRows
    let ny ← rand (n1 + 2)
    let common ← do pure ((← shuffle (pool.take (n1 + 1))).take ny)
    let nz ← rand 3
    let fresh := (pool.drop (n1 + 1)).take nz
    let cols ← shuffle (common ++ fresh)
    let rows ← genRowsLike cols l1.val vmax maxRows
    let l2 : Leaf := ⟨cols, rows, ← genForm⟩
    let o ← pick [JoinOp.join, .join, .join, .compose, .lmatch, .rmatch, .common, .rres, .lres]
    let sw ← chance 1 2
    let e : Ex := if sw then .op o (.leaf l2) (.leaf l1) else .op o (.leaf l1) (.leaf l2)
    pure (if ← chance 1 4 then .wh e else e)
  else
    let n ← pick [0, 1, 1, 2, 2, 2, 3, 3, 4]
    pure (.leaf (← genLeaf (pool.take n) vmax maxRows))

structure Out where
  src : String
  model : Res
  spec : Option V      -- none: ill-typed input, any outcome but a panic
  cls : String         -- "" or a known-finding id
  stratum : String

def repName : Ex → String
  | .leaf l => formName l.effForm ++ (match sugarKind l.names with
    | some k => ":" ++ k.attr
    | none => "")
  | .op _ _ _ => "join"
  | .raw _ _ => "raw"
  | .wh _ => "join-where"

def partitionOf (a b : V) : String :=
  let ha := headingOf a
  let hb := headingOf b
  let c := (ha.filter hb.contains).length
  s!"x{ha.length - c}y{c}z{hb.length - c}"

def resultShape (v : V) : String :=
  match v with
  | .set [] => "empty"
  | .set [.tup []] => "true"
  | _ => match sugarKind (headingOf v) with
    | some k => k.attr
    | none => "rel"

def mkJoinOut (o : JoinOp) (a b : Ex) : Out :=
  let e := Ex.op o a b
  let sv := e.spec
  { src := a.src ++ " " ++ o.sym ++ " " ++ b.src
    model := e.model
    spec := if e.illTyped then none else some sv
    cls := e.cls
    stratum := s!"{o.sym}/{partitionOf a.spec b.spec}/{repName a}~{repName b}/{resultShape sv}" }

/-- `A op B` with the right operand generated relative to the left one's heading -/
def genJoinProgram (big : Bool) : Gen Out := do
  let pool ← genPool
  let vmax ← pick [2, 3, 3]
  let maxRows := if big then 4 else 3
  let o ← genOp
  let nestedL ← chance 1 5
  let a ← genOperand pool vmax maxRows nestedL
  let ha := headingOf a.spec
  let ny ← pick [0, 1, 1, 2, 2]
  let common := (← shuffle ha).take ny
  let nz ← pick [0, 1, 1, 2, 2]
  let fresh := (pool.filter fun n => !ha.contains n).take nz
  let cols ← shuffle (common ++ fresh)
  let nestedR ← chance 1 8
  let b ← if nestedR then genOperand pool vmax maxRows true
    else do
      let rows ← genRowsLike cols a.spec vmax maxRows
      pure (Ex.leaf ⟨cols, rows, ← genForm⟩)
  let sw ← chance 1 2
  pure (if sw then mkJoinOut o b a else mkJoinOut o a b)

/-- the result heading is a sugar heading: `@` and `@item|@char|@byte|@value` sit in the kept classes -/
def genResultSugar (big : Bool) : Gen Out := do
  let vmax ← pick [2, 3]
  let maxRows := if big then 4 else 3
  let o ← pick [JoinOp.join, .compose, .compose, .common, .rmatch, .lmatch, .rres, .lres]
  let k ← pick ["@item", "@char", "@value", "@byte"]
  let two ← shuffle ["@", k]
  -- sizes of the three classes: the kept ones hold exactly the two sugar names
  let kept := [o.keepL, o.keepC, o.keepR]
  let nKept := (kept.filter id).length
  let first ← rand 3          -- how many of the two names go to the first kept class
  let sizes : List Nat :=
    match nKept with
    | 1 => [2]
    | 2 => [min first 2, 2 - min first 2]
    | _ => (match first with
      | 0 => [1, 1, 0]
      | 1 => [1, 0, 1]
      | _ => [0, 1, 1])
  let plain ← shuffle ["a", "b", "c", "d"]
  let extra ← rand 3
  -- walk the classes: kept classes take sugar names, dropped classes take plain names
  let mut sugarLeft := two
  let mut plainLeft := plain
  let mut ks := sizes
  let mut classes : List Names := []
  for isKept in kept do
    if isKept then
      let sz := ks.headD 0
      ks := ks.drop 1
      classes := classes ++ [sugarLeft.take sz]
      sugarLeft := sugarLeft.drop sz
    else
      let sz := if extra == 0 then 0 else 1
      classes := classes ++ [plainLeft.take sz]
      plainLeft := plainLeft.drop sz
  let x := classes.getD 0 []
  let y := classes.getD 1 []
  let z := classes.getD 2 []
  -- without a common attribute and a dropped class the operator degenerates; add a common plain name sometimes
  let y ← if !o.keepC && y.isEmpty then pure (plainLeft.take 1) else pure y
  let l1 ← genLeaf (x ++ y) vmax maxRows
  let cols ← shuffle (y ++ z)
  let rows ← genRowsLike cols l1.val vmax maxRows
  let l2 : Leaf := ⟨cols, rows, ← genForm⟩
  pure (mkJoinOut o (.leaf l1) (.leaf l2))

def genIllTyped : Gen Out := do
  let pool ← genPool
  let o ← genOp
  let a ← genOperand pool 3 3 false
  let r ← pick [
    Ex.raw "{1, 2}" (V.mkSet [.num 1, .num 2]),
    Ex.raw "{(a: 1), (b: 2)}" (V.mkSet [V.mkTup [("a", .num 1)], V.mkTup [("b", .num 2)]]),
    Ex.raw "{(a: 1), 2}" (V.mkSet [V.mkTup [("a", .num 1)], .num 2]),
    Ex.raw "{(), (a: 1)}" (V.mkSet [.tup [], V.mkTup [("a", .num 1)]])]
  let sw ← chance 1 2
  pure (if sw then mkJoinOut o r a else mkJoinOut o a r)

/-- two joins share their left operand, then meet again (`append` aliasing of the heading slice) -/
def genShared (big : Bool) : Gen Out := do
  let vmax ← pick [2, 3]
  let maxRows := if big then 4 else 3
  let names ← shuffle ["a", "b", "c", "d", "e", "f", "g"]
  let n ← pick [1, 2, 3, 3, 3]
  let la ← genLeaf (names.take n) vmax maxRows
  let fresh := names.drop n
  let mk (extra : Names) : Gen Leaf := do
    let ny ← rand (n + 1)
    let cols ← shuffle (((← shuffle (names.take n)).take ny) ++ extra)
    let rows ← genRowsLike cols la.val vmax maxRows
    pure ⟨cols, rows, ← genForm⟩
  let lb ← mk (fresh.take 1)
  let lc ← mk ((fresh.drop 1).take 1)
  let o1 ← pick [JoinOp.join, .join, .compose]
  let o2 ← pick [JoinOp.join, .join, .compose]
  let o3 ← genOp
  let x := Ex.op o1 (.leaf la) (.leaf lb)
  let y := Ex.op o2 (.leaf la) (.leaf lc)
  let e := Ex.op o3 x y
  pure { src := s!"let A = {la.src}; let x = A {o1.sym} {lb.src}; let y = A {o2.sym} {lc.src}; x {o3.sym} y"
         model := e.model, spec := some e.spec
         cls := e.cls
         stratum := s!"shared/{o1.sym}{o2.sym}{o3.sym}/{resultShape e.spec}" }

/-! ### computed operands whose physical column order is a non-involutive permutation

`Relation.Join` returns the heading `leftOut ++ rightOut` in that physical order, so chains of joins,
compositions and residues over projections of one small universe produce relations whose column order
is any permutation of the sorted one (literals always get sorted headings).  Every column has its own
value range, so a row written through a wrong permutation is a different row. -/

def permPool : Names := ["a", "b", "c", "d", "e", "@"]

def someOf (ns : Names) : Gen Names := do
  let mut out := []
  for n in ns do
    if ← chance 1 2 then out := n :: out
  pure out.reverse

def colCode (n : String) : Nat := 10 * (permPool.findIdx (· == n) + 1)

def colVal (n : String) (v : Nat) : V := .num (Int.ofNat (colCode n + v))

/-- a small universe: rows over `names`; operands are projections of it, so joins find matches -/
structure Univ where
  names : Names
  rows : List (List V)

def Univ.proj (u : Univ) (H : Names) : List (List V) :=
  (dedup (u.rows.map fun r => H.map fun n => (get n (u.names.zip r)).getD (.num 0))).reverse

def genUniv : Gen Univ := do
  let names ← shuffle permPool
  let names := names.take 5
  let m ← pick [1, 2, 2, 3]
  let rows ← genList m (do
    let mut out := []
    for n in names do
      out := colVal n (← rand 3) :: out
    pure out.reverse)
  pure ⟨names, rows⟩

def genPermLeaf (u : Univ) (H : Names) : Gen Ex := do
  let cols ← shuffle H
  let extra ← chance 1 4
  let base := u.proj cols
  let rows ← if extra then do
      let mut r := []
      for n in cols do
        r := colVal n (← rand 3) :: r
      pure (cleanRows cols (base ++ [r.reverse]))
    else pure base
  pure (.leaf ⟨cols, rows, ← pick [0, 0, 1, 2, 3, 4]⟩)

/-- a computed relation over the names `T` (a superset of the universe's projection onto `T`) -/
def genTree (u : Univ) : Nat → Names → Gen Ex
  | 0, T => genPermLeaf u T
  | d + 1, T => do
    if T.length ≤ 1 then genPermLeaf u T
    else
      let r ← rand 10
      let others := u.names.filter fun n => !T.contains n
      let sh ← shuffle T
      let k ← rand (T.length - 1)
      let T1 := sh.take (k + 1)
      let rest := sh.drop (k + 1)
      let wrap (e : Ex) : Gen Ex := do pure (if ← chance 1 5 then .wh e else e)
      if r < 1 then genPermLeaf u T
      else if r < 7 || others.isEmpty then
        -- join of two (possibly overlapping) parts: heading `left ++ (right ∖ left)`
        let ov ← someOf T1
        let a ← genTree u d T1
        let b ← genTree u d (rest ++ ov)
        wrap (.op .join a b)
      else if r < 9 then
        -- composition through a link column that is dropped: heading `left∖x ++ right∖x`
        let x := others.headD "a"
        let a ← genTree u d (T1 ++ [x])
        let b ← genTree u d (rest ++ [x])
        wrap (.op .compose a b)
      else
        -- projection: the left residue drops a column and keeps the physical order of the rest
        let x := others.headD "a"
        let a ← genTree u d (T ++ [x])
        let b ← genPermLeaf u [x]
        wrap (.op .lres a b)

def physAttrs (e : Ex) : Names :=
  match e.model with
  | .ok (.relation r) => r.attrs
  | _ => []

/-- the physical order is a permutation `σ` of the sorted order with `σ ∘ σ ≠ id` -/
def nonInvolutive (attrs : Names) : Bool :=
  let sorted := sortStrs attrs
  let σ (i : Nat) : Nat := attrs.findIdx (· == sorted.getD i "")
  (List.range attrs.length).any fun i => σ (σ i) != i

def genCyclicTree (u : Univ) (T : Names) : Gen Ex := do
  let mut best ← genTree u 3 T
  for _ in [0:8] do
    if nonInvolutive (physAttrs best) then break
    best ← genTree u 3 T
  pure best

/-- `C op D` with three or four common attributes, `C` computed with a permuted physical column order -/
def genPermProgram : Gen Out := do
  let u ← genUniv
  let k ← pick [3, 3, 4]
  let T := (← shuffle u.names).take k
  let c ← genCyclicTree u T
  let others := u.names.filter fun n => !T.contains n
  let kind ← rand 5
  let H : Names :=
    match kind with
    | 0 => T                                  -- the same heading
    | 1 => T ++ others.take 1                 -- a superset
    | 2 => T ++ others                        -- a larger superset
    | 3 => if k == 4 then T.take 3 else T     -- a subset with three names
    | _ => T.take 3 ++ others.take 1          -- three common names and one of its own
  let computed ← chance 1 2
  let d ← if computed then genCyclicTree u H else genPermLeaf u H
  let o ← genOp
  let sw ← chance 1 2
  let out := if sw then mkJoinOut o d c else mkJoinOut o c d
  let tag := (if nonInvolutive (physAttrs c) then "cyc" else "inv") ++
    (if computed then (if nonInvolutive (physAttrs d) then "~cyc" else "~inv") else "~lit")
  pure { out with stratum := s!"perm/{o.sym}/{partitionOf c.spec d.spec}/{tag}" }

/-! ### nest / unnest / rank programs -/

def resBind (r : Res) (f : Rep → Res) : Res :=
  match r with
  | .ok x => f x
  | r => r

def subsetOf (ns : Names) : Gen Names := do
  let mut out := []
  for n in ns do
    if ← chance 1 2 then out := n :: out
  pure out.reverse

def namesSrc (ns : Names) : String := "|" ++ ", ".intercalate ns ++ "|"

def genNestProgram (big : Bool) : Gen Out := do
  let pool ← genPool
  let vmax ← pick [2, 3]
  let maxRows := if big then 5 else 4
  let nested ← chance 1 6
  let e ← do
    if nested then genOperand pool vmax maxRows true
    else do
      let n ← pick [1, 2, 2, 3, 3]
      pure (Ex.leaf (← genLeaf (pool.take n) vmax maxRows))
  let v := e.spec
  let h0 := headingOf v
  let isRel := !h0.isEmpty
  let h := if isRel then h0 else ["a"]      -- programs over `{}` / `true` still need names to write
  let kind ← rand 12
  let fresh ← pick ["n", "n", "n", "@item", "@value"]
  let cls0 := e.cls
  let mk (src : String) (m : Res) (s : Option V) (what : String) : Out :=
    { src := src, model := m, spec := s
      cls := orCls cls0 (match s with
        | some sv => valueClass sv
        | none => "")
      stratum := s!"{what}/{repName e}/w{h.length}" }
  match kind with
  | 0 | 1 | 2 =>
    -- R nest |attrs| n
    let attrs0 ← subsetOf h
    let attrs := if attrs0.isEmpty then h.take 1 else attrs0
    let n ← if (← chance 1 8) && !attrs.isEmpty then pick attrs else pure fresh
    let ok := isRel && !((h.filter fun m => !attrs.contains m).contains n)
    pure (mk s!"{e.src} nest {namesSrc attrs}{n}" (resBind e.model fun r => nestExpr false r attrs n)
      (if ok || Spec.rowsOf v = [] then some (Spec.nest v attrs n) else none) "nest")
  | 3 | 4 =>
    -- R nest ~|attrs| n
    let attrs0 ← subsetOf h
    let attrs := if attrs0.isEmpty then h.take 1 else attrs0
    let rest := h.filter fun m => !attrs.contains m
    let ok := isRel && !rest.isEmpty && !(attrs.contains fresh)
    pure (mk s!"{e.src} nest ~{namesSrc attrs}{fresh}" (resBind e.model fun r => nestExpr true r attrs fresh)
      (if ok || Spec.rowsOf v = [] then some (Spec.nest v rest fresh) else none) "nestinv")
  | 5 =>
    let a ← if isRel then pick h else pure "a"
    pure (mk s!"{e.src} nest {a}" (resBind e.model fun r => singleNestExpr r a)
      (if isRel || Spec.rowsOf v = [] then some (Spec.singleNest v a) else none) "nest1")
  | 6 | 7 =>
    -- unnest inverts nest
    let attrs0 ← subsetOf h
    let attrs := if attrs0.isEmpty then h.take 1 else attrs0
    -- the nest attribute may reuse the name of an attribute that is nested away (`R nest |n| n`)
    let n ← if (← chance 1 2) && isRel then pick attrs else pure "n"
    let ok := isRel || Spec.rowsOf v = []
    let o := mk s!"({e.src} nest {namesSrc attrs}{n}) unnest {n}"
      (resBind e.model fun r => resBind (nestExpr false r attrs n) fun r' => unnestExpr r' n)
      (if ok then some (Spec.unnest (Spec.nest v attrs n) n) else none) "nest-unnest"
    -- the intermediate nested relation has to be held too
    pure { o with cls := orCls o.cls (valueClass (Spec.nest v attrs n)) }
  | 8 =>
    -- unnest of a literal with nested relations (one of them possibly empty)
    let attrs0 ← subsetOf h
    let attrs := if attrs0.isEmpty then h.take 1 else attrs0
    let nm ← if (← chance 1 2) && isRel then pick attrs else pure "n"
    let nv := Spec.nest v attrs nm
    let extra ← chance 1 3
    let keyNames := h.filter fun m => !attrs.contains m
    let extraRow : List V := if extra && isRel then
        [V.mkTup ((nm, V.mkSet []) :: keyNames.map fun k => (k, V.num 7))] else []
    let lit := match nv with
      | .set xs => V.mkSet (xs ++ extraRow)
      | x => x
    let ok := isRel || Spec.rowsOf v = []
    let o := mk s!"{vSrc lit} unnest {nm}" (unnestExpr (ofV lit) nm)
      (if ok then some (Spec.unnest lit nm) else none) "unnest-lit"
    pure { o with cls := orCls o.cls (valueClass lit) }
  | 9 | 10 =>
    -- rank
    let k ← if isRel then pick h else pure "a"
    let r ← pick ["r", "r", "r", "@item", k]
    let two ← chance 1 3
    let k2 ← if isRel then pick h else pure "a"
    let keys := if two && r != "s" then [(r, k), ("s", k2)] else [(r, k)]
    let src := s!"{e.src} rank (" ++ ", ".intercalate (keys.map fun rk => s!"{rk.1}: .{rk.2}") ++ ")"
    pure (mk src (resBind e.model fun x => Impl.rank x keys)
      (if isRel || Spec.rowsOf v = [] then some (Spec.rank v keys) else none) "rank")
  | _ =>
    -- ill-typed nest / unnest: a value or an error, never a panic
    let which ← rand 4
    match which with
    | 0 => pure (mk s!"{e.src} nest |zz|n" (resBind e.model fun r => nestExpr false r ["zz"] "n") none "nest-bad")
    | 1 =>
      let a ← if isRel then pick h else pure "a"
      let b ← if isRel then pick h else pure "b"
      pure (mk s!"{e.src} nest {namesSrc [a]}{b}" (resBind e.model fun r => nestExpr false r [a] b)
        (if a == b && isRel then some (Spec.nest v [a] b) else none) "nest-clash")
    | 2 => pure (mk s!"{e.src} nest zz" (resBind e.model fun r => singleNestExpr r "zz") none "nest1-bad")
    | _ =>
      let a ← if isRel then pick h else pure "a"
      pure (mk s!"{e.src} unnest {a}" (resBind e.model fun r => unnestExpr r a)
        (if Spec.rowsOf v = [] then some v else none) "unnest-bad")

/-! ## cases -/

def specObs (s : Option V) : String :=
  match s with
  | some v => obsCount v
  | none => "!panic"

def mkCase (id : String) (o : Out) : Case :=
  { id := id, cls := if o.cls == "" then "good" else o.cls, kind := "evalc", stratum := o.stratum
    model := o.model.obsCount, spec := specObs o.spec, payload := [o.src] }

def genCase (idx : Nat) (big : Bool) : Gen Case := do
  let r ← rand 23
  let o ← if r < 9 then genJoinProgram big
    else if r < 12 then genResultSugar big
    else if r < 13 then genIllTyped
    else if r < 14 then genShared big
    else if r < 17 then genPermProgram
    else genNestProgram big
  pure (mkCase s!"C04-{idx}" o)

def num (n : Int) : V := .num n

/-- witnesses of the repaired defects and minimised past failures; always run first -/
def corpus : List Case :=
  let lf (names : Names) (rows : List (List Int)) : Ex := .leaf ⟨names, rows.map (·.map num), 0⟩
  let shared :=
    let a := lf ["a", "b", "c"] [[1, 2, 3]]
    let x := Ex.op .join a (lf ["a", "d"] [[1, 4]])
    let y := Ex.op .join a (lf ["a", "e"] [[1, 5]])
    let e := Ex.op .join x y
    ({ src := "let A = {|a, b, c| (1, 2, 3)}; let x = A <&> {|a, d| (1, 4)}; let y = A <&> {|a, e| (1, 5)}; x <&> y"
       model := e.model, spec := some e.spec, cls := "", stratum := "corpus" } : Out)
  let r1 := lf ["a", "b"] [[1, 2], [1, 3]]
  let nestUnnest : Out :=
    { src := "({|a, b| (1, 2), (1, 3)} nest |b|n) unnest n"
      model := resBind r1.model fun r => resBind (nestExpr false r ["b"] "n") fun r' => unnestExpr r' "n"
      spec := some (Spec.unnest (Spec.nest r1.spec ["b"] "n") "n"), cls := "", stratum := "corpus" }
  let emptyUnnest : Out :=
    { src := "({} nest |a|n) unnest n"
      model := resBind (Res.ok .empty) fun r => resBind (nestExpr false r ["a"] "n") fun r' => unnestExpr r' "n"
      spec := some (V.mkSet []), cls := "", stratum := "corpus" }
  let nestBad : Out :=
    { src := "{|a, b| (1, 2)} nest |c|n", model := nestExpr false (ofV (lf ["a", "b"] [[1, 2]]).spec) ["c"] "n"
      spec := none, cls := "", stratum := "corpus" }
  let nestClash : Out :=
    { src := "{|a, b| (1, 2)} nest |a|b", model := nestExpr false (ofV (lf ["a", "b"] [[1, 2]]).spec) ["a"] "b"
      spec := none, cls := "", stratum := "corpus" }
  let unnestBad : Out :=
    { src := "{|a, n| (1, 2)} unnest n", model := unnestExpr (ofV (lf ["a", "n"] [[1, 2]]).spec) "n"
      spec := none, cls := "", stratum := "corpus" }
  [ mkCase "C04-corpus-0" { mkJoinOut .join (lf ["@"] [[0]]) (lf ["@item"] [[5]]) with stratum := "corpus" },
    mkCase "C04-corpus-1" shared,
    mkCase "C04-corpus-2" nestUnnest,
    mkCase "C04-corpus-3" emptyUnnest,
    mkCase "C04-corpus-4" nestBad,
    mkCase "C04-corpus-5" nestClash,
    mkCase "C04-corpus-6" unnestBad,
    mkCase "C04-corpus-7" { mkJoinOut .compose (lf ["@", "x"] [[0, 1]]) (lf ["x", "@item"] [[1, 5], [1, 6]])
      with stratum := "corpus" } ]

/-! ## exhaustive tier: every heading partition with ≤ 3 names per side, every operator, every pair of
row sets with ≤ `maxRows` rows over {0,1} -/

def allRows : Nat → List (List V)
  | 0 => [[]]
  | w + 1 => (allRows w).flatMap fun r => [num 0 :: r, num 1 :: r]

/-- sublists of length ≤ k -/
def sublistsUpTo {α} : List α → Nat → List (List α)
  | [], _ => [[]]
  | _ :: _, 0 => [[]]
  | x :: xs, k + 1 => (sublistsUpTo xs k).map (x :: ·) ++ sublistsUpTo xs (k + 1)

def exhaustive (maxNames maxRows : Nat) : List Case := Id.run do
  let xn := ["a", "d", "g"]
  let yn := ["b", "e", "h"]
  let zn := ["c", "f", "i"]
  let mut out : List Case := []
  let mut i := 0
  for ny in [0:maxNames + 1] do
    for nx in [0:maxNames + 1 - ny] do
      for nz in [0:maxNames + 1 - ny] do
        let left := xn.take nx ++ yn.take ny
        let right := (yn.take ny).reverse ++ zn.take nz
        -- three-column operands: one row fewer (8 possible rows)
        let lsets := sublistsUpTo (allRows left.length) (if left.length ≥ 3 then maxRows - 1 else maxRows)
        let rsets := sublistsUpTo (allRows right.length) (if right.length ≥ 3 then maxRows - 1 else maxRows)
        for o in JoinOp.all do
          for lr in lsets do
            for rr in rsets do
              let oc := mkJoinOut o (.leaf ⟨left, lr, 0⟩) (.leaf ⟨right, rr, 0⟩)
              out := mkCase s!"C04-x-{i}" { oc with stratum := s!"exh/{o.sym}/x{nx}y{ny}z{nz}" } :: out
              i := i + 1
  pure out.reverse

/-! ## exhaustive family with permuted physical orders: for every permutation of three (and four) names a
chain `{|n₁| …} <&> {|n₂| …} <&> …` has exactly that physical column order; it meets a literal with the same
heading, a superset, a three-name subset, and a chain in another order, under every operator, on both sides -/

def perms {α} : List α → List (List α)
  | [] => [[]]
  | x :: xs => (perms xs).flatMap fun p => (List.range (p.length + 1)).map fun i => p.take i ++ x :: p.drop i

def chainOf (order : Names) (vals : String → List V) (rightAssoc : Bool) : Ex :=
  let leaves : List Ex := order.map fun n => .leaf ⟨[n], (vals n).map fun v => [v], 0⟩
  if rightAssoc then
    match leaves.reverse with
    | [] => .leaf ⟨[], [[]], 0⟩
    | l :: r => r.foldl (fun acc x => .op .join x acc) l
  else
    match leaves with
    | [] => .leaf ⟨[], [[]], 0⟩
    | l :: r => r.foldl (fun acc x => .op .join acc x) l

def permExhaustive (full : Bool) : List Case := Id.run do
  let mut out : List Case := []
  let mut i := 0
  let ks := if full then [3, 4] else [3, 4]
  for k in ks do
    let names := ["a", "b", "c", "d"].take k
    let allPerms := perms names
    -- quick: every order of three names, the rotations of four
    let orders := if full || k == 3 then allPerms
      else [[ "b", "c", "d", "a"], ["c", "d", "a", "b"], ["d", "a", "b", "c"]]
    for order in orders do
      for variant in (if full then [0, 1] else [0]) do
        for ra in (if full then [false, true] else [false]) do
          let vals (n : String) : List V :=
            if variant == 1 && n == order.headD "" then [colVal n 0, colVal n 1] else [colVal n 0]
          let c := chainOf order vals ra
          let row (ns : Names) (v : Nat) : List V := ns.map fun n => colVal n v
          -- the other operand
          let sameLit : Ex := .leaf ⟨names, [row names 0, row names 2], 0⟩
          let superNs := names ++ ["z"]
          let superLit : Ex := .leaf ⟨superNs, [row names 0 ++ [.num 7], row names 2 ++ [.num 8]], 0⟩
          let subNs := names.take 3
          let subLit : Ex := .leaf ⟨subNs, [row subNs 0, row subNs 2], 0⟩
          let rot := order.drop 1 ++ order.take 1
          let other := chainOf rot (fun n => [colVal n 0]) (!ra)
          let ds : List (String × Ex) :=
            [("same", sameLit), ("super", superLit), ("chain", other)] ++
              (if k == 4 then [("sub", subLit)] else [])
          for (dn, d) in (if full then ds else ds) do
            for o in JoinOp.all do
              for sw in [false, true] do
                let oc := if sw then mkJoinOut o d c else mkJoinOut o c d
                let tag := if nonInvolutive order then "cyc" else "inv"
                out := mkCase s!"C04-p-{i}" { oc with stratum := s!"permexh/{o.sym}/k{k}/{tag}/{dn}" } :: out
                i := i + 1
  pure out.reverse

def gen (seed n : Nat) (thorough : Bool) : List Case := Id.run do
  let mut out := corpus.reverse
  for i in [0:n] do
    let (c, _) := (genCase i thorough).run (seedOf seed (400000 + i))
    out := c :: out
  let rnd := out.reverse
  if thorough then rnd ++ exhaustive 3 3 ++ permExhaustive true else rnd ++ exhaustive 2 1 ++ permExhaustive false

end Arrai.C04
