/-
  C04 helper lemmas, part 1: duplicate-free lists, attribute lookup, canonical tuples (`V.mkTup`),
  set extensionality (`V.mkSet`), and the algebra of the specification (`Spec`).
  Core-only.
-/
import Arrai.C04.Model

namespace Arrai.C04
open Arrai

/-! ### dedup -/

theorem mem_dedup {α : Type} [DecidableEq α] (a : α) (l : List α) : a ∈ dedup l ↔ a ∈ l := by
  induction l with
  | nil => simp [dedup]
  | cons x xs ih =>
    unfold dedup
    split
    · rename_i h
      rw [ih]
      constructor
      · exact List.mem_cons_of_mem _
      · intro h'
        rcases List.mem_cons.1 h' with e | h'
        · subst e; exact h
        · exact h'
    · simp [ih]

theorem nodup_dedup {α : Type} [DecidableEq α] (l : List α) : (dedup l).Nodup := by
  induction l with
  | nil => simp [dedup]
  | cons x xs ih =>
    unfold dedup
    split
    · exact ih
    · rename_i h
      rw [List.nodup_cons]
      exact ⟨fun h' => h ((mem_dedup x xs).1 h'), ih⟩

theorem dedup_eq_nil {α : Type} [DecidableEq α] (l : List α) : dedup l = [] ↔ l = [] := by
  constructor
  · intro h
    cases l with
    | nil => rfl
    | cons x xs =>
      have : x ∈ dedup (x :: xs) := (mem_dedup x _).2 (by simp)
      rw [h] at this; simp at this
  · intro h; subst h; rfl

/-! ### sets are determined by their members -/

theorem mkSet_congr {l1 l2 : List V} (h : ∀ x, x ∈ l1 ↔ x ∈ l2) : V.mkSet l1 = V.mkSet l2 := by
  unfold V.mkSet
  congr 1
  apply FinSet.sorted_ext _ _ (FinSet.sorted_mk _) (FinSet.sorted_mk _)
  intro x
  rw [FinSet.mem_mk, FinSet.mem_mk]
  exact h x

theorem mkSet_dedup (l : List V) : V.mkSet (dedup l) = V.mkSet l :=
  mkSet_congr (fun x => mem_dedup x l)

theorem mem_mkSet (l : List V) (x : V) : (∃ ys, V.mkSet l = .set ys ∧ (x ∈ ys ↔ x ∈ l)) :=
  ⟨FinSet.mk l, rfl, FinSet.mem_mk l x⟩

/-! ### attribute lookup -/

@[simp] theorem get_nil (n : String) : get n [] = none := rfl
@[simp] theorem get_cons (n m : String) (v : V) (r : Tup) :
    get n ((m, v) :: r) = if m = n then some v else get n r := rfl

theorem get_append (n : String) (t u : Tup) :
    get n (t ++ u) = match get n t with
      | some v => some v
      | none => get n u := by
  induction t with
  | nil => simp
  | cons p r ih =>
    obtain ⟨m, v⟩ := p
    simp only [List.cons_append, get_cons]
    split <;> simp_all

theorem get_filter (S : String → Bool) (n : String) (t : Tup) :
    get n (t.filter fun p => S p.1) = if S n then get n t else none := by
  induction t with
  | nil => simp
  | cons p r ih =>
    obtain ⟨m, v⟩ := p
    by_cases hm : S m = true
    · simp only [List.filter_cons, hm, if_true, get_cons]
      by_cases e : m = n
      · subst e; simp [hm]
      · simp [e, ih]
    · simp only [List.filter_cons, hm, get_cons]
      by_cases e : m = n
      · subst e; simp [hm, ih]
      · simp [e, ih]

theorem get_some_mem {n : String} {v : V} {t : Tup} (h : get n t = some v) : (n, v) ∈ t := by
  induction t with
  | nil => simp at h
  | cons p r ih =>
    obtain ⟨m, w⟩ := p
    rw [get_cons] at h
    by_cases e : m = n
    · subst e; simp at h; subst h; simp
    · simp [e] at h; exact List.mem_cons_of_mem _ (ih h)

theorem mem_get_isSome {p : String × V} {t : Tup} (h : p ∈ t) : ∃ v, get p.1 t = some v := by
  induction t with
  | nil => simp at h
  | cons q r ih =>
    obtain ⟨m, w⟩ := q
    rw [get_cons]
    by_cases e : m = p.1
    · exact ⟨w, by simp [e]⟩
    · rcases List.mem_cons.1 h with h' | h'
      · subst h'; simp at e
      · obtain ⟨v, hv⟩ := ih h'
        exact ⟨v, by simp [e, hv]⟩

theorem has_iff_mem_names (t : Tup) (n : String) : has t n = true ↔ n ∈ t.map (·.1) := by
  unfold has
  constructor
  · intro h
    cases hg : get n t with
    | none => simp [hg] at h
    | some v => exact List.mem_map.2 ⟨(n, v), get_some_mem hg, rfl⟩
  · intro h
    obtain ⟨p, hp, e⟩ := List.mem_map.1 h
    obtain ⟨v, hv⟩ := mem_get_isSome hp
    rw [e] at hv
    simp [hv]

theorem get_none_of_not_mem {t : Tup} {n : String} (h : n ∉ t.map (·.1)) : get n t = none := by
  cases hg : get n t with
  | none => rfl
  | some v =>
    exact absurd ((has_iff_mem_names t n).1 (by simp [has, hg])) h

/-! ### canonical tuples -/

/-- attribute lists strictly sorted by name -/
def SortedNames (l : Tup) : Prop := l.Pairwise fun a b => a.1 < b.1

def canonAttrs (as : Tup) : Tup := as.foldr (fun p acc => V.insAttr p.1 p.2 acc) []

theorem mkTup_eq (as : Tup) : V.mkTup as = .tup (canonAttrs as) := rfl

theorem get_insAttr (n : String) (v : V) (l : Tup) (m : String) :
    get m (V.insAttr n v l) = if n = m then some v else get m l := by
  induction l with
  | nil => simp [V.insAttr]
  | cons p r ih =>
    obtain ⟨k, w⟩ := p
    unfold V.insAttr
    by_cases h1 : n < k
    · simp [h1]
    · by_cases h2 : n = k
      · subst h2
        simp only [h1, if_false, if_true, get_cons]
        by_cases e : n = m <;> simp [e]
      · simp only [h1, h2, if_false, get_cons, ih]
        by_cases e : k = m
        · subst e; simp [h2]
        · simp [e]

theorem get_canonAttrs (as : Tup) (m : String) : get m (canonAttrs as) = get m as := by
  induction as with
  | nil => rfl
  | cons p r ih =>
    obtain ⟨n, v⟩ := p
    show get m (V.insAttr n v (canonAttrs r)) = _
    rw [get_insAttr, ih, get_cons]

theorem mem_insAttr {n : String} {v : V} {l : Tup} {q : String × V} (h : q ∈ V.insAttr n v l) :
    q = (n, v) ∨ q ∈ l := by
  induction l with
  | nil => simp [V.insAttr] at h; exact Or.inl h
  | cons p r ih =>
    obtain ⟨k, w⟩ := p
    unfold V.insAttr at h
    by_cases h1 : n < k
    · simp only [h1, if_true] at h
      rcases List.mem_cons.1 h with e | h'
      · exact Or.inl e
      · exact Or.inr h'
    · by_cases h2 : n = k
      · subst h2
        simp only [h1, if_false, if_true] at h
        rcases List.mem_cons.1 h with e | h'
        · exact Or.inl e
        · exact Or.inr (List.mem_cons_of_mem _ h')
      · simp only [h1, h2, if_false] at h
        rcases List.mem_cons.1 h with e | h'
        · exact Or.inr (by rw [e]; simp)
        · rcases ih h' with e | h''
          · exact Or.inl e
          · exact Or.inr (List.mem_cons_of_mem _ h'')

theorem str_lt_of_not_lt_of_ne {a b : String} (h1 : ¬ a < b) (h2 : a ≠ b) : b < a := by
  apply Decidable.byContradiction
  intro h3
  exact h2 (String.le_antisymm (String.not_lt.1 h3) (String.not_lt.1 h1))

theorem sorted_insAttr (n : String) (v : V) (l : Tup) (hl : SortedNames l) : SortedNames (V.insAttr n v l) := by
  induction l with
  | nil => simp [V.insAttr, SortedNames]
  | cons p r ih =>
    obtain ⟨k, w⟩ := p
    unfold SortedNames at hl
    rw [List.pairwise_cons] at hl
    unfold V.insAttr
    by_cases h1 : n < k
    · simp only [h1, if_true]
      unfold SortedNames
      rw [List.pairwise_cons]
      refine ⟨?_, List.pairwise_cons.2 hl⟩
      intro a ha
      rcases List.mem_cons.1 ha with e | ha
      · subst e; exact h1
      · exact String.lt_trans h1 (hl.1 a ha)
    · by_cases h2 : n = k
      · subst h2
        simp only [h1, if_false, if_true]
        unfold SortedNames
        rw [List.pairwise_cons]
        exact ⟨hl.1, hl.2⟩
      · simp only [h1, h2, if_false]
        unfold SortedNames
        rw [List.pairwise_cons]
        refine ⟨?_, ih hl.2⟩
        intro a ha
        rcases mem_insAttr ha with e | ha
        · subst e; exact str_lt_of_not_lt_of_ne h1 h2
        · exact hl.1 a ha

theorem sorted_canonAttrs (as : Tup) : SortedNames (canonAttrs as) := by
  induction as with
  | nil => simp [canonAttrs, SortedNames]
  | cons p r ih => exact sorted_insAttr _ _ _ ih

theorem get_none_of_lt {n : String} {l : Tup} (h : ∀ p ∈ l, n < p.1) : get n l = none := by
  apply get_none_of_not_mem
  intro hm
  obtain ⟨p, hp, e⟩ := List.mem_map.1 hm
  have := h p hp
  rw [e] at this
  exact String.lt_irrefl _ this

/-- strictly sorted attribute lists are determined by their lookups -/
theorem sortedNames_ext : ∀ (a b : Tup), SortedNames a → SortedNames b →
    (∀ n, get n a = get n b) → a = b
  | [], [], _, _, _ => rfl
  | [], (m, w) :: bs, _, _, h => by have := h m; simp at this
  | (n, v) :: as, [], _, _, h => by have := h n; simp at this
  | (n, v) :: as, (m, w) :: bs, ha, hb, h => by
    unfold SortedNames at ha hb
    rw [List.pairwise_cons] at ha hb
    have hnm : n = m := by
      apply Decidable.byContradiction
      intro hne
      by_cases hlt : n < m
      · have h1 := h n
        rw [get_cons, get_cons] at h1
        have : get n bs = none :=
          get_none_of_lt (fun p hp => String.lt_trans hlt (hb.1 p hp))
        simp [Ne.symm hne, this] at h1
      · have hlt' : m < n := str_lt_of_not_lt_of_ne hlt hne
        have h1 := h m
        rw [get_cons, get_cons] at h1
        have : get m as = none :=
          get_none_of_lt (fun p hp => String.lt_trans hlt' (ha.1 p hp))
        simp [hne, this] at h1
    subst hnm
    have hvw : v = w := by
      have h1 := h n
      simp at h1
      exact h1
    subst hvw
    congr 1
    apply sortedNames_ext as bs ha.2 hb.2
    intro k
    by_cases e : n = k
    · subst e
      rw [get_none_of_lt ha.1, get_none_of_lt hb.1]
    · have h1 := h k
      simpa [e] using h1

theorem canonAttrs_congr {as bs : Tup} (h : ∀ n, get n as = get n bs) : canonAttrs as = canonAttrs bs :=
  sortedNames_ext _ _ (sorted_canonAttrs as) (sorted_canonAttrs bs)
    (fun n => by rw [get_canonAttrs, get_canonAttrs, h n])

theorem mkTup_congr {as bs : Tup} (h : ∀ n, get n as = get n bs) : V.mkTup as = V.mkTup bs := by
  rw [mkTup_eq, mkTup_eq, canonAttrs_congr h]

theorem mkTup_inj {as bs : Tup} (h : V.mkTup as = V.mkTup bs) (n : String) : get n as = get n bs := by
  rw [mkTup_eq, mkTup_eq] at h
  injection h with h
  rw [← get_canonAttrs as, ← get_canonAttrs bs, h]

theorem mkTup_eq_iff (as bs : Tup) : V.mkTup as = V.mkTup bs ↔ ∀ n, get n as = get n bs :=
  ⟨mkTup_inj, mkTup_congr⟩

theorem canonAttrs_of_sorted (as : Tup) (h : SortedNames as) : canonAttrs as = as :=
  sortedNames_ext _ _ (sorted_canonAttrs as) h (get_canonAttrs as)

theorem mkTup_of_sorted (as : Tup) (h : SortedNames as) : V.mkTup as = .tup as := by
  rw [mkTup_eq, canonAttrs_of_sorted as h]

@[simp] theorem get_tupOf_mkTup (as : Tup) (n : String) : get n (tupOf (V.mkTup as)) = get n as := by
  rw [mkTup_eq]; exact get_canonAttrs as n

/-- lookup equivalence of attribute lists -/
def Eqv (t u : Tup) : Prop := ∀ n, get n t = get n u

infix:50 " ≃ " => Eqv

theorem Eqv.refl (t : Tup) : t ≃ t := fun _ => rfl
theorem Eqv.symm {t u : Tup} (h : t ≃ u) : u ≃ t := fun n => (h n).symm
theorem Eqv.trans {t u w : Tup} (h1 : t ≃ u) (h2 : u ≃ w) : t ≃ w := fun n => (h1 n).trans (h2 n)
theorem canonAttrs_eqv (t : Tup) : canonAttrs t ≃ t := get_canonAttrs t

theorem has_congr {t u : Tup} (h : t ≃ u) (n : String) : has t n = has u n := by
  unfold has; rw [h n]

/-! ### `Spec`: tuples -/
namespace Spec

theorem get_merge (t u : Tup) (n : String) :
    get n (merge t u) = if has t n then get n t else get n u := by
  unfold merge
  have hf := get_filter (fun m => !has t m) n u
  rw [get_append, hf]
  unfold has
  cases get n t <;> simp

theorem get_restrict (S : String → Bool) (t : Tup) (n : String) :
    get n (restrict S t) = if S n then get n t else none := get_filter S n t

theorem agree_iff (t u : Tup) :
    agree t u = true ↔ ∀ n v w, get n t = some v → get n u = some w → v = w := by
  unfold agree
  rw [List.all_eq_true]
  constructor
  · intro h n v w hv hw
    have := h (n, v) (get_some_mem hv)
    simp only [hw] at this
    have := of_decide_eq_true this
    rw [hv] at this
    injection this
  · intro h p hp
    cases hu : get p.1 u with
    | none => rfl
    | some w =>
      obtain ⟨v, hv⟩ := mem_get_isSome hp
      simp only [decide_eq_true_eq]
      rw [hv, h p.1 v w hv hu]

theorem agree_congr {t t' u u' : Tup} (ht : t ≃ t') (hu : u ≃ u') : agree t u = agree t' u' := by
  have : agree t u = true ↔ agree t' u' = true := by
    rw [agree_iff, agree_iff]
    constructor
    · intro h n v w hv hw; exact h n v w (by rw [ht n]; exact hv) (by rw [hu n]; exact hw)
    · intro h n v w hv hw; exact h n v w (by rw [← ht n]; exact hv) (by rw [← hu n]; exact hw)
  cases h1 : agree t u <;> cases h2 : agree t' u' <;> simp_all

/-- the tuple an operator makes of an agreeing pair -/
def joined (op : JoinOp) (t u : Tup) : Tup := restrict (sel op t u) (merge t u)

theorem get_joined (op : JoinOp) (t u : Tup) (n : String) :
    get n (joined op t u) = if sel op t u n then (if has t n then get n t else get n u) else none := by
  unfold joined; rw [get_restrict, get_merge]

theorem sel_congr {t t' u u' : Tup} (op : JoinOp) (ht : t ≃ t') (hu : u ≃ u') (n : String) :
    sel op t u n = sel op t' u' n := by
  unfold sel; rw [has_congr ht, has_congr hu]

theorem joined_congr {t t' u u' : Tup} (op : JoinOp) (ht : t ≃ t') (hu : u ≃ u') :
    joined op t u ≃ joined op t' u' := by
  intro n
  rw [get_joined, get_joined, sel_congr op ht hu, has_congr ht, ht n, hu n]

theorem mem_joinRows (op : JoinOp) (A B : List Tup) (x : Tup) :
    x ∈ joinRows op A B ↔ ∃ t ∈ A, ∃ u ∈ B, agree t u = true ∧ x = joined op t u := by
  unfold joinRows
  rw [List.mem_flatMap]
  constructor
  · rintro ⟨t, ht, hx⟩
    rw [List.mem_filterMap] at hx
    obtain ⟨u, hu, he⟩ := hx
    by_cases ha : agree t u = true
    · simp only [ha, if_true] at he
      injection he with he
      exact ⟨t, ht, u, hu, ha, he.symm⟩
    · simp [ha] at he
  · rintro ⟨t, ht, u, hu, ha, he⟩
    refine ⟨t, ht, ?_⟩
    rw [List.mem_filterMap]
    exact ⟨u, hu, by simp [ha, he, joined]⟩

/-! ### `Spec`: relations up to lookup equivalence -/

/-- the same rows up to lookup equivalence -/
def RelEqv (A B : List Tup) : Prop := (∀ t ∈ A, ∃ t' ∈ B, t ≃ t') ∧ (∀ t' ∈ B, ∃ t ∈ A, t ≃ t')

theorem RelEqv.refl (A : List Tup) : RelEqv A A :=
  ⟨fun t ht => ⟨t, ht, Eqv.refl t⟩, fun t ht => ⟨t, ht, Eqv.refl t⟩⟩

theorem RelEqv.symm {A B : List Tup} (h : RelEqv A B) : RelEqv B A :=
  ⟨fun t ht => let ⟨t', h1, h2⟩ := h.2 t ht; ⟨t', h1, h2.symm⟩,
   fun t ht => let ⟨t', h1, h2⟩ := h.1 t ht; ⟨t', h1, h2.symm⟩⟩

theorem RelEqv.trans {A B C : List Tup} (h1 : RelEqv A B) (h2 : RelEqv B C) : RelEqv A C :=
  ⟨fun t ht => let ⟨t', a, b⟩ := h1.1 t ht; let ⟨t'', c, d⟩ := h2.1 t' a; ⟨t'', c, b.trans d⟩,
   fun t ht => let ⟨t', a, b⟩ := h2.2 t ht; let ⟨t'', c, d⟩ := h1.2 t' a; ⟨t'', c, d.trans b⟩⟩

theorem denRows_congr {A B : List Tup} (h : RelEqv A B) : denRows A = denRows B := by
  unfold denRows
  apply mkSet_congr
  intro x
  simp only [List.mem_map]
  constructor
  · rintro ⟨t, ht, e⟩
    obtain ⟨t', ht', he⟩ := h.1 t ht
    exact ⟨t', ht', by rw [← e]; exact (mkTup_congr he).symm⟩
  · rintro ⟨t, ht, e⟩
    obtain ⟨t', ht', he⟩ := h.2 t ht
    exact ⟨t', ht', by rw [← e]; exact mkTup_congr he⟩

theorem mem_rowsOf_set (xs : List V) (t : Tup) : t ∈ rowsOf (.set xs) ↔ V.tup t ∈ xs := by
  unfold rowsOf
  rw [List.mem_filterMap]
  constructor
  · rintro ⟨x, hx, e⟩
    cases x with
    | tup as => simp at e; subst e; exact hx
    | num _ => simp at e
    | set _ => simp at e
  · intro h
    exact ⟨.tup t, h, rfl⟩

theorem mem_rowsOf_denRows (A : List Tup) (t : Tup) :
    t ∈ rowsOf (denRows A) ↔ ∃ a ∈ A, t = canonAttrs a := by
  unfold denRows V.mkSet
  rw [mem_rowsOf_set, FinSet.mem_mk, List.mem_map]
  constructor
  · rintro ⟨a, ha, e⟩
    rw [mkTup_eq] at e
    injection e with e
    exact ⟨a, ha, e.symm⟩
  · rintro ⟨a, ha, e⟩
    exact ⟨a, ha, by rw [mkTup_eq, e]⟩

theorem rowsOf_denRows_eqv (A : List Tup) : RelEqv (rowsOf (denRows A)) A := by
  constructor
  · intro t ht
    obtain ⟨a, ha, e⟩ := (mem_rowsOf_denRows A t).1 ht
    exact ⟨a, ha, by rw [e]; exact canonAttrs_eqv a⟩
  · intro a ha
    exact ⟨canonAttrs a, (mem_rowsOf_denRows A _).2 ⟨a, ha, rfl⟩, canonAttrs_eqv a⟩

theorem joinRows_congr (op : JoinOp) {A A' B B' : List Tup} (hA : RelEqv A A') (hB : RelEqv B B') :
    RelEqv (joinRows op A B) (joinRows op A' B') := by
  constructor
  · intro x hx
    obtain ⟨t, ht, u, hu, ha, e⟩ := (mem_joinRows op A B x).1 hx
    obtain ⟨t', ht', et⟩ := hA.1 t ht
    obtain ⟨u', hu', eu⟩ := hB.1 u hu
    refine ⟨joined op t' u', (mem_joinRows op A' B' _).2 ⟨t', ht', u', hu', ?_, rfl⟩, ?_⟩
    · rw [← agree_congr et eu]; exact ha
    · rw [e]; exact joined_congr op et eu
  · intro x hx
    obtain ⟨t', ht', u', hu', ha, e⟩ := (mem_joinRows op A' B' x).1 hx
    obtain ⟨t, ht, et⟩ := hA.2 t' ht'
    obtain ⟨u, hu, eu⟩ := hB.2 u' hu'
    refine ⟨joined op t u, (mem_joinRows op A B _).2 ⟨t, ht, u, hu, ?_, rfl⟩, ?_⟩
    · rw [agree_congr et eu]; exact ha
    · rw [e]; exact joined_congr op et eu

/-- the specification on values does not depend on how the operands' rows are written -/
theorem join_denRows (op : JoinOp) (A B : List Tup) :
    join op (denRows A) (denRows B) = denRows (joinRows op A B) := by
  unfold join
  exact denRows_congr (joinRows_congr op (rowsOf_denRows_eqv A) (rowsOf_denRows_eqv B))

end Spec
end Arrai.C04
