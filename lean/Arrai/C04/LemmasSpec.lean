/-
  C04 helper lemmas, part 2: algebra of the specification — the seven other operators are projections
  of the join, nest is lossless, unnest inverts nest.  Core-only.
-/
import Arrai.C04.Lemmas

namespace Arrai.C04
namespace Spec

/-! ### the operators are projections of `<&>` -/

/-- every row of `A` has exactly the names `h` -/
def Uniform (h : Names) (A : List Tup) : Prop := ∀ t ∈ A, ∀ n, has t n = h.contains n

/-- the names an operator keeps, at the level of headings -/
def keep (op : JoinOp) (hA hB : Names) (n : String) : Bool :=
  (op.keepL && hA.contains n && !hB.contains n) || (op.keepC && hA.contains n && hB.contains n) ||
    (op.keepR && !hA.contains n && hB.contains n)

theorem sel_join_of_sel (op : JoinOp) (t u : Tup) (n : String) (h : sel op t u n = true) :
    sel .join t u n = true := by
  unfold sel at *
  generalize has t n = a at *
  generalize has u n = b at *
  cases op <;> cases a <;> cases b <;> simp_all [JoinOp.keepL, JoinOp.keepC, JoinOp.keepR]

theorem joined_eqv_restrict_join (op : JoinOp) (hA hB : Names) (t u : Tup)
    (ht : ∀ n, has t n = hA.contains n) (hu : ∀ n, has u n = hB.contains n) :
    joined op t u ≃ restrict (keep op hA hB) (joined .join t u) := by
  intro n
  rw [get_restrict, get_joined, get_joined]
  have hk : keep op hA hB n = sel op t u n := by unfold keep sel; rw [ht, hu]
  rw [hk]
  by_cases hs : sel op t u n = true
  · rw [hs, sel_join_of_sel op t u n hs]; simp
  · simp [hs]

theorem projection_of_join (op : JoinOp) (hA hB : Names) (A B : List Tup)
    (uA : Uniform hA A) (uB : Uniform hB B) :
    RelEqv (joinRows op A B) ((joinRows .join A B).map (restrict (keep op hA hB))) := by
  constructor
  · intro x hx
    obtain ⟨t, ht, u, hu, ha, e⟩ := (mem_joinRows op A B x).1 hx
    refine ⟨restrict (keep op hA hB) (joined .join t u), ?_, ?_⟩
    · exact List.mem_map.2 ⟨joined .join t u, (mem_joinRows .join A B _).2 ⟨t, ht, u, hu, ha, rfl⟩, rfl⟩
    · rw [e]; exact joined_eqv_restrict_join op hA hB t u (uA t ht) (uB u hu)
  · intro x hx
    obtain ⟨y, hy, e⟩ := List.mem_map.1 hx
    obtain ⟨t, ht, u, hu, ha, e'⟩ := (mem_joinRows .join A B y).1 hy
    refine ⟨joined op t u, (mem_joinRows op A B _).2 ⟨t, ht, u, hu, ha, rfl⟩, ?_⟩
    rw [← e, e']
    exact joined_eqv_restrict_join op hA hB t u (uA t ht) (uB u hu)

/-! ### nest -/

/-- the nested relation a row's key gets -/
def nestedOf (R : List Tup) (attrs : Names) (t : Tup) : V :=
  denRows ((group R attrs t).map (restrict attrs.contains))

theorem nestRows_eq (R : List Tup) (attrs : Names) (n : String) :
    nestRows R attrs n =
      R.map fun t => (n, nestedOf R attrs t) :: restrict (fun m => !attrs.contains m) t := by
  unfold nestRows nestedOf denRows
  simp [List.map_map, Function.comp_def]

theorem keyOf_eq_iff (attrs : Names) (t u : Tup) :
    keyOf attrs t = keyOf attrs u ↔
      ∀ m, attrs.contains m = false → get m t = get m u := by
  unfold keyOf
  rw [mkTup_eq_iff]
  constructor
  · intro h m hm
    have := h m
    rw [get_restrict, get_restrict] at this
    simp only [hm, Bool.not_false, if_true] at this
    exact this
  · intro h m
    rw [get_restrict, get_restrict]
    cases hm : attrs.contains m
    · simp [h m hm]
    · simp

theorem mem_group (R : List Tup) (attrs : Names) (t u : Tup) :
    u ∈ group R attrs t ↔ u ∈ R ∧ keyOf attrs u = keyOf attrs t := by
  unfold group; simp [List.mem_filter]

/-- no row is lost: every row's nested part is in the group of its own key -/
theorem nest_covers (R : List Tup) (attrs : Names) (t : Tup) (ht : t ∈ R) :
    canonAttrs (restrict attrs.contains t) ∈ rowsOf (nestedOf R attrs t) := by
  unfold nestedOf
  rw [mem_rowsOf_denRows]
  exact ⟨restrict attrs.contains t, List.mem_map.2 ⟨t, (mem_group R attrs t t).2 ⟨ht, rfl⟩, rfl⟩, rfl⟩

/-- no row is invented: every member of a group comes from a row of `R` with that key -/
theorem nest_sound (R : List Tup) (attrs : Names) (t s : Tup) (hs : s ∈ rowsOf (nestedOf R attrs t)) :
    ∃ u ∈ R, keyOf attrs u = keyOf attrs t ∧ s = canonAttrs (restrict attrs.contains u) := by
  unfold nestedOf at hs
  rw [mem_rowsOf_denRows] at hs
  obtain ⟨a, ha, e⟩ := hs
  obtain ⟨u, hu, e'⟩ := List.mem_map.1 ha
  have := (mem_group R attrs t u).1 hu
  exact ⟨u, this.1, this.2, by rw [e, ← e']⟩

/-- the groups are disjoint on the key: rows with equal keys get the very same nested relation -/
theorem nest_key_functional (R : List Tup) (attrs : Names) (t t' : Tup)
    (h : keyOf attrs t = keyOf attrs t') : nestedOf R attrs t = nestedOf R attrs t' := by
  unfold nestedOf group
  rw [h]

/-! ### unnest inverts nest -/

theorem merge_congr {t t' u u' : Tup} (ht : t ≃ t') (hu : u ≃ u') : merge t u ≃ merge t' u' := by
  intro n; rw [get_merge, get_merge, has_congr ht, ht n, hu n]

theorem restrict_congr (S : String → Bool) {t t' : Tup} (ht : t ≃ t') : restrict S t ≃ restrict S t' := by
  intro n; rw [get_restrict, get_restrict, ht n]

theorem mem_unnestRows (R : List Tup) (n : String) (x : Tup) :
    x ∈ unnestRows R n ↔ ∃ t ∈ R, ∃ s ∈ rowsOf ((get n t).getD V.none),
      x = merge (restrict (fun m => m ≠ n) t) s := by
  unfold unnestRows
  rw [List.mem_flatMap]
  constructor
  · rintro ⟨t, ht, hx⟩
    obtain ⟨s, hs, e⟩ := List.mem_map.1 hx
    exact ⟨t, ht, s, hs, e.symm⟩
  · rintro ⟨t, ht, s, hs, e⟩
    exact ⟨t, ht, List.mem_map.2 ⟨s, hs, e.symm⟩⟩

theorem unnestRows_congr {A A' : List Tup} (n : String) (h : RelEqv A A') :
    RelEqv (unnestRows A n) (unnestRows A' n) := by
  constructor
  · intro x hx
    obtain ⟨t, ht, s, hs, e⟩ := (mem_unnestRows A n x).1 hx
    obtain ⟨t', ht', et⟩ := h.1 t ht
    refine ⟨merge (restrict (fun m => m ≠ n) t') s,
      (mem_unnestRows A' n _).2 ⟨t', ht', s, by rw [← et n]; exact hs, rfl⟩, ?_⟩
    rw [e]; exact merge_congr (restrict_congr _ et) (Eqv.refl s)
  · intro x hx
    obtain ⟨t', ht', s, hs, e⟩ := (mem_unnestRows A' n x).1 hx
    obtain ⟨t, ht, et⟩ := h.2 t' ht'
    refine ⟨merge (restrict (fun m => m ≠ n) t) s,
      (mem_unnestRows A n _).2 ⟨t, ht, s, by rw [et n]; exact hs, rfl⟩, ?_⟩
    rw [e]; exact merge_congr (restrict_congr _ et) (Eqv.refl s)

/-- the unnested row built from `t`'s key and a group member coming from `u` (same key) is `u` -/
theorem unnest_row_eqv (attrs : Names) (n : String) (G : V) (t u : Tup)
    (hk : keyOf attrs u = keyOf attrs t)
    (hn : attrs.contains n = false → get n u = none) :
    merge (restrict (fun m => m ≠ n) ((n, G) :: restrict (fun m => !attrs.contains m) t))
      (canonAttrs (restrict attrs.contains u)) ≃ u := by
  intro m
  have hkey := (keyOf_eq_iff attrs u t).1 hk
  rw [get_merge]
  unfold has
  rw [get_restrict, get_canonAttrs, get_restrict, get_cons, get_restrict]
  by_cases hmn : m = n
  · subst hmn
    simp only [ne_eq, not_true, decide_false]
    cases ha : attrs.contains m
    · simp [hn ha]
    · simp
  · have hnm : ¬ n = m := fun e => hmn e.symm
    simp only [ne_eq, hmn, not_false_eq_true, decide_true, if_true, hnm, if_false]
    cases ha : attrs.contains m
    · simp only [Bool.not_false, if_true]
      rw [← hkey m ha]
      cases get m u <;> simp
    · simp

theorem unnest_nest_rows (R : List Tup) (attrs : Names) (n : String)
    (hn : ∀ t ∈ R, attrs.contains n = false → get n t = none) :
    RelEqv (unnestRows (nestRows R attrs n) n) R := by
  rw [nestRows_eq]
  constructor
  · intro x hx
    obtain ⟨g, hg, s, hs, e⟩ := (mem_unnestRows _ n x).1 hx
    obtain ⟨t, ht, eg⟩ := List.mem_map.1 hg
    subst eg
    simp only [get_cons, if_true, Option.getD_some] at hs
    obtain ⟨u, hu, hk, es⟩ := nest_sound R attrs t s hs
    refine ⟨u, hu, ?_⟩
    rw [e, es]
    exact unnest_row_eqv attrs n _ t u hk (hn u hu)
  · intro u hu
    refine ⟨merge (restrict (fun m => m ≠ n)
        ((n, nestedOf R attrs u) :: restrict (fun m => !attrs.contains m) u))
        (canonAttrs (restrict attrs.contains u)), ?_, ?_⟩
    · rw [mem_unnestRows]
      refine ⟨_, List.mem_map.2 ⟨u, hu, rfl⟩, canonAttrs (restrict attrs.contains u), ?_, rfl⟩
      simp only [get_cons, if_true, Option.getD_some]
      exact nest_covers R attrs u hu
    · exact unnest_row_eqv attrs n (nestedOf R attrs u) u u rfl (hn u hu)

theorem nestRows_congr {A A' : List Tup} (attrs : Names) (n : String) (h : RelEqv A A') :
    RelEqv (nestRows A attrs n) (nestRows A' attrs n) := by
  have key : ∀ {t t' : Tup}, t ≃ t' → keyOf attrs t = keyOf attrs t' := by
    intro t t' e
    rw [keyOf_eq_iff]; intro m _; exact e m
  have nested : ∀ {t t' : Tup}, t ≃ t' → nestedOf A attrs t = nestedOf A' attrs t' := by
    intro t t' e
    unfold nestedOf
    apply denRows_congr
    constructor
    · intro x hx
      obtain ⟨u, hu, ex⟩ := List.mem_map.1 hx
      obtain ⟨hu1, hu2⟩ := (mem_group A attrs t u).1 hu
      obtain ⟨u', hu', eu⟩ := h.1 u hu1
      refine ⟨restrict attrs.contains u', List.mem_map.2 ⟨u', (mem_group A' attrs t' u').2 ⟨hu', ?_⟩, rfl⟩, ?_⟩
      · rw [← key eu, hu2, key e]
      · rw [← ex]; exact restrict_congr _ eu
    · intro x hx
      obtain ⟨u', hu', ex⟩ := List.mem_map.1 hx
      obtain ⟨hu1, hu2⟩ := (mem_group A' attrs t' u').1 hu'
      obtain ⟨u, hu, eu⟩ := h.2 u' hu1
      refine ⟨restrict attrs.contains u, List.mem_map.2 ⟨u, (mem_group A attrs t u).2 ⟨hu, ?_⟩, rfl⟩, ?_⟩
      · rw [key eu, hu2, key e]
      · rw [← ex]; exact restrict_congr _ eu
  rw [nestRows_eq, nestRows_eq]
  constructor
  · intro x hx
    obtain ⟨t, ht, ex⟩ := List.mem_map.1 hx
    obtain ⟨t', ht', et⟩ := h.1 t ht
    refine ⟨_, List.mem_map.2 ⟨t', ht', rfl⟩, ?_⟩
    rw [← ex]
    intro m
    rw [get_cons, get_cons, nested et, restrict_congr _ et m]
  · intro x hx
    obtain ⟨t', ht', ex⟩ := List.mem_map.1 hx
    obtain ⟨t, ht, et⟩ := h.2 t' ht'
    refine ⟨_, List.mem_map.2 ⟨t, ht, rfl⟩, ?_⟩
    rw [← ex]
    intro m
    rw [get_cons, get_cons, nested et, restrict_congr _ et m]

theorem nest_denRows (R : List Tup) (attrs : Names) (n : String) :
    nest (denRows R) attrs n = denRows (nestRows R attrs n) := by
  unfold nest
  exact denRows_congr (nestRows_congr attrs n (rowsOf_denRows_eqv R))

theorem unnest_denRows (R : List Tup) (n : String) :
    unnest (denRows R) n = denRows (unnestRows R n) := by
  unfold unnest
  exact denRows_congr (unnestRows_congr n (rowsOf_denRows_eqv R))

end Spec
end Arrai.C04
