/-
  C04 — the join family, nest/unnest and rank.

  `Spec`: the relational definitions on attribute maps (`Tup`) and on values (`V`).
  `Impl`: transliteration of rel/ops_rel.go (RelationAttrs, Joiner, GenericJoin, nestWithFunc, Reduce, Nest,
          SingleAttrNest, Unnest), rel/expr_rel.go (the eight partitionNames/combine pairs),
          rel/value_set_rel.go (Relation.Join, getIndices), rel/value_set_relpos.go (createMode, Join,
          JoinKeepEverything, JoinIfCommonExist, JoinCommonOnly, joinOneSide, groupBy),
          rel/value_values.go (valueProjector, projectedValues), rel/expr_nest.go, expr_single_nest.go,
          expr_unnest.go, rel/ops_set_rank.go, rel/ops_tuple.go (Combine/Merge) — as repaired in the worktree.
  Core-only (linked into driver-c04).
-/
import Arrai.Core.Canon

namespace Arrai.C04

abbrev Row := List V
abbrev Tup := List (String × V)
abbrev Names := List String
abbrev Proj := List Nat

/-- members of a frozen set / keys of a frozen map: no duplicates (keeps the last occurrence) -/
def dedup {α : Type} [DecidableEq α] : List α → List α
  | [] => []
  | x :: xs => if x ∈ xs then dedup xs else x :: dedup xs

/-- attribute lookup: the first binding of a name wins -/
def get (n : String) : Tup → Option V
  | [] => none
  | (m, v) :: r => if m = n then some v else get n r

def has (t : Tup) (n : String) : Bool := (get n t).isSome

def tupOf : V → Tup
  | .tup as => as
  | _ => []

/-- the eight operators of the join family -/
inductive JoinOp
  | join | compose | common | exists_ | rmatch | lmatch | rres | lres
  deriving DecidableEq, Repr, Inhabited

namespace JoinOp
def all : List JoinOp := [join, compose, common, exists_, rmatch, lmatch, rres, lres]
/-- the operator keeps the attributes unique to the left operand (`<` not replaced by `-`) -/
def keepL : JoinOp → Bool
  | join | compose | lmatch | lres => true
  | _ => false
/-- the operator keeps the common attributes (`&` not replaced by `-`) -/
def keepC : JoinOp → Bool
  | join | common | rmatch | lmatch => true
  | _ => false
/-- the operator keeps the attributes unique to the right operand (`>` not replaced by `-`) -/
def keepR : JoinOp → Bool
  | join | compose | rmatch | rres => true
  | _ => false
def sym : JoinOp → String
  | join => "<&>" | compose => "<->" | common => "-&-" | exists_ => "---"
  | rmatch => "-&>" | lmatch => "<&-" | rres => "-->" | lres => "<--"
end JoinOp

/-! ## Spec: relations as sets of attribute maps -/
namespace Spec

/-- `t` and `u` carry equal values under every name they share -/
def agree (t u : Tup) : Bool :=
  t.all fun p => match get p.1 u with
    | some w => decide (get p.1 t = some w)
    | none => true

/-- `t ∪ u` (for agreeing tuples) -/
def merge (t u : Tup) : Tup := t ++ u.filter (fun p => !has t p.1)

def restrict (S : String → Bool) (t : Tup) : Tup := t.filter (fun p => S p.1)

/-- the attributes of `t ∪ u` an operator keeps: left-only, common, right-only -/
def sel (op : JoinOp) (t u : Tup) (n : String) : Bool :=
  (op.keepL && has t n && !has u n) || (op.keepC && has t n && has u n) || (op.keepR && !has t n && has u n)

/-- `A op B = { (t ∪ u)↾sel | t ∈ A, u ∈ B, t and u agree on their common names }` -/
def joinRows (op : JoinOp) (A B : List Tup) : List Tup :=
  A.flatMap fun t => B.filterMap fun u =>
    if agree t u then some (restrict (sel op t u) (merge t u)) else none

def rowsOf : V → List Tup
  | .set xs => xs.filterMap fun x => match x with
    | .tup as => some as
    | _ => none
  | _ => []

def denRows (R : List Tup) : V := V.mkSet (R.map V.mkTup)

def join (op : JoinOp) (A B : V) : V := denRows (joinRows op (rowsOf A) (rowsOf B))

/-- the key of a row when `attrs` are nested away -/
def keyOf (attrs : Names) (t : Tup) : V := V.mkTup (restrict (fun m => !attrs.contains m) t)

/-- the rows of `R` that share `t`'s key -/
def group (R : List Tup) (attrs : Names) (t : Tup) : List Tup :=
  R.filter fun u => decide (keyOf attrs u = keyOf attrs t)

/-- `R nest |attrs| n = { k ∪ (n: { t↾attrs | t ∈ R, t↾¬attrs = k }) | k ∈ π¬attrs R }` -/
def nestRows (R : List Tup) (attrs : Names) (n : String) : List Tup :=
  R.map fun t =>
    (n, V.mkSet ((group R attrs t).map fun u => V.mkTup (restrict attrs.contains u)))
      :: restrict (fun m => !attrs.contains m) t

/-- `R nest a`: the values of the single attribute `a`, grouped by the other attributes, under `a` -/
def singleNestRows (R : List Tup) (a : String) : List Tup :=
  R.map fun t =>
    (a, V.mkSet ((group R [a] t).filterMap fun u => get a u)) :: restrict (fun m => !([a].contains m)) t

/-- `R unnest n = { (t ∖ n) ∪ s | t ∈ R, s ∈ t.n }` -/
def unnestRows (R : List Tup) (n : String) : List Tup :=
  R.flatMap fun t => (rowsOf ((get n t).getD V.none)).map fun s => merge (restrict (fun m => m ≠ n) t) s

def nest (A : V) (attrs : Names) (n : String) : V := denRows (nestRows (rowsOf A) attrs n)
def singleNest (A : V) (a : String) : V := denRows (singleNestRows (rowsOf A) a)
def unnest (A : V) (n : String) : V := denRows (unnestRows (rowsOf A) n)

/-- the number of rows of `R` whose `k` is strictly smaller than `t`'s -/
def rankOf (R : List Tup) (k : String) (t : Tup) : Nat :=
  (R.filter fun u => V.cmp ((get k u).getD V.none) ((get k t).getD V.none) == .lt).length

/-- `R rank (r: .k, …)`: every row gains, per `(r, k)`, the number of rows with a strictly smaller `k` -/
def rankRows (R : List Tup) (keys : List (String × String)) : List Tup :=
  R.map fun t => (keys.map fun rk => (rk.1, V.num (Int.ofNat (rankOf R rk.2 t)))) ++ t

def rank (A : V) (keys : List (String × String)) : V := denRows (rankRows (rowsOf A) keys)

end Spec

/-! ## Impl -/
namespace Impl

/-! ### NamesSlice (rel/value_tuple.go) -/
def hasIntersect (n n2 : Names) : Bool :=
  if n.length > n2.length then n.any n2.contains else n2.any n.contains

def intersect (n n2 : Names) : Names :=
  if n.length > n2.length then n.filter n2.contains else n2.filter n.contains

def minus (n n2 : Names) : Names := n.filter fun x => !n2.contains x
def isSubset (n n2 : Names) : Bool := n.all n2.contains

/-! ### the eight `partitionNames` closures (rel/ops_rel.go `join`, rel/expr_rel.go) -/
def partitionNames (op : JoinOp) (left right common : Names) : Names × Names :=
  match op with
  | .join =>
    if isSubset left right then ([], right)
    else if isSubset right left then (left, [])
    else (left, minus right left)
  | .compose => (minus left common, minus right common)
  | .common => (common, [])
  | .exists_ => ([], [])
  | .rmatch => ([], right)
  | .lmatch => (left, [])
  | .rres => ([], minus right common)
  | .lres => (minus left common, [])

/-! ### valueProjector / projectedValues (rel/value_values.go) -/
def compose (p p2 : Proj) : Proj := p2.map fun i => p.getD i 0

def isSubProjection (p p2 : Proj) : Bool := p.all p2.contains

def hasCommonIndices (p p2 : Proj) : Bool :=
  if p.length > p2.length then p.any p2.contains else p2.any p.contains

def isIdentityFrom : Nat → Proj → Bool
  | _, [] => true
  | i, x :: xs => x == i && isIdentityFrom (i + 1) xs

def isIdentity (p : Proj) (max : Nat) : Bool := p.length == max && isIdentityFrom 0 p

/-- `Values.project(p).values()`; a slice index out of range (a Go panic) is totalised by `V.none`:
unreachable for rows that have the heading's width (`WF`). -/
def project (p : Proj) (v : Row) : Row :=
  if p.isEmpty || v.isEmpty then [] else p.map fun i => v.getD i V.none

/-! ### positionalRelation (rel/value_set_relpos.go) -/

/-- `CombineOp` as its three bits -/
structure Mode where
  lhs : Bool      -- OnlyOnLHS
  inBoth : Bool   -- InBoth
  rhs : Bool      -- OnlyOnRHS
  deriving DecidableEq, Repr, Inhabited

def createMode (leftKey rightKey leftOutput rightOutput : Proj) : Except String Mode :=
  if leftKey.length != rightKey.length then .error "createMode: keys are not of the same length"
  else if (!isSubProjection leftKey leftOutput && hasCommonIndices leftOutput leftKey) ||
      (!isSubProjection rightKey rightOutput && hasCommonIndices rightOutput rightKey) then
    .error "createMode: partial key output"
  else .ok {
    lhs := !isSubProjection leftOutput leftKey
    rhs := !isSubProjection rightOutput rightKey
    inBoth := hasCommonIndices leftOutput leftKey != hasCommonIndices rightOutput rightKey }

def lookupKey (g : List (Row × List Row)) (k : Row) : Option (List Row) :=
  match g with
  | [] => none
  | (k', s) :: r => if k' = k then some s else lookupKey r k

def hasKey (g : List (Row × List Row)) (k : Row) : Bool := (lookupKey g k).isSome

/-- `groupBy(p)`: key ↦ the rows with that key; one entry `() ↦ all rows` for the empty projector -/
def groupBy (rows : List Row) (p : Proj) : List (Row × List Row) :=
  if p.length == 0 then [([], rows)]
  else (dedup (rows.map (project p))).map fun k => (k, rows.filter fun r => decide (project p r = k))

def joinKeepEverything (r r2 : List Row) (leftKey rightKey leftOutput rightOutput : Proj) : List Row :=
  let rightGroup := groupBy r2 rightKey
  dedup ((groupBy r leftKey).flatMap fun e =>
    match lookupKey rightGroup e.1 with
    | none => []
    | some rightSubset =>
      e.2.flatMap fun leftVal => rightSubset.map fun rightVal =>
        project leftOutput leftVal ++ project rightOutput rightVal)

def truePosRel : List Row := [[]]
def falsePosRel : List Row := []

def joinIfCommonExist (r r2 : List Row) (leftKey rightKey : Proj) : List Row :=
  let (r, r2, leftKey, rightKey) :=
    if (dedup r).length > (dedup r2).length then (r2, r, rightKey, leftKey) else (r, r2, leftKey, rightKey)
  let group := groupBy r leftKey
  if r2.any fun row => hasKey group (project rightKey row) then truePosRel else falsePosRel

/-- position of `index` in `key` (`mapping[index] = i`; the last write wins) -/
def posIn (index : Nat) : Proj → Nat → Option Nat
  | [], _ => none
  | x :: xs, i => match posIn index xs (i + 1) with
    | some j => some j
    | none => if x = index then some i else none

def remap (key : Proj) : Proj → Except String Proj
  | [] => .ok []
  | index :: rest =>
    match posIn index key 0 with
    | none => .error "JoinCommonOnly: invalid output value"
    | some i => (remap key rest).map (i :: ·)

/-- the `mapper` of `JoinCommonOnly` applied to the common keys: the identity when key and output projector
coincide, otherwise the re-mapping of every key into the output order -/
def commonOnlyOut (key value : Proj) (keys : List Row) : Except String (List Row) :=
  if key = value then .ok (dedup keys)
  else match remap key value with
    | .error e => .error e
    | .ok output => .ok (dedup (keys.map (project output)))

def joinCommonOnly (r r2 : List Row) (leftKey rightKey leftOutput rightOutput : Proj) : Except String (List Row) :=
  let keys := ((groupBy r leftKey).map (·.1)).filter fun k => hasKey (groupBy r2 rightKey) k
  if leftOutput.length == 0 then commonOnlyOut rightKey rightOutput keys
  else commonOnlyOut leftKey leftOutput keys

/-- `base.Width()`: the length of any row -/
def width : List Row → Except String Nat
  | [] => .error "Width: Any() of an empty set"
  | r :: _ => .ok r.length

def joinOneSide (base : List Row) (intersector : List (Row × List Row)) (key output : Proj) :
    Except String (List Row) :=
  match width base with
  | .error e => .error e
  | .ok w =>
    if isIdentity output w then
      .ok (base.filter fun v => hasKey intersector (project key v))
    else
      .ok (dedup ((base.filter fun v => hasKey intersector (project key v)).map (project output)))

/-- the strategy `positionalRelation.Join` selects for a mode -/
inductive Strategy
  | keepEverything | oneSideLeft | oneSideRight | commonOnly | ifCommonExist
  deriving DecidableEq, Repr, Inhabited

def strategyOf (m : Mode) : Strategy :=
  match m.lhs, m.inBoth, m.rhs with
  | true, _, true => .keepEverything        -- AllPairs, OnlyOnLHS|OnlyOnRHS
  | true, _, false => .oneSideLeft          -- OnlyOnLHS, OnlyOnLHS|InBoth
  | false, _, true => .oneSideRight         -- OnlyOnRHS, OnlyOnRHS|InBoth
  | false, true, false => .commonOnly       -- InBoth
  | false, false, false => .ifCommonExist   -- 0

def posJoin (r r2 : List Row) (leftKey rightKey leftOutput rightOutput : Proj) : Except String (List Row) :=
  match createMode leftKey rightKey leftOutput rightOutput with
  | .error e => .error e
  | .ok mode =>
    match strategyOf mode with
    | .keepEverything => .ok (joinKeepEverything r r2 leftKey rightKey leftOutput rightOutput)
    | .oneSideLeft => joinOneSide r (groupBy r2 rightKey) leftKey leftOutput
    | .oneSideRight => joinOneSide r2 (groupBy r leftKey) rightKey rightOutput
    | .commonOnly => joinCommonOnly r r2 leftKey rightKey leftOutput rightOutput
    | .ifCommonExist => .ok (joinIfCommonExist r r2 leftKey rightKey)

/-! ### the set representations the join family distinguishes -/

structure Relation where
  attrs : Names
  p : Proj
  rows : List Row
  deriving DecidableEq, Inhabited

inductive SeqKind
  | char | item | byte | value
  deriving DecidableEq, Repr, Inhabited

def SeqKind.attr : SeqKind → String
  | .char => "@char" | .item => "@item" | .byte => "@byte" | .value => "@value"

inductive Rep
  | empty                                   -- EmptySet
  | true_                                   -- TrueSet
  | relation (r : Relation)                 -- Relation
  | seq (k : SeqKind) (pairs : List (V × V))  -- String / Array / Bytes / Dict: the pairs (@, @char|@item|@byte|@value)
  | generic (xs : List V)                   -- GenericSet
  | union (xs : List V)                     -- UnionSet (several buckets)
  deriving Inhabited

inductive Res
  | ok (r : Rep)
  | err
  | panic (site : String)
  deriving Inhabited

/-- `valuesToTuple(val, attrMap)` with `attrMap = mapIndices(attrs, p)` -/
def valuesToTuple (attrs : Names) (p : Proj) (val : Row) : V :=
  V.mkTup ((attrs.zip p).map fun np => (np.1, val.getD np.2 V.none))

def pairTuple (k : SeqKind) (iv : V × V) : V := V.mkTup [("@", iv.1), (k.attr, iv.2)]

/-- the members a representation enumerates -/
def enumerate : Rep → List V
  | .empty => []
  | .true_ => [.tup []]
  | .relation r => r.rows.map (valuesToTuple r.attrs r.p)
  | .seq k pairs => pairs.map (pairTuple k)
  | .generic xs => xs
  | .union xs => xs

def den (r : Rep) : V := V.mkSet (enumerate r)

def isTrue : Rep → Bool
  | .empty => false
  | .true_ => true
  | .relation r => !r.rows.isEmpty
  | .seq _ pairs => !pairs.isEmpty
  | .generic xs => !xs.isEmpty
  | .union xs => !xs.isEmpty

/-- the bucket `SetBuilder.Add` files a member under (`getBucket`) -/
inductive Bucket
  | generic
  | sugar (k : SeqKind)
  | names (ns : Names)
  deriving DecidableEq, Inhabited

def bucketOf : V → Bucket
  | .tup [] => .generic
  | .tup as =>
    let ns := as.map (·.1)
    if ns = ["@", "@char"] then .sugar .char
    else if ns = ["@", "@item"] then .sugar .item
    else if ns = ["@", "@byte"] then .sugar .byte
    else if ns = ["@", "@value"] then .sugar .value
    else .names ns
  | _ => .generic

def pairOf (k : SeqKind) (t : V) : V × V :=
  ((get "@" (tupOf t)).getD V.none, (get k.attr (tupOf t)).getD V.none)

/-- `SetBuilder.Finish()` over canonical members: one bucket → that bucket's builder (relationBuilder with
the sorted names of the tuples and the identity projector; String/Array/Bytes/Dict for the sugar headings;
TrueSet for `{()}`), several buckets → UnionSet -/
def ofMembers (xs0 : List V) : Rep :=
  let xs := dedup xs0
  match xs with
  | [] => .empty
  | x :: _ =>
    let b := bucketOf x
    if xs.all fun y => decide (bucketOf y = b) then
      match b with
      | .generic => if xs = [.tup []] then .true_ else .generic xs
      | .sugar k => .seq k (xs.map (pairOf k))
      | .names ns =>
        .relation ⟨ns, List.range ns.length, xs.map fun t => ns.map fun n => (get n (tupOf t)).getD V.none⟩
    else .union xs

def ofV : V → Rep
  | .set xs => ofMembers xs
  | _ => .union []

/-- members, some of which may be Go `nil` tuples (adding one to a builder panics) -/
def finish (ms : List (Option V)) : Res :=
  if ms.any Option.isNone then .panic "nil tuple added to a set builder"
  else .ok (ofMembers (ms.filterMap id))

/-! ### Relation.Join (rel/value_set_rel.go) -/

def indexOf (n : String) : Names → Option Nat
  | [] => none
  | a :: as => if a = n then some 0 else (indexOf n as).map (· + 1)

/-- `getIndices`: positions of `names` in the heading (the heading of a relation has distinct names) -/
def getIndices (attrs : Names) : Names → Except String (List Nat)
  | [] => .ok []
  | n :: ns =>
    match indexOf n attrs with
    | none => .error "getIndices: name not found in relation"
    | some i => (getIndices attrs ns).map (i :: ·)

def isLiteralTrue (rows : List Row) : Bool := (dedup rows).length == 1 && rows.contains []

def isSugarAttr (n : String) : Option SeqKind :=
  if n = "@item" then some .item else if n = "@byte" then some .byte
  else if n = "@value" then some .value else if n = "@char" then some .char else none

/-- `i.Values().project(proj)` then `values.get(i) = v[p[i]]` -/
def pvGet (proj : Proj) (v : Row) (i : Nat) : Option V :=
  match proj[i]? with
  | none => none
  | some j => v[j]?

/-- the re-sugaring loop of `Relation.Join`; `proj` is the projector the rows are read through:
the identity of the output heading after the repair, the left operand's `r.p` before it -/
def resugarRow (proj : Proj) (attrs : Names) (at_ val : Nat) (row : Row) : Option V :=
  match pvGet proj row at_, pvGet proj row val with
  | some a, some b => some (V.mkTup [("@", a), (attrs.getD val "", b)])
  | _, _ => none

def resugar (proj : Proj) (attrs : Names) (at_ val : Nat) (rows : List Row) : Res :=
  let ms := rows.map (resugarRow proj attrs at_ val)
  if ms.any Option.isNone then .panic "Relation.Join: index out of range" else .ok (ofMembers (ms.filterMap id))

def relationJoinWith (oldProjector : Bool) (r r2 : Relation) (keys leftOutput rightOutput : Names) : Res :=
  if hasIntersect leftOutput rightOutput then .panic "relation.Join: left and right output intersect"
  else
    match getIndices r.attrs keys, getIndices r2.attrs keys,
          getIndices r.attrs leftOutput, getIndices r2.attrs rightOutput with
    | .ok lki, .ok rki, .ok loi, .ok roi =>
      let leftKey := compose r.p lki
      let rightKey := compose r2.p rki
      let leftOutputProj := compose r.p loi
      let rightOutputProj := compose r2.p roi
      let count := leftOutput.length + rightOutput.length
      let projection := List.range count
      match posJoin r.rows r2.rows leftKey rightKey leftOutputProj rightOutputProj with
      | .error e => .panic e
      | .ok rows =>
        if rows.isEmpty then .ok .empty
        else if isLiteralTrue rows then .ok .true_
        else
          let attrs := leftOutput ++ rightOutput
          let plain := Res.ok (.relation ⟨attrs, projection, rows⟩)
          if attrs.length == 2 then
            let (at_, val) := if attrs.getD 1 "" = "@" then (1, 0) else (0, 1)
            if attrs.getD at_ "" = "@" then
              match isSugarAttr (attrs.getD val "") with
              | some _ => resugar (if oldProjector then r.p else projection) attrs at_ val rows
              | none => plain
            else plain
          else plain
    | _, _, _, _ => .panic "getIndices: name not found in relation"

def relationJoin := relationJoinWith false

/-! ### tuples (rel/ops_tuple.go, value_tuple.go) -/

/-- `t.Project(names)`: `nil` when a name is missing -/
def projectT (names : Names) (t : V) : Option V :=
  if names.all (has (tupOf t)) then
    some (V.mkTup (names.map fun n => (n, (get n (tupOf t)).getD V.none)))
  else none

def namesOf (t : V) : Names := (tupOf t).map (·.1)

/-- `TupleProjectAllBut(t, names)` -/
def projectAllBut (t : V) (names : Names) : Option V := projectT (minus (namesOf t) names) t

/-- `Merge(a, b)` via `Combine(a, b, AllPairs)`: `nil` when a common name maps to different values -/
def mergeT (a b : V) : Option V :=
  let ta := tupOf a
  let tb := tupOf b
  if ta.all fun p => match get p.1 tb with
      | some w => decide (p.2 = w)
      | none => true
  then some (V.mkTup (ta ++ tb.filter fun p => !has ta p.1))
  else none

/-- the eight `combine` closures -/
def combine (op : JoinOp) (common : Names) (a b : V) : Option V :=
  match op with
  | .join => mergeT a b
  | .compose =>
    match projectAllBut a common, projectAllBut b common with
    | some x, some y => mergeT x y
    | _, _ => none
  | .common => projectT common a
  | .exists_ => some (.tup [])
  | .rmatch => some b
  | .lmatch => some a
  | .rres => projectAllBut b common
  | .lres => projectAllBut a common

/-! ### RelationAttrs, GenericJoin, Joiner (rel/ops_rel.go) -/

def sameNames (a b : Names) : Bool := isSubset a b && isSubset b a

def relationAttrs : Rep → Option Names
  | .relation r => some r.attrs
  | .empty => some []
  | .true_ => some []
  | .seq k _ => some ["@", k.attr]
  | .generic [] => some []
  | .generic (x :: rest) =>
    match x with
    | .tup as =>
      let names := as.map (·.1)
      if rest.all fun y => match y with
          | .tup bs => sameNames names (bs.map (·.1))
          | _ => false
      then some names else none
    | _ => none
  | .union _ => none

/-- `GenericJoin`: both sides are bucketed by key; every key's buckets are combined pairwise -/
def genericJoin (a b : List V) (getKey : V → Option V) (f : V → V → Option V) : List (Option V) :=
  (dedup ((a ++ b).map getKey)).flatMap fun k =>
    (a.filter fun x => decide (getKey x = k)).flatMap fun x =>
      (b.filter fun y => decide (getKey y = k)).map fun y => f x y

def joiner (op : JoinOp) (a b : Rep) : Res :=
  match a with
  | .empty => .ok .empty
  | _ =>
    match b with
    | .empty => .ok .empty
    | _ =>
      match a, b with
      | .relation r1, .relation r2 =>
        let common := intersect r1.attrs r2.attrs
        let lr := partitionNames op r1.attrs r2.attrs common
        relationJoin r1 r2 common lr.1 lr.2
      | _, _ =>
        match relationAttrs a, relationAttrs b with
        | some aNames, some bNames =>
          let common := aNames.filter bNames.contains
          finish (genericJoin (enumerate a) (enumerate b) (projectT common) (combine op common))
        | _, _ => .err

/-- the generic path alone (what `Joiner` does when an operand is not a `Relation`) -/
def genericPath (op : JoinOp) (a b : Rep) : Res :=
  match relationAttrs a, relationAttrs b with
  | some aNames, some bNames =>
    let common := aNames.filter bNames.contains
    finish (genericJoin (enumerate a) (enumerate b) (projectT common) (combine op common))
  | _, _ => .err

/-! ### Reduce, nest, unnest (rel/ops_rel.go, expr_nest.go, expr_single_nest.go, expr_unnest.go) -/

def reduce (a : List V) (getKey : V → Option V) (red : Option V → List V → List (Option V)) : List (Option V) :=
  (dedup (a.map getKey)).flatMap fun k => red k (a.filter fun v => decide (getKey v = k))

/-- the reducer of `nestWithFunc`: the key tuple merged with `(attr: {fn t | t in the bucket})` -/
def nestGroup (attr : String) (fn : V → Option V) (k : Option V) (tuples : List V) : List (Option V) :=
  match k with
  | none => [none]
  | some kt =>
    if (tuples.map fn).any Option.isNone then [none]
    else [mergeT kt (V.mkTup [(attr, V.mkSet ((tuples.map fn).filterMap id))])]

def nestWithFunc (a : Rep) (relAttrs attrs : Names) (attr : String) (fn : V → Option V) : Res :=
  if !isTrue a then .ok a
  else if !isSubset attrs relAttrs then .panic "nestWithFunc: nest attrs not a subset of relation attrs"
  else finish (reduce (enumerate a) (projectT (minus relAttrs attrs)) (nestGroup attr fn))

def nest (a : Rep) (relAttrs attrs : Names) (attr : String) : Res :=
  nestWithFunc a relAttrs attrs attr (projectT attrs)

def singleAttrNest (a : Rep) (relAttrs : Names) (attr : String) : Res :=
  nestWithFunc a relAttrs [attr] attr fun t => get attr (tupOf t)

/-- `NestExpr.Eval` (as repaired: the subset and clash tests come before `Nest` for both forms) -/
def nestExpr (inverse : Bool) (lhs : Rep) (attrs : Names) (attr : String) : Res :=
  if !isTrue lhs then .ok lhs
  else match relationAttrs lhs with
    | none => .err
    | some relAttrs =>
      if !isSubset attrs relAttrs then .err
      else
        let attrs' := if inverse then minus relAttrs attrs else attrs
        if inverse && attrs'.isEmpty then .err
        else if (minus relAttrs attrs').contains attr then .err
        else nest lhs relAttrs attrs' attr

/-- `SingleNestExpr.Eval` (as repaired) -/
def singleNestExpr (lhs : Rep) (attr : String) : Res :=
  match relationAttrs lhs with
  | none => .err
  | some relAttrs =>
    if isTrue lhs && !relAttrs.contains attr then .err
    else singleAttrNest lhs relAttrs attr

/-- the row `t` cannot be unnested: its `attr` is not a set of tuples that merge with the rest of `t` -/
def unnestBad (attr : String) (t : V) : Bool :=
  match get attr (tupOf t) with
  | some (.set xs) =>
    xs.any fun s => match s with
      | .tup _ => (mergeT (V.mkTup ((tupOf t).filter fun p => p.1 ≠ attr)) s).isNone
      | _ => true
  | _ => true

/-- the reducer of `Unnest`: every member of `t.attr` merged with `t` without `attr` -/
def unnestGroup (attr : String) (k : Option V) (_tuples : List V) : List (Option V) :=
  match k with
  | none => [none]
  | some t =>
    match get attr (tupOf t) with
    | some (.set xs) => xs.map fun s => mergeT (V.mkTup ((tupOf t).filter fun p => p.1 ≠ attr)) s
    | _ => [none]

/-- `Unnest` (as repaired: ill-typed rows are an error) -/
def unnest (a : Rep) (attr : String) : Res :=
  match relationAttrs a with
  | none => .err
  | some key =>
    if !key.contains attr then .err
    else if (enumerate a).any (unnestBad attr) then .err
    else finish (reduce (enumerate a) (projectT key) (unnestGroup attr))

def unnestExpr (lhs : Rep) (attr : String) : Res :=
  if !isTrue lhs then .ok lhs else unnest lhs attr

/-! ### Rank (rel/ops_set_rank.go) -/

structure Entry where
  input : Tup
  ranker : Tup

/-- insertion into a list sorted by the ranker's `attr` (`sort.Sort` is modelled by a sorting function) -/
def insertBy (attr : String) (e : Entry) : List Entry → List Entry
  | [] => [e]
  | x :: xs =>
    if V.cmp ((get attr e.ranker).getD V.none) ((get attr x.ranker).getD V.none) == .lt then e :: x :: xs
    else x :: insertBy attr e xs

def sortBy (attr : String) (es : List Entry) : List Entry := es.foldr (insertBy attr) []

/-- the loop `for i, r := range ranker.entries { … }` -/
def rankLoop (attr : String) : List Entry → Nat → Nat → V → List Entry
  | [], _, _, _ => []
  | r :: rest, i, rank, current =>
    let a := (get attr r.ranker).getD V.none
    let rank' := if a = current then rank else i
    { r with input := (attr, V.num (Int.ofNat rank')) :: r.input.filter (fun p => p.1 ≠ attr) }
      :: rankLoop attr rest (i + 1) rank' a

def rankPass (es : List Entry) (attr : String) : List Entry :=
  match sortBy attr es with
  | [] => []
  | e0 :: rest => rankLoop attr (e0 :: rest) 0 0 ((get attr e0.ranker).getD V.none)

/-- `Rank(s, rankerf)` with `rankerf = \t (r: t.k, …)` given as the pairs `(r, k)` -/
def rank (a : Rep) (keys : List (String × String)) : Res :=
  if !isTrue a then .ok .empty
  else
    let ts := enumerate a
    if ts.any fun t => keys.any fun rk => !has (tupOf t) rk.2 then .err
    else
      let entries : List Entry := ts.map fun t =>
        ⟨tupOf t, keys.map fun rk => (rk.1, (get rk.2 (tupOf t)).getD V.none)⟩
      let out := (keys.map (·.1)).foldl rankPass entries
      .ok (ofMembers (out.map fun e => V.mkTup e.input))

end Impl

/-! ## Observables -/

def Impl.Res.obs : Impl.Res → String
  | .ok r => (Impl.den r).canon
  | .err => "error"
  | .panic _ => "panic"

def countOf : V → Nat
  | .set xs => xs.length
  | _ => 0

/-- canon and member count -/
def obsCount (v : V) : String := v.canon ++ "#" ++ toString (countOf v)

def Impl.Res.obsCount : Impl.Res → String
  | .ok r => C04.obsCount (Impl.den r)
  | .err => "error"
  | .panic _ => "panic"

end Arrai.C04
