/-
  C04 helper lemmas, part 12: `Rank` on a representation denotes `Spec.rank`.  Core-only.
-/
import Arrai.C04.LemmasNest

namespace Arrai.C04
open Spec Impl

/-! ### the passes as set images -/

/-- one pass's effect on an entry, with the counts taken in `es0` -/
def rankedIn (es0 : List Entry) (attr : String) (r : Entry) : Entry :=
  { r with input := (attr, V.num (Int.ofNat (cnt attr es0 (keyOfEntry attr r)))) ::
      r.input.filter (fun p => p.1 ≠ attr) }

theorem mem_rankPass (es : List Entry) (attr : String) (e' : Entry) :
    e' ∈ rankPass es attr ↔ ∃ e ∈ es, e' = rankedIn es attr e := by
  rw [rankPass_eq, List.mem_map]
  constructor
  · rintro ⟨r, hr, e⟩
    refine ⟨r, (mem_sortBy attr es r).1 hr, ?_⟩
    rw [← e]
    unfold ranked rankedIn
    rw [cnt_sortBy]
  · rintro ⟨r, hr, e⟩
    refine ⟨r, (mem_sortBy attr es r).2 hr, ?_⟩
    rw [e]
    unfold ranked rankedIn
    rw [cnt_sortBy]

theorem mem_foldl_rankPass (es0 : List Entry) (rs : List String) (es : List Entry)
    (hcnt : ∀ r a, cnt r es a = cnt r es0 a) (e' : Entry) :
    e' ∈ rs.foldl rankPass es ↔ ∃ e ∈ es, e' = rs.foldl (fun e r => rankedIn es0 r e) e := by
  induction rs generalizing es with
  | nil => simp
  | cons r rs ih =>
    simp only [List.foldl_cons]
    rw [ih (rankPass es r) (fun r' a => by rw [cnt_rankPass, hcnt])]
    constructor
    · rintro ⟨e1, he1, e⟩
      obtain ⟨e0, he0, e1e⟩ := (mem_rankPass es r e1).1 he1
      refine ⟨e0, he0, ?_⟩
      rw [e, e1e]
      unfold rankedIn
      rw [hcnt]
    · rintro ⟨e0, he0, e⟩
      refine ⟨rankedIn es r e0, (mem_rankPass es r _).2 ⟨e0, he0, rfl⟩, ?_⟩
      rw [e]
      unfold rankedIn
      rw [hcnt]

theorem foldl_ranked_spec (es0 : List Entry) (rs : List String) (e : Entry) (m : String) :
    (rs.foldl (fun e r => rankedIn es0 r e) e).ranker = e.ranker ∧
    get m (rs.foldl (fun e r => rankedIn es0 r e) e).input =
      if rs.contains m then some (V.num (Int.ofNat (cnt m es0 (keyOfEntry m e)))) else get m e.input := by
  induction rs generalizing e with
  | nil => simp
  | cons r rs ih =>
    simp only [List.foldl_cons]
    obtain ⟨h1, h2⟩ := ih (rankedIn es0 r e)
    refine ⟨h1, ?_⟩
    rw [h2]
    have hk : keyOfEntry m (rankedIn es0 r e) = keyOfEntry m e := rfl
    rw [hk, List.contains_cons]
    cases hc : rs.contains m
    · simp only [Bool.or_false, Bool.false_eq_true, if_false]
      show get m ((r, _) :: e.input.filter (fun p => p.1 ≠ r)) = _
      rw [get_cons]
      by_cases e1 : r = m
      · subst e1; simp
      · have : (m == r) = false := by simp; exact fun h => e1 h.symm
        rw [this]
        simp only [e1, if_false, Bool.false_eq_true]
        have := get_filter (fun n => decide (n ≠ r)) m e.input
        simp only [ne_eq] at this
        rw [this]
        have : decide (¬ m = r) = true := by simp; exact fun h => e1 h.symm
        rw [this]; rfl
    · simp

/-! ### the specification on the written rows -/

theorem perm_ins {x : V} {l : List V} (h : x ∉ l) : (FinSet.ins x l).Perm (x :: l) := by
  induction l with
  | nil => exact List.Perm.refl _
  | cons y ys ih =>
    unfold FinSet.ins
    cases hc : V.cmp x y with
    | lt => exact List.Perm.refl _
    | eq =>
      have : x = y := (V.cmp_eq_iff x y).1 hc
      subst this
      exact absurd (by simp) h
    | gt =>
      have hx : x ∉ ys := fun hm => h (List.mem_cons_of_mem _ hm)
      exact ((ih hx).cons y).trans (List.Perm.swap x y ys)

theorem perm_mk {l : List V} (h : l.Nodup) : (FinSet.mk l).Perm l := by
  induction l with
  | nil => exact List.Perm.refl _
  | cons x xs ih =>
    rw [List.nodup_cons] at h
    show (FinSet.ins x (FinSet.mk xs)).Perm _
    have hx : x ∉ FinSet.mk xs := fun hm => h.1 ((FinSet.mem_mk xs x).1 hm)
    exact (perm_ins hx).trans ((ih h.2).cons x)

/-- the rows of the value of canonical, distinct rows are those rows, in some order -/
theorem rowsOf_denRows_perm (R0 : List Tup) (hs : ∀ t ∈ R0, SortedNames t) (hn : R0.Nodup) :
    (rowsOf (denRows R0)).Perm R0 := by
  have hmap : R0.map V.mkTup = R0.map V.tup :=
    List.map_congr_left (fun t ht => mkTup_of_sorted t (hs t ht))
  have hnd : (R0.map V.tup).Nodup := by
    rw [List.Nodup, List.pairwise_map]
    exact hn.imp (fun {a b} hab e => hab (by injection e))
  unfold denRows V.mkSet rowsOf
  rw [hmap]
  have hp := (perm_mk hnd).filterMap (fun x => match x with
    | V.tup as => some as
    | _ => none)
  refine hp.trans ?_
  rw [List.filterMap_map]
  have : ((fun x => match x with
      | V.tup as => some as
      | _ => none) ∘ V.tup) = (some : Tup → Option Tup) := rfl
  rw [this, List.filterMap_some]

theorem rankOf_perm {R R0 : List Tup} (h : R.Perm R0) (k : String) (t : Tup) : rankOf R k t = rankOf R0 k t := by
  unfold rankOf
  exact (h.filter _).length_eq

theorem rank_denRows (R0 : List Tup) (keys : List (String × String)) (hs : ∀ t ∈ R0, SortedNames t)
    (hn : R0.Nodup) : Spec.rank (denRows R0) keys = denRows (rankRows R0 keys) := by
  unfold Spec.rank denRows
  apply mkSet_congr
  intro v
  have hp := rowsOf_denRows_perm R0 hs hn
  unfold denRows at hp
  simp only [rankRows, List.mem_map]
  constructor
  · rintro ⟨t', ⟨t, ht, e1⟩, e2⟩
    refine ⟨_, ⟨t, hp.mem_iff.1 ht, rfl⟩, ?_⟩
    rw [← e2, ← e1]
    congr 2
    apply List.map_congr_left
    intro rk _
    rw [rankOf_perm hp]
  · rintro ⟨t', ⟨t, ht, e1⟩, e2⟩
    refine ⟨_, ⟨t, hp.mem_iff.2 ht, rfl⟩, ?_⟩
    rw [← e2, ← e1]
    congr 2
    apply List.map_congr_left
    intro rk _
    rw [rankOf_perm hp]

/-! ### Rank on a representation -/

/-- the entry `Rank` makes of a row -/
def mkEntry (keys : List (String × String)) (t : V) : Entry :=
  ⟨tupOf t, keys.map fun rk => (rk.1, (get rk.2 (tupOf t)).getD V.none)⟩

theorem get_map_keys (keys : List (String × String)) (f : String → V) (m : String) :
    get m (keys.map fun rk => (rk.1, f rk.2)) =
      match keys.find? (fun rk => rk.1 == m) with
      | some rk => some (f rk.2)
      | none => none := by
  induction keys with
  | nil => rfl
  | cons rk rest ih =>
    simp only [List.map_cons, get_cons, List.find?_cons]
    by_cases e : rk.1 = m
    · simp [e]
    · have : (rk.1 == m) = false := by simp [e]
      simp [e, this, ih]

theorem contains_map_fst (keys : List (String × String)) (m : String) :
    (keys.map (·.1)).contains m = (keys.find? (fun rk => rk.1 == m)).isSome := by
  induction keys with
  | nil => rfl
  | cons rk rest ih =>
    simp only [List.map_cons, List.contains_cons, List.find?_cons, ih]
    by_cases e : rk.1 = m
    · subst e; simp
    · have h1 : (rk.1 == m) = false := by simp [e]
      have h2 : (m == rk.1) = false := by simp; exact fun h => e h.symm
      simp [h1, h2]

theorem cnt_entries (keys : List (String × String)) (ts : List V) (m k : String)
    (hfind : keys.find? (fun rk => rk.1 == m) = some (m', k)) (t : V) :
    cnt m (ts.map (mkEntry keys)) (keyOfEntry m (mkEntry keys t)) = rankOf (ts.map tupOf) k (tupOf t) := by
  have hkey : ∀ u : V, keyOfEntry m (mkEntry keys u) = (get k (tupOf u)).getD V.none := by
    intro u
    unfold keyOfEntry mkEntry
    simp only
    rw [get_map_keys keys (fun k' => (get k' (tupOf u)).getD V.none) m, hfind]
    rfl
  unfold cnt rankOf
  rw [List.filter_map, List.length_map, List.filter_map, List.length_map]
  congr 1
  apply List.filter_congr
  intro u _
  simp only [Function.comp, hkey]

theorem rank_rep_refines (a : Rep) (relAttrs : Names) (keys : List (String × String)) (wa : RepWF a)
    (ha : relationAttrs a = some relAttrs) (hnd : (enumerate a).Nodup)
    (hkeys : ∀ rk ∈ keys, relAttrs.contains rk.2 = true) :
    ∃ res, Impl.rank a keys = .ok res ∧ den res = Spec.rank (den a) keys := by
  have hxs := wfMembers_enumerate a relAttrs wa ha
  unfold Impl.rank
  by_cases ht : Impl.isTrue a = true
  · simp only [ht, Bool.not_true, Bool.false_eq_true, if_false]
    -- every row has every key attribute
    have hnone : ((enumerate a).any fun t => keys.any fun rk => !has (tupOf t) rk.2) = false := by
      rw [Bool.eq_false_iff]
      intro h
      rw [List.any_eq_true] at h
      obtain ⟨t, ht', h⟩ := h
      rw [List.any_eq_true] at h
      obtain ⟨rk, hrk, h⟩ := h
      rw [(hxs t ht').2, hkeys rk hrk] at h
      simp at h
    rw [hnone]
    simp only [Bool.false_eq_true, if_false]
    refine ⟨_, rfl, ?_⟩
    -- the members of the result
    have hcanon : ∀ x ∈ (List.foldl rankPass ((enumerate a).map fun t =>
        (⟨tupOf t, keys.map fun rk => (rk.1, (get rk.2 (tupOf t)).getD V.none)⟩ : Entry))
        (keys.map (·.1))).map (fun e => V.mkTup e.input), CanonT x := by
      intro x hx
      obtain ⟨e, _, ex⟩ := List.mem_map.1 hx
      rw [← ex]; exact canonT_mkTup _
    rw [den_ofMembers _ hcanon, den_eq_denRows a relAttrs wa ha]
    have hR0s : ∀ t ∈ (enumerate a).map tupOf, SortedNames t := by
      intro t ht'
      obtain ⟨x, hx, e⟩ := List.mem_map.1 ht'
      rw [← e]; exact sorted_tupOf (hxs x hx).1
    have hR0n : ((enumerate a).map tupOf).Nodup := by
      rw [List.Nodup, List.pairwise_map]
      refine hnd.imp_of_mem ?_
      intro x y hx hy hne e
      apply hne
      rw [← mkTup_tupOf (hxs x hx).1, ← mkTup_tupOf (hxs y hy).1, e]
    rw [rank_denRows _ keys hR0s hR0n]
    unfold denRows
    apply mkSet_congr
    intro v
    have hent : ((enumerate a).map fun t =>
        (⟨tupOf t, keys.map fun rk => (rk.1, (get rk.2 (tupOf t)).getD V.none)⟩ : Entry)) =
        (enumerate a).map (mkEntry keys) := rfl
    rw [hent]
    simp only [List.mem_map, rankRows]
    -- the tuple of a row after all passes is the specified one
    have hrow : ∀ t ∈ enumerate a,
        V.mkTup ((keys.map (·.1)).foldl (fun e r => rankedIn ((enumerate a).map (mkEntry keys)) r e)
          (mkEntry keys t)).input =
        V.mkTup ((keys.map fun rk => (rk.1, V.num (Int.ofNat (rankOf ((enumerate a).map tupOf) rk.2 (tupOf t)))))
          ++ tupOf t) := by
      intro t _
      apply mkTup_congr
      intro m
      rw [(foldl_ranked_spec _ (keys.map (·.1)) (mkEntry keys t) m).2, contains_map_fst, get_append,
        get_map_keys keys (fun k => V.num (Int.ofNat (rankOf ((enumerate a).map tupOf) k (tupOf t)))) m]
      cases hf : keys.find? (fun rk => rk.1 == m) with
      | none => rfl
      | some rk =>
        obtain ⟨m', k⟩ := rk
        simp only [Option.isSome_some, if_true]
        rw [cnt_entries keys (enumerate a) m k hf t]
    constructor
    · rintro ⟨e', he', ev⟩
      obtain ⟨e, he, ee⟩ := (mem_foldl_rankPass _ (keys.map (·.1)) _ (fun _ _ => rfl) e').1 he'
      obtain ⟨t, ht', et⟩ := List.mem_map.1 he
      refine ⟨_, ⟨tupOf t, ⟨t, ht', rfl⟩, rfl⟩, ?_⟩
      rw [← ev, ee, ← et]
      exact (hrow t ht').symm
    · rintro ⟨t', ⟨tt, ⟨t, ht', ett⟩, et'⟩, ev⟩
      refine ⟨(keys.map (·.1)).foldl (fun e r => rankedIn ((enumerate a).map (mkEntry keys)) r e) (mkEntry keys t),
        (mem_foldl_rankPass _ (keys.map (·.1)) _ (fun _ _ => rfl) _).2
          ⟨mkEntry keys t, List.mem_map.2 ⟨t, ht', rfl⟩, rfl⟩, ?_⟩
      rw [← ev, ← et', ← ett]
      exact hrow t ht'
  · have ht' : Impl.isTrue a = false := by cases h : Impl.isTrue a <;> simp_all
    simp only [ht', Bool.not_false, if_true]
    refine ⟨.empty, rfl, ?_⟩
    unfold den
    rw [isTrue_false_enumerate ht']
    rfl

end Arrai.C04
