/-
  C04 helper lemmas, part 9: `Relation.Join` refines the specification.  Core-only.
-/
import Arrai.C04.LemmasFinal

namespace Arrai.C04
open Spec Impl

section outTuple
variable (op : JoinOp) (A1 A2 : Names) (l r' : Row)
variable (hl : l.length = A1.length) (hr : r'.length = A2.length)

theorem mem_intersect (n : String) : n ∈ intersect A1 A2 ↔ A1.contains n = true ∧ A2.contains n = true := by
  rw [← List.contains_iff_mem, contains_intersect]
  unfold cY
  simp

include hl hr in
theorem keys_agree :
    project ((intersect A1 A2).map (idxOf A1)) l = project ((intersect A1 A2).map (idxOf A2)) r' ↔
      agree (A1.zip l) (A2.zip r') = true := by
  have c1 : ∀ n ∈ intersect A1 A2, n ∈ A1 := fun n hn =>
    List.contains_iff_mem.1 ((mem_intersect A1 A2 n).1 hn).1
  have c2 : ∀ n ∈ intersect A1 A2, n ∈ A2 := fun n hn =>
    List.contains_iff_mem.1 ((mem_intersect A1 A2 n).1 hn).2
  have hL : ∀ n, has (A1.zip l) n = A1.contains n := fun n => get_zip A1 l n hl
  have hR : ∀ n, has (A2.zip r') n = A2.contains n := fun n => get_zip A2 r' n hr
  rw [project_names c1 hl, project_names c2 hr,
    vals_eq_iff (fun n hn => by rw [hL]; exact ((mem_intersect A1 A2 n).1 hn).1)
      (fun n hn => by rw [hR]; exact ((mem_intersect A1 A2 n).1 hn).2), agree_iff]
  constructor
  · intro h n v w hv hw
    have h1 : A1.contains n = true := by rw [← hL]; exact (has_true_iff _ n).2 ⟨v, hv⟩
    have h2 : A2.contains n = true := by rw [← hR]; exact (has_true_iff _ n).2 ⟨w, hw⟩
    have := h n ((mem_intersect A1 A2 n).2 ⟨h1, h2⟩)
    rw [hv, hw] at this
    injection this
  · intro h n hn
    obtain ⟨h1, h2⟩ := (mem_intersect A1 A2 n).1 hn
    obtain ⟨v, hv⟩ := (has_true_iff _ n).1 (by rw [hL]; exact h1)
    obtain ⟨w, hw⟩ := (has_true_iff _ n).1 (by rw [hR]; exact h2)
    rw [hv, hw, h n v w hv hw]

include hl hr in
/-- an output row, read through the output heading, is the tuple the operator specifies -/
theorem out_tuple (hag : agree (A1.zip l) (A2.zip r') = true) :
    let lo := (partitionNames op A1 A2 (intersect A1 A2)).1
    let ro := (partitionNames op A1 A2 (intersect A1 A2)).2
    (lo ++ ro).zip (project (lo.map (idxOf A1)) l ++ project (ro.map (idxOf A2)) r') ≃
      joined op (A1.zip l) (A2.zip r') := by
  intro lo ro
  have hsh := partition_shape A1 A2 op
  have hlo : LoShape A1 A2 _ _ lo := hsh.1
  have hro : LoShape A2 A1 _ _ ro := roShape_of_shape hsh
  have loA1 : ∀ n ∈ lo, n ∈ A1 := fun n hn => shape_sub_A1 hlo n hn
  have roA2 : ∀ n ∈ ro, n ∈ A2 := fun n hn => shape_sub_A1 hro n hn
  have hL : ∀ n, has (A1.zip l) n = A1.contains n := fun n => get_zip A1 l n hl
  have hR : ∀ n, has (A2.zip r') n = A2.contains n := fun n => get_zip A2 r' n hr
  have hasLo : ∀ m ∈ lo, has (A1.zip l) m = true := fun m hm => by
    rw [hL]; exact List.contains_iff_mem.2 (loA1 m hm)
  have hasRo : ∀ m ∈ ro, has (A2.zip r') m = true := fun m hm => by
    rw [hR]; exact List.contains_iff_mem.2 (roA2 m hm)
  rw [project_names loA1 hl, project_names roA2 hr]
  intro n
  rw [List.zip_append (by rw [vals_length]), get_append, get_zip_vals n hasLo, get_zip_vals n hasRo,
    get_joined]
  -- everything is a Boolean function of the membership of `n` in the two headings
  have e1 := hsh.1 n
  have e2 := hsh.2 n
  have hsel : sel op (A1.zip l) (A2.zip r') n =
      ((op.keepL && cX A1 A2 n) || (op.keepC && cY A1 A2 n) || (op.keepR && cZ A1 A2 n)) := by
    unfold sel cX cY cZ; rw [hL, hR]
    cases A1.contains n <;> cases A2.contains n <;> simp
  have hfs := flags_select op (isSubset A1 A2) (isSubset A2 A1) (cX A1 A2 n) (cZ A1 A2 n) (cY A1 A2 n)
    (fun h => (ex_iff A1 A2).1 h n) (fun h => (ez_iff A1 A2).1 h n)
  have hdis := flags_disjoint op (isSubset A1 A2) (isSubset A2 A1)
  have hagn := (agree_iff _ _).1 hag n
  have hLn : A1.contains n = false → get n (A1.zip l) = none :=
    fun h => (has_false_iff _ n).1 (by rw [hL]; exact h)
  have hRn : A2.contains n = false → get n (A2.zip r') = none :=
    fun h => (has_false_iff _ n).1 (by rw [hR]; exact h)
  have hLs : A1.contains n = true → ∃ v, get n (A1.zip l) = some v :=
    fun h => (has_true_iff _ n).1 (by rw [hL]; exact h)
  have hRs : A2.contains n = true → ∃ v, get n (A2.zip r') = some v :=
    fun h => (has_true_iff _ n).1 (by rw [hR]; exact h)
  rw [e1, e2, hsel, ← hfs]
  unfold has
  generalize (flagsOf op (isSubset A1 A2) (isSubset A2 A1)).fX = fX at *
  generalize (flagsOf op (isSubset A1 A2) (isSubset A2 A1)).fY = fY at *
  generalize (flagsOf op (isSubset A1 A2) (isSubset A2 A1)).gY = gY at *
  generalize (flagsOf op (isSubset A1 A2) (isSubset A2 A1)).gZ = gZ at *
  unfold cX cY cZ
  cases h1 : A1.contains n <;> cases h2 : A2.contains n
  · rw [hLn h1, hRn h2]; simp
  · rw [hLn h1]; simp
  · rw [hRn h2]
    obtain ⟨v, hv⟩ := hLs h1
    rw [hv]
    cases fX <;> simp
  · obtain ⟨v, hv⟩ := hLs h1
    obtain ⟨w, hw⟩ := hRs h2
    have : v = w := hagn v w hv hw
    subst this
    rw [hv, hw]
    cases fY <;> cases gY <;> simp

end outTuple

theorem enumerate_relation' (attrs : Names) (rows : List Row) (h : ∀ row ∈ rows, row.length = attrs.length) :
    den (.relation ⟨attrs, List.range attrs.length, rows⟩) = denRows (rows.map fun row => attrs.zip row) := by
  unfold den denRows
  show V.mkSet (List.map (valuesToTuple attrs (List.range attrs.length)) rows) = _
  rw [List.map_map]
  congr 1
  apply List.map_congr_left
  intro row hrow
  exact valuesToTuple_identity attrs row (h row hrow)

/-- the rows `positionalRelation.Join` returns for the partition of an operator denote the specified rows -/
theorem matched_eqv (op : JoinOp) (r1 r2 : Relation) (w1 : RelWF r1) (w2 : RelWF r2) (rows : List Row)
    (hmem : ∀ x, x ∈ rows ↔ Matched r1.rows r2.rows
      ((intersect r1.attrs r2.attrs).map (idxOf r1.attrs)) ((intersect r1.attrs r2.attrs).map (idxOf r2.attrs))
      ((partitionNames op r1.attrs r2.attrs (intersect r1.attrs r2.attrs)).1.map (idxOf r1.attrs))
      ((partitionNames op r1.attrs r2.attrs (intersect r1.attrs r2.attrs)).2.map (idxOf r2.attrs)) x) :
    let H := (partitionNames op r1.attrs r2.attrs (intersect r1.attrs r2.attrs)).1 ++
      (partitionNames op r1.attrs r2.attrs (intersect r1.attrs r2.attrs)).2
    RelEqv (rows.map fun row => H.zip row) (joinRows op (relTups r1) (relTups r2)) ∧
      ∀ x ∈ rows, x.length = H.length := by
  intro H
  have hsh := partition_shape r1.attrs r2.attrs op
  have hlo : LoShape r1.attrs r2.attrs _ _ _ := hsh.1
  have hro : LoShape r2.attrs r1.attrs _ _ _ := roShape_of_shape hsh
  refine ⟨⟨?_, ?_⟩, ?_⟩
  · intro t ht
    obtain ⟨x, hx, e⟩ := List.mem_map.1 ht
    obtain ⟨l, hl, r', hr', hk, ex⟩ := (hmem x).1 hx
    have hll := w1.2.2.1 l hl
    have hrl := w2.2.2.1 r' hr'
    have hag := (keys_agree r1.attrs r2.attrs l r' hll hrl).1 hk
    refine ⟨joined op (r1.attrs.zip l) (r2.attrs.zip r'), ?_, ?_⟩
    · exact (mem_joinRows op _ _ _).2 ⟨_, List.mem_map.2 ⟨l, hl, rfl⟩, _, List.mem_map.2 ⟨r', hr', rfl⟩, hag, rfl⟩
    · rw [← e, ex]
      exact out_tuple op r1.attrs r2.attrs l r' hll hrl hag
  · intro t ht
    obtain ⟨tL, htL, tR, htR, hag, e⟩ := (mem_joinRows op _ _ t).1 ht
    obtain ⟨l, hl, el⟩ := List.mem_map.1 htL
    obtain ⟨r', hr', er⟩ := List.mem_map.1 htR
    subst el; subst er
    have hll := w1.2.2.1 l hl
    have hrl := w2.2.2.1 r' hr'
    have hk := (keys_agree r1.attrs r2.attrs l r' hll hrl).2 hag
    refine ⟨H.zip _, List.mem_map.2 ⟨_, (hmem _).2 ⟨l, hl, r', hr', hk, rfl⟩, rfl⟩, ?_⟩
    rw [e]
    exact out_tuple op r1.attrs r2.attrs l r' hll hrl hag
  · intro x hx
    obtain ⟨l, hl, r', hr', _, ex⟩ := (hmem x).1 hx
    have hll := w1.2.2.1 l hl
    have hrl := w2.2.2.1 r' hr'
    rw [ex, project_names (fun n hn => shape_sub_A1 hlo n hn) hll,
      project_names (fun n hn => shape_sub_A1 hro n hn) hrl]
    simp [H, vals_length]

end Arrai.C04
