/-
  C04 helper lemmas, part 13: `Unnest` (Reduce over the whole tuple as key) and `SingleAttrNest` on a
  representation denote their specifications.  Core-only.
-/
import Arrai.C04.LemmasRank

namespace Arrai.C04
open Spec Impl

/-- projecting a well-formed member onto its own heading gives the member back -/
theorem projectT_self {key : Names} {xs : List V} (hxs : WFMembers key xs) {x : V} (hx : x ∈ xs) :
    projectT key x = some x := by
  have hall : ∀ n ∈ key, has (tupOf x) n = true := fun n hn => by
    rw [(hxs x hx).2]; exact List.contains_iff_mem.2 hn
  rw [projectT_some hall]
  congr 1
  refine Eq.trans (mkTup_congr ?_) (mkTup_tupOf (hxs x hx).1)
  intro m
  rw [get_projected _ _ _ hall]
  cases hc : key.contains m
  · have : has (tupOf x) m = false := by rw [(hxs x hx).2]; exact hc
    simp [(has_false_iff _ m).1 this]
  · rfl

/-- the rows an operand must have for `unnest attr`: `attr` holds a set of canonical tuples each of which
merges with the rest of its row -/
def Unnestable (attr : String) (xs : List V) : Prop :=
  ∀ x ∈ xs, ∃ ys, get attr (tupOf x) = some (.set ys) ∧
    ∀ s ∈ ys, CanonT s ∧ agree ((tupOf x).filter fun p => p.1 ≠ attr) (tupOf s) = true

theorem mergeT_rest {attr : String} {x s : V} (cs : CanonT s)
    (hag : agree ((tupOf x).filter fun p => p.1 ≠ attr) (tupOf s) = true) :
    mergeT (V.mkTup ((tupOf x).filter fun p => p.1 ≠ attr)) s =
      some (V.mkTup (merge (tupOf (V.mkTup ((tupOf x).filter fun p => p.1 ≠ attr))) (tupOf s))) := by
  apply mergeT_eq _ _ (canonT_mkTup _)
  rw [agree_congr (fun n => get_tupOf_mkTup _ n) (Eqv.refl (tupOf s))]
  exact hag

theorem rowsOf_set_canon (ys : List V) (h : ∀ s ∈ ys, CanonT s) : rowsOf (.set ys) = ys.map tupOf := by
  induction ys with
  | nil => rfl
  | cons y r ih =>
    obtain ⟨as, e, _⟩ := h y (by simp)
    subst e
    have ih' := ih (fun s hs => h s (List.mem_cons_of_mem _ hs))
    show as :: rowsOf (.set r) = as :: r.map tupOf
    rw [ih']

theorem unnest_rep_refines (a : Rep) (relAttrs : Names) (attr : String) (wa : RepWF a)
    (ha : relationAttrs a = some relAttrs) (hattr : relAttrs.contains attr = true)
    (hu : Unnestable attr (enumerate a)) :
    ∃ res, Impl.unnest a attr = .ok res ∧ den res = Spec.unnest (den a) attr := by
  have hxs := wfMembers_enumerate a relAttrs wa ha
  unfold Impl.unnest
  simp only [ha, hattr, Bool.not_true, Bool.false_eq_true, if_false]
  -- no row is bad
  have hbad : (enumerate a).any (unnestBad attr) = false := by
    rw [Bool.eq_false_iff]
    intro h
    rw [List.any_eq_true] at h
    obtain ⟨x, hx, hb⟩ := h
    obtain ⟨ys, hg, hys⟩ := hu x hx
    unfold unnestBad at hb
    rw [hg] at hb
    simp only [List.any_eq_true] at hb
    obtain ⟨s, hs, hb⟩ := hb
    obtain ⟨⟨as, e, sas⟩, hag⟩ := hys s hs
    subst e
    simp only [] at hb
    rw [mergeT_rest ⟨as, rfl, sas⟩ hag] at hb
    simp at hb
  rw [hbad]
  simp only [Bool.false_eq_true, if_false]
  -- the members of the reduction
  have hmem : ∀ m, m ∈ reduce (enumerate a) (projectT relAttrs) (unnestGroup attr) ↔
      ∃ x ∈ enumerate a, ∃ s ∈ rowsOf ((get attr (tupOf x)).getD V.none), m = some (V.mkTup
        (merge (tupOf (V.mkTup ((tupOf x).filter fun p => p.1 ≠ attr))) s)) := by
    intro m
    rw [mem_reduce]
    constructor
    · rintro ⟨x, hx, hm⟩
      obtain ⟨ys, hg, hys⟩ := hu x hx
      rw [projectT_self hxs hx] at hm
      unfold unnestGroup at hm
      simp only [hg, List.mem_map] at hm
      obtain ⟨s, hs, e⟩ := hm
      refine ⟨x, hx, tupOf s, ?_, ?_⟩
      · rw [hg]; simp only [Option.getD_some]
        rw [rowsOf_set_canon ys (fun s hs => (hys s hs).1)]
        exact List.mem_map.2 ⟨s, hs, rfl⟩
      · rw [← e, mergeT_rest (hys s hs).1 (hys s hs).2]
    · rintro ⟨x, hx, s', hs', e⟩
      obtain ⟨ys, hg, hys⟩ := hu x hx
      rw [hg] at hs'
      simp only [Option.getD_some] at hs'
      rw [rowsOf_set_canon ys (fun s hs => (hys s hs).1)] at hs'
      obtain ⟨s, hs, es⟩ := List.mem_map.1 hs'
      refine ⟨x, hx, ?_⟩
      rw [projectT_self hxs hx]
      unfold unnestGroup
      simp only [hg, List.mem_map]
      exact ⟨s, hs, by rw [e, ← es, mergeT_rest (hys s hs).1 (hys s hs).2]⟩
  have hsome : ∀ m ∈ reduce (enumerate a) (projectT relAttrs) (unnestGroup attr), m.isSome = true := by
    intro m hm
    obtain ⟨x, _, s, _, e⟩ := (hmem m).1 hm
    rw [e]; rfl
  refine ⟨_, finish_ok _ hsome, ?_⟩
  have hcanon : ∀ z ∈ (reduce (enumerate a) (projectT relAttrs) (unnestGroup attr)).filterMap id, CanonT z := by
    intro z hz
    rw [List.mem_filterMap] at hz
    obtain ⟨m, hm, e⟩ := hz
    obtain ⟨x, _, s, _, e'⟩ := (hmem m).1 hm
    rw [e'] at e
    have e := Option.some.inj e
    rw [← e]; exact canonT_mkTup _
  rw [den_ofMembers _ hcanon, mkSet_eq_denRows _ hcanon, den_eq_denRows a relAttrs wa ha, unnest_denRows]
  apply denRows_congr
  have hrest : ∀ x : V, tupOf (V.mkTup ((tupOf x).filter fun p => p.1 ≠ attr)) ≃
      restrict (fun m => m ≠ attr) (tupOf x) := by
    intro x n
    rw [get_tupOf_mkTup]
    rfl
  constructor
  · intro t ht
    obtain ⟨z, hz, e⟩ := List.mem_map.1 ht
    rw [List.mem_filterMap] at hz
    obtain ⟨m, hm, em⟩ := hz
    obtain ⟨x, hx, s, hs, e'⟩ := (hmem m).1 hm
    rw [e'] at em
    have em := Option.some.inj em
    refine ⟨merge (restrict (fun m => m ≠ attr) (tupOf x)) s,
      (mem_unnestRows _ attr _).2 ⟨tupOf x, List.mem_map.2 ⟨x, hx, rfl⟩, s, hs, rfl⟩, ?_⟩
    rw [← e, ← em]
    intro n
    rw [get_tupOf_mkTup]
    exact merge_congr (hrest x) (Eqv.refl s) n
  · intro t ht
    obtain ⟨tx, htx, s, hs, e⟩ := (mem_unnestRows _ attr t).1 ht
    obtain ⟨x, hx, ex⟩ := List.mem_map.1 htx
    subst ex
    refine ⟨tupOf (V.mkTup (merge (tupOf (V.mkTup ((tupOf x).filter fun p => p.1 ≠ attr))) s)), ?_, ?_⟩
    · refine List.mem_map.2 ⟨_, ?_, rfl⟩
      rw [List.mem_filterMap]
      exact ⟨_, (hmem _).2 ⟨x, hx, s, hs, rfl⟩, rfl⟩
    · rw [e]
      intro n
      rw [get_tupOf_mkTup]
      exact merge_congr (hrest x) (Eqv.refl s) n

end Arrai.C04

namespace Arrai.C04
open Spec Impl

/-! ### SingleAttrNest -/

theorem singleNestRows_congr {A A' : List Tup} (a : String) (h : RelEqv A A') :
    RelEqv (singleNestRows A a) (singleNestRows A' a) := by
  have key : ∀ {t t' : Tup}, t ≃ t' → keyOf [a] t = keyOf [a] t' := by
    intro t t' e
    rw [keyOf_eq_iff]; intro m _; exact e m
  have nested : ∀ {t t' : Tup}, t ≃ t' →
      V.mkSet ((group A [a] t).filterMap fun u => get a u) =
      V.mkSet ((group A' [a] t').filterMap fun u => get a u) := by
    intro t t' e
    apply mkSet_congr
    intro v
    simp only [List.mem_filterMap, mem_group]
    constructor
    · rintro ⟨u, ⟨hu1, hu2⟩, hv⟩
      obtain ⟨u', hu', eu⟩ := h.1 u hu1
      exact ⟨u', ⟨hu', by rw [← key eu, hu2, key e]⟩, by rw [← eu a]; exact hv⟩
    · rintro ⟨u', ⟨hu1, hu2⟩, hv⟩
      obtain ⟨u, hu, eu⟩ := h.2 u' hu1
      exact ⟨u, ⟨hu, by rw [key eu, hu2, key e]⟩, by rw [eu a]; exact hv⟩
  unfold singleNestRows
  constructor
  · intro x hx
    obtain ⟨t, ht, ex⟩ := List.mem_map.1 hx
    obtain ⟨t', ht', et⟩ := h.1 t ht
    refine ⟨_, List.mem_map.2 ⟨t', ht', rfl⟩, ?_⟩
    rw [← ex]
    intro m
    rw [get_cons, get_cons, nested et, restrict_congr _ et m]
  · intro x hx
    obtain ⟨t', ht', ex⟩ := List.mem_map.1 hx
    obtain ⟨t, ht, et⟩ := h.2 t' ht'
    refine ⟨_, List.mem_map.2 ⟨t, ht, rfl⟩, ?_⟩
    rw [← ex]
    intro m
    rw [get_cons, get_cons, nested et, restrict_congr _ et m]

section single
variable (relAttrs : Names) (attr : String) (hattr : relAttrs.contains attr = true)

/-- the member `nestGroup` builds for the bucket of `x` when a single attribute is nested -/
def singleMember (xs : List V) (x : V) : Tup :=
  merge (projected (minus relAttrs [attr]) (tupOf x))
    [(attr, V.mkSet ((xs.filter fun v => decide (projectT (minus relAttrs [attr]) v =
        projectT (minus relAttrs [attr]) x)).map fun t => (get attr (tupOf t)).getD V.none))]

theorem minus_single_contains (n : String) :
    (minus relAttrs [attr]).contains n = (relAttrs.contains n && !(n == attr)) := by
  rw [contains_minus']
  simp only [List.contains_cons, List.contains_nil, Bool.or_false]

include hattr in
theorem singleGroup_member (xs : List V) (hxs : WFMembers relAttrs xs) (x : V) (hx : x ∈ xs) :
    nestGroup attr (fun t => get attr (tupOf t)) (projectT (minus relAttrs [attr]) x)
      (xs.filter fun v => decide (projectT (minus relAttrs [attr]) v = projectT (minus relAttrs [attr]) x)) =
      [some (V.mkTup (singleMember relAttrs attr xs x))] := by
  have hkeyhas : ∀ y ∈ xs, ∀ n ∈ minus relAttrs [attr], has (tupOf y) n = true := by
    intro y hy n hn
    rw [(hxs y hy).2]
    have := (minus_single_contains relAttrs attr n).symm ▸ List.contains_iff_mem.2 hn
    cases h : relAttrs.contains n
    · rw [h] at this; simp at this
    · rfl
  have hget : ∀ y ∈ xs, get attr (tupOf y) = some ((get attr (tupOf y)).getD V.none) := by
    intro y hy
    obtain ⟨v, hv⟩ := (has_true_iff _ attr).1 (by rw [(hxs y hy).2]; exact hattr)
    rw [hv]; rfl
  rw [projectT_some (hkeyhas x hx)]
  unfold nestGroup
  simp only []
  have hmap : ∀ (l : List V), (∀ y ∈ l, y ∈ xs) →
      l.map (fun t => get attr (tupOf t)) = l.map fun t => some ((get attr (tupOf t)).getD V.none) := by
    intro l hl
    apply List.map_congr_left
    intro y hy
    exact hget y (hl y hy)
  have hbucket : ∀ y ∈ xs.filter (fun v => decide (projectT (minus relAttrs [attr]) v =
      some (V.mkTup (projected (minus relAttrs [attr]) (tupOf x))))), y ∈ xs :=
    fun y hy => (List.mem_filter.1 hy).1
  rw [hmap _ hbucket]
  obtain ⟨hany, hfm⟩ := finish_map_some' (xs.filter (fun v => decide (projectT (minus relAttrs [attr]) v =
      some (V.mkTup (projected (minus relAttrs [attr]) (tupOf x)))))) (fun t => (get attr (tupOf t)).getD V.none)
  rw [hany, hfm]
  simp only [Bool.false_eq_true, if_false]
  have hclash : (minus relAttrs [attr]).contains attr = false := by
    rw [minus_single_contains]; simp
  have hag : agree (tupOf (V.mkTup (projected (minus relAttrs [attr]) (tupOf x))))
      (tupOf (V.mkTup [(attr, V.mkSet ((xs.filter (fun v => decide (projectT (minus relAttrs [attr]) v =
        some (V.mkTup (projected (minus relAttrs [attr]) (tupOf x)))))).map
          fun t => (get attr (tupOf t)).getD V.none))])) = true := by
    rw [agree_iff]
    intro n v w hv hw
    rw [get_tupOf_mkTup, get_projected _ _ _ (hkeyhas x hx)] at hv
    rw [get_tupOf_mkTup, get_cons] at hw
    by_cases e : attr = n
    · subst e; rw [hclash] at hv; simp at hv
    · simp [e] at hw
  rw [mergeT_eq _ _ (canonT_mkTup _) hag]
  congr 2
  apply mkTup_congr
  intro n
  unfold singleMember
  rw [get_merge, get_merge, has_tupOf_mkTup, get_tupOf_mkTup, get_tupOf_mkTup, projectT_some (hkeyhas x hx)]

include hattr in
theorem get_singleMember (xs : List V) (hxs : WFMembers relAttrs xs) (x : V) (hx : x ∈ xs) :
    singleMember relAttrs attr xs x ≃
      (attr, V.mkSet ((group (xs.map tupOf) [attr] (tupOf x)).filterMap fun u => get attr u)) ::
        restrict (fun m => !([attr].contains m)) (tupOf x) := by
  have hkeyhas : ∀ y ∈ xs, ∀ n ∈ minus relAttrs [attr], has (tupOf y) n = true := by
    intro y hy n hn
    rw [(hxs y hy).2]
    have := (minus_single_contains relAttrs attr n).symm ▸ List.contains_iff_mem.2 hn
    cases h : relAttrs.contains n
    · rw [h] at this; simp at this
    · rfl
  have hkeq : ∀ y ∈ xs, (projectT (minus relAttrs [attr]) y = projectT (minus relAttrs [attr]) x ↔
      keyOf [attr] (tupOf y) = keyOf [attr] (tupOf x)) := by
    intro y hy
    rw [projectT_eq_iff (hkeyhas y hy) (hkeyhas x hx), keyOf_eq_iff]
    constructor
    · intro h m hm
      cases hr : relAttrs.contains m
      · rw [(has_false_iff _ m).1 (by rw [(hxs y hy).2]; exact hr),
          (has_false_iff _ m).1 (by rw [(hxs x hx).2]; exact hr)]
      · exact h m (List.contains_iff_mem.1 (by rw [contains_minus', hr, hm]; rfl))
    · intro h n hn
      have := (contains_minus' relAttrs [attr] n).symm ▸ List.contains_iff_mem.2 hn
      apply h n
      cases ha : [attr].contains n
      · rfl
      · rw [ha] at this; simp at this
  have hnested : V.mkSet ((xs.filter fun v => decide (projectT (minus relAttrs [attr]) v =
        projectT (minus relAttrs [attr]) x)).map fun t => (get attr (tupOf t)).getD V.none) =
      V.mkSet ((group (xs.map tupOf) [attr] (tupOf x)).filterMap fun u => get attr u) := by
    apply mkSet_congr
    intro v
    simp only [List.mem_map, List.mem_filter, List.mem_filterMap, decide_eq_true_eq, mem_group]
    constructor
    · rintro ⟨y, ⟨hy, hk⟩, e⟩
      obtain ⟨w, hw⟩ := (has_true_iff _ attr).1 (by rw [(hxs y hy).2]; exact hattr)
      refine ⟨tupOf y, ⟨⟨y, hy, rfl⟩, (hkeq y hy).1 hk⟩, ?_⟩
      rw [← e, hw]; rfl
    · rintro ⟨u, ⟨⟨y, hy, ey⟩, hk⟩, e⟩
      subst ey
      refine ⟨y, ⟨hy, (hkeq y hy).2 hk⟩, ?_⟩
      rw [e]; rfl
  intro m
  unfold singleMember
  rw [hnested, get_merge]
  unfold has
  rw [get_projected _ _ _ (hkeyhas x hx)]
  simp only [get_cons, get_nil, get_restrict, minus_single_contains]
  by_cases e : attr = m
  · subst e; simp
  · have h1 : (m == attr) = false := by simp; exact fun h => e h.symm
    simp only [e, if_false, h1, Bool.not_false, Bool.and_true, List.contains_cons, List.contains_nil,
      Bool.or_false]
    cases hr : relAttrs.contains m
    · simp [(has_false_iff _ m).1 (by rw [(hxs x hx).2]; exact hr)]
    · cases get m (tupOf x) <;> simp

end single

theorem singleNest_rep_refines (a : Rep) (relAttrs : Names) (attr : String) (wa : RepWF a)
    (ha : relationAttrs a = some relAttrs) (hattr : relAttrs.contains attr = true) :
    ∃ res, Impl.singleAttrNest a relAttrs attr = .ok res ∧ den res = Spec.singleNest (den a) attr := by
  have hxs := wfMembers_enumerate a relAttrs wa ha
  have hsub : isSubset [attr] relAttrs = true := by
    unfold isSubset
    simp only [List.all_cons, List.all_nil, Bool.and_true]
    exact hattr
  unfold Impl.singleAttrNest nestWithFunc
  by_cases ht : Impl.isTrue a = true
  · simp only [ht, Bool.not_true, Bool.false_eq_true, if_false, hsub]
    have hmem : ∀ m, m ∈ reduce (enumerate a) (projectT (minus relAttrs [attr]))
        (nestGroup attr fun t => get attr (tupOf t)) ↔
        ∃ x ∈ enumerate a, m = some (V.mkTup (singleMember relAttrs attr (enumerate a) x)) := by
      intro m
      rw [mem_reduce]
      constructor
      · rintro ⟨x, hx, hm⟩
        rw [singleGroup_member relAttrs attr hattr _ hxs x hx] at hm
        exact ⟨x, hx, by simpa using hm⟩
      · rintro ⟨x, hx, e⟩
        refine ⟨x, hx, ?_⟩
        rw [singleGroup_member relAttrs attr hattr _ hxs x hx, e]
        simp
    have hsome : ∀ m ∈ reduce (enumerate a) (projectT (minus relAttrs [attr]))
        (nestGroup attr fun t => get attr (tupOf t)), m.isSome = true := by
      intro m hm
      obtain ⟨x, _, e⟩ := (hmem m).1 hm
      rw [e]; rfl
    refine ⟨_, finish_ok _ hsome, ?_⟩
    have hcanon : ∀ z ∈ (reduce (enumerate a) (projectT (minus relAttrs [attr]))
        (nestGroup attr fun t => get attr (tupOf t))).filterMap id, CanonT z := by
      intro z hz
      rw [List.mem_filterMap] at hz
      obtain ⟨m, hm, e⟩ := hz
      obtain ⟨x, _, e'⟩ := (hmem m).1 hm
      rw [e'] at e
      have e := Option.some.inj e
      rw [← e]; exact canonT_mkTup _
    rw [den_ofMembers _ hcanon, mkSet_eq_denRows _ hcanon, den_eq_denRows a relAttrs wa ha]
    -- the specification on the written rows
    have hspec : Spec.singleNest (denRows ((enumerate a).map tupOf)) attr =
        denRows (singleNestRows ((enumerate a).map tupOf) attr) := by
      unfold Spec.singleNest
      apply denRows_congr
      exact singleNestRows_congr attr (rowsOf_denRows_eqv _)
    rw [hspec]
    apply denRows_congr
    unfold singleNestRows
    constructor
    · intro t ht'
      obtain ⟨z, hz, e⟩ := List.mem_map.1 ht'
      rw [List.mem_filterMap] at hz
      obtain ⟨m, hm, em⟩ := hz
      obtain ⟨x, hx, e'⟩ := (hmem m).1 hm
      rw [e'] at em
      have em := Option.some.inj em
      refine ⟨_, List.mem_map.2 ⟨tupOf x, List.mem_map.2 ⟨x, hx, rfl⟩, rfl⟩, ?_⟩
      rw [← e, ← em]
      intro n
      rw [get_tupOf_mkTup]
      exact get_singleMember relAttrs attr hattr _ hxs x hx n
    · intro t ht'
      obtain ⟨tx, htx, e⟩ := List.mem_map.1 ht'
      obtain ⟨x, hx, ex⟩ := List.mem_map.1 htx
      subst ex
      refine ⟨tupOf (V.mkTup (singleMember relAttrs attr (enumerate a) x)), ?_, ?_⟩
      · refine List.mem_map.2 ⟨_, ?_, rfl⟩
        rw [List.mem_filterMap]
        exact ⟨_, (hmem _).2 ⟨x, hx, rfl⟩, rfl⟩
      · rw [← e]
        intro n
        rw [get_tupOf_mkTup]
        exact get_singleMember relAttrs attr hattr _ hxs x hx n
  · have ht' : Impl.isTrue a = false := by cases h : Impl.isTrue a <;> simp_all
    simp only [ht', Bool.not_false, if_true]
    refine ⟨a, rfl, ?_⟩
    unfold den
    rw [isTrue_false_enumerate ht']
    rfl

end Arrai.C04
