import Arrai.Core.DriverMain
import Arrai.C04.Gen

def main (args : List String) : IO UInt32 := Arrai.driverMain Arrai.C04.gen args
