/-
  C04 helper lemmas, part 4: representations — `SetBuilder` (`ofMembers`) is faithful on canonical tuples,
  well-formed operands enumerate canonical tuples with one heading, and the generic path refines the
  specification.  Core-only.
-/
import Arrai.C04.LemmasGeneric

namespace Arrai.C04
open Spec Impl

/-! ### positional rows as attribute lists -/

theorem zip_range'_getD (attrs : Names) (pre row : Row) (d : V) (h : row.length = attrs.length) :
    (attrs.zip (List.range' pre.length attrs.length)).map (fun np => (np.1, (pre ++ row).getD np.2 d))
      = attrs.zip row := by
  induction attrs generalizing pre row with
  | nil => simp
  | cons a as ih =>
    cases row with
    | nil => simp at h
    | cons v vs =>
      simp only [List.length_cons] at h
      have hl : vs.length = as.length := by omega
      rw [List.length_cons, List.range'_succ, List.zip_cons_cons, List.map_cons, List.zip_cons_cons]
      congr 1
      · simp
      · have := ih (pre ++ [v]) vs hl
        simp only [List.length_append, List.length_cons, List.length_nil, List.append_assoc,
          List.cons_append, List.nil_append] at this
        exact this

theorem zip_range_getD (attrs : Names) (row : Row) (d : V) (h : row.length = attrs.length) :
    (attrs.zip (List.range attrs.length)).map (fun np => (np.1, row.getD np.2 d)) = attrs.zip row := by
  have := zip_range'_getD attrs [] row d h
  simpa [List.range_eq_range'] using this

theorem valuesToTuple_identity (attrs : Names) (row : Row) (h : row.length = attrs.length) :
    valuesToTuple attrs (List.range attrs.length) row = V.mkTup (attrs.zip row) := by
  unfold valuesToTuple
  rw [zip_range_getD attrs row V.none h]

theorem zip_map_self (ns : Names) (f : String → V) : ns.zip (ns.map f) = ns.map fun n => (n, f n) := by
  induction ns with
  | nil => rfl
  | cons n r ih => simp [ih]

theorem get_zip (attrs : Names) (row : Row) (n : String) (h : row.length = attrs.length) :
    has (attrs.zip row) n = attrs.contains n := by
  induction attrs generalizing row with
  | nil => simp [has]
  | cons a as ih =>
    cases row with
    | nil => simp at h
    | cons v vs =>
      simp only [List.length_cons] at h
      have hl : vs.length = as.length := by omega
      have := ih vs hl
      unfold has at *
      rw [List.zip_cons_cons, get_cons, List.contains_cons]
      by_cases e : a = n
      · subst e; simp
      · have : (n == a) = false := by simp; exact fun h => e h.symm
        simp [e, this, *]

/-! ### `ofMembers` (SetBuilder) is faithful -/

theorem bucketOf_sugar {as : Tup} {k : SeqKind} (h : bucketOf (.tup as) = .sugar k) :
    as.map (·.1) = ["@", k.attr] := by
  cases as with
  | nil => simp [bucketOf] at h
  | cons p r =>
    simp only [bucketOf] at h
    by_cases h1 : (p :: r).map (·.1) = ["@", "@char"]
    · simp only [h1, if_true] at h; injection h with h; subst h; exact h1
    · simp only [h1, if_false] at h
      by_cases h2 : (p :: r).map (·.1) = ["@", "@item"]
      · simp only [h2, if_true] at h; injection h with h; subst h; exact h2
      · simp only [h2, if_false] at h
        by_cases h3 : (p :: r).map (·.1) = ["@", "@byte"]
        · simp only [h3, if_true] at h; injection h with h; subst h; exact h3
        · simp only [h3, if_false] at h
          by_cases h4 : (p :: r).map (·.1) = ["@", "@value"]
          · simp only [h4, if_true] at h; injection h with h; subst h; exact h4
          · simp only [h4, if_false] at h
            exact absurd h (by simp)

theorem bucketOf_names {as : Tup} {ns : Names} (h : bucketOf (.tup as) = .names ns) : as.map (·.1) = ns := by
  cases as with
  | nil => simp [bucketOf] at h
  | cons p r =>
    simp only [bucketOf] at h
    by_cases h1 : (p :: r).map (·.1) = ["@", "@char"]
    · simp [h1] at h
    · by_cases h2 : (p :: r).map (·.1) = ["@", "@item"]
      · simp [h2] at h
      · by_cases h3 : (p :: r).map (·.1) = ["@", "@byte"]
        · simp [h3] at h
        · by_cases h4 : (p :: r).map (·.1) = ["@", "@value"]
          · simp [h4] at h
          · simp only [h1, h2, h3, h4, if_false] at h
            injection h

theorem at_ne_attr (k : SeqKind) : "@" ≠ k.attr := by cases k <;> decide

theorem sugar_roundtrip {y : V} {k : SeqKind} (cy : CanonT y) (h : bucketOf y = .sugar k) :
    pairTuple k (pairOf k y) = y := by
  obtain ⟨as, rfl, hs⟩ := cy
  have hn := bucketOf_sugar h
  match as, hn, hs with
  | [(a, i), (b, v)], hn, hs =>
    simp only [List.map_cons, List.map_nil, List.cons.injEq, and_true] at hn
    obtain ⟨ha, hb⟩ := hn
    subst ha; subst hb
    unfold pairTuple pairOf
    simp only [tupOf, get_cons, if_true, at_ne_attr k, if_false, Option.getD_some]
    exact mkTup_of_sorted _ hs

theorem names_roundtrip {y : V} {ns : Names} (cy : CanonT y) (h : bucketOf y = .names ns) :
    valuesToTuple ns (List.range ns.length) (ns.map fun n => (get n (tupOf y)).getD V.none) = y := by
  obtain ⟨as, rfl, hs⟩ := cy
  have hn := bucketOf_names h
  rw [valuesToTuple_identity _ _ (by simp), zip_map_self]
  simp only [tupOf]
  refine Eq.trans (mkTup_congr ?_) (mkTup_of_sorted as hs)
  intro m
  rw [get_map_pair]
  cases hc : ns.contains m
  · have : m ∉ as.map (·.1) := by rw [hn]; simpa using hc
    simp [get_none_of_not_mem this]
  · have : m ∈ as.map (·.1) := by rw [hn]; simpa using hc
    obtain ⟨v, hv⟩ := (has_true_iff as m).1 ((has_iff_mem_names as m).2 this)
    simp [hv]

theorem enumerate_ofMembers (xs : List V) (h : ∀ x ∈ xs, CanonT x) :
    enumerate (ofMembers xs) = dedup xs := by
  unfold ofMembers
  have hd : ∀ x ∈ dedup xs, CanonT x := fun x hx => h x ((mem_dedup x xs).1 hx)
  generalize dedup xs = d at hd
  cases d with
  | nil => rfl
  | cons x r =>
    simp only []
    split
    · rename_i hall
      rw [List.all_eq_true] at hall
      have hb : ∀ y ∈ x :: r, bucketOf y = bucketOf x := fun y hy => of_decide_eq_true (hall y hy)
      cases hbx : bucketOf x with
      | generic =>
        simp only []
        split
        · rename_i e; rw [e]; rfl
        · rfl
      | sugar k =>
        simp only [enumerate, List.map_map]
        have : ∀ y ∈ x :: r, (pairTuple k ∘ pairOf k) y = id y := by
          intro y hy
          exact sugar_roundtrip (hd y hy) (by rw [hb y hy, hbx])
        rw [List.map_congr_left this, List.map_id]
      | names ns =>
        simp only [enumerate, List.map_map]
        have : ∀ y ∈ x :: r, ((valuesToTuple ns (List.range ns.length)) ∘
            fun t => ns.map fun n => (get n (tupOf t)).getD V.none) y = id y := by
          intro y hy
          exact names_roundtrip (hd y hy) (by rw [hb y hy, hbx])
        rw [List.map_congr_left this, List.map_id]
    · rfl

theorem den_ofMembers (xs : List V) (h : ∀ x ∈ xs, CanonT x) : den (ofMembers xs) = V.mkSet xs := by
  unfold den
  rw [enumerate_ofMembers xs h, mkSet_dedup]

/-- a set of canonical tuples is the denotation of its attribute lists -/
theorem mkSet_eq_denRows (xs : List V) (h : ∀ x ∈ xs, CanonT x) : V.mkSet xs = denRows (xs.map tupOf) := by
  unfold denRows
  rw [List.map_map]
  congr 1
  have : ∀ x ∈ xs, x = (V.mkTup ∘ tupOf) x := fun x hx => (mkTup_tupOf (h x hx)).symm
  calc xs = xs.map id := (List.map_id xs).symm
    _ = xs.map (V.mkTup ∘ tupOf) := List.map_congr_left (fun x hx => this x hx)

/-! ### well-formed operands -/

/-- a `Relation` as every constructor builds it: distinct names, the identity projector, rows of the heading's
width, at least one row -/
def RelWF (r : Relation) : Prop :=
  r.attrs.Nodup ∧ r.p = List.range r.attrs.length ∧ (∀ row ∈ r.rows, row.length = r.attrs.length) ∧ r.rows ≠ []

def RepWF : Rep → Prop
  | .relation r => RelWF r
  | .generic xs => ∀ x ∈ xs, CanonT x
  | _ => True

/-- the rows of a relation as attribute lists -/
def relTups (r : Relation) : List Tup := r.rows.map fun row => r.attrs.zip row

theorem enumerate_relation (r : Relation) (w : RelWF r) :
    enumerate (.relation r) = (relTups r).map V.mkTup := by
  show List.map (valuesToTuple r.attrs r.p) r.rows = _
  unfold relTups
  rw [List.map_map, w.2.1]
  apply List.map_congr_left
  intro row hrow
  exact valuesToTuple_identity r.attrs row (w.2.2.1 row hrow)

theorem den_relation (r : Relation) (w : RelWF r) : den (.relation r) = denRows (relTups r) := by
  unfold den denRows
  rw [enumerate_relation r w]

theorem has_pair (k : SeqKind) (i v : V) (n : String) :
    has [("@", i), (k.attr, v)] n = ["@", k.attr].contains n := by
  unfold has
  simp only [get_cons, get_nil, List.contains_cons, List.contains_nil, Bool.or_false]
  by_cases e1 : "@" = n
  · subst e1; simp
  · by_cases e2 : k.attr = n
    · subst e2; simp [e1]
    · have h1 : (n == "@") = false := by simp; exact fun h => e1 h.symm
      have h2 : (n == k.attr) = false := by simp; exact fun h => e2 h.symm
      simp [e1, e2, h1, h2]

theorem has_tupOf_mkTup (as : Tup) (n : String) : has (tupOf (V.mkTup as)) n = has as n := by
  unfold has; rw [get_tupOf_mkTup]

theorem sameNames_contains {a b : Names} (h : sameNames a b = true) (n : String) :
    b.contains n = a.contains n := by
  unfold sameNames isSubset at h
  rw [Bool.and_eq_true, List.all_eq_true, List.all_eq_true] at h
  cases hb : b.contains n
  · cases ha : a.contains n
    · rfl
    · have := h.1 n (List.contains_iff_mem.1 ha)
      rw [hb] at this
      cases this
  · exact (h.2 n (List.contains_iff_mem.1 hb)).symm

theorem wfMembers_enumerate (a : Rep) (aN : Names) (w : RepWF a) (h : relationAttrs a = some aN) :
    WFMembers aN (enumerate a) := by
  intro x hx
  cases a with
  | empty => simp [enumerate] at hx
  | true_ =>
    simp only [enumerate, List.mem_singleton] at hx
    subst hx
    simp only [relationAttrs, Option.some.injEq] at h
    subst h
    exact ⟨⟨[], rfl, List.Pairwise.nil⟩, fun n => by simp [has, tupOf]⟩
  | relation r =>
    simp only [relationAttrs, Option.some.injEq] at h
    subst h
    rw [enumerate_relation r w] at hx
    obtain ⟨t, ht, e⟩ := List.mem_map.1 hx
    obtain ⟨row, hrow, e'⟩ := List.mem_map.1 ht
    subst e; subst e'
    refine ⟨canonT_mkTup _, fun n => ?_⟩
    rw [has_tupOf_mkTup]
    exact get_zip r.attrs row n (w.2.2.1 row hrow)
  | seq k pairs =>
    simp only [relationAttrs, Option.some.injEq] at h
    subst h
    simp only [enumerate] at hx
    obtain ⟨iv, _, e⟩ := List.mem_map.1 hx
    subst e
    refine ⟨canonT_mkTup _, fun n => ?_⟩
    unfold pairTuple
    rw [has_tupOf_mkTup]
    exact has_pair k iv.1 iv.2 n
  | union xs => simp [relationAttrs] at h
  | generic xs =>
    simp only [enumerate] at hx
    refine ⟨w x hx, ?_⟩
    cases xs with
    | nil => simp at hx
    | cons y rest =>
      cases y with
      | num _ => simp [relationAttrs] at h
      | set _ => simp [relationAttrs] at h
      | tup as =>
        simp only [relationAttrs] at h
        split at h
        · rename_i hall
          injection h with h
          subst h
          intro n
          rcases List.mem_cons.1 hx with e | hx'
          · subst e
            simp only [tupOf]
            cases hc : (as.map (·.1)).contains n
            · apply (has_false_iff _ _).2
              exact get_none_of_not_mem (by simpa using hc)
            · exact (has_iff_mem_names as n).2 (by simpa using hc)
          · rw [List.all_eq_true] at hall
            have := hall x hx'
            cases x with
            | num _ => simp at this
            | set _ => simp at this
            | tup bs =>
              simp only [tupOf]
              rw [← sameNames_contains this n]
              cases hc : (bs.map (·.1)).contains n
              · apply (has_false_iff _ _).2
                exact get_none_of_not_mem (by simpa using hc)
              · exact (has_iff_mem_names bs n).2 (by simpa using hc)
        · simp at h

theorem den_eq_denRows (a : Rep) (aN : Names) (w : RepWF a) (h : relationAttrs a = some aN) :
    den a = denRows ((enumerate a).map tupOf) :=
  mkSet_eq_denRows _ (fun x hx => (wfMembers_enumerate a aN w h x hx).1)

/-! ### the generic path refines the specification -/

theorem finish_ok (ms : List (Option V)) (h : ∀ m ∈ ms, m.isSome = true) :
    finish ms = .ok (ofMembers (ms.filterMap id)) := by
  unfold finish
  have : ms.any Option.isNone = false := by
    rw [Bool.eq_false_iff]
    intro hany
    rw [List.any_eq_true] at hany
    obtain ⟨m, hm, hn⟩ := hany
    have := h m hm
    cases m with
    | none => simp at this
    | some v => simp at hn
  simp [this]

theorem genericPath_refines (op : JoinOp) (a b : Rep) (aN bN : Names) (wa : RepWF a) (wb : RepWF b)
    (ha : relationAttrs a = some aN) (hb : relationAttrs b = some bN) :
    ∃ r, genericPath op a b = .ok r ∧ den r = Spec.join op (den a) (den b) := by
  obtain ⟨h1, h2, h3⟩ := generic_members op aN bN (enumerate a) (enumerate b)
    (wfMembers_enumerate a aN wa ha) (wfMembers_enumerate b bN wb hb)
  refine ⟨ofMembers ((genericJoin (enumerate a) (enumerate b) (projectT (aN.filter bN.contains))
    (combine op (aN.filter bN.contains))).filterMap id), ?_, ?_⟩
  · unfold genericPath
    simp only [ha, hb]
    exact finish_ok _ h1
  · rw [den_ofMembers _ h2, mkSet_eq_denRows _ h2, denRows_congr h3,
      den_eq_denRows a aN wa ha, den_eq_denRows b bN wb hb, join_denRows]

end Arrai.C04
