/-
  C04 helper lemmas, part 10: `Relation.Join` (with its short-cuts and the re-sugaring branch) and `Joiner`
  refine the specification.  Core-only.
-/
import Arrai.C04.LemmasWF

namespace Arrai.C04
open Spec Impl

theorem no_intersect' (op : JoinOp) (A1 A2 : Names) :
    hasIntersect (partitionNames op A1 A2 (intersect A1 A2)).1 (partitionNames op A1 A2 (intersect A1 A2)).2
      = false := by
  rw [hasIntersect_eq, Bool.eq_false_iff]
  intro h
  obtain ⟨n, h1, h2⟩ := (meets_iff _ _).1 h
  have hsh := partition_shape A1 A2 op
  rw [hsh.1 n] at h1
  rw [hsh.2 n] at h2
  have hdis := flags_disjoint op (isSubset A1 A2) (isSubset A2 A1)
  generalize (flagsOf op (isSubset A1 A2) (isSubset A2 A1)).fX = fX at *
  generalize (flagsOf op (isSubset A1 A2) (isSubset A2 A1)).fY = fY at *
  generalize (flagsOf op (isSubset A1 A2) (isSubset A2 A1)).gY = gY at *
  generalize (flagsOf op (isSubset A1 A2) (isSubset A2 A1)).gZ = gZ at *
  unfold cX cY cZ at *
  cases A1.contains n <;> cases A2.contains n <;> cases fX <;> cases fY <;> cases gY <;> cases gZ <;>
    simp_all

/-! ### the re-sugaring branch -/

theorem len2 {row : Row} (h : row.length = 2) : ∃ a b, row = [a, b] := by
  match row, h with
  | [a, b], _ => exact ⟨a, b, rfl⟩

theorem sugar_ne_at {n : String} {k : SeqKind} (h : isSugarAttr n = some k) : n ≠ "@" := by
  intro e
  subst e
  simp [isSugarAttr] at h

theorem finish_map_some (rows : List Row) (g : Row → V) :
    ((rows.map fun row => some (g row)).any Option.isNone) = false ∧
      (rows.map fun row => some (g row)).filterMap id = rows.map g := by
  induction rows with
  | nil => simp
  | cons r rs ih => simp [ih.1, ih.2]

theorem has_pair' (a : String) (i v : V) (n : String) : has [("@", i), (a, v)] n = ["@", a].contains n := by
  unfold has
  simp only [get_cons, get_nil, List.contains_cons, List.contains_nil, Bool.or_false]
  by_cases e1 : "@" = n
  · subst e1; simp
  · by_cases e2 : a = n
    · subst e2; simp [e1]
    · have h1 : (n == "@") = false := by simp; exact fun h => e1 h.symm
      have h2 : (n == a) = false := by simp; exact fun h => e2 h.symm
      simp [e1, e2, h1, h2]

theorem nodup_filter {l : Names} (p : String → Bool) (h : l.Nodup) : (l.filter p).Nodup :=
  List.Pairwise.filter p h

theorem partition_nodup (op : JoinOp) (A1 A2 : Names) (h1 : A1.Nodup) (h2 : A2.Nodup) :
    ((partitionNames op A1 A2 (intersect A1 A2)).1 ++ (partitionNames op A1 A2 (intersect A1 A2)).2).Nodup := by
  have hc : (intersect A1 A2).Nodup := by
    unfold intersect; split
    · exact nodup_filter _ h1
    · exact nodup_filter _ h2
  rw [List.nodup_append]
  refine ⟨?_, ?_, ?_⟩
  · cases op <;> simp only [partitionNames]
    case join => split; exact List.nodup_nil; split <;> exact h1
    case compose => exact nodup_filter _ h1
    case common => exact hc
    case exists_ => exact List.nodup_nil
    case rmatch => exact List.nodup_nil
    case lmatch => exact h1
    case rres => exact List.nodup_nil
    case lres => exact nodup_filter _ h1
  · cases op <;> simp only [partitionNames]
    case join => split; exact h2; split; exact List.nodup_nil; exact nodup_filter _ h2
    case compose => exact nodup_filter _ h2
    case common => exact List.nodup_nil
    case exists_ => exact List.nodup_nil
    case rmatch => exact h2
    case lmatch => exact List.nodup_nil
    case rres => exact nodup_filter _ h2
    case lres => exact List.nodup_nil
  · intro a ha b hb e
    subst e
    have := no_intersect' op A1 A2
    rw [hasIntersect_eq, Bool.eq_false_iff] at this
    exact this ((meets_iff _ _).2 ⟨a, List.contains_iff_mem.2 ha, List.contains_iff_mem.2 hb⟩)

theorem resugar_den (H : Names) (at_ val : Nat) (rows : List Row) (k : SeqKind)
    (hH : H.length = 2) (hav : (at_ = 0 ∧ val = 1) ∨ (at_ = 1 ∧ val = 0))
    (hat : H.getD at_ "" = "@") (hs : isSugarAttr (H.getD val "") = some k)
    (hrows : ∀ row ∈ rows, row.length = 2) :
    ∃ res, resugar (List.range 2) H at_ val rows = .ok res ∧
      den res = denRows (rows.map fun row => H.zip row) ∧ RepOK res := by
  match H, hH with
  | [h0, h1], _ =>
    -- the tuple built for a row, as an attribute list
    let tl : Row → Tup := fun row => [("@", row.getD at_ V.none), ([h0, h1].getD val "", row.getD val V.none)]
    have hf : ∀ row ∈ rows, resugarRow (List.range 2) [h0, h1] at_ val row = some (V.mkTup (tl row)) := by
      intro row hrow
      obtain ⟨a, b, e⟩ := len2 (hrows row hrow)
      subst e
      rcases hav with ⟨e1, e2⟩ | ⟨e1, e2⟩ <;> subst e1 <;> subst e2 <;> rfl
    have hms : rows.map (resugarRow (List.range 2) [h0, h1] at_ val) =
        rows.map fun row => some (V.mkTup (tl row)) := List.map_congr_left hf
    obtain ⟨hany, hfm⟩ := finish_map_some rows (fun row => V.mkTup (tl row))
    refine ⟨ofMembers (rows.map fun row => V.mkTup (tl row)), ?_, ?_, ?_⟩
    · unfold resugar
      simp only []
      rw [hms, hany, hfm]
      rfl
    rotate_left
    · apply ofMembers_ok _ ["@", [h0, h1].getD val ""]
      intro x hx
      obtain ⟨row, _, e⟩ := List.mem_map.1 hx
      rw [← e]
      refine ⟨canonT_mkTup _, fun n => ?_⟩
      rw [has_tupOf_mkTup]
      exact has_pair' _ _ _ n
    · rw [den_ofMembers _ (by
        intro x hx
        obtain ⟨row, _, e⟩ := List.mem_map.1 hx
        rw [← e]; exact canonT_mkTup _)]
      have : V.mkSet (rows.map fun row => V.mkTup (tl row)) = denRows (rows.map tl) := by
        unfold denRows; rw [List.map_map]; rfl
      rw [this]
      apply denRows_congr
      have hrow : ∀ row ∈ rows, tl row ≃ [h0, h1].zip row := by
        intro row hrow
        obtain ⟨a, b, e⟩ := len2 (hrows row hrow)
        subst e
        rcases hav with ⟨e1, e2⟩ | ⟨e1, e2⟩
        · subst e1; subst e2
          simp only [List.getD_cons_zero] at hat
          subst hat
          intro n; rfl
        · subst e1; subst e2
          simp only [List.getD_cons_succ, List.getD_cons_zero] at hat hs
          subst hat
          have hne : h0 ≠ "@" := sugar_ne_at hs
          intro n
          simp only [tl, List.getD_cons_succ, List.getD_cons_zero, List.zip_cons_cons, List.zip_nil_right,
            get_cons, get_nil]
          by_cases e1 : "@" = n
          · subst e1; simp [hne]
          · simp [e1]
      constructor
      · intro t ht
        obtain ⟨row, hr, e⟩ := List.mem_map.1 ht
        exact ⟨_, List.mem_map.2 ⟨row, hr, rfl⟩, by rw [← e]; exact hrow row hr⟩
      · intro t ht
        obtain ⟨row, hr, e⟩ := List.mem_map.1 ht
        exact ⟨_, List.mem_map.2 ⟨row, hr, rfl⟩, by rw [← e]; exact hrow row hr⟩

/-! ### Relation.Join -/

theorem no_intersect (op : JoinOp) (A1 A2 : Names) :
    hasIntersect (partitionNames op A1 A2 (intersect A1 A2)).1 (partitionNames op A1 A2 (intersect A1 A2)).2
      = false := by
  rw [hasIntersect_eq, Bool.eq_false_iff]
  intro h
  obtain ⟨n, h1, h2⟩ := (meets_iff _ _).1 h
  have hsh := partition_shape A1 A2 op
  rw [hsh.1 n] at h1
  rw [hsh.2 n] at h2
  have hdis := flags_disjoint op (isSubset A1 A2) (isSubset A2 A1)
  generalize (flagsOf op (isSubset A1 A2) (isSubset A2 A1)).fX = fX at *
  generalize (flagsOf op (isSubset A1 A2) (isSubset A2 A1)).fY = fY at *
  generalize (flagsOf op (isSubset A1 A2) (isSubset A2 A1)).gY = gY at *
  generalize (flagsOf op (isSubset A1 A2) (isSubset A2 A1)).gZ = gZ at *
  unfold cX cY cZ at *
  cases A1.contains n <;> cases A2.contains n <;> cases fX <;> cases fY <;> cases gY <;> cases gZ <;>
    simp_all

theorem all_nil_of_literalTrue {rows : List Row} (h : isLiteralTrue rows = true) : ∀ x ∈ rows, x = [] := by
  unfold isLiteralTrue at h
  simp only [Bool.and_eq_true, beq_iff_eq] at h
  obtain ⟨h1, h2⟩ := h
  have hnil : ([] : Row) ∈ rows := List.contains_iff_mem.1 h2
  match hd : dedup rows, h1 with
  | [y], _ =>
    intro x hx
    have hx' : x ∈ dedup rows := (mem_dedup x rows).2 hx
    have hn' : ([] : Row) ∈ dedup rows := (mem_dedup _ rows).2 hnil
    rw [hd] at hx' hn'
    simp at hx' hn'
    rw [hx', ← hn']

theorem relationJoin_refines (op : JoinOp) (r1 r2 : Relation) (w1 : RelWF r1) (w2 : RelWF r2) :
    ∃ res, relationJoin r1 r2 (intersect r1.attrs r2.attrs)
        (partitionNames op r1.attrs r2.attrs (intersect r1.attrs r2.attrs)).1
        (partitionNames op r1.attrs r2.attrs (intersect r1.attrs r2.attrs)).2 = .ok res ∧
      den res = Spec.join op (den (.relation r1)) (den (.relation r2)) ∧ RepOK res := by
  -- notation
  generalize hcm : intersect r1.attrs r2.attrs = common
  generalize hlo' : (partitionNames op r1.attrs r2.attrs common).1 = lo
  generalize hro' : (partitionNames op r1.attrs r2.attrs common).2 = ro
  have hsh := partition_shape r1.attrs r2.attrs op
  rw [hcm, hlo', hro'] at hsh
  have hlo : LoShape r1.attrs r2.attrs _ _ lo := hsh.1
  have hro : LoShape r2.attrs r1.attrs _ _ ro := roShape_of_shape hsh
  have loA1 : ∀ n ∈ lo, n ∈ r1.attrs := fun n hn => shape_sub_A1 hlo n hn
  have roA2 : ∀ n ∈ ro, n ∈ r2.attrs := fun n hn => shape_sub_A1 hro n hn
  have cA1 : ∀ n ∈ common, n ∈ r1.attrs := fun n hn => by
    rw [← hcm] at hn; exact List.contains_iff_mem.1 ((mem_intersect _ _ n).1 hn).1
  have cA2 : ∀ n ∈ common, n ∈ r2.attrs := fun n hn => by
    rw [← hcm] at hn; exact List.contains_iff_mem.1 ((mem_intersect _ _ n).1 hn).2
  have idxlt : ∀ {attrs names : Names}, (∀ n ∈ names, n ∈ attrs) →
      ∀ i ∈ names.map (idxOf attrs), i < attrs.length := by
    intro attrs names h i hi
    obtain ⟨n, hn, e⟩ := List.mem_map.1 hi
    rw [← e]; exact idxOf_lt (h n hn)
  -- the rows
  obtain ⟨m, hm, hside⟩ := createMode_total_names r1.attrs r2.attrs op
  rw [hcm, hlo', hro'] at hm hside
  have hw : ∀ (r : Relation), RelWF r → ∀ v ∈ r.rows, ∀ v' ∈ r.rows, v.length = v'.length :=
    fun r w v hv v' hv' => by rw [w.2.2.1 v hv, w.2.2.1 v' hv']
  obtain ⟨rows, hrows, hmem⟩ := posJoin_mem r1.rows r2.rows _ _ _ _ m hm hside w1.2.2.2 w2.2.2.2
    (hw r1 w1) (hw r2 w2)
  have hme := matched_eqv op r1 r2 w1 w2 rows (by rw [hcm, hlo', hro']; exact hmem)
  rw [hcm, hlo', hro'] at hme
  obtain ⟨hEqv, hlen⟩ := hme
  -- the specification in terms of the rows
  have hspec : Spec.join op (den (.relation r1)) (den (.relation r2)) =
      denRows (rows.map fun row => (lo ++ ro).zip row) := by
    rw [den_relation r1 w1, den_relation r2 w2, join_denRows]
    exact (denRows_congr hEqv).symm
  rw [hspec]
  -- unfold the function up to the rows
  have hni : hasIntersect lo ro = false := by
    have := no_intersect op r1.attrs r2.attrs
    rw [hcm, hlo', hro'] at this; exact this
  unfold relationJoin relationJoinWith
  rw [hni]
  simp only [Bool.false_eq_true, if_false]
  rw [getIndices_ok cA1, getIndices_ok cA2, getIndices_ok loA1, getIndices_ok roA2]
  simp only []
  rw [w1.2.1, w2.2.1, compose_range (idxlt cA1), compose_range (idxlt cA2), compose_range (idxlt loA1),
    compose_range (idxlt roA2), hrows]
  simp only []
  by_cases he : rows.isEmpty = true
  · -- False
    rw [if_pos he]
    refine ⟨_, rfl, ?_, ⟨trivial, [], rfl⟩⟩
    have : rows = [] := by simpa using he
    subst this
    rfl
  · rw [if_neg he]
    by_cases ht : isLiteralTrue rows = true
    · -- True
      rw [if_pos ht]
      refine ⟨_, rfl, ?_, ⟨trivial, [], rfl⟩⟩
      have hall := all_nil_of_literalTrue ht
      unfold den denRows
      apply mkSet_congr
      intro v
      simp only [enumerate, List.mem_singleton, List.mem_map]
      constructor
      · intro e
        subst e
        cases hr : rows with
        | nil => rw [hr] at he; simp at he
        | cons x xs =>
          refine ⟨(lo ++ ro).zip x, ⟨x, by simp, rfl⟩, ?_⟩
          have : x = [] := hall x (by rw [hr]; simp)
          subst this
          simp [V.mkTup]
      · rintro ⟨t, ⟨x, hx, e1⟩, e2⟩
        have : x = [] := hall x hx
        subst this
        rw [← e2, ← e1]
        simp [V.mkTup]
    · rw [if_neg ht]
      have hnd : (lo ++ ro).Nodup := by
        have := partition_nodup op r1.attrs r2.attrs w1.1 w2.1
        rw [hcm, hlo', hro'] at this; exact this
      have hplain : den (.relation ⟨lo ++ ro, List.range (lo.length + ro.length), rows⟩) =
          denRows (rows.map fun row => (lo ++ ro).zip row) ∧
          RepOK (.relation ⟨lo ++ ro, List.range (lo.length + ro.length), rows⟩) := by
        rw [← List.length_append]
        exact ⟨enumerate_relation' (lo ++ ro) rows hlen,
          ⟨hnd, rfl, hlen, fun e => he (by
            have e' : rows = [] := e
            rw [e']; rfl)⟩, lo ++ ro, rfl⟩
      by_cases h2 : ((lo ++ ro).length == 2) = true
      · rw [if_pos h2]
        have hH2 : (lo ++ ro).length = 2 := by simpa using h2
        have hcount : lo.length + ro.length = 2 := by rw [← List.length_append]; exact hH2
        by_cases hat1 : (lo ++ ro).getD 1 "" = "@"
        · simp only [hat1, if_true]
          cases hs : isSugarAttr ((lo ++ ro).getD 0 "") with
          | none => exact ⟨_, rfl, hplain⟩
          | some k =>
            simp only []
            rw [hcount]
            exact resugar_den (lo ++ ro) 1 0 rows k hH2 (Or.inr ⟨rfl, rfl⟩) hat1 hs
              (fun row hr => by rw [hlen row hr, hH2])
        · simp only [hat1, if_false]
          by_cases hat0 : (lo ++ ro).getD 0 "" = "@"
          · simp only [hat0, if_true]
            cases hs : isSugarAttr ((lo ++ ro).getD 1 "") with
            | none => exact ⟨_, rfl, hplain⟩
            | some k =>
              simp only []
              rw [hcount]
              exact resugar_den (lo ++ ro) 0 1 rows k hH2 (Or.inl ⟨rfl, rfl⟩) hat0 hs
                (fun row hr => by rw [hlen row hr, hH2])
          · simp only [hat0, if_false]
            exact ⟨_, rfl, hplain⟩
      · rw [if_neg h2]
        exact ⟨_, rfl, hplain⟩

/-! ### Joiner -/

theorem join_empty_left (op : JoinOp) (B : V) : Spec.join op (V.mkSet []) B = V.mkSet [] := by
  unfold Spec.join
  have : rowsOf (V.mkSet []) = [] := rfl
  rw [this]
  rfl

theorem join_empty_right (op : JoinOp) (A : V) : Spec.join op A (V.mkSet []) = V.mkSet [] := by
  unfold Spec.join
  have : rowsOf (V.mkSet []) = [] := rfl
  rw [this]
  have : joinRows op (rowsOf A) [] = [] := by
    unfold joinRows
    induction rowsOf A with
    | nil => rfl
    | cons t ts ih => simp [List.flatMap_cons, ih]
  rw [this]
  rfl

/-- the generic path: the result denotes the specified join and is a well-formed operand with a heading -/
theorem genericPath_refines_ok (op : JoinOp) (a b : Rep) (aN bN : Names) (wa : RepWF a) (wb : RepWF b)
    (ha : relationAttrs a = some aN) (hb : relationAttrs b = some bN) :
    ∃ r, genericPath op a b = .ok r ∧ den r = Spec.join op (den a) (den b) ∧ RepOK r := by
  obtain ⟨r, hr, hden⟩ := genericPath_refines op a b aN bN wa wb ha hb
  refine ⟨r, hr, hden, ?_⟩
  obtain ⟨h1, h2, h3⟩ := generic_members op aN bN (enumerate a) (enumerate b)
    (wfMembers_enumerate a aN wa ha) (wfMembers_enumerate b bN wb hb)
  have hr' : genericPath op a b = .ok (ofMembers ((genericJoin (enumerate a) (enumerate b)
      (projectT (aN.filter bN.contains)) (combine op (aN.filter bN.contains))).filterMap id)) := by
    unfold genericPath
    simp only [ha, hb]
    exact finish_ok _ h1
  rw [hr'] at hr
  injection hr with hr
  subst hr
  apply ofMembers_ok _ ((aN ++ bN).filter (keep op aN bN))
  intro z hz
  refine ⟨h2 z hz, fun n => ?_⟩
  obtain ⟨t, ht, et⟩ := h3.1 (tupOf z) (List.mem_map.2 ⟨z, hz, rfl⟩)
  obtain ⟨tx, htx, ty, hty, _, e⟩ := (mem_joinRows op _ _ t).1 ht
  obtain ⟨x, hx, ex⟩ := List.mem_map.1 htx
  obtain ⟨y, hy, ey⟩ := List.mem_map.1 hty
  subst ex; subst ey; subst e
  rw [has_congr et, has_joined op aN bN _ _ (wfMembers_enumerate a aN wa ha x hx).2
    (wfMembers_enumerate b bN wb hb y hy).2, contains_filter]
  unfold keep
  rw [List.contains_append]
  cases aN.contains n <;> cases bN.contains n <;> simp

/-- `Joiner` refines the specification on every pair of well-formed operands that are relations -/
theorem joiner_refines (op : JoinOp) (a b : Rep) (aN bN : Names) (wa : RepWF a) (wb : RepWF b)
    (ha : relationAttrs a = some aN) (hb : relationAttrs b = some bN) :
    ∃ res, joiner op a b = .ok res ∧ den res = Spec.join op (den a) (den b) ∧ RepOK res := by
  have hgen := genericPath_refines_ok op a b aN bN wa wb ha hb
  have hgp : ∀ a b : Rep, genericPath op a b =
      (match relationAttrs a, relationAttrs b with
       | some aNames, some bNames =>
         finish (genericJoin (enumerate a) (enumerate b) (projectT (aNames.filter bNames.contains))
           (combine op (aNames.filter bNames.contains)))
       | _, _ => .err) := fun _ _ => rfl
  cases a with
  | empty => exact ⟨.empty, rfl, (join_empty_left op _).symm, trivial, [], rfl⟩
  | relation r1 =>
    cases b with
    | empty => exact ⟨.empty, rfl, (join_empty_right op _).symm, trivial, [], rfl⟩
    | relation r2 => exact relationJoin_refines op r1 r2 wa wb
    | true_ => exact hgen
    | seq k ps => exact hgen
    | generic xs => exact hgen
    | union xs => exact hgen
  | true_ =>
    cases b with
    | empty => exact ⟨.empty, rfl, (join_empty_right op _).symm, trivial, [], rfl⟩
    | relation r2 => exact hgen
    | true_ => exact hgen
    | seq k ps => exact hgen
    | generic xs => exact hgen
    | union xs => exact hgen
  | seq k1 ps1 =>
    cases b with
    | empty => exact ⟨.empty, rfl, (join_empty_right op _).symm, trivial, [], rfl⟩
    | relation r2 => exact hgen
    | true_ => exact hgen
    | seq k ps => exact hgen
    | generic xs => exact hgen
    | union xs => exact hgen
  | generic xs1 =>
    cases b with
    | empty => exact ⟨.empty, rfl, (join_empty_right op _).symm, trivial, [], rfl⟩
    | relation r2 => exact hgen
    | true_ => exact hgen
    | seq k ps => exact hgen
    | generic xs => exact hgen
    | union xs => exact hgen
  | union xs1 => simp [relationAttrs] at ha

end Arrai.C04
