/-
  C04 helper lemmas, part 7: `createMode` never panics on the eight partitions and picks a strategy that
  computes the matched pairs; `JoinCommonOnly`; `positionalRelation.Join`.  Core-only.
-/
import Arrai.C04.LemmasMode

namespace Arrai.C04
open Spec Impl

/-! ### name-level tests from the shape of an output heading -/

/-- `l` is the union of the classes the flags select (left-hand orientation) -/
def LoShape (A1 A2 : Names) (fX fY : Bool) (l : Names) : Prop :=
  ∀ n, l.contains n = ((fX && cX A1 A2 n) || (fY && cY A1 A2 n))

section shape
variable {A1 A2 common l : Names} {fX fY : Bool}
variable (hc : ∀ n, common.contains n = cY A1 A2 n) (hl : LoShape A1 A2 fX fY l)

theorem cX_cY_excl (n : String) : cX A1 A2 n = true → cY A1 A2 n = false := by
  unfold cX cY; cases A1.contains n <;> cases A2.contains n <;> simp

include hc hl in
theorem shape_sub_common : isSubset l common = !(fX && !isSubset A1 A2) := by
  rw [Bool.eq_iff_iff, isSubset_iff]
  constructor
  · intro h
    cases hf : fX
    · rfl
    · have hex : isSubset A1 A2 = true := by
        rw [ex_iff]
        intro n
        cases hx : cX A1 A2 n
        · rfl
        · have h1 : l.contains n = true := by rw [hl n, hf, hx]; rfl
          have h2 := h n h1
          rw [hc n, cX_cY_excl n hx] at h2
          cases h2
      rw [hex]; rfl
  · intro h n hn
    rw [hl n] at hn
    rw [hc n]
    cases hf : fX
    · rw [hf] at hn
      have : fY = true ∧ cY A1 A2 n = true := by simpa using hn
      exact this.2
    · rw [hf] at h
      have hex : isSubset A1 A2 = true := by simpa using h
      have := (ex_iff A1 A2).1 hex n
      rw [this] at hn
      have : fY = true ∧ cY A1 A2 n = true := by simpa using hn
      exact this.2

include hc hl in
theorem shape_common_sub : isSubset common l = (fY || noCommon A1 A2) := by
  rw [Bool.eq_iff_iff, isSubset_iff]
  constructor
  · intro h
    cases hf : fY
    · have : noCommon A1 A2 = true := by
        rw [ey_iff]
        intro n
        cases hy : cY A1 A2 n
        · rfl
        · have h1 := h n (by rw [hc n]; exact hy)
          rw [hl n, hf, hy] at h1
          have hx : cX A1 A2 n = false := by
            cases hx : cX A1 A2 n
            · rfl
            · rw [cX_cY_excl n hx] at hy; cases hy
          rw [hx] at h1
          simp at h1
      rw [this]; rfl
    · rfl
  · intro h n hn
    rw [hc n] at hn
    rw [hl n, hn]
    cases hf : fY
    · rw [hf] at h
      have : noCommon A1 A2 = true := by simpa using h
      have := (ey_iff A1 A2).1 this n
      rw [hn] at this; cases this
    · simp

include hc hl in
theorem shape_meets_common : meets l common = (fY && !noCommon A1 A2) := by
  rw [Bool.eq_iff_iff, meets_iff]
  constructor
  · rintro ⟨n, h1, h2⟩
    rw [hc n] at h2
    rw [hl n, h2] at h1
    have hx : cX A1 A2 n = false := by
      cases hx : cX A1 A2 n
      · rfl
      · rw [cX_cY_excl n hx] at h2; cases h2
    rw [hx] at h1
    have hf : fY = true := by simpa using h1
    have hn : noCommon A1 A2 = false := by
      cases hn : noCommon A1 A2
      · rfl
      · have := (ey_iff A1 A2).1 hn n
        rw [h2] at this; cases this
    rw [hf, hn]; rfl
  · intro h
    have hf : fY = true := by cases fY <;> simp_all
    have hn : noCommon A1 A2 = false := by cases hn : noCommon A1 A2 <;> simp_all
    unfold noCommon at hn
    have hm : meets A1 A2 = true := by simpa using hn
    obtain ⟨n, h1, h2⟩ := (meets_iff A1 A2).1 hm
    have hy : cY A1 A2 n = true := by unfold cY; rw [h1, h2]; rfl
    exact ⟨n, by rw [hl n, hf, hy]; simp, by rw [hc n]; exact hy⟩

include hl in
theorem shape_empty : l.isEmpty = (!(fX && !isSubset A1 A2) && !(fY && !noCommon A1 A2)) := by
  rw [Bool.eq_iff_iff]
  constructor
  · intro h
    have hnil : l = [] := by simpa using h
    have hno : ∀ n, ((fX && cX A1 A2 n) || (fY && cY A1 A2 n)) = false := by
      intro n; rw [← hl n, hnil]; rfl
    have h1 : (fX && !isSubset A1 A2) = false := by
      cases hf : fX
      · rfl
      · have : isSubset A1 A2 = true := by
          rw [ex_iff]; intro n
          have := hno n; rw [hf] at this
          cases hx : cX A1 A2 n
          · rfl
          · rw [hx] at this; simp at this
        rw [this]; rfl
    have h2 : (fY && !noCommon A1 A2) = false := by
      cases hf : fY
      · rfl
      · have : noCommon A1 A2 = true := by
          rw [ey_iff]; intro n
          have := hno n; rw [hf] at this
          cases hy : cY A1 A2 n
          · rfl
          · rw [hy] at this; simp at this
        rw [this]; rfl
    rw [h1, h2]; rfl
  · intro h
    have h1 : (fX && !isSubset A1 A2) = false := by cases hh : (fX && !isSubset A1 A2) <;> simp_all
    have h2 : (fY && !noCommon A1 A2) = false := by cases hh : (fY && !noCommon A1 A2) <;> simp_all
    cases l with
    | nil => rfl
    | cons a r =>
      have := hl a
      simp only [List.contains_cons, beq_self_eq_true, Bool.true_or] at this
      have hx : (fX && cX A1 A2 a) = false := by
        cases hf : fX
        · rfl
        · rw [hf] at h1
          have : isSubset A1 A2 = true := by simpa using h1
          rw [(ex_iff A1 A2).1 this a]; rfl
      have hy : (fY && cY A1 A2 a) = false := by
        cases hf : fY
        · rfl
        · rw [hf] at h2
          have : noCommon A1 A2 = true := by simpa using h2
          rw [(ey_iff A1 A2).1 this a]; rfl
      rw [hx, hy] at this
      cases this

include hl in
theorem shape_sub_A1 (n : String) (h : n ∈ l) : n ∈ A1 := by
  have := hl n
  rw [List.contains_iff_mem.2 h] at this
  apply List.contains_iff_mem.1
  unfold cX cY at this
  cases hA : A1.contains n
  · rw [hA] at this; simp at this
  · rfl

end shape

theorem cY_comm (A1 A2 : Names) (n : String) : cY A2 A1 n = cY A1 A2 n := by
  unfold cY; rw [Bool.and_comm]

theorem cX_swap (A1 A2 : Names) (n : String) : cX A2 A1 n = cZ A1 A2 n := by
  unfold cX cZ; rw [Bool.and_comm]

theorem noCommon_comm (A1 A2 : Names) : noCommon A2 A1 = noCommon A1 A2 := by
  unfold noCommon; rw [meets_comm]

/-- the right output heading seen from the right operand -/
theorem roShape_of_shape {A1 A2 lo ro : Names} {f : Flags} (h : Shape A1 A2 f lo ro) :
    LoShape A2 A1 f.gZ f.gY ro := by
  intro n
  rw [h.2 n, cX_swap, cY_comm, Bool.or_comm]

/-! ### createMode -/

theorem createMode_names (A1 A2 : Names) (op : JoinOp) :
    let common := intersect A1 A2
    let lo := (partitionNames op A1 A2 common).1
    let ro := (partitionNames op A1 A2 common).2
    createMode (common.map (idxOf A1)) (common.map (idxOf A2)) (lo.map (idxOf A1)) (ro.map (idxOf A2)) =
      match modeB (flagsOf op (isSubset A1 A2) (isSubset A2 A1)) (isSubset A1 A2) (noCommon A1 A2)
          (isSubset A2 A1) with
      | none => .error "createMode: partial key output"
      | some m => .ok m := by
  intro common lo ro
  have hsh := partition_shape A1 A2 op
  have hc : ∀ n, common.contains n = cY A1 A2 n := contains_intersect A1 A2
  have hc' : ∀ n, common.contains n = cY A2 A1 n := fun n => by rw [hc, cY_comm]
  have hlo : LoShape A1 A2 _ _ lo := hsh.1
  have hro : LoShape A2 A1 _ _ ro := roShape_of_shape hsh
  have cA1 : ∀ n ∈ common, n ∈ A1 := by
    intro n hn
    have := hc n
    rw [List.contains_iff_mem.2 hn] at this
    unfold cY at this
    apply List.contains_iff_mem.1
    cases h : A1.contains n
    · rw [h] at this; simp at this
    · rfl
  have cA2 : ∀ n ∈ common, n ∈ A2 := by
    intro n hn
    have := hc n
    rw [List.contains_iff_mem.2 hn] at this
    unfold cY at this
    apply List.contains_iff_mem.1
    cases h : A2.contains n
    · rw [h] at this; simp at this
    · rfl
  have loA1 : ∀ n ∈ lo, n ∈ A1 := fun n hn => shape_sub_A1 hlo n hn
  have roA2 : ∀ n ∈ ro, n ∈ A2 := fun n hn => shape_sub_A1 hro n hn
  unfold createMode
  simp only [List.length_map, bne_self_eq_false, Bool.false_eq_true, if_false]
  rw [isSubProjection_names cA1 loA1, isSubProjection_names cA2 roA2,
    isSubProjection_names loA1 cA1, isSubProjection_names roA2 cA2,
    hasCommonIndices_names loA1 cA1, hasCommonIndices_names roA2 cA2,
    shape_common_sub hc hlo, shape_common_sub hc' hro, shape_sub_common hc hlo, shape_sub_common hc' hro,
    shape_meets_common hc hlo, shape_meets_common hc' hro, noCommon_comm]
  unfold modeB
  simp only []
  split <;> rfl

/-- the side condition of a strategy, on projectors -/
def SideOK : Strategy → Proj → Proj → Proj → Proj → Prop
  | .keepEverything, _, _, _, _ => True
  | .oneSideLeft, _, _, _, ro => ro = []
  | .oneSideRight, _, _, lo, _ => lo = []
  | .commonOnly, lk, rk, lo, ro => (ro = [] ∧ ∀ i ∈ lo, i ∈ lk) ∨ (lo = [] ∧ ∀ i ∈ ro, i ∈ rk)
  | .ifCommonExist, _, _, lo, ro => lo = [] ∧ ro = []

theorem isSubset_map_mem {attrs a b : Names} (h : isSubset a b = true) :
    ∀ i ∈ a.map (idxOf attrs), i ∈ b.map (idxOf attrs) := by
  intro i hi
  obtain ⟨n, hn, e⟩ := List.mem_map.1 hi
  unfold isSubset at h
  rw [List.all_eq_true] at h
  exact List.mem_map.2 ⟨n, List.contains_iff_mem.1 (h n hn), e⟩

/-- `createMode` is total on the partitions of the eight operators and selects a strategy whose side
condition holds -/
theorem createMode_total_names (A1 A2 : Names) (op : JoinOp) :
    let common := intersect A1 A2
    let lo := (partitionNames op A1 A2 common).1
    let ro := (partitionNames op A1 A2 common).2
    ∃ m, createMode (common.map (idxOf A1)) (common.map (idxOf A2)) (lo.map (idxOf A1))
        (ro.map (idxOf A2)) = .ok m ∧
      SideOK (strategyOf m) (common.map (idxOf A1)) (common.map (idxOf A2)) (lo.map (idxOf A1))
        (ro.map (idxOf A2)) := by
  intro common lo ro
  obtain ⟨m, hm, hs⟩ := modeB_total op (isSubset A1 A2) (noCommon A1 A2) (isSubset A2 A1)
  refine ⟨m, ?_, ?_⟩
  · have := createMode_names A1 A2 op
    simp only [] at this
    rw [this, hm]
  · have hsh := partition_shape A1 A2 op
    have hc : ∀ n, common.contains n = cY A1 A2 n := contains_intersect A1 A2
    have hc' : ∀ n, common.contains n = cY A2 A1 n := fun n => by rw [hc, cY_comm]
    have hlo : LoShape A1 A2 _ _ lo := hsh.1
    have hro : LoShape A2 A1 _ _ ro := roShape_of_shape hsh
    have hloE := shape_empty hlo
    have hroE := shape_empty hro
    rw [noCommon_comm] at hroE
    have loNil : loEmptyB (flagsOf op (isSubset A1 A2) (isSubset A2 A1)) (isSubset A1 A2) (noCommon A1 A2) = true →
        lo.map (idxOf A1) = [] := by
      intro h
      unfold loEmptyB at h
      rw [← hloE] at h
      have : lo = [] := by simpa using h
      rw [this]; rfl
    have roNil : roEmptyB (flagsOf op (isSubset A1 A2) (isSubset A2 A1)) (noCommon A1 A2) (isSubset A2 A1) = true →
        ro.map (idxOf A2) = [] := by
      intro h
      unfold roEmptyB at h
      rw [Bool.and_comm, ← hroE] at h
      have : ro = [] := by simpa using h
      rw [this]; rfl
    cases hst : strategyOf m with
    | keepEverything => trivial
    | oneSideLeft => rw [hst] at hs; exact roNil hs
    | oneSideRight => rw [hst] at hs; exact loNil hs
    | ifCommonExist =>
      rw [hst] at hs
      simp only [sideB, Bool.and_eq_true] at hs
      exact ⟨loNil hs.1, roNil hs.2⟩
    | commonOnly =>
      rw [hst] at hs
      simp only [sideB, Bool.or_eq_true, Bool.and_eq_true] at hs
      rcases hs with ⟨h1, h2⟩ | ⟨h1, h2⟩
      · refine Or.inl ⟨roNil h1, isSubset_map_mem ?_⟩
        rw [shape_sub_common hc hlo]; exact h2
      · refine Or.inr ⟨loNil h1, isSubset_map_mem ?_⟩
        rw [shape_sub_common hc' hro]; exact h2

end Arrai.C04
