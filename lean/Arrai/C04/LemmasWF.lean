/-
  C04 helper lemmas, part 9b: results are well-formed operands again — `ofMembers` of canonical tuples with
  one heading is a well-formed representation with a heading.  Core-only.
-/
import Arrai.C04.LemmasRelJoin

namespace Arrai.C04
open Spec Impl

/-- a well-formed operand that is a relation: it has a heading -/
def RepOK (r : Rep) : Prop := RepWF r ∧ ∃ N, relationAttrs r = some N

theorem sortedNames_nodup {as : Tup} (h : SortedNames as) : (as.map (·.1)).Nodup := by
  unfold SortedNames at h
  rw [List.Nodup, List.pairwise_map]
  exact h.imp (fun {a b} hab e => by rw [e] at hab; exact String.lt_irrefl _ hab)

/-- canonical tuples with the same attribute names (as sets) have the same list of names -/
theorem names_eq_of_has_eq {as bs : Tup} (ha : SortedNames as) (hb : SortedNames bs)
    (h : ∀ n, has as n = has bs n) : as.map (·.1) = bs.map (·.1) := by
  -- erase the values and use extensionality of sorted attribute lists
  have key : ∀ (l : Tup), SortedNames l → SortedNames (l.map fun p => (p.1, V.none)) ∧
      ∀ n, get n (l.map fun p => (p.1, V.none)) = (get n l).map fun _ => V.none := by
    intro l hl
    constructor
    · unfold SortedNames at *
      rw [List.pairwise_map]
      exact hl
    · intro n
      induction l with
      | nil => rfl
      | cons p r ih =>
        unfold SortedNames at hl
        rw [List.pairwise_cons] at hl
        obtain ⟨m, v⟩ := p
        simp only [List.map_cons, get_cons]
        by_cases e : m = n
        · simp [e]
        · simp [e, ih hl.2]
  have e := sortedNames_ext _ _ (key as ha).1 (key bs hb).1 (by
    intro n
    rw [(key as ha).2, (key bs hb).2]
    have := h n
    unfold has at this
    cases h1 : get n as <;> cases h2 : get n bs <;> simp_all)
  have := congrArg (List.map (·.1)) e
  simpa [List.map_map, Function.comp_def] using this

theorem bucketOf_congr {as bs : Tup} (h : as.map (·.1) = bs.map (·.1)) :
    bucketOf (.tup as) = bucketOf (.tup bs) := by
  cases as with
  | nil =>
    cases bs with
    | nil => rfl
    | cons q s => simp at h
  | cons p r =>
    cases bs with
    | nil => simp at h
    | cons q s =>
      simp only [bucketOf]
      rw [h]

theorem sameNames_refl (a : Names) : sameNames a a = true := by
  unfold sameNames isSubset
  rw [Bool.and_self, List.all_eq_true]
  intro n hn
  exact List.contains_iff_mem.2 hn

/-- members with one heading: canonical tuples whose attribute names are exactly `names` -/
theorem ofMembers_ok (xs : List V) (names : Names) (h : WFMembers names xs) : RepOK (ofMembers xs) := by
  have hd : ∀ x ∈ dedup xs, CanonT x ∧ ∀ n, has (tupOf x) n = names.contains n :=
    fun x hx => h x ((mem_dedup x xs).1 hx)
  unfold ofMembers
  generalize dedup xs = d at hd
  cases d with
  | nil => exact ⟨trivial, [], rfl⟩
  | cons x r =>
    -- all members have the same list of names, hence the same bucket
    have hnames : ∀ y ∈ x :: r, namesOf y = namesOf x := by
      intro y hy
      obtain ⟨⟨as, e1, s1⟩, h1⟩ := hd y hy
      obtain ⟨⟨bs, e2, s2⟩, h2⟩ := hd x (by simp)
      subst e1; subst e2
      exact names_eq_of_has_eq s1 s2 (fun n => (h1 n).trans (h2 n).symm)
    have hb : ∀ y ∈ x :: r, bucketOf y = bucketOf x := by
      intro y hy
      obtain ⟨⟨as, e1, _⟩, _⟩ := hd y hy
      obtain ⟨⟨bs, e2, _⟩, _⟩ := hd x (by simp)
      have := hnames y hy
      subst e1; subst e2
      exact bucketOf_congr this
    have hall : ((x :: r).all fun y => decide (bucketOf y = bucketOf x)) = true := by
      rw [List.all_eq_true]
      intro y hy
      exact decide_eq_true (hb y hy)
    simp only [hall, if_true]
    cases hbx : bucketOf x with
    | generic =>
      simp only []
      split
      · exact ⟨trivial, [], rfl⟩
      · refine ⟨fun y hy => (hd y hy).1, ?_⟩
        obtain ⟨⟨bs, e2, _⟩, _⟩ := hd x (by simp)
        subst e2
        refine ⟨bs.map (·.1), ?_⟩
        simp only [relationAttrs]
        rw [if_pos]
        rw [List.all_eq_true]
        intro y hy
        obtain ⟨⟨cs, e1, _⟩, _⟩ := hd y (List.mem_cons_of_mem _ hy)
        subst e1
        have := hnames (.tup cs) (List.mem_cons_of_mem _ hy)
        simp only [namesOf, tupOf] at this
        simp only [this]
        exact sameNames_refl _
    | sugar k => exact ⟨trivial, _, rfl⟩
    | names ns =>
      refine ⟨?_, ns, rfl⟩
      obtain ⟨⟨bs, e2, s2⟩, _⟩ := hd x (by simp)
      subst e2
      have hns : bs.map (·.1) = ns := bucketOf_names hbx
      refine ⟨?_, rfl, ?_, by simp⟩
      · rw [← hns]; exact sortedNames_nodup s2
      · intro row hrow
        obtain ⟨t, _, e⟩ := List.mem_map.1 hrow
        rw [← e]; simp

/-- the attribute names of a specified result row depend on the headings only -/
theorem has_joined (op : JoinOp) (aN bN : Names) (t u : Tup)
    (ht : ∀ n, has t n = aN.contains n) (hu : ∀ n, has u n = bN.contains n) (n : String) :
    has (joined op t u) n = keep op aN bN n := by
  have hk : keep op aN bN n = sel op t u n := by unfold keep sel; rw [ht, hu]
  rw [hk]
  unfold has
  rw [get_joined]
  have h1 := ht n
  have h2 := hu n
  unfold has at h1 h2
  unfold sel has
  cases hg1 : get n t <;> cases hg2 : get n u <;>
    cases op <;> simp [JoinOp.keepL, JoinOp.keepC, JoinOp.keepR]

end Arrai.C04
