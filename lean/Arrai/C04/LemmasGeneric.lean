/-
  C04 helper lemmas, part 3: the generic join path (`RelationAttrs` + `GenericJoin` + the eight `combine`
  closures) computes the specified join on canonical tuples.  Core-only.
-/
import Arrai.C04.LemmasSpec

namespace Arrai.C04
open Spec

/-- a canonical tuple value: attributes strictly sorted by name -/
def CanonT (x : V) : Prop := ∃ as, x = .tup as ∧ SortedNames as

theorem canonT_mkTup (as : Tup) : CanonT (V.mkTup as) := ⟨canonAttrs as, rfl, sorted_canonAttrs as⟩

theorem mkTup_tupOf {x : V} (h : CanonT x) : V.mkTup (tupOf x) = x := by
  obtain ⟨as, rfl, hs⟩ := h
  exact mkTup_of_sorted as hs

theorem sorted_tupOf {x : V} (h : CanonT x) : SortedNames (tupOf x) := by
  obtain ⟨as, rfl, hs⟩ := h
  exact hs

theorem get_of_mem_sorted {t : Tup} (hs : SortedNames t) {n : String} {v : V} (h : (n, v) ∈ t) :
    get n t = some v := by
  induction t with
  | nil => simp at h
  | cons p r ih =>
    obtain ⟨m, w⟩ := p
    unfold SortedNames at hs
    rw [List.pairwise_cons] at hs
    rcases List.mem_cons.1 h with e | h'
    · injection e with e1 e2
      subst e1; subst e2; simp
    · have : m < n := hs.1 (n, v) h'
      have hne : m ≠ n := fun e => by subst e; exact String.lt_irrefl _ this
      rw [get_cons]; simp [hne]; exact ih hs.2 h'

theorem has_true_iff (t : Tup) (n : String) : has t n = true ↔ ∃ v, get n t = some v := by
  unfold has
  cases get n t <;> simp

theorem has_false_iff (t : Tup) (n : String) : has t n = false ↔ get n t = none := by
  unfold has
  cases get n t <;> simp

theorem contains_eq_of_iff {l : Names} {m : String} {b : Bool} (h : m ∈ l ↔ b = true) : l.contains m = b := by
  cases b with
  | true => exact List.contains_iff_mem.2 (h.2 rfl)
  | false =>
    cases hc : l.contains m with
    | false => rfl
    | true => exact absurd (h.1 (List.contains_iff_mem.1 hc)) (by simp)

/-! ### projections of a tuple -/

theorem get_map_pair (ns : Names) (f : String → V) (m : String) :
    get m (ns.map fun n => (n, f n)) = if ns.contains m then some (f m) else none := by
  induction ns with
  | nil => simp
  | cons n r ih =>
    simp only [List.map_cons, get_cons, ih, List.contains_cons]
    by_cases e : n = m
    · subst e; simp
    · have : (m == n) = false := by simp; exact fun h => e h.symm
      simp [e, this]

/-- the attribute list `Project(names)` builds -/
def projected (names : Names) (t : Tup) : Tup := names.map fun n => (n, (get n t).getD V.none)

theorem get_projected (names : Names) (t : Tup) (m : String) (h : ∀ n ∈ names, has t n = true) :
    get m (projected names t) = if names.contains m then get m t else none := by
  unfold projected
  rw [get_map_pair]
  cases hc : names.contains m
  · simp
  · have hm : m ∈ names := by simpa using hc
    obtain ⟨v, hv⟩ := (has_true_iff t m).1 (h m hm)
    simp [hv]

theorem projectT_some {names : Names} {x : V} (h : ∀ n ∈ names, has (tupOf x) n = true) :
    Impl.projectT names x = some (V.mkTup (projected names (tupOf x))) := by
  unfold Impl.projectT projected
  have : names.all (has (tupOf x)) = true := List.all_eq_true.2 h
  simp [this]

theorem projectT_eq_iff {names : Names} {x y : V}
    (hx : ∀ n ∈ names, has (tupOf x) n = true) (hy : ∀ n ∈ names, has (tupOf y) n = true) :
    Impl.projectT names x = Impl.projectT names y ↔ ∀ n ∈ names, get n (tupOf x) = get n (tupOf y) := by
  rw [projectT_some hx, projectT_some hy]
  constructor
  · intro h n hn
    injection h with h
    have := mkTup_inj h n
    rw [get_projected _ _ _ hx, get_projected _ _ _ hy] at this
    have hc : names.contains n = true := by simpa using hn
    simp only [hc, if_true] at this
    exact this
  · intro h
    congr 1
    apply mkTup_congr
    intro m
    rw [get_projected _ _ _ hx, get_projected _ _ _ hy]
    cases hc : names.contains m
    · simp
    · have hm : m ∈ names := by simpa using hc
      simp [h m hm]

/-! ### GenericJoin -/

theorem mem_genericJoin (a b : List V) (getKey : V → Option V) (f : V → V → Option V) (m : Option V) :
    m ∈ Impl.genericJoin a b getKey f ↔ ∃ x ∈ a, ∃ y ∈ b, getKey x = getKey y ∧ m = f x y := by
  unfold Impl.genericJoin
  simp only [List.mem_flatMap, List.mem_map, List.mem_filter, decide_eq_true_eq]
  constructor
  · rintro ⟨k, _, x, ⟨hx, hkx⟩, y, ⟨hy, hky⟩, e⟩
    exact ⟨x, hx, y, hy, by rw [hkx, hky], e.symm⟩
  · rintro ⟨x, hx, y, hy, hk, e⟩
    refine ⟨getKey x, ?_, x, ⟨hx, rfl⟩, y, ⟨hy, hk.symm⟩, e.symm⟩
    rw [mem_dedup]
    exact List.mem_map.2 ⟨x, List.mem_append_left _ hx, rfl⟩

/-! ### the `combine` closures -/

section combine
variable (aN bN : Names) (x y : V)
variable (cx : CanonT x) (cy : CanonT y)
variable (hx : ∀ n, has (tupOf x) n = aN.contains n) (hy : ∀ n, has (tupOf y) n = bN.contains n)

theorem common_mem (n : String) : n ∈ aN.filter bN.contains ↔ aN.contains n = true ∧ bN.contains n = true := by
  simp [List.mem_filter]

include hx hy in
theorem agree_iff_common :
    agree (tupOf x) (tupOf y) = true ↔ ∀ n ∈ aN.filter bN.contains, get n (tupOf x) = get n (tupOf y) := by
  rw [agree_iff]
  constructor
  · intro h n hn
    obtain ⟨h1, h2⟩ := (common_mem aN bN n).1 hn
    obtain ⟨v, hv⟩ := (has_true_iff _ n).1 (by rw [hx]; exact h1)
    obtain ⟨w, hw⟩ := (has_true_iff _ n).1 (by rw [hy]; exact h2)
    rw [hv, hw, h n v w hv hw]
  · intro h n v w hv hw
    have h1 : aN.contains n = true := by rw [← hx]; exact (has_true_iff _ n).2 ⟨v, hv⟩
    have h2 : bN.contains n = true := by rw [← hy]; exact (has_true_iff _ n).2 ⟨w, hw⟩
    have := h n ((common_mem aN bN n).2 ⟨h1, h2⟩)
    rw [hv, hw] at this
    injection this

include cx in
theorem mergeT_eq (hag : agree (tupOf x) (tupOf y) = true) :
    Impl.mergeT x y = some (V.mkTup (merge (tupOf x) (tupOf y))) := by
  unfold Impl.mergeT merge
  simp only []
  rw [if_pos]
  rw [List.all_eq_true]
  intro p hp
  cases hu : get p.1 (tupOf y) with
  | none => rfl
  | some w =>
    have hv : get p.1 (tupOf x) = some p.2 := get_of_mem_sorted (sorted_tupOf cx) hp
    simp only [decide_eq_true_eq]
    exact (agree_iff _ _).1 hag p.1 p.2 w hv hu

theorem joined_join_eqv_merge (t u : Tup) : joined .join t u ≃ merge t u := by
  intro n
  rw [get_joined, get_merge]
  unfold sel has
  cases get n t <;> cases get n u <;> simp [JoinOp.keepL, JoinOp.keepC, JoinOp.keepR]

include hx in
theorem minus_names_mem (common : Names) (n : String) :
    n ∈ Impl.minus (Impl.namesOf x) common ↔ aN.contains n = true ∧ common.contains n = false := by
  unfold Impl.minus Impl.namesOf
  rw [List.mem_filter, ← has_iff_mem_names, hx]
  simp

include hx in
theorem contains_minus (common : Names) (m : String) :
    (Impl.minus (Impl.namesOf x) common).contains m = (aN.contains m && !common.contains m) := by
  apply contains_eq_of_iff
  rw [minus_names_mem aN x hx]
  cases aN.contains m <;> cases common.contains m <;> simp

include hx in
theorem projectAllBut_eq (common : Names) :
    ∃ z, Impl.projectAllBut x common = some z ∧ CanonT z ∧
      tupOf z ≃ restrict (fun n => !common.contains n) (tupOf x) := by
  unfold Impl.projectAllBut
  have hall : ∀ n ∈ Impl.minus (Impl.namesOf x) common, has (tupOf x) n = true := by
    intro n hn
    rw [hx]; exact ((minus_names_mem aN x hx common n).1 hn).1
  refine ⟨_, projectT_some hall, canonT_mkTup _, ?_⟩
  intro m
  rw [get_tupOf_mkTup, get_projected _ _ _ hall, get_restrict, contains_minus aN x hx]
  have hxn : aN.contains m = false → get m (tupOf x) = none :=
    fun h => (has_false_iff _ m).1 (by rw [hx]; exact h)
  cases ha : aN.contains m <;> cases hc : common.contains m <;> simp_all

include cx cy hx hy in
/-- each `combine` closure builds, for a pair that agrees on the common names, the tuple the operator
specifies -/
theorem combine_spec (op : JoinOp) (hag : agree (tupOf x) (tupOf y) = true) :
    ∃ z, Impl.combine op (aN.filter bN.contains) x y = some z ∧ CanonT z ∧
      tupOf z ≃ joined op (tupOf x) (tupOf y) := by
  have hcommon : ∀ n, (aN.filter bN.contains).contains n = (aN.contains n && bN.contains n) := by
    intro n
    apply contains_eq_of_iff
    rw [common_mem]
    cases aN.contains n <;> cases bN.contains n <;> simp
  have hkey := (agree_iff_common aN bN x y hx hy).1 hag
  have hxn : ∀ n, aN.contains n = false → get n (tupOf x) = none :=
    fun n h => (has_false_iff _ n).1 (by rw [hx]; exact h)
  have hyn : ∀ n, bN.contains n = false → get n (tupOf y) = none :=
    fun n h => (has_false_iff _ n).1 (by rw [hy]; exact h)
  have hk : ∀ n, aN.contains n = true → bN.contains n = true → get n (tupOf x) = get n (tupOf y) :=
    fun n h1 h2 => hkey n ((common_mem aN bN n).2 ⟨h1, h2⟩)
  cases op with
  | join =>
    refine ⟨_, mergeT_eq x y cx hag, canonT_mkTup _, ?_⟩
    intro n; rw [get_tupOf_mkTup]; exact (joined_join_eqv_merge _ _ n).symm
  | compose =>
    obtain ⟨x', ex, cx', hx'⟩ := projectAllBut_eq aN x hx (aN.filter bN.contains)
    obtain ⟨y', ey, cy', hy'⟩ := projectAllBut_eq bN y hy (aN.filter bN.contains)
    have hag' : agree (tupOf x') (tupOf y') = true := by
      rw [agree_iff]
      intro n v w hv hw
      rw [hx' n, get_restrict, hcommon] at hv
      rw [hy' n, get_restrict, hcommon] at hw
      have := hxn n
      have := hyn n
      cases ha : aN.contains n <;> cases hb : bN.contains n <;> simp_all
    refine ⟨V.mkTup (merge (tupOf x') (tupOf y')), ?_, canonT_mkTup _, ?_⟩
    · show (match Impl.projectAllBut x _, Impl.projectAllBut y _ with
        | some a, some b => Impl.mergeT a b
        | _, _ => none) = _
      rw [ex, ey]
      exact mergeT_eq x' y' cx' hag'
    · intro n
      rw [get_tupOf_mkTup, get_merge, get_joined]
      unfold has
      rw [hx' n, hy' n, get_restrict, get_restrict, hcommon]
      unfold sel
      rw [hx, hy]
      have := hxn n
      have := hyn n
      cases ha : aN.contains n <;> cases hb : bN.contains n <;>
        simp_all [JoinOp.keepL, JoinOp.keepC, JoinOp.keepR]
  | common =>
    have hall : ∀ n ∈ aN.filter bN.contains, has (tupOf x) n = true := by
      intro n hn; rw [hx]; exact ((common_mem aN bN n).1 hn).1
    refine ⟨_, projectT_some hall, canonT_mkTup _, ?_⟩
    intro n
    rw [get_tupOf_mkTup, get_projected _ _ _ hall, get_joined, hcommon]
    unfold sel
    rw [hx, hy]
    cases ha : aN.contains n <;> cases hb : bN.contains n <;>
      simp [JoinOp.keepL, JoinOp.keepC, JoinOp.keepR]
  | exists_ =>
    refine ⟨.tup [], rfl, ⟨[], rfl, List.Pairwise.nil⟩, ?_⟩
    intro n
    rw [get_joined]
    simp [sel, JoinOp.keepL, JoinOp.keepC, JoinOp.keepR, tupOf]
  | rmatch =>
    refine ⟨y, rfl, cy, ?_⟩
    intro n
    rw [get_joined]
    unfold sel
    rw [hx, hy]
    have := hxn n
    have := hyn n
    have := hk n
    cases ha : aN.contains n <;> cases hb : bN.contains n <;>
      simp_all [JoinOp.keepL, JoinOp.keepC, JoinOp.keepR]
  | lmatch =>
    refine ⟨x, rfl, cx, ?_⟩
    intro n
    rw [get_joined]
    unfold sel
    rw [hx, hy]
    have := hxn n
    have := hyn n
    cases ha : aN.contains n <;> cases hb : bN.contains n <;>
      simp_all [JoinOp.keepL, JoinOp.keepC, JoinOp.keepR]
  | rres =>
    obtain ⟨y', ey, cy', hy'⟩ := projectAllBut_eq bN y hy (aN.filter bN.contains)
    refine ⟨y', ey, cy', ?_⟩
    intro n
    rw [hy' n, get_restrict, get_joined, hcommon]
    unfold sel
    rw [hx, hy]
    have := hxn n
    have := hyn n
    cases ha : aN.contains n <;> cases hb : bN.contains n <;>
      simp_all [JoinOp.keepL, JoinOp.keepC, JoinOp.keepR]
  | lres =>
    obtain ⟨x', ex, cx', hx'⟩ := projectAllBut_eq aN x hx (aN.filter bN.contains)
    refine ⟨x', ex, cx', ?_⟩
    intro n
    rw [hx' n, get_restrict, get_joined, hcommon]
    unfold sel
    rw [hx, hy]
    have := hxn n
    have := hyn n
    cases ha : aN.contains n <;> cases hb : bN.contains n <;>
      simp_all [JoinOp.keepL, JoinOp.keepC, JoinOp.keepR]

end combine

/-- members of a well-formed operand: canonical tuples with the heading `names` -/
def WFMembers (names : Names) (xs : List V) : Prop :=
  ∀ x ∈ xs, CanonT x ∧ ∀ n, has (tupOf x) n = names.contains n

/-- the generic path adds no `nil` tuple, adds only canonical tuples, and adds exactly the specified rows -/
theorem generic_members (op : JoinOp) (aN bN : Names) (as bs : List V)
    (hA : WFMembers aN as) (hB : WFMembers bN bs) :
    let ms := Impl.genericJoin as bs (Impl.projectT (aN.filter bN.contains))
      (Impl.combine op (aN.filter bN.contains))
    (∀ m ∈ ms, m.isSome = true) ∧ (∀ z ∈ ms.filterMap id, CanonT z) ∧
      RelEqv ((ms.filterMap id).map tupOf) (joinRows op (as.map tupOf) (bs.map tupOf)) := by
  intro ms
  have hkeyx : ∀ x ∈ as, ∀ n ∈ aN.filter bN.contains, has (tupOf x) n = true := by
    intro x hx n hn; rw [(hA x hx).2]; exact ((common_mem aN bN n).1 hn).1
  have hkeyy : ∀ y ∈ bs, ∀ n ∈ aN.filter bN.contains, has (tupOf y) n = true := by
    intro y hy n hn; rw [(hB y hy).2]; exact ((common_mem aN bN n).1 hn).2
  -- every member is `combine` of a key-equal, hence agreeing, pair
  have hmem : ∀ m, m ∈ ms ↔ ∃ x ∈ as, ∃ y ∈ bs, agree (tupOf x) (tupOf y) = true ∧
      m = Impl.combine op (aN.filter bN.contains) x y := by
    intro m
    rw [mem_genericJoin]
    constructor
    · rintro ⟨x, hx, y, hy, hk, e⟩
      refine ⟨x, hx, y, hy, ?_, e⟩
      rw [agree_iff_common aN bN x y (hA x hx).2 (hB y hy).2]
      exact (projectT_eq_iff (hkeyx x hx) (hkeyy y hy)).1 hk
    · rintro ⟨x, hx, y, hy, hag, e⟩
      refine ⟨x, hx, y, hy, ?_, e⟩
      rw [projectT_eq_iff (hkeyx x hx) (hkeyy y hy)]
      exact (agree_iff_common aN bN x y (hA x hx).2 (hB y hy).2).1 hag
  refine ⟨?_, ?_, ?_, ?_⟩
  · intro m hm
    obtain ⟨x, hx, y, hy, hag, e⟩ := (hmem m).1 hm
    obtain ⟨z, ez, _, _⟩ := combine_spec aN bN x y (hA x hx).1 (hB y hy).1 (hA x hx).2 (hB y hy).2 op hag
    rw [e, ez]; rfl
  · intro z hz
    rw [List.mem_filterMap] at hz
    obtain ⟨m, hm, e⟩ := hz
    obtain ⟨x, hx, y, hy, hag, e'⟩ := (hmem m).1 hm
    obtain ⟨z', ez, cz, _⟩ := combine_spec aN bN x y (hA x hx).1 (hB y hy).1 (hA x hx).2 (hB y hy).2 op hag
    rw [e', ez] at e
    simp at e; rw [← e]; exact cz
  · intro t ht
    obtain ⟨z, hz, e⟩ := List.mem_map.1 ht
    rw [List.mem_filterMap] at hz
    obtain ⟨m, hm, em⟩ := hz
    obtain ⟨x, hx, y, hy, hag, e'⟩ := (hmem m).1 hm
    obtain ⟨z', ez, _, hz'⟩ := combine_spec aN bN x y (hA x hx).1 (hB y hy).1 (hA x hx).2 (hB y hy).2 op hag
    rw [e', ez] at em
    simp at em
    refine ⟨joined op (tupOf x) (tupOf y), ?_, ?_⟩
    · exact (mem_joinRows op _ _ _).2
        ⟨tupOf x, List.mem_map.2 ⟨x, hx, rfl⟩, tupOf y, List.mem_map.2 ⟨y, hy, rfl⟩, hag, rfl⟩
    · rw [← e, ← em]; exact hz'
  · intro t ht
    obtain ⟨tx, htx, ty, hty, hag, e⟩ := (mem_joinRows op _ _ t).1 ht
    obtain ⟨x, hx, ex⟩ := List.mem_map.1 htx
    obtain ⟨y, hy, ey⟩ := List.mem_map.1 hty
    subst ex; subst ey
    obtain ⟨z, ez, _, hz⟩ := combine_spec aN bN x y (hA x hx).1 (hB y hy).1 (hA x hx).2 (hB y hy).2 op hag
    refine ⟨tupOf z, List.mem_map.2 ⟨z, ?_, rfl⟩, ?_⟩
    · rw [List.mem_filterMap]
      exact ⟨some z, (hmem _).2 ⟨x, hx, y, hy, hag, ez.symm⟩, rfl⟩
    · rw [e]; exact hz

end Arrai.C04
