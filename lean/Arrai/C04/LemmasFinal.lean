/-
  C04 helper lemmas, part 8: `JoinCommonOnly`, `positionalRelation.Join` as a whole, the tuple an output
  row denotes, and `Relation.Join`.  Core-only.
-/
import Arrai.C04.LemmasJoin

namespace Arrai.C04
open Spec Impl

/-! ### JoinCommonOnly -/

theorem posIn_spec {index : Nat} {key : Proj} {i j : Nat} (h : posIn index key i = some j) :
    i ≤ j ∧ key[j - i]? = some index := by
  induction key generalizing i with
  | nil => simp [posIn] at h
  | cons x xs ih =>
    unfold posIn at h
    cases hrec : posIn index xs (i + 1) with
    | some j' =>
      rw [hrec] at h
      simp at h
      subst h
      have := ih hrec
      refine ⟨by omega, ?_⟩
      have e : j' - i = (j' - (i + 1)) + 1 := by omega
      rw [e, List.getElem?_cons_succ]
      exact this.2
    | none =>
      rw [hrec] at h
      by_cases e : x = index
      · simp [e] at h; subst h; simp [e]
      · simp [e] at h

theorem posIn_some_of_mem {index : Nat} {key : Proj} (i : Nat) (h : index ∈ key) :
    ∃ j, posIn index key i = some j := by
  induction key generalizing i with
  | nil => simp at h
  | cons x xs ih =>
    unfold posIn
    cases hrec : posIn index xs (i + 1) with
    | some j' => exact ⟨j', rfl⟩
    | none =>
      rcases List.mem_cons.1 h with e | h'
      · exact ⟨i, by simp [e]⟩
      · obtain ⟨j, hj⟩ := ih (i + 1) h'
        rw [hrec] at hj; cases hj

theorem remap_ok {key value : Proj} (h : ∀ i ∈ value, i ∈ key) :
    ∃ output, remap key value = .ok output ∧ output.length = value.length ∧
      ∀ f : Nat → V, output.map (fun j => (key.map f).getD j V.none) = value.map f := by
  induction value with
  | nil => exact ⟨[], rfl, rfl, fun _ => rfl⟩
  | cons a r ih =>
    obtain ⟨out, ho, hlen, hmap⟩ := ih (fun i hi => h i (List.mem_cons_of_mem _ hi))
    obtain ⟨j, hj⟩ := posIn_some_of_mem 0 (h a (by simp))
    refine ⟨j :: out, ?_, by simp [hlen], fun f => ?_⟩
    · unfold remap
      rw [hj, ho]; rfl
    · rw [List.map_cons, List.map_cons, hmap f]
      congr 1
      have := (posIn_spec hj).2
      simp only [Nat.sub_zero] at this
      rw [List.getD_eq_getElem?_getD, List.getElem?_map, this]
      rfl

theorem project_remap {key value : Proj} (h : ∀ i ∈ value, i ∈ key) :
    ∃ output, remap key value = .ok output ∧ ∀ row, project output (project key row) = project value row := by
  obtain ⟨out, ho, hlen, hmap⟩ := remap_ok h
  refine ⟨out, ho, fun row => ?_⟩
  cases value with
  | nil =>
    have : out = [] := List.eq_nil_of_length_eq_zero (by simpa using hlen)
    subst this
    simp [project]
  | cons a r =>
    have hkey : key ≠ [] := by
      intro e; subst e; have := h a (by simp); simp at this
    have hout : out ≠ [] := by
      intro e; subst e; simp at hlen
    cases row with
    | nil => simp [project]
    | cons v vs =>
      have h1 : key.isEmpty = false := by cases key <;> simp_all
      have h2 : out.isEmpty = false := by cases out <;> simp_all
      have h3 : (key.map fun i => (v :: vs).getD i V.none).isEmpty = false := by cases key <;> simp_all
      unfold project
      simp only [h1, h2, h3, List.isEmpty_cons, Bool.or_self, Bool.false_eq_true, if_false]
      exact hmap _

theorem mem_keys_groupBy (rows : List Row) (p : Proj) (k : Row) (hne : rows ≠ []) :
    k ∈ (groupBy rows p).map (·.1) ↔ ∃ l ∈ rows, project p l = k := by
  unfold groupBy
  by_cases hp : p.length = 0
  · have hp' : p = [] := List.eq_nil_of_length_eq_zero hp
    subst hp'
    obtain ⟨r0, hr0⟩ := List.exists_mem_of_ne_nil rows hne
    simp only [List.length_nil, beq_self_eq_true, if_true, List.map_cons, List.map_nil,
      List.mem_singleton, project_nil]
    constructor
    · intro e; exact ⟨r0, hr0, e.symm⟩
    · rintro ⟨_, _, e⟩; exact e.symm
  · have : (p.length == 0) = false := by simp [hp]
    simp only [this, Bool.false_eq_true, if_false, List.map_map]
    rw [show ((fun x : Row × List Row => x.1) ∘ fun k => (k, rows.filter fun r => decide (project p r = k))) = id from rfl,
      List.map_id, mem_dedup, List.mem_map]

theorem joinCommonOnly_mem (r r2 : List Row) (lk rk lo ro : Proj) (h1 : r ≠ []) (h2 : r2 ≠ [])
    (side : (ro = [] ∧ ∀ i ∈ lo, i ∈ lk) ∨ (lo = [] ∧ ∀ i ∈ ro, i ∈ rk)) :
    ∃ rows, joinCommonOnly r r2 lk rk lo ro = .ok rows ∧ ∀ x, x ∈ rows ↔ Matched r r2 lk rk lo ro x := by
  -- the keys present on both sides
  have hkeys : ∀ k, k ∈ ((groupBy r lk).map (·.1)).filter (fun k => hasKey (groupBy r2 rk) k) ↔
      (∃ l ∈ r, project lk l = k) ∧ (∃ r' ∈ r2, project rk r' = k) := by
    intro k
    rw [List.mem_filter, mem_keys_groupBy r lk k h1, hasKey_groupBy r2 rk k h2]
  -- the generic shape: the result is the image of the keys under a translation `tr`
  have core : ∀ (key value : Proj), (∀ i ∈ value, i ∈ key) → ∀ keys : List Row,
      ∃ (rows : List Row) (tr : Row → Row), commonOnlyOut key value keys = Except.ok rows ∧
        (∀ row, tr (project key row) = project value row) ∧ ∀ x, x ∈ rows ↔ ∃ k ∈ keys, x = tr k := by
    intro key value hv keys
    by_cases e : key = value
    · subst e
      refine ⟨dedup keys, id, by simp [commonOnlyOut], fun _ => rfl, fun x => ?_⟩
      rw [mem_dedup]
      constructor
      · intro hx; exact ⟨x, hx, rfl⟩
      · rintro ⟨k, hk, e⟩; rw [e]; exact hk
    · obtain ⟨out, ho, hproj⟩ := project_remap hv
      refine ⟨dedup (keys.map (project out)), project out, by simp [commonOnlyOut, e, ho], hproj, fun x => ?_⟩
      rw [mem_dedup, List.mem_map]
      constructor
      · rintro ⟨k, hk, e'⟩; exact ⟨k, hk, e'.symm⟩
      · rintro ⟨k, hk, e'⟩; exact ⟨k, hk, e'.symm⟩
  unfold joinCommonOnly Matched
  rcases side with ⟨hro, hlo⟩ | ⟨hlo, hro⟩
  · subst hro
    by_cases hl0 : lo.length = 0
    · have : lo = [] := List.eq_nil_of_length_eq_zero hl0
      subst this
      obtain ⟨rows, tr, hr, htr, hmem⟩ := core rk [] (by simp) _
      refine ⟨rows, by simpa using hr, fun x => ?_⟩
      rw [hmem]
      simp only [project_nil, List.append_nil]
      constructor
      · rintro ⟨k, hk, e⟩
        obtain ⟨⟨l, hl, e1⟩, ⟨r', hr', e2⟩⟩ := (hkeys k).1 hk
        refine ⟨l, hl, r', hr', by rw [e1, e2], ?_⟩
        rw [e, ← e2, htr r', project_nil]
      · rintro ⟨l, hl, r', hr', ek, e⟩
        refine ⟨project rk r', (hkeys _).2 ⟨⟨l, hl, ek⟩, ⟨r', hr', rfl⟩⟩, ?_⟩
        rw [htr r', project_nil]; exact e
    · have hne : (lo.length == 0) = false := by simp [hl0]
      obtain ⟨rows, tr, hr, htr, hmem⟩ := core lk lo hlo _
      refine ⟨rows, by simpa [hne] using hr, fun x => ?_⟩
      rw [hmem]
      simp only [project_nil, List.append_nil]
      constructor
      · rintro ⟨k, hk, e⟩
        obtain ⟨⟨l, hl, e1⟩, ⟨r', hr', e2⟩⟩ := (hkeys k).1 hk
        refine ⟨l, hl, r', hr', by rw [e1, e2], ?_⟩
        rw [e, ← e1, htr l]
      · rintro ⟨l, hl, r', hr', ek, e⟩
        refine ⟨project lk l, (hkeys _).2 ⟨⟨l, hl, rfl⟩, ⟨r', hr', ek.symm⟩⟩, ?_⟩
        rw [htr l]; exact e
  · subst hlo
    obtain ⟨rows, tr, hr, htr, hmem⟩ := core rk ro hro _
    refine ⟨rows, by simpa using hr, fun x => ?_⟩
    rw [hmem]
    simp only [project_nil, List.nil_append]
    constructor
    · rintro ⟨k, hk, e⟩
      obtain ⟨⟨l, hl, e1⟩, ⟨r', hr', e2⟩⟩ := (hkeys k).1 hk
      refine ⟨l, hl, r', hr', by rw [e1, e2], ?_⟩
      rw [e, ← e2, htr r']
    · rintro ⟨l, hl, r', hr', ek, e⟩
      refine ⟨project rk r', (hkeys _).2 ⟨⟨l, hl, ek⟩, ⟨r', hr', rfl⟩⟩, ?_⟩
      rw [htr r']; exact e

/-! ### positionalRelation.Join -/

theorem posJoin_mem (r r2 : List Row) (lk rk lo ro : Proj) (m : Mode)
    (hm : createMode lk rk lo ro = .ok m) (side : SideOK (strategyOf m) lk rk lo ro)
    (h1 : r ≠ []) (h2 : r2 ≠ [])
    (hw1 : ∀ v ∈ r, ∀ v' ∈ r, v.length = v'.length) (hw2 : ∀ v ∈ r2, ∀ v' ∈ r2, v.length = v'.length) :
    ∃ rows, posJoin r r2 lk rk lo ro = .ok rows ∧ ∀ x, x ∈ rows ↔ Matched r r2 lk rk lo ro x := by
  unfold posJoin
  rw [hm]
  simp only []
  cases hs : strategyOf m with
  | keepEverything =>
    exact ⟨_, rfl, fun x => joinKeepEverything_mem r r2 lk rk lo ro x h2⟩
  | oneSideLeft =>
    rw [hs] at side
    simp only [SideOK] at side
    subst side
    obtain ⟨rows, hr, hmem⟩ := joinOneSide_mem r r2 lk rk lo h1 h2 hw1
    refine ⟨rows, hr, fun x => ?_⟩
    rw [hmem]
    unfold Matched
    simp only [project_nil, List.append_nil]
    constructor
    · rintro ⟨l, hl, ⟨r', hr', e⟩, ex⟩; exact ⟨l, hl, r', hr', e.symm, ex⟩
    · rintro ⟨l, hl, r', hr', e, ex⟩; exact ⟨l, hl, ⟨r', hr', e.symm⟩, ex⟩
  | oneSideRight =>
    rw [hs] at side
    simp only [SideOK] at side
    subst side
    obtain ⟨rows, hr, hmem⟩ := joinOneSide_mem r2 r rk lk ro h2 h1 hw2
    refine ⟨rows, hr, fun x => ?_⟩
    rw [hmem]
    unfold Matched
    simp only [project_nil, List.nil_append]
    constructor
    · rintro ⟨r', hr', ⟨l, hl, e⟩, ex⟩; exact ⟨l, hl, r', hr', e, ex⟩
    · rintro ⟨l, hl, r', hr', e, ex⟩; exact ⟨r', hr', ⟨l, hl, e⟩, ex⟩
  | commonOnly =>
    rw [hs] at side
    exact joinCommonOnly_mem r r2 lk rk lo ro h1 h2 side
  | ifCommonExist =>
    rw [hs] at side
    simp only [SideOK] at side
    obtain ⟨hlo, hro⟩ := side
    subst hlo; subst hro
    exact ⟨_, rfl, fun x => joinIfCommonExist_mem r r2 lk rk h1 h2 x⟩

end Arrai.C04
