/-
  C04 helper lemmas, part 5: the positional path — indices and projections in terms of attribute names,
  `groupBy`, and the five strategies of `positionalRelation.Join`: each computes
  `{ project lo l ++ project ro r | l ∈ rows₁, r ∈ rows₂, project lk l = project rk r }`.  Core-only.
-/
import Arrai.C04.LemmasRep

namespace Arrai.C04
open Spec Impl

/-! ### indices of names -/

/-- the position `getIndices` assigns to a name of the heading -/
def idxOf (attrs : Names) (n : String) : Nat := (indexOf n attrs).getD 0

theorem indexOf_some_of_mem {n : String} {attrs : Names} (h : n ∈ attrs) : ∃ i, indexOf n attrs = some i := by
  induction attrs with
  | nil => simp at h
  | cons a as ih =>
    unfold indexOf
    by_cases e : a = n
    · exact ⟨0, by simp [e]⟩
    · rcases List.mem_cons.1 h with h' | h'
      · exact absurd h'.symm e
      · obtain ⟨i, hi⟩ := ih h'
        exact ⟨i + 1, by simp [e, hi]⟩

theorem indexOf_lt {n : String} {attrs : Names} {i : Nat} (h : indexOf n attrs = some i) :
    i < attrs.length ∧ attrs[i]? = some n := by
  induction attrs generalizing i with
  | nil => simp [indexOf] at h
  | cons a as ih =>
    unfold indexOf at h
    by_cases e : a = n
    · simp [e] at h; subst h; simp [e]
    · simp only [e, if_false] at h
      cases hi : indexOf n as with
      | none => simp [hi] at h
      | some j =>
        simp [hi] at h
        subst h
        have := ih hi
        exact ⟨by simp [this.1], by rw [List.getElem?_cons_succ]; exact this.2⟩

theorem idxOf_lt {n : String} {attrs : Names} (h : n ∈ attrs) : idxOf attrs n < attrs.length := by
  obtain ⟨i, hi⟩ := indexOf_some_of_mem h
  unfold idxOf; rw [hi]; exact (indexOf_lt hi).1

theorem idxOf_inj {n m : String} {attrs : Names} (hn : n ∈ attrs) (hm : m ∈ attrs)
    (h : idxOf attrs n = idxOf attrs m) : n = m := by
  obtain ⟨i, hi⟩ := indexOf_some_of_mem hn
  obtain ⟨j, hj⟩ := indexOf_some_of_mem hm
  unfold idxOf at h
  rw [hi, hj] at h
  simp at h
  subst h
  have h1 := (indexOf_lt hi).2
  have h2 := (indexOf_lt hj).2
  rw [h1] at h2
  injection h2

theorem getIndices_ok {attrs names : Names} (h : ∀ n ∈ names, n ∈ attrs) :
    getIndices attrs names = .ok (names.map (idxOf attrs)) := by
  induction names with
  | nil => rfl
  | cons n ns ih =>
    obtain ⟨i, hi⟩ := indexOf_some_of_mem (h n (by simp))
    unfold getIndices
    rw [hi, ih (fun m hm => h m (List.mem_cons_of_mem _ hm))]
    simp [idxOf, hi, Except.map]

theorem compose_range {n : Nat} {idx : List Nat} (h : ∀ i ∈ idx, i < n) : compose (List.range n) idx = idx := by
  unfold compose
  have : ∀ i ∈ idx, (fun i => (List.range n).getD i 0) i = id i := by
    intro i hi
    have := h i hi
    simp [List.getD_eq_getElem?_getD, List.getElem?_range this]
  rw [List.map_congr_left this, List.map_id]

/-! ### projections in terms of names -/

/-- the values of `names` in a tuple -/
def vals (names : Names) (t : Tup) : Row := names.map fun n => (get n t).getD V.none

theorem get_zip_index {attrs : Names} {row : Row} {n : String} {i : Nat}
    (h : indexOf n attrs = some i) (hl : row.length = attrs.length) :
    get n (attrs.zip row) = row[i]? := by
  induction attrs generalizing row i with
  | nil => simp [indexOf] at h
  | cons a as ih =>
    cases row with
    | nil => simp at hl
    | cons v vs =>
      simp only [List.length_cons] at hl
      have hl' : vs.length = as.length := by omega
      unfold indexOf at h
      rw [List.zip_cons_cons, get_cons]
      by_cases e : a = n
      · simp [e] at h; subst h; simp [e]
      · simp only [e, if_false] at h ⊢
        cases hi : indexOf n as with
        | none => simp [hi] at h
        | some j =>
          simp [hi] at h
          subst h
          rw [ih hi hl']
          simp

theorem project_names {attrs names : Names} {row : Row} (h : ∀ n ∈ names, n ∈ attrs)
    (hl : row.length = attrs.length) :
    project (names.map (idxOf attrs)) row = vals names (attrs.zip row) := by
  unfold project vals
  cases hn : names with
  | nil => simp
  | cons n0 ns0 =>
    rw [← hn]
    have hrow : row ≠ [] := by
      intro e
      subst e
      have : attrs = [] := by cases attrs <;> simp_all
      subst this
      have := h n0 (by rw [hn]; simp)
      simp at this
    have h1 : (names.map (idxOf attrs)).isEmpty = false := by rw [hn]; simp
    have h2 : row.isEmpty = false := by cases row <;> simp_all
    simp only [h1, h2, Bool.or_self, Bool.false_eq_true, if_false, List.map_map]
    apply List.map_congr_left
    intro n hnm
    obtain ⟨i, hi⟩ := indexOf_some_of_mem (h n hnm)
    simp only [Function.comp, idxOf, hi, Option.getD_some]
    rw [get_zip_index hi hl, List.getD_eq_getElem?_getD]

theorem vals_length (names : Names) (t : Tup) : (vals names t).length = names.length := by simp [vals]

theorem vals_eq_iff {names : Names} {t u : Tup} (ht : ∀ n ∈ names, has t n = true)
    (hu : ∀ n ∈ names, has u n = true) :
    vals names t = vals names u ↔ ∀ n ∈ names, get n t = get n u := by
  unfold vals
  constructor
  · intro h n hn
    have := List.map_inj_left.1 h n hn
    obtain ⟨v, hv⟩ := (has_true_iff t n).1 (ht n hn)
    obtain ⟨w, hw⟩ := (has_true_iff u n).1 (hu n hn)
    rw [hv, hw] at this ⊢
    simp at this
    rw [this]
  · intro h
    apply List.map_congr_left
    intro n hn
    rw [h n hn]

theorem get_zip_vals {names : Names} {t : Tup} (n : String) (ht : ∀ m ∈ names, has t m = true) :
    get n (names.zip (vals names t)) = if names.contains n then get n t else none := by
  unfold vals
  rw [zip_map_self, get_map_pair]
  cases hc : names.contains n
  · simp
  · obtain ⟨v, hv⟩ := (has_true_iff t n).1 (ht n (by simpa using hc))
    simp [hv]

/-! ### groupBy -/

theorem lookupKey_map (keys : List Row) (f : Row → List Row) (k : Row) :
    lookupKey (keys.map fun k => (k, f k)) k = if k ∈ keys then some (f k) else none := by
  induction keys with
  | nil => simp [lookupKey]
  | cons a r ih =>
    simp only [List.map_cons, lookupKey]
    by_cases e : a = k
    · subst e; simp
    · have : ¬ k = a := fun h => e h.symm
      simp [e, this, ih]

theorem lookupKey_groupBy (rows : List Row) (p : Proj) (k : Row) (hne : rows ≠ []) :
    lookupKey (groupBy rows p) k =
      if ∃ r ∈ rows, project p r = k then some (rows.filter fun r => decide (project p r = k)) else none := by
  unfold groupBy
  by_cases hp : p.length = 0
  · have hp' : p = [] := List.eq_nil_of_length_eq_zero hp
    subst hp'
    have hproj : ∀ r : Row, project [] r = [] := fun r => by simp [project]
    simp only [List.length_nil, beq_self_eq_true, if_true, lookupKey, hproj]
    obtain ⟨r0, hr0⟩ := List.exists_mem_of_ne_nil rows hne
    by_cases e : [] = k
    · subst e
      have : ∃ r, r ∈ rows ∧ ([] : Row) = [] := ⟨r0, hr0, rfl⟩
      rw [if_pos rfl, if_pos this]
      congr 1
      exact (List.filter_eq_self.2 (by intro a _; simp)).symm
    · have : ¬ ∃ r, r ∈ rows ∧ ([] : Row) = k := fun ⟨_, _, h⟩ => e h
      simp [e, this]
  · have : (p.length == 0) = false := by simp [hp]
    simp only [this, Bool.false_eq_true, if_false]
    rw [lookupKey_map]
    have : k ∈ dedup (rows.map (project p)) ↔ ∃ r ∈ rows, project p r = k := by
      rw [mem_dedup, List.mem_map]
    by_cases hk : k ∈ dedup (rows.map (project p))
    · simp [hk, this.1 hk]
    · have hn : ¬ ∃ r ∈ rows, project p r = k := fun h => hk (this.2 h)
      simp [hk, hn]

theorem hasKey_groupBy (rows : List Row) (p : Proj) (k : Row) (hne : rows ≠ []) :
    hasKey (groupBy rows p) k = true ↔ ∃ r ∈ rows, project p r = k := by
  unfold hasKey
  rw [lookupKey_groupBy rows p k hne]
  by_cases h : ∃ r ∈ rows, project p r = k <;> simp [h]

theorem mem_groupBy (rows : List Row) (p : Proj) (e : Row × List Row) (he : e ∈ groupBy rows p) :
    ∀ l, l ∈ e.2 ↔ l ∈ rows ∧ project p l = e.1 := by
  unfold groupBy at he
  by_cases hp : p.length = 0
  · have hp' : p = [] := List.eq_nil_of_length_eq_zero hp
    subst hp'
    simp at he
    subst he
    intro l
    simp [project]
  · have : (p.length == 0) = false := by simp [hp]
    simp only [this, Bool.false_eq_true, if_false, List.mem_map] at he
    obtain ⟨k, _, e'⟩ := he
    subst e'
    intro l
    simp [List.mem_filter]

theorem groupBy_covers (rows : List Row) (p : Proj) (l : Row) (hl : l ∈ rows) :
    ∃ e ∈ groupBy rows p, e.1 = project p l ∧ l ∈ e.2 := by
  unfold groupBy
  by_cases hp : p.length = 0
  · have hp' : p = [] := List.eq_nil_of_length_eq_zero hp
    subst hp'
    exact ⟨([], rows), by simp, by simp [project], hl⟩
  · have : (p.length == 0) = false := by simp [hp]
    simp only [this, Bool.false_eq_true, if_false]
    refine ⟨(project p l, rows.filter fun r => decide (project p r = project p l)), ?_, rfl, ?_⟩
    · exact List.mem_map.2 ⟨project p l, (mem_dedup _ _).2 (List.mem_map.2 ⟨l, hl, rfl⟩), rfl⟩
    · simp [List.mem_filter, hl]

/-! ### the strategies -/

/-- what every strategy has to compute -/
def Matched (r r2 : List Row) (lk rk lo ro : Proj) (x : Row) : Prop :=
  ∃ l ∈ r, ∃ r' ∈ r2, project lk l = project rk r' ∧ x = project lo l ++ project ro r'

theorem joinKeepEverything_mem (r r2 : List Row) (lk rk lo ro : Proj) (x : Row) (h2 : r2 ≠ []) :
    x ∈ joinKeepEverything r r2 lk rk lo ro ↔ Matched r r2 lk rk lo ro x := by
  unfold joinKeepEverything Matched
  simp only [mem_dedup, List.mem_flatMap]
  constructor
  · rintro ⟨e, he, hx⟩
    rw [lookupKey_groupBy r2 rk e.1 h2] at hx
    by_cases hk : ∃ r' ∈ r2, project rk r' = e.1
    · simp only [hk, if_true, List.mem_flatMap, List.mem_map, List.mem_filter, decide_eq_true_eq] at hx
      obtain ⟨l, hl, r', ⟨hr', hkr⟩, e'⟩ := hx
      have := (mem_groupBy r lk e he l).1 hl
      exact ⟨l, this.1, r', hr', by rw [this.2, hkr], e'.symm⟩
    · simp [hk] at hx
  · rintro ⟨l, hl, r', hr', hk, e'⟩
    obtain ⟨e, he, hek, hle⟩ := groupBy_covers r lk l hl
    refine ⟨e, he, ?_⟩
    rw [lookupKey_groupBy r2 rk e.1 h2]
    have : ∃ r' ∈ r2, project rk r' = e.1 := ⟨r', hr', by rw [hek, hk]⟩
    simp only [this, if_true, List.mem_flatMap, List.mem_map, List.mem_filter, decide_eq_true_eq]
    exact ⟨l, hle, r', ⟨hr', by rw [hek, hk]⟩, e'.symm⟩

theorem isIdentityFrom_project (p : Proj) (s : Nat) (pre v : Row) (hs : pre.length = s)
    (h : isIdentityFrom s p = true) (hl : p.length = v.length) :
    p.map (fun i => (pre ++ v).getD i V.none) = v := by
  induction p generalizing s pre v with
  | nil => cases v <;> simp_all
  | cons a as ih =>
    cases v with
    | nil => simp at hl
    | cons w ws =>
      simp only [isIdentityFrom, Bool.and_eq_true, beq_iff_eq] at h
      simp only [List.length_cons] at hl
      have hl' : as.length = ws.length := by omega
      rw [List.map_cons]
      congr 1
      · rw [h.1, ← hs]; simp
      · have := ih (s + 1) (pre ++ [w]) ws (by simp [hs]) h.2 hl'
        simpa using this

theorem isIdentity_project (p : Proj) (v : Row) (h : isIdentity p v.length = true) : project p v = v := by
  unfold isIdentity at h
  simp only [Bool.and_eq_true, beq_iff_eq] at h
  unfold project
  cases v with
  | nil =>
    have : p = [] := List.eq_nil_of_length_eq_zero (by simpa using h.1)
    simp [this]
  | cons w ws =>
    have hp : p.isEmpty = false := by cases p <;> simp_all
    simp only [hp, List.isEmpty_cons, Bool.or_self, Bool.false_eq_true, if_false]
    have := isIdentityFrom_project p 0 [] (w :: ws) rfl h.2 h.1
    simpa using this

theorem joinOneSide_mem (base other : List Row) (key okey output : Proj) (hb : base ≠ [])
    (ho : other ≠ []) (hw : ∀ v ∈ base, ∀ v' ∈ base, v.length = v'.length) :
    ∃ rows, joinOneSide base (groupBy other okey) key output = .ok rows ∧
      ∀ x, x ∈ rows ↔ ∃ l ∈ base, (∃ r' ∈ other, project okey r' = project key l) ∧ x = project output l := by
  unfold joinOneSide
  cases base with
  | nil => exact absurd rfl hb
  | cons b0 bs =>
    simp only [width]
    by_cases hid : isIdentity output b0.length = true
    · simp only [hid, if_true]
      refine ⟨_, rfl, fun x => ?_⟩
      simp only [List.mem_filter, hasKey_groupBy other okey _ ho]
      constructor
      · rintro ⟨hx, hk⟩
        refine ⟨x, hx, hk, ?_⟩
        have : x.length = b0.length := hw x hx b0 (by simp)
        rw [isIdentity_project output x (by rw [this]; exact hid)]
      · rintro ⟨l, hl, hk, e⟩
        have : l.length = b0.length := hw l hl b0 (by simp)
        rw [isIdentity_project output l (by rw [this]; exact hid)] at e
        subst e
        exact ⟨hl, hk⟩
    · simp only [hid, Bool.false_eq_true, if_false]
      refine ⟨_, rfl, fun x => ?_⟩
      simp only [mem_dedup, List.mem_map, List.mem_filter, hasKey_groupBy other okey _ ho]
      constructor
      · rintro ⟨l, ⟨hl, hk⟩, e⟩
        exact ⟨l, hl, hk, e.symm⟩
      · rintro ⟨l, hl, hk, e⟩
        exact ⟨l, ⟨hl, hk⟩, e.symm⟩

theorem project_nil (v : Row) : project [] v = [] := by simp [project]

theorem joinIfCommonExist_mem (r r2 : List Row) (lk rk : Proj) (h1 : r ≠ []) (h2 : r2 ≠ []) (x : Row) :
    x ∈ joinIfCommonExist r r2 lk rk ↔ Matched r r2 lk rk [] [] x := by
  unfold joinIfCommonExist Matched
  simp only [project_nil, List.append_nil]
  by_cases hc : (dedup r).length > (dedup r2).length
  · simp only [hc, if_true]
    by_cases hany : (r.any fun row => hasKey (groupBy r2 rk) (project lk row)) = true
    · simp only [hany, if_true, truePosRel, List.mem_singleton]
      rw [List.any_eq_true] at hany
      obtain ⟨l, hl, hk⟩ := hany
      obtain ⟨r', hr', e⟩ := (hasKey_groupBy r2 rk _ h2).1 hk
      constructor
      · intro hx; exact ⟨l, hl, r', hr', e.symm, hx⟩
      · rintro ⟨_, _, _, _, _, hx⟩; exact hx
    · simp only [hany, Bool.false_eq_true, if_false, falsePosRel, List.not_mem_nil, false_iff]
      rintro ⟨l, hl, r', hr', e, _⟩
      apply hany
      rw [List.any_eq_true]
      exact ⟨l, hl, (hasKey_groupBy r2 rk _ h2).2 ⟨r', hr', e.symm⟩⟩
  · simp only [hc, if_false]
    by_cases hany : (r2.any fun row => hasKey (groupBy r lk) (project rk row)) = true
    · simp only [hany, if_true, truePosRel, List.mem_singleton]
      rw [List.any_eq_true] at hany
      obtain ⟨r', hr', hk⟩ := hany
      obtain ⟨l, hl, e⟩ := (hasKey_groupBy r lk _ h1).1 hk
      constructor
      · intro hx; exact ⟨l, hl, r', hr', e, hx⟩
      · rintro ⟨_, _, _, _, _, hx⟩; exact hx
    · simp only [hany, Bool.false_eq_true, if_false, falsePosRel, List.not_mem_nil, false_iff]
      rintro ⟨l, hl, r', hr', e, _⟩
      apply hany
      rw [List.any_eq_true]
      exact ⟨r', hr', (hasKey_groupBy r lk _ h1).2 ⟨l, hl, e⟩⟩

end Arrai.C04
