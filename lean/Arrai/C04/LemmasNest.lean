/-
  C04 helper lemmas, part 11: `Nest` (nestWithFunc + Reduce) refines `Spec.nest`; the ranking loop of
  `Rank` assigns the number of strictly smaller keys.  Core-only.
-/
import Arrai.C04.LemmasTop

namespace Arrai.C04
open Spec Impl

/-! ### Reduce -/

theorem mem_reduce (a : List V) (getKey : V → Option V) (red : Option V → List V → List (Option V))
    (m : Option V) :
    m ∈ reduce a getKey red ↔
      ∃ x ∈ a, m ∈ red (getKey x) (a.filter fun v => decide (getKey v = getKey x)) := by
  unfold reduce
  simp only [List.mem_flatMap, mem_dedup, List.mem_map]
  constructor
  · rintro ⟨k, ⟨x, hx, e⟩, hm⟩
    subst e
    exact ⟨x, hx, hm⟩
  · rintro ⟨x, hx, hm⟩
    exact ⟨getKey x, ⟨x, hx, rfl⟩, hm⟩

theorem isTrue_false_enumerate {a : Rep} (h : Impl.isTrue a = false) : enumerate a = [] := by
  cases a with
  | empty => rfl
  | true_ => simp [Impl.isTrue] at h
  | relation r =>
    simp only [Impl.isTrue, Bool.not_eq_false'] at h
    have : r.rows = [] := by simpa using h
    simp [enumerate, this]
  | seq k ps =>
    simp only [Impl.isTrue, Bool.not_eq_false'] at h
    have : ps = [] := by simpa using h
    simp [enumerate, this]
  | generic xs =>
    simp only [Impl.isTrue, Bool.not_eq_false'] at h
    have : xs = [] := by simpa using h
    simp [enumerate, this]
  | union xs =>
    simp only [Impl.isTrue, Bool.not_eq_false'] at h
    have : xs = [] := by simpa using h
    simp [enumerate, this]

theorem finish_map_some' {α : Type} (l : List α) (g : α → V) :
    ((l.map fun t => some (g t)).any Option.isNone) = false ∧
      (l.map fun t => some (g t)).filterMap id = l.map g := by
  induction l with
  | nil => simp
  | cons r rs ih => simp [ih.1, ih.2]

/-! ### Nest -/

section nest
variable (relAttrs attrs : Names) (attr : String)
variable (hsub : isSubset attrs relAttrs = true) (hclash : (minus relAttrs attrs).contains attr = false)

/-- the member `nestGroup` builds for the bucket of `x` -/
def nestMember (xs : List V) (x : V) : Tup :=
  merge (projected (minus relAttrs attrs) (tupOf x))
    [(attr, V.mkSet ((xs.filter fun v => decide (projectT (minus relAttrs attrs) v =
        projectT (minus relAttrs attrs) x)).map fun t => V.mkTup (projected attrs (tupOf t))))]

include hsub hclash in
theorem nestGroup_member (xs : List V) (hxs : WFMembers relAttrs xs) (x : V) (hx : x ∈ xs) :
    nestGroup attr (projectT attrs) (projectT (minus relAttrs attrs) x)
      (xs.filter fun v => decide (projectT (minus relAttrs attrs) v = projectT (minus relAttrs attrs) x)) =
      [some (V.mkTup (nestMember relAttrs attrs attr xs x))] := by
  have hkeyhas : ∀ y ∈ xs, ∀ n ∈ minus relAttrs attrs, has (tupOf y) n = true := by
    intro y hy n hn
    rw [(hxs y hy).2]
    have := (contains_minus' relAttrs attrs n).symm ▸ List.contains_iff_mem.2 hn
    cases h : relAttrs.contains n
    · rw [h] at this; simp at this
    · rfl
  have hattrhas : ∀ y ∈ xs, ∀ n ∈ attrs, has (tupOf y) n = true := by
    intro y hy n hn
    rw [(hxs y hy).2]
    exact (isSubset_iff attrs relAttrs).1 hsub n (List.contains_iff_mem.2 hn)
  rw [projectT_some (hkeyhas x hx)]
  unfold nestGroup
  simp only []
  -- the bucket's members all project onto `attrs`
  have hmap : ∀ (l : List V), (∀ y ∈ l, y ∈ xs) →
      l.map (projectT attrs) = l.map fun t => some (V.mkTup (projected attrs (tupOf t))) := by
    intro l hl
    apply List.map_congr_left
    intro y hy
    exact projectT_some (hattrhas y (hl y hy))
  have hbucket : ∀ y ∈ xs.filter (fun v => decide (projectT (minus relAttrs attrs) v =
      some (V.mkTup (projected (minus relAttrs attrs) (tupOf x))))), y ∈ xs :=
    fun y hy => (List.mem_filter.1 hy).1
  rw [hmap _ hbucket]
  obtain ⟨hany, hfm⟩ := finish_map_some' (xs.filter (fun v => decide (projectT (minus relAttrs attrs) v =
      some (V.mkTup (projected (minus relAttrs attrs) (tupOf x)))))) (fun t => V.mkTup (projected attrs (tupOf t)))
  rw [hany, hfm]
  simp only [Bool.false_eq_true, if_false]
  -- the merge never clashes: the key has no attribute `attr`
  have hag : agree (tupOf (V.mkTup (projected (minus relAttrs attrs) (tupOf x))))
      (tupOf (V.mkTup [(attr, V.mkSet ((xs.filter (fun v => decide (projectT (minus relAttrs attrs) v =
        some (V.mkTup (projected (minus relAttrs attrs) (tupOf x)))))).map
          fun t => V.mkTup (projected attrs (tupOf t))))])) = true := by
    rw [agree_iff]
    intro n v w hv hw
    rw [get_tupOf_mkTup, get_projected _ _ _ (hkeyhas x hx)] at hv
    rw [get_tupOf_mkTup, get_cons] at hw
    by_cases e : attr = n
    · subst e; rw [hclash] at hv; simp at hv
    · simp [e] at hw
  rw [mergeT_eq _ _ (canonT_mkTup _) hag]
  congr 2
  apply mkTup_congr
  intro n
  unfold nestMember
  rw [get_merge, get_merge, has_tupOf_mkTup, get_tupOf_mkTup, get_tupOf_mkTup, projectT_some (hkeyhas x hx)]

theorem get_nestMember (xs : List V) (hxs : WFMembers relAttrs xs) (x : V) (hx : x ∈ xs)
    (hsub : isSubset attrs relAttrs = true) (hclash : (minus relAttrs attrs).contains attr = false) :
    nestMember relAttrs attrs attr xs x ≃
      (attr, nestedOf (xs.map tupOf) attrs (tupOf x)) :: restrict (fun m => !attrs.contains m) (tupOf x) := by
  have hkeyhas : ∀ y ∈ xs, ∀ n ∈ minus relAttrs attrs, has (tupOf y) n = true := by
    intro y hy n hn
    rw [(hxs y hy).2]
    have := (contains_minus' relAttrs attrs n).symm ▸ List.contains_iff_mem.2 hn
    cases h : relAttrs.contains n
    · rw [h] at this; simp at this
    · rfl
  have hattrhas : ∀ y ∈ xs, ∀ n ∈ attrs, has (tupOf y) n = true := by
    intro y hy n hn
    rw [(hxs y hy).2]
    exact (isSubset_iff attrs relAttrs).1 hsub n (List.contains_iff_mem.2 hn)
  -- the nested relation is the specified one
  have hkeq : ∀ y ∈ xs, (projectT (minus relAttrs attrs) y = projectT (minus relAttrs attrs) x ↔
      keyOf attrs (tupOf y) = keyOf attrs (tupOf x)) := by
    intro y hy
    rw [projectT_eq_iff (hkeyhas y hy) (hkeyhas x hx), keyOf_eq_iff]
    constructor
    · intro h m hm
      cases hr : relAttrs.contains m
      · rw [(has_false_iff _ m).1 (by rw [(hxs y hy).2]; exact hr),
          (has_false_iff _ m).1 (by rw [(hxs x hx).2]; exact hr)]
      · exact h m (List.contains_iff_mem.1 (by rw [contains_minus', hr, hm]; rfl))
    · intro h n hn
      have := (contains_minus' relAttrs attrs n).symm ▸ List.contains_iff_mem.2 hn
      apply h n
      cases ha : attrs.contains n
      · rfl
      · rw [ha] at this; simp at this
  have hnested : V.mkSet ((xs.filter fun v => decide (projectT (minus relAttrs attrs) v =
        projectT (minus relAttrs attrs) x)).map fun t => V.mkTup (projected attrs (tupOf t))) =
      nestedOf (xs.map tupOf) attrs (tupOf x) := by
    unfold nestedOf denRows
    apply mkSet_congr
    intro v
    simp only [List.mem_map, List.mem_filter, decide_eq_true_eq, mem_group]
    constructor
    · rintro ⟨y, ⟨hy, hk⟩, e⟩
      refine ⟨restrict attrs.contains (tupOf y), ⟨tupOf y, ⟨⟨y, hy, rfl⟩, (hkeq y hy).1 hk⟩, rfl⟩, ?_⟩
      rw [← e]
      apply mkTup_congr
      intro m
      rw [get_restrict, get_projected _ _ _ (hattrhas y hy)]
    · rintro ⟨t, ⟨u, ⟨⟨y, hy, ey⟩, hk⟩, et⟩, e⟩
      subst ey; subst et
      refine ⟨y, ⟨hy, (hkeq y hy).2 hk⟩, ?_⟩
      rw [← e]
      apply mkTup_congr
      intro m
      rw [get_restrict, get_projected _ _ _ (hattrhas y hy)]
  intro m
  unfold nestMember
  rw [hnested, get_merge]
  unfold has
  rw [get_projected _ _ _ (hkeyhas x hx)]
  simp only [get_cons, get_nil, get_restrict, contains_minus']
  by_cases e : attr = m
  · subst e
    have : (relAttrs.contains attr && !attrs.contains attr) = false := by
      rw [← contains_minus']; exact hclash
    rw [this]; simp
  · simp only [e, if_false]
    cases hr : relAttrs.contains m <;> cases ha : attrs.contains m <;> simp
    · exact ((has_false_iff _ m).1 (by rw [(hxs x hx).2]; exact hr)).symm
    · cases get m (tupOf x) <;> simp

end nest

theorem nest_refines (a : Rep) (relAttrs attrs : Names) (attr : String) (wa : RepWF a)
    (ha : relationAttrs a = some relAttrs) (hsub : isSubset attrs relAttrs = true)
    (hclash : (minus relAttrs attrs).contains attr = false) :
    ∃ res, Impl.nest a relAttrs attrs attr = .ok res ∧ den res = Spec.nest (den a) attrs attr := by
  have hxs := wfMembers_enumerate a relAttrs wa ha
  unfold Impl.nest nestWithFunc
  by_cases ht : Impl.isTrue a = true
  · simp only [ht, Bool.not_true, Bool.false_eq_true, if_false, hsub]
    -- every member of the reduction
    have hmem : ∀ m, m ∈ reduce (enumerate a) (projectT (minus relAttrs attrs)) (nestGroup attr (projectT attrs)) ↔
        ∃ x ∈ enumerate a, m = some (V.mkTup (nestMember relAttrs attrs attr (enumerate a) x)) := by
      intro m
      rw [mem_reduce]
      constructor
      · rintro ⟨x, hx, hm⟩
        rw [nestGroup_member relAttrs attrs attr hsub hclash _ hxs x hx] at hm
        exact ⟨x, hx, by simpa using hm⟩
      · rintro ⟨x, hx, e⟩
        refine ⟨x, hx, ?_⟩
        rw [nestGroup_member relAttrs attrs attr hsub hclash _ hxs x hx, e]
        simp
    have hsome : ∀ m ∈ reduce (enumerate a) (projectT (minus relAttrs attrs)) (nestGroup attr (projectT attrs)),
        m.isSome = true := by
      intro m hm
      obtain ⟨x, _, e⟩ := (hmem m).1 hm
      rw [e]; rfl
    refine ⟨_, finish_ok _ hsome, ?_⟩
    have hcanon : ∀ z ∈ (reduce (enumerate a) (projectT (minus relAttrs attrs))
        (nestGroup attr (projectT attrs))).filterMap id, CanonT z := by
      intro z hz
      rw [List.mem_filterMap] at hz
      obtain ⟨m, hm, e⟩ := hz
      obtain ⟨x, _, e'⟩ := (hmem m).1 hm
      rw [e'] at e; simp at e; rw [← e]; exact canonT_mkTup _
    rw [den_ofMembers _ hcanon, mkSet_eq_denRows _ hcanon, den_eq_denRows a relAttrs wa ha, nest_denRows]
    apply denRows_congr
    rw [nestRows_eq]
    constructor
    · intro t ht'
      obtain ⟨z, hz, e⟩ := List.mem_map.1 ht'
      rw [List.mem_filterMap] at hz
      obtain ⟨m, hm, em⟩ := hz
      obtain ⟨x, hx, e'⟩ := (hmem m).1 hm
      rw [e'] at em; simp at em
      refine ⟨_, List.mem_map.2 ⟨tupOf x, List.mem_map.2 ⟨x, hx, rfl⟩, rfl⟩, ?_⟩
      rw [← e, ← em]
      intro n
      rw [get_tupOf_mkTup]
      exact get_nestMember relAttrs attrs attr _ hxs x hx hsub hclash n
    · intro t ht'
      obtain ⟨tx, htx, e⟩ := List.mem_map.1 ht'
      obtain ⟨x, hx, ex⟩ := List.mem_map.1 htx
      subst ex
      refine ⟨tupOf (V.mkTup (nestMember relAttrs attrs attr (enumerate a) x)), ?_, ?_⟩
      · refine List.mem_map.2 ⟨_, ?_, rfl⟩
        rw [List.mem_filterMap]
        exact ⟨_, (hmem _).2 ⟨x, hx, rfl⟩, rfl⟩
      · rw [← e]
        intro n
        rw [get_tupOf_mkTup]
        exact get_nestMember relAttrs attrs attr _ hxs x hx hsub hclash n
  · have ht' : Impl.isTrue a = false := by cases h : Impl.isTrue a <;> simp_all
    simp only [ht', Bool.not_false, if_true]
    refine ⟨a, rfl, ?_⟩
    unfold den
    rw [isTrue_false_enumerate ht']
    rfl

/-! ### Rank -/

def keyOfEntry (attr : String) (e : Entry) : V := (get attr e.ranker).getD V.none

/-- the number of entries with a strictly smaller key -/
def smallerCount (es : List Entry) (attr : String) (e : Entry) : Nat :=
  (es.filter fun x => V.cmp (keyOfEntry attr x) (keyOfEntry attr e) == .lt).length

def cnt (attr : String) (L : List Entry) (a : V) : Nat :=
  (L.filter fun x => V.cmp (keyOfEntry attr x) a == .lt).length

/-- sorted by key, non-strictly -/
def SortedE (attr : String) (L : List Entry) : Prop :=
  L.Pairwise fun x y => V.cmp (keyOfEntry attr y) (keyOfEntry attr x) ≠ .lt

theorem mem_insertBy (attr : String) (e x : Entry) (l : List Entry) :
    x ∈ insertBy attr e l ↔ x = e ∨ x ∈ l := by
  induction l with
  | nil => simp [insertBy]
  | cons y ys ih =>
    unfold insertBy
    split
    · simp
    · simp only [List.mem_cons, ih]
      constructor
      · rintro (h | h | h) <;> simp [h]
      · rintro (h | h | h) <;> simp [h]

theorem sorted_insertBy (attr : String) (e : Entry) (l : List Entry) (h : SortedE attr l) :
    SortedE attr (insertBy attr e l) := by
  induction l with
  | nil => simp [insertBy, SortedE]
  | cons y ys ih =>
    unfold SortedE at h
    rw [List.pairwise_cons] at h
    unfold insertBy
    split
    · rename_i hlt
      have hlt' : V.cmp (keyOfEntry attr e) (keyOfEntry attr y) = .lt := by
        simpa [keyOfEntry] using hlt
      unfold SortedE
      rw [List.pairwise_cons]
      refine ⟨?_, List.pairwise_cons.2 h⟩
      intro z hz hzlt
      rcases List.mem_cons.1 hz with e1 | hz'
      · subst e1
        exact V.cmp_lt_asymm _ _ hlt' hzlt
      · exact h.1 z hz' (V.cmp_lt_trans _ _ _ hzlt hlt')
    · rename_i hnlt
      have hnlt' : V.cmp (keyOfEntry attr e) (keyOfEntry attr y) ≠ .lt := by
        simpa [keyOfEntry] using hnlt
      unfold SortedE
      rw [List.pairwise_cons]
      refine ⟨?_, ih h.2⟩
      intro z hz
      rcases (mem_insertBy attr e z ys).1 hz with e1 | hz'
      · subst e1; exact hnlt'
      · exact h.1 z hz'

theorem sorted_sortBy (attr : String) (es : List Entry) : SortedE attr (sortBy attr es) := by
  induction es with
  | nil => simp [sortBy, SortedE]
  | cons e r ih => exact sorted_insertBy attr e _ ih

theorem mem_sortBy (attr : String) (es : List Entry) (x : Entry) : x ∈ sortBy attr es ↔ x ∈ es := by
  induction es with
  | nil => simp [sortBy]
  | cons e r ih =>
    show x ∈ insertBy attr e (sortBy attr r) ↔ _
    rw [mem_insertBy, ih]; simp

theorem filter_length_insertBy (attr : String) (p : Entry → Bool) (e : Entry) (l : List Entry) :
    ((insertBy attr e l).filter p).length = ((e :: l).filter p).length := by
  induction l with
  | nil => simp [insertBy]
  | cons y ys ih =>
    unfold insertBy
    split
    · rfl
    · simp only [List.filter_cons] at ih ⊢
      by_cases hy : p y = true <;> by_cases he : p e = true <;> simp [hy, he] at ih ⊢ <;> omega

theorem cnt_sortBy (attr : String) (es : List Entry) (a : V) : cnt attr (sortBy attr es) a = cnt attr es a := by
  unfold cnt
  induction es with
  | nil => rfl
  | cons e r ih =>
    show ((insertBy attr e (sortBy attr r)).filter _).length = _
    rw [filter_length_insertBy]
    simp only [List.filter_cons]
    split <;> simp [ih]

theorem length_sortBy (attr : String) (es : List Entry) : (sortBy attr es).length = es.length := by
  induction es with
  | nil => rfl
  | cons e r ih =>
    show (insertBy attr e (sortBy attr r)).length = _
    have : ∀ l : List Entry, (insertBy attr e l).length = l.length + 1 := by
      intro l
      induction l with
      | nil => rfl
      | cons y ys ih' => unfold insertBy; split <;> simp [ih']
    rw [this, ih]; rfl

/-- what the loop writes into an entry -/
def ranked (attr : String) (L : List Entry) (r : Entry) : Entry :=
  { r with input := (attr, V.num (Int.ofNat (cnt attr L (keyOfEntry attr r)))) ::
      r.input.filter (fun p => p.1 ≠ attr) }

theorem rankLoop_spec (attr : String) (P L' : List Entry) (rank : Nat) (current : V)
    (hs : SortedE attr (P ++ L'))
    (hrank : rank = cnt attr (P ++ L') current)
    (hP : ∀ x ∈ P, V.cmp current (keyOfEntry attr x) ≠ .lt)
    (hL : ∀ y ∈ L', V.cmp (keyOfEntry attr y) current ≠ .lt) :
    rankLoop attr L' P.length rank current = L'.map (ranked attr (P ++ L')) := by
  induction L' generalizing P rank current with
  | nil => rfl
  | cons r rest ih =>
    unfold rankLoop
    simp only [List.map_cons]
    have hsplit : P ++ r :: rest = (P ++ [r]) ++ rest := by simp
    -- sortedness facts
    have hsorted := hs
    unfold SortedE at hsorted
    rw [List.pairwise_append] at hsorted
    obtain ⟨hPs, hRs, hcross⟩ := hsorted
    rw [List.pairwise_cons] at hRs
    -- the rank written for `r`
    have hrk : (if (get attr r.ranker).getD V.none = current then rank else P.length) =
        cnt attr (P ++ r :: rest) (keyOfEntry attr r) := by
      by_cases e : (get attr r.ranker).getD V.none = current
      · rw [if_pos e, hrank]
        show _ = cnt attr _ ((get attr r.ranker).getD V.none)
        rw [e]
      · rw [if_neg e]
        have hne : keyOfEntry attr r ≠ current := e
        have hlt : V.cmp current (keyOfEntry attr r) = .lt := by
          rcases V.cmp_trichotomy current (keyOfEntry attr r) with h | h | h
          · exact h
          · exact absurd h.symm hne
          · exact absurd h (hL r (by simp))
        unfold cnt
        rw [List.filter_append, List.length_append]
        have h1 : (P.filter fun x => V.cmp (keyOfEntry attr x) (keyOfEntry attr r) == .lt) = P := by
          apply List.filter_eq_self.2
          intro x hx
          have := hP x hx
          rcases V.cmp_trichotomy (keyOfEntry attr x) current with h | h | h
          · simp [V.cmp_lt_trans _ _ _ h hlt]
          · rw [h]; simp [hlt]
          · exact absurd h this
        have h2 : ((r :: rest).filter fun x => V.cmp (keyOfEntry attr x) (keyOfEntry attr r) == .lt) = [] := by
          apply List.filter_eq_nil_iff.2
          intro x hx
          rcases List.mem_cons.1 hx with e1 | hx'
          · subst e1; simp [V.cmp_self]
          · have := hRs.1 x hx'
            simpa using this
        rw [h1, h2]; simp
    congr 1
    · unfold ranked
      rw [hrk]
    · have := ih (P ++ [r]) (if (get attr r.ranker).getD V.none = current then rank else P.length)
        ((get attr r.ranker).getD V.none)
        (by rw [← hsplit]; exact hs)
        (by rw [← hsplit]; exact hrk)
        (by
          intro x hx
          rcases List.mem_append.1 hx with hx' | hx'
          · exact hcross x hx' r (by simp)
          · simp at hx'; subst hx'; simp [V.cmp_self, keyOfEntry])
        (by intro y hy; exact hRs.1 y hy)
      rw [← hsplit] at this
      simpa using this

theorem rankPass_eq (es : List Entry) (attr : String) :
    rankPass es attr = (sortBy attr es).map (ranked attr (sortBy attr es)) := by
  unfold rankPass
  have hs := sorted_sortBy attr es
  cases hL : sortBy attr es with
  | nil => rfl
  | cons e0 rest =>
    rw [hL] at hs
    have := rankLoop_spec attr [] (e0 :: rest) 0 ((get attr e0.ranker).getD V.none) hs
      (by
        unfold cnt
        symm
        rw [List.length_eq_zero_iff]
        apply List.filter_eq_nil_iff.2
        intro x hx
        unfold SortedE at hs
        rw [List.pairwise_cons] at hs
        rcases List.mem_cons.1 hx with e1 | hx'
        · subst e1; simp [V.cmp_self, keyOfEntry]
        · have := hs.1 x hx'
          simpa [keyOfEntry] using this)
      (by intro x hx; simp at hx)
      (by
        intro y hy
        unfold SortedE at hs
        rw [List.pairwise_cons] at hs
        rcases List.mem_cons.1 hy with e1 | hy'
        · subst e1; simp [V.cmp_self, keyOfEntry]
        · exact hs.1 y hy')
    simpa using this

theorem rankPass_spec (es : List Entry) (attr : String) :
    ∀ e' ∈ rankPass es attr, ∃ e ∈ es, e'.ranker = e.ranker ∧
      e'.input = (attr, V.num (Int.ofNat (smallerCount es attr e))) :: e.input.filter (fun p => p.1 ≠ attr) := by
  intro e' he'
  rw [rankPass_eq] at he'
  obtain ⟨r, hr, e⟩ := List.mem_map.1 he'
  refine ⟨r, (mem_sortBy attr es r).1 hr, ?_, ?_⟩
  · rw [← e]; rfl
  · rw [← e]
    unfold ranked smallerCount
    simp only
    rw [cnt_sortBy]
    rfl

theorem rankPass_length (es : List Entry) (attr : String) : (rankPass es attr).length = es.length := by
  rw [rankPass_eq, List.length_map, length_sortBy]

end Arrai.C04

namespace Arrai.C04
open Spec Impl

/-! ### several rank attributes: the passes are independent -/

theorem cnt_sortBy' (attr attr' : String) (es : List Entry) (a : V) :
    cnt attr' (sortBy attr es) a = cnt attr' es a := by
  unfold cnt
  induction es with
  | nil => rfl
  | cons e r ih =>
    show ((insertBy attr e (sortBy attr r)).filter _).length = _
    rw [filter_length_insertBy]
    simp only [List.filter_cons]
    split <;> simp [ih]

theorem cnt_map_ranker (attr' : String) (L : List Entry) (f : Entry → Entry) (hf : ∀ r, (f r).ranker = r.ranker)
    (a : V) : cnt attr' (L.map f) a = cnt attr' L a := by
  unfold cnt
  induction L with
  | nil => rfl
  | cons x xs ih =>
    have hk : keyOfEntry attr' (f x) = keyOfEntry attr' x := by unfold keyOfEntry; rw [hf x]
    simp only [List.map_cons, List.filter_cons, hk]
    split <;> simp [ih]

/-- a pass rewrites inputs only: the multiset of rankers, hence every count of smaller keys, is unchanged -/
theorem cnt_rankPass (attr attr' : String) (es : List Entry) (a : V) :
    cnt attr' (rankPass es attr) a = cnt attr' es a := by
  rw [rankPass_eq, cnt_map_ranker attr' _ (ranked attr (sortBy attr es)) (fun r => rfl), cnt_sortBy']

/-- the input of an entry after the passes for `rs` (counts taken in `es0`) -/
def rankedInput (es0 : List Entry) (rs : List String) (ranker input : Tup) : Tup :=
  rs.foldl (fun inp r => (r, V.num (Int.ofNat (cnt r es0 ((get r ranker).getD V.none)))) ::
    inp.filter (fun p => p.1 ≠ r)) input

theorem foldl_rankPass_spec (es0 : List Entry) (rs : List String) (es : List Entry)
    (hcnt : ∀ r a, cnt r es a = cnt r es0 a) :
    ∀ e' ∈ rs.foldl rankPass es, ∃ e ∈ es, e'.ranker = e.ranker ∧
      e'.input = rankedInput es0 rs e.ranker e.input := by
  induction rs generalizing es with
  | nil => intro e' he'; exact ⟨e', he', rfl, rfl⟩
  | cons r rs ih =>
    intro e' he'
    simp only [List.foldl_cons] at he'
    obtain ⟨e1, he1, hr1, hi1⟩ := ih (rankPass es r) (fun r' a => by rw [cnt_rankPass, hcnt]) e' he'
    obtain ⟨e, he, hr, hi⟩ := rankPass_spec es r e1 he1
    refine ⟨e, he, hr1.trans hr, ?_⟩
    rw [hi1, hi, hr]
    unfold rankedInput
    simp only [List.foldl_cons]
    have : smallerCount es r e = cnt r es0 ((get r e.ranker).getD V.none) := by
      unfold smallerCount
      exact hcnt r _
    rw [this]

theorem foldl_rankPass_length (rs : List String) (es : List Entry) :
    (rs.foldl rankPass es).length = es.length := by
  induction rs generalizing es with
  | nil => rfl
  | cons r rs ih => simp only [List.foldl_cons]; rw [ih, rankPass_length]

end Arrai.C04

namespace Arrai.C04
open Spec Impl

theorem isSubset_minus (a b : Names) : isSubset (minus a b) a = true := by
  rw [isSubset_iff]
  intro n hn
  rw [contains_minus'] at hn
  cases h : a.contains n
  · rw [h] at hn; simp at hn
  · rfl

/-- `NestExpr.Eval` (both `|attrs|` and the inverse form `~|attrs|`) -/
theorem nestExpr_refines (inverse : Bool) (a : Rep) (relAttrs attrs : Names) (attr : String) (wa : RepWF a)
    (ha : relationAttrs a = some relAttrs) (hsub : isSubset attrs relAttrs = true)
    (hne : inverse = true → (minus relAttrs attrs).isEmpty = false)
    (hclash : (minus relAttrs (if inverse then minus relAttrs attrs else attrs)).contains attr = false) :
    ∃ res, nestExpr inverse a attrs attr = .ok res ∧
      den res = Spec.nest (den a) (if inverse then minus relAttrs attrs else attrs) attr := by
  unfold nestExpr
  by_cases ht : Impl.isTrue a = true
  · simp only [ht, Bool.not_true, Bool.false_eq_true, if_false, ha, hsub]
    cases inverse with
    | false =>
      simp only [Bool.false_eq_true, if_false, Bool.false_and] at hclash ⊢
      rw [hclash]
      simp only [Bool.false_eq_true, if_false]
      exact nest_refines a relAttrs attrs attr wa ha hsub hclash
    | true =>
      simp only [if_true, Bool.true_and] at hclash ⊢
      rw [hne rfl, hclash]
      simp only [Bool.false_eq_true, if_false]
      exact nest_refines a relAttrs (minus relAttrs attrs) attr wa ha (isSubset_minus _ _) hclash
  · have ht' : Impl.isTrue a = false := by cases h : Impl.isTrue a <;> simp_all
    simp only [ht', Bool.not_false, if_true]
    refine ⟨a, rfl, ?_⟩
    unfold den
    rw [isTrue_false_enumerate ht']
    rfl

end Arrai.C04
