/-
  C04 helper lemmas, part 6: `createMode` on the projectors the eight `partitionNames` produce.
  The two output headings are unions of the classes left-only / common / right-only; `createMode`'s tests
  on index sets become Boolean functions of which classes are included and which are empty, and the
  finite table is checked by `decide`.  Core-only.
-/
import Arrai.C04.LemmasPos

namespace Arrai.C04
open Spec Impl

/-! ### index-level tests are name-level tests -/

theorem contains_map_idxOf {attrs b : Names} {n : String} (hb : ∀ m ∈ b, m ∈ attrs) (hn : n ∈ attrs) :
    (b.map (idxOf attrs)).contains (idxOf attrs n) = b.contains n := by
  cases hc : b.contains n
  · rw [Bool.eq_false_iff]
    intro h
    obtain ⟨m, hm, e⟩ := List.mem_map.1 (List.contains_iff_mem.1 h)
    have := idxOf_inj (hb m hm) hn e
    have hmem : b.contains n = true := by rw [← this]; exact List.contains_iff_mem.2 hm
    rw [hmem] at hc
    cases hc
  · exact List.contains_iff_mem.2 (List.mem_map.2 ⟨n, List.contains_iff_mem.1 hc, rfl⟩)

theorem isSubProjection_names {attrs a b : Names} (ha : ∀ m ∈ a, m ∈ attrs) (hb : ∀ m ∈ b, m ∈ attrs) :
    isSubProjection (a.map (idxOf attrs)) (b.map (idxOf attrs)) = isSubset a b := by
  unfold isSubProjection isSubset
  rw [Bool.eq_iff_iff, List.all_eq_true, List.all_eq_true]
  constructor
  · intro h n hn
    have := h (idxOf attrs n) (List.mem_map.2 ⟨n, hn, rfl⟩)
    rwa [contains_map_idxOf hb (ha n hn)] at this
  · intro h i hi
    obtain ⟨n, hn, e⟩ := List.mem_map.1 hi
    subst e
    rw [contains_map_idxOf hb (ha n hn)]
    exact h n hn

/-- some name of `a` is in `b` -/
def meets (a b : Names) : Bool := a.any b.contains

theorem meets_comm (a b : Names) : meets a b = meets b a := by
  unfold meets
  cases h : b.any a.contains
  · rw [Bool.eq_false_iff] at h ⊢
    intro h'
    apply h
    rw [List.any_eq_true] at h' ⊢
    obtain ⟨n, hn, hc⟩ := h'
    exact ⟨n, List.contains_iff_mem.1 hc, List.contains_iff_mem.2 hn⟩
  · rw [List.any_eq_true] at h ⊢
    obtain ⟨n, hn, hc⟩ := h
    exact ⟨n, List.contains_iff_mem.1 hc, List.contains_iff_mem.2 hn⟩

theorem hasIntersect_eq (a b : Names) : hasIntersect a b = meets a b := by
  unfold hasIntersect
  split
  · rfl
  · exact meets_comm b a

theorem hasCommonIndices_names {attrs a b : Names} (ha : ∀ m ∈ a, m ∈ attrs) (hb : ∀ m ∈ b, m ∈ attrs) :
    hasCommonIndices (a.map (idxOf attrs)) (b.map (idxOf attrs)) = meets a b := by
  have key : ∀ {a b : Names}, (∀ m ∈ a, m ∈ attrs) → (∀ m ∈ b, m ∈ attrs) →
      (a.map (idxOf attrs)).any (b.map (idxOf attrs)).contains = meets a b := by
    intro a b ha hb
    unfold meets
    rw [Bool.eq_iff_iff, List.any_eq_true, List.any_eq_true]
    constructor
    · rintro ⟨i, hi, hc⟩
      obtain ⟨n, hn, e⟩ := List.mem_map.1 hi
      subst e
      rw [contains_map_idxOf hb (ha n hn)] at hc
      exact ⟨n, hn, hc⟩
    · rintro ⟨n, hn, hc⟩
      refine ⟨idxOf attrs n, List.mem_map.2 ⟨n, hn, rfl⟩, ?_⟩
      rw [contains_map_idxOf hb (ha n hn)]
      exact hc
  unfold hasCommonIndices
  split
  · exact key ha hb
  · rw [key hb ha]; exact meets_comm b a

/-! ### classes -/

section classes
variable (A1 A2 : Names)

def cX (n : String) : Bool := A1.contains n && !A2.contains n
def cY (n : String) : Bool := A1.contains n && A2.contains n
def cZ (n : String) : Bool := !A1.contains n && A2.contains n

/-- which classes the two output headings include -/
structure Flags where
  fX : Bool
  fY : Bool
  gY : Bool
  gZ : Bool
  deriving DecidableEq, Repr

/-- `lo` is the union of the classes `f` selects on the left, `ro` on the right -/
def Shape (f : Flags) (lo ro : Names) : Prop :=
  (∀ n, lo.contains n = ((f.fX && cX A1 A2 n) || (f.fY && cY A1 A2 n))) ∧
  (∀ n, ro.contains n = ((f.gY && cY A1 A2 n) || (f.gZ && cZ A1 A2 n)))

def flagsOf (op : JoinOp) (ex ez : Bool) : Flags :=
  match op with
  | .join => if ex then ⟨false, false, true, true⟩ else if ez then ⟨true, true, false, false⟩
             else ⟨true, true, false, true⟩
  | .compose => ⟨true, false, false, true⟩
  | .common => ⟨false, true, false, false⟩
  | .exists_ => ⟨false, false, false, false⟩
  | .rmatch => ⟨false, false, true, true⟩
  | .lmatch => ⟨true, true, false, false⟩
  | .rres => ⟨false, false, false, true⟩
  | .lres => ⟨true, false, false, false⟩

theorem contains_filter (l : Names) (p : String → Bool) (n : String) :
    (l.filter p).contains n = (l.contains n && p n) := by
  apply contains_eq_of_iff
  rw [List.mem_filter, Bool.and_eq_true, List.contains_iff_mem]

theorem contains_minus' (a b : Names) (n : String) : (minus a b).contains n = (a.contains n && !b.contains n) :=
  contains_filter a _ n

theorem contains_intersect (n : String) : (intersect A1 A2).contains n = cY A1 A2 n := by
  unfold intersect cY
  split
  · exact contains_filter A1 _ n
  · rw [contains_filter, Bool.and_comm]

theorem isSubset_iff (a b : Names) : isSubset a b = true ↔ ∀ n, a.contains n = true → b.contains n = true := by
  unfold isSubset
  rw [List.all_eq_true]
  constructor
  · intro h n hn; exact h n (List.contains_iff_mem.1 hn)
  · intro h n hn; exact h n (List.contains_iff_mem.2 hn)

theorem meets_iff (a b : Names) : meets a b = true ↔ ∃ n, a.contains n = true ∧ b.contains n = true := by
  unfold meets
  rw [List.any_eq_true]
  constructor
  · rintro ⟨n, hn, hc⟩; exact ⟨n, List.contains_iff_mem.2 hn, hc⟩
  · rintro ⟨n, hn, hc⟩; exact ⟨n, List.contains_iff_mem.1 hn, hc⟩

/-- the partition `partitionNames` makes has the shape `flagsOf` predicts -/
theorem partition_shape (op : JoinOp) :
    Shape A1 A2 (flagsOf op (isSubset A1 A2) (isSubset A2 A1))
      (partitionNames op A1 A2 (intersect A1 A2)).1 (partitionNames op A1 A2 (intersect A1 A2)).2 := by
  have hc := contains_intersect A1 A2
  unfold Shape
  cases op <;> simp only [partitionNames, flagsOf]
  case join =>
    by_cases h1 : isSubset A1 A2 = true
    · simp only [h1, if_true]
      refine ⟨fun n => by simp, fun n => ?_⟩
      unfold cY cZ
      cases A1.contains n <;> cases A2.contains n <;> simp
    · by_cases h2 : isSubset A2 A1 = true
      · simp only [h1, h2, if_true, if_false, Bool.false_eq_true]
        refine ⟨fun n => ?_, fun n => by simp⟩
        unfold cX cY
        cases A1.contains n <;> cases A2.contains n <;> simp
      · simp only [h1, h2, if_false, Bool.false_eq_true]
        refine ⟨fun n => ?_, fun n => ?_⟩
        · unfold cX cY
          cases A1.contains n <;> cases A2.contains n <;> simp
        · rw [contains_minus']; unfold cZ
          cases A1.contains n <;> cases A2.contains n <;> simp
  case compose =>
    refine ⟨fun n => ?_, fun n => ?_⟩
    · rw [contains_minus', hc]; unfold cX cY
      cases A1.contains n <;> cases A2.contains n <;> simp
    · rw [contains_minus', hc]; unfold cZ cY
      cases A1.contains n <;> cases A2.contains n <;> simp
  case common => exact ⟨fun n => by rw [hc]; simp, fun n => by simp⟩
  case exists_ => exact ⟨fun n => by simp, fun n => by simp⟩
  case rmatch =>
    refine ⟨fun n => by simp, fun n => ?_⟩
    unfold cY cZ
    cases A1.contains n <;> cases A2.contains n <;> simp
  case lmatch =>
    refine ⟨fun n => ?_, fun n => by simp⟩
    unfold cX cY
    cases A1.contains n <;> cases A2.contains n <;> simp
  case rres =>
    refine ⟨fun n => by simp, fun n => ?_⟩
    rw [contains_minus', hc]; unfold cZ cY
    cases A1.contains n <;> cases A2.contains n <;> simp
  case lres =>
    refine ⟨fun n => ?_, fun n => by simp⟩
    rw [contains_minus', hc]; unfold cX cY
    cases A1.contains n <;> cases A2.contains n <;> simp

/-! ### emptiness of the classes -/

theorem ex_iff : isSubset A1 A2 = true ↔ ∀ n, cX A1 A2 n = false := by
  rw [isSubset_iff]
  unfold cX
  constructor
  · intro h n
    cases h1 : A1.contains n
    · simp
    · rw [h n h1]; rfl
  · intro h n hn
    have := h n
    rw [hn] at this
    simpa using this

theorem ez_iff : isSubset A2 A1 = true ↔ ∀ n, cZ A1 A2 n = false := by
  rw [isSubset_iff]
  unfold cZ
  constructor
  · intro h n
    cases h1 : A2.contains n
    · simp
    · rw [h n h1]; rfl
  · intro h n hn
    have := h n
    rw [hn] at this
    simpa using this

/-- no common attribute -/
def noCommon : Bool := !meets A1 A2

theorem ey_iff : noCommon A1 A2 = true ↔ ∀ n, cY A1 A2 n = false := by
  unfold noCommon cY
  rw [Bool.not_eq_true', ← Bool.not_eq_true, meets_iff]
  constructor
  · intro h n
    cases h1 : A1.contains n <;> cases h2 : A2.contains n <;> simp
    exact h ⟨n, h1, h2⟩
  · rintro h ⟨n, h1, h2⟩
    have := h n
    rw [h1, h2] at this
    cases this

end classes

/-! ### the Boolean table -/

/-- `createMode` computed from the class flags and the emptiness of the classes; `none` = one of its panics -/
def modeB (f : Flags) (ex ey ez : Bool) : Option Mode :=
  let loSubC := !(f.fX && !ex)
  let cSubLo := f.fY || ey
  let loMeetsC := f.fY && !ey
  let roSubC := !(f.gZ && !ez)
  let cSubRo := f.gY || ey
  let roMeetsC := f.gY && !ey
  if (!cSubLo && loMeetsC) || (!cSubRo && roMeetsC) then none
  else some { lhs := !loSubC, rhs := !roSubC, inBoth := loMeetsC != roMeetsC }

def loEmptyB (f : Flags) (ex ey : Bool) : Bool := !(f.fX && !ex) && !(f.fY && !ey)
def roEmptyB (f : Flags) (ey ez : Bool) : Bool := !(f.gY && !ey) && !(f.gZ && !ez)

/-- the side condition under which a strategy computes the matched pairs -/
def sideB (s : Strategy) (f : Flags) (ex ey ez : Bool) : Bool :=
  match s with
  | .keepEverything => true
  | .oneSideLeft => roEmptyB f ey ez
  | .oneSideRight => loEmptyB f ex ey
  | .commonOnly => (roEmptyB f ey ez && !(f.fX && !ex)) || (loEmptyB f ex ey && !(f.gZ && !ez))
  | .ifCommonExist => loEmptyB f ex ey && roEmptyB f ey ez

/-- for every operator and every emptiness pattern of the three classes `createMode` does not panic and
selects a strategy whose side condition holds -/
theorem modeB_total : ∀ (op : JoinOp) (ex ey ez : Bool),
    ∃ m, modeB (flagsOf op ex ez) ex ey ez = some m ∧
      sideB (strategyOf m) (flagsOf op ex ez) ex ey ez = true := by
  intro op ex ey ez
  cases op <;> cases ex <;> cases ey <;> cases ez <;> exact ⟨_, rfl, rfl⟩

/-- the two output headings never share a class -/
theorem flags_disjoint : ∀ (op : JoinOp) (ex ez : Bool),
    ((flagsOf op ex ez).fY && (flagsOf op ex ez).gY) = false := by
  intro op ex ez
  cases op <;> cases ex <;> cases ez <;> rfl

/-- a name is output iff the operator keeps its class -/
theorem flags_select : ∀ (op : JoinOp) (ex ez bx bz : Bool) (b : Bool),
    (ex = true → bx = false) → (ez = true → bz = false) →
    (((flagsOf op ex ez).fX && bx) || ((flagsOf op ex ez).fY && b) ||
      (((flagsOf op ex ez).gY && b) || ((flagsOf op ex ez).gZ && bz))) =
    ((op.keepL && bx) || (op.keepC && b) || (op.keepR && bz)) := by
  intro op ex ez bx bz b
  cases op <;> cases ex <;> cases ez <;> cases bx <;> cases bz <;> cases b <;> simp [flagsOf, JoinOp.keepL, JoinOp.keepC, JoinOp.keepR]

end Arrai.C04
